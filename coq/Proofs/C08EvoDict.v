(* C08 evolution — map fields whose values are messages: the two-field Entry message is parsed by the older reader
   (key as in C01, value through the induction hypothesis), merged into the dict, written again by the older writer,
   and the newer reader sees the same Entry in both records. *)
From Coq Require Import ZArith List Bool Lia ZifyBool.
From BP Require Import Base.Prelude Model.Types Model.Varint Model.Scalar Model.Float Model.Utf8.
From BP Require Import Model.Object Model.Eq Model.TimeCore Model.Encode Model.Decode Model.WellFormed Model.C01Def.
From BP Require Model.C08Step.
From BP Require Import gen.Tables Proofs.BytesP Proofs.VarintP Proofs.LenP Proofs.C01Scalar Proofs.C01Frame Proofs.C01Step Proofs.C01Apply
     Proofs.C01Elem Proofs.C01Field Proofs.C01Builtin Proofs.C01Unfold Proofs.C01Value Proofs.C01Slot Proofs.C01Slot2
     Proofs.C01Dict Proofs.C01Msg Proofs.C01Main Proofs.C01Stable Proofs.C06EncP.
From BP Require Import Proofs.C08EvoDef Proofs.C08EvoBridge Proofs.C08EvoIndep Proofs.C08EvoElem Proofs.C08EvoSlot.
Import ListNotations.

(* _serialize_single of a bytes payload under a map field number *)
Lemma ser_entry_shape msg num b :
  serialize_with msg num TMap (PBytes b) true None =
  (do key <- encode_varint (Z.lor (Z.shiftl num 3) 2); do n <- encode_varint (Zlength b); Ok (key ++ n ++ b)).
Proof.
  unfold serialize_with, preprocess_with.
  change (tmem TMap [TEnum; TBool; TInt32; TInt64; TUInt32; TUInt64]) with false.
  change (tmem TMap [TSInt32; TSInt64]) with false. change (tmem TMap FIXED_TYPES) with false.
  change (ptype_eqb TMap TString) with false. change (ptype_eqb TMap TMessage) with false. cbv iota. cbn [bind].
  change (tmem TMap WIRE_VARINT_TYPES) with false. change (tmem TMap WIRE_FIXED_32_TYPES) with false.
  change (tmem TMap WIRE_FIXED_64_TYPES) with false. change (tmem TMap WIRE_LEN_DELIM_TYPES) with true.
  cbv iota. rewrite orb_true_r. reflexivity.
Qed.

(* ---- one Entry message, for any reader schema ---- *)
Section Entry.
  Variables (sc : schema) (msg : option ptype -> pv -> result (list byte)) (ec : nat) (fk fv : fdesc)
            (kt : ptype) (pk : pyty) (c' : nat).
  Hypothesis Hcf : cfields (get_class sc ec) = [fk; fv].
  Hypothesis Hn1 : fnum fk = 1.
  Hypothesis Ht1 : fty fk = kt.
  Hypothesis Hn2 : fnum fv = 2.
  Hypothesis Ht2 : fty fv = TMessage.
  Hypothesis Hg1 : fgroup fk = None.
  Hypothesis Hg2 : fgroup fv = None.
  Hypothesis Ho1 : fopt fk = false.
  Hypothesis Ho2 : fopt fv = false.
  Hypothesis Hw1 : fwraps fk = None.
  Hypothesis Hw2 : fwraps fv = None.
  Hypothesis Hh1 : fhint fk = HPlain pk.
  Hypothesis Hh2 : fhint fv = HPlain (PyMsg c').
  Hypothesis Hkok : map_key_ok kt = true.
  Hypothesis Hfk : pyty_fits (length (classes sc)) (length (enums sc)) kt pk = true.
  Let curE := repeat (@None nat) (cngroups (get_class sc ec)).

  Definition entry_obj (k : pv) (sk sv : list byte) (mv : obj) : obj :=
    Obj ec [if is_nil sk then PPlaceholder else k; if is_nil sv then PPlaceholder else PMsg mv] true [] curE.

  Lemma entry_feed F k sk sv yv mv :
    scalar_in_range kt k = true ->
    serialize_with msg 1 kt k false None = Ok sk ->
    (sv = [] \/ (reads sv (mkP 2 2 0 yv sv) /\ parse_new F sc c' yv = Ok mv /\ osow mv = true)) ->
    small (sk ++ sv) -> (length (sk ++ sv) <= F)%nat ->
    exists e0 e1,
      parse_new (S F) sc ec (sk ++ sv) = Ok (entry_obj k sk sv mv) /\
      getattr sc (entry_obj k sk sv mv) 0 = (e0, Ok k) /\
      getattr sc (entry_obj k sk sv mv) 1 = (e1, Ok (if is_nil sv then default_of sc fv else PMsg mv)).
  Proof.
    intros Hk Esk Hsv Hsm Hl. rewrite app_length in Hl.
    destruct (key_scalar kt Hkok) as (Hks & Hkmap & Hkn).
    assert (Hnd' : nodup_z (map fnum (cfields (get_class sc ec))) = true) by (rewrite Hcf; cbn [map]; rewrite Hn1, Hn2; reflexivity).
    assert (Hf0 : nth_error (cfields (get_class sc ec)) 0 = Some fk) by (rewrite Hcf; reflexivity).
    assert (Hf1 : nth_error (cfields (get_class sc ec)) 1 = Some fv) by (rewrite Hcf; reflexivity).
    assert (Hnum1 : 1 <= fnum fk < 2 ^ 29) by (rewrite Hn1; change (2 ^ 29) with 536870912; lia).
    assert (Hmap1 : ptype_eqb (fty fk) TMap = false) by (rewrite Ht1; exact Hkmap).
    assert (Hmap2 : ptype_eqb (fty fv) TMap = false) by (rewrite Ht2; reflexivity).
    assert (Hnl1 : forall l, default_of sc fk <> PList l) by (intros l; unfold default_of; rewrite Hh1; destruct pk; discriminate).
    assert (Hnl2 : forall l, default_of sc fv <> PList l) by (intros l; unfold default_of; rewrite Hh2; discriminate).
    assert (Hel1 : elem_enc msg F sc (fty fk) (hint_elem (fhint fk)) (fwraps fk) k k (scalar_empty k)).
    { rewrite Ht1, Hh1, Hw1. cbn [hint_elem]. rewrite <- (Hkn k) at 2. apply elem_scalar; assumption. }
    assert (Hmk1 : marked sc k = k) by (destruct kt, k; try discriminate Hk; reflexivity).
    (* the key record *)
    destruct (feeds_singular msg F sc ec [PPlaceholder; PPlaceholder] [] curE 0%nat fk k k (scalar_empty k) Hf0 Hnd' Hnum1 Hmap1 Hnl1
                (or_introl eq_refl) ltac:(intros g Hg; congruence) Hel1 Hmk1 false) as (sk' & Es & Hek & _ & Hfe1).
    rewrite Hn1, Ht1, Hw1, Esk in Es. injection Es as <-.
    specialize (Hfe1 (small_app_l _ _ Hsm) ltac:(lia)).
    unfold cur_after in Hfe1. rewrite Hg1 in Hfe1.
    set (raw1 := if is_nil sk then [PPlaceholder; PPlaceholder] else set_nth 0 k [PPlaceholder; PPlaceholder]).
    assert (Hx1 : nth 1 raw1 PPlaceholder = PPlaceholder) by (unfold raw1; destruct (is_nil sk); reflexivity).
    set (raw2 := if is_nil sv then raw1 else set_nth 1 (PMsg mv) raw1).
    assert (Hfe2 : feeds F sc (get_class sc ec) (Obj ec raw1 true [] curE) sv (Obj ec raw2 true [] curE)).
    { unfold raw2. destruct Hsv as [-> | (Rd & Pv & Hsow)]; [apply feeds_nil|].
      assert (Hne : sv <> []) by (apply (reads_nonempty _ _ Rd)).
      destruct sv as [|b0 sv0]; [congruence|]. cbn [is_nil].
      destruct (decode_msg F sc fv c' 2 yv (b0 :: sv0) Ht2 ltac:(rewrite Hh2; reflexivity) Hw2) as (Hfit & Hdec).
      eapply feeds_one; [exact Rd|].
      rewrite <- (marked_flag sc mv Hsow) at 1.
      replace curE with (cur_after fv 1 curE) at 2 by (unfold cur_after; rewrite Hg2; reflexivity).
      apply (step_singular F sc ec raw1 [] curE 1%nat fv); auto.
      - cbn [pnum]. rewrite <- Hn2. apply field_by_number_unique; assumption.
      - rewrite Hdec, Pv. cbn [bind]. rewrite (mark_sow_flag mv Hsow). reflexivity.
      - intros g Hg. congruence. }
    assert (Hraw2 : raw2 = [if is_nil sk then PPlaceholder else k; if is_nil sv then PPlaceholder else PMsg mv])
      by (unfold raw2, raw1; destruct (is_nil sk), (is_nil sv); reflexivity).
    assert (Hfeed : feeds F sc (get_class sc ec) (Obj ec [PPlaceholder; PPlaceholder] true [] curE) (sk ++ sv)
                          (entry_obj k sk sv mv)).
    { unfold entry_obj. rewrite <- Hraw2.
      apply (feeds_app F sc (get_class sc ec) _ (Obj ec raw1 true [] curE) _ sk sv); [|exact Hfe2].
      eapply feeds_eq; [exact Hfe1|]. unfold raw1. destruct (is_nil sk); reflexivity. }
    assert (G0 : exists e0, getattr sc (entry_obj k sk sv mv) 0 = (e0, Ok k)).
    { unfold entry_obj, getattr. rewrite Hcf. cbn [nth_error nth]. unfold group_selects. rewrite Hg1.
      destruct sk as [|s0 sk']; cbn [is_nil].
      - assert (Hd : default_of sc fk = k).
        { destruct (Hek eq_refl) as (_ & [-> | ->]).
          - unfold default_of. rewrite Hh1. destruct kt; try discriminate Hk; destruct pk; try discriminate Hfk; reflexivity.
          - destruct kt; try discriminate Hk; discriminate Hkok. }
        rewrite Hd. eauto.
      - pose proof (scalar_value_real kt k Hk) as Hreal. rewrite Hkn in Hreal.
        destruct k; try congruence; eauto. }
    assert (G1 : exists e1, getattr sc (entry_obj k sk sv mv) 1 = (e1, Ok (if is_nil sv then default_of sc fv else PMsg mv))).
    { unfold entry_obj, getattr. rewrite Hcf. cbn [nth_error nth]. unfold group_selects. rewrite Hg2.
      destruct (is_nil sv); eauto. }
    destruct G0 as (e0 & G0). destruct G1 as (e1 & G1). exists e0, e1. split; [|split; assumption].
    unfold parse_new. rewrite new_unfold, Hcf. cbn [map]. rewrite Ho1, Ho2. fold curE.
    rewrite (feeds_load F sc ec [PPlaceholder; PPlaceholder] false [] curE _ _ Hfeed). reflexivity.
  Qed.
End Entry.

Lemma decode_entry F sc f num val bs :
  fty f = TMap ->
  wire_type_fits f (pwt (mkP num 2 0 val bs)) = true /\
  decode_value F sc f (mkP num 2 0 val bs) = (do e <- parse_new F sc (fentry f) val; Ok (PMsg e)).
Proof.
  intros Hty. unfold wire_type_fits, decode_value. cbn [pwt pbytes]. rewrite Hty. split; reflexivity.
Qed.

Lemma scalar_nomsg t k : scalar_in_range t k = true -> nomsg k.
Proof. intros H o ->. destruct t; discriminate H. Qed.

Lemma scalar_atomic t k : scalar_in_range t k = true -> atomic k = true.
Proof. destruct k; try reflexivity; destruct t; discriminate. Qed.

Section SlotDict.
  Variables (sn : schema) (masks : list (list bool)).
  Let so := C08Step.drop_fields masks sn.
  Hypothesis Hsn : c01_schema_ok sn = true.
  Hypothesis Hso : c01_schema_ok so = true.
  Variable c : nat.
  Let cdn := get_class sn c.
  Let cdo := get_class so c.
  Let fso := cfields cdo.

  Variables (cur : list (option nat)) (i : nat) (f : fdesc).
  Hypothesis Hf : nth_error fso i = Some f.
  Hypothesis Hfn : exists j, field_by_number cdn (fnum f) = Some (j, f).
  Hypothesis Hwfn : wf_field sn (cngroups cdn) f = true.
  Hypothesis Hentn : entry_hints_ok sn f = true.
  Let sel := group_selects cur f i.

  Variables (rawP : list pv) (unk : list byte) (curP : list (option nat)).
  Hypothesis Hfresh : nth i rawP PPlaceholder = fresh_of f.
  Hypothesis Hlen : (i < length rawP)%nat.

  Variables (pk : pyty) (c' : nat) (kt : ptype).
  Hypothesis Hh : fhint f = HDict pk (PyMsg c').
  Hypothesis Hm : fmap f = Some (kt, TMessage).

  Let msgn := msg_bytes (enc_obj sn).
  Let msgo := msg_bytes (enc_obj so).
  Let ec := fentry f.

  (* what one map entry (k, message o) amounts to *)
  Lemma one_entry k o sk sv :
    scalar_in_range kt k = true -> Evo sn masks o -> Good sn o -> ocls o = c' ->
    serialize_with msgn 1 kt k false None = Ok sk ->
    serialize_with msgn 2 TMessage (PMsg o) false None = Ok sv ->
    small (sk ++ sv) ->
    exists vo sv',
      (forall F, (length (sk ++ sv) <= F)%nat ->
         exists eo e0 e1, parse_new (S F) so ec (sk ++ sv) = Ok eo /\
                          getattr so eo 0 = (e0, Ok k) /\ getattr so eo 1 = (e1, Ok vo)) /\
      serialize_with msgo 1 kt k false None = Ok sk /\
      serialize_with msgo 2 TMessage vo false None = Ok sv' /\ length sv' = length sv /\
      (forall F, (length (sk ++ sv) <= F)%nat ->
         parse_new (S F) sn ec (sk ++ sv') = parse_new (S F) sn ec (sk ++ sv)).
  Proof.
    intros Hk HE HG Hc Esk Esv Hsm.
    destruct (schema_class_facts so c Hso) as (Hwo & Hndo & Heo).
    pose proof (forallb_nth_error _ _ _ _ Hwo Hf) as Hwf. pose proof (forallb_nth_error _ _ _ _ Heo Hf) as Hent.
    destruct (dict_facts so c cur i f Hwf Hent pk (PyMsg c') Hh) as (_ & _ & _ & _ & _ & _ & _ & kt1 & vt1 & fk & fv & Hm1 & Hkok & _ & Hfk & _ & Hcf &
                            Hn1 & Ht1 & Hn2 & Ht2 & Hg1 & Hg2 & Ho1 & Ho2 & Hw1 & Hw2 & Hh1 & Hh2).
    rewrite Hm in Hm1. injection Hm1 as <- <-.
    destruct (dict_facts sn c cur i f Hwfn Hentn pk (PyMsg c') Hh) as (_ & _ & _ & _ & _ & _ & _ & kt2 & vt2 & fk' & fv' & Hm2 & _ & _ & Hfk' & _ & Hcf' &
                            Hn1' & Ht1' & Hn2' & Ht2' & Hg1' & Hg2' & Ho1' & Ho2' & Hw1' & Hw2' & Hh1' & Hh2').
    rewrite Hm in Hm2. injection Hm2 as <- <-.
    assert (Esko : serialize_with msgo 1 kt k false None = Ok sk).
    { unfold msgo. rewrite (serialize_nomsg (enc_obj so) (enc_obj sn)); [exact Esk | eapply scalar_nomsg; eauto]. }
    assert (H2 : 1 <= 2 < 2 ^ 29) by (change (2 ^ 29) with 536870912; lia).
    destruct (msg_elem sn masks o 2 false H2 HE HG) as (y & Ey & _ & B0 & EB0 & HBnil & HB).
    fold msgn in EB0. rewrite Esv in EB0. injection EB0 as <-.
    destruct sv as [|b0 sv0].
    - (* the value encodes to nothing: no value record; the older reader materialises a fresh message *)
      exists (default_of so fv), []. split.
      { intros F HF.
        destruct (entry_feed so msgn ec fk fv kt pk c' Hcf Hn1 Ht1 Hn2 Ht2 Hg1 Hg2 Ho1 Ho2 Hw1 Hw2 Hh1 Hh2 Hkok Hfk
                    F k sk [] [] o Hk Esk (or_introl eq_refl) Hsm HF) as (e0 & e1 & P & G0 & G1).
        eexists. exists e0, e1. split; [exact P|]. split; [exact G0 | exact G1]. }
      split; [exact Esko|]. split.
      { unfold default_of. rewrite Hh2.
        rewrite (ser_msg_shape msgo 2 (PMsg (new so c')) false []).
        - reflexivity.
        - unfold msgo. rewrite preprocess_msg. apply (enc_new_plain so Hso). }
      split; [reflexivity|]. intros F _. reflexivity.
    - assert (Hne : b0 :: sv0 <> []) by discriminate.
      destruct (HB Hne (small_app_r _ _ Hsm)) as (Hly & Rd & mo & y' & sv' & Hsow & Ey' & Hly' & Po & Pn & Pn' & Ser & HlB & Rd').
      fold so in Ey', Po, Ser. rewrite Hc in Po, Pn, Pn'.
      assert (Hyne : y <> []).
      { intros ->. destruct HBnil as [_ HBn]. specialize (HBn (conj eq_refl eq_refl)). discriminate HBn. }
      exists (PMsg mo), sv'. split.
      { intros F HF. rewrite app_length in HF.
        destruct (entry_feed so msgn ec fk fv kt pk c' Hcf Hn1 Ht1 Hn2 Ht2 Hg1 Hg2 Ho1 Ho2 Hw1 Hw2 Hh1 Hh2 Hkok Hfk
                    F k sk (b0 :: sv0) y mo Hk Esk) as (e0 & e1 & P & G0 & G1).
        { right. split; [exact Rd|]. split; [apply Po; lia | exact Hsow]. }
        { exact Hsm. } { rewrite app_length. exact HF. }
        eexists. exists e0, e1. split; [exact P|]. split; [exact G0 | exact G1]. }
      split; [exact Esko|]. split; [apply Ser; right; exact Hyne|]. split; [exact HlB|].
      intros F HF. rewrite app_length in HF.
      assert (Hsm' : small (sk ++ sv')).
      { unfold small in *. rewrite !Zlength_app in *. rewrite (Zlength_eq_length sv' (b0 :: sv0) HlB). exact Hsm. }
      destruct (entry_feed sn msgn ec fk' fv' kt pk c' Hcf' Hn1' Ht1' Hn2' Ht2' Hg1' Hg2' Ho1' Ho2' Hw1' Hw2' Hh1' Hh2' Hkok Hfk'
                  F k sk (b0 :: sv0) y (norm_obj sn o) Hk Esk) as (_ & _ & P1 & _).
      { right. split; [exact Rd|]. split; [apply Pn; lia | apply osow_norm]. }
      { exact Hsm. } { rewrite app_length. exact HF. }
      destruct (entry_feed sn msgn ec fk' fv' kt pk c' Hcf' Hn1' Ht1' Hn2' Ht2' Hg1' Hg2' Ho1' Ho2' Hw1' Hw2' Hh1' Hh2' Hkok Hfk'
                  F k sk sv' y' (norm_obj sn o) Hk Esk) as (_ & _ & P2 & _).
      { right. split; [exact Rd'|]. split; [apply Pn'; lia | apply osow_norm]. }
      { exact Hsm'. } { rewrite app_length, HlB. exact HF. }
      rewrite P1, P2. unfold entry_obj.
      destruct sv' as [|b1 sv1]; [discriminate HlB | reflexivity].
  Qed.

  Definition EntryOk (kv : pv * pv) : Prop :=
    scalar_in_range kt (fst kv) = true /\ exists o, snd kv = PMsg o /\ Evo sn masks o /\ Good sn o /\ ocls o = c'.

  Lemma msg_entries : forall d acc rawQ B,
    ((nth i rawQ PPlaceholder = PPlaceholder /\ acc = []) \/ nth i rawQ PPlaceholder = PDict acc) ->
    (i < length rawQ)%nat ->
    (forall kv kv2, In kv acc -> In kv2 d -> pv_eq so (fst kv) (fst kv2) = false) ->
    keys_nodup so d = true -> Forall EntryOk d ->
    entries_bytes sn f kt TMessage d = Ok B -> small B ->
    exists d' B',
      length d' = length d /\
      (forall F, (length B <= F)%nat ->
         feeds F so cdo (Obj c rawQ true unk curP) B
               (Obj c (match d with [] => rawQ | _ => set_nth i (PDict (acc ++ d')) rawQ end) true unk curP)) /\
      entries_bytes so f kt TMessage d' = Ok B' /\ length B' = length B /\
      (forall F2, (length B <= F2)%nat -> ceq sn F2 cdn B B').
  Proof.
    destruct (schema_class_facts so c Hso) as (Hwo & Hnd & Heo).
    pose proof (forallb_nth_error _ _ _ _ Hwo Hf) as Hwf. pose proof (forallb_nth_error _ _ _ _ Heo Hf) as Hent.
    destruct (dict_facts so c cur i f Hwf Hent pk (PyMsg c') Hh) as (Hfo & Hfw & Hg & Hty & Hsel & Hdef & _).
    pose proof (wf_field_num _ _ _ Hwfn) as Hnum.
    induction d as [|[k x] d IH]; intros acc rawQ B Hslot HlenQ Hacc Hnod HE EB Hs.
    { injection EB as <-. exists [], []. split; [reflexivity|]. split; [intros F _; apply feeds_nil|].
      split; [reflexivity|]. split; [reflexivity|]. intros F2 _. apply ceq_nil. }
    inversion HE as [|? ? (Hk & o & Hx & HEo & HGo & Hco) HE']; subst. cbn [fst snd] in *. subst x.
    cbn [keys_nodup] in Hnod. apply andb_true_iff in Hnod as [Hfreshk Hnod].
    rewrite entries_bytes_cons in EB. fold msgn in EB.
    destruct (serialize_with msgn 1 kt k false None) as [sk|] eqn:Esk; cbn [bind] in EB; [|discriminate].
    destruct (serialize_with msgn 2 TMessage (PMsg o) false None) as [sv|] eqn:Esv; cbn [bind] in EB; [|discriminate].
    rewrite Hty, ser_entry_shape in EB.
    destruct (msg_record (fnum f) (sk ++ sv) Hnum) as (key & n & Ek & En & Nk & Hreads).
    rewrite Ek, En in EB. cbn [bind] in EB.
    destruct (entries_bytes sn f kt TMessage d) as [Br|] eqn:Er; cbn [bind] in EB; [|discriminate]. injection EB as <-.
    set (e := key ++ n ++ sk ++ sv) in *.
    assert (Hse : small e) by (eapply small_app_l; eauto).
    assert (Hsp : small (sk ++ sv)) by (unfold e in Hse; apply small_app_r in Hse; apply small_app_r in Hse; exact Hse).
    assert (Hle : (length (sk ++ sv) < length e)%nat).
    { unfold e. rewrite !app_length. destruct key; [congruence|]. cbn [length]. lia. }
    specialize (Hreads Hse). fold e in Hreads.
    destruct (one_entry k o sk sv Hk HEo HGo Hco Esk Esv Hsp) as (vo & sv' & Hpo & Esko & Esvo & Hlsv & Hpn).
    set (e' := key ++ n ++ sk ++ sv').
    assert (Hz : Zlength (sk ++ sv') = Zlength (sk ++ sv)) by (apply Zlength_eq_length; rewrite !app_length; lia).
    assert (Hle' : length e' = length e) by (unfold e, e'; rewrite !app_length; lia).
    assert (Hreads' : reads e' (mkP (fnum f) 2 0 (sk ++ sv') e')).
    { destruct (msg_record (fnum f) (sk ++ sv') Hnum) as (key' & n' & Ek' & En' & _ & Hr').
      rewrite Ek in Ek'. injection Ek' as <-. rewrite Hz, En in En'. injection En' as <-.
      apply Hr'. unfold small in *. unfold e in Hse. rewrite !Zlength_app in *. lia. }
    set (rawQ' := set_nth i (PDict (acc ++ [(k, vo)])) rawQ).
    destruct (IH (acc ++ [(k, vo)]) rawQ' Br) as (d' & Br' & Hld & Hfeed & EBr' & HlBr & Hceq); auto.
    { right. unfold rawQ'. apply nth_set_nth_same. exact HlenQ. }
    { unfold rawQ'. rewrite set_nth_length. exact HlenQ. }
    { intros kv kv2 Hi1 Hi2. apply in_app_or in Hi1 as [Hi1|[<-|[]]].
      - apply Hacc; [exact Hi1 | right; exact Hi2].
      - cbn [fst]. apply negb_true_iff in Hfreshk.
        destruct (pv_eq so k (fst kv2)) eqn:E; [|reflexivity].
        assert (existsb (fun kv => pv_eq so k (fst kv)) d = true) by (apply existsb_exists; exists kv2; auto). congruence. }
    { eapply small_app_r; eauto. }
    exists ((k, vo) :: d'), (e' ++ Br'). split; [cbn [length]; rewrite Hld; reflexivity|]. split.
    { intros F Hl. rewrite app_length in Hl.
      destruct F as [|F']; [lia|].
      destruct (Hpo F' ltac:(lia)) as (eo & e0 & e1 & Pe & G0 & G1).
      destruct (decode_entry (S F') so f (fnum f) (sk ++ sv) e Hty) as (Hfit & Hdec).
      eapply feeds_app.
      - eapply feeds_one; [exact Hreads|].
        apply (step_map (S F') so c rawQ unk curP i f _ eo e0 e1 k vo acc); auto.
        + cbn [pnum]. apply field_by_number_unique; assumption.
        + rewrite Hdec. fold ec. rewrite Pe. reflexivity.
        + rewrite Hty. reflexivity.
      - rewrite dict_set_fresh.
        2:{ intros kv Hi. apply (Hacc kv (k, PMsg o) Hi). left. reflexivity. }
        fold rawQ'. eapply feeds_eq; [apply Hfeed; lia|].
        destruct d as [|kv2 d].
        + destruct d'; [reflexivity | discriminate Hld].
        + unfold rawQ'. rewrite set_nth_twice, <- app_assoc. reflexivity. }
    split.
    { rewrite entries_bytes_cons. fold msgo. rewrite Esko, Esvo. cbn [bind]. rewrite Hty, ser_entry_shape, Ek, Hz, En. cbn [bind].
      rewrite EBr'. reflexivity. }
    split; [rewrite !app_length; lia|].
    intros F2 Hl2. rewrite app_length in Hl2. apply ceq_app; [|apply Hceq; lia].
    destruct Hfn as (j & Hj).
    destruct F2 as [|F2']; [lia|].
    destruct (decode_entry (S F2') sn f (fnum f) (sk ++ sv) e Hty) as (Hfit & Hdec).
    destruct (decode_entry (S F2') sn f (fnum f) (sk ++ sv') e' Hty) as (_ & Hdec').
    eapply ceq_one; [exact Hreads | exact Hreads' |].
    apply (req_dv sn (S F2') cdn j f); auto.
    rewrite Hdec, Hdec'. fold ec. rewrite (Hpn F2' ltac:(lia)). reflexivity.
  Qed.

  Lemma slot2_msgdict d :
    d <> [] -> keys_nodup so d = true -> Forall EntryOk d ->
    slot_goal2 sn masks c cur i f rawP unk curP (PDict d).
  Proof.
    intros Hne Hnod HE B EB Hs.
    destruct (schema_class_facts so c Hso) as (Hwo & Hnd & Heo).
    pose proof (forallb_nth_error _ _ _ _ Hwo Hf) as Hwf. pose proof (forallb_nth_error _ _ _ _ Heo Hf) as Hent.
    destruct (dict_facts so c cur i f Hwf Hent pk (PyMsg c') Hh) as (Hfo & Hfw & Hg & Hty & Hsel & Hdef & Hfr & _).
    assert (Hemit : forall sc d0, d0 <> [] -> enc_slot sc cur i f (PDict d0) = entries_bytes sc f kt TMessage d0).
    { intros sc d0 Hd0. unfold enc_slot. rewrite Hsel. unfold emit_field. cbn [is_default]. rewrite Hh.
      destruct d0 as [|z d0]; [congruence|]. cbn [andb]. rewrite Hm. reflexivity. }
    rewrite (Hemit sn d Hne) in EB.
    destruct (msg_entries d [] rawP B) as (d' & B' & Hld & Hfeed & EB' & HlB & Hceq); auto.
    { left. split; [rewrite Hfresh; exact Hfr | reflexivity]. }
    { intros kv kv2 []. }
    assert (Hd' : d' <> []) by (destruct d'; [destruct d; [congruence | discriminate Hld] | discriminate]).
    exists (PDict d'), B'. split.
    { intros F Hl. unfold cur_sel. rewrite Hsel.
      eapply feeds_eq; [apply Hfeed; exact Hl|]. destruct d; [congruence | reflexivity]. }
    split; [rewrite Hsel; discriminate|].
    split; [exact (eq_trans (Hemit so d' Hd') EB')|].
    split; [exact HlB | exact Hceq].
  Qed.
End SlotDict.
