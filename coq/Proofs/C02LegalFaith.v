(* C02, encoder side: under [enc_faithful] (Proofs/C02Abs.v: the object state holds no more than its bytes say)
   the decoded form of a message has the same abstraction as the message, abs_obj (norm_obj m) = abs_obj m — so the
   denotation of bytes(m) under the specification is m itself. *)
From BP Require Import Base.Prelude Model.Types Model.Varint Model.Scalar Model.Float Model.Utf8.
From BP Require Import Model.Object Model.Eq Model.TimeCore Model.Encode Model.Decode Model.WellFormed Model.C01Def.
From BP Require Import Spec.Varint Spec.Wire.
From BP Require Import Proofs.BytesP Proofs.LenP Proofs.C02Abs Proofs.C02WireP Proofs.C02ListP Proofs.C02StepP Proofs.C02SimP Proofs.C02MapP.
From BP Require Import Proofs.C01Frame Proofs.C01Elem Proofs.C01Builtin Proofs.C01Unfold Proofs.C01Value Proofs.C01Slot Proofs.C01Slot2
     Proofs.C01Dict Proofs.C01Msg Proofs.C01Main Proofs.C01Stable.
From BP Require Import Proofs.C02LegalSpec Proofs.C02LegalLeaf Proofs.C02LegalWalk Proofs.C02LegalFlat Proofs.C02LegalElem
     Proofs.C02LegalMain.
From BP Require Import gen.Tables.

(* ---------- enc_faithful_pv, slot by slot ---------- *)
Definition faithful_elems (sc : schema) (t : ptype) : list pv -> bool :=
  fix all (l : list pv) : bool :=
    match l with [] => true | y :: l' => float32_ok t y && enc_faithful_pv sc y && all l' end.
Definition faithful_values (sc : schema) (vt : ptype) : list (pv * pv) -> bool :=
  fix all (d : list (pv * pv)) : bool :=
    match d with [] => true | (_, y) :: d' => float32_ok vt y && enc_faithful_pv sc y && all d' end.

Definition faithful_slot (sc : schema) (f : fdesc) (x : pv) : bool :=
  match card_of f with
  | Implicit => float_plain_ok x && float32_ok (fty f) x
  | Explicit =>
      match fhint f, x with
      | HPlain _, PDatetime us | HPlain _, PTimedelta us => negb (us =? 0)
      | HPlain _, PMsg o' => (osow o' || is_default sc f x) && enc_faithful_pv sc x
      | _, PMsg _ => enc_faithful_pv sc x
      | _, _ => match fwraps f with
                | Some w => float_plain_ok x && float32_ok w x
                | None => float32_ok (fty f) x
                end
      end
  | Oneof _ => float32_ok (fty f) x && enc_faithful_pv sc x
  | Repeated => match x with PList l => faithful_elems sc (fty f) l | _ => true end
  | MapOf =>
      match x, fmap f with
      | PDict d, Some (_, vt) => C02Abs.keys_unique sc d && faithful_values sc vt d
      | _, _ => true
      end
  end.

Definition faithful_slots (sc : schema) : list pv -> list fdesc -> bool :=
  fix go (raw : list pv) (fs : list fdesc) {struct raw} : bool :=
    match raw, fs with
    | x :: raw', f :: fs' => faithful_slot sc f x && go raw' fs'
    | _, _ => true
    end.

Lemma enc_faithful_pv_unfold sc c raw sow unk cur :
  enc_faithful_pv sc (PMsg (Obj c raw sow unk cur)) = parses unk && faithful_slots sc raw (cfields (get_class sc c)).
Proof. reflexivity. Qed.

Lemma faithful_slots_nth sc : forall raw fs k x f,
  faithful_slots sc raw fs = true -> nth_error raw k = Some x -> nth_error fs k = Some f -> faithful_slot sc f x = true.
Proof.
  induction raw as [|x0 raw IH]; intros [|f0 fs] [|k] x f H Hx Hf; cbn in Hx, Hf; try discriminate;
    cbn [faithful_slots] in H; apply andb_true_iff in H as [H1 H2].
  - congruence.
  - eapply IH; eauto.
Qed.

Lemma subP_impl (P Q : obj -> Prop) x : (forall o, P o -> Q o) -> subP P x -> subP Q x.
Proof.
  intros H. destruct x; cbn [subP]; auto; intros HP; (eapply Forall_impl; [|exact HP]); cbn beta.
  - intros y. destruct y; cbn [elemP]; auto.
  - intros [k y]. destruct y; cbn [elemP snd]; auto.
Qed.

Lemma norm_f32_rep b : f32_representable b = true -> norm_f32 b = b.
Proof. unfold f32_representable, norm_f32. destruct (d2f b); [|discriminate]. intros H. apply Z.eqb_eq. exact H. Qed.

Lemma norm_scalar_ok t v : float32_ok t v = true -> norm_scalar t v = v.
Proof. unfold float32_ok, norm_scalar. destruct t; try reflexivity. destruct v; try reflexivity. intros H. now rewrite norm_f32_rep. Qed.

Section Faith.
  Variable sc : schema.
  Hypothesis Hsc : c01_schema_ok sc = true.
  Let WF := proj1 (schema_parts sc Hsc).
  Let Hbi := proj2 (schema_parts sc Hsc).

  (* the decoded form denotes what the object denotes *)
  Definition Same (o : obj) : Prop := abs_obj sc (norm_obj sc o) = abs_obj sc o.
  (* what the induction provides for a nested message *)
  Definition Sub (o : obj) : Prop := value_ok sc o /\ (enc_faithful_pv sc (PMsg o) = true -> Same o).

  Lemma elem_faith f y :
    float32_ok (fty f) y = true -> enc_faithful_pv sc y = true -> elemP Sub y ->
    abs_elem sc f (norm_elem (norm_obj sc) (fty f) y) = abs_elem sc f y.
  Proof.
    intros Hf He HS. destruct y as [| |z|b|bits|s|b|us|us|l|d|o]; cbn [norm_elem]; rewrite ?(norm_scalar_ok _ _ Hf); try reflexivity.
    cbn [elemP] in HS. destruct HS as (_ & HS). unfold abs_elem. destruct (msg_class f); [|reflexivity]. apply HS. exact He.
  Qed.

  Lemma abs_field_fresh cur i f :
    fopt f = true -> (exists p, fhint f = HOptional p) -> abs_field sc cur i f PNone = abs_field sc cur i f PPlaceholder.
  Proof. intros _ (p & Hh). unfold abs_field, card_of. rewrite Hh. reflexivity. Qed.

  (* the default value of a field, as an element *)
  Lemma default_abs_elem f p :
    fhint f = HPlain p -> fwraps f = None -> pyty_fits (length (classes sc)) (length (enums sc)) (fty f) p = true ->
    abs_elem sc f (match default_of sc f with PMsg o => PMsg (raise_sow o) | d => d end) = C02Abs.default_elem sc f.
  Proof.
    intros Hh Hw Hfit. pose proof (pyty_fits_scalar _ _ _ _ Hfit) as Ht.
    unfold default_of, abs_elem, C02Abs.default_elem, msg_class. rewrite Hh, Hw. cbn [elem_hint].
    destruct p.
    1-6: (destruct (fty f); try discriminate Hfit; reflexivity).
    - rewrite Ht. rewrite new_unfold. cbn [raise_sow].
      rewrite (abs_obj_sow sc c _ true false). rewrite <- new_unfold. apply abs_new. exact WF.
    - rewrite Ht. destruct (builtins_std_spec sc (builtins_exact_std sc Hbi)) as (-> & _). reflexivity.
    - rewrite Ht. destruct (builtins_std_spec sc (builtins_exact_std sc Hbi)) as (_ & ->). reflexivity.
  Qed.

  (* a scalar equal to its default denotes the default *)
  Lemma default_abs_scalar f p x :
    fhint f = HPlain p -> pyty_fits (length (classes sc)) (length (enums sc)) (fty f) p = true ->
    scalar_in_range (fty f) x = true -> is_default sc f x = true -> float_plain_ok x = true ->
    abs_scalar x = adefault (fty f).
  Proof.
    intros Hh Hfit Hr Hd Hf. destruct x; try (destruct (fty f); discriminate Hr); cbn [is_default] in Hd; rewrite Hh in Hd.
    - destruct p; try discriminate Hd; destruct (fty f); try discriminate Hfit; try discriminate Hr; apply Z.eqb_eq in Hd; subst; reflexivity.
    - destruct p; try discriminate Hd; destruct (fty f); try discriminate Hfit; try discriminate Hr; destruct b; try discriminate Hd; reflexivity.
    - destruct p; try discriminate Hd. cbn [float_plain_ok] in Hf. rewrite Hd in Hf. cbn [negb orb] in Hf. apply Z.eqb_eq in Hf. subst.
      destruct (fty f); try discriminate Hfit; reflexivity.
    - destruct p; try discriminate Hd; destruct utf8; try discriminate Hd; destruct (fty f); try discriminate Hfit; reflexivity.
    - destruct p; try discriminate Hd; destruct b; try discriminate Hd; destruct (fty f); try discriminate Hfit; reflexivity.
  Qed.
End Faith.
