(* C08 evolution — a slot that holds no message object is written, range-checked and compared in the same way
   under every schema: the schema is consulted only to walk INTO a message (enc_obj, in_range, is_default, ==). *)
From Coq Require Import ZArith List Bool Lia.
From BP Require Import Base.Prelude Model.Types Model.Varint Model.Scalar Model.Float Model.Utf8.
From BP Require Import Model.Object Model.Eq Model.TimeCore Model.Encode Model.Decode Model.WellFormed Model.C01Def.
From BP Require Import gen.Tables Proofs.C01Unfold Proofs.C01Elem Proofs.C01Slot Proofs.C01Slot2 Proofs.C06EncP.
From BP Require Import Proofs.C08EvoDef.
Import ListNotations.

Definition nomsg (v : pv) : Prop := forall o, v <> PMsg o.

Lemma is_default_nomsg s1 s2 f v : nomsg v -> is_default s1 f v = is_default s2 f v.
Proof.
  intros H. destruct v; try reflexivity. exfalso. apply (H o). reflexivity.
Qed.

Lemma msg_bytes_nomsg e1 e2 w v : nomsg v -> msg_bytes e1 w v = msg_bytes e2 w v.
Proof. intros H. destruct v; try reflexivity. exfalso. apply (H o). reflexivity. Qed.

Lemma preprocess_nomsg e1 e2 t w v :
  nomsg v -> preprocess_with (msg_bytes e1) t w v = preprocess_with (msg_bytes e2) t w v.
Proof.
  intros H. unfold preprocess_with.
  destruct (tmem t [TEnum; TBool; TInt32; TInt64; TUInt32; TUInt64]); [reflexivity|].
  destruct (tmem t [TSInt32; TSInt64]); [reflexivity|].
  destruct (tmem t FIXED_TYPES); [reflexivity|].
  destruct (ptype_eqb t TString); [reflexivity|].
  destruct (ptype_eqb t TMessage); [|reflexivity].
  rewrite (msg_bytes_nomsg e1 e2 w v H). reflexivity.
Qed.

Lemma serialize_nomsg e1 e2 num t v se w :
  nomsg v -> serialize_with (msg_bytes e1) num t v se w = serialize_with (msg_bytes e2) num t v se w.
Proof. intros H. unfold serialize_with. rewrite (preprocess_nomsg e1 e2 t w v H). reflexivity. Qed.

Lemma concat_map_ext_in {A} (F G : A -> result (list byte)) l :
  (forall x, In x l -> F x = G x) -> concat_map F l = concat_map G l.
Proof.
  induction l as [|x l IH]; intros H; [reflexivity|]. cbn [concat_map].
  rewrite (H x (or_introl eq_refl)). fold (concat_map F) (concat_map G).
  rewrite IH by (intros y Hy; apply H; right; exact Hy). reflexivity.
Qed.

Lemma msgfree_list l y : msgfree (PList l) = true -> In y l -> nomsg y.
Proof.
  cbn [msgfree]. intros H Hy o ->. rewrite forallb_forall in H. specialize (H _ Hy). discriminate H.
Qed.

Lemma msgfree_dict d k y : msgfree (PDict d) = true -> In (k, y) d -> nomsg k /\ nomsg y.
Proof.
  cbn [msgfree]. intros H Hy. rewrite forallb_forall in H. specialize (H _ Hy). cbn [fst snd] in H.
  apply andb_true_iff in H as [H1 H2]. split; intros o ->; discriminate.
Qed.

(* the loop body of Message.dump for a value without message objects *)
Lemma emit_field_msgfree e1 s1 e2 s2 f sel v :
  msgfree v = true -> emit_field e1 s1 f sel v = emit_field e2 s2 f sel v.
Proof.
  intros Hm. unfold emit_field.
  assert (Hn : nomsg v) by (intros o ->; discriminate Hm).
  rewrite (is_default_nomsg s1 s2 f v Hn).
  destruct (is_default s2 f v && _); [reflexivity|].
  destruct v as [| |z|b|bits|s|b|us|us|l|d|o]; try (apply serialize_nomsg; exact Hn).
  - (* list *)
    destruct (tmem (fty f) PACKED_TYPES).
    + rewrite (concat_map_ext_in (preprocess_with (msg_bytes e1) (fty f) None) (preprocess_with (msg_bytes e2) (fty f) None) l).
      * destruct (concat_map _ l) as [buf|]; cbn [bind]; [|reflexivity]. apply serialize_nomsg. intros o; discriminate.
      * intros y Hy. apply preprocess_nomsg. eapply msgfree_list; eauto.
    + apply concat_map_ext_in. intros y Hy. rewrite (serialize_nomsg e1 e2); [reflexivity|]. eapply msgfree_list; eauto.
  - (* dict *)
    destruct (fmap f) as [[kt vt]|]; [|reflexivity]. clear Hn.
    induction d as [|[k y] d IH]; [reflexivity|].
    destruct (msgfree_dict _ k y Hm (or_introl eq_refl)) as [Hk0 Hy].
    rewrite (serialize_nomsg e1 e2 1 kt k false None Hk0). destruct (serialize_with (msg_bytes e2) 1 kt k false None) as [sk|]; cbn [bind]; [|reflexivity].
    rewrite (serialize_nomsg e1 e2 2 vt y false None Hy).
    destruct (serialize_with (msg_bytes e2) 2 vt y false None) as [sv|]; cbn [bind]; [|reflexivity].
    rewrite (serialize_nomsg e1 e2 (fnum f) (fty f) (PBytes (sk ++ sv)) true None) by (intros o; discriminate).
    destruct (serialize_with (msg_bytes e2) (fnum f) (fty f) (PBytes (sk ++ sv)) true None) as [e|]; cbn [bind]; [|reflexivity].
    rewrite IH; [reflexivity|].
    cbn [msgfree] in Hm |- *. cbn [forallb] in Hm. apply andb_true_iff in Hm as [_ Hm]. exact Hm.
Qed.

Lemma new_unfold_sow sc c : match PMsg (new sc c) with PMsg o => osow o | _ => false end = false.
Proof. reflexivity. Qed.

Lemma default_of_nomsg s1 s2 f : (forall c, fhint f <> HPlain (PyMsg c)) -> default_of s1 f = default_of s2 f /\ msgfree (default_of s1 f) = true.
Proof.
  intros H. unfold default_of. destruct (fhint f) as [p|p|p|pk pv']; try (split; reflexivity).
  destruct p; try (split; reflexivity). exfalso. apply (H c). reflexivity.
Qed.

(* one slot of Message.dump *)
Lemma enc_slot_msgfree s1 s2 ng cur i f x :
  msgfree x = true -> opt_hinted s1 -> opt_hinted s2 -> wf_field s1 ng f = true ->
  enc_slot s1 cur i f x = enc_slot s2 cur i f x.
Proof.
  intros Hm H1 H2 Hwf. unfold enc_slot.
  destruct (group_selects cur f i) as [[|]|] eqn:Hs; [| reflexivity |].
  all: destruct x as [| |z|b|bits|s|b|us|us|l|d|o]; try reflexivity; try (apply emit_field_msgfree; exact Hm); try discriminate Hm.
  all: destruct (fhint f) as [p|p|p|pk pv'] eqn:Hh; try (unfold default_of; rewrite Hh; reflexivity).
  all: destruct p; try (unfold default_of; rewrite Hh; reflexivity).
  all: destruct (wf_plain _ _ _ _ Hwf Hh) as (Hfo & Hfw & _ & _ & Hfit);
       assert (Ht : fty f = TMessage) by (destruct (fty f); try discriminate Hfit; reflexivity).
  all: unfold default_of; rewrite Hh; unfold emit_field;
       rewrite (is_default_unset s1 f c H1 Hh), (is_default_unset s2 f c H2 Hh);
       rewrite !new_unfold_sow; cbn [andb];
       match goal with |- (if ?b then _ else _) = (if ?b then _ else _) => destruct b; [reflexivity|] end;
       rewrite Hfw, Ht; reflexivity.
Qed.

(* in_range of a slot without message objects *)
Lemma elem_in_range_nomsg s1 s2 t p v : nomsg v -> elem_in_range s1 t p v = elem_in_range s2 t p v.
Proof. intros H. destruct v; try (destruct p; reflexivity). exfalso. apply (H o). reflexivity. Qed.

Lemma slot_in_range_msgfree s1 s2 f x : msgfree x = true -> slot_in_range s1 f x = slot_in_range s2 f x.
Proof.
  intros Hm. unfold slot_in_range.
  destruct x as [| |z|b|bits|s|b|us|us|l|d|o]; try reflexivity; try discriminate Hm.
  - destruct (fhint f) as [p|p|p|pk pv']; try (apply elem_in_range_nomsg; intros o; discriminate); try reflexivity.
    induction l as [|y l IH]; [reflexivity|].
    rewrite (elem_in_range_nomsg s1 s2 (fty f) p y) by (eapply msgfree_list; [exact Hm | left; reflexivity]).
    rewrite IH; [reflexivity|]. cbn [msgfree forallb] in Hm |- *. apply andb_true_iff in Hm as [_ Hm]. exact Hm.
  - destruct (fhint f) as [p|p|p|pk pv']; try (apply elem_in_range_nomsg; intros o; discriminate); try reflexivity.
    destruct (fmap f) as [[kt vt]|]; [|reflexivity].
    induction d as [|[k y] d IH]; [reflexivity|].
    destruct (msgfree_dict _ k y Hm (or_introl eq_refl)) as [_ Hy].
    rewrite (elem_in_range_nomsg s1 s2 vt pv' y Hy).
    rewrite IH; [reflexivity|]. cbn [msgfree forallb] in Hm |- *. apply andb_true_iff in Hm as [_ Hm]. exact Hm.
Qed.

(* == between a scalar and anything *)
Definition atomic (v : pv) : bool := match v with PMsg _ | PList _ | PDict _ => false | _ => true end.

Lemma pv_eq_atomic s1 s2 a b : atomic a = true -> pv_eq s1 a b = pv_eq s2 a b.
Proof. destruct a; try discriminate; intros _; destruct b; reflexivity. Qed.

Lemma existsb_key_atomic s1 s2 k d : atomic k = true ->
  existsb (fun kv : pv * pv => pv_eq s1 k (fst kv)) d = existsb (fun kv : pv * pv => pv_eq s2 k (fst kv)) d.
Proof.
  intros Hk. induction d as [|kv d IHd]; [reflexivity|]. cbn [existsb].
  rewrite (pv_eq_atomic s1 s2 k (fst kv) Hk), IHd. reflexivity.
Qed.

Lemma keys_nodup_atomic s1 s2 d :
  (forall kv, In kv d -> atomic (fst kv) = true) -> keys_nodup s1 d = keys_nodup s2 d.
Proof.
  induction d as [|[k y] d IH]; intros H; [reflexivity|]. cbn [keys_nodup].
  rewrite IH by (intros kv Hkv; apply H; right; exact Hkv).
  rewrite (existsb_key_atomic s1 s2 k d); [reflexivity|]. apply (H (k, y)). left. reflexivity.
Qed.
