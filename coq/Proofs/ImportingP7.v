(* Proofs/ImportingP7.v — C13, part 7: annotations evaluated with a class namespace in scope
   (Spec/PyImportLocals.v): spec-level lemmas, the name every reference of get_type_reference goes
   through ([via_name], by relative position of the two packages) and the exact condition under
   which the class-scoped evaluation still yields the target class. *)
From BP Require Import Base.Prelude Proofs.BytesP Spec.PyImport Spec.PyImportLocals Model.Importing Model.C13Hints.
From BP Require Import Proofs.ImportingP Proofs.ImportingP2 Proofs.ImportingP3 Proofs.ImportingP4 Proofs.ImportingP5.
From BP Require gen.C13Tables.
From Coq Require Import Lia.
Local Open Scope nat_scope.

(* ------------------------------------------------------------------ spec level *)
Lemma mem_name_In x l : mem_name x l = true <-> In x l.
Proof.
  unfold mem_name. rewrite existsb_exists. split.
  - intros [y [Hy E]]. apply bytes_eqb_eq in E. subst. exact Hy.
  - intros H. exists x. split; [exact H | apply bytes_eqb_refl].
Qed.

Lemma mem_name_false x l : mem_name x l = false <-> ~ In x l.
Proof.
  split.
  - intros H I. apply mem_name_In in I. congruence.
  - intros H. destruct (mem_name x l) eqn:E; [apply mem_name_In in E; contradiction | reflexivity].
Qed.

Lemma lattrs_global w v ns :
  lattrs w (LGlobal v) ns = match attrs w v ns with Some v' => Some (LGlobal v') | None => None end.
Proof.
  revert v. induction ns as [|n r IH]; intros v; cbn [lattrs attrs lattr]; [reflexivity|].
  destruct (attr w v n) as [v'|]; [apply IH | reflexivity].
Qed.

Lemma lattrs_classattr w x ns : lattrs w (LClassAttr x) ns = match ns with [] => Some (LClassAttr x) | _ => None end.
Proof. destruct ns; reflexivity. Qed.

(* the class-scoped evaluation, in terms of the module-level one: it differs exactly when the first
   name of the expression is a key of the class namespace *)
Theorem resolve_with_locals_char w P e names expr :
  resolve_with_locals w P e names expr =
  match expr_head expr with
  | Some h => if mem_name h names then None else resolve w P e expr
  | None => None
  end.
Proof.
  unfold resolve_with_locals, eval_with_locals, expr_head, resolve.
  destruct (parse_dotted expr) as [[|x ns]|]; try reflexivity.
  unfold lookup_scoped. destruct (mem_name x names).
  - rewrite lattrs_classattr. destruct ns; reflexivity.
  - destruct (lookup_name w P e x) as [v|]; [|reflexivity].
    rewrite lattrs_global. destruct (attrs w v ns); reflexivity.
Qed.

(* an empty locals mapping (what betterproto passes) is the module-level evaluation of Spec/PyImport.v *)
Theorem resolve_with_locals_nil w P e expr : resolve_with_locals w P e [] expr = resolve w P e expr.
Proof.
  rewrite resolve_with_locals_char. unfold expr_head, resolve.
  destruct (parse_dotted expr) as [[|x ns]|]; reflexivity.
Qed.

Lemma resolve_annotation_with_locals_nil w P e ann :
  resolve_annotation_with_locals w P e [] ann = resolve_annotation w P e ann.
Proof.
  unfold resolve_annotation_with_locals, resolve_annotation. destruct (unquote ann); [apply resolve_with_locals_nil | reflexivity].
Qed.

Theorem denotes_with_locals_nil w P ref v : denotes_with_locals w P [] ref v <-> denotes w P ref v.
Proof.
  unfold denotes_with_locals, denotes. split; intros [e [He Hr]]; exists e; split; try exact He.
  - rewrite resolve_annotation_with_locals_nil in Hr. exact Hr.
  - rewrite resolve_annotation_with_locals_nil. exact Hr.
Qed.

Lemma resolve_annotation_with_locals_char w P e names ann :
  resolve_annotation_with_locals w P e names ann =
  match annotation_head ann with
  | Some h => if mem_name h names then None else resolve_annotation w P e ann
  | None => None
  end.
Proof.
  unfold resolve_annotation_with_locals, annotation_head, resolve_annotation.
  destruct (unquote ann) as [x|]; [apply resolve_with_locals_char | reflexivity].
Qed.

(* the exact condition, for ANY reference that denotes v at module level *)
Theorem denotes_with_locals_iff w P names ref v h :
  denotes w P ref v -> annotation_head (fst ref) = Some h ->
  (denotes_with_locals w P names ref v <-> mem_name h names = false).
Proof.
  intros [e [He Hr]] Hh. unfold denotes_with_locals. split.
  - intros [e' [He' Hr']]. rewrite resolve_annotation_with_locals_char, Hh in Hr'.
    destruct (mem_name h names); [discriminate | reflexivity].
  - intros Hm. exists e. split; [exact He|]. rewrite resolve_annotation_with_locals_char, Hh, Hm. exact Hr.
Qed.

(* whatever the class-scoped evaluation yields, the module-level one yields too *)
Theorem denotes_with_locals_weaken w P names ref v : denotes_with_locals w P names ref v -> denotes w P ref v.
Proof.
  intros [e [He Hr]]. exists e. split; [exact He|].
  rewrite resolve_annotation_with_locals_char in Hr. destruct (annotation_head (fst ref)) as [h|]; [|discriminate].
  destruct (mem_name h names); [discriminate | exact Hr].
Qed.

(* computable form (Model/C13Hints.v eval_ref_locals), for concrete witnesses and the correspondence check *)
Lemma denotes_locals_eval w P names ref v : denotes_with_locals w P names ref v <-> eval_ref_locals w P names ref = Some v.
Proof.
  unfold denotes_with_locals, eval_ref_locals. split.
  - intros [e [He Hr]]. rewrite He. exact Hr.
  - destruct (exec_all w P _) as [e|]; [|discriminate]. intros H. exists e. split; [reflexivity | exact H].
Qed.

(* ------------------------------------------------------------------ heads of the rendered annotations *)
Lemma head_two a t : identb a = true -> identb t = true -> annotation_head (quoted (a ++ b_dot :: t)) = Some a.
Proof.
  intros Ha Ht. unfold annotation_head. rewrite unquote_quoted. unfold expr_head. rewrite parse_dotted_two by assumption. reflexivity.
Qed.

Lemma head_one a : identb a = true -> annotation_head (quoted a) = Some a.
Proof.
  intros Ha. unfold annotation_head. rewrite unquote_quoted. unfold expr_head. rewrite parse_dotted_one by assumption. reflexivity.
Qed.

(* ------------------------------------------------------------------ relative position and the name a reference goes through *)
Inductive relation := RSame | RDesc | RAnc | RRoot | RCousin.

(* the dispatch of get_type_reference (cur = referencing package, tgt = package of the referenced type) *)
Definition rel_of (cur tgt : path) : relation :=
  if path_eqb tgt cur then RSame
  else if path_eqb (firstn (length cur) tgt) cur then RDesc
  else if path_eqb (firstn (length tgt) cur) tgt then (match tgt with [] => RRoot | _ :: _ => RAnc end)
  else RCousin.

Definition us2 : list byte := [b_us; b_us].

(* the first name of the annotation: the class name itself inside one package, otherwise the import alias *)
Definition via_name (snake : list byte -> list byte) (cur tgt : path) (C : name) : name :=
  match rel_of cur tgt with
  | RSame => C
  | RDesc => py_join b_us (skipn (length cur) tgt)
  | RAnc => b_us :: repeat b_us (length cur - length tgt) ++ last tgt [] ++ us2
  | RRoot => repeat b_us (length cur) ++ C ++ us2
  | RCousin =>
      let sh := common_prefix cur tgt in
      repeat b_us (length cur - length sh) ++ snake (py_join b_dot (skipn (length sh) tgt)) ++ us2
  end.

Section Head.
  Variable cls_name : list byte -> list byte.
  Variable snake : list byte -> list byte.
  Variable optional : list byte -> list byte.
  Hypothesis snake_chars : forall s, ident_chars (snake s).

  Theorem gtr_head (cur tgt : path) T (unwrap pyd : bool) :
    pkg_okb cur = true -> pkg_okb tgt = true -> type_okb T = true ->
    path_eqb (firstn 1 tgt) [s_betterproto] = false ->
    path_eqb tgt google_protobuf = false ->
    identb (cls_name T) = true ->
    annotation_head (fst (get_type_reference cls_name snake optional (py_join b_dot cur) (b_dot :: py_join b_dot (tgt ++ [T])) unwrap pyd))
    = Some (via_name snake cur tgt (cls_name T)).
  Proof.
    intros Hcur Htgt HT Hbp Hg HC.
    unfold get_type_reference.
    assert ((if unwrap then early_return optional (b_dot :: py_join b_dot (tgt ++ [T])) else None) = None) as ->.
    { destruct unwrap; [apply early_none; assumption | reflexivity]. }
    rewrite parse_well_formed by assumption.
    rewrite !split_pkg_join by assumption.
    cbv beta iota zeta.
    rewrite Hg. cbn [andb]. rewrite Hbp.
    unfold via_name, rel_of.
    set (C := cls_name T) in *.
    pose proof (pkg_ok_ident _ Htgt) as Itgt.
    destruct (path_eqb tgt cur) eqn:E1.
    { cbn [reference_sibling fst]. apply head_one. exact HC. }
    apply path_eqb_neq in E1.
    destruct (path_eqb (firstn (length cur) tgt) cur) eqn:E2.
    { (* descendant *)
      apply path_eqb_eq in E2. apply firstn_eq_prefix in E2.
      remember (skipn (length cur) tgt) as rest eqn:Hr.
      assert (Hrest : rest <> []).
      { intros ->. apply E1. rewrite E2. apply app_nil_r. }
      assert (Irest : Forall (fun s => identb s = true) rest).
      { rewrite E2 in Itgt. apply Forall_app in Itgt. tauto. }
      unfold reference_descendent. rewrite <- Hr.
      destruct (snoc_cases rest) as [->|[ys [x Ex]]]; [congruence|]. rewrite Ex. rewrite Ex in Irest.
      rewrite removelast_snoc, last_snoc.
      apply Forall_app in Irest. destruct Irest as [Hys Hx]. inversion Hx as [|? ? Hx' _]; subst.
      destruct ys as [|y0 ys'].
      - cbn [py_join app fst]. apply head_two; assumption.
      - assert (HJ : py_join b_dot (y0 :: ys') <> []).
        { apply py_join_nonnil; [discriminate|]. rewrite Forall_forall in *. intros s Hs. apply identb_nonnil. auto. }
        destruct (py_join b_dot (y0 :: ys')) as [|j0 jr] eqn:EJ; [congruence|]. cbv iota. cbn [fst].
        apply head_two; [|exact HC].
        apply identb_join_us.
        + rewrite app_length. cbn [length]. lia.
        + apply Forall_app. split; [exact Hys | constructor; [exact Hx' | constructor]]. }
    destruct (path_eqb (firstn (length tgt) cur) tgt) eqn:E3.
    { (* ancestor *)
      apply path_eqb_eq in E3.
      unfold reference_ancestor.
      destruct tgt as [|t0 tr].
      - (* the root package *)
        cbn [length]. rewrite Nat.sub_0_r. cbn [fst]. apply head_one.
        apply identb_us_wrapped; [|apply identb_chars, HC].
        destruct cur; [exfalso; apply E1; reflexivity | discriminate].
      - cbv iota. cbn [fst].
        assert (Hl : identb (last (t0 :: tr) []) = true).
        { destruct (snoc_cases (t0 :: tr)) as [E|[ts [x E]]]; [discriminate|]. rewrite E, last_snoc.
          rewrite E in Itgt. apply Forall_app in Itgt. destruct Itgt as [_ Ix]. inversion Ix; assumption. }
        apply head_two; [|exact HC].
        apply (identb_us_wrapped (S (length cur - length (t0 :: tr))) (last (t0 :: tr) [])); [discriminate | apply identb_chars, Hl]. }
    (* cousin *)
    unfold reference_cousin. cbn [fst]. apply head_two; [|exact HC].
    apply identb_us_wrapped; [|apply snake_chars].
    destruct (common_prefix_decomp cur tgt) as [ra [rb [Hc Ht]]].
    assert (Hra : ra <> []).
    { intros ->. rewrite app_nil_r in Hc. rewrite Ht in E2. rewrite <- Hc in E2.
      rewrite firstn_length_app in E2. rewrite path_eqb_refl in E2. discriminate. }
    rewrite Hc at 1. rewrite app_length. destruct ra; [congruence|]. cbn [length]. lia.
  Qed.

  (* the exact condition: with the class namespace [names] in scope the reference still denotes the
     target class iff the name it goes through is not a key of that namespace *)
  Theorem locals_exact (w : world) (root : path) (cur tgt : path) T (unwrap pyd : bool) (names : list name) :
    root <> [] ->
    pkg_okb cur = true -> pkg_okb tgt = true -> type_okb T = true ->
    path_eqb (firstn 1 tgt) [s_betterproto] = false ->
    path_eqb tgt google_protobuf = false ->
    identb (cls_name T) = true ->
    world_has w root tgt (cls_name T) ->
    (denotes_with_locals w (root ++ cur) names
       (get_type_reference cls_name snake optional (py_join b_dot cur) (b_dot :: py_join b_dot (tgt ++ [T])) unwrap pyd)
       (VCls (root ++ tgt) (cls_name T))
     <-> mem_name (via_name snake cur tgt (cls_name T)) names = false).
  Proof.
    intros Hroot Hcur Htgt HT Hbp Hg HC W.
    apply denotes_with_locals_iff.
    - apply resolves_gen; assumption.
    - apply gtr_head; assumption.
  Qed.

  (* when it does not, it denotes nothing at all (never a wrong class) *)
  Theorem locals_shadowed_none (w : world) (P : path) (cur tgt : path) T (unwrap pyd : bool) (names : list name) v :
    pkg_okb cur = true -> pkg_okb tgt = true -> type_okb T = true ->
    path_eqb (firstn 1 tgt) [s_betterproto] = false ->
    path_eqb tgt google_protobuf = false ->
    identb (cls_name T) = true ->
    mem_name (via_name snake cur tgt (cls_name T)) names = true ->
    ~ denotes_with_locals w P names
        (get_type_reference cls_name snake optional (py_join b_dot cur) (b_dot :: py_join b_dot (tgt ++ [T])) unwrap pyd) v.
  Proof.
    intros Hcur Htgt HT Hbp Hg HC Hm [e [_ Hr]].
    rewrite resolve_annotation_with_locals_char in Hr. rewrite gtr_head in Hr by assumption. rewrite Hm in Hr. discriminate.
  Qed.
End Head.

(* the well-known types (absolute import `import betterproto.lib.google.protobuf as betterproto_lib_google_protobuf`) *)
Section WellKnownLocals.
  Variable cls_name snake optional : list byte -> list byte.

  Theorem wellknown_locals_exact (w : world) (P cur : path) T (unwrap pyd : bool) (names : list name) :
    pkg_okb cur = true -> type_okb T = true ->
    path_eqb cur google_protobuf = false ->
    (if unwrap then early_return optional (b_dot :: py_join b_dot (google_protobuf ++ [T])) else None) = None ->
    identb (cls_name T) = true ->
    identb (snake (py_join b_dot (lib_path pyd))) = true ->
    w_pkg w (lib_path pyd) = true -> w_cls w (lib_path pyd) (cls_name T) = true ->
    (denotes_with_locals w P names
       (get_type_reference cls_name snake optional (py_join b_dot cur) (b_dot :: py_join b_dot (google_protobuf ++ [T])) unwrap pyd)
       (VCls (lib_path pyd) (cls_name T))
     <-> mem_name (snake (py_join b_dot (lib_path pyd))) names = false).
  Proof.
    intros Hcur HT Hc He HC Hal W1 W2.
    apply denotes_with_locals_iff.
    - apply wellknown_resolves; assumption.
    - unfold get_type_reference. rewrite He.
      rewrite parse_well_formed by (exact HT || reflexivity).
      rewrite !split_pkg_join by (exact Hcur || reflexivity).
      cbv beta iota zeta. rewrite Hc. change (path_eqb google_protobuf google_protobuf) with true. cbn [andb negb].
      fold (lib_path pyd).
      assert (Hf : path_eqb (firstn 1 (lib_path pyd)) [s_betterproto] = true) by (destruct pyd; reflexivity).
      rewrite Hf. unfold reference_absolute. cbn [fst]. apply head_two; assumption.
  Qed.
End WellKnownLocals.
