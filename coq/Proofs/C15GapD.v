(* C15 gap closing, fourth group: the payload bytes the MESSAGE codec of C01 / C02 / C08 (Model/Encode.v msg_bytes, the
   TYPE_MESSAGE branch for datetime / timedelta values, over the regenerated field layouts gen.Tables.timestamp_fields /
   duration_fields) are C15's bytes_sn of C15's pair - for all values (table: header of Proofs/C15GapA.v, clause (7)). *)
From BP Require Import Base.Prelude Model.Types Model.Varint Model.Scalar Model.Object Model.Encode Model.TimeCore gen.Tables.
From BP Require Model.Time Proofs.TimeP Proofs.C15GapA.

Lemma layout_bytes_sn layout s n :
  map (fun x => (snd (fst x), snd x)) layout = [(1, TInt64); (2, TInt32)] ->
  layout_bytes layout [s; n] = Time.bytes_sn s n.
Proof.
  intros L.
  destruct layout as [|[[n1 k1] t1] [|[[n2 k2] t2] [|? ?]]]; try discriminate L.
  cbn [map fst snd] in L. injection L as -> -> -> ->.
  unfold layout_bytes, Time.bytes_sn, Time.ser_varint_field, Time.key_of.
  cbn [combine concat_map].
  unfold serialize_with, preprocess_with.
  cbn [tmem ptype_eqb int_like orb existsb WIRE_VARINT_TYPES].
  cbn.
  destruct (s =? 0), (n =? 0); cbn [bind]; try reflexivity.
  all: try (destruct (encode_varint s); cbn [bind]; try reflexivity).
  all: try (destruct (encode_varint n); cbn [bind]; try reflexivity).
  all: rewrite ?app_nil_r; reflexivity.
Qed.

Theorem codec_payload_ts enc wraps dt :
  msg_bytes enc wraps (PDatetime (Time.instant dt)) = (let '(s, n) := Time.from_datetime dt in Time.bytes_sn s n).
Proof.
  unfold msg_bytes. rewrite C15GapA.codec_ts_pair. destruct (Time.from_datetime dt) as [s n].
  apply layout_bytes_sn. reflexivity.
Qed.

Theorem codec_payload_dur enc wraps d :
  msg_bytes enc wraps (PTimedelta d) = (let '(s, n) := Time.from_timedelta d in Time.bytes_sn s n).
Proof.
  unfold msg_bytes. rewrite C15GapA.codec_dur_pair. destruct (Time.from_timedelta d) as [s n].
  apply layout_bytes_sn. reflexivity.
Qed.
