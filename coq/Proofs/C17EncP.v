(* C17_welltyped, encoder half: a message whose attributes are typed and inside the ranges the
   decoder produces ([decoded_range]) can always be encoded again: bytes(m) does not raise. *)
From BP Require Import Base.Prelude Model.Types Model.Varint Model.Scalar Model.Float Model.Utf8.
From BP Require Import Model.Object Model.Eq Model.TimeCore Model.Encode Model.WellFormed Model.C17Typed.
From BP Require Import Spec.Varint Proofs.BytesP Proofs.ScalarP Proofs.C17TypedAuxP Proofs.C17TypedP.
From BP Require Import gen.Tables.
From Coq Require Import ZifyBool.
Ltac Zify.zify_post_hook ::= Z.to_euclidean_division_equations.

Ltac split_and := repeat match goal with H : _ && _ = true |- _ => apply andb_true_iff in H as [? ?] end.

(* ---------- an induction principle for the nested type pv / obj ---------- *)
Section PvInd.
  Variable P : pv -> Prop.
  Variable Q : obj -> Prop.
  Hypothesis H0 : P PPlaceholder.
  Hypothesis H1 : P PNone.
  Hypothesis H2 : forall z, P (PInt z).
  Hypothesis H3 : forall b, P (PBool b).
  Hypothesis H4 : forall b, P (PFloat b).
  Hypothesis H5 : forall s, P (PStr s).
  Hypothesis H6 : forall b, P (PBytes b).
  Hypothesis H7 : forall us, P (PDatetime us).
  Hypothesis H8 : forall us, P (PTimedelta us).
  Hypothesis H9 : forall l, Forall P l -> P (PList l).
  Hypothesis H10 : forall d, Forall (fun kv : pv * pv => P (snd kv)) d -> P (PDict d).
  Hypothesis H11 : forall o, Q o -> P (PMsg o).
  Hypothesis HO : forall c raw sow unk cur, Forall P raw -> Q (Obj c raw sow unk cur).

  Fixpoint pv_ind2 (v : pv) : P v :=
    match v with
    | PPlaceholder => H0 | PNone => H1 | PInt z => H2 z | PBool b => H3 b | PFloat b => H4 b
    | PStr s => H5 s | PBytes b => H6 b | PDatetime us => H7 us | PTimedelta us => H8 us
    | PList l => H9 l ((fix go (l : list pv) : Forall P l :=
                          match l with [] => Forall_nil _ | x :: r => Forall_cons _ (pv_ind2 x) (go r) end) l)
    | PDict d => H10 d ((fix go (d : list (pv * pv)) : Forall (fun kv : pv * pv => P (snd kv)) d :=
                           match d with
                           | [] => Forall_nil _
                           | kv :: r => Forall_cons kv (let (k, y) as kv0 return P (snd kv0) := kv in pv_ind2 y) (go r)
                           end) d)
    | PMsg o => H11 o (obj_ind2 o)
    end
  with obj_ind2 (o : obj) : Q o :=
    match o with
    | Obj c raw sow unk cur =>
        HO c raw sow unk cur ((fix go (l : list pv) : Forall P l :=
                                 match l with [] => Forall_nil _ | x :: r => Forall_cons _ (pv_ind2 x) (go r) end) raw)
    end.
End PvInd.

(* ---------- scalars ---------- *)
Lemma encode_varint_ok v : - 2 ^ 63 <= v -> exists bs, encode_varint v = Ok bs.
Proof. intros H. unfold encode_varint. replace (v <? - 2 ^ 63) with false by lia. eauto. Qed.

Lemma zigzag_nonneg v : 0 <= zigzag v.
Proof. rewrite zigzag_is_spec. unfold zigzag_spec. destruct (v <? 0) eqn:E; lia. Qed.

Lemma all_types_have_a_wire_type t :
  tmem t WIRE_VARINT_TYPES || tmem t WIRE_FIXED_32_TYPES || tmem t WIRE_FIXED_64_TYPES || tmem t WIRE_LEN_DELIM_TYPES = true.
Proof. destruct t; reflexivity. Qed.

Lemma serialize_ok msg num t v se w value :
  preprocess_with msg t w v = Ok value -> 0 <= num ->
  exists bs, serialize_with msg num t v se w = Ok bs.
Proof.
  intros Hp Hn. unfold serialize_with. rewrite Hp. cbn [bind].
  assert (K : forall k, 0 <= k -> exists key, encode_varint (Z.lor (Z.shiftl num 3) k) = Ok key).
  { intros k Hk. apply encode_varint_ok. assert (0 <= Z.lor (Z.shiftl num 3) k); [|lia].
    apply Z.lor_nonneg. split; [apply Z.shiftl_nonneg; lia | lia]. }
  pose proof (all_types_have_a_wire_type t) as Ht.
  destruct (tmem t WIRE_VARINT_TYPES).
  { destruct (encode_varint_ok (Z.shiftl num 3)) as [key ->]; [pose proof (Z.shiftl_nonneg num 3); lia|]. cbn [bind]. eauto. }
  destruct (tmem t WIRE_FIXED_32_TYPES). { destruct (K 5 ltac:(lia)) as [key ->]. cbn [bind]. eauto. }
  destruct (tmem t WIRE_FIXED_64_TYPES). { destruct (K 1 ltac:(lia)) as [key ->]. cbn [bind]. eauto. }
  destruct (tmem t WIRE_LEN_DELIM_TYPES); [|discriminate Ht]. clear Ht.
  match goal with |- context [if ?c then _ else _] => destruct c; [|eauto] end.
  destruct (K 2 ltac:(lia)) as [key ->]. cbn [bind].
  destruct (encode_varint_ok (Zlength value)) as [n ->]; [unfold Zlength; lia|]. cbn [bind]. eauto.
Qed.

Lemma layout2_ok n1 t1 n2 t2 s n :
  tmem t1 WIRE_VARINT_TYPES = true -> tmem t2 WIRE_VARINT_TYPES = true ->
  tmem t1 [TEnum; TBool; TInt32; TInt64; TUInt32; TUInt64] = true ->
  tmem t2 [TEnum; TBool; TInt32; TInt64; TUInt32; TUInt64] = true ->
  forall nm1 nm2, 0 <= n1 -> 0 <= n2 -> - 2 ^ 63 <= s -> - 2 ^ 63 <= n ->
  exists bs, layout_bytes [(nm1, n1, t1); (nm2, n2, t2)] [s; n] = Ok bs.
Proof.
  intros V1 V2 I1 I2 nm1 nm2 Hn1 Hn2 Hs Hn. unfold layout_bytes. cbn [combine concat_map].
  assert (S1 : forall num t z, tmem t [TEnum; TBool; TInt32; TInt64; TUInt32; TUInt64] = true -> 0 <= num -> - 2 ^ 63 <= z ->
               exists bs, (if z =? 0 then Ok [] else serialize_with no_msg num t (PInt z) false None) = Ok bs).
  { intros num t z It Hnum Hz. destruct (z =? 0); [eauto|].
    destruct (encode_varint_ok z Hz) as [value Hv].
    eapply serialize_ok; [|exact Hnum]. unfold preprocess_with. rewrite It. cbn [int_like]. exact Hv. }
  destruct (S1 n1 t1 s I1 Hn1 Hs) as [b1 ->]. cbn [bind].
  destruct (S1 n2 t2 n I2 Hn2 Hn) as [b2 ->]. cbn [bind]. eauto.
Qed.

Lemma timestamp_ok us : dt_min_us <= us <= dt_max_us ->
  exists bs, (let '(s, n) := ts_pair_of_us us in layout_bytes timestamp_fields [s; n]) = Ok bs.
Proof.
  intros H. unfold ts_pair_of_us, timestamp_fields, dt_min_us, dt_max_us in *.
  apply layout2_ok; try reflexivity; lia.
Qed.

Lemma duration_ok us : td_ok us = true ->
  exists bs, (let '(s, n) := dur_pair_of_us us in layout_bytes duration_fields [s; n]) = Ok bs.
Proof.
  intros H. unfold td_ok, td_min_us, td_max_us in H. unfold dur_pair_of_us, duration_fields.
  apply layout2_ok; try reflexivity; lia.
Qed.

Section Enc.
  Variable sc : schema.
  Hypothesis Hwf : wf_schema sc = true.
  Notation tv := (typed_val true sc).
  Notation ta := (typed_attr true sc).
  Notation tobj := (typed_obj true sc).
  Notation nc := (length (classes sc)).
  Notation ne := (length (enums sc)).

  Definition msg_ok (enc_msg : obj -> result (list byte)) (v : pv) : Prop :=
    match v with PMsg o => exists bs, enc_msg o = Ok bs | _ => True end.

  (* _preprocess_single on a typed element of a field without `wraps` *)
  Lemma preprocess_ok_gen msg t p v :
    tv t p v = true -> pyty_fits nc ne t p = true ->
    (t = TMessage -> exists bs, msg None v = Ok bs) ->
    exists bs, preprocess_with msg t None v = Ok bs.
  Proof.
    intros Hv Hp Hm. unfold preprocess_with.
    destruct p, v; cbn [typed_val] in Hv; try discriminate Hv;
      destruct t; cbn [pyty_fits] in Hp; try discriminate Hp;
      cbn [tmem existsb ptype_eqb ptype_tag Z.eqb Pos.eqb orb FIXED_TYPES int_like pack_value pack_fmt];
      unfold int_ok, float_ok, datetime_ok, timedelta_ok in Hv;
      cbn [negb orb int_range ptype_eqb ptype_tag Z.eqb Pos.eqb] in Hv;
      try (apply encode_varint_ok; lia);
      try (apply encode_varint_ok; pose proof (zigzag_nonneg z); lia);
      try (unfold pack_int; cbn [fmt_int_range]; rewrite Hv; eauto);
      try (eexists; reflexivity);
      try (apply Hm; reflexivity).
    - destruct (d2f bits); [eauto | discriminate].
    - destruct b; apply encode_varint_ok; lia.
  Qed.

  Lemma preprocess_ok enc_msg t p v :
    tv t p v = true -> pyty_fits nc ne t p = true -> msg_ok enc_msg v ->
    exists bs, preprocess_with (msg_bytes enc_msg) t None v = Ok bs.
  Proof.
    intros Hv Hp Hm. apply (preprocess_ok_gen _ t p v Hv Hp). intros ->.
    destruct p, v; cbn [typed_val] in Hv; try discriminate Hv; cbn [pyty_fits] in Hp; try discriminate Hp.
    - cbn [msg_bytes msg_ok] in *. exact Hm.
    - cbn [msg_bytes]. apply timestamp_ok. unfold datetime_ok in Hv. cbn [negb orb] in Hv. lia.
    - cbn [msg_bytes]. apply duration_ok. exact Hv.
  Qed.

  (* ... and of a wrapper field *)
  Lemma preprocess_wrapper_ok enc_msg w vt p v :
    wrapper_value_type w = Some vt -> tv vt p v = true -> pyty_fits nc ne vt p = true ->
    exists bs, preprocess_with (msg_bytes enc_msg) TMessage (Some w) v = Ok bs.
  Proof.
    intros Hw Hv Hp. unfold preprocess_with.
    cbn [tmem existsb ptype_eqb ptype_tag Z.eqb Pos.eqb orb FIXED_TYPES].
    assert (Hnm : vt <> TMessage) by (destruct w; cbn in Hw; try discriminate Hw; injection Hw as <-; discriminate).
    assert (Hs : exists bs, wrapper_bytes w v = Ok bs).
    { unfold wrapper_bytes. rewrite Hw. destruct (is_default _ _ v); [eauto|].
      destruct (preprocess_ok_gen no_msg vt p v Hv Hp) as [value Hval]; [congruence|].
      eapply serialize_ok; [exact Hval | lia]. }
    assert (Hsc : forall us, v <> PDatetime us /\ v <> PTimedelta us).
    { intros us. split; intros ->; destruct p; cbn [typed_val] in Hv; try discriminate Hv;
        destruct vt; cbn in Hp; try discriminate Hp; congruence. }
    destruct v; try (cbn [msg_bytes]; exact Hs).
    - eauto.
    - destruct (Hsc us); congruence.
    - destruct (Hsc us); congruence.
  Qed.

  Lemma concat_map_ok {A} (g : A -> result (list byte)) l :
    Forall (fun x => exists bs, g x = Ok bs) l -> exists bs, concat_map g l = Ok bs.
  Proof.
    induction 1 as [|x l [b Hb] _ [bs IH]]; cbn [concat_map]; [eauto|].
    rewrite Hb. cbn [bind]. fold (concat_map g l). rewrite IH. cbn [bind]. eauto.
  Qed.

  Definition attr_msgs_ok (enc_msg : obj -> result (list byte)) (v : pv) : Prop :=
    match v with
    | PList l => Forall (msg_ok enc_msg) l
    | PDict d => Forall (fun kv : pv * pv => msg_ok enc_msg (snd kv)) d
    | _ => msg_ok enc_msg v
    end.

  Lemma tv_not_container t p v : tv t p v = true -> (forall l, v <> PList l) /\ (forall d, v <> PDict d).
  Proof. destruct p, v; cbn [typed_val]; try discriminate; split; discriminate. Qed.

  Lemma forallb_Forall2 {A} (P : A -> bool) (Q R : A -> Prop) l :
    forallb P l = true -> Forall Q l -> (forall x, P x = true -> Q x -> R x) -> Forall R l.
  Proof.
    intros H HQ HR. induction HQ as [|x l Hx _ IH]; [constructor|]. cbn in H. apply andb_true_iff in H as [H1 H2].
    constructor; [apply HR; assumption | apply IH, H2].
  Qed.

  (* the body of dump's loop for one attribute that is neither PLACEHOLDER nor None *)
  Lemma emit_ok enc_msg f ng sel v :
    wf_field sc ng f = true -> ta v f = true -> v <> PPlaceholder -> v <> PNone ->
    attr_msgs_ok enc_msg v ->
    exists bs, emit_field enc_msg sc f sel v = Ok bs.
  Proof.
    intros Hw Hta N1 N2 Hm. unfold emit_field.
    match goal with |- context [if ?c then _ else _] => destruct c; [eauto|] end.
    unfold wf_field in Hw. unfold typed_attr in Hta.
    assert (Hnum : 0 <= fnum f) by (split_and; lia).
    destruct (fhint f) as [p'|p'|p'|pk pv'] eqn:Hh.
    - (* plain *)
      split_and. assert (Ew : fwraps f = None) by (destruct (fwraps f); [discriminate | reflexivity]).
      assert (Hv : tv (fty f) p' v = true) by (destruct v; try congruence; exact Hta).
      destruct (tv_not_container _ _ _ Hv) as [NL ND].
      assert (Hmo : msg_ok enc_msg v) by (destruct v; try exact Hm; [destruct (NL l); reflexivity | destruct (ND l); reflexivity]).
      destruct (preprocess_ok enc_msg _ _ _ Hv ltac:(assumption) Hmo) as [value Hval].
      rewrite Ew. destruct v; try (eapply serialize_ok; eassumption).
      + destruct (NL l); reflexivity.
      + destruct (ND l); reflexivity.
    - (* optional / wrapper *)
      assert (Hv : tv (opt_elem_type f) p' v = true) by (destruct v; try congruence; exact Hta).
      destruct (tv_not_container _ _ _ Hv) as [NL ND].
      assert (Hmo : msg_ok enc_msg v) by (destruct v; try exact Hm; [destruct (NL l); reflexivity | destruct (ND l); reflexivity]).
      unfold opt_elem_type in Hv.
      assert (Hpre : exists value, preprocess_with (msg_bytes enc_msg) (fty f) (fwraps f) v = Ok value).
      { destruct (fwraps f) as [w|] eqn:Ew; split_and.
        - destruct (wrapper_value_type w) as [vt|] eqn:Evt; [|discriminate].
          assert (Et : fty f = TMessage) by (apply ptype_eqb_eq; assumption). rewrite Et.
          eapply preprocess_wrapper_ok; eassumption.
        - eapply preprocess_ok; eassumption. }
      destruct Hpre as [value Hval].
      destruct v; try (eapply serialize_ok; eassumption).
      + destruct (NL l); reflexivity.
      + destruct (ND l); reflexivity.
    - (* repeated *)
      split_and. assert (Ew : fwraps f = None) by (destruct (fwraps f); [discriminate | reflexivity]).
      destruct v as [| | | | | | | | |items| |]; try congruence; try discriminate Hta.
      cbn [attr_msgs_ok] in Hm.
      assert (Hall : Forall (fun x => exists bs, preprocess_with (msg_bytes enc_msg) (fty f) None x = Ok bs) items).
      { eapply forallb_Forall2; [exact Hta | exact Hm|]. intros x Hx Hmx. eapply preprocess_ok; eassumption. }
      destruct (tmem (fty f) PACKED_TYPES).
      + destruct (concat_map_ok _ _ Hall) as [buf ->]. cbn [bind].
        eapply serialize_ok; [|exact Hnum]. reflexivity.
      + rewrite Ew. apply concat_map_ok. eapply Forall_impl; [|exact Hall].
        intros x [value Hval]. destruct (serialize_ok _ (fnum f) _ _ true None _ Hval Hnum) as [r ->]. cbn [bind]. eauto.
    - (* map *)
      split_and. destruct (fmap f) as [[kt vt]|] eqn:Hmf; [|discriminate]. split_and.
      destruct v as [| | | | | | | | | |kvs|]; try congruence; try discriminate Hta.
      cbn [attr_msgs_ok] in Hm.
      assert (Et : fty f = TMap) by (apply ptype_eqb_eq; assumption).
      induction kvs as [|[k v'] kvs IH]; [eauto|].
      cbn [forallb] in Hta. apply andb_true_iff in Hta as [Hkv Hta]. apply andb_true_iff in Hkv as [Hk Hv'].
      inversion Hm as [|? ? Hm1 Hm2]; subst. cbn [snd] in Hm1.
      assert (Hmk : msg_ok enc_msg k).
      { destruct k; try exact I. destruct pk; cbn [typed_val] in Hk; try discriminate Hk.
        destruct kt; try discriminate; match goal with Hx : map_key_ok _ = true |- _ => discriminate Hx end. }
      destruct (preprocess_ok enc_msg _ _ _ Hk ltac:(assumption) Hmk) as [vk Hvk].
      destruct (serialize_ok _ 1 _ _ false None _ Hvk ltac:(lia)) as [sk ->]. cbn [bind].
      destruct (preprocess_ok enc_msg _ _ _ Hv' ltac:(assumption) Hm1) as [vv Hvv].
      destruct (serialize_ok _ 2 _ _ false None _ Hvv ltac:(lia)) as [sv ->]. cbn [bind].
      assert (Hpe : preprocess_with (msg_bytes enc_msg) (fty f) None (PBytes (sk ++ sv)) = Ok (sk ++ sv)) by (rewrite Et; reflexivity).
      destruct (serialize_ok _ (fnum f) _ _ true None _ Hpe Hnum) as [e ->]. cbn [bind].
      destruct (IH Hta ltac:(discriminate) ltac:(discriminate) Hm2) as [rest Hrest].
      rewrite Hrest. cbn [bind]. eauto.
  Qed.

  Definition Qenc (o : obj) : Prop := tobj o = true -> exists bs, enc_obj sc o = Ok bs.
  Definition Pm (v : pv) : Prop := match v with PMsg o => Qenc o | _ => True end.
  Definition Penc (v : pv) : Prop :=
    Pm v /\ match v with
            | PList l => Forall Pm l
            | PDict d => Forall (fun kv : pv * pv => Pm (snd kv)) d
            | _ => True
            end.

  Lemma tv_msg_ok t p v : tv t p v = true -> Pm v -> msg_ok (enc_obj sc) v.
  Proof.
    intros Hv HP. destruct v; try exact I. cbn [Pm msg_ok] in *.
    destruct p; try (cbn [typed_val] in Hv; discriminate Hv).
    rewrite tv_msg in Hv. apply andb_true_iff in Hv as [_ Hv]. exact (HP Hv).
  Qed.

  Lemma attr_msgs_ok_of f v : ta v f = true -> v <> PPlaceholder -> v <> PNone -> Penc v -> attr_msgs_ok (enc_obj sc) v.
  Proof.
    intros Hta N1 N2 [HP HC]. unfold typed_attr in Hta.
    destruct (fhint f) as [p'|p'|p'|pk pv'].
    - assert (Hv : tv (fty f) p' v = true) by (destruct v; try congruence; exact Hta).
      destruct (tv_not_container _ _ _ Hv) as [NL ND].
      destruct v; try (eapply tv_msg_ok; eassumption); [destruct (NL l); reflexivity | destruct (ND l); reflexivity].
    - assert (Hv : tv (opt_elem_type f) p' v = true) by (destruct v; try congruence; exact Hta).
      destruct (tv_not_container _ _ _ Hv) as [NL ND].
      destruct v; try (eapply tv_msg_ok; eassumption); [destruct (NL l); reflexivity | destruct (ND l); reflexivity].
    - destruct v; try congruence; try discriminate Hta. cbn [attr_msgs_ok].
      eapply forallb_Forall2; [exact Hta | exact HC|]. intros x Hx Hpx. eapply tv_msg_ok; eassumption.
    - destruct (fmap f) as [[kt vt]|]; destruct v; try congruence; try discriminate Hta. cbn [attr_msgs_ok].
      eapply forallb_Forall2; [exact Hta | exact HC|]. intros [k y] Hx Hpx.
      apply andb_true_iff in Hx as [_ Hy]. cbn [snd] in *. eapply tv_msg_ok; eassumption.
  Qed.

  Lemma default_not_sentinel f d : default_of sc f = d -> d <> PPlaceholder.
  Proof. intros <-. unfold default_of. destruct (fhint f) as [[]| | |]; discriminate. Qed.

  Theorem enc_total_gen : (forall v, Penc v) /\ (forall o, Qenc o).
  Proof.
    assert (H : forall v, Penc v).
    2:{ split; [exact H|]. intros o. pose proof (H (PMsg o)) as [HP _]. exact HP. }
    apply (pv_ind2 Penc Qenc); try (intros; split; exact I).
    - intros l Hl. split; [exact I|]. eapply Forall_impl; [|exact Hl]. intros v [HP _]. exact HP.
    - intros d Hd. split; [exact I|]. eapply Forall_impl; [|exact Hd]. intros kv [HP _]. exact HP.
    - intros o HQ. split; [exact HQ | exact I].
    - (* an object *)
      intros c raw sow unk cur Hraw Ht. cbn [typed_obj] in Ht. apply andb_true_iff in Ht as [_ Ht].
      cbn [enc_obj].
      pose proof (wf_fields_of sc c Hwf) as Hwfs.
      set (ng := cngroups (get_class sc c)) in *.
      revert Ht Hwfs. generalize (cfields (get_class sc c)) as fs. generalize 0%nat as i.
      assert (G : forall raw, Forall Penc raw -> forall i fs,
        forallb2 ta raw fs = true -> forallb (wf_field sc ng) fs = true ->
        exists body,
          (fix go (i : nat) (raw : list pv) (fs : list fdesc) {struct raw} : result (list byte) :=
             match raw, fs with
             | x :: raw', f :: fs' =>
                 do here <-
                   match group_selects cur f i with
                   | Some false => Ok []
                   | sel =>
                       match x with
                       | PNone => Ok []
                       | PPlaceholder =>
                           match default_of sc f with
                           | PNone => Ok []
                           | d => emit_field (fun _ => Ok []) sc f sel d
                           end
                       | _ => emit_field (enc_obj sc) sc f sel x
                       end
                   end;
                 do rest <- go (S i) raw' fs';
                 Ok (here ++ rest)
             | _, _ => Ok []
             end) i raw fs = Ok body).
      { clear raw Hraw. induction 1 as [|x raw Hx _ IH]; intros i fs Ht Hw; [eauto|].
        destruct fs as [|f fs]; [eauto|]. cbn [forallb2 forallb] in Ht, Hw.
        apply andb_true_iff in Ht as [Hta Ht]. apply andb_true_iff in Hw as [Hwf0 Hw].
        assert (Hhere : forall sel, exists here,
                  match x with
                  | PNone => Ok []
                  | PPlaceholder =>
                      match default_of sc f with
                      | PNone => Ok []
                      | d => emit_field (fun _ => Ok []) sc f sel d
                      end
                  | _ => emit_field (enc_obj sc) sc f sel x
                  end = Ok here).
        { intros sel.
          assert (Hx' : x <> PPlaceholder -> x <> PNone -> exists here, emit_field (enc_obj sc) sc f sel x = Ok here).
          { intros N1 N2. eapply emit_ok; try eassumption. eapply attr_msgs_ok_of; eassumption. }
          destruct x; try (apply Hx'; discriminate); [|eauto].
          pose proof (default_typed true sc Hwf f ng Hwf0) as Hd.
          pose proof (default_not_sentinel f _ eq_refl) as Hn.
          assert (Hd' : default_of sc f <> PNone -> exists here, emit_field (fun _ => Ok []) sc f sel (default_of sc f) = Ok here).
          { intros N2. eapply emit_ok; try eassumption.
            destruct (default_of sc f); cbn [attr_msgs_ok msg_ok]; eauto.
            - apply Forall_forall. intros y _. destruct y; cbn; eauto.
            - apply Forall_forall. intros [k y] _. destruct y; cbn; eauto. }
          destruct (default_of sc f); try (apply Hd'; discriminate); eauto. }
        destruct (IH (S i) fs Ht Hw) as [rest Hrest].
        assert (Hstep : forall (A B : result (list byte)), (exists h, A = Ok h) -> (exists r, B = Ok r) ->
                  exists body, (do here <- A; do rest <- B; Ok (here ++ rest)) = Ok body)
          by (intros A B [h ->] [r ->]; cbn [bind]; eauto).
        cbv beta iota fix. fold (@bind (list byte) (list byte)).
        apply Hstep; [|exists rest; exact Hrest].
        destruct (group_selects cur f i) as [[|]|]; [apply (Hhere (Some true)) | eauto | apply (Hhere None)]. }
      intros i fs Ht Hw.
      assert (Hfin : forall A : result (list byte), (exists b, A = Ok b) ->
                exists bs, (do body <- A; Ok (body ++ unk)) = Ok bs) by (intros A [b ->]; cbn [bind]; eauto).
      apply Hfin. exact (G raw Hraw i fs Ht Hw).
  Qed.

  Theorem enc_total o : typed_obj true sc o = true -> exists bs, enc_obj sc o = Ok bs.
  Proof. apply (proj2 enc_total_gen). Qed.
End Enc.
