(* C17_welltyped, encoder half: a message whose attributes are typed and inside the ranges the
   decoder produces ([decoded_range]) can always be encoded again: bytes(m) does not raise. *)
From BP Require Import Base.Prelude Model.Types Model.Varint Model.Scalar Model.Float Model.Utf8.
From BP Require Import Model.Object Model.Eq Model.TimeCore Model.Encode Model.WellFormed Model.C17Typed.
From BP Require Import Spec.Varint Proofs.BytesP Proofs.ScalarP Proofs.C17TypedAuxP.
From BP Require Import gen.Tables.
From Coq Require Import ZifyBool.
Ltac Zify.zify_post_hook ::= Z.to_euclidean_division_equations.

Ltac split_and := repeat match goal with H : _ && _ = true |- _ => apply andb_true_iff in H as [? ?] end.

(* ---------- an induction principle for the nested type pv / obj ---------- *)
Section PvInd.
  Variable P : pv -> Prop.
  Variable Q : obj -> Prop.
  Hypothesis H0 : P PPlaceholder.
  Hypothesis H1 : P PNone.
  Hypothesis H2 : forall z, P (PInt z).
  Hypothesis H3 : forall b, P (PBool b).
  Hypothesis H4 : forall b, P (PFloat b).
  Hypothesis H5 : forall s, P (PStr s).
  Hypothesis H6 : forall b, P (PBytes b).
  Hypothesis H7 : forall us, P (PDatetime us).
  Hypothesis H8 : forall us, P (PTimedelta us).
  Hypothesis H9 : forall l, Forall P l -> P (PList l).
  Hypothesis H10 : forall d, Forall (fun kv : pv * pv => P (snd kv)) d -> P (PDict d).
  Hypothesis H11 : forall o, Q o -> P (PMsg o).
  Hypothesis HO : forall c raw sow unk cur, Forall P raw -> Q (Obj c raw sow unk cur).

  Fixpoint pv_ind2 (v : pv) : P v :=
    match v with
    | PPlaceholder => H0 | PNone => H1 | PInt z => H2 z | PBool b => H3 b | PFloat b => H4 b
    | PStr s => H5 s | PBytes b => H6 b | PDatetime us => H7 us | PTimedelta us => H8 us
    | PList l => H9 l ((fix go (l : list pv) : Forall P l :=
                          match l with [] => Forall_nil _ | x :: r => Forall_cons _ (pv_ind2 x) (go r) end) l)
    | PDict d => H10 d ((fix go (d : list (pv * pv)) : Forall (fun kv : pv * pv => P (snd kv)) d :=
                           match d with
                           | [] => Forall_nil _
                           | kv :: r => Forall_cons kv (let (k, y) as kv0 return P (snd kv0) := kv in pv_ind2 y) (go r)
                           end) d)
    | PMsg o => H11 o (obj_ind2 o)
    end
  with obj_ind2 (o : obj) : Q o :=
    match o with
    | Obj c raw sow unk cur =>
        HO c raw sow unk cur ((fix go (l : list pv) : Forall P l :=
                                 match l with [] => Forall_nil _ | x :: r => Forall_cons _ (pv_ind2 x) (go r) end) raw)
    end.
End PvInd.

(* ---------- scalars ---------- *)
Lemma encode_varint_ok v : - 2 ^ 63 <= v -> exists bs, encode_varint v = Ok bs.
Proof. intros H. unfold encode_varint. replace (v <? - 2 ^ 63) with false by lia. eauto. Qed.

Lemma zigzag_nonneg v : 0 <= zigzag v.
Proof. rewrite zigzag_is_spec. unfold zigzag_spec. destruct (v <? 0) eqn:E; lia. Qed.

Lemma all_types_have_a_wire_type t :
  tmem t WIRE_VARINT_TYPES || tmem t WIRE_FIXED_32_TYPES || tmem t WIRE_FIXED_64_TYPES || tmem t WIRE_LEN_DELIM_TYPES = true.
Proof. destruct t; reflexivity. Qed.

Lemma serialize_ok msg num t v se w value :
  preprocess_with msg t w v = Ok value -> 0 <= num ->
  exists bs, serialize_with msg num t v se w = Ok bs.
Proof.
  intros Hp Hn. unfold serialize_with. rewrite Hp. cbn [bind].
  assert (K : forall k, 0 <= k -> exists key, encode_varint (Z.lor (Z.shiftl num 3) k) = Ok key).
  { intros k Hk. apply encode_varint_ok. assert (0 <= Z.lor (Z.shiftl num 3) k); [|lia].
    apply Z.lor_nonneg. split; [apply Z.shiftl_nonneg; lia | lia]. }
  pose proof (all_types_have_a_wire_type t) as Ht.
  destruct (tmem t WIRE_VARINT_TYPES).
  { destruct (encode_varint_ok (Z.shiftl num 3)) as [key ->]; [pose proof (Z.shiftl_nonneg num 3); lia|]. cbn [bind]. eauto. }
  destruct (tmem t WIRE_FIXED_32_TYPES). { destruct (K 5 ltac:(lia)) as [key ->]. cbn [bind]. eauto. }
  destruct (tmem t WIRE_FIXED_64_TYPES). { destruct (K 1 ltac:(lia)) as [key ->]. cbn [bind]. eauto. }
  destruct (tmem t WIRE_LEN_DELIM_TYPES); [|discriminate Ht]. clear Ht.
  match goal with |- context [if ?c then _ else _] => destruct c; [|eauto] end.
  destruct (K 2 ltac:(lia)) as [key ->]. cbn [bind].
  destruct (encode_varint_ok (Zlength value)) as [n ->]; [unfold Zlength; lia|]. cbn [bind]. eauto.
Qed.

Lemma layout2_ok n1 t1 n2 t2 s n :
  tmem t1 WIRE_VARINT_TYPES = true -> tmem t2 WIRE_VARINT_TYPES = true ->
  tmem t1 [TEnum; TBool; TInt32; TInt64; TUInt32; TUInt64] = true ->
  tmem t2 [TEnum; TBool; TInt32; TInt64; TUInt32; TUInt64] = true ->
  forall nm1 nm2, 0 <= n1 -> 0 <= n2 -> - 2 ^ 63 <= s -> - 2 ^ 63 <= n ->
  exists bs, layout_bytes [(nm1, n1, t1); (nm2, n2, t2)] [s; n] = Ok bs.
Proof.
  intros V1 V2 I1 I2 nm1 nm2 Hn1 Hn2 Hs Hn. unfold layout_bytes. cbn [combine concat_map].
  assert (S1 : forall num t z, tmem t [TEnum; TBool; TInt32; TInt64; TUInt32; TUInt64] = true -> 0 <= num -> - 2 ^ 63 <= z ->
               exists bs, (if z =? 0 then Ok [] else serialize_with no_msg num t (PInt z) false None) = Ok bs).
  { intros num t z It Hnum Hz. destruct (z =? 0); [eauto|].
    destruct (encode_varint_ok z Hz) as [value Hv].
    eapply serialize_ok; [|exact Hnum]. unfold preprocess_with. rewrite It. cbn [int_like]. exact Hv. }
  destruct (S1 n1 t1 s I1 Hn1 Hs) as [b1 ->]. cbn [bind].
  destruct (S1 n2 t2 n I2 Hn2 Hn) as [b2 ->]. cbn [bind]. eauto.
Qed.

Lemma timestamp_ok us : dt_min_us <= us <= dt_max_us ->
  exists bs, (let '(s, n) := ts_pair_of_us us in layout_bytes timestamp_fields [s; n]) = Ok bs.
Proof.
  intros H. unfold ts_pair_of_us, timestamp_fields, dt_min_us, dt_max_us in *.
  apply layout2_ok; try reflexivity; lia.
Qed.

Lemma duration_ok us : td_ok us = true ->
  exists bs, (let '(s, n) := dur_pair_of_us us in layout_bytes duration_fields [s; n]) = Ok bs.
Proof.
  intros H. unfold td_ok, td_min_us, td_max_us in H. unfold dur_pair_of_us, duration_fields.
  apply layout2_ok; try reflexivity; lia.
Qed.

Section Enc.
  Variable sc : schema.
  Hypothesis Hwf : wf_schema sc = true.
  Notation tv := (typed_val true sc).
  Notation ta := (typed_attr true sc).
  Notation tobj := (typed_obj true sc).
  Notation nc := (length (classes sc)).
  Notation ne := (length (enums sc)).

  Definition msg_ok (enc_msg : obj -> result (list byte)) (v : pv) : Prop :=
    match v with PMsg o => exists bs, enc_msg o = Ok bs | _ => True end.

  (* _preprocess_single on a typed element of a field without `wraps` *)
  Lemma preprocess_ok_gen msg t p v :
    tv t p v = true -> pyty_fits nc ne t p = true ->
    (t = TMessage -> exists bs, msg None v = Ok bs) ->
    exists bs, preprocess_with msg t None v = Ok bs.
  Proof.
    intros Hv Hp Hm. unfold preprocess_with.
    destruct p, v; cbn [typed_val] in Hv; try discriminate Hv;
      destruct t; cbn [pyty_fits] in Hp; try discriminate Hp;
      cbn [tmem existsb ptype_eqb ptype_tag Z.eqb Pos.eqb orb FIXED_TYPES int_like pack_value pack_fmt];
      unfold int_ok, float_ok, datetime_ok, timedelta_ok in Hv;
      cbn [negb orb int_range ptype_eqb ptype_tag Z.eqb Pos.eqb] in Hv;
      try (apply encode_varint_ok; lia);
      try (apply encode_varint_ok; pose proof (zigzag_nonneg z); lia);
      try (unfold pack_int; cbn [fmt_int_range]; rewrite Hv; eauto);
      try (eexists; reflexivity);
      try (apply Hm; reflexivity).
    - destruct (d2f bits); [eauto | discriminate].
    - destruct b; apply encode_varint_ok; lia.
  Qed.

  Lemma preprocess_ok enc_msg t p v :
    tv t p v = true -> pyty_fits nc ne t p = true -> msg_ok enc_msg v ->
    exists bs, preprocess_with (msg_bytes enc_msg) t None v = Ok bs.
  Proof.
    intros Hv Hp Hm. apply (preprocess_ok_gen _ t p v Hv Hp). intros ->.
    destruct p, v; cbn [typed_val] in Hv; try discriminate Hv; cbn [pyty_fits] in Hp; try discriminate Hp.
    - cbn [msg_bytes msg_ok] in *. exact Hm.
    - cbn [msg_bytes]. apply timestamp_ok. unfold datetime_ok in Hv. cbn [negb orb] in Hv. lia.
    - cbn [msg_bytes]. apply duration_ok. exact Hv.
  Qed.

  (* ... and of a wrapper field *)
  Lemma preprocess_wrapper_ok enc_msg w vt p v :
    wrapper_value_type w = Some vt -> tv vt p v = true -> pyty_fits nc ne vt p = true ->
    exists bs, preprocess_with (msg_bytes enc_msg) TMessage (Some w) v = Ok bs.
  Proof.
    intros Hw Hv Hp. unfold preprocess_with.
    cbn [tmem existsb ptype_eqb ptype_tag Z.eqb Pos.eqb orb FIXED_TYPES].
    assert (Hnm : vt <> TMessage) by (destruct w; cbn in Hw; try discriminate Hw; injection Hw as <-; discriminate).
    assert (Hs : exists bs, wrapper_bytes w v = Ok bs).
    { unfold wrapper_bytes. rewrite Hw. destruct (is_default _ _ v); [eauto|].
      destruct (preprocess_ok_gen no_msg vt p v Hv Hp) as [value Hval]; [congruence|].
      eapply serialize_ok; [exact Hval | lia]. }
    assert (Hsc : forall us, v <> PDatetime us /\ v <> PTimedelta us).
    { intros us. split; intros ->; destruct p; cbn [typed_val] in Hv; try discriminate Hv;
        destruct vt; cbn in Hp; try discriminate Hp; congruence. }
    destruct v; try (cbn [msg_bytes]; exact Hs).
    - eauto.
    - destruct (Hsc us); congruence.
    - destruct (Hsc us); congruence.
  Qed.
End Enc.
