(* C20, message level, dict / JSON codec: for an enum-typed field in any of the five positions
   (1) to_dict(m) carries it under the field's key as the first declared NAME of each number that has one and as
       the NUMBER otherwise (left out exactly for the proto3 default of a field without presence / an unset optional);
   (2) from_dict(to_dict(m)) - class and instance form, directly and through the JSON text - reads the field exactly
       as m does.
   C04's theorems give from_dict (to_dict m) = norm_obj m (C04Def.norm_obj) for every good message of every
   well-formed schema; here: what to_dict prints for the enum field, and that norm_obj leaves what it reads as alone. *)
From BP Require Import Base.Prelude Model.Types Model.Float Model.Utf8 Model.Object Model.Eq Model.TimeCore.
From BP Require Import Model.Encode Model.WellFormed Model.Json Model.C20Msg.
From BP Require Model.Casing Model.Enum Proofs.EnumP.
From BP Require Import gen.Tables Proofs.BytesP Proofs.C04Def Proofs.C04ScalarP Proofs.C04ElemP Proofs.C04FieldP Proofs.C04ObjP
     Proofs.C04CurP Proofs.C04RtP4 Proofs.C04InstP Proofs.C04DumpsP Proofs.C20MsgDef.
From Coq Require Import Lia ZifyBool.

(* ---------------------------------------------------------------- elements *)
Lemma scalar_enum_json sc e z : scalar_to_json sc TEnum (PyEnum e) (PInt z) = enum_json sc e z.
Proof. rewrite <- dump_bridge. reflexivity. Qed.

Lemma map_scalar_enum_json sc e l :
  Forall i32 l -> map (scalar_to_json sc TEnum (PyEnum e)) l = map (enum_elem_json sc e) l.
Proof.
  induction 1 as [|y l (z & -> & _) _ IH]; [reflexivity|]. cbn [map]. rewrite IH, scalar_enum_json. reflexivity.
Qed.

Lemma map_elem_enum_json rec sc e (d : list (pv * pv)) :
  Forall (fun ky => i32 (snd ky)) d ->
  map (fun kx : pv * pv => let '(k, x) := kx in (raw_json k, elem_to_json rec sc TEnum (PyEnum e) x)) d =
  map (fun ky => (raw_json (fst ky), enum_elem_json sc e (snd ky))) d.
Proof.
  induction 1 as [|[k y] d (z & E & _) _ IH]; [reflexivity|]. cbn [snd] in E. subst y. cbn [map fst snd]. rewrite IH.
  unfold elem_to_json. rewrite scalar_enum_json. reflexivity.
Qed.

Lemma map_norm_pv_i32 sc l : Forall i32 l -> map (norm_pv sc) l = l.
Proof. induction 1 as [|y l (z & -> & _) _ IH]; [reflexivity|]. cbn [map]. rewrite IH. reflexivity. Qed.

Lemma map_norm_pv_d_i32 sc (d : list (pv * pv)) :
  Forall (fun ky => i32 (snd ky)) d -> map (fun kx => (fst kx, norm_pv sc (snd kx))) d = d.
Proof.
  induction 1 as [|[k y] d (z & E & _) _ IH]; [reflexivity|]. cbn [snd] in E. subst y. cbn [map fst snd]. rewrite IH. reflexivity.
Qed.

(* ---------------------------------------------------------------- one field *)
(* a value (not PLACEHOLDER) an enum field of that position holds *)
Definition vshape (pos : epos) (x : pv) : Prop :=
  match pos with
  | PosSingular | PosOneof => i32 x
  | PosOptional => x = PNone \/ i32 x
  | PosRepeated => exists l, x = PList l /\ Forall i32 l
  | PosMapValue => exists d, x = PDict d /\ Forall (fun ky => i32 (snd ky)) d
  end.

Lemma shape_cases pos x0 : enum_shape pos x0 -> x0 = PPlaceholder \/ (x0 <> PPlaceholder /\ vshape pos x0).
Proof.
  intros [->|H]; [left; reflexivity|right]. split; [|destruct pos; exact H].
  destruct pos; cbn in H.
  - destruct H as (z & -> & _). discriminate.
  - destruct H as (l & -> & _). discriminate.
  - destruct H as (d & -> & _). discriminate.
  - destruct H as (z & -> & _). discriminate.
  - destruct H as [->|(z & -> & _)]; discriminate.
Qed.

Lemma default_vshape sc f pos e : enum_position f = Some (pos, e) -> vshape pos (default_of sc f).
Proof.
  intros Hp. rewrite (enum_default sc f pos e Hp). destruct pos; cbn.
  - exists 0. split; [reflexivity|unfold EnumP.int32; lia].
  - exists []. split; [reflexivity|constructor].
  - exists []. split; [reflexivity|constructor].
  - exists 0. split; [reflexivity|unfold EnumP.int32; lia].
  - left. reflexivity.
Qed.

(* the selection state a readable enum field can be in *)
Definition sel_of (f : fdesc) : option bool := match fgroup f with Some _ => Some true | None => None end.

Lemma sel_readable cur f i : group_selects cur f i <> Some false -> group_selects cur f i = sel_of f.
Proof.
  unfold group_selects, sel_of. destruct (fgroup f) as [g|]; [|reflexivity].
  destruct (opt_nat_eqb (nth g cur None) (Some i)); [reflexivity|congruence].
Qed.

(* what the loop body of to_dict prints for the field *)
Lemma enum_field_to_json rec sc f pos e x :
  enum_position f = Some (pos, e) -> vshape pos x ->
  field_to_json rec sc false f (sel_of f) x = if enum_omitted pos x then None else Some (enum_field_json sc e x).
Proof.
  intros Hp Hs. destruct (enum_position_inv f pos e Hp) as (Hw & Hpos). unfold field_to_json, sel_of.
  destruct pos.
  - destruct Hpos as (Hh & Ht & Ho & Hg & Hm). destruct Hs as (z & -> & _).
    rewrite Ht, Hg, Hh. cbn [ptype_eqb ptype_tag Z.eqb orb]. unfold is_default. rewrite Hh.
    cbn [enum_omitted enum_field_json]. destruct (z =? 0); cbn [negb orb]; [reflexivity|].
    unfold hint_elem. rewrite Hh, scalar_enum_json. reflexivity.
  - destruct Hpos as (Hh & Ht & Ho & Hg & Hm). destruct Hs as (l & -> & Hl).
    rewrite Ht, Hg, Hh. cbn [ptype_eqb ptype_tag Z.eqb orb]. unfold is_default. rewrite Hh.
    destruct l as [|y l]; cbn [negb orb enum_omitted]; [reflexivity|].
    rewrite (map_scalar_enum_json sc e (y :: l) Hl). reflexivity.
  - destruct Hpos as (pk & kt & Hh & Ht & Ho & Hg & Hm). destruct Hs as (d & -> & Hl).
    rewrite Ht, Hm, Hh. cbn [ptype_eqb ptype_tag Z.eqb orb]. unfold emit.
    destruct d as [|ky d]; cbn [Spec.Time.is_nil negb orb enum_omitted]; [reflexivity|].
    rewrite (map_elem_enum_json rec sc e (ky :: d) Hl). reflexivity.
  - destruct Hpos as (Hh & Ht & Ho & (g & Hg) & Hm). destruct Hs as (z & -> & _).
    rewrite Ht, Hg, Hh. cbn [ptype_eqb ptype_tag Z.eqb orb]. rewrite orb_true_r.
    unfold hint_elem. rewrite Hh, scalar_enum_json. reflexivity.
  - destruct Hpos as (Hh & Ht & Ho & Hg & Hm). destruct Hs as [->|(z & -> & _)].
    + rewrite Ht, Hg, Hh. cbn [ptype_eqb ptype_tag Z.eqb orb]. unfold is_default. rewrite Hh. reflexivity.
    + rewrite Ht, Hg, Hh. cbn [ptype_eqb ptype_tag Z.eqb orb]. unfold is_default. rewrite Hh. cbn [negb orb].
      unfold hint_elem. rewrite Hh, scalar_enum_json. reflexivity.
Qed.

Lemma enum_emitted sc f pos e x :
  enum_position f = Some (pos, e) -> vshape pos x -> emitted sc f (sel_of f) x = negb (enum_omitted pos x).
Proof.
  intros Hp Hs. unfold emitted. rewrite (enum_field_to_json _ sc f pos e x Hp Hs). destruct (enum_omitted pos x); reflexivity.
Qed.

Lemma vshape_norm_pv sc pos x : vshape pos x -> norm_pv sc x = x.
Proof.
  destruct pos; cbn.
  - intros (z & -> & _). reflexivity.
  - intros (l & -> & Hl). cbn [norm_pv]. rewrite (map_norm_pv_i32 sc l Hl). reflexivity.
  - intros (d & -> & Hl). cbn [norm_pv]. rewrite (map_norm_pv_d_i32 sc d Hl). reflexivity.
  - intros (z & -> & _). reflexivity.
  - intros [->|(z & -> & _)]; reflexivity.
Qed.

(* an omitted value is the one the rebuilt (sentinel) slot reads as *)
Lemma omitted_is_default sc f pos e x :
  enum_position f = Some (pos, e) -> vshape pos x -> enum_omitted pos x = true -> rdv sc f (sentinel f) = x.
Proof.
  intros Hp Hs Hom. pose proof (enum_default sc f pos e Hp) as Hd.
  destruct (enum_position_inv f pos e Hp) as (Hw & Hpos). unfold sentinel.
  destruct pos.
  - destruct Hpos as (Hh & Ht & Ho & Hg & Hm). destruct Hs as (z & -> & _). rewrite Ho. cbn [rdv]. rewrite Hd.
    cbn [enum_omitted] in Hom. apply Z.eqb_eq in Hom. subst. reflexivity.
  - destruct Hpos as (Hh & Ht & Ho & Hg & Hm). destruct Hs as (l & -> & _). rewrite Ho. cbn [rdv]. rewrite Hd.
    destruct l; [reflexivity|discriminate Hom].
  - destruct Hpos as (pk & kt & Hh & Ht & Ho & Hg & Hm). destruct Hs as (d & -> & _). rewrite Ho. cbn [rdv]. rewrite Hd.
    destruct d; [reflexivity|discriminate Hom].
  - destruct Hs as (z & -> & _). discriminate Hom.
  - destruct Hpos as (Hh & Ht & Ho & Hg & Hm). rewrite Ho. destruct Hs as [->|(z & -> & _)]; [reflexivity|discriminate Hom].
Qed.

Lemma sentinel_reads_default sc f pos e :
  enum_position f = Some (pos, e) -> rdv sc f (sentinel f) = default_of sc f.
Proof.
  intros Hp. pose proof (enum_default sc f pos e Hp) as Hd.
  destruct (enum_position_inv f pos e Hp) as (Hw & Hpos). unfold sentinel.
  destruct pos; try (destruct Hpos as (Hh & Ht & Ho & Hg & Hm); rewrite Ho; cbn [rdv]; congruence).
  destruct Hpos as (pk & kt & Hh & Ht & Ho & Hg & Hm). rewrite Ho. reflexivity.
Qed.

(* one slot of the rebuilt object *)
Lemma norm_field_ph sc cur i f : norm_field sc cur i f PPlaceholder = sentinel f.
Proof. unfold norm_field. destruct (group_selects cur f i) as [[|]|]; reflexivity. Qed.

Lemma norm_field_value sc cur i f x0 :
  group_selects cur f i <> Some false -> x0 <> PPlaceholder ->
  norm_field sc cur i f x0 = if emitted sc f (group_selects cur f i) x0 then norm_pv sc x0 else sentinel f.
Proof.
  intros Hs Hx. unfold norm_field. destruct (group_selects cur f i) as [[|]|]; try congruence; destruct x0; try congruence; reflexivity.
Qed.

Lemma enum_norm_field_rd sc cur i f pos e x0 :
  enum_position f = Some (pos, e) -> enum_shape pos x0 -> group_selects cur f i <> Some false ->
  rdv sc f (norm_field sc cur i f x0) = rdv sc f x0.
Proof.
  intros Hp Hs Hsel.
  destruct (shape_cases pos x0 Hs) as [->|(Hne & Hv)].
  - rewrite norm_field_ph. cbn [rdv]. apply (sentinel_reads_default sc f pos e Hp).
  - rewrite (norm_field_value sc cur i f x0 Hsel Hne), (sel_readable cur f i Hsel).
    rewrite (enum_emitted sc f pos e x0 Hp Hv), (vshape_norm_pv sc pos x0 Hv).
    destruct (enum_omitted pos x0) eqn:Hom; cbn [negb]; [|reflexivity].
    rewrite (omitted_is_default sc f pos e x0 Hp Hv Hom). destruct x0; try reflexivity. congruence.
Qed.

(* ---------------------------------------------------------------- the object *)
Lemma good_parts sc c raw s u g :
  good sc (Obj c raw s u g) = true ->
  in_range sc (Obj c raw s u g) = true /\
  length raw = length (cfields (get_class sc c)) /\ length g = cngroups (get_class sc c) /\
  fields_ok sc raw (cfields (get_class sc c)) = true /\
  oneof_loop g O raw (cfields (get_class sc c)) = true.
Proof.
  intros G. rewrite good_split in G. apply andb_prop in G as [Hr Hg]. split; [exact Hr|].
  destruct (in_range_unfold _ _ _ _ _ _ Hr) as [Hl [Hgl F]].
  unfold pv_good in Hg. rewrite pv_all_msg in Hg. apply andb_prop in Hg as [Hloc _].
  unfold local_ok in Hloc. apply andb_prop in Hloc as [Hloc _]. apply andb_prop in Hloc as [_ Hone].
  rewrite local_oneof_unfold in Hone. auto.
Qed.

Lemma nth_error_some_len {A B} (l : list A) (fs : list B) i f :
  length l = length fs -> nth_error fs i = Some f -> exists x, nth_error l i = Some x.
Proof.
  intros Hl Hf. destruct (nth_error l i) as [x|] eqn:E; [eauto|].
  apply nth_error_None in E. assert (i < length fs)%nat by (apply nth_error_Some; congruence). lia.
Qed.

Lemma enum_slot_of_good sc c raw s u g i f pos e :
  good sc (Obj c raw s u g) = true ->
  nth_error (cfields (get_class sc c)) i = Some f -> enum_position f = Some (pos, e) ->
  exists x0, nth_error raw i = Some x0 /\ nth i raw PPlaceholder = x0 /\ enum_shape pos x0.
Proof.
  intros G Hf Hp. destruct (good_parts sc c raw s u g G) as (_ & Hl & _ & F & _).
  destruct (nth_error_some_len raw _ i f Hl Hf) as (x0 & Hx). exists x0. split; [exact Hx|].
  split; [exact (nth_error_nth raw i PPlaceholder Hx)|].
  exact (slot_enum_shape sc f pos e x0 Hp (fields_ok_at sc raw _ i x0 f F Hx Hf)).
Qed.

(* (2) the rebuilt object reads the enum field as the original does *)
Lemma enum_read_norm_json sc m i f pos e :
  wf_schema sc = true -> good sc m = true ->
  nth_error (cfields (get_class sc (ocls m))) i = Some f -> enum_position f = Some (pos, e) ->
  read sc (norm_obj sc m) i = read sc m i.
Proof.
  destruct m as [c raw s u g]. cbn [ocls]. intros W G Hf Hp.
  destruct (good_parts sc c raw s u g G) as (_ & Hl & Hgl & F & Hone).
  destruct (enum_slot_of_good sc c raw s u g i f pos e G Hf Hp) as (x0 & Hx & Hn & Hs).
  rewrite norm_obj_unfold, post_init_unfold. unfold set_sow.
  rewrite !(read_rdv sc c _ _ _ _ i f Hf).
  rewrite (group_selects_norm sc c g raw (wf_fields sc c W) Hgl Hl Hone F i f Hf).
  destruct (group_selects g f i) as [[|]|] eqn:Hsel; [|reflexivity|]; f_equal.
  - rewrite (nth_error_nth _ i PPlaceholder (nth_norm_raw sc g raw _ O i x0 f Hx Hf)). cbn [Nat.add]. rewrite Hn.
    apply (enum_norm_field_rd sc g i f pos e x0 Hp Hs). rewrite Hsel. discriminate.
  - rewrite (nth_error_nth _ i PPlaceholder (nth_norm_raw sc g raw _ O i x0 f Hx Hf)). cbn [Nat.add]. rewrite Hn.
    apply (enum_norm_field_rd sc g i f pos e x0 Hp Hs). rewrite Hsel. discriminate.
Qed.

Lemma enum_read_int32_json sc m i f pos e x v :
  good sc m = true ->
  nth_error (cfields (get_class sc (ocls m))) i = Some f -> enum_position f = Some (pos, e) ->
  read sc m i = Ok x -> holds_enum pos x v = true -> EnumP.int32 v.
Proof.
  destruct m as [c raw s u g]. cbn [ocls]. intros G Hf Hp Hx Hh.
  destruct (enum_slot_of_good sc c raw s u g i f pos e G Hf Hp) as (x0 & _ & Hn & Hs).
  rewrite (read_rdv sc c _ _ _ g i f Hf), Hn in Hx.
  assert (E : x = rdv sc f x0) by (destruct (group_selects g f i) as [[|]|]; congruence). subst x.
  exact (holds_shape_int32 sc f pos e x0 v Hp Hs Hh).
Qed.

(* ---------------------------------------------------------------- (1) what to_dict carries under the key *)
Fixpoint kassoc (k : list byte) (items : list (list byte * json)) : option json :=
  match items with
  | [] => None
  | (k', v) :: r => if bytes_eqb k k' then Some v else kassoc k r
  end.

Lemma bytes_eqb_refl' k : bytes_eqb k k = true.
Proof. apply bytes_eqb_eq. reflexivity. Qed.

Lemma bytes_eqb_neq a b : a <> b -> bytes_eqb a b = false.
Proof. intros H. destruct (bytes_eqb a b) eqn:E; [|reflexivity]. apply bytes_eqb_eq in E. contradiction. Qed.

Lemma jassoc_jtr b k items : jassoc k (map (jtr b) items) = option_map (tr b) (kassoc k items).
Proof.
  induction items as [|[k' v] items IH]; [reflexivity|]. cbn [map jtr fst snd jassoc kassoc].
  destruct (bytes_eqb k k'); [reflexivity|exact IH].
Qed.

Lemma kassoc_notin k items : ~ In k (map fst items) -> kassoc k items = None.
Proof.
  induction items as [|[k' v] items IH]; intros H; [reflexivity|]. cbn [kassoc].
  rewrite bytes_eqb_neq; [apply IH; intros I; apply H; right; exact I|]. intros ->. apply H. left. reflexivity.
Qed.

Definition td_here (cs : casing) (sc : schema) (cur : list (option nat)) (i : nat) (f : fdesc) (x : pv) : option json :=
  match group_selects cur f i with
  | Some false => None
  | sel =>
      match x with
      | PPlaceholder => field_to_json (fun o' => JObj []) sc false f sel (default_of sc f)
      | _ => field_to_json (to_dict cs false sc) sc false f sel x
      end
  end.

Lemma td_items_cons cs sc cur j x raw f fs :
  td_items cs sc cur j (x :: raw) (f :: fs) =
  (match td_here cs sc cur j f x with Some v => [(key_of_field cs f, v)] | None => [] end) ++ td_items cs sc cur (S j) raw fs.
Proof. reflexivity. Qed.

Lemma kassoc_td_items cs sc cur : forall raw fs j i f x0,
  NoDup (map (key_of_field cs) fs) -> nth_error fs i = Some f -> nth_error raw i = Some x0 ->
  kassoc (key_of_field cs f) (td_items cs sc cur j raw fs) = td_here cs sc cur (j + i) f x0.
Proof.
  induction raw as [|y raw IH]; intros fs j i f x0 ND Hf Hx; [destruct i; discriminate Hx|].
  destruct fs as [|g fs]; [destruct i; discriminate Hf|]. rewrite td_items_cons.
  cbn [map] in ND. inversion ND as [|? ? N1 N2]; subst.
  destruct i as [|i]; cbn [nth_error] in Hf, Hx.
  - injection Hf as ->. injection Hx as ->. rewrite Nat.add_0_r.
    destruct (td_here cs sc cur j f x0) as [v|]; cbn [app kassoc].
    + rewrite bytes_eqb_refl'. reflexivity.
    + apply kassoc_notin. intros I. apply N1. exact (td_items_keys _ _ _ _ _ _ _ I).
  - assert (Hk : key_of_field cs f <> key_of_field cs g).
    { intros E. apply N1. rewrite <- E. apply in_map. exact (nth_error_In _ _ Hf). }
    replace (j + S i)%nat with (S j + i)%nat by lia.
    destruct (td_here cs sc cur j g y) as [v|]; cbn [app kassoc]; [rewrite (bytes_eqb_neq _ _ Hk)|]; exact (IH fs (S j) i f x0 N2 Hf Hx).
Qed.

Lemma td_here_enum cs sc cur i f pos e x0 :
  enum_position f = Some (pos, e) -> enum_shape pos x0 -> group_selects cur f i <> Some false ->
  td_here cs sc cur i f x0 =
  if enum_omitted pos (rdv sc f x0) then None else Some (enum_field_json sc e (rdv sc f x0)).
Proof.
  intros Hp Hs Hsel. unfold td_here. rewrite (sel_readable cur f i Hsel).
  assert (Hns : sel_of f <> Some false) by (unfold sel_of; destruct (fgroup f); discriminate).
  destruct (shape_cases pos x0 Hs) as [->|(Hne & Hv)].
  - cbn [rdv]. rewrite <- (enum_field_to_json (fun _ => JObj []) sc f pos e _ Hp (default_vshape sc f pos e Hp)).
    destruct (sel_of f) as [[|]|]; try congruence; reflexivity.
  - replace (rdv sc f x0) with x0 by (destruct x0; try reflexivity; congruence).
    rewrite <- (enum_field_to_json (to_dict cs false sc) sc f pos e x0 Hp Hv).
    destruct (sel_of f) as [[|]|]; try congruence; destruct x0; try congruence; reflexivity.
Qed.

Lemma enum_to_dict_lookup sc cs b m i f pos e x :
  keys_ok cs sc = true -> good sc m = true ->
  nth_error (cfields (get_class sc (ocls m))) i = Some f -> enum_position f = Some (pos, e) ->
  read sc m i = Ok x ->
  jlookup (key_of_field cs f) (tr b (to_dict cs false sc m)) =
  if enum_omitted pos x then None else Some (tr b (enum_field_json sc e x)).
Proof.
  destruct m as [c raw s u g]. cbn [ocls]. intros K G Hf Hp Hx.
  destruct (enum_slot_of_good sc c raw s u g i f pos e G Hf Hp) as (x0 & Hx0 & Hn & Hs).
  rewrite (read_rdv sc c _ _ _ g i f Hf), Hn in Hx.
  assert (Hsel : group_selects g f i <> Some false) by (intros E; rewrite E in Hx; discriminate Hx).
  assert (E : x = rdv sc f x0) by (destruct (group_selects g f i) as [[|]|]; congruence). subst x.
  rewrite to_dict_unfold. destruct (keys_fields cs sc c K) as [_ ND].
  rewrite dict_norm_nodup by (apply td_items_nodup, ND).
  rewrite tr_obj, map_map.
  rewrite (map_ext _ (jtr b)) by (intros [k j]; unfold jtr, jkey; cbn [fst snd]; rewrite (trk_str b); reflexivity).
  cbn [jlookup]. rewrite jassoc_jtr, (kassoc_td_items cs sc g raw _ O i f x0 ND Hf Hx0). cbn [Nat.add].
  rewrite (td_here_enum cs sc g i f pos e x0 Hp Hs Hsel).
  destruct (enum_omitted pos (rdv sc f x0)); reflexivity.
Qed.

(* the JSON text leaves names and numbers alone (map keys become strings, as for every map) *)
Lemma tr_enum_json b sc e z : tr b (enum_json sc e z) = enum_json sc e z.
Proof. unfold enum_json. destruct (EnumP.first_name _ z); destruct b; reflexivity. Qed.

Lemma tr_enum_elem_json b sc e y : tr b (enum_elem_json sc e y) = enum_elem_json sc e y.
Proof. destruct y; try (destruct b; reflexivity). apply tr_enum_json. Qed.

Lemma tr_enum_field_json b sc e x :
  tr b (enum_field_json sc e x) =
  match x with
  | PDict d => JObj (map (fun ky => (trk b (raw_json (fst ky)), enum_elem_json sc e (snd ky))) d)
  | _ => enum_field_json sc e x
  end.
Proof.
  destruct x; try (destruct b; reflexivity).
  - apply tr_enum_json.
  - cbn [enum_field_json]. rewrite tr_list, map_map. f_equal. apply map_ext. intros y. apply tr_enum_elem_json.
  - cbn [enum_field_json]. rewrite tr_obj, map_map. f_equal. apply map_ext. intros [k y]. cbn [fst snd].
    rewrite tr_enum_elem_json. reflexivity.
Qed.

(* ---------------------------------------------------------------- the theorem *)
Theorem roundtrip_message_json sc cs m i f pos e x v :
  wf_schema sc = true -> keys_ok cs sc = true -> good sc m = true ->
  nth_error (cfields (get_class sc (ocls m))) i = Some f -> enum_position f = Some (pos, e) ->
  read sc m i = Ok x -> holds_enum pos x v = true ->
  EnumP.int32 v /\
  (forall text : bool,
     jlookup (key_of_field cs f) (tr text (to_dict cs false sc m)) =
     if enum_omitted pos x then None else Some (tr text (enum_field_json sc e x))) /\
  exists m',
    (forall text : bool,
       from_dict_cls sc (ocls m) (tr text (to_dict cs false sc m)) = Ok m' /\
       from_dict_inst sc (new sc (ocls m)) (tr text (to_dict cs false sc m)) = Ok m') /\
    json_rt_cls cs false sc m = Ok m' /\ json_rt_inst cs false sc m (new sc (ocls m)) = Ok m' /\
    read sc m' i = Ok x /\
    obj_eq sc m' m = true /\ enc_obj sc m' = enc_obj sc m.
Proof.
  intros W K G Hf Hp Hx Hh.
  split; [exact (enum_read_int32_json sc m i f pos e x v G Hf Hp Hx Hh)|].
  split; [intros text; exact (enum_to_dict_lookup sc cs text m i f pos e x K G Hf Hp Hx)|].
  exists (norm_obj sc m).
  assert (Hboth : forall text : bool,
             from_dict_cls sc (ocls m) (tr text (to_dict cs false sc m)) = Ok (norm_obj sc m) /\
             from_dict_inst sc (new sc (ocls m)) (tr text (to_dict cs false sc m)) = Ok (norm_obj sc m)).
  { intros text. split; [exact (from_to_dict_norm sc cs text W K m G)|exact (inst_from_to_dict_norm sc cs text W K m G)]. }
  split; [exact Hboth|].
  assert (Hparts : in_range sc m = true /\ oneof_ok sc m = true).
  { unfold good in G. apply andb_prop in G as [G0 _]. apply andb_prop in G0 as [G0 _]. apply andb_prop in G0 as [A B]. auto. }
  destruct Hparts as [R O].
  unfold json_rt_cls, json_rt_inst, dumps_loads. rewrite (dumps_total sc cs W m R O). cbn [bind].
  split; [exact (proj1 (Hboth true))|]. split; [exact (proj2 (Hboth true))|].
  split; [rewrite (enum_read_norm_json sc m i f pos e W G Hf Hp); exact Hx|].
  exact (norm_faithful sc W m G).
Qed.
