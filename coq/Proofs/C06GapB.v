(* C06 gap closing, second group (see the table at the top of C06GapA.v): statements about the STATE of one object.
   fresh_constructor            clause (1) for the constructor call Cls() itself
   implicit_emit_iff_partial    clause (2) with its converse (Timestamp / Duration value types left out)
   explicit_unset_silent / explicit_emit_iff   clause (3) with its converse
   sow_ok_flag_consistent       clause (4): C01's decidable sow_ok gives the "flag consistent" hypothesis of C06_submessage
   k12 witnesses                sow_ok is exactly what the K12 object lacks *)
From Coq Require Import ZArith List Bool Lia.
From BP Require Import Base.Prelude Model.Types Model.Varint Model.Object Model.Eq Model.Encode Model.Decode.
From BP Require Import Model.WellFormed Model.C06Obs Model.C01Def Model.C06GapDefs Spec.Varint Spec.C06Wire.
From BP Require Import Proofs.C06SpecP Proofs.C06EncP Proofs.C06FinalP Proofs.C06WaysP Proofs.C06DictFinalP.
Import ListNotations.
Local Open Scope Z_scope.

(* ---------- (1) the constructor call without arguments ---------- *)
Theorem fresh_constructor sc c :
  wf_schema sc = true ->
  construct sc c [] = new sc c /\
  enc_obj sc (construct sc c []) = Ok [] /\
  (forall i f, nth_error (cfields (get_class sc c)) i = Some f -> read sc (construct sc c []) i = proto3_default sc f) /\
  osow (construct sc c []) = false /\
  (forall g, which_one_of (construct sc c []) g = None) /\
  (forall i, is_set sc (construct sc c []) i = false) /\
  (forall i, child_on_wire (construct sc c []) i = false).
Proof.
  intros W. rewrite construct_nil. destruct (fresh sc c W) as (A & B).
  destruct (fresh_unset sc c) as (S & _ & G & I & Ch). repeat split; assumption.
Qed.

(* zero bytes do not identify a fresh message: an implicit-presence field SET to its default also gives b"" *)
Lemma fresh_bytes_not_injective_witness :
  exists o, enc_obj k12_schema o = Ok [] /\ o <> new k12_schema 11 /\ osow o = true /\ is_set k12_schema o 0 = true.
Proof. exists (setattr k12_schema (new k12_schema 11) 0 (PInt 0)). vm_compute. repeat split. discriminate. Qed.

(* ---------- (2) implicit presence: skipped EXACTLY when default ---------- *)
Lemma here_value sc cur i x f :
  is_value x -> here sc cur i x f =
  match group_selects cur f i with Some false => Ok [] | sel => emit_field (enc_obj sc) sc f sel x end.
Proof. intros [Hn Hp]. unfold here. destruct (group_selects cur f i) as [[|]|]; destruct x; congruence. Qed.

Lemma emit_field_nondefault enc sc f sel x bs :
  1 <= fnum f < 2 ^ 29 -> fmap f = None -> singular_value x -> is_default sc f x = false ->
  emit_field enc sc f sel x = Ok bs ->
  exists se, serialize_with (msg_bytes enc) (fnum f) (fty f) x se (fwraps f) = Ok bs.
Proof.
  intros Hn Hmap Hl Hd H. unfold emit_field in H. rewrite Hd in H. cbn [andb] in H.
  destruct x; try (eexists; exact H).
  - exfalso. eapply Hl. reflexivity.
  - rewrite Hmap in H. discriminate.
Qed.

Theorem implicit_nondefault_emit sc cur i x f h :
  1 <= fnum f < 2 ^ 29 -> fmap f = None -> implicit_field f ->
  is_value x -> singular_value x -> is_default sc f x = false ->
  here sc cur i x f = Ok h ->
  starts_with_tag (fnum f) (base_wire_type (fty f)) h \/ (h = [] /\ base_wire_type (fty f) = 2).
Proof.
  intros Hn Hmap (Hg & Ho & t & Hh & Ht) Hv Hs Hd H.
  rewrite (here_value _ _ _ _ _ Hv) in H. unfold group_selects in H. rewrite Hg in H.
  destruct (emit_field_nondefault _ _ _ _ _ _ Hn Hmap Hs Hd H) as (se & S).
  destruct (serialize_with_tag _ _ _ _ _ _ _ Hn S) as [(E & _ & _ & B)|T]; [right; split; assumption|left; exact T].
Qed.

Theorem implicit_emit_iff_partial sc cur i x f h :
  1 <= fnum f < 2 ^ 29 -> fmap f = None -> implicit_field f -> implicit_exact_kind f ->
  is_value x -> singular_value x ->
  here sc cur i x f = Ok h ->
  (h = [] <-> is_default sc f x = true) /\
  (is_default sc f x = false -> starts_with_tag (fnum f) (base_wire_type (fty f)) h).
Proof.
  intros Hn Hmap Hi Hk Hv Hs H.
  assert (ND : is_default sc f x = false -> starts_with_tag (fnum f) (base_wire_type (fty f)) h).
  { intros Hd. destruct (implicit_nondefault_emit _ _ _ _ _ _ Hn Hmap Hi Hv Hs Hd H) as [T|(-> & B)]; [exact T|].
    exfalso. destruct Hk as [K|[(Ht & Hh)|(Ht & Hh)]]; [exact (K B)| |].
    - pose proof Hi as (Hg & Ho & _).
      rewrite (here_value _ _ _ _ _ Hv) in H. unfold group_selects in H. rewrite Hg in H.
      destruct (emit_field_nondefault _ _ _ _ _ _ Hn Hmap Hs Hd H) as (se & Sv).
      unfold serialize_with in Sv. rewrite Ht in Sv. cbn in Sv.
      destruct x as [| |z|b|b|s|s|l|d|o|u|u]; cbn in Sv; try discriminate.
      destruct s as [|b0 s'].
      + cbn [is_default] in Hd. rewrite Hh in Hd. discriminate.
      + unfold Zlength in Sv. cbn [length] in Sv.
        replace (negb (Z.of_nat (Datatypes.S (length s')) =? 0)) with true in Sv by (symmetry; apply negb_true_iff, Z.eqb_neq; lia).
        cbn [orb] in Sv.
        destruct (encode_varint _) as [key|]; cbn [bind] in Sv; [|discriminate].
        destruct (encode_varint _) as [n|]; cbn [bind] in Sv; [|discriminate].
        injection Sv as Sv. apply (f_equal (@length byte)) in Sv. rewrite !app_length in Sv. cbn [length] in Sv. lia.
    - pose proof Hi as (Hg & Ho & _).
      rewrite (here_value _ _ _ _ _ Hv) in H. unfold group_selects in H. rewrite Hg in H.
      destruct (emit_field_nondefault _ _ _ _ _ _ Hn Hmap Hs Hd H) as (se & Sv).
      unfold serialize_with in Sv. rewrite Ht in Sv. cbn in Sv.
      destruct x as [| |z|b|b|s|s|l|d|o|u|u]; cbn in Sv; try discriminate.
      destruct s as [|b0 s'].
      + cbn [is_default] in Hd. rewrite Hh in Hd. discriminate.
      + unfold Zlength in Sv. cbn [length] in Sv.
        replace (negb (Z.of_nat (Datatypes.S (length s')) =? 0)) with true in Sv by (symmetry; apply negb_true_iff, Z.eqb_neq; lia).
        cbn [orb] in Sv.
        destruct (encode_varint _) as [key|]; cbn [bind] in Sv; [|discriminate].
        destruct (encode_varint _) as [n|]; cbn [bind] in Sv; [|discriminate].
        injection Sv as Sv. apply (f_equal (@length byte)) in Sv. rewrite !app_length in Sv. cbn [length] in Sv. lia. }
  split; [|exact ND]. split.
  - intros ->. destruct (is_default sc f x) eqn:Hd; [reflexivity|].
    exfalso. exact (starts_with_tag_nonempty _ _ _ (ND eq_refl) eq_refl).
  - intros Hd. rewrite (here_implicit_default sc cur i x f Hi Hd) in H. injection H as <-. reflexivity.
Qed.

(* ---------- (3) explicit presence: emitted EXACTLY when set (and, for a oneof member, selected) ---------- *)
Lemma optional_like_default_none sc c f :
  wf_schema sc = true -> In f (cfields (get_class sc c)) -> optional_like f -> default_of sc f = PNone.
Proof.
  intros W I (_ & [Ho|(w & t & _ & Hh)]).
  - destruct (wf_opt_hinted sc W c f I Ho) as (t & Hh). unfold default_of. rewrite Hh. reflexivity.
  - unfold default_of. rewrite Hh. reflexivity.
Qed.

(* never set (None / PLACEHOLDER), or a oneof member the group does not select: no bytes *)
Theorem explicit_unset_silent sc c cur i x f :
  wf_schema sc = true -> nth_error (cfields (get_class sc c)) i = Some f -> explicit_field f ->
  (x = PNone \/ (x = PPlaceholder /\ group_selects cur f i <> Some true) \/ group_selects cur f i = Some false) ->
  here sc cur i x f = Ok [].
Proof.
  intros W Hf He Hx. unfold here.
  destruct Hx as [->|[(-> & Hsel)| ->]]; [destruct (group_selects cur f i) as [[|]|]; reflexivity| |reflexivity].
  destruct He as [Ho|(g & G)].
  - rewrite (optional_like_default_none sc c f W (nth_error_In _ _ Hf) Ho).
    destruct (group_selects cur f i) as [[|]|]; reflexivity.
  - unfold group_selects in *. rewrite G in *. destruct (opt_nat_eqb (nth g cur None) (Some i)); [congruence|reflexivity].
Qed.

Theorem explicit_emit_iff sc c cur i x f h :
  wf_schema sc = true -> nth_error (cfields (get_class sc c)) i = Some f -> explicit_field f ->
  1 <= fnum f < 2 ^ 29 -> fmap f = None -> singular_value x ->
  (x = PPlaceholder -> group_selects cur f i <> Some true) ->
  here sc cur i x f = Ok h ->
  (h <> [] <-> (is_value x /\ group_selects cur f i <> Some false)) /\
  (h <> [] -> starts_with_tag (fnum f) (base_wire_type (fty f)) h).
Proof.
  intros W Hf He Hn Hmap Hs Hp H.
  assert (Bwd : is_value x /\ group_selects cur f i <> Some false -> starts_with_tag (fnum f) (base_wire_type (fty f)) h).
  { intros (Hv & Hsel). eapply explicit_emit_here; try eassumption.
    destruct He as [Ho|(g & G)]; [left; exact Ho|right].
    unfold group_selects in *. rewrite G in *. destruct (opt_nat_eqb (nth g cur None) (Some i)); [reflexivity|congruence]. }
  assert (Fwd : h <> [] -> is_value x /\ group_selects cur f i <> Some false).
  { intros Hne. split; [split|]; intros E.
    - rewrite (explicit_unset_silent sc c cur i x f W Hf He (or_introl E)) in H. injection H as <-. congruence.
    - rewrite (explicit_unset_silent sc c cur i x f W Hf He (or_intror (or_introl (conj E (Hp E))))) in H.
      injection H as <-. congruence.
    - rewrite (explicit_unset_silent sc c cur i x f W Hf He (or_intror (or_intror E))) in H. injection H as <-. congruence. }
  split; [split; [exact Fwd|]|].
  - intros Hv. eapply starts_with_tag_nonempty. apply Bwd. exact Hv.
  - intros Hne. apply Bwd, Fwd, Hne.
Qed.

(* the side condition on PLACEHOLDER is needed: a group whose selection names a member that holds nothing emits the
   member's default (a state no public operation produces; oneof_clean / cur_ok of C01 and C07's invariant exclude it) *)
Lemma explicit_emit_iff_placeholder_witness :
  exists sc cur f, wf_schema sc = true /\ nth_error (cfields (get_class sc 11)) 0 = Some f /\ explicit_field f /\
    here sc cur 0 PPlaceholder f = Ok [x0a; x00].
Proof.
  exists (mkS (builtin_classes ++ [mkC [mkF [x61] 1 TString None (Some 0%nat) None false (HPlain PyStr) 0] 1]) []),
         [Some 0%nat], (mkF [x61] 1 TString None (Some 0%nat) None false (HPlain PyStr) 0).
  split; [vm_compute; reflexivity|]. split; [reflexivity|]. split; [right; exists 0%nat; reflexivity|]. vm_compute. reflexivity.
Qed.

(* ---------- (4) C01's sow_ok gives the "flag consistent" hypothesis of C06_submessage ---------- *)
Lemma sow_ok_go_nth sc cur : forall raw fs i0 i x f,
  (fix go (i : nat) (raw : list pv) (fs : list fdesc) {struct raw} : bool :=
     match raw, fs with
     | x :: raw', f :: fs' =>
         (match x, fhint f with
          | PMsg o', (HPlain _ | HOptional _) =>
              osow o' ||
              negb (negb (is_default sc f x) || fopt f ||
                    match group_selects cur f i with Some true => true | _ => false end)
          | PPlaceholder, HPlain (PyMsg _) =>
              negb (match group_selects cur f i with Some true => true | _ => false end)
          | _, _ => true
          end) && go (Datatypes.S i) raw' fs'
     | _, _ => true
     end) i0 raw fs = true ->
  nth_error raw i = Some x -> nth_error fs i = Some f ->
  match x, fhint f with
  | PMsg o', (HPlain _ | HOptional _) =>
      osow o' || negb (negb (is_default sc f x) || fopt f ||
                       match group_selects cur f (i0 + i) with Some true => true | _ => false end)
  | PPlaceholder, HPlain (PyMsg _) =>
      negb (match group_selects cur f (i0 + i) with Some true => true | _ => false end)
  | _, _ => true
  end = true.
Proof.
  induction raw as [|y raw IH]; intros fs i0 i x f H Hx Hf; [destruct i; discriminate|].
  destruct fs as [|g fs]; [destruct i; discriminate|].
  apply andb_prop in H as [H1 H2]. destruct i as [|i].
  - injection Hx as <-. injection Hf as <-. rewrite Nat.add_0_r. exact H1.
  - cbn [nth_error] in Hx, Hf. specialize (IH fs (Datatypes.S i0) i x f H2 Hx Hf).
    replace (i0 + Datatypes.S i)%nat with (Datatypes.S i0 + i)%nat by lia. exact IH.
Qed.

Theorem sow_ok_flag_consistent sc o i f ch :
  sow_ok sc o = true ->
  nth_error (cfields (get_class sc (ocls o))) i = Some f -> nth_error (oraw o) i = Some (PMsg ch) ->
  plain_msg f ->
  osow ch = false -> is_default sc f (PMsg ch) = true.
Proof.
  intros S Hf Hx ((Hg & Ho & _ & _) & (c' & Hh)) Hs.
  destruct o as [c raw sow unk cur]. cbn [ocls oraw] in *. unfold sow_ok in S.
  pose proof (sow_ok_go_nth sc cur raw _ O i _ f S Hx Hf) as P. cbn beta iota in P.
  rewrite Hh, Hs, Ho in P. unfold group_selects in P. rewrite Hg in P. cbn [orb] in P.
  rewrite !orb_false_r in P. rewrite negb_involutive in P. exact P.
Qed.

(* ... and the K12 object is exactly an object without it; the direct-child assignment has it *)
Lemma k12_not_sow_ok_witness :
  (exists m, k12_after 5 = Ok m /\ sow_ok k12_schema m = false) /\
  (exists m, assign_path k12_schema (new k12_schema 11) [1%nat] 0 (PInt 5) = Ok m /\ sow_ok k12_schema m = true).
Proof. split; eexists; (split; [vm_compute; reflexivity|]); vm_compute; reflexivity. Qed.

(* the emission statement of C06_submessage for every object with sow_ok *)
Theorem submessage_sow_ok sc o i f ch all :
  wf_schema sc = true -> sow_ok sc o = true ->
  nth_error (cfields (get_class sc (ocls o))) i = Some f -> nth_error (oraw o) i = Some (PMsg ch) ->
  plain_msg f -> enc_obj sc o = Ok all ->
  exists pre h post, all = pre ++ h ++ post /\ here sc (ocur o) i (PMsg ch) f = Ok h /\
    (h <> [] <-> osow ch = true) /\ (osow ch = true -> starts_with_tag (fnum f) 2 h).
Proof.
  intros W S Hf Hx Hp E. pose proof (sow_ok_flag_consistent sc o i f ch S Hf Hx Hp) as C.
  destruct o as [c raw sow unk cur]. cbn [ocls oraw ocur] in *.
  destruct (submessage sc c raw sow unk cur i f ch all W Hf Hx (proj1 Hp) E) as (pre & h & post & -> & Hh & A & _ & B).
  exists pre, h, post. repeat split; try assumption; apply (B C).
Qed.
