(* C04 (include_default_values generic, wfx schemas): the instance form.  On a fresh object, o.from_dict(d) - the flag,
   then one setattr per key, each resetting the siblings of a oneof member - builds the same object as the classmethod
   form Cls.from_dict(d) when d = to_dict(m, include_default_values=incl) (possibly through the JSON text).  Mirrors C04InstP. *)
From BP Require Import Base.Prelude Model.Types Model.Float Model.Utf8 Model.Object Model.Eq Model.TimeCore.
From BP Require Import Model.Encode Model.WellFormed Model.Json Model.C04RepWrap.
From BP Require Import gen.Tables Proofs.BytesP Proofs.C04Def Proofs.C04ScalarP Proofs.C04ElemP Proofs.C04FieldP Proofs.C04ObjP Proofs.C04CurP
  Proofs.C04InstP Proofs.C04InclDef Proofs.C04InclBaseP Proofs.C04InclFieldP Proofs.C04InclObjP Proofs.C04InclCurP.
From Coq Require Import Lia ZifyBool.

Section Inst.
  Variable sc : schema.
  Variable incl : bool.
  Variable c : nat.
  Variable cur : list (option nat).
  Let fs_all := cfields (get_class sc c).
  Let ng := cngroups (get_class sc c).
  Hypothesis W : forallb (wfx_field sc ng) fs_all = true.

  (* unselected oneof members of the part already built are PLACEHOLDER *)
  Definition pre_okG (pre : list pv) : Prop :=
    forall j f g, nth_error fs_all j = Some f -> (j < length pre)%nat -> fgroup f = Some g -> nth g cur None <> Some j ->
                  nth j pre PPlaceholder = PPlaceholder.

  Definition stepG (o : obj) (iv : nat * pv) : obj := setattr sc o (fst iv) (snd iv).

  Lemma inst_foldG : forall raw fs pre pre_fs cur0,
    fs_all = pre_fs ++ fs -> length pre = length pre_fs -> length raw = length fs -> pre_okG pre ->
    oneof_loop cur (length pre) raw fs = true ->
    fold_left stepG (kw_listG sc incl cur (length pre) raw fs) (Obj c (pre ++ map sentinel fs) true [] cur0)
    = Obj c (pre ++ gnorm_raw sc incl cur (length pre) raw fs) true []
          (cur_loop (length pre) fs (gnorm_raw sc incl cur (length pre) raw fs) cur0).
  Proof.
    induction raw as [|x raw IH]; intros fs pre pre_fs cur0 E Lp Lr P On.
    - destruct fs; [reflexivity|discriminate Lr].
    - destruct fs as [|f fs]; [discriminate Lr|]. cbn [length] in Lr. injection Lr as Lr.
      cbn [oneof_loop] in On. apply andb_prop in On as [O1 O2].
      assert (Hf : nth_error fs_all (length pre) = Some f).
      { rewrite E, Lp. rewrite nth_error_app2 by lia. rewrite Nat.sub_diag. reflexivity. }
      pose proof (forallb_at _ _ _ _ W Hf) as Wf.
      rewrite gnorm_raw_cons. cbn [kw_listG map cur_loop]. rewrite fold_left_app.
      set (i := length pre) in *.
      (* the continuation, for whatever value v ends up at position i *)
      assert (Next : forall v cur1, v = or_sentinel f (gfield sc incl (group_selects cur f i) f x) ->
                fold_left stepG (kw_listG sc incl cur (S i) raw fs) (Obj c (pre ++ v :: map sentinel fs) true [] cur1)
                = Obj c (pre ++ v :: gnorm_raw sc incl cur (S i) raw fs) true []
                      (cur_loop (S i) fs (gnorm_raw sc incl cur (S i) raw fs) cur1)).
      { intros v cur1 Ev.
        replace (pre ++ v :: map sentinel fs) with ((pre ++ [v]) ++ map sentinel fs) by (rewrite <- app_assoc; reflexivity).
        replace (pre ++ v :: gnorm_raw sc incl cur (S i) raw fs) with ((pre ++ [v]) ++ gnorm_raw sc incl cur (S i) raw fs)
          by (rewrite <- app_assoc; reflexivity).
        assert (Li : length (pre ++ [v]) = S i) by (rewrite app_length; cbn; lia).
        rewrite <- Li. apply (IH fs (pre ++ [v]) (pre_fs ++ [f])).
        - rewrite <- app_assoc. exact E.
        - rewrite !app_length. cbn. lia.
        - exact Lr.
        - intros j fj g Hj Hlt Hg Hn. rewrite app_length in Hlt. cbn [length] in Hlt.
          destruct (Nat.eq_dec j i) as [->|Ne].
          + rewrite app_nth2 by lia. replace (i - length pre)%nat with O by lia. cbn [nth].
            rewrite Hf in Hj. inversion Hj; subst fj. rewrite Ev.
            rewrite (group_selects_some cur f i g Hg).
            destruct (opt_nat_eqb (nth g cur None) (Some i)) eqn:Eo; [apply opt_nat_eqb_true in Eo; congruence|].
            rewrite gfield_false. exact (sentinel_groupG sc ng f g Wf Hg).
          + rewrite app_nth1 by lia. apply (P j fj g Hj ltac:(lia) Hg Hn).
        - rewrite Li. exact O2. }
      destruct (gfield sc incl (group_selects cur f i) f x) as [v|] eqn:Gf; cbn [or_sentinel].
      + (* a keyword argument: one setattr *)
        destruct (gfield_not_ph _ _ _ _ _ _ Gf) as [Vp Vn].
        cbn [fold_left]. unfold stepG at 2. cbn [fst snd]. rewrite (setattr_unfold sc c _ _ _ _ i _ f Hf).
        fold (mark sc v). unfold mark. rewrite (gfield_mark _ _ _ _ _ _ Gf).
        destruct (fgroup f) as [g|] eqn:G.
        * (* a oneof member: it is the selected one, its siblings are PLACEHOLDER already *)
          assert (Gs : nth g cur None = Some i).
          { rewrite (group_selects_some cur f i g G) in Gf.
            destruct (opt_nat_eqb (nth g cur None) (Some i)) eqn:Eo; [apply opt_nat_eqb_true in Eo; exact Eo|].
            rewrite gfield_false in Gf. discriminate Gf. }
          rewrite reset_noop.
          -- rewrite (set_nth_app_eq pre i) by reflexivity.
             assert (Sn : is_sentinel f v = false).
             { destruct (wfx_group_plain sc ng f g Wf G) as [_ [Op _]]. unfold is_sentinel. rewrite Op.
               destruct v; try reflexivity. congruence. }
             rewrite Sn. apply Next. reflexivity.
          -- intros k f' Hk Hg Hne. cbn [Nat.add] in Hne.
             destruct (lt_dec k i) as [Lt|Ge].
             ++ rewrite app_nth1 by lia. apply (P k f' g Hk Lt Hg). rewrite Gs. congruence.
             ++ rewrite app_nth2 by lia. assert (Wk := forallb_at _ _ _ _ W Hk).
                destruct (k - length pre)%nat as [|m] eqn:Ek; [lia|]. cbn [nth].
                destruct (nth_in_or_default m (map sentinel fs) PPlaceholder) as [I|D]; [|exact D].
                assert (Hm : nth_error fs m = Some f').
                { pose proof Hk as Hk2. unfold fs_all in E, Hk2. rewrite E in Hk2. rewrite nth_error_app2 in Hk2 by lia.
                  replace (k - length pre_fs)%nat with (S m) in Hk2 by lia. exact Hk2. }
                rewrite (nth_indep _ _ (sentinel f')) by (rewrite map_length; apply nth_error_Some; congruence).
                rewrite (map_nth sentinel fs f' m). rewrite (nth_error_nth _ _ _ Hm). exact (sentinel_groupG sc ng f' g Wk Hg).
        * rewrite (set_nth_app_eq pre i) by reflexivity. apply Next. reflexivity.
      + (* no keyword argument: the dataclass default stays *)
        cbn [fold_left app].
        assert (Sn : is_sentinel f (sentinel f) = true) by (unfold is_sentinel, sentinel; destruct (fopt f); reflexivity).
        rewrite Sn. replace (match fgroup f with Some _ => cur0 | None => cur0 end) with cur0 by (destruct (fgroup f); reflexivity).
        apply Next. reflexivity.
  Qed.
End Inst.

(* ---------------------------------------------------------------------------------- *)
(* the keyword arguments _from_dict_init computes from to_dict(m)                       *)
(* ---------------------------------------------------------------------------------- *)
Section InstRt.
  Variable sc : schema.
  Variable cs : casing.
  Variable b : bool.
  Variable incl : bool.
  Hypothesis WF : wfx_schema sc = true.
  Hypothesis KO : keys_ok cs sc = true.

  Lemma init_rtG c raw s u g :
    in_rangex sc (Obj c raw s u g) = true -> pv_goodG incl sc (PMsg (Obj c raw s u g)) = true ->
    from_dict_init sc c (tr b (to_dict cs incl sc (Obj c raw s u g))) = Ok (kw_listG sc incl g O raw (cfields (get_class sc c))).
  Proof.
    intros Hr Hg.
    destruct (in_rangex_unfold _ _ _ _ _ _ Hr) as [Hl [_ F]].
    unfold pv_goodG in Hg. rewrite pv_all_msg in Hg. apply andb_prop in Hg as [Hloc Hsub].
    destruct (local_okG_parts sc incl _ _ _ _ _ Hloc) as [Hnan [Hone Hpres]].
    rewrite to_dict_unfoldG. destruct (keys_fields cs sc c KO) as [L ND].
    rewrite dict_norm_nodup by (apply td_itemsG_nodup, ND).
    rewrite tr_obj, map_map.
    rewrite (map_ext _ (jtr b)) by (intros [k j]; unfold jtr, jkey; cbn [fst snd]; rewrite (trk_str b); reflexivity).
    rewrite from_dict_init_unfold.
    set (n := S (pv_size (PMsg (Obj c raw s u g)))).
    rewrite (items_rtG sc cs b WF KO incl n
               (fun o' _ Hr' Hg' => obj_rt_nG sc cs b WF KO incl (S (pv_size (PMsg o'))) o' (Nat.lt_succ_diag_r _) Hr' Hg')
               c g (cngroups (get_class sc c)) raw _ O L (wfx_fields sc c WF) F Hsub Hnan Hone Hpres).
    - cbn [bind]. rewrite kw_norm_nodup by apply kw_listG_nodup. reflexivity.
    - intros x Hx. unfold n. rewrite size_msg. pose proof (in_sum_size x raw Hx). lia.
  Qed.

  (* the instance form on a fresh object builds the same normal form *)
  Theorem inst_from_to_dict_gnorm m : goodx sc m = true -> reach_ok incl sc m = true ->
    from_dict_inst sc (new sc (ocls m)) (tr b (to_dict cs incl sc m)) = Ok (gnorm_obj incl sc m).
  Proof.
    intros G I. assert (GI : goodx sc m && reach_ok incl sc m = true) by (rewrite G, I; reflexivity).
    rewrite goodx_split in GI. apply andb_prop in GI as [Hr Hg].
    destruct m as [c raw s u g]. cbn [ocls].
    unfold from_dict_inst. change (ocls (new sc c)) with c. rewrite (init_rtG c raw s u g Hr Hg). cbn [bind]. f_equal.
    destruct (in_rangex_unfold _ _ _ _ _ _ Hr) as [Hl _].
    unfold pv_goodG in Hg. rewrite pv_all_msg in Hg. apply andb_prop in Hg as [Hloc _].
    destruct (local_okG_parts sc incl _ _ _ _ _ Hloc) as [_ [Hone _]].
    change (set_sow (new sc c)) with (Obj c (map sentinel (cfields (get_class sc c))) true [] (repeat None (cngroups (get_class sc c)))).
    change (fun (o' : obj) (iv : nat * pv) => setattr sc o' (fst iv) (snd iv)) with (stepG sc).
    assert (P0 : pre_okG sc c g []) by (intros j f g0 _ Hlt; cbn in Hlt; lia).
    pose proof (inst_foldG sc incl c g (wfx_fields sc c WF) raw (cfields (get_class sc c)) [] [] (repeat None (cngroups (get_class sc c)))
                  eq_refl eq_refl Hl P0 Hone) as IF.
    cbn [length app] in IF. rewrite IF.
    rewrite gnorm_obj_unfold, post_init_unfold. reflexivity.
  Qed.
End InstRt.
