(* C04: Timestamp strings.  iso_parse (ts_text us) = Ok us for every instant of the datetime range,
   GIVEN the calendar fact [cal_ok] for the days of that range (civil_of_days yields a valid date of
   the years 1..9999 and days_of_civil inverts it).  The fact itself is a finite statement about the
   two executable calendar functions; Proofs/C04CalSweepP.v establishes it by computation. *)
From BP Require Import Base.Prelude Model.Types Model.Object Model.TimeCore Model.Json.
From BP Require Import Spec.Time.
From BP Require Import Proofs.BytesP.
From BP Require Proofs.TimeP.
From Coq Require Import Lia ZifyBool.
Ltac Zify.zify_post_hook ::= Z.to_euclidean_division_equations.

Definition cal_ok (days : Z) : bool :=
  let '(y, m, d) := civil_of_days days in
  (1 <=? y) && (y <=? 9999) && (1 <=? m) && (m <=? 12) && (1 <=? d) && (d <=? days_in_month y m) &&
  (days_of_civil y m d =? days).

Definition day_min : Z := -719162.     (* 0001-01-01 *)
Definition day_max : Z := 2932896.     (* 9999-12-31 *)
Definition cal_fact : Prop := forall days, day_min <= days <= day_max -> cal_ok days = true.

Lemma pad2 n : pad 2 n = [digit (n / 10 mod 10); digit (n mod 10)].
Proof. reflexivity. Qed.
Lemma pad4 n : pad 4 n = [digit (n / 10 / 10 / 10 mod 10); digit (n / 10 / 10 mod 10); digit (n / 10 mod 10); digit (n mod 10)].
Proof. reflexivity. Qed.

Lemma dval2 a b : 0 <= a <= 9 -> 0 <= b <= 9 -> dval [digit a; digit b] = 10 * a + b.
Proof. intros Ha Hb. unfold dval. cbn [fold_left]. rewrite !TimeP.digit_byte by lia. lia. Qed.
Lemma dval4 a b c d : 0 <= a <= 9 -> 0 <= b <= 9 -> 0 <= c <= 9 -> 0 <= d <= 9 ->
  dval [digit a; digit b; digit c; digit d] = 1000 * a + 100 * b + 10 * c + d.
Proof. intros Ha Hb Hc Hd. unfold dval. cbn [fold_left]. rewrite !TimeP.digit_byte by lia. lia. Qed.

Lemma isd n : is_digit (digit (n mod 10)) = true.
Proof. apply TimeP.digit_is_digit. lia. Qed.

Lemma firstn_short {A} n (l : list A) : (length l <= n)%nat -> firstn n l = l.
Proof. apply firstn_all2. Qed.

Lemma iso_suffix_frac u : 0 <= u < 1000000 -> iso_suffix (frac (u * 1000) ++ [cZ]) = Some (u, 0).
Proof.
  intros Hu. unfold frac.
  destruct (u * 1000 mod 1000000000 =? 0) eqn:E1.
  { assert (u = 0) by lia. subst. reflexivity. }
  destruct (u * 1000 mod 1000000 =? 0) eqn:E2.
  { unfold iso_suffix. cbn [app]. change (Byte.eqb cDOT cDOT) with true. cbv iota.
    rewrite (TimeP.span_digits_app (pad 3 (u * 1000 / 1000000)) [cZ]) by (try apply TimeP.pad_digits; reflexivity).
    rewrite firstn_short by (rewrite TimeP.pad_length; lia).
    rewrite TimeP.is_nil_pad. rewrite TimeP.pad_length. rewrite TimeP.dval_pad by lia.
    change (Byte.eqb cZ cZ) with true. cbv iota. f_equal. f_equal.
    change (Z.of_nat 3) with 3. lia. }
  destruct (u * 1000 mod 1000 =? 0) eqn:E3; [|lia].
  unfold iso_suffix. cbn [app]. change (Byte.eqb cDOT cDOT) with true. cbv iota.
  rewrite (TimeP.span_digits_app (pad 6 (u * 1000 / 1000)) [cZ]) by (try apply TimeP.pad_digits; reflexivity).
  rewrite firstn_short by (rewrite TimeP.pad_length; lia).
  rewrite TimeP.is_nil_pad. rewrite TimeP.pad_length. rewrite TimeP.dval_pad by lia.
  change (Byte.eqb cZ cZ) with true. cbv iota. f_equal. f_equal.
  change (Z.of_nat 6) with 6. lia.
Qed.

Theorem iso_roundtrip us : cal_fact ->
  (dt_min_us <=? us) && (us <=? dt_max_us) = true -> iso_parse (ts_text us) = Ok us.
Proof.
  intros CF R. unfold dt_min_us, dt_max_us in R.
  unfold ts_text, ts_json, cal_text.
  set (s := us / 1000000). set (days := s / 86400). set (sod := s mod 86400).
  assert (Hd : day_min <= days <= day_max) by (unfold day_min, day_max, days, s; lia).
  pose proof (CF days Hd) as C. unfold cal_ok in C.
  destruct (civil_of_days days) as [[y m] d].
  rewrite !pad2, pad4. cbn [app].
  unfold iso_parse.
  assert (Hsod : 0 <= sod < 86400) by (unfold sod; lia).
  assert (Y : dval [digit (y / 10 / 10 / 10 mod 10); digit (y / 10 / 10 mod 10); digit (y / 10 mod 10); digit (y mod 10)] = y)
    by (rewrite dval4 by lia; lia).
  assert (M : dval [digit (m / 10 mod 10); digit (m mod 10)] = m) by (rewrite dval2 by lia; lia).
  assert (D : dval [digit (d / 10 mod 10); digit (d mod 10)] = d)
    by (rewrite dval2 by lia; unfold days_in_month in C;
        destruct (m =? 2), (is_leap y), ((m =? 4) || (m =? 6) || (m =? 9) || (m =? 11)); lia).
  assert (H : dval [digit (sod / 3600 / 10 mod 10); digit (sod / 3600 mod 10)] = sod / 3600) by (rewrite dval2 by lia; lia).
  assert (MI : dval [digit (sod mod 3600 / 60 / 10 mod 10); digit (sod mod 3600 / 60 mod 10)] = sod mod 3600 / 60)
    by (rewrite dval2 by lia; lia).
  assert (S : dval [digit (sod mod 60 / 10 mod 10); digit (sod mod 60 mod 10)] = sod mod 60) by (rewrite dval2 by lia; lia).
  cbn [forallb]. rewrite !isd.
  change (Byte.eqb cMINUS cMINUS) with true. change (Byte.eqb cCOLON cCOLON) with true. cbn [andb].
  rewrite Y, M, D, H, MI, S.
  replace ((1 <=? y) && (1 <=? m) && (m <=? 12) && (1 <=? d) && (d <=? days_in_month y m) &&
           (sod / 3600 <? 24) && (sod mod 3600 / 60 <? 60) && (sod mod 60 <? 60)) with true by lia.
  rewrite iso_suffix_frac by lia.
  f_equal. assert (days_of_civil y m d = days) by lia. unfold days, sod, s in *. lia.
Qed.
