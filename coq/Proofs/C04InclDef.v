(* C04, include_default_values = True and repeated wrapper fields: the definitions the new theorems are stated with.
   Everything here is generic in the flag [incl] (include_default_values) and is used over the extended
   well-formedness predicate Model/C04RepWrap.v wfx_schema (wf_schema plus repeated wrapper fields).

     all_present sc m      every implicit-presence (plain, not in a oneof) sub-message field, at every depth, holds a message
                           whose _serialized_on_wire is True.  This is the exact extra condition of the round trip through
                           to_dict(include_default_values=True): a listed default `"sub": {...}` is read back by from_dict as a
                           PRESENT sub-message (from_dict sets the flag), which bytes() emits as `tag 00`
                           (C04_incl_unset_submessage_refuted).  It also implies that Cls().to_dict(include_default_values=True)
                           is never called for a message type, so the recursion of a recursive class is never entered.
     incl_ok incl sc m     negb incl || all_present sc m
     defaults_reach sc m   Cls().to_dict(include_default_values=True) terminates for the class of every unset plain sub-message
                           field of m (at every depth): the chain of plain sub-message fields below it is shorter than the
                           model's default_fuel.  With it the dict exists, is serialisable, and from_dict of it is == m
                           (C04_incl_eq_rt, C04_incl_dumps_total); all_present implies it.
     reach_ok incl sc m    negb incl || defaults_reach sc m
     goodx sc m            C04Def.good with in_rangex in place of in_range
     gnorm_obj incl sc m   the object from_dict(to_dict(m, include_default_values=incl)) builds *)
From BP Require Import Base.Prelude Model.Types Model.Float Model.Utf8 Model.Object Model.Eq Model.TimeCore.
From BP Require Import Model.Encode Model.WellFormed Model.Json Model.C04RepWrap.
From BP Require Import gen.Tables Proofs.C04Def.

(* ---- the plain sub-message fields are present ---- *)
Definition present_cond (sel : option bool) (f : fdesc) (x : pv) : bool :=
  match fhint f, sel with
  | HPlain (PyMsg _), None => match x with PMsg o' => osow o' | _ => false end
  | _, _ => true
  end.

Definition local_present (sc : schema) (o : obj) : bool :=
  let 'Obj c raw _ _ cur := o in
  (fix go (i : nat) (raw : list pv) (fs : list fdesc) {struct raw} : bool :=
     match raw, fs with
     | x :: raw', f :: fs' => present_cond (group_selects cur f i) f x && go (S i) raw' fs'
     | _, _ => true
     end) O raw (cfields (get_class sc c)).
Definition all_present (sc : schema) (o : obj) : bool := obj_all (local_present sc) o.
Definition incl_ok (incl : bool) (sc : schema) (o : obj) : bool := negb incl || all_present sc o.

(* ---- Cls().to_dict(include_default_values=True) terminates (the model's fuel does not run out) ---- *)
Fixpoint defaults_ok (fuel : nat) (sc : schema) (c : nat) : bool :=
  match fuel with
  | O => false
  | S n =>
      forallb (fun f => match fgroup f, fhint f with
                        | None, HPlain (PyMsg c') => defaults_ok n sc c'
                        | _, _ => true
                        end) (cfields (get_class sc c))
  end.

Definition reach_cond (sc : schema) (sel : option bool) (f : fdesc) (x : pv) : bool :=
  match x, fhint f, sel with
  | PPlaceholder, HPlain (PyMsg c'), None => defaults_ok default_fuel sc c'
  | _, _, _ => true
  end.
Definition local_reach (sc : schema) (o : obj) : bool :=
  let 'Obj c raw _ _ cur := o in
  (fix go (i : nat) (raw : list pv) (fs : list fdesc) {struct raw} : bool :=
     match raw, fs with
     | x :: raw', f :: fs' => reach_cond sc (group_selects cur f i) f x && go (S i) raw' fs'
     | _, _ => true
     end) O raw (cfields (get_class sc c)).
Definition defaults_reach (sc : schema) (o : obj) : bool := obj_all (local_reach sc) o.
Definition reach_ok (incl : bool) (sc : schema) (o : obj) : bool := negb incl || defaults_reach sc o.

(* ---- all hypotheses on the value, over the extended range predicate ---- *)
Definition goodx (sc : schema) (o : obj) : bool :=
  in_rangex sc o && oneof_ok sc o && dicts_ok sc o && json_supported sc o.

(* ---- the result of the round trip ---- *)
Definition emittedG (sc : schema) (incl : bool) (f : fdesc) (sel : option bool) (v : pv) : bool :=
  match field_to_json (fun _ => JNull) sc incl f sel v with Some _ => true | None => false end.

Definition or_sentinel (f : fdesc) (o : option pv) : pv := match o with Some v => v | None => sentinel f end.

(* Cls.from_dict(Cls().to_dict(include_default_values=True)): every field outside a oneof holds its default read back
   (None gives no keyword argument), nested for the plain sub-messages; [dn c'] is the same for the class of a sub-message *)
Definition dfield (dn : nat -> obj) (sc : schema) (f : fdesc) : option pv :=
  match fgroup f with
  | Some _ => None
  | None =>
      match default_of sc f with
      | PNone | PPlaceholder => None
      | PMsg o => Some (PMsg (dn (ocls o)))
      | y => Some y
      end
  end.
Fixpoint dnorm (fuel : nat) (sc : schema) (c : nat) : obj :=
  match fuel with
  | O => set_sow (new sc c)        (* out of fuel: excluded by defaults_ok *)
  | S n => set_sow (post_init sc c (map (fun f => or_sentinel f (dfield (dnorm n sc) sc f)) (cfields (get_class sc c))))
  end.

(* the keyword argument (if any) that _from_dict_init computes for field f from what to_dict emitted for the
   attribute x; [nrm] is the normal form of a nested value.  A PLACEHOLDER attribute is printed from its default:
   None gives no argument; a fresh sub-message is printed by Cls().to_dict(include_default_values=True) when
   include_default_values is set (and read back as a PRESENT message), and not at all otherwise. *)
Definition gfield_opt (nrm : pv -> pv) (sc : schema) (incl : bool) (sel : option bool) (f : fdesc) (x : pv) : option pv :=
  match sel with
  | Some false => None
  | _ =>
      match x with
      | PNone => None
      | PPlaceholder =>
          match default_of sc f with
          | PNone | PPlaceholder => None
          | PMsg o => if incl then Some (PMsg (dnorm default_fuel sc (ocls o))) else None
          | y => if emittedG sc incl f sel y then Some y else None
          end
      | _ => if emittedG sc incl f sel x then Some (nrm x) else None
      end
  end.

Fixpoint gnorm_pv (incl : bool) (sc : schema) (v : pv) {struct v} : pv :=
  match v with
  | PMsg (Obj c raw sow unk cur) =>
      PMsg (set_sow (post_init sc c
        ((fix go (i : nat) (raw : list pv) (fs : list fdesc) {struct raw} : list pv :=
            match raw, fs with
            | x :: raw', f :: fs' =>
                or_sentinel f (gfield_opt (gnorm_pv incl sc) sc incl (group_selects cur f i) f x) :: go (S i) raw' fs'
            | _, fs' => map sentinel fs'
            end) O raw (cfields (get_class sc c)))))
  | PList l => PList (map (gnorm_pv incl sc) l)
  | PDict d => PDict (map (fun kx => (fst kx, gnorm_pv incl sc (snd kx))) d)
  | _ => v
  end.
Definition gnorm_obj (incl : bool) (sc : schema) (o : obj) : obj :=
  match gnorm_pv incl sc (PMsg o) with PMsg o' => o' | _ => o end.
