(* The executable [unk_fn] of Model/C17GapCv.v computes the specification relation [unk_of] of Model/C17GapDefs.v:
   whatever it returns is the (unique, C17_unk_of_unique) u with unk_of cd s u.  So the harness, which evaluates unk_fn by
   vm_compute and compares it with the real _unknown_fields, compares the SPECIFICATION with the implementation. *)
From Coq Require Import ZArith List Bool Lia.
From BP Require Import Base.Prelude Model.Types Model.Varint Model.Object Model.Decode.
From BP Require Import Model.C17Wire Model.C17GapDefs Model.C17GapCv Spec.Varint.
From BP Require Import Proofs.VarintP Proofs.C17FieldP.
Import ListNotations.

Lemma unk_fn_sound n : forall cd s u, unk_fn n cd s = Some u -> unk_of cd s u.
Proof.
  induction n as [|n IH]; intros cd s u H; [discriminate|].
  cbn [unk_fn] in H. destruct s as [|b s0]; [injection H as <-; constructor|].
  remember (b :: s0) as s eqn:Es. clear Es b s0.
  destruct (load_varint s) as [[[nw r] s1]|] eqn:Ev; [|discriminate].
  destruct (load_field (length s) s1 nw r) as [[p s']|] eqn:Ef; [|discriminate].
  destruct (unk_fn n cd s') as [u'|] eqn:Eu; [|discriminate].
  apply load_varint_inv in Ev as (-> & Rv & _).
  apply load_field_sound in Ef. destruct Ef as (pl & -> & Wp & Hraw & _).
  apply IH in Eu.
  destruct (kept cd nw) eqn:Ek; injection H as <-.
  - rewrite Hraw, <- app_assoc. apply (UKeep cd nw r pl s' u' Rv Wp Ek Eu).
  - apply (UDrop cd nw r pl s' u' Rv Wp Ek Eu).
Qed.

Theorem unk_of_bytes_sound cd s u : unk_of_bytes cd s = Some u -> unk_of cd s u.
Proof. apply unk_fn_sound. Qed.
