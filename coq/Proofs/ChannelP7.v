(* C12 — behaviour after close, cancellation safety, schedules of the event loop are
   reachable, and the concrete schedules on which the pinned code / the W design fail. *)
From BP Require Import Base.Prelude Model.Channel.
From BP Require Import Proofs.ChannelP1 Proofs.ChannelP2 Proofs.ChannelP3 Proofs.ChannelP4 Proofs.ChannelP5 Proofs.ChannelP6.
From Coq Require Import Arith Lia.
Local Open Scope nat_scope.

(* ---------------------------------------------------------------- what the event loop runs is reachable *)
Lemma step_of_step_b : forall s t s' b, step_b s t = Some (s', b) -> step s t = Some s'.
Proof. intros s t s' b H. unfold step. rewrite H. reflexivity. Qed.

Lemma macro_reach : forall c fuel s t s', Reach c s -> macro fuel s t = Some s' -> Reach c s'.
Proof.
  induction fuel as [|f IH]; intros s t s' R H; cbn in H; [discriminate|].
  destruct (step_b s t) as [[s1 [|]]|] eqn:E; try discriminate.
  - injection H as <-. econstructor; eauto. eapply step_of_step_b; eauto.
  - eapply IH; [|eauto]. econstructor; eauto. eapply step_of_step_b; eauto.
Qed.

Lemma run_final_reach : forall c fuel sch s s', Reach c s -> run_final fuel s sch = Some s' -> Reach c s'.
Proof.
  induction sch as [|t r IH]; intros s s' R H; cbn in H.
  - injection H as <-. exact R.
  - destruct (macro fuel s t) as [s1|] eqn:E; [|discriminate]. eapply IH; [|eauto]. eapply macro_reach; eauto.
Qed.

Lemma sched_reach : forall c fuel sch s', run_final fuel (init c) sch = Some s' -> Reach c s'.
Proof. intros. eapply run_final_reach; eauto. constructor. Qed.

(* ---------------------------------------------------------------- after close *)
Lemma closed_stable : forall s t s', step s t = Some s' -> closed s = true -> closed s' = true.
Proof. intros s t s' H C. step_inv H; simp_proj; auto; congruence. Qed.

Definition outcome_of (s : state) (t : nat) : option outcome :=
  match nth_error (tasks s) t with Some T => match st T with Fin o => Some o | _ => None end | None => None end.

(* a send / send_from that starts once the channel is closed raises ChannelClosed *)
Theorem send_after_close : forall s t T p, closed s = true -> nth_error (tasks s) t = Some T ->
  st T = Ready -> mc T = false -> (prog T = ISend :: p \/ exists n cl, prog T = ISendFrom n cl :: p) ->
  exists s', step s t = Some s' /\ outcome_of s' t = Some OClosed /\ q s' = q s /\ sent s' = sent s.
Proof.
  intros s t T p C HT HS HM HP. unfold step, step_b, step_ready. rewrite HT, HS, HM.
  destruct HP as [HP|(n & cl & HP)]; rewrite HP, C; eexists; (split; [reflexivity|]);
    unfold outcome_of; simp_proj; rewrite (nth_upd_same _ _ _ _ HT); cbn; auto.
Qed.

(* a receive / iteration that starts on a done channel ends at once: ChannelDone, or the loop / the async-for ends *)
Theorem receive_when_done : forall s t T p, done s = true -> nth_error (tasks s) t = Some T ->
  st T = Ready -> mc T = false ->
  (prog T = IRecv :: p -> exists s', step s t = Some s' /\ outcome_of s' t = Some ODone /\ q s' = q s) /\
  (forall o, (o = IRecvLoop \/ exists y, o = IIter y) -> prog T = o :: p ->
     exists s' T', step s t = Some s' /\ nth_error (tasks s') t = Some T' /\ st T' = Ready /\ prog T' = p /\ q s' = q s).
Proof.
  intros s t T p D HT HS HM. split.
  - intros HP. unfold step, step_b, step_ready. rewrite HT, HS, HM, HP, D. eexists. split; [reflexivity|].
    unfold outcome_of; simp_proj. rewrite (nth_upd_same _ _ _ _ HT). cbn. auto.
  - intros o Ho HP. unfold step, step_b, step_ready. rewrite HT, HS, HM, HP.
    destruct Ho as [->|[y ->]]; rewrite D; eexists; eexists; (split; [reflexivity|]); simp_proj;
      rewrite (nth_upd_same _ _ _ _ HT); cbn; auto.
Qed.

(* a receiver that dequeues the sentinel ends with None / StopAsyncIteration (its operation is over), never with an item *)
Theorem sentinel_ends_receive : forall s t T o p r, nth_error (tasks s) t = Some T -> st T = WokeGet -> mc T = false ->
  prog T = o :: p -> (o = IRecv \/ o = IRecvLoop \/ exists y, o = IIter y) -> q s = Flush :: r -> unfin s <> 0 ->
  exists s' T', step s t = Some s' /\ nth_error (tasks s') t = Some T' /\ st T' = Ready /\ prog T' = p /\
                recv s' = recv s /\ drained s' = true.
Proof.
  intros s t T o p r HT HS HM HP Ho HQ HU. unfold step, step_b. rewrite HT, HS, HP.
  destruct (unfin s) as [|u] eqn:EU; [congruence|].
  destruct Ho as [->|[->|[y ->]]]; rewrite HM; unfold do_get; rewrite HQ; simp_proj; rewrite EU;
    eexists; eexists; (split; [reflexivity|]); simp_proj.
  all: match goal with |- context [wakeup ?b ?w ?l ?ts] =>
         destruct (wakeup_effect b w l ts eq_refl) as [[-> _]|(u0 & U & HU0 & HUs & _ & ->)] end.
  all: try (rewrite (nth_upd_same _ _ _ _ HT); cbn; auto).
  all: assert (HT' : nth_error (upd (tasks s) u0 (set_st U WokePut)) t = Some T)
         by (rewrite nth_upd_other; [exact HT|intros ->; rewrite HU0 in HT; injection HT as ->; congruence]);
       rewrite (nth_upd_same _ _ _ _ HT'); cbn; auto.
Qed.

(* ---------------------------------------------------------------- cancellation safety (repaired code) *)
Definition cancelled_in_get (T : task) : Prop := st T = CancGet \/ (st T = WokeGet /\ mc T = true).

Theorem cancel_safe : forall c s t T, Reach c s -> c_pinned c = false ->
  nth_error (tasks s) t = Some T -> cancelled_in_get T ->
  exists s', step s t = Some s' /\ outcome_of s' t = Some (cancel_out T) /\
             q s' = q s /\ recv s' = recv s /\ sent s' = sent s /\ W s' = W s - 1 /\
             W s' = sumf in_get (tasks s') /\ sent s' = received s' ++ reals (q s').
Proof.
  intros c s t T R P HT HC.
  assert (HP : pinned s = false) by (rewrite (reach_pinned c); auto).
  destruct (reach_gen _ _ R) as [_ _ _ _ IT _ _]. pose proof (IT _ _ HT) as STO.
  assert (EX : exists s', step s t = Some s' /\ outcome_of s' t = Some (cancel_out T) /\
             q s' = q s /\ recv s' = recv s /\ sent s' = sent s /\ W s' = W s - 1).
  { unfold step, step_b. rewrite HT. destruct HC as [HS|[HS HM]]; rewrite HS.
    - eexists. split; [reflexivity|]. unfold finally_cancelled, outcome_of. simp_proj. rewrite HP. simp_proj.
      rewrite (nth_upd_same _ _ _ _ HT). cbn. auto.
    - unfold stat_ok in STO. rewrite HS in STO. destruct (prog T) as [|o p]; [contradiction|].
      destruct o; try contradiction; rewrite HM.
      all: eexists; (split; [reflexivity|]); unfold finally_cancelled, outcome_of.
      all: destruct (empty (with_getters s (remove1 t (getters s)) (tasks s))); simp_proj; rewrite HP; simp_proj.
      all: try (rewrite (nth_upd_same _ _ _ _ HT); cbn; auto).
      all: match goal with |- context [wakeup ?b ?w ?l ?ts] =>
             destruct (wakeup_effect b w l ts eq_refl) as [[-> _]|(u0 & U & HU0 & HUs & _ & ->)] end.
      all: try (rewrite (nth_upd_same _ _ _ _ HT); cbn; auto).
      all: assert (HT' : nth_error (upd (tasks s) u0 (set_st U WokeGet)) t = Some T)
             by (rewrite nth_upd_other; [exact HT|intros ->; rewrite HU0 in HT; injection HT as ->; congruence]);
           rewrite (nth_upd_same _ _ _ _ HT'); cbn; auto. }
  destruct EX as (s' & HS' & H1 & H2 & H3 & H4 & H5). exists s'. repeat split; auto.
  - apply (W_exact c). econstructor; eauto.
  - assert (R' : Reach c s') by (econstructor; eauto). apply (conserve c s' R' P).
Qed.

(* ---------------------------------------------------------------- concrete schedules *)
Definition final (c : config) (sch : list nat) : state :=
  match run_final 100 (init c) sch with Some s => s | None => init c end.

Lemma final_reach : forall c sch, (match run_final 100 (init c) sch with Some _ => true | None => false end) = true ->
  Reach c (final c sch).
Proof.
  intros c sch H. unfold final. destruct (run_final 100 (init c) sch) as [s|] eqn:E; [|discriminate].
  eapply sched_reach; eauto.
Qed.

(* F10, first face (pinned code): receiver 0 blocks, task 1 cancels it, it resumes: task_done() raises ValueError *)
Definition cfg_f10 (pin : bool) : config := mkC 0 pin [([URecv], false); ([UCancel 0], false)].

Theorem cancel_error_refuted : exists c s t T,
  c_pinned c = true /\ Reach c s /\ nth_error (tasks s) t = Some T /\ cancelled_in_get T /\
  exists s', step s t = Some s' /\ outcome_of s' t = Some OValueErr.
Proof.
  exists (cfg_f10 true), (final (cfg_f10 true) [0; 1]), 0.
  eexists. split; [reflexivity|]. split; [apply final_reach; vm_compute; reflexivity|].
  split; [vm_compute; reflexivity|]. split; [left; reflexivity|].
  eexists. split; vm_compute; reflexivity.
Qed.

(* the same schedule on the repaired code ends with CancelledError *)
Example cancel_error_fixed : outcome_of (final (cfg_f10 false) [0; 1; 0]) 0 = Some OCancelled.
Proof. vm_compute. reflexivity. Qed.

(* F10, second face (pinned code): the cancelled get() steals a task_done(); receiver 3 later dequeues
   item (2,1) and loses it to the ValueError *)
Definition cfg_f10_loss (pin : bool) : config :=
  mkC 0 pin [([URecv], false); ([UCancel 0], false); ([USend; USend; UClose], false); ([URecvLoop], false)].

Theorem cancel_lost_refuted : exists c s x,
  c_pinned c = true /\ Reach c s /\ quiescent s = true /\
  In x (sent_before_close s) /\ ~ In x (received s) /\ ~ In x (q s).
Proof.
  exists (cfg_f10_loss true), (final (cfg_f10_loss true) [0; 1; 2; 0; 3; 4]), (Msg 2 1).
  split; [reflexivity|]. split; [apply final_reach; vm_compute; reflexivity|].
  split; [vm_compute; reflexivity|]. split; [vm_compute; auto|].
  split; vm_compute; intros H; repeat (destruct H as [H|H]; [discriminate|]); exact H.
Qed.

Example cancel_lost_fixed :
  received (final (cfg_f10_loss false) [0; 1; 2; 0; 3; 4]) = [Msg 2 0; Msg 2 1] /\
  outcome_of (final (cfg_f10_loss false) [0; 1; 2; 0; 3; 4]) 0 = Some OCancelled.
Proof. vm_compute. auto. Qed.

(* K6 (repaired code): receiver 1 blocks and is cancelled but has not resumed; the sender's item wakes nobody;
   close; receiver 3 sees done() (qsize 1 <= W 1) and leaves; receiver 1 resumes with CancelledError.
   The item sent before close() is still queued, every task has finished, nothing is pending. *)
Definition cfg_k6 : config :=
  mkC 0 false [([USend; UClose], false); ([URecvLoop], false); ([UCancel 1], false); ([URecvLoop], false)].

Theorem cancel_strands_refuted : exists c s x,
  c_pinned c = false /\ Reach c s /\ closed s = true /\ quiescent s = true /\ drained s = true /\
  forallb (fun T => is_fin (st T)) (tasks s) = true /\
  outcome_of s 1 = Some OCancelled /\
  In x (sent_before_close s) /\ ~ In x (received s) /\ In x (q s).
Proof.
  exists cfg_k6, (final cfg_k6 [1; 2; 0; 3; 1; 4]), (Msg 0 0).
  split; [reflexivity|]. split; [apply final_reach; vm_compute; reflexivity|].
  repeat (split; [vm_compute; auto|]). vm_compute; auto.
Qed.

(* observation, not a finding: with a bounded buffer a send_from that was past its closed-check keeps putting after
   close() and can stay blocked in put() for ever (every receiver has left) *)
Definition cfg_obs : config :=
  mkC 1 false [([USend; UYield; USendFrom 2 false], false); ([UYield; UYield; UClose], false); ([UIter false], false)].
Example sender_blocked_after_close :
  let s := final cfg_obs [1; 0; 0; 1; 2; 1; 3; 2; 0] in
  quiescent s = true /\ closed s = true /\ (exists T, nth_error (tasks s) 0 = Some T /\ st T = BlkPut) /\
  sent_before_close s = [Msg 0 0] /\ received s = [Msg 0 0] /\ q s = [Msg 0 1].
Proof. vm_compute. repeat split; eauto. Qed.

(* non-vacuity of the quiescence theorem: 2 senders, 3 receivers (receive-loop, async-for, single receive), a closer *)
Definition cfg_ex : config :=
  mkC 0 false [([USend; UYield; USendFrom 2 false], false); ([USend; USend], false); ([UYield; UClose], false);
               ([URecvLoop], false); ([UIter true], false); ([URecv; URecv], false)].
Definition sch_ex : list nat := [2; 1; 5; 0; 3; 0; 4; 3; 2; 4; 6; 3].
Example no_strand_nonvacuous :
  let s := final cfg_ex sch_ex in
  cfg_nocancel cfg_ex = true /\ Reach cfg_ex s /\ closed s = true /\ quiescent s = true /\ drained s = true /\
  length (sent_before_close s) = 5 /\ length (received s) = 5.
Proof.
  cbv zeta. split; [reflexivity|]. split; [apply final_reach; vm_compute; reflexivity|]. vm_compute. auto.
Qed.
