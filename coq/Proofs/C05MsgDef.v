(* C05, message level: the definitions the two message-level theorems are stated with.

   * [js_matches off sc js]  (decidable) the reference-side schema [js] (what the descriptor pool holds: proto names,
     json_name, kinds, cardinalities, real oneofs, enum values) describes the same classes as the runtime-side
     schema [sc] (FieldMetadata + type hints): class [c] of [js] is class [c + off] of [sc] ([off] = the number of
     classes betterproto itself brings, which have no counterpart in a user's descriptor set).  Per field:
       - the Python attribute is safe_snake_case of the proto name, and the proto name satisfies json_name_safe
         (known finding K3: for any other name betterproto's key is not protoc's json_name);
       - json_name is protoc's default ToJsonName(proto name);
       - kind / cardinality / oneof membership are the ones the type hint and FieldMetadata imply;
     per class: json names pairwise distinct (protoc rejects anything else); enums: the same value lists, value
     names pairwise distinct and not starting with "__" (EnumType.__new__ skips dunder names).
   * [abs_obj sc o]  the abstract message a betterproto object denotes (the abstraction of harness/c05_reference.py
     abs_bp): implicit-presence scalars carry their value (PLACEHOLDER = the default), optional / wrapper / oneof
     members carry presence, a plain sub-message is present iff its _serialized_on_wire flag is up, a plain
     datetime / timedelta is present iff it is not the epoch / the zero span; dict order is kept.
   * value-side conditions of C05_emit: [oneof_sel] (a selected oneof member holds a value), [nan_canon] (JSON has one
     NaN; C04's cls nan-payload) and [no_neg_zero] (known finding K13: -0.0 in an implicit-presence float field is
     omitted by to_dict).
   (the definitions of the ACCEPT direction - well-formed abstract values, the object the reader builds - are in
   Proofs/C05AccDef.v) *)
From BP Require Import Base.Prelude Model.Types Model.Float Model.Object Model.WellFormed Model.TimeCore Spec.Time.
From BP Require Model.Json Model.Enum Model.Casing Spec.JsonMap.
From BP Require Import Proofs.C04Def Proofs.C05Casing Proofs.C05Leaf Proofs.C05Model.

(* ====================================================================================== *)
(* 1. the schema bridge                                                                    *)
(* ====================================================================================== *)
Definition sk (t : ptype) : S.skind := match skind_of t with Some k => k | None => S.KInt32 end.

(* the proto type of one element of the field (the wrapped type, the map value type, the field type) *)
Definition elem_ptype (f : fdesc) : ptype :=
  match fwraps f with
  | Some w => w
  | None => match fmap f with Some (_, vt) => vt | None => fty f end
  end.

Definition kind_of_elem (off : nat) (t : ptype) (p : pyty) : S.jkind :=
  match p with
  | PyDatetime => S.JTimestamp
  | PyTimedelta => S.JDuration
  | PyMsg c => S.JMsg (c - off)
  | PyEnum e => S.JEnum e
  | _ => S.JScalar (sk t)
  end.

Definition kind_of (off : nat) (f : fdesc) : S.jkind :=
  match fwraps f with
  | Some w => S.JWrapper (sk w)
  | None => kind_of_elem off (elem_ptype f) (J.hint_elem f)
  end.

Definition explicit_py (p : pyty) : bool :=
  match p with PyMsg _ | PyDatetime | PyTimedelta => true | _ => false end.

Definition card_of (f : fdesc) : S.jcard :=
  match fhint f with
  | HList _ => S.Repeated
  | HDict _ _ => S.MapOf (match fmap f with Some (kt, _) => sk kt | None => S.KInt32 end)
  | HOptional _ => S.Explicit
  | HPlain p => if is_some' (fgroup f) || explicit_py p then S.Explicit else S.Implicit
  end.

(* ---- boolean equalities on the spec's vocabulary ---- *)
Definition skind_tag (k : S.skind) : Z :=
  match k with
  | S.KDouble => 0 | S.KFloat => 1 | S.KInt32 => 2 | S.KInt64 => 3 | S.KUInt32 => 4 | S.KUInt64 => 5
  | S.KSInt32 => 6 | S.KSInt64 => 7 | S.KFixed32 => 8 | S.KFixed64 => 9 | S.KSFixed32 => 10 | S.KSFixed64 => 11
  | S.KBool => 12 | S.KString => 13 | S.KBytes => 14
  end.
Definition skind_eqb (a b : S.skind) : bool := skind_tag a =? skind_tag b.
Definition jkind_eqb (a b : S.jkind) : bool :=
  match a, b with
  | S.JScalar x, S.JScalar y => skind_eqb x y
  | S.JEnum x, S.JEnum y => Nat.eqb x y
  | S.JMsg x, S.JMsg y => Nat.eqb x y
  | S.JTimestamp, S.JTimestamp => true
  | S.JDuration, S.JDuration => true
  | S.JWrapper x, S.JWrapper y => skind_eqb x y
  | _, _ => false
  end.
Definition jcard_eqb (a b : S.jcard) : bool :=
  match a, b with
  | S.Implicit, S.Implicit => true
  | S.Explicit, S.Explicit => true
  | S.Repeated, S.Repeated => true
  | S.MapOf x, S.MapOf y => skind_eqb x y
  | _, _ => false
  end.

Fixpoint nodup_bytes (l : list (list byte)) : bool :=
  match l with
  | [] => true
  | k :: r => negb (existsb (bytes_eqb k) r) && nodup_bytes r
  end.

(* one field *)
Definition field_matches (off nj : nat) (f : fdesc) (jf : S.jfield) : bool :=
  bytes_eqb (fname f) (Casing.safe_snake_case (S.jf_name jf)) &&
  json_name_safe (S.jf_name jf) &&
  bytes_eqb (S.jf_json jf) (S.protoc_json_name (S.jf_name jf)) &&
  jkind_eqb (S.jf_kind jf) (kind_of off f) &&
  jcard_eqb (S.jf_card jf) (card_of f) &&
  opt_nat_eqb (S.jf_oneof jf) (fgroup f) &&
  match J.hint_elem f with
  | PyMsg c => Nat.leb off c && Nat.ltb (c - off) nj
  | _ => true
  end.

Fixpoint fields_match (off nj : nat) (fs : list fdesc) (jfs : list S.jfield) : bool :=
  match fs, jfs with
  | [], [] => true
  | f :: fs', jf :: jfs' => field_matches off nj f jf && fields_match off nj fs' jfs'
  | _, _ => false
  end.

Definition class_matches (off nj : nat) (fs : list fdesc) (jfs : list S.jfield) : bool :=
  fields_match off nj fs jfs && nodup_bytes (map S.jf_json jfs).

(* enums *)
Definition member_eqb (a b : list byte * Z) : bool := bytes_eqb (fst a) (fst b) && (snd a =? snd b).
Fixpoint members_eqb (a b : list (list byte * Z)) : bool :=
  match a, b with
  | [], [] => true
  | x :: a', y :: b' => member_eqb x y && members_eqb a' b'
  | _, _ => false
  end.
Definition enum_ok (ms : list (list byte * Z)) : bool :=
  nodup_bytes (map fst ms) && forallb (fun nv => negb (Enum.starts_dunder (fst nv))) ms.
Fixpoint enums_match (es : list edesc) (jes : list (list (list byte * Z))) : bool :=
  match es, jes with
  | [], [] => true
  | e :: es', je :: jes' => members_eqb (emembers e) je && enum_ok je && enums_match es' jes'
  | _, _ => false
  end.

Definition js_matches (off : nat) (sc : schema) (js : S.jschema) : bool :=
  enums_match (enums sc) (S.jenums js) &&
  forallb (fun c => class_matches off (length (S.jclasses js)) (cfields (get_class sc (c + off))) (S.jclass js c))
          (seq 0 (length (S.jclasses js))).

(* the reference-side schema a runtime schema determines when every proto field name IS the Python attribute name
   (lower_snake names that are not Python keywords): every class, offset 0 *)
Definition jfield_of (f : fdesc) : S.jfield :=
  S.mkJF (fname f) (S.protoc_json_name (fname f)) (kind_of 0 f) (card_of f) (fgroup f).
Definition jschema_of (sc : schema) : S.jschema :=
  S.mkJS (map (fun cd => map jfield_of (cfields cd)) (classes sc)) (map emembers (enums sc)).

(* ====================================================================================== *)
(* 2. the abstract message of an object                                                    *)
(* ====================================================================================== *)
Definition abs_default (p : pyty) : S.aval :=
  match p with
  | PyEnum _ => S.AEnum 0
  | PyFloat => S.AFloat 0
  | PyBool => S.ABool false
  | PyStr => S.AStr []
  | PyBytes => S.ABytes []
  | _ => S.AInt 0
  end.

(* one field; [sel] = group_selects: is this the member its oneof group selects.  A selected member whose raw
   attribute is still PLACEHOLDER is excluded by oneof_sel (its value would be the field default). *)
Definition abs_field (rec : pyty -> pv -> S.aval) (f : fdesc) (sel : option bool) (x : pv) : S.afield :=
  match fhint f with
  | HList p => S.FRep (match x with PList l => map (rec p) l | _ => [] end)
  | HDict pk pv' => S.FMap (match x with PDict d => map (fun kx => (rec pk (fst kx), rec pv' (snd kx))) d | _ => [] end)
  | HOptional p => match x with PNone | PPlaceholder => S.FAbsent | _ => S.FOne (rec p x) end
  | HPlain p =>
      match sel with
      | Some false => S.FAbsent
      | Some true => match x with PPlaceholder => S.FAbsent | _ => S.FOne (rec p x) end
      | None =>
          match x with
          | PPlaceholder => if explicit_py p then S.FAbsent else S.FOne (abs_default p)
          | PMsg o => if osow o then S.FOne (rec p x) else S.FAbsent
          | PDatetime us => if us =? 0 then S.FAbsent else S.FOne (rec p x)
          | PTimedelta us => if us =? 0 then S.FAbsent else S.FOne (rec p x)
          | _ => S.FOne (rec p x)
          end
      end
  end.

Fixpoint abs_elem (sc : schema) (p : pyty) (v : pv) {struct v} : S.aval :=
  match v with
  | PInt z => match p with PyEnum _ => S.AEnum z | _ => S.AInt z end
  | PBool b => S.ABool b
  | PFloat b => S.AFloat b
  | PStr s => S.AStr s
  | PBytes b => S.ABytes b
  | PDatetime us => S.ATime (fst (ts_of_us us)) (snd (ts_of_us us))
  | PTimedelta us => S.ADur (fst (dur_of_us us)) (snd (dur_of_us us))
  | PMsg (Obj c raw _ _ cur) =>
      S.AMsg ((fix go (i : nat) (raw : list pv) (fs : list fdesc) {struct raw} : list S.afield :=
                 match raw, fs with
                 | x :: raw', f :: fs' =>
                     abs_field (abs_elem sc) f (group_selects cur f i) x :: go (Datatypes.S i) raw' fs'
                 | _, _ => []
                 end) O raw (cfields (get_class sc c)))
  | _ => S.AInt 0
  end.

Definition abs_obj (sc : schema) (o : obj) : S.aval := abs_elem sc (PyMsg (ocls o)) (PMsg o).

(* ====================================================================================== *)
(* 3. value-side conditions of C05_emit                                                    *)
(* ====================================================================================== *)
(* every NaN is float("nan"): the JSON token "NaN" carries neither sign nor payload *)
Definition local_nan_canon (o : obj) : bool :=
  forallb (fun x => match x with
                    | PList l => forallb nan_canonical l
                    | PDict d => forallb (fun kx => nan_canonical (snd kx)) d
                    | _ => nan_canonical x
                    end) (oraw o).
Definition nan_canon (o : obj) : bool := obj_all local_nan_canon o.

(* K13: no implicit-presence float / double field holds -0.0 *)
Definition neg_zero_field (f : fdesc) (x : pv) : bool :=
  match x, fhint f, fgroup f with
  | PFloat b, HPlain _, None => negb (b =? 2 ^ 63)
  | _, _, _ => true
  end.
Definition local_no_neg_zero (sc : schema) (o : obj) : bool :=
  let 'Obj c raw _ _ _ := o in
  (fix go (raw : list pv) (fs : list fdesc) {struct raw} : bool :=
     match raw, fs with
     | x :: raw', f :: fs' => neg_zero_field f x && go raw' fs'
     | _, _ => true
     end) raw (cfields (get_class sc c)).
Definition no_neg_zero (sc : schema) (o : obj) : bool := obj_all (local_no_neg_zero sc) o.

(* the member a oneof group selects holds a value (weaker than C04's oneof_ok: members the group does NOT select may
   still hold stale values - Cls(a=1, b=2) for two members of one oneof - to_dict never looks at them) *)
Definition sel_field (sel : option bool) (x : pv) : bool :=
  match sel, x with Some true, PPlaceholder => false | _, _ => true end.
Definition local_oneof_sel (sc : schema) (o : obj) : bool :=
  let 'Obj c raw _ _ cur := o in
  (fix go (i : nat) (raw : list pv) (fs : list fdesc) {struct raw} : bool :=
     match raw, fs with
     | x :: raw', f :: fs' => sel_field (group_selects cur f i) x && go (Datatypes.S i) raw' fs'
     | _, _ => true
     end) O raw (cfields (get_class sc c)).
Definition oneof_sel (sc : schema) (o : obj) : bool := obj_all (local_oneof_sel sc) o.

(* all value-side hypotheses of C05_emit *)
Definition emit_good (sc : schema) (o : obj) : bool :=
  in_range sc o && oneof_sel sc o && nan_canon o && no_neg_zero sc o.

