(* C05, message level, ACCEPT direction: the object the reader builds, part 1: the oneof selection that
   __post_init__ derives ([cur_loop], Proofs/C04CurP.v) selects exactly the members the abstract message sets. *)
From BP Require Import Base.Prelude Model.Types Model.Float Model.Utf8 Model.Object Model.WellFormed Model.TimeCore Spec.Time.
From BP Require Model.Json Model.Enum Model.Casing Spec.JsonMap Model.Time.
From BP Require Import gen.Tables.
From BP Require Import Proofs.BytesP Proofs.C04Def Proofs.C04ScalarP Proofs.C04ElemP Proofs.C04FieldP Proofs.C04ObjP Proofs.C04CurP.
From BP Require Import Proofs.C05Casing Proofs.C05Leaf Proofs.C05Model Proofs.C05MsgDef Proofs.C05MsgSpec Proofs.C05MsgLeaf
                       Proofs.C05MsgField.
From BP Require Import Proofs.C05AccDef Proofs.C05AccSpec Proofs.C05AccLeaf Proofs.C05AccField Proofs.C05AccRead.
From Coq Require Import Lia.

(* ---- positions of three aligned lists ---- *)
Lemma nth_conc_fields rec : forall afs fs fds k f fd af,
  nth_error fs k = Some f -> nth_error fds k = Some fd -> nth_error afs k = Some af ->
  nth_error (conc_fields rec fs fds afs) k = Some (conc_field rec f fd af).
Proof.
  induction afs as [|a afs IH]; intros fs fds k f fd af Hf Hd Ha; [destruct k; discriminate Ha|].
  destruct fs as [|f0 fs]; [destruct k; discriminate Hf|]. destruct fds as [|fd0 fds]; [destruct k; discriminate Hd|].
  destruct k as [|k]; cbn [nth_error conc_fields] in *.
  - inversion Hf; inversion Hd; inversion Ha; subst. reflexivity.
  - exact (IH fs fds k f fd af Hf Hd Ha).
Qed.

Lemma conc_fields_length rec : forall afs fs fds, length fs = length afs -> length fds = length afs ->
  length (conc_fields rec fs fds afs) = length afs.
Proof.
  induction afs as [|a afs IH]; intros fs fds L1 L2; destruct fs, fds; try discriminate L1; try discriminate L2; [reflexivity|].
  cbn [conc_fields length]. f_equal. apply IH; [cbn in L1|cbn in L2]; congruence.
Qed.

Lemma wf_afields_at rec : forall afs fs fds k f fd af, wf_afields rec fs fds afs = true ->
  nth_error fs k = Some f -> nth_error fds k = Some fd -> nth_error afs k = Some af -> wf_afield rec f fd af = true.
Proof.
  induction afs as [|a afs IH]; intros fs fds k f fd af W Hf Hd Ha; [destruct k; discriminate Ha|].
  destruct fs as [|f0 fs], fds as [|fd0 fds]; try discriminate W.
  cbn [wf_afields] in W. apply andb_prop in W as [W1 W2].
  destruct k as [|k]; cbn [nth_error] in *.
  - inversion Hf; inversion Hd; inversion Ha; subst. exact W1.
  - exact (IH fs fds k f fd af W2 Hf Hd Ha).
Qed.

Lemma Forall2_at {A B} (P : A -> B -> Prop) : forall l l' k a b, Forall2 P l l' ->
  nth_error l k = Some a -> nth_error l' k = Some b -> P a b.
Proof.
  induction l as [|x l IH]; intros l' k a b F Ha Hb; [destruct k; discriminate Ha|].
  inversion F as [|? y ? l2 Pxy F']; subst. destruct k as [|k]; cbn [nth_error] in *.
  - inversion Ha; inversion Hb; subst. exact Pxy.
  - exact (IH l2 k a b F' Ha Hb).
Qed.

Lemma nth_error_ex {A} (l : list A) k : (k < length l)%nat -> exists x, nth_error l k = Some x.
Proof. intros H. destruct (nth_error l k) eqn:E; [eauto|]. apply nth_error_None in E. lia. Qed.

(* ---- at most one set member per group ---- *)
Definition set_in_group (fds : list S.jfield) (afs : list S.afield) (g k : nat) : Prop :=
  exists fd af, nth_error fds k = Some fd /\ nth_error afs k = Some af /\ S.jf_oneof fd = Some g /\ is_set_field af = true.

Lemma groups_clean_char : forall fds afs seen, groups_clean fds afs seen = true ->
  (forall g k, set_in_group fds afs g k -> ~ In g seen) /\
  (forall g k k', set_in_group fds afs g k -> set_in_group fds afs g k' -> k = k').
Proof.
  induction fds as [|fd fds IH]; intros afs seen H.
  - split; [intros g k (fd & af & A & _)|intros g k k' (fd & af & A & _)]; destruct k; discriminate A.
  - destruct afs as [|af afs].
    { split; [intros g k (fd' & af' & _ & A & _)|intros g k k' (fd' & af' & _ & A & _)]; destruct k; discriminate A. }
    cbn [groups_clean] in H.
    assert (Tail : forall g k, set_in_group (fd :: fds) (af :: afs) g (Datatypes.S k) -> set_in_group fds afs g k).
    { intros g k (fd' & af' & A & B & C & D). exists fd', af'. repeat split; assumption. }
    assert (Cases : exists seen', groups_clean fds afs seen' = true /\ (forall g, In g seen -> In g seen') /\
                      (forall g, set_in_group (fd :: fds) (af :: afs) g O -> ~ In g seen /\ In g seen')).
    { destruct (S.jf_oneof fd) as [g0|] eqn:G0.
      - destruct (is_set_field af) eqn:St.
        + apply andb_prop in H as [H1 H2]. exists (g0 :: seen). split; [exact H2|]. split; [intros g Hg; right; exact Hg|].
          intros g (fd' & af' & A & B & C & D). cbn in A, B. inversion A; inversion B; subst fd' af'.
          rewrite G0 in C. inversion C; subst g0. split; [|left; reflexivity].
          intros I. assert (S.mem_nat g seen = true).
          { unfold S.mem_nat. apply existsb_exists. exists g. split; [exact I|apply Nat.eqb_refl]. }
          rewrite H in H1. discriminate H1.
        + exists seen. split; [exact H|]. split; [auto|].
          intros g (fd' & af' & A & B & C & D). cbn in A, B. inversion A; inversion B; subst fd' af'. congruence.
      - exists seen. split; [exact H|]. split; [auto|].
        intros g (fd' & af' & A & B & C & D). cbn in A, B. inversion A; inversion B; subst fd' af'. congruence. }
    destruct Cases as (seen' & Hc & Hsub & Hhead). destruct (IH afs seen' Hc) as [I1 I2].
    split.
    + intros g [|k] Sg.
      * apply (Hhead g Sg).
      * intros I. apply (I1 g k (Tail g k Sg)). apply Hsub, I.
    + intros g [|k] [|k'] Sg Sg'.
      * reflexivity.
      * exfalso. apply (I1 g k' (Tail g k' Sg')). apply (Hhead g Sg).
      * exfalso. apply (I1 g k (Tail g k Sg)). apply (Hhead g Sg').
      * f_equal. apply (I2 g k k' (Tail g k Sg) (Tail g k' Sg')).
Qed.

(* ---- sentinels ---- *)
Lemma is_sentinel_sentinel f : is_sentinel f (sentinel f) = true.
Proof. unfold sentinel. destruct (fopt f) eqn:O; cbn [is_sentinel]; [exact O|reflexivity]. Qed.

Lemma conc_not_placeholder sc js off k a : conc_elem sc js off k a <> PPlaceholder.
Proof. destruct a; try discriminate. destruct k; discriminate. Qed.

Section Cur.
  Variable sc : schema.
  Variable js : S.jschema.
  Variable off : nat.
  Let nj := length (S.jclasses js).
  Notation wfa := (wf_aval sc js off).
  Notation cel := (conc_elem sc js off).

  (* a oneof member: its abstract field is FAbsent or FOne, and the attribute is a sentinel exactly when absent *)
  Lemma group_member ng f fd af g :
    wf_field sc ng f = true -> fmatch off nj f fd -> wf_afield wfa f fd af = true -> fgroup f = Some g ->
    (af = S.FAbsent /\ conc_field cel f fd af = PPlaceholder) \/
    (exists x, af = S.FOne x /\ conc_field cel f fd af = cel (S.jf_kind fd) x /\ is_sentinel f (conc_field cel f fd af) = false).
  Proof.
    intros W [_ _ Fcard _ _] Wa G.
    destruct (group_field_plain sc ng f g W G) as (_ & Hop & p & Hp).
    unfold card_of in Fcard. rewrite Hp, G in Fcard. cbn [is_some' orb] in Fcard.
    unfold wf_afield in Wa. unfold conc_field, omitted. rewrite Fcard in *.
    destruct af as [|x|l|l]; try discriminate Wa.
    - left. split; [reflexivity|]. unfold sentinel. rewrite Hop. reflexivity.
    - right. exists x. split; [reflexivity|]. split; [reflexivity|].
      apply andb_prop in Wa as [W1 _].
      assert (Hn : cel (S.jf_kind fd) x <> PPlaceholder) by apply conc_not_placeholder.
      destruct (cel (S.jf_kind fd) x) eqn:E; try reflexivity; try congruence.
      cbn [is_sentinel]. exact Hop.
  Qed.

  Section Sel.
    Variable ng : nat.
    Variable fs : list fdesc.
    Variable fds : list S.jfield.
    Variable afs : list S.afield.
    Hypothesis W : forallb (wf_field sc ng) fs = true.
    Hypothesis F2 : Forall2 (fmatch off nj) fs fds.
    Hypothesis Wa : wf_afields wfa fs fds afs = true.
    Hypothesis Gc : groups_clean fds afs [] = true.
    Let raw' := conc_fields cel fs fds afs.
    Let cur' := cur_loop O fs raw' (repeat None ng).

    Lemma assigns_set g k : assigns fs raw' g k -> set_in_group fds afs g k.
    Proof.
      intros (f & v & A1 & A2 & A3 & A4).
      destruct (wf_afields_length _ _ _ _ Wa) as [L1 L2].
      assert (Lk : (k < length fs)%nat) by (apply nth_error_Some; congruence).
      destruct (nth_error_ex fds k ltac:(lia)) as [fd Hd]. destruct (nth_error_ex afs k ltac:(lia)) as [af Ha].
      exists fd, af. split; [exact Hd|]. split; [exact Ha|].
      pose proof (Forall2_at _ _ _ _ _ _ F2 A1 Hd) as Fm.
      pose proof (wf_afields_at _ _ _ _ _ _ _ _ Wa A1 Hd Ha) as Wf.
      pose proof (forallb_at _ _ _ _ W A1) as Wk.
      unfold raw' in A2. rewrite (nth_conc_fields _ _ _ _ _ _ _ _ A1 Hd Ha) in A2. inversion A2; subst v.
      destruct Fm as [Fk Fkind Fcard Fone Fmsg] eqn:FmE. split; [rewrite Fone; exact A3|].
      destruct (group_member ng f fd af g Wk Fm Wf A3) as [[-> E]|(x & -> & _ & _)]; [|reflexivity].
      rewrite E in A4. discriminate A4.
    Qed.

    Lemma sel_char k f fd af g :
      nth_error fs k = Some f -> nth_error fds k = Some fd -> nth_error afs k = Some af -> fgroup f = Some g ->
      group_selects cur' f k = Some (is_set_field af).
    Proof.
      intros Hf Hd Ha G. rewrite (group_selects_some _ _ _ _ G). f_equal.
      pose proof (Forall2_at _ _ _ _ _ _ F2 Hf Hd) as Fm.
      pose proof (wf_afields_at _ _ _ _ _ _ _ _ Wa Hf Hd Ha) as Wf.
      pose proof (forallb_at _ _ _ _ W Hf) as Wk.
      destruct (groups_clean_char _ _ _ Gc) as [_ Uniq].
      destruct (group_field_plain sc ng f g Wk G) as (Lg & _ & _).
      assert (Hx : nth_error raw' k = Some (conc_field cel f fd af)) by (apply nth_conc_fields; assumption).
      destruct (group_member ng f fd af g Wk Fm Wf G) as [[-> E]|(x & -> & _ & Sent)]; cbn [is_set_field].
      - (* absent: nobody, or somebody else, assigns the group *)
        destruct (cur_loop_char fs O raw' (repeat None ng) g) as [E0|(k0 & As & E0)]; fold cur' in E0; rewrite E0.
        + rewrite nth_repeat_none. reflexivity.
        + cbn [opt_nat_eqb]. apply Nat.eqb_neq. intros Ek. cbn [Nat.add] in Ek. subst k0.
          destruct As as (f' & v' & A1 & A2 & A3 & A4). rewrite Hf in A1. rewrite Hx in A2. inversion A1; inversion A2; subst f' v'.
          rewrite E in A4. discriminate A4.
      - (* set: this member assigns, and it is the only one *)
        assert (As : assigns fs raw' g k) by (exists f, (conc_field cel f fd (S.FOne x)); repeat split; assumption).
        destruct (cur_loop_assigned fs O raw' (repeat None ng) g k ltac:(rewrite repeat_length; exact Lg) As)
          as (k0 & As0 & E0).
        fold cur' in E0. rewrite E0. cbn [Nat.add opt_nat_eqb]. apply Nat.eqb_eq.
        apply (Uniq g k0 k (assigns_set g k0 As0) (assigns_set g k As)).
    Qed.
  End Sel.
End Cur.
