(* C15, JSON clause without the calendar oracle: the calendar text of the whole second ([cal] in Model/Time.v's
   timestamp_to_json) instantiated with the proleptic-Gregorian calendar of Model/Json.v, whose civil_of_days /
   days_of_civil are PROVED inverse over the years 1..9999 (Proofs/C04CalP.v, C04CalSweepP.v). *)
From Coq Require Import ZArith List Lia.
From BP Require Import Base.Prelude Model.TimeCore Model.Time Spec.Time.
From BP Require Model.Json Spec.JsonMap Proofs.C05Model Proofs.TimeP.
Import ListNotations.
Open Scope Z_scope.

Module J := Model.Json.
Module S := Spec.JsonMap.

(* timestamp_to_json with the real calendar text is the to_dict text of the JSON model *)
Lemma timestamp_to_json_calendar : forall dt,
  timestamp_to_json (J.cal_text (instant dt / 1000000)) dt = Ok (J.ts_text (instant dt)).
Proof.
  intros dt. rewrite TimeP.timestamp_to_json_is_spec. unfold J.ts_text, ts_of_us. cbn [snd]. reflexivity.
Qed.

(* ... which is the canonical RFC 3339 UTC string of the reference's (seconds, nanos) pair for the instant, is read by a
   conforming reader as that pair, and is read back by betterproto's own parser as the same instant *)
Lemma timestamp_json_full : forall dt,
  (dt_min_us <=? instant dt) && (instant dt <=? dt_max_us) = true ->
  exists text,
    timestamp_to_json (J.cal_text (instant dt / 1000000)) dt = Ok text /\
    text = S.ts_str (fst (ts_of_us (instant dt))) (snd (ts_of_us (instant dt))) /\
    S.ts_parse text = Some (ts_of_us (instant dt)) /\
    J.iso_parse text = Ok (instant dt).
Proof.
  intros dt R. exists (J.ts_text (instant dt)). split; [apply timestamp_to_json_calendar|].
  split; [apply C05Model.model_timestamp_is_canonical|]. split.
  - apply (C05Model.model_timestamp_emit_accepted (instant dt) R).
  - rewrite C05Model.model_timestamp_is_canonical. apply C05Model.model_timestamp_accepts_canonical, R.
Qed.
