(* C20, message level: the built message  m = Cls(); m.f = v  meets C04's value condition ([good]) in every well-formed
   schema; hence the dict / JSON message-level theorem applies to it with no hypothesis left on the message. *)
From BP Require Import Base.Prelude Model.Types Model.Float Model.Utf8 Model.Object Model.Eq Model.TimeCore.
From BP Require Import Model.Encode Model.WellFormed Model.Json Model.C20Msg.
From BP Require Model.Casing Model.Enum Proofs.EnumP.
From BP Require Import gen.Tables Proofs.BytesP Proofs.C04Def Proofs.C04ScalarP Proofs.C04ElemP Proofs.C04FieldP Proofs.C04ObjP
     Proofs.C04CurP Proofs.C04RtP Proofs.C20MsgDef Proofs.C20MsgBuilt Proofs.C20MsgJson.
From Coq Require Import Lia ZifyBool.

Lemma flat_pv_all P x : flat x -> pv_all P x = true.
Proof.
  destruct x as [| |z|b|bits|s|b|us|us|l|d|o]; cbn [flat]; intros H; try reflexivity; [| |contradiction].
  - cbn [pv_all]. apply forallb_forall. intros y Hy. rewrite Forall_forall in H. specialize (H y Hy).
    destruct y; try reflexivity; contradiction.
  - cbn [pv_all]. apply forallb_forall. intros [k y] Hy. rewrite Forall_forall in H. specialize (H (k, y) Hy). cbn [snd] in *.
    destruct y; try reflexivity; contradiction.
Qed.

Definition oneof_cond (cur : list (option nat)) (j : nat) (f : fdesc) (x : pv) : bool :=
  match group_selects cur f j with
  | Some sel => Bool.eqb sel (match x with PPlaceholder => false | _ => true end)
  | None => true
  end.

Lemma oneof_loop_loop3 cur : forall raw fs j, loop3 (oneof_cond cur) j raw fs = oneof_loop cur j raw fs.
Proof. induction raw as [|x raw IH]; intros [|f fs] j; try reflexivity. cbn [loop3 oneof_loop]. rewrite IH. reflexivity. Qed.

Lemma lazy_loop_loop3 sc cur : forall raw fs j,
  loop3 (fun j f x => lazy_cond sc (group_selects cur f j) f x) j raw fs = lazy_loop sc cur j raw fs.
Proof. induction raw as [|x raw IH]; intros [|f fs] j; try reflexivity. cbn [loop3 lazy_loop]. rewrite IH. reflexivity. Qed.

Lemma flat_lazy sc sel f x : flat x -> lazy_cond sc sel f x = true.
Proof. destruct x; cbn [flat]; intros H; try reflexivity. contradiction. Qed.

Section BuiltJ.
  Variable sc : schema.
  Hypothesis W : wf_schema sc = true.
  Variables (c i : nat) (f : fdesc) (pos : epos) (e : nat) (k : pv) (v : Z).
  Hypothesis Hf : nth_error (cfields (get_class sc c)) i = Some f.
  Hypothesis Hp : enum_position f = Some (pos, e).
  Hypothesis Hv : EnumP.int32 v.
  Hypothesis Hk : pos = PosMapValue -> scalar_in_range (key_type f) k = true.

  Let Hwf := wf_fields sc c W.

  Lemma built_good : good sc (built sc c i pos k v) = true.
  Proof.
    rewrite good_split, (built_in_range sc c Hwf i f pos e k v Hf Hp Hv Hk). cbn [andb].
    rewrite (built_unfold sc c Hwf i f pos k v Hf). unfold pv_good. rewrite pv_all_msg.
    assert (Hflat : forall x, In x (braw sc c i pos k v) -> flat x) by exact (braw_flat sc c i f pos e k v Hf Hp).
    apply andb_true_iff. split; [|apply forallb_forall; intros x Hx; apply flat_pv_all, Hflat, Hx].
    unfold local_ok. cbn [ounk].
    apply andb_true_iff; split; [apply andb_true_iff; split; [apply andb_true_iff; split; [apply andb_true_iff; split|]|]|].
    - reflexivity.
    - (* no lazily created intermediate: there is no sub-message at all *)
      rewrite local_no_lazy_unfold, <- lazy_loop_loop3. apply loop3_pointwise. intros j x f' Hx Hj.
      apply flat_lazy, Hflat. exact (nth_error_In _ _ Hx).
    - (* NaN *)
      unfold local_nan_ok. cbn [oraw]. apply forallb_forall. intros x Hin. apply In_nth_error in Hin as (j & Hj).
      destruct (braw_nth sc c i f pos k v Hf j x Hj) as [(_ & ->)|(_ & f' & _ & ->)].
      + destruct pos; reflexivity.
      + unfold C01Slot.fresh_of. destruct (fopt f'); reflexivity.
    - (* the oneof discipline *)
      rewrite local_oneof_unfold, <- oneof_loop_loop3. apply loop3_pointwise. intros j x f' Hx Hj. cbn [Nat.add].
      unfold oneof_cond.
      destruct (braw_nth sc c i f pos k v Hf j x Hx) as [(-> & ->)|(Hne & f'' & Hj' & ->)].
      + rewrite Hf in Hj. injection Hj as <-. pose proof (bcur_selects_i sc c Hwf i f Hf) as Hs.
        destruct (group_selects (bcur sc c i f) f i) as [[|]|]; try reflexivity; [destruct pos; reflexivity|congruence].
      + rewrite Hj in Hj'. injection Hj' as <-. pose proof (bcur_selects_other sc c i f j f' Hne Hj) as Hs.
        destruct (group_selects (bcur sc c i f) f' j) as [[|]|] eqn:Hgs; try reflexivity; [congruence|].
        unfold group_selects in Hgs. destruct (fgroup f') as [g|] eqn:Hg; [|discriminate Hgs].
        rewrite (fresh_group_member sc c Hwf j f' g Hj Hg). reflexivity.
    - (* dict keys *)
      unfold local_dicts_ok. cbn [oraw]. apply forallb_forall. intros x Hin. apply In_nth_error in Hin as (j & Hj).
      destruct (braw_nth sc c i f pos k v Hf j x Hj) as [(_ & ->)|(_ & f' & _ & ->)].
      + destruct pos; reflexivity.
      + unfold C01Slot.fresh_of. destruct (fopt f'); reflexivity.
  Qed.

  Variable cs : casing.
  Hypothesis K : keys_ok cs sc = true.

  (* the dict / JSON theorem for the built message: no hypothesis on the message is left *)
  Theorem roundtrip_built_json :
    read sc (built sc c i pos k v) i = Ok (place pos k v) /\ holds_enum pos (place pos k v) v = true /\
    (forall text : bool,
       jlookup (key_of_field cs f) (tr text (to_dict cs false sc (built sc c i pos k v))) =
       if enum_omitted pos (place pos k v) then None else Some (tr text (enum_field_json sc e (place pos k v)))) /\
    exists m',
      (forall text : bool,
         from_dict_cls sc c (tr text (to_dict cs false sc (built sc c i pos k v))) = Ok m' /\
         from_dict_inst sc (new sc c) (tr text (to_dict cs false sc (built sc c i pos k v))) = Ok m') /\
      json_rt_cls cs false sc (built sc c i pos k v) = Ok m' /\
      json_rt_inst cs false sc (built sc c i pos k v) (new sc c) = Ok m' /\
      read sc m' i = Ok (place pos k v) /\
      obj_eq sc m' (built sc c i pos k v) = true /\ enc_obj sc m' = enc_obj sc (built sc c i pos k v).
  Proof.
    pose proof (built_reads sc c Hwf i f pos e k v Hf Hp) as Hr.
    pose proof (place_holds f pos e k v Hp) as Hh.
    assert (Hc : ocls (built sc c i pos k v) = c) by (rewrite (built_unfold sc c Hwf i f pos k v Hf); reflexivity).
    assert (Hf' : nth_error (cfields (get_class sc (ocls (built sc c i pos k v)))) i = Some f) by (rewrite Hc; exact Hf).
    destruct (roundtrip_message_json sc cs (built sc c i pos k v) i f pos e (place pos k v) v W K built_good Hf' Hp Hr Hh)
      as (_ & Hj & m' & Hrt).
    split; [exact Hr|]. split; [exact Hh|]. split; [exact Hj|]. exists m'. rewrite Hc in Hrt. exact Hrt.
  Qed.
End BuiltJ.

(* the statement of Properties/C20.v: the value condition holds AND the round trip *)
Lemma roundtrip_built_json_full sc cs c i f pos e k v :
  wf_schema sc = true -> keys_ok cs sc = true ->
  nth_error (cfields (get_class sc c)) i = Some f -> enum_position f = Some (pos, e) ->
  EnumP.int32 v -> (pos = PosMapValue -> scalar_in_range (key_type f) k = true) ->
  let m := built sc c i pos k v in
  good sc m = true /\
  read sc m i = Ok (place pos k v) /\ holds_enum pos (place pos k v) v = true /\
  (forall text : bool,
     jlookup (key_of_field cs f) (tr text (to_dict cs false sc m)) =
     if enum_omitted pos (place pos k v) then None else Some (tr text (enum_field_json sc e (place pos k v)))) /\
  exists m',
    (forall text : bool,
       from_dict_cls sc c (tr text (to_dict cs false sc m)) = Ok m' /\
       from_dict_inst sc (new sc c) (tr text (to_dict cs false sc m)) = Ok m') /\
    json_rt_cls cs false sc m = Ok m' /\ json_rt_inst cs false sc m (new sc c) = Ok m' /\
    read sc m' i = Ok (place pos k v) /\
    obj_eq sc m' m = true /\ enc_obj sc m' = enc_obj sc m.
Proof.
  intros W K Hf Hp Hv Hk m. subst m.
  split; [exact (built_good sc W c i f pos e k v Hf Hp Hv Hk)|].
  exact (roundtrip_built_json sc W c i f pos e k v Hf Hp Hv Hk cs K).
Qed.
