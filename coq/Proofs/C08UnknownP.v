(* C08: parse = fold of [step] over the records of the input; unknown records only append
   their raw bytes to _unknown_fields; known records never look at _unknown_fields; the fuel
   of the model is irrelevant once it exceeds the length of the input.  From these:
   raw_preserved and known_undisturbed. *)
From BP Require Import Base.Prelude Model.Types Model.Varint Model.Scalar Model.Float Model.Utf8.
From BP Require Import Model.Object Model.Eq Model.TimeCore Model.Encode Model.Decode Model.C08Step.
From BP Require Import gen.Tables Proofs.C08FrameP Proofs.C08StepP.

(* ---- run <-> records + fold_steps ---- *)
Lemma run_ok fuel' sc cd : forall n o s o',
  run fuel' sc cd n o s = Ok o' ->
  exists ps, records s ps /\ fold_steps fuel' sc cd o ps = Ok o'.
Proof.
  induction n as [|n IH]; intros o s o' H; [discriminate|].
  cbn [run] in H. destruct s as [|b s].
  - injection H as <-. exists []. split; [constructor | reflexivity].
  - destruct (load_varint (b :: s)) as [[[nw r] s1]|] eqn:Hv; cbn [bind] in H; [|discriminate].
    destruct (load_field fuel' s1 nw r) as [[p s2]|] eqn:Hf; cbn [bind] in H; [|discriminate].
    destruct (step fuel' sc cd o p) as [o1|] eqn:Hs; cbn [bind] in H; [|discriminate].
    apply IH in H. destruct H as (ps & Hr & Hfold).
    exists (p :: ps). split.
    + eapply records_cons; [discriminate | eapply frame1_of_load_field; eassumption | exact Hr].
    + cbn [fold_steps]. rewrite Hs. exact Hfold.
Qed.

Lemma run_of_records fuel' sc cd : forall s ps, records s ps ->
  forall n o, (length s < n)%nat -> (length s <= fuel')%nat ->
  run fuel' sc cd n o s = fold_steps fuel' sc cd o ps.
Proof.
  induction 1 as [|s p s' ps Hne Hf Hr IH]; intros n o Hn Hfuel.
  - destruct n; [lia|]. reflexivity.
  - destruct n as [|n]; [lia|]. cbn [run fold_steps].
    destruct s as [|b s]; [congruence|].
    destruct (load_field_of_frame1 fuel' _ _ _ Hf Hfuel) as (nw & r & s1 & Hv & Hl).
    rewrite Hv. cbn [bind]. rewrite Hl. cbn [bind].
    destruct (step fuel' sc cd o p) as [o1|]; cbn [bind]; [|reflexivity].
    apply frame1_frame in Hf as (E & Hp & _).
    assert (length s' < length (b :: s))%nat by (rewrite E, app_length; lia).
    apply IH; lia.
Qed.

Lemma ocls_new sc c : ocls (new sc c) = c.
Proof. reflexivity. Qed.

(* Cls().parse(bs) succeeds iff bs is a sequence of complete records each of which the loop body accepts *)
Theorem parse_fold sc c bs m :
  parse sc c bs = Ok m <->
  exists ps, records bs ps /\ fold_steps (length bs) sc (get_class sc c) (touch (new sc c)) ps = Ok m.
Proof.
  unfold parse, parse_into. rewrite load_run, ocls_new. split.
  - intros H.
    destruct (run (length bs) sc (get_class sc c) (S (length bs)) (touch (new sc c)) bs) as [o'|] eqn:Hr;
      cbn [bind] in H; [|discriminate].
    injection H as <-. apply run_ok in Hr. exact Hr.
  - intros (ps & Hr & Hfold).
    rewrite (run_of_records _ _ _ _ _ Hr) by lia. rewrite Hfold. reflexivity.
Qed.

(* ---- the object attributes one step can touch ---- *)
Lemma getattr_shape sc o i o' r :
  getattr sc o i = (o', r) ->
  ocls o' = ocls o /\ ounk o' = ounk o /\ osow o' = osow o /\ ocur o' = ocur o.
Proof.
  destruct o as [c raw sow unk cur]. unfold getattr.
  destruct (nth_error (cfields (get_class sc c)) i) as [f|]; [|intros H; injection H as <- _; repeat split].
  destruct (group_selects cur f i) as [[|]|];
    try (intros H; injection H as <- _; repeat split);
    destruct (nth i raw PPlaceholder); intros H; injection H as <- _; repeat split.
Qed.

Lemma setattr_shape sc o i v :
  ocls (setattr sc o i v) = ocls o /\ ounk (setattr sc o i v) = ounk o.
Proof.
  destruct o as [c raw sow unk cur]. unfold setattr.
  destruct (nth_error (cfields (get_class sc c)) i) as [f|]; [|repeat split].
  destruct (fgroup f); repeat split.
Qed.

Lemma getattr_set_unk sc o i u :
  getattr sc (set_unk o u) i = (set_unk (fst (getattr sc o i)) u, snd (getattr sc o i)).
Proof.
  destruct o as [c raw sow unk cur]. unfold getattr, set_unk.
  destruct (nth_error (cfields (get_class sc c)) i) as [f|]; [|reflexivity].
  destruct (group_selects cur f i) as [[|]|]; try reflexivity; destruct (nth i raw PPlaceholder); reflexivity.
Qed.

Lemma setattr_set_unk sc o i v u : setattr sc (set_unk o u) i v = set_unk (setattr sc o i v) u.
Proof.
  destruct o as [c raw sow unk cur]. unfold setattr, set_unk.
  destruct (nth_error (cfields (get_class sc c)) i) as [f|]; [|reflexivity].
  destruct (fgroup f); reflexivity.
Qed.

Local Opaque getattr setattr.

Lemma store_shape sc o i f v o' :
  store sc o i f v = Ok o' -> ocls o' = ocls o /\ ounk o' = ounk o.
Proof.
  unfold store.
  destruct (getattr sc o i) as [o1 [cv|e]] eqn:Hg.
  - apply getattr_shape in Hg as (Hc & Hu & _ & _).
    destruct o1 as [c1 raw1 sow1 unk1 cur1]. cbn [ocls ounk] in *.
    destruct (ptype_eqb (fty f) TMap).
    + destruct v; try discriminate. destruct cv; try discriminate.
      destruct (getattr sc o0 0) as [? [?|?]]; try discriminate.
      destruct (getattr sc o0 1) as [? [?|?]]; try discriminate.
      intros H. injection H as <-. cbn [ocls ounk]. split; assumption.
    + destruct cv; intros H; injection H as <-;
        try (pose proof (setattr_shape sc (Obj c1 raw1 sow1 unk1 cur1) i v) as [A B];
             cbn [ocls ounk] in A, B; rewrite A, B; split; assumption);
        cbn [ocls ounk]; split; assumption.
  - pose proof (setattr_shape sc o i (default_of sc f)) as [A B].
    destruct (setattr sc o i (default_of sc f)) as [c1 raw1 sow1 unk1 cur1] eqn:Hs. cbn [ocls ounk] in A, B.
    destruct (ptype_eqb (fty f) TMap).
    + destruct v; try discriminate. destruct (default_of sc f); try discriminate.
      destruct (getattr sc o0 0) as [? [?|?]]; try discriminate.
      destruct (getattr sc o0 1) as [? [?|?]]; try discriminate.
      intros H. injection H as <-. cbn [ocls ounk]. split; assumption.
    + destruct (default_of sc f); intros H; injection H as <-;
        try (pose proof (setattr_shape sc (Obj c1 raw1 sow1 unk1 cur1) i v) as [A' B'];
             cbn [ocls ounk] in A', B'; rewrite A', B'; split; assumption);
        cbn [ocls ounk]; split; assumption.
Qed.

Lemma step_shape fuel' sc cd o p o' :
  step fuel' sc cd o p = Ok o' ->
  ocls o' = ocls o /\ ounk o' = ounk o ++ (if is_unknown cd p then praw p else []).
Proof.
  destruct (is_unknown cd p) eqn:Hu.
  - rewrite (step_unknown _ _ _ _ _ Hu). intros H. injection H as <-. destruct o; split; reflexivity.
  - destruct (step_known fuel' sc cd o p Hu) as (i & f & _ & _ & E). rewrite E.
    destruct (decode_value fuel' sc f p) as [v|]; cbn [bind]; [|discriminate].
    intros H. apply store_shape in H as [A B]. rewrite app_nil_r. split; assumption.
Qed.

Lemma fold_shape fuel' sc cd : forall ps o o',
  fold_steps fuel' sc cd o ps = Ok o' ->
  ocls o' = ocls o /\ ounk o' = ounk o ++ unknown_raw cd ps.
Proof.
  induction ps as [|p ps IH]; intros o o' H; cbn [fold_steps] in H.
  - injection H as <-. unfold unknown_raw, raw_of. cbn. rewrite app_nil_r. split; reflexivity.
  - destruct (step fuel' sc cd o p) as [o1|] eqn:Hs; cbn [bind] in H; [|discriminate].
    apply step_shape in Hs as [A B]. apply IH in H as [A' B'].
    split; [congruence|]. rewrite B', B, <- app_assoc. f_equal.
    unfold unknown_raw, raw_of. cbn [filter]. destruct (is_unknown cd p); reflexivity.
Qed.

(* ---- C08_raw_preserved ---- *)
Theorem raw_preserved sc c bs m :
  parse sc c bs = Ok m ->
  exists ps, records bs ps /\ bs = raw_of ps /\ ounk m = unknown_raw (get_class sc c) ps.
Proof.
  intros H. apply parse_fold in H as (ps & Hr & Hf).
  exists ps. split; [exact Hr|]. split; [apply records_raw, Hr|].
  apply fold_shape in Hf as [_ Hu]. rewrite Hu. reflexivity.
Qed.

(* the same for m.parse(bs) on an existing message: earlier unknown bytes stay in front *)
Theorem raw_preserved_into sc o bs m :
  parse_into sc o bs = Ok m ->
  exists ps, records bs ps /\ ounk m = ounk o ++ unknown_raw (get_class sc (ocls o)) ps.
Proof.
  unfold parse_into. rewrite load_run.
  destruct (run _ _ _ _ _ _) as [o'|] eqn:Hr; cbn [bind]; [|discriminate].
  intros H. injection H as <-. apply run_ok in Hr as (ps & Hr & Hf).
  exists ps. split; [exact Hr|]. apply fold_shape in Hf as [_ Hu]. rewrite Hu. destruct o; reflexivity.
Qed.

(* ---- known records never look at the unknown bytes ---- *)
Definition rmap {A B} (g : A -> B) (r : result A) : result B :=
  match r with Ok a => Ok (g a) | Err e => Err e end.

Lemma store_set_unk sc o i f v u :
  store sc (set_unk o u) i f v = rmap (fun o' => set_unk o' u) (store sc o i f v).
Proof.
  unfold store. rewrite getattr_set_unk.
  destruct (getattr sc o i) as [o1 [cv|e]]; cbn [fst snd].
  - destruct o1 as [c1 raw1 sow1 unk1 cur1]. cbn [set_unk].
    destruct (ptype_eqb (fty f) TMap).
    + destruct v; try reflexivity. destruct cv; try reflexivity.
      destruct (getattr sc o0 0) as [? [?|?]]; try reflexivity.
      destruct (getattr sc o0 1) as [? [?|?]]; reflexivity.
    + destruct cv; cbn [rmap]; try reflexivity;
        rewrite <- setattr_set_unk; reflexivity.
  - rewrite setattr_set_unk.
    destruct (setattr sc o i (default_of sc f)) as [c1 raw1 sow1 unk1 cur1]. cbn [set_unk].
    destruct (ptype_eqb (fty f) TMap).
    + destruct v; try reflexivity. destruct (default_of sc f); try reflexivity.
      destruct (getattr sc o0 0) as [? [?|?]]; try reflexivity.
      destruct (getattr sc o0 1) as [? [?|?]]; reflexivity.
    + destruct (default_of sc f); cbn [rmap]; try reflexivity;
        rewrite <- setattr_set_unk; reflexivity.
Qed.

Lemma step_set_unk fuel' sc cd o p u :
  is_unknown cd p = false ->
  step fuel' sc cd (set_unk o u) p = rmap (fun o' => set_unk o' u) (step fuel' sc cd o p).
Proof.
  intros Hu. rewrite !step_eq. unfold is_unknown in Hu.
  destruct (field_by_number cd (pnum p)) as [[i f]|]; [|discriminate].
  rewrite Hu. destruct (decode_value fuel' sc f p) as [v|]; cbn [bind]; [|reflexivity].
  apply store_set_unk.
Qed.

Lemma set_unk_add_unk o u v : add_unk (set_unk o u) v = set_unk o (u ++ v).
Proof. destruct o; reflexivity. Qed.
Lemma set_unk_set_unk o u v : set_unk (set_unk o u) v = set_unk o v.
Proof. destruct o; reflexivity. Qed.
Lemma set_unk_id o : set_unk o (ounk o) = o.
Proof. destruct o; reflexivity. Qed.
Lemma set_unk_nil o : set_unk o [] = clear_unk o.
Proof. destruct o; reflexivity. Qed.

Definition known (cd : cdesc) (p : parsed) : bool := negb (is_unknown cd p).

(* a fold over all records = the fold over the known ones, with the unknown raw bytes attached at the end *)
Lemma fold_split fuel' sc cd : forall ps o u,
  fold_steps fuel' sc cd (set_unk o u) ps =
  rmap (fun o' => set_unk o' (u ++ unknown_raw cd ps))
       (fold_steps fuel' sc cd (set_unk o []) (filter (known cd) ps)).
Proof.
  induction ps as [|p ps IH]; intros o u.
  - cbn [fold_steps filter rmap]. unfold unknown_raw, raw_of. cbn. rewrite app_nil_r, set_unk_set_unk. reflexivity.
  - cbn [fold_steps filter]. unfold known at 1. destruct (is_unknown cd p) eqn:Hu; cbn [negb].
    + rewrite (step_unknown _ _ _ _ _ Hu). cbn [bind]. rewrite set_unk_add_unk, IH.
      unfold unknown_raw, raw_of. cbn [filter]. rewrite Hu. cbn [map concat]. rewrite <- app_assoc. reflexivity.
    + cbn [fold_steps]. rewrite !(step_set_unk _ _ _ _ _ _ Hu).
      destruct (step fuel' sc cd o p) as [o1|]; cbn [rmap bind]; [|reflexivity].
      rewrite IH. unfold unknown_raw, raw_of. cbn [filter]. rewrite Hu. reflexivity.
Qed.

(* ---- the fuel of the model is irrelevant once it exceeds the length of the input ---- *)
Section Mono.
  Variables (f1 f2 : nat) (sc : schema).
  Hypothesis Hload : forall o s r,
    load f1 sc o s None = Ok r -> (length s < f2)%nat -> load f2 sc o s None = Ok r.

  Lemma parse_new_mono c' bs o :
    parse_new f1 sc c' bs = Ok o -> (length bs < f2)%nat -> parse_new f2 sc c' bs = Ok o.
  Proof.
    unfold parse_new. intros H Hl.
    destruct (load f1 sc (new sc c') bs None) as [[o' rest]|] eqn:E; cbn [bind] in H; [|discriminate].
    rewrite (Hload _ _ _ E Hl). exact H.
  Qed.

  Ltac pn_step H Hl :=
    match type of H with
    | context [parse_new f1 sc ?c ?bs] =>
        let E := fresh "E" in
        destruct (parse_new f1 sc c bs) as [?m|] eqn:E; cbn [bind] in H; [|discriminate];
        rewrite (parse_new_mono _ _ _ E Hl); cbn [bind]
    end.

  Lemma post_len_mono f t ety w bs v :
    post_len f1 sc f t ety w bs = Ok v -> (length bs < f2)%nat -> post_len f2 sc f t ety w bs = Ok v.
  Proof.
    unfold post_len. intros H Hl.
    destruct (ptype_eqb t TString); [exact H|].
    destruct (ptype_eqb t TMessage); [|exact H].
    destruct ety; destruct w as [w|]; try exact H; try (pn_step H Hl; exact H).
    all: destruct (wrapper_cls w); try exact H; pn_step H Hl; exact H.
  Qed.

  Lemma decode_value_mono f p v :
    decode_value f1 sc f p = Ok v -> (length (pbytes p) < f2)%nat -> decode_value f2 sc f p = Ok v.
  Proof.
    unfold decode_value. intros H Hl.
    destruct ((pwt p =? WIRE_LEN_DELIM) && tmem (fty f) PACKED_TYPES); [exact H|].
    destruct (pwt p =? WIRE_VARINT); [exact H|].
    destruct ((pwt p =? WIRE_FIXED_32) || (pwt p =? WIRE_FIXED_64)); [exact H|].
    destruct (ptype_eqb (fty f) TMap).
    - pn_step H Hl. exact H.
    - apply post_len_mono; assumption.
  Qed.

  Lemma step_mono cd o p o' :
    step f1 sc cd o p = Ok o' -> (length (pbytes p) < f2)%nat -> step f2 sc cd o p = Ok o'.
  Proof.
    rewrite !step_eq. intros H Hl.
    destruct (field_by_number cd (pnum p)) as [[i f]|]; [|exact H].
    destruct (negb (wire_type_fits f (pwt p))); [exact H|].
    destruct (decode_value f1 sc f p) as [v|] eqn:E; cbn [bind] in H; [|discriminate].
    rewrite (decode_value_mono _ _ _ E Hl). exact H.
  Qed.

  Lemma fold_mono cd : forall ps o o',
    fold_steps f1 sc cd o ps = Ok o' -> (forall p, In p ps -> (length (pbytes p) < f2)%nat) ->
    fold_steps f2 sc cd o ps = Ok o'.
  Proof.
    induction ps as [|p ps IH]; intros o o' H Hl; [exact H|].
    cbn [fold_steps] in *.
    destruct (step f1 sc cd o p) as [o1|] eqn:E; cbn [bind] in H; [|discriminate].
    rewrite (step_mono _ _ _ _ E (Hl p (or_introl eq_refl))). cbn [bind].
    apply IH; [exact H|]. intros q Hq. apply Hl. right. exact Hq.
  Qed.
End Mono.

Theorem load_mono : forall f1 f2 sc o s r,
  load f1 sc o s None = Ok r -> (length s < f2)%nat -> load f2 sc o s None = Ok r.
Proof.
  induction f1 as [|f1 IH]; intros f2 sc o s r H Hl; [discriminate|].
  destruct f2 as [|f2]; [lia|].
  rewrite load_run in *.
  destruct (run f1 sc (get_class sc (ocls o)) (S (length s)) (touch o) s) as [o'|] eqn:Hr; cbn [bind] in H; [|discriminate].
  apply run_ok in Hr as (ps & Hrec & Hfold).
  rewrite (run_of_records _ _ _ _ _ Hrec) by lia.
  rewrite (fold_mono f1 f2 sc (fun o s r => IH f2 sc o s r) _ _ _ _ Hfold); [exact H|].
  intros p Hp. pose proof (records_length _ _ Hrec p Hp). lia.
Qed.

Lemma fold_fuel f1 f2 sc cd ps o o' :
  fold_steps f1 sc cd o ps = Ok o' -> (forall p, In p ps -> (length (pbytes p) < f2)%nat) ->
  fold_steps f2 sc cd o ps = Ok o'.
Proof. apply fold_mono. intros. eapply load_mono; eassumption. Qed.

(* ---- C08_known_undisturbed ---- *)
Lemma unknown_raw_known cd ps : unknown_raw cd (filter (known cd) ps) = [].
Proof.
  unfold unknown_raw, raw_of. induction ps as [|p ps IH]; [reflexivity|].
  cbn [filter]. unfold known at 1. destruct (is_unknown cd p) eqn:Hu; cbn [negb]; [exact IH|].
  cbn [filter]. rewrite Hu. exact IH.
Qed.

Lemma known_raw_eq cd ps : known_raw cd ps = raw_of (filter (known cd) ps).
Proof. reflexivity. Qed.

Lemma touch_new_unk sc c : set_unk (touch (new sc c)) [] = touch (new sc c).
Proof. reflexivity. Qed.

(* deleting the unknown records changes nothing but _unknown_fields ... *)
Theorem known_undisturbed sc c bs m :
  parse sc c bs = Ok m ->
  exists ps, records bs ps /\
             parse sc c (known_raw (get_class sc c) ps) = Ok (clear_unk m) /\
             m = set_unk (clear_unk m) (unknown_raw (get_class sc c) ps).
Proof.
  intros H. apply parse_fold in H as (ps & Hrec & Hfold). exists ps. split; [exact Hrec|].
  set (cd := get_class sc c) in *.
  rewrite <- touch_new_unk, fold_split in Hfold.
  destruct (fold_steps (length bs) sc cd (set_unk (touch (new sc c)) []) (filter (known cd) ps)) as [m'|] eqn:Hk;
    cbn [rmap] in Hfold; [|discriminate].
  injection Hfold as <-. cbn [app].
  pose proof (fold_shape _ _ _ _ _ _ Hk) as [_ Hu]. rewrite unknown_raw_known in Hu. cbn [ounk app] in Hu.
  assert (Hm' : clear_unk (set_unk m' (unknown_raw cd ps)) = m').
  { destruct m' as [c' raw' sow' unk' cur']. cbn in Hu. subst unk'. reflexivity. }
  rewrite Hm'. split; [|reflexivity].
  apply parse_fold. exists (filter (known cd) ps).
  pose proof (records_filter (known cd) _ _ Hrec) as Hrec'. split; [exact Hrec'|].
  rewrite touch_new_unk in Hk. eapply fold_fuel; [exact Hk|].
  intros p Hp. apply (records_length _ _ Hrec' p Hp).
Qed.

(* ... and inserting records the class does not know never makes parsing fail or change *)
Theorem known_undisturbed_conv sc c bs ps m' :
  records bs ps ->
  parse sc c (known_raw (get_class sc c) ps) = Ok m' ->
  parse sc c bs = Ok (set_unk m' (unknown_raw (get_class sc c) ps)).
Proof.
  intros Hrec H. set (cd := get_class sc c) in *.
  apply parse_fold in H as (ps' & Hrec' & Hfold).
  pose proof (records_filter (known cd) _ _ Hrec) as Hrf.
  rewrite known_raw_eq in Hrec'. rewrite (records_det _ _ Hrec' _ Hrf) in Hfold. clear ps' Hrec'.
  apply parse_fold. exists ps. split; [exact Hrec|].
  rewrite <- touch_new_unk, fold_split. fold cd.
  rewrite touch_new_unk.
  erewrite fold_fuel; [reflexivity | exact Hfold |].
  intros p Hp. apply filter_In in Hp as [Hp _]. apply (records_length _ _ Hrec p Hp).
Qed.
