(* Lemmas about Model/Casing.v (C19), part 4: PascalCase is idempotent under pascal_stable. *)
From BP Require Import Base.Prelude Model.Casing Proofs.BytesP Proofs.CasingP Proofs.CasingP2 Proofs.CasingP3.

Lemma capitalize_idem w : capitalize (capitalize w) = capitalize w.
Proof.
  destruct w as [|c r]; [reflexivity|]. cbn [capitalize]. rewrite to_upper_idem, lower_idem. reflexivity.
Qed.

Lemma capitalize_app a x : a <> [] -> capitalize (a ++ x) = capitalize a ++ lower x.
Proof. destruct a as [|c r]; [intros N; contradiction N; reflexivity|]. intros _. cbn [app capitalize]. rewrite lower_app. reflexivity. Qed.

Lemma to_upper_digit c : is_digit_b c = true -> to_upper c = c.
Proof. unfold is_digit_b. pose proof (to_upper_class c) as T. destruct (classify c); try discriminate. intros _. exact T. Qed.

Lemma capitalize_digs d : digs d -> capitalize d = d.
Proof.
  destruct d as [|c r]; [reflexivity|]. intros H. pose proof H as H0. unfold digs in H. cbn [forallb] in H. apply andb_true_iff in H.
  cbn [capitalize]. rewrite (to_upper_digit c (proj1 H)), (lower_fix_digs r (proj2 H)). reflexivity.
Qed.

Definition pst (b : bool) (s : st) : Prop :=
  if b then exists u, s = SU [] u /\ capitalize [u] = [u]
  else (s = S0 \/ exists w, pend s w /\ capitalize w = w /\ w <> []).

Lemma pst_chain b s : pst b s -> chain_st b s.
Proof.
  destruct b; cbn [pst chain_st].
  - intros (u & -> & _). exists u. reflexivity.
  - intros [->|(w & P & _)]; [left; reflexivity|right; exists w; exact P].
Qed.

Definition capcat (ws : list (list byte)) : list byte := concat (map capitalize ws).

Lemma capcat_app a b : capcat (a ++ b) = capcat a ++ capcat b.
Proof. unfold capcat. rewrite map_app, concat_app. reflexivity. Qed.

Lemma lword_digit_start w : lword w -> starts_digit w = true -> digs w.
Proof.
  intros (l & d & -> & Hl & Hd & N) S. destruct l as [|c l']; [exact Hd|]. exfalso.
  cbn [app starts_digit] in S. unfold lows in Hl. cbn [forallb] in Hl. apply andb_true_iff in Hl.
  exact (lower_not_digit c (proj1 Hl) S).
Qed.

Lemma run_cap_p w b s : lword w -> negb b || starts_digit w || second_lower w = true -> pst b s ->
  exists o s', run s (capitalize w) = (o, s')
    /\ pst (single w && negb (starts_digit w)) s'
    /\ capcat o ++ capcat (flush s') = capcat (flush s) ++ capitalize w.
Proof.
  intros Hw Hb Hs. destruct (starts_digit w) eqn:Sd.
  - (* a word of digits: it extends whatever word is in the buffer *)
    pose proof (lword_digit_start w Hw Sd) as Hd. pose proof (lword_ne w Hw) as N.
    rewrite (capitalize_digs w Hd). rewrite andb_false_r.
    destruct b; cbn [pst] in Hs.
    + destruct Hs as (u0 & -> & Cu). destruct w as [|c d']; [contradiction N; reflexivity|].
      pose proof Hd as Hd0. unfold digs in Hd. cbn [forallb] in Hd. apply andb_true_iff in Hd. destruct Hd as [Hc Hd].
      assert (classify c = Digit) as E by (unfold is_digit_b in Hc; destruct (classify c); try discriminate Hc; reflexivity).
      rewrite run_cons, step_SU_digit by exact E. cbn [fst snd]. rewrite run_SD_digs by exact Hd. cbn [fst snd app].
      exists [], (SD ([u0; c] ++ d')). split; [reflexivity|]. split.
      * right. exists ([u0; c] ++ d'). split; [right; reflexivity|]. split; [|discriminate].
        change ([u0; c] ++ d') with ([u0] ++ c :: d'). rewrite capitalize_app by discriminate. rewrite Cu, (lower_fix_digs _ Hd0). reflexivity.
      * unfold capcat. cbn [flush map concat app]. rewrite !app_nil_r.
        change (u0 :: c :: d') with ([u0] ++ c :: d'). rewrite capitalize_app by discriminate. rewrite (lower_fix_digs _ Hd0). reflexivity.
    + destruct Hs as [->|(w0 & P & C0 & N0)].
      * destruct (run_S0_lword w Hw) as (s' & R & P). exists [], s'. split; [exact R|]. split.
        -- right. exists w. split; [exact P|]. split; [apply capitalize_digs, Hd|exact N].
        -- rewrite (pend_flush s' w P). unfold capcat. cbn [flush map concat app]. rewrite app_nil_r. apply capitalize_digs, Hd.
      * assert (exists s', run s w = ([], s') /\ pend s' (w0 ++ w)) as (s' & R & P').
        { destruct P as [->| ->].
          - destruct (run_SL_lows_digs [] w w0 eq_refl Hd) as (s' & R & P'). exists s'. split; assumption.
          - rewrite run_SD_digs by exact Hd. exists (SD (w0 ++ w)). split; [reflexivity|right; reflexivity]. }
        exists [], s'. split; [exact R|]. split.
        -- right. exists (w0 ++ w). split; [exact P'|]. split.
           ++ rewrite capitalize_app by exact N0. rewrite C0, (lower_fix_digs _ Hd). reflexivity.
           ++ destruct w0; [contradiction N0; reflexivity|discriminate].
        -- rewrite (pend_flush s' _ P'), (pend_flush s _ P). unfold capcat. cbn [map concat app]. rewrite !app_nil_r.
           rewrite capitalize_app by exact N0. rewrite (lower_fix_digs _ Hd). reflexivity.
  - (* a word that starts with a letter: Proofs/CasingP2.v, run_cap *)
    rewrite orb_false_r in Hb. rewrite andb_true_r.
    destruct (run_cap w b s Hw Sd Hb (pst_chain b s Hs)) as (s' & R & C & F).
    exists (flush s), s'. split; [exact R|]. split.
    + destruct (single w) eqn:Sg; cbn [chain_st pst] in *.
      * destruct C as (u & ->). exists u. split; [reflexivity|]. cbn [flush app] in F. injection F as F.
        rewrite F. apply capitalize_idem.
      * destruct C as [->|(w' & P)]; [discriminate F|]. right. exists w'. split; [exact P|].
        rewrite (pend_flush s' w' P) in F. injection F as ->. split; [apply capitalize_idem|].
        pose proof (lword_ne w Hw) as N. destruct w; [contradiction N; reflexivity|discriminate].
    + rewrite F. unfold capcat at 2. cbn [map concat]. rewrite app_nil_r, capitalize_idem. reflexivity.
Qed.

Lemma scan_caps_p ws : forall b s, Forall lword ws -> pascal_stable_from b ws = true -> pst b s ->
  capcat (scan s (concat (map capitalize ws))) = capcat (flush s) ++ concat (map capitalize ws).
Proof.
  induction ws as [|w r IH]; intros b s H K Hs.
  - cbn. rewrite app_nil_r. reflexivity.
  - inversion H as [|? ? Hw Hr]; subst. cbn [pascal_stable_from] in K. apply andb_true_iff in K. destruct K as [K1 K2].
    destruct (run_cap_p w b s Hw K1 Hs) as (o & s' & R & P & E).
    cbn [map concat]. rewrite scan_app, R. cbn [fst snd]. rewrite capcat_app, (IH _ s' Hr K2 P).
    rewrite !app_assoc. rewrite E. reflexivity.
Qed.

Lemma pascal_idem s : pascal_stable s = true -> pascal_case (pascal_case s) = pascal_case s.
Proof.
  unfold pascal_stable, pascal_stable_ws. intros K. pose proof (words_lwords s) as H.
  unfold pascal_case at 1. rewrite pascal_lws. unfold words.
  exact (scan_caps_p _ false S0 H K (or_introl eq_refl)).
Qed.

(* ---------------------------------------------------------------- bounded exactness of the side conditions *)
Fixpoint all_strings (alphabet : list byte) (n : nat) (s : list byte) (f : list byte -> bool) : bool :=
  f s && match n with
         | O => true
         | S n' => forallb (fun c => all_strings alphabet n' (s ++ [c]) f) alphabet
         end.

(* the three decidable side conditions say exactly when the unconditional statement holds *)
Definition side_conditions_exact (s : list byte) : bool :=
  let F := safe_snake_case s in
  let P := pascal_case s in
  Bool.eqb (key_safe s) (str_eqb (safe_snake_case (camel_key F)) F)
  && Bool.eqb (pascal_stable s) (str_eqb (pascal_case P) P)
  && Bool.eqb (class_name_ok s) (is_identifier P && negb (is_keyword P)).

Definition alphabet8 : list byte := [x61; x62; x41; x42; x30; x31; x5f; x2e].   (* a b A B 0 1 _ . *)

Lemma side_conditions_exact_len5 : all_strings alphabet8 5 [] side_conditions_exact = true.
Proof. vm_compute. reflexivity. Qed.

(* ---------------------------------------------------------------- .rstrip("_") never changes a to_dict key *)
Lemma no_us_lowercase_first x : forallb (fun c => negb (is_us c)) (lowercase_first x) = forallb (fun c => negb (is_us c)) x.
Proof. destruct x as [|c r]; [reflexivity|]. cbn [lowercase_first forallb]. rewrite is_us_to_lower. reflexivity. Qed.

Lemma camel_key_is_camel_case f : camel_key f = camel_case f.
Proof.
  unfold camel_key. apply rstrip_us_no_us. unfold camel_case. rewrite no_us_lowercase_first, pascal_lws.
  apply no_us_concat_cap, words_lwords.
Qed.

Lemma snake_key_is_snake_case f : snake_key f = snake_case f.
Proof. apply snake_key_snake. Qed.

(* generated field names that are key_safe have pairwise distinct camelCase keys *)
Lemma camel_keys_distinct s1 s2 : key_safe s1 = true -> key_safe s2 = true ->
  camel_key (safe_snake_case s1) = camel_key (safe_snake_case s2) -> safe_snake_case s1 = safe_snake_case s2.
Proof.
  intros K1 K2 E. rewrite <- (camel_key_back s1 K1), <- (camel_key_back s2 K2), E. reflexivity.
Qed.
