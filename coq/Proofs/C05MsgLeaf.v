(* C05, message level, leaves in the vocabulary of the message-level theorems: for one scalar / enum / map key
   of a field of a matched schema, the text of what to_dict writes is accepted by the specified reference parser
   as the abstract value of the Python value (composition of Proofs/C05Model.v with the text path and with
   Proofs/EnumP.v for enums). *)
From BP Require Import Base.Prelude Model.Types Model.Float Model.Object Model.WellFormed Model.TimeCore Spec.Time.
From BP Require Model.Json Model.Enum Model.Casing Spec.JsonMap Model.Time.
From BP Require Import gen.Tables.
From BP Require Import Proofs.BytesP Proofs.C04Def Proofs.C04ScalarP Proofs.C04ElemP Proofs.C04FieldP.
From BP Require Proofs.EnumP.
From BP Require Import Proofs.C05Casing Proofs.C05Leaf Proofs.C05Model Proofs.C05MsgDef Proofs.C05MsgSpec.
From Coq Require Import Lia ZifyBool.

(* ---- the text path leaves every scalar form alone ---- *)
Lemma text_scalar sc t p v :
  tmem t scalar_ptypes = true -> pyty_fits (length (classes sc)) (length (enums sc)) t p = true ->
  scalar_in_range t v = true -> J.text_rt (J.scalar_to_json sc t p v) = J.scalar_to_json sc t p v.
Proof.
  intros Ht Hp Hr. unfold J.scalar_to_json.
  destruct t; try discriminate Ht; C04ScalarP.eval_tables;
    destruct v; try discriminate Hr; destruct p; try discriminate Hp;
    cbn [J.raw_json J.text_rt]; rewrite ?text_dump_float, ?text_dump_enum; reflexivity.
Qed.

(* ---- enums: the spec's name lookup is C20's first_name ---- *)
Lemma enum_name_first ms z : S.enum_name ms z = EnumP.first_name ms z.
Proof.
  unfold EnumP.first_name. induction ms as [|[n v] ms IH]; [reflexivity|].
  cbn [S.enum_name find fst snd]. destruct (v =? z); [reflexivity|exact IH].
Qed.

Lemma enum_number_in ms n v : NoDup (map fst ms) -> In (n, v) ms -> S.enum_number ms n = Some v.
Proof.
  induction ms as [|[nm v'] ms IH]; intros N I; [destruct I|].
  cbn [S.enum_number]. cbn [map fst] in N. inversion N as [|? ? N1 N2]; subst.
  destruct I as [E|I].
  - inversion E; subst. rewrite (proj2 (bytes_eqb_eq n n) eq_refl). reflexivity.
  - destruct (bytes_eqb nm n) eqn:B.
    + apply bytes_eqb_eq in B. subst nm. exfalso. apply N1. apply in_map_iff. exists (n, v). split; [reflexivity|exact I].
    + apply IH; assumption.
Qed.

Lemma enum_ok_parts ms : enum_ok ms = true ->
  NoDup (map fst ms) /\ Enum.members_of ms = ms.
Proof.
  unfold enum_ok. intros H. apply andb_prop in H as [H1 H2]. apply nodup_bytes_NoDup in H1.
  split; [exact H1|apply EnumP.members_of_id; assumption].
Qed.

Section Leaf.
  Variable sc : schema.
  Variable js : S.jschema.
  Variable off : nat.
  Hypothesis JM : js_matches off sc js = true.

  Lemma enum_cls_build e : J.enum_cls sc e = Enum.build (S.jenum js e) /\ NoDup (map fst (S.jenum js e)).
  Proof.
    destruct (js_matches_enum off sc js e JM) as [E K]. destruct (enum_ok_parts _ K) as [N M].
    split; [|exact N]. unfold J.enum_cls, Enum.class_of. rewrite <- E, M. reflexivity.
  Qed.

  (* what to_dict writes for an enum number is taken by the reference parser as that number *)
  Lemma enum_emit e z : int_in (- 2 ^ 31) (2 ^ 31) z = true ->
    exists j, ct (J.dump_enum sc e z) = Some j /\ S.acc_val js (S.JEnum e) j = Some (S.AEnum z).
  Proof.
    intros R. destruct (enum_cls_build e) as [B N].
    unfold J.dump_enum, Enum.to_json_el. rewrite B, EnumP.try_value_canon. unfold EnumP.canon. cbn [fst].
    destruct (EnumP.first_name (S.jenum js e) z) as [nm|] eqn:F.
    - exists (S.JStr nm). split; [reflexivity|]. cbn [S.acc_val].
      rewrite (enum_number_in _ nm z N (EnumP.first_name_in _ _ _ F)). reflexivity.
    - exists (S.JNum z). split; [reflexivity|]. cbn [S.acc_val]. unfold int_in in R.
      replace ((- 2 ^ 31 <=? z) && (z <? 2 ^ 31)) with true by lia. reflexivity.
  Qed.

  (* ... and the canonical printer writes exactly that *)
  Lemma enum_emit_canonical e z :
    ct (J.dump_enum sc e z) = S.spec_val js (S.JEnum e) (S.AEnum z).
  Proof.
    destruct (enum_cls_build e) as [B N].
    unfold J.dump_enum, Enum.to_json_el. rewrite B, EnumP.try_value_canon. unfold EnumP.canon. cbn [fst S.spec_val].
    rewrite enum_name_first. destruct (EnumP.first_name (S.jenum js e) z); reflexivity.
  Qed.

  (* one scalar of proto type t annotated p (enum included) *)
  Lemma scalar_emit t p v :
    tmem t scalar_ptypes = true -> pyty_fits (length (classes sc)) (length (enums sc)) t p = true ->
    scalar_in_range t v = true -> nan_canonical v = true ->
    exists j, ct (J.scalar_to_json sc t p v) = Some j /\
              S.acc_val js (kind_of_elem off t p) j = Some (abs_elem sc p v).
  Proof.
    intros Ht Hp Hr Hn. unfold ct. rewrite (text_scalar sc t p v Ht Hp Hr).
    destruct (skind_of t) as [k|] eqn:K.
    - destruct (model_scalar_emit_accepted sc t k p v K Hr Hn) as (a & j & A & C & Acc).
      exists j. split; [exact C|].
      assert (Kd : kind_of_elem off t p = S.JScalar k).
      { unfold kind_of_elem, sk. rewrite K. destruct t; try discriminate K; destruct p; try discriminate Hp; reflexivity. }
      rewrite Kd, acc_val_scalar, Acc. f_equal.
      destruct t; try discriminate K; destruct v; try discriminate Hr; destruct p; try discriminate Hp;
        cbn [abs_scalar] in A; inversion A; reflexivity.
    - destruct t; try discriminate K; try discriminate Ht.
      destruct v; try discriminate Hr. destruct p; try discriminate Hp.
      cbn [scalar_in_range] in Hr.
      assert (E : J.scalar_to_json sc TEnum (PyEnum e) (PInt z) = J.dump_enum sc e z).
      { unfold J.scalar_to_json. C04ScalarP.eval_tables. reflexivity. }
      rewrite E. destruct (enum_emit e z Hr) as (j & C & A). exists j. split; [|exact A].
      unfold ct in C. rewrite text_dump_enum in C. exact C.
  Qed.

  (* map keys *)
  Lemma key_emit kt pk k :
    map_key_ok kt = true -> pyty_fits (length (classes sc)) (length (enums sc)) kt pk = true ->
    scalar_in_range kt k = true ->
    S.acc_key (sk kt) (J.key_text (J.raw_json k)) = Some (abs_elem sc pk k).
  Proof.
    intros Hk Hp Hr.
    destruct kt; try discriminate Hk; destruct k; try discriminate Hr; destruct pk; try discriminate Hp;
      cbn [J.raw_json J.key_text sk skind_of S.acc_key abs_elem];
      try (change (J.str_of_Z z) with (S.int_str z); rewrite parse_int_int_str;
           cbn [scalar_in_range] in Hr; unfold int_in in Hr; unfold S.in_int_range, S.int_range;
           match goal with |- (if ?c then _ else _) = _ => replace c with true by lia end; reflexivity);
      try reflexivity.
    destruct b; reflexivity.
  Qed.
End Leaf.

(* Timestamp / Duration strings *)
Lemma time_emit js us : (dt_min_us <=? us) && (us <=? dt_max_us) = true ->
  S.acc_val js S.JTimestamp (S.JStr (J.ts_text us)) = Some (S.ATime (fst (ts_of_us us)) (snd (ts_of_us us))).
Proof.
  intros R. cbn [S.acc_val]. destruct (model_timestamp_emit_accepted us R) as [P _]. rewrite P.
  unfold ts_of_us. reflexivity.
Qed.
Lemma dur_emit js us : (- 315576000000000000 <=? us) && (us <=? 315576000000000000) = true ->
  S.acc_val js S.JDuration (S.JStr (Model.Time.delta_to_json us)) =
  Some (S.ADur (fst (dur_of_us us)) (snd (dur_of_us us))).
Proof.
  intros R. cbn [S.acc_val]. destruct (model_duration_emit_accepted us R) as (P & Q & _). rewrite P.
  unfold dur_of_us in *. cbn [fst snd] in *. rewrite Q. reflexivity.
Qed.
