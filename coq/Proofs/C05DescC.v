(* C05, descriptor side, part C: js_matches for everything the plugin emits, and the two corollaries -
   C05_emit / C05_accept for the generated schema against the reference-side schema OF THE DESCRIPTOR. *)
From BP Require Import Base.Prelude Model.Types Spec.Descriptor Model.Object Model.WellFormed Model.C01Def.
From BP Require Import Model.Plugin Proofs.PluginP.
From BP Require Import Model.C03Bridge Model.C03Chain Model.C05Desc.
From BP Require Import Proofs.C03BridgeA Proofs.C03BridgeB Proofs.C03BridgeC Proofs.C03BridgeD Proofs.C03ChainB.
From BP Require Import Proofs.C05DescA Proofs.C05DescB.
From BP Require Model.Json Model.Casing Proofs.C04Def.
From BP Require Import Proofs.C05Casing Proofs.C05MsgDef Proofs.C05AccDef Proofs.C05Model.
From BP Require Proofs.C05MsgEmit Proofs.C05AccMain.
From Coq Require Import Lia.

(* ---- enums ---- *)
Lemma members_renamed emn p vals :
  forallb (fun nv => str_eqb (emn (fst nv) (flat p)) (fst nv)) vals = true ->
  members_eqb (map (fun nv : str * Z => (emn (fst nv) (flat p), snd nv)) vals) vals = true.
Proof.
  induction vals as [|[n v] r IH]; intros H; [reflexivity|]. cbn [forallb fst] in H. apply andb_prop in H as [H1 H2].
  cbn [map members_eqb]. unfold member_eqb. cbn [fst snd]. change bytes_eqb with str_eqb.
  now rewrite H1, Z.eqb_refl, (IH H2).
Qed.

Lemma enums_match_renamed emn (l : list (str * (list str * enum_d))) :
  forallb (fun e => enum_json_names_ok emn (fst (snd e)) (snd (snd e))) l = true ->
  enums_match (map mkE (map (fun e => renamed emn (fst (snd e)) (snd (snd e))) l))
              (map (fun e => ed_values (snd (snd e))) l) = true.
Proof.
  induction l as [|e r IH]; intros H; [reflexivity|]. cbn [forallb] in H. apply andb_prop in H as [H1 H2].
  unfold enum_json_names_ok in H1. apply andb_prop in H1 as [Hok Hst].
  cbn [map enums_match emembers]. unfold renamed at 1. now rewrite (members_renamed emn _ _ Hst), Hok, (IH H2).
Qed.

Section Main.
  Variable class_name : str -> str.
  Variable enum_member_name : str -> str -> str.
  Variable D : descriptor.
  Let field_name := Casing.safe_snake_case.

  Lemma jschema_nclasses : length (JM.jclasses (jschema_of_descriptor D)) = length (gen_msgs D).
  Proof. unfold jschema_of_descriptor. cbn [JM.jclasses]. apply map_length. Qed.

  (* for the class table the descriptor denotes *)
  Theorem js_matches_of_table t :
    class_table_of field_name class_name enum_member_name D = Some t ->
    protoc_wf D = true -> class_nodup class_name D = true -> bridge_ok D = true ->
    json_names_ok enum_member_name D = true ->
    js_matches NB (schema_of_table t) (jschema_of_descriptor D) = true.
  Proof.
    intros Ht Hwf Hcn Hbr Hj. unfold json_names_ok in Hj. apply andb_prop in Hj as [Hjm Hje].
    unfold js_matches. apply andb_true_intro. split.
    - change (enums (schema_of_table t)) with (map mkE (enum_rows (class_rows t))).
      rewrite (gen_enum_rows field_name class_name enum_member_name D t Ht).
      unfold jschema_of_descriptor. cbn [JM.jenums]. now apply enums_match_renamed.
    - rewrite jschema_nclasses. apply forallb_forall. intros c Hc. apply in_seq in Hc.
      destruct (nth_error (gen_msgs D) c) as [e|] eqn:He; [|apply nth_error_None in He; lia].
      assert (Ejc : JM.jclass (jschema_of_descriptor D) c = jclass_of_desc D e).
      { unfold JM.jclass, jschema_of_descriptor. cbn [JM.jclasses]. apply List.nth_error_nth.
        now rewrite nth_error_map, He. }
      rewrite Ejc, Nat.add_comm.
      destruct (gen_class_at field_name class_name enum_member_name D t Ht c e He) as (k & fs & -> & F).
      pose proof (nth_error_In _ _ He) as Hin.
      destruct (gen_msgs_in D e Hin) as [Hout Hpm]. destruct e as [pkg [p m]]. cbn [fst snd] in *.
      destruct (pkg_msgs_origin D pkg p m Hpm) as (f & Hf & <- & Hm & Hme).
      rewrite forallb_forall in Hjm. specialize (Hjm _ Hin). cbn [snd] in Hjm.
      apply (class_matches_tr class_name enum_member_name D t Ht Hcn Hwf Hbr f p m fs k); try assumption.
      now apply (output_package_not_gp D).
  Qed.

  Hypothesis Hwf : protoc_wf D = true.
  Hypothesis Hn : names_ok field_name class_name enum_member_name D = true.
  Hypothesis Hbr : bridge_ok D = true.
  Hypothesis Hj : json_names_ok enum_member_name D = true.

  Lemma names_class_nodup : class_nodup class_name D = true.
  Proof.
    unfold names_ok in Hn. repeat match goal with H : _ && _ = true |- _ => apply andb_prop in H as [? ?] end. assumption.
  Qed.

  (* C05_generated_js_matches *)
  Theorem generated_js_matches :
    exists t, class_table_of field_name class_name enum_member_name D = Some t
      /\ reflect (compile field_name class_name enum_member_name D) = Ok t
      /\ length (JM.jclasses (jschema_of_descriptor D)) = n_msgs t
      /\ js_matches NB (schema_of_table t) (jschema_of_descriptor D) = true.
  Proof.
    destruct (generated_schema_ok field_name class_name enum_member_name D Hwf Hn Hbr) as (t & Ht & Hc & _ & _).
    exists t. split; [assumption|]. split; [assumption|]. split.
    - rewrite jschema_nclasses. unfold n_msgs. apply (n_gen_msgs field_name class_name enum_member_name D t Ht).
    - apply js_matches_of_table; try assumption. apply names_class_nodup.
  Qed.

  (* C05_generated_emit / C05_generated_accept *)
  Theorem generated_emit_accept :
    exists t, reflect (compile field_name class_name enum_member_name D) = Ok t /\
      let sc := schema_of_table t in
      let js := jschema_of_descriptor D in
      length (JM.jclasses js) = n_msgs t /\
      (forall c o, emit_good sc o = true -> ocls o = (c + NB)%nat -> (c < n_msgs t)%nat ->
         model_emit_accepts sc js c o = Some (abs_obj sc o)) /\
      (gen_keys_ok Json.CAMEL field_name D = true ->
       forall c a, wf_aval sc js NB (JM.JMsg c) a = true -> model_reads_canonical sc js c (c + NB) a = Some a).
  Proof.
    destruct (generated_side_conditions field_name class_name enum_member_name D Hwf Hn Hbr)
      as (t & Ht & Hc & _ & _ & Hw & _ & _ & _ & _ & Hkeys & _).
    pose proof (js_matches_of_table t Ht Hwf names_class_nodup Hbr Hj) as JMt.
    assert (Hlen : length (JM.jclasses (jschema_of_descriptor D)) = n_msgs t).
    { rewrite jschema_nclasses. unfold n_msgs. apply (n_gen_msgs field_name class_name enum_member_name D t Ht). }
    exists t. split; [assumption|]. cbv zeta. split; [exact Hlen|]. split.
    - intros c o Hg Hcls Hlt. apply (C05MsgEmit.emit_accepted _ _ NB JMt Hw c o Hg Hcls). now rewrite Hlen.
    - intros Hk c a Ha. rewrite <- Hkeys in Hk. now apply C05AccMain.reads_canonical.
  Qed.

  Theorem generated_emit :
    exists t, reflect (compile field_name class_name enum_member_name D) = Ok t /\
      let sc := schema_of_table t in
      let js := jschema_of_descriptor D in
      forall c o, emit_good sc o = true -> ocls o = (c + NB)%nat -> (c < n_msgs t)%nat ->
        model_emit_accepts sc js c o = Some (abs_obj sc o).
  Proof. destruct generated_emit_accept as (t & Hc & _ & He & _). exists t. split; [exact Hc | exact He]. Qed.

  Theorem generated_accept :
    gen_keys_ok Json.CAMEL field_name D = true ->
    exists t, reflect (compile field_name class_name enum_member_name D) = Ok t /\
      let sc := schema_of_table t in
      let js := jschema_of_descriptor D in
      forall c a, wf_aval sc js NB (JM.JMsg c) a = true -> model_reads_canonical sc js c (c + NB) a = Some a.
  Proof. intros Hk. destruct generated_emit_accept as (t & Hc & _ & _ & Ha). exists t. split; [exact Hc | exact (Ha Hk)]. Qed.
End Main.
