(* C01 layer 3a — the decoder's loop: Message.load IS the named loop of Model/C01Def.v (by conversion);
   one complete record at the head of the stream costs one iteration and applies [step];
   [feeds]: a byte string made of complete records drives the loop from one object state to another. *)
From Coq Require Import ZArith List Bool Lia ZifyBool.
From BP Require Import Base.Prelude Model.Types Model.Varint Model.Scalar Model.Float Model.Utf8.
From BP Require Import Model.Object Model.Eq Model.TimeCore Model.Encode Model.Decode Model.WellFormed Model.C01Def.
From BP Require Import gen.Tables Proofs.BytesP Proofs.VarintP Proofs.C01Frame.

(* a behavioural edit of Decode.load that is not mirrored in C01Def breaks this proof *)
Lemma load_unfold fuel' sc c raw sow unk cur s :
  load (S fuel') sc (Obj c raw sow unk cur) s None
  = loop fuel' sc None (get_class sc c) (S (length s)) (Obj c raw true unk cur) s 0.
Proof. reflexivity. Qed.

Section Loop.
  Variables (fuel' : nat) (sc : schema) (cd : cdesc).

  Lemma step_k_bind {A} o p (k : obj -> result A) :
    step_k fuel' sc cd o p k = (do o' <- step fuel' sc cd o p; k o').
  Proof.
    unfold step, step_k. destruct o as [c raw sow unk cur].
    destruct (field_by_number cd (pnum p)) as [[i f]|]; [|reflexivity].
    destruct (negb (wire_type_fits f (pwt p))); [reflexivity|].
    destruct (decode_value fuel' sc f p) as [value|e]; [|reflexivity]. cbn [bind].
    destruct (getattr sc (Obj c raw sow unk cur) i) as [o1 [cv|e]].
    - destruct o1 as [c1 raw1 sow1 unk1 cur1].
      destruct (ptype_eqb (fty f) TMap).
      + destruct value; try reflexivity. destruct cv; try reflexivity.
        destruct (getattr sc o 0) as [? [k0|?]]; [|reflexivity].
        destruct (getattr sc o 1) as [? [v0|?]]; reflexivity.
      + destruct cv; reflexivity.
    - destruct (setattr sc (Obj c raw sow unk cur) i (default_of sc f)) as [c1 raw1 sow1 unk1 cur1].
      destruct (ptype_eqb (fty f) TMap).
      + destruct value; try reflexivity. destruct (default_of sc f); try reflexivity.
        destruct (getattr sc o 0) as [? [k0|?]]; [|reflexivity].
        destruct (getattr sc o 1) as [? [v0|?]]; reflexivity.
      + destruct (default_of sc f); reflexivity.
  Qed.

  (* one record at the head of the stream: one iteration, one [step] *)
  Lemma loop_reads bs p rest n o :
    reads bs p ->
    loop fuel' sc None cd (S n) o (bs ++ rest) 0
    = (do o' <- step fuel' sc cd o p; loop fuel' sc None cd n o' rest 0).
  Proof.
    intros (Hne & _ & Hr). specialize (Hr fuel' rest). unfold frame1 in Hr.
    cbn [loop]. destruct bs as [|b0 bs']; [congruence|]. cbn [app] in *.
    destruct (load_varint (b0 :: bs' ++ rest)) as [[[nw r] s1]|e]; [|discriminate]. cbn [bind] in *.
    rewrite Hr. cbn [bind]. apply step_k_bind.
  Qed.

  (* [bs] consists of complete records that take the object from [o] to [o'] *)
  Definition feeds (o : obj) (bs : list byte) (o' : obj) : Prop :=
    exists m, (m <= length bs)%nat /\
              forall rest n, loop fuel' sc None cd (m + n) o (bs ++ rest) 0 = loop fuel' sc None cd n o' rest 0.

  Lemma feeds_nil o : feeds o [] o.
  Proof. exists O. split; [cbn; lia|]. intros rest n. reflexivity. Qed.

  Lemma feeds_app o1 o2 o3 a b : feeds o1 a o2 -> feeds o2 b o3 -> feeds o1 (a ++ b) o3.
  Proof.
    intros (m1 & L1 & H1) (m2 & L2 & H2). exists (m1 + m2)%nat. split; [rewrite app_length; lia|].
    intros rest n. rewrite <- app_assoc, <- Nat.add_assoc, H1, H2. reflexivity.
  Qed.

  Lemma feeds_one o bs p o' : reads bs p -> step fuel' sc cd o p = Ok o' -> feeds o bs o'.
  Proof.
    intros Hr Hs. exists 1%nat. split.
    - destruct Hr as (Hne & _). destruct bs; [congruence|cbn; lia].
    - intros rest n. change (1 + n)%nat with (S n). rewrite (loop_reads _ _ _ _ _ Hr), Hs. reflexivity.
  Qed.

  Lemma feeds_eq o bs o1 o2 : feeds o bs o1 -> o1 = o2 -> feeds o bs o2.
  Proof. intros H <-. exact H. Qed.

  Lemma feeds_run o bs o' : feeds o bs o' -> loop fuel' sc None cd (S (length bs)) o bs 0 = Ok (o', []).
  Proof.
    intros (m & Lm & H). specialize (H [] (S (length bs) - m)%nat).
    rewrite app_nil_r in H. replace (m + (S (length bs) - m))%nat with (S (length bs)) in H by lia.
    rewrite H. destruct (S (length bs) - m)%nat eqn:E; [lia|]. reflexivity.
  Qed.
End Loop.

(* Cls().parse(bs) when bs feeds a fresh (or any) object to o' *)
Lemma feeds_load fuel' sc c raw sow unk cur bs o' :
  feeds fuel' sc (get_class sc c) (Obj c raw true unk cur) bs o' ->
  load (S fuel') sc (Obj c raw sow unk cur) bs None = Ok (o', []).
Proof. intros H. rewrite load_unfold. apply feeds_run. exact H. Qed.

(* ---------- field lookup by number ---------- *)
Lemma nodup_z_notin x l : nodup_z (x :: l) = true -> ~ In x l.
Proof.
  cbn [nodup_z]. intros H Hin. apply andb_true_iff in H as [H _]. apply negb_true_iff in H.
  assert (existsb (Z.eqb x) l = true) by (apply existsb_exists; exists x; split; [exact Hin | apply Z.eqb_refl]).
  congruence.
Qed.

Definition fbn_go (num : Z) : nat -> list fdesc -> option (nat * fdesc) -> option (nat * fdesc) :=
  fix go (i : nat) (fs : list fdesc) (acc : option (nat * fdesc)) : option (nat * fdesc) :=
    match fs with
    | [] => acc
    | f :: fs' => go (S i) fs' (if fnum f =? num then Some (i, f) else acc)
    end.

Lemma fbn_go_cons num i f fs acc :
  fbn_go num i (f :: fs) acc = fbn_go num (S i) fs (if fnum f =? num then Some (i, f) else acc).
Proof. reflexivity. Qed.

Lemma field_by_number_fbn cd num : field_by_number cd num = fbn_go num 0 (cfields cd) None.
Proof. reflexivity. Qed.

Lemma fbn_go_notin num fs : forall i acc, ~ In num (map fnum fs) -> fbn_go num i fs acc = acc.
Proof.
  induction fs as [|f fs IH]; intros i acc Hni; [reflexivity|]. rewrite fbn_go_cons.
  rewrite IH by (intros Hin; apply Hni; right; exact Hin).
  replace (fnum f =? num) with false; [reflexivity|].
  symmetry. apply Z.eqb_neq. intros E. apply Hni. left. exact E.
Qed.

Lemma fbn_go_unique fs : forall k j acc f,
  nodup_z (map fnum fs) = true -> nth_error fs k = Some f ->
  fbn_go (fnum f) j fs acc = Some ((j + k)%nat, f).
Proof.
  induction fs as [|g fs IH]; intros k j acc f Hnd Hnth; [destruct k; discriminate|].
  destruct k as [|k]; cbn [nth_error] in Hnth; rewrite fbn_go_cons.
  - injection Hnth as ->. rewrite Z.eqb_refl. cbn [map] in Hnd.
    rewrite fbn_go_notin by (apply nodup_z_notin; exact Hnd). rewrite Nat.add_0_r. reflexivity.
  - cbn [map nodup_z] in Hnd. apply andb_true_iff in Hnd as [Hg Hnd].
    rewrite (IH k (S j) _ f Hnd Hnth). f_equal. f_equal. lia.
Qed.

Lemma field_by_number_unique cd i f :
  nodup_z (map fnum (cfields cd)) = true -> nth_error (cfields cd) i = Some f ->
  field_by_number cd (fnum f) = Some (i, f).
Proof. intros Hnd Hnth. rewrite field_by_number_fbn. apply (fbn_go_unique _ i 0%nat None f Hnd Hnth). Qed.
