(* C08: every byte string that is a concatenation of complete records in the sense of the
   wire-format specification (Spec/C08Wire.v) is accepted by the frame reader of the model:
   [records] holds of it, with the same numbers, wire types and byte extents. *)
From BP Require Import Base.Prelude Model.Types Model.Varint Model.Object Model.Decode Model.C08Step.
From BP Require Import Spec.Varint Proofs.VarintP Proofs.C08FrameP gen.Tables.
From Coq Require Import Lia.
From BP Require Import Spec.C08Wire.

Lemma tag_num num wt : 0 <= wt < 8 -> Z.shiftr (num * 8 + wt) 3 = num.
Proof.
  intros H. rewrite Z.shiftr_div_pow2 by lia. change (2 ^ 3) with 8.
  rewrite Z.div_add_l by lia. rewrite Z.div_small by lia. lia.
Qed.

Lemma tag_wt num wt : 0 <= wt < 8 -> Z.land (num * 8 + wt) 7 = wt.
Proof.
  intros H. change 7 with (Z.ones 3). rewrite Z.land_ones by lia. change (2 ^ 3) with 8.
  rewrite Z.add_comm, Z.mod_add by lia. apply Z.mod_small. lia.
Qed.

Lemma read_exactly_app payload rest n :
  Zlength payload = n -> read_exactly (payload ++ rest) n = Ok (payload, rest).
Proof.
  intros <-. unfold read_exactly, Zlength. rewrite app_length.
  replace ((0 <=? Z.of_nat (length payload)) && (Z.of_nat (length payload) <=? Z.of_nat (length payload + length rest)))
    with true by (symmetry; apply andb_true_iff; split; apply Z.leb_le; lia).
  rewrite Nat2Z.id, firstn_app_exact, skipn_app_exact. reflexivity.
Qed.

Lemma rep_len n bs : VarintRep n bs -> (1 <= length bs)%nat.
Proof. intros (Sh & _). apply shape_length_pos, Sh. Qed.

(* what the model's payload reader does on a specification-level record *)
Definition rec_ok (r : list byte) (num wt : Z) : Prop :=
  exists tagb body pi pb,
    r = tagb ++ body /\ VarintRep (num * 8 + wt) tagb /\ 0 <= wt < 8 /\ wt <> 4 /\ 1 <= num /\
    forall fuel rest raw, (length body < fuel)%nat ->
      load_field fuel (body ++ rest) (num * 8 + wt) raw = Ok (mkP num wt pi pb (raw ++ body), rest).

Definition stream_ok (inner : list byte) : Prop :=
  forall fuel' n number wire_type endb rest raw,
    0 <= number -> VarintRep (number * 8 + 4) endb ->
    (length inner + length endb <= n)%nat -> (length inner <= fuel')%nat ->
    groupV (load_field fuel') number wire_type n (inner ++ endb ++ rest) raw
    = Ok (mkP number wire_type 0 [] (raw ++ inner ++ endb), rest).

Lemma lf_prefix fuel s num wt raw :
  1 <= num -> 0 <= wt < 8 ->
  load_field fuel s (num * 8 + wt) raw =
  (if wt =? WIRE_VARINT then
     do (v, r, s') <- load_varint s; Ok (mkP num wt v [] (raw ++ r), s')
   else if wt =? WIRE_FIXED_64 then
     do (d, s') <- read_exactly s 8; Ok (mkP num wt 0 d (raw ++ d), s')
   else if wt =? WIRE_LEN_DELIM then
     do (len, r, s1) <- load_varint s;
     do (d, s') <- read_exactly s1 len;
     Ok (mkP num wt 0 d (raw ++ r ++ d), s')
   else if wt =? WIRE_FIXED_32 then
     do (d, s') <- read_exactly s 4; Ok (mkP num wt 0 d (raw ++ d), s')
   else if wt =? WIRE_START_GROUP then
     match fuel with
     | O => Err EFuel
     | S fuel' => groupV (load_field fuel') num wt fuel s raw
     end
   else Err EValue).
Proof.
  intros Hn Hw. rewrite load_field_unfold. cbv zeta. rewrite tag_num, tag_wt by lia.
  replace (num =? 0) with false by (symmetry; apply Z.eqb_neq; lia). reflexivity.
Qed.

Lemma case_varint tagb valb num v :
  1 <= num -> VarintRep (num * 8 + 0) tagb -> VarintRep v valb -> rec_ok (tagb ++ valb) num 0.
Proof.
  intros Hn Ht Hv. exists tagb, valb, v, []. (split; [reflexivity|]; split; [exact Ht|]; split; [lia|]; split; [lia|]; split; [lia|]).
  intros fuel rest raw _. rewrite lf_prefix by lia. change (0 =? WIRE_VARINT) with true. cbv iota.
  rewrite (load_varint_rep _ _ rest Hv). reflexivity.
Qed.

Lemma case_fixed64 tagb payload num :
  1 <= num -> VarintRep (num * 8 + 1) tagb -> length payload = 8%nat -> rec_ok (tagb ++ payload) num 1.
Proof.
  intros Hn Ht Hl. exists tagb, payload, 0, payload. (split; [reflexivity|]; split; [exact Ht|]; split; [lia|]; split; [lia|]; split; [lia|]).
  intros fuel rest raw _. rewrite lf_prefix by lia.
  change (1 =? WIRE_VARINT) with false. change (1 =? WIRE_FIXED_64) with true. cbv iota.
  rewrite read_exactly_app by (unfold Zlength; lia). reflexivity.
Qed.

Lemma case_len tagb lenb payload num :
  1 <= num -> VarintRep (num * 8 + 2) tagb -> VarintRep (Zlength payload) lenb ->
  rec_ok (tagb ++ lenb ++ payload) num 2.
Proof.
  intros Hn Ht Hlen. exists tagb, (lenb ++ payload), 0, payload. (split; [reflexivity|]; split; [exact Ht|]; split; [lia|]; split; [lia|]; split; [lia|]).
  intros fuel rest raw _. rewrite lf_prefix by lia.
  change (2 =? WIRE_VARINT) with false. change (2 =? WIRE_FIXED_64) with false. change (2 =? WIRE_LEN_DELIM) with true.
  cbv iota. rewrite <- app_assoc, (load_varint_rep _ _ (payload ++ rest) Hlen). cbn [bind].
  rewrite read_exactly_app by reflexivity. reflexivity.
Qed.

Lemma case_fixed32 tagb payload num :
  1 <= num -> VarintRep (num * 8 + 5) tagb -> length payload = 4%nat -> rec_ok (tagb ++ payload) num 5.
Proof.
  intros Hn Ht Hl. exists tagb, payload, 0, payload. (split; [reflexivity|]; split; [exact Ht|]; split; [lia|]; split; [lia|]; split; [lia|]).
  intros fuel rest raw _. rewrite lf_prefix by lia.
  change (5 =? WIRE_VARINT) with false. change (5 =? WIRE_FIXED_64) with false. change (5 =? WIRE_LEN_DELIM) with false.
  change (5 =? WIRE_FIXED_32) with true. cbv iota.
  rewrite read_exactly_app by (unfold Zlength; lia). reflexivity.
Qed.

Lemma case_group tagb inner endb num :
  1 <= num -> VarintRep (num * 8 + 3) tagb -> stream_ok inner -> VarintRep (num * 8 + 4) endb ->
  rec_ok (tagb ++ inner ++ endb) num 3.
Proof.
  intros Hn Ht IHin He. exists tagb, (inner ++ endb), 0, []. (split; [reflexivity|]; split; [exact Ht|]; split; [lia|]; split; [lia|]; split; [lia|]).
  intros fuel rest raw Hf. rewrite lf_prefix by lia.
  change (3 =? WIRE_VARINT) with false. change (3 =? WIRE_FIXED_64) with false. change (3 =? WIRE_LEN_DELIM) with false.
  change (3 =? WIRE_FIXED_32) with false. change (3 =? WIRE_START_GROUP) with true. cbv iota.
  destruct fuel as [|fuel']; [lia|]. rewrite app_length in Hf.
  rewrite <- app_assoc. apply IHin; try assumption; lia.
Qed.

Lemma case_nil : stream_ok [].
Proof.
  intros fuel' n number wire_type endb rest raw Hnum He Hn Hf. cbn [app length] in *.
  pose proof (rep_len _ _ He). destruct n as [|n]; [lia|]. cbn [groupV].
  rewrite (load_varint_rep _ _ rest He). cbn [bind].
  rewrite tag_wt, tag_num by lia. change (4 =? WIRE_END_GROUP) with true. cbv iota.
  rewrite Z.eqb_refl. reflexivity.
Qed.

Lemma case_cons r num wt rest0 : rec_ok r num wt -> stream_ok rest0 -> stream_ok (r ++ rest0).
Proof.
  intros IHr IHs fuel' n number wire_type endb rest raw Hnum He Hn Hf.
  destruct IHr as (tagb & body & pi & pb & -> & Ht & Hw & Hw4 & Hn1 & Hlf).
  pose proof (rep_len _ _ Ht). rewrite !app_length in Hn, Hf.
  destruct n as [|n]; [lia|]. cbn [groupV].
  rewrite <- !app_assoc. rewrite (load_varint_rep _ _ _ Ht). cbn [bind].
  rewrite tag_wt by lia.
  replace (wt =? WIRE_END_GROUP) with false by (symmetry; apply Z.eqb_neq; exact Hw4).
  rewrite Hlf by lia. cbn [bind praw].
  rewrite IHs by (try assumption; lia).
  rewrite <- !app_assoc. reflexivity.
Qed.

Lemma rec_sound r num wt : wire_record r num wt -> rec_ok r num wt.
Proof.
  intros w. induction w using wire_record_mut with (P0 := fun inner _ => stream_ok inner).
  - eapply case_varint; eassumption.
  - apply case_fixed64; assumption.
  - apply case_len; assumption.
  - apply case_fixed32; assumption.
  - apply case_group; assumption.
  - apply case_nil.
  - apply case_cons with (num := num) (wt := wt); assumption.
Qed.

Definition triple (p : parsed) : Z * Z * list byte := (pnum p, pwt p, praw p).

Theorem wire_records_sound bs rs :
  wire_records bs rs -> exists ps, records bs ps /\ map triple ps = rs.
Proof.
  induction 1 as [|r num wt rest rs Hr Hrs IH]; [exists []; split; [constructor | reflexivity]|].
  destruct IH as (ps & Hps & Hmap).
  destruct (rec_sound _ _ _ Hr) as (tagb & body & pi & pb & -> & Ht & Hw & _ & Hn & Hlf).
  pose proof (rep_len _ _ Ht) as Hl.
  exists (mkP num wt pi pb (tagb ++ body) :: ps). split.
  - eapply records_cons; [destruct tagb; [cbn in Hl; lia | discriminate] | | exact Hps].
    unfold frame1. rewrite <- app_assoc, (load_varint_rep _ _ _ Ht). cbn [bind].
    apply Hlf. rewrite !app_length. lia.
  - cbn [map triple pnum pwt praw]. rewrite Hmap. reflexivity.
Qed.

(* ---- the C08 statements over the specification-level grammar ---- *)
From BP Require Import Proofs.C08StepP Proofs.C08UnknownP.

(* class cd keeps a record with this number and wire type verbatim *)
Definition unknown_nw (cd : cdesc) (num wt : Z) : bool :=
  match field_by_number cd num with
  | None => true
  | Some (_, f) => negb (wire_type_fits f wt)
  end.
Definition t_unknown (cd : cdesc) (t : Z * Z * list byte) : bool := unknown_nw cd (fst (fst t)) (snd (fst t)).
Definition spec_unknown_raw (cd : cdesc) (rs : list (Z * Z * list byte)) : list byte :=
  concat (map snd (filter (t_unknown cd) rs)).
Definition spec_known_raw (cd : cdesc) (rs : list (Z * Z * list byte)) : list byte :=
  concat (map snd (filter (fun t => negb (t_unknown cd t)) rs)).

Lemma unknown_raw_triple cd ps : unknown_raw cd ps = spec_unknown_raw cd (map triple ps).
Proof.
  unfold unknown_raw, raw_of, spec_unknown_raw. induction ps as [|p ps IH]; [reflexivity|].
  cbn [map filter]. change (t_unknown cd (triple p)) with (is_unknown cd p).
  destruct (is_unknown cd p); cbn [map concat]; rewrite IH; reflexivity.
Qed.

Lemma known_raw_triple cd ps : known_raw cd ps = spec_known_raw cd (map triple ps).
Proof.
  unfold known_raw, raw_of, spec_known_raw. induction ps as [|p ps IH]; [reflexivity|].
  cbn [map filter]. change (t_unknown cd (triple p)) with (is_unknown cd p).
  destruct (is_unknown cd p); cbn [negb map concat]; rewrite IH; reflexivity.
Qed.

Theorem raw_preserved_spec sc c bs rs m :
  wire_records bs rs -> parse sc c bs = Ok m -> ounk m = spec_unknown_raw (get_class sc c) rs.
Proof.
  intros Hw Hp. destruct (wire_records_sound _ _ Hw) as (ps & Hrec & <-).
  apply raw_preserved in Hp as (ps' & Hrec' & _ & Hu).
  rewrite (records_det _ _ Hrec' _ Hrec) in Hu. rewrite Hu. apply unknown_raw_triple.
Qed.

Theorem known_undisturbed_spec sc c bs rs :
  wire_records bs rs ->
  forall m, parse sc c bs = Ok m <->
            exists m', parse sc c (spec_known_raw (get_class sc c) rs) = Ok m' /\
                       m = set_unk m' (spec_unknown_raw (get_class sc c) rs).
Proof.
  intros Hw m. destruct (wire_records_sound _ _ Hw) as (ps & Hrec & <-).
  rewrite <- known_raw_triple, <- unknown_raw_triple. split.
  - intros Hp. apply known_undisturbed in Hp as (ps' & Hrec' & Hk & Hm).
    rewrite (records_det _ _ Hrec' _ Hrec) in Hk, Hm. exists (clear_unk m). split; assumption.
  - intros (m' & Hk & ->). apply known_undisturbed_conv; assumption.
Qed.
