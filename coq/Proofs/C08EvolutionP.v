(* C08: schema evolution.  The bytes an older reader/writer re-emits are the records it knows
   (re-encoded) followed by the records it does not know (verbatim, in arrival order); the newer
   reader computes from them the very object it computes from the original bytes. *)
From BP Require Import Base.Prelude Model.Types Model.Varint Model.Scalar Model.Float Model.Utf8.
From BP Require Import Model.Object Model.Eq Model.TimeCore Model.Encode Model.Decode Model.WellFormed Model.C08Step.
From BP Require Import gen.Tables Proofs.C08FrameP Proofs.C08StepP Proofs.C08UnknownP Proofs.C08CommuteP.

(* ---- field_by_number ---- *)
Definition fbn_go (num : Z) :=
  fix go (i : nat) (fs : list fdesc) (acc : option (nat * fdesc)) : option (nat * fdesc) :=
    match fs with
    | [] => acc
    | f :: fs' => go (Datatypes.S i) fs' (if fnum f =? num then Some (i, f) else acc)
    end.

Lemma field_by_number_eq cd num : field_by_number cd num = fbn_go num O (cfields cd) None.
Proof. reflexivity. Qed.

Lemma fbn_go_some num : forall fs i0 acc i f,
  fbn_go num i0 fs acc = Some (i, f) ->
  acc = Some (i, f) \/ ((i0 <= i)%nat /\ nth_error fs (i - i0) = Some f /\ fnum f = num).
Proof.
  induction fs as [|f0 fs IH]; intros i0 acc i f H; cbn [fbn_go] in H; [left; exact H|].
  apply IH in H. destruct H as [H|(Hle & Hn & Hnum)].
  - destruct (fnum f0 =? num) eqn:E; [|left; exact H].
    injection H as <- <-. right. split; [lia|]. rewrite Nat.sub_diag. split; [reflexivity | apply Z.eqb_eq, E].
  - right. split; [lia|]. split; [|exact Hnum].
    replace (i - i0)%nat with (Datatypes.S (i - Datatypes.S i0)) by lia. exact Hn.
Qed.

Lemma fbn_some cd num i f :
  field_by_number cd num = Some (i, f) -> nth_error (cfields cd) i = Some f /\ fnum f = num.
Proof.
  rewrite field_by_number_eq. intros H. apply fbn_go_some in H as [H|(_ & Hn & Hnum)]; [discriminate|].
  rewrite Nat.sub_0_r in Hn. split; assumption.
Qed.

(* with unique numbers, the field found is THE field carrying the number *)
Lemma fbn_go_none num : forall fs i0 acc,
  (forall f, In f fs -> fnum f <> num) -> fbn_go num i0 fs acc = acc.
Proof.
  induction fs as [|f0 fs IH]; intros i0 acc H; cbn [fbn_go]; [reflexivity|].
  rewrite IH by (intros f Hf; apply H; right; exact Hf).
  destruct (fnum f0 =? num) eqn:E; [|reflexivity]. apply Z.eqb_eq in E. exfalso. apply (H f0); [left; reflexivity | exact E].
Qed.

Lemma nodup_z_cons x l : nodup_z (x :: l) = true -> ~ In x l /\ nodup_z l = true.
Proof.
  cbn [nodup_z]. intros H. apply andb_true_iff in H as [H1 H2]. split; [|exact H2].
  intros Hin. apply negb_true_iff in H1. assert (existsb (Z.eqb x) l = true); [|congruence].
  apply existsb_exists. exists x. split; [exact Hin | apply Z.eqb_refl].
Qed.

Lemma fbn_go_in num : forall fs i0 acc f,
  nodup_z (map fnum fs) = true -> In f fs -> fnum f = num ->
  exists i, fbn_go num i0 fs acc = Some (i, f).
Proof.
  induction fs as [|f0 fs IH]; intros i0 acc f Hnd Hin Hnum; [destruct Hin|].
  cbn [map] in Hnd. apply nodup_z_cons in Hnd as [Hnotin Hnd]. cbn [fbn_go].
  destruct Hin as [->|Hin].
  - rewrite Hnum, Z.eqb_refl. exists i0. apply fbn_go_none.
    intros f' Hf' E. apply Hnotin. rewrite Hnum, <- E. apply in_map, Hf'.
  - apply IH; assumption.
Qed.

Lemma fbn_in cd f :
  nodup_z (map fnum (cfields cd)) = true -> In f (cfields cd) ->
  exists i, field_by_number cd (fnum f) = Some (i, f).
Proof. intros Hnd Hin. rewrite field_by_number_eq. eapply fbn_go_in; eauto. Qed.

(* ---- the older class is a sub-list of the newer one ---- *)
Lemma filter_mask_in {A} (x : A) : forall mask l, In x (filter_mask mask l) -> In x l.
Proof.
  induction mask as [|b mask IH]; intros l H; [destruct l; exact H|].
  destruct l as [|y l]; [exact H|]. cbn [filter_mask] in H.
  destruct b; [destruct H as [->|H]; [left; reflexivity | right; apply IH, H] | right; apply IH, H].
Qed.

Lemma drop_class_nil cd : drop_class [] cd = cd.
Proof. destruct cd as [fs n]. unfold drop_class. cbn [cfields cngroups]. destruct fs; reflexivity. Qed.

Lemma drop_classes_nil cs : drop_classes [] cs = cs.
Proof. destruct cs; reflexivity. Qed.

Lemma drop_classes_nth : forall masks cs c,
  exists mask, nth c (drop_classes masks cs) empty_class = drop_class mask (nth c cs empty_class).
Proof.
  induction masks as [|m masks IH]; intros cs c.
  - exists []. rewrite drop_classes_nil, drop_class_nil. reflexivity.
  - destruct cs as [|cd cs].
    + exists []. rewrite drop_class_nil. destruct c; reflexivity.
    + destruct c as [|c]; cbn [drop_classes nth]; [exists m; reflexivity | apply IH].
Qed.

Lemma older_fields masks sn c f :
  In f (cfields (get_class (drop_fields masks sn) c)) -> In f (cfields (get_class sn c)).
Proof.
  unfold get_class, drop_fields. cbn [classes].
  destruct (drop_classes_nth masks (classes sn) c) as [mask E]. rewrite E.
  unfold drop_class. cbn [cfields]. apply filter_mask_in.
Qed.

(* ---- fold_steps over concatenations; moving a record to the right ---- *)
Lemma fold_app fuel' sc cd : forall A B o,
  fold_steps fuel' sc cd o (A ++ B) = (do m <- fold_steps fuel' sc cd o A; fold_steps fuel' sc cd m B).
Proof.
  induction A as [|p A IH]; intros B o; [reflexivity|].
  cbn [app fold_steps]. destruct (step fuel' sc cd o p); cbn [bind]; [apply IH | reflexivity].
Qed.

(* u then k  can be replaced by  k then u *)
Definition swappable (fuel' : nat) (sc : schema) (cd : cdesc) (u k : parsed) : Prop :=
  forall o o1 o2, step fuel' sc cd o u = Ok o1 -> step fuel' sc cd o1 k = Ok o2 ->
                  exists o1', step fuel' sc cd o k = Ok o1' /\ step fuel' sc cd o1' u = Ok o2.

(* ---- which records may be swapped (in the newer class) ---- *)
Lemma swap_unknown_known fuel' sc cd u k :
  is_unknown cd u = true -> is_unknown cd k = false -> swappable fuel' sc cd u k.
Proof.
  intros Hu Hk o o1 o2 H1 H2.
  rewrite (step_unknown _ _ _ _ _ Hu) in H1. injection H1 as <-.
  assert (E : add_unk o (praw u) = set_unk o (ounk o ++ praw u)) by (destruct o; reflexivity).
  rewrite E, (step_set_unk _ _ _ _ _ _ Hk) in H2.
  destruct (step fuel' sc cd o k) as [o1'|] eqn:Ek; cbn [rmap] in H2; [|discriminate].
  injection H2 as <-. exists o1'. split; [reflexivity|].
  rewrite (step_unknown _ _ _ _ _ Hu).
  apply step_shape in Ek as [_ Eu]. rewrite Hk, app_nil_r in Eu.
  f_equal. destruct o1' as [c' raw' sow' unk' cur']. cbn [ounk] in Eu. subst unk'. reflexivity.
Qed.

Lemma swap_known_known fuel' sc cd u k j fj i fi :
  field_by_number cd (pnum u) = Some (j, fj) -> wire_type_fits fj (pwt u) = true ->
  field_by_number cd (pnum k) = Some (i, fi) -> wire_type_fits fi (pwt k) = true ->
  i <> j -> separable fi fj ->
  forall o o1 o2, cd = get_class sc (ocls o) ->
    step fuel' sc cd o u = Ok o1 -> step fuel' sc cd o1 k = Ok o2 ->
    exists o1', step fuel' sc cd o k = Ok o1' /\ step fuel' sc cd o1' u = Ok o2.
Proof.
  intros Fu Wu Fk Wk Hij Hsep o o1 o2 Hcd H1 H2.
  rewrite step_eq, Fu, Wu in H1. cbn [negb] in H1.
  destruct (decode_value fuel' sc fj u) as [vu|] eqn:Du; cbn [bind] in H1; [|discriminate].
  rewrite step_eq, Fk, Wk in H2. cbn [negb] in H2.
  destruct (decode_value fuel' sc fi k) as [vk|] eqn:Dk; cbn [bind] in H2; [|discriminate].
  apply fbn_some in Fu as Nu. destruct Nu as [Nu _]. apply fbn_some in Fk as Nk. destruct Nk as [Nk _].
  rewrite Hcd in Nu, Nk.
  destruct (store_comm sc o i j fi fj vk vu o1 o2 Nk Nu Hij Hsep H1 H2) as (o1' & S1 & S2).
  exists o1'. split.
  - rewrite step_eq, Fk, Wk. cbn [negb]. rewrite Dk. exact S1.
  - rewrite step_eq, Fu, Wu. cbn [negb]. rewrite Du. exact S2.
Qed.

Lemma field_of_none cd p : field_of cd p = None <-> is_unknown cd p = true.
Proof.
  unfold field_of, is_unknown. destruct (field_by_number cd (pnum p)) as [[i f]|]; [|tauto].
  destruct (wire_type_fits f (pwt p)); cbn; split; congruence.
Qed.

Lemma sep_b_sound fk fu : sep_b fk fu = true -> separable fk fu.
Proof.
  unfold sep_b, separable. destruct (fgroup fk) as [g|]; [|left; reflexivity].
  intros H. right. intros E. apply negb_true_iff in H.
  assert (opt_nat_eqb (fgroup fu) (Some g) = true) by (apply opt_nat_eqb_eq; congruence). congruence.
Qed.

(* ---- the theorem ---- *)
Section Evolution.
  Variables (sn : schema) (masks : list (list bool)) (c : nat).
  Let so := drop_fields masks sn.
  Let cdn := get_class sn c.
  Let cdo := get_class so c.
  Hypothesis Hnodup : nodup_z (map fnum (cfields cdn)) = true.

  (* a record the older class decodes is decoded by the newer class into the same field *)
  Lemma older_known_newer k :
    is_unknown cdo k = false ->
    exists i' i f, field_by_number cdo (pnum k) = Some (i', f) /\ field_by_number cdn (pnum k) = Some (i, f) /\
                   wire_type_fits f (pwt k) = true.
  Proof.
    unfold is_unknown. destruct (field_by_number cdo (pnum k)) as [[i' f]|] eqn:E; [|discriminate].
    intros W. apply negb_false_iff in W.
    apply fbn_some in E as E'. destruct E' as [Hn Hnum].
    apply nth_error_In in Hn. apply older_fields in Hn.
    destruct (fbn_in cdn f Hnodup Hn) as [i Hi]. rewrite Hnum in Hi.
    exists i', i, f. repeat split; assumption.
  Qed.

  Lemma evolution_swappable fuel' ps u k :
    split_free cdn cdo ps = true -> In u ps -> In k ps ->
    known cdo u = false -> known cdo k = true ->
    forall o o1 o2, ocls o = c ->
      step fuel' sn cdn o u = Ok o1 -> step fuel' sn cdn o1 k = Ok o2 ->
      exists o1', step fuel' sn cdn o k = Ok o1' /\ step fuel' sn cdn o1' u = Ok o2.
  Proof.
    intros Hsf Hu Hk Pu Pk o o1 o2 Hc H1 H2.
    unfold known in Pu, Pk. apply negb_false_iff in Pu. apply negb_true_iff in Pk.
    destruct (older_known_newer k Pk) as (i' & i & fi & Fko & Fk & Wk).
    assert (Kn : is_unknown cdn k = false) by (unfold is_unknown; rewrite Fk, Wk; reflexivity).
    destruct (is_unknown cdn u) eqn:Un.
    - exact (swap_unknown_known fuel' sn cdn u k Un Kn o o1 o2 H1 H2).
    - unfold is_unknown in Un. destruct (field_by_number cdn (pnum u)) as [[j fj]|] eqn:Fu; [|discriminate].
      apply negb_false_iff in Un.
      assert (Hij : i <> j).
      { intros ->. apply fbn_some in Fu as [Nu Numu]. apply fbn_some in Fk as [Nk Numk].
        assert (Efi : fj = fi) by congruence. subst fj.
        unfold is_unknown in Pu. rewrite <- Numu, Numk, Fko, Un in Pu. discriminate. }
      assert (Hsep : separable fi fj).
      { unfold split_free in Hsf. rewrite forallb_forall in Hsf. specialize (Hsf u Hu).
        rewrite forallb_forall in Hsf. specialize (Hsf k Hk).
        unfold field_of in Hsf. rewrite Fu, Un, Fk, Wk, Pu, Pk in Hsf. cbn [negb andb orb] in Hsf.
        apply sep_b_sound, Hsf. }
      eapply (swap_known_known fuel' sn cdn u k j fj i fi); try eassumption.
      unfold cdn. rewrite Hc. reflexivity.
  Qed.

  (* the class of the object never changes along a fold *)
  Lemma fold_partition_cls fuel' ps o o2 :
    ocls o = c -> split_free cdn cdo ps = true ->
    fold_steps fuel' sn cdn o ps = Ok o2 ->
    fold_steps fuel' sn cdn o (filter (known cdo) ps ++ filter (fun p => negb (known cdo p)) ps) = Ok o2.
  Proof.
    intros Hc Hsf.
    (* strengthen: swappable only needs to hold on objects of class c; carry the class through *)
    assert (G : forall ps0 o0 o3, (forall p, In p ps0 -> In p ps) -> ocls o0 = c ->
              fold_steps fuel' sn cdn o0 ps0 = Ok o3 ->
              fold_steps fuel' sn cdn o0 (filter (known cdo) ps0 ++ filter (fun p => negb (known cdo p)) ps0) = Ok o3).
    { induction ps0 as [|x ps0 IH]; intros o0 o3 Hin Hc0 H; [exact H|].
      cbn [fold_steps] in H.
      destruct (step fuel' sn cdn o0 x) as [o1|] eqn:E; cbn [bind] in H; [|discriminate].
      assert (Hc1 : ocls o1 = c) by (apply step_shape in E as [E _]; congruence).
      assert (IH' := IH o1 o3 (fun p Hp => Hin p (or_intror Hp)) Hc1 H).
      cbn [filter]. destruct (known cdo x) eqn:Px; cbn [negb].
      - cbn [app fold_steps]. rewrite E. exact IH'.
      - (* move x to the right past the known records, one at a time *)
        clear IH H.
        assert (M : forall A B oa o4, (forall k, In k A -> In k ps /\ known cdo k = true) -> ocls oa = c ->
                  fold_steps fuel' sn cdn oa (x :: A ++ B) = Ok o4 ->
                  fold_steps fuel' sn cdn oa (A ++ x :: B) = Ok o4).
        { induction A as [|k A IHA]; intros B oa o4 HA Hco HH; [exact HH|].
          cbn [app] in *. cbn [fold_steps] in HH.
          destruct (step fuel' sn cdn oa x) as [ox|] eqn:E1; cbn [bind] in HH; [|discriminate].
          destruct (step fuel' sn cdn ox k) as [oxk|] eqn:E2; cbn [bind] in HH; [|discriminate].
          destruct (HA k (or_introl eq_refl)) as [Hkin Pk].
          destruct (evolution_swappable fuel' ps x k Hsf (Hin x (or_introl eq_refl)) Hkin Px Pk oa ox oxk Hco E1 E2)
            as (o1' & E3 & E4).
          cbn [fold_steps]. rewrite E3. cbn [bind].
          apply IHA; [intros k' Hk'; apply HA; right; exact Hk' | apply step_shape in E3 as [E3 _]; congruence |].
          cbn [fold_steps]. rewrite E4. cbn [bind]. exact HH. }
        apply M; [| exact Hc0 | cbn [fold_steps]; rewrite E; exact IH'].
        intros k Hk. apply filter_In in Hk as [Hk Pk]. split; [apply Hin; right; exact Hk | exact Pk]. }
    apply G; [tauto | exact Hc].
  Qed.

  Lemma unknown_filter_eq ps : filter (fun p => negb (known cdo p)) ps = filter (is_unknown cdo) ps.
  Proof.
    unfold known. induction ps as [|p ps IH]; [reflexivity|]. cbn [filter]. rewrite negb_involutive, IH. reflexivity.
  Qed.

  (* Byte-level evolution.  bs: ANY byte string made of complete records (ps) in which no oneof group
     has both a deleted and a kept member present.  If the older reader/writer turns bs into b2 and
     the newer reader sees in the re-encoded known part k2 what it sees in the original known records
     (C01's business: for top-level deletions k2 IS the original bytes), then the newer reader
     computes from b2 exactly the object it computes from bs — raw attributes, presence, oneof
     selection and unknown bytes alike. *)
  Theorem evolution_bytes bs ps mo b2 k2 mn :
    records bs ps -> split_free cdn cdo ps = true ->
    parse so c bs = Ok mo -> enc_obj so mo = Ok b2 ->
    enc_obj so (clear_unk mo) = Ok k2 ->
    parse sn c k2 = parse sn c (known_raw cdo ps) ->
    parse sn c bs = Ok mn ->
    b2 = k2 ++ unknown_raw cdo ps /\ parse sn c b2 = Ok mn.
  Proof.
    intros Hrec Hsf Hpo Henc Hk2 Hview Hpn.
    (* shape of b2 *)
    apply raw_preserved in Hpo as (ps' & Hrec' & _ & Hunk).
    rewrite (records_det _ _ Hrec' _ Hrec) in Hunk. clear ps' Hrec'. fold so cdo in Hunk.
    apply reemit in Henc as (body & Hbody & ->). rewrite Hk2 in Hbody. injection Hbody as <-.
    rewrite Hunk. split; [reflexivity|].
    (* the newer reader on bs, records sorted into known-to-older first *)
    apply parse_fold in Hpn as (ps' & Hrec' & Hfold).
    rewrite (records_det _ _ Hrec' _ Hrec) in Hfold. clear ps' Hrec'. fold cdn in Hfold.
    apply (fold_partition_cls _ _ (touch (new sn c)) _ (eq_refl c) Hsf) in Hfold.
    rewrite unknown_filter_eq, fold_app in Hfold.
    destruct (fold_steps (length bs) sn cdn (touch (new sn c)) (filter (known cdo) ps)) as [mid|] eqn:Hmid;
      cbn [bind] in Hfold; [|discriminate].
    (* the known part alone, as the newer reader sees it *)
    pose proof (records_filter (known cdo) _ _ Hrec) as HrK.
    pose proof (records_filter (is_unknown cdo) _ _ Hrec) as HrU.
    assert (HpK : parse sn c (known_raw cdo ps) = Ok mid).
    { apply parse_fold. exists (filter (known cdo) ps). split; [exact HrK|]. fold cdn.
      eapply fold_fuel; [exact Hmid|]. intros p Hp. apply (records_length _ _ HrK p Hp). }
    rewrite <- Hview in HpK. apply parse_fold in HpK as (ps2 & Hr2 & Hf2). fold cdn in Hf2.
    (* reassemble *)
    apply parse_fold. exists (ps2 ++ filter (is_unknown cdo) ps). split.
    - apply records_app; [exact Hr2 | exact HrU].
    - fold cdn. rewrite fold_app.
      erewrite fold_fuel; [| exact Hf2 |].
      + cbn [bind]. eapply fold_fuel; [exact Hfold|].
        intros p Hp. pose proof (records_length _ _ HrU p Hp) as L. unfold unknown_raw. rewrite app_length. lia.
      + intros p Hp. pose proof (records_length _ _ Hr2 p Hp) as L. rewrite app_length. lia.
  Qed.
End Evolution.
