(* C02: from the one-record step to Message.load on a whole legal byte string, by induction on the
   records, then on the nesting depth (fuel). *)
From BP Require Import Base.Prelude Model.Types Model.Varint Model.Scalar Model.Float Model.Utf8.
From BP Require Import Model.Object Model.Eq Model.TimeCore Model.Decode Model.WellFormed.
From BP Require Import Spec.Varint Spec.Wire.
From BP Require Import Proofs.BytesP Proofs.C02Abs Proofs.C02WireP Proofs.C02LeafP Proofs.C02LoadP Proofs.C02ListP Proofs.C02StepP
     Proofs.C02SimP Proofs.C02ElemP Proofs.C02StoreP Proofs.C02InterpP Proofs.C02DecP.
From BP Require Import gen.Tables.

(* the statement of the map-field step (proved in Proofs/C02MapP.v for nested = nested_sem n' sc) *)
Definition map_step_stmt (sc : schema) (pn : nat -> list byte -> result obj)
           (nested : nat -> list byte -> option aval) (nested_ok : nat -> list byte -> bool) (B c : nat) : Prop :=
  forall o st urs i f a num b,
    Inv sc nested c o st urs -> nth_error (cfields (get_class sc c)) i = Some f -> card_of f = MapOf ->
    rec_ok a (num, Len b) -> (length a <= B)%nat -> entry_clean sc f (Len b) = true ->
    is_some (nested (fentry f) b) = true -> nested_ok (fentry f) b = true ->
    exists o', (do value <- field_value sc pn f (parsed_of (num, Len b) a); store sc o i f value) = Ok o' /\
               Inv sc nested c o' (add_payload i f (Len b) 0 (cfields (get_class sc c)) st) urs.

Lemma rec_ok_nonempty a r : rec_ok a r -> a <> [].
Proof.
  intros R. inversion R; subst;
    match goal with T : TagRep _ _ ?t |- ?t ++ _ <> [] => apply app_nonempty; exact (TagRep_nonempty _ _ _ T) end.
Qed.

Section Loop.
  Variable sc : schema.
  Hypothesis WF : wf_schema sc = true.
  Variable pn : nat -> list byte -> result obj.
  Variable nested : nat -> list byte -> option aval.
  Variable nested_ok : nat -> list byte -> bool.
  Variable B : nat.
  Hypothesis PN : forall c' b m, (length b < B)%nat -> nested c' b = Some m -> nested_ok c' b = true ->
                                 exists mo, pn c' b = Ok mo /\ abs_obj sc mo = m /\ good sc c' mo.
  Variable c : nat.
  Hypothesis MAP : map_step_stmt sc pn nested nested_ok B c.
  Let cd := get_class sc c.
  Let fs := cfields cd.

  Lemma loop_sim bs rs :
    wire_ok bs rs ->
    forall n o st urs,
      Inv sc nested c o st urs ->
      forallb (record_valid nested sc fs) rs = true ->
      records_ok sc nested nested_ok fs (st, urs) rs = true ->
      (length bs < n)%nat -> (length bs <= B)%nat ->
      exists o',
        loop' sc pn (load_field B) cd n o bs = Ok (o', []) /\
        Inv sc nested c o' (fst (fold_left (gather_step sc fs) rs (st, urs)))
                           (snd (fold_left (gather_step sc fs) rs (st, urs))).
  Proof.
    unfold fs, cd. induction 1 as [|a r b rs Ra Wb IH]; intros n o st urs I V S Ln LB.
    - destruct n as [|n]; [cbn in Ln; lia|]. exists o. split; [reflexivity | exact I].
    - destruct n as [|n]; [lia|]. rewrite app_length in Ln, LB.
      cbn [forallb] in V. apply andb_true_iff in V as [Vr Vrs].
      cbn [records_ok] in S. apply andb_true_iff in S as [Sr Srs].
      cbn [loop']. pose proof (rec_ok_nonempty _ _ Ra) as Na.
      destruct (a ++ b) as [|b0 s0] eqn:Eab; [destruct a; [congruence | discriminate]|]. rewrite <- Eab.
      destruct (model_reads_record a r B b Ra ltac:(lia)) as (tb & rest1 & Hv & Hf).
      rewrite Hv. cbn [bind]. rewrite Hf. cbn [bind].
      destruct (step sc WF pn nested nested_ok B PN c MAP o st urs a r I Ra ltac:(lia) Vr Sr) as (o1 & Ho1 & I1).
      rewrite Ho1. cbn [bind]. cbn [fold_left].
      destruct (gather_step sc (cfields (get_class sc c)) (st, urs) r) as [st1 urs1] eqn:G. cbn [fst snd] in I1.
      pose proof (length_pos_of_nonempty _ Na). apply (IH n o1 st1 urs1 I1 Vrs Srs); lia.
  Qed.
End Loop.

(* ------------------------------------------------------------------ induction on the nesting depth *)
Lemma Inv_good sc nested c o st urs : Inv sc nested c o st urs -> good sc c o.
Proof.
  intros I. split; [exact (i_cls _ _ _ _ _ _ I)|]. split; [exact (i_raw _ _ _ _ _ _ I)|].
  intros k fk x Hk Hx. rewrite (i_cls _ _ _ _ _ _ I) in Hk.
  pose proof (nth_error_Some_lt _ _ _ Hk) as Lk.
  destruct (nth_error_ex st k ltac:(rewrite (i_st _ _ _ _ _ _ I); exact Lk)) as (ps & Hps).
  exact (proj2 (i_fld _ _ _ _ _ _ I k fk x ps Hk Hx Hps)).
Qed.

Section Main.
  Variable sc : schema.
  Hypothesis WF : wf_schema sc = true.
  (* the map-field step, for every depth *)
  Hypothesis MAPS : forall n' pn nested_ok B c,
    (forall c' b m, (length b < B)%nat -> nested_sem n' sc c' b = Some m -> nested_ok c' b = true ->
                    exists mo, pn c' b = Ok mo /\ abs_obj sc mo = m /\ good sc c' mo) ->
    map_step_stmt sc pn (nested_sem n' sc) nested_ok B c.

  Theorem load_refines fuel : forall c bs rs a,
    (length bs < fuel)%nat -> wire_ok bs rs ->
    sem fuel sc c rs = Some a -> supported fuel sc c rs = true ->
    exists o', load' fuel sc (new sc c) bs = Ok (o', []) /\ abs_obj sc o' = a /\ good sc c o'.
  Proof.
    induction fuel as [|n' IH]; intros c bs rs a L W Sm Sp; [lia|].
    cbn [sem] in Sm. cbn [supported] in Sp.
    fold (nested_sem n' sc) in Sm.
    set (nested_ok := fun c' b => match parse_wire b with Some rs' => supported n' sc c' rs' | None => true end) in Sp.
    set (pn := fun c' b => do (o', _) <- load' n' sc (new sc c') b; Ok o').
    assert (PN : forall c' b m, (length b < n')%nat -> nested_sem n' sc c' b = Some m -> nested_ok c' b = true ->
                                exists mo, pn c' b = Ok mo /\ abs_obj sc mo = m /\ good sc c' mo).
    { intros c' b m Lb Nm Nok. unfold nested_sem in Nm. unfold nested_ok in Nok.
      destruct (parse_wire b) as [rs'|] eqn:P; [|discriminate Nm]. cbn [obind] in Nm.
      destruct (IH c' b rs' m Lb (parse_wire_sound _ _ P) Nm Nok) as (mo & Hl & Ha & G).
      exists mo. unfold pn. rewrite Hl. cbn [bind]. tauto. }
    destruct (forallb (record_valid (nested_sem n' sc) sc (cfields (get_class sc c))) rs) eqn:V; [|discriminate Sm].
    destruct (gather sc (cfields (get_class sc c)) rs) as [st unk] eqn:G.
    destruct (omap_all _ (combine (cfields (get_class sc c)) st)) as [fields|] eqn:Om; [|discriminate Sm].
    cbn [obind] in Sm. injection Sm as <-.
    pose proof (Inv_new sc (nested_sem n' sc) c WF) as I0. cbn zeta in I0.
    destruct (new sc c) as [c0 raw0 sow0 unk0 cur0] eqn:En. cbn [ocls oraw ounk ocur] in I0.
    assert (c0 = c) by (unfold new in En; congruence). subst c0.
    assert (unk0 = []) by (unfold new in En; congruence). subst unk0.
    rewrite load'_unfold.
    destruct (loop_sim sc WF pn (nested_sem n' sc) nested_ok n' PN c (MAPS n' pn nested_ok n' c PN)
                bs rs W (Datatypes.S (length bs)) _ _ _ I0 V Sp ltac:(lia) ltac:(lia)) as (o' & Hl & I').
    unfold gather in G. rewrite G in I'. cbn [fst snd] in I'.
    exists o'. split; [exact Hl|]. split; [|eapply Inv_good; eauto].
    destruct (Inv_final _ _ _ _ _ _ I') as (F1 & F2). rewrite F2. rewrite F1 in Om. now injection Om as <-.
  Qed.
End Main.
