(* C14 gap closing, second group (clause table: header of Proofs/C14GapA.v, gap g): pickles interleaved with observers and
   copies, in any order and any number. *)
From Coq Require Import List Bool.
From BP Require Import Base.Prelude Model.Types Model.Object Model.Eq Model.Encode Model.Decode Model.WellFormed.
From BP Require Import Model.History Model.C14Ops Model.C01Def Model.C14Pickle Model.C14Seq Model.C14GapDef.
From BP Require Import Proofs.C14Ind Proofs.C14Mat Proofs.C14Obs Proofs.C14Pres Proofs.C14Thm Proofs.C14Seq Proofs.C14Pickle.
From BP Require Import Proofs.C14PicklePres2 Proofs.C14Seq2 Proofs.C14GapA.
Import ListNotations.

Section Run.
  Variable sc : schema.
  Variables o o' : obj.
  Hypothesis Hpre : pickle_pre sc o = true.
  Hypothesis Hp : pickle_rt sc o = Ok o'.
  Let Hwf : wf_schema sc = true := pickle_pre_wf sc o Hpre.
  Let Hopt : schema_opt_ok sc = true := wf_schema_opt_ok sc Hwf.

  Definition near (s : obj) : Prop := mat_obj sc o s = true \/ mat_obj sc o' s = true.

  Lemma near_pickle s : near s -> pickle_rt sc s = Ok o'.
  Proof.
    intros [H|H].
    - rewrite (pickle_of_mat sc Hwf o s H). exact Hp.
    - exact (proj1 (proj2 (pickle_fixed_point sc o o' Hpre Hp) s H)).
  Qed.

  Lemma near_step s c :
    (match c with CObserve _ => true | CCopy => shaped_top sc s | CDeepcopy => shaped_obj sc s end) = true ->
    near s -> near (apply_cop sc s c).
  Proof.
    intros Hc Hn.
    assert (Hm : mat_obj sc s (apply_cop sc s c) = true).
    { destruct c as [b| |]; cbn [apply_cop].
      - apply observe_mat.
      - apply (copy_mat sc Hopt s Hc).
      - apply (deepcopy_mat sc Hopt s Hc). }
    destruct Hn as [H|H]; [left|right]; eapply mat_obj_trans; eauto.
  Qed.

  Lemma run_near : forall l s, near s -> cops2_shaped sc s l = true ->
    exists oF, run_cops2 sc s l = Ok oF /\ near oF.
  Proof.
    induction l as [|k l IH]; intros s Hn Hs; [exists s; split; [reflexivity | exact Hn]|].
    destruct k as [c|]; cbn [run_cops2 cops2_shaped] in *.
    - apply andb_true_iff in Hs as [Hc Hr]. apply (IH _ (near_step s c Hc Hn) Hr).
    - rewrite (near_pickle s Hn) in *. cbn [bind]. apply (IH o'); [right; apply mat_obj_refl | exact Hs].
  Qed.
End Run.

Theorem any_order_with_pickles sc o l :
  pickle_pre sc o = true -> cops2_shaped sc o l = true ->
  exists o' oF, pickle_rt sc o = Ok o' /\ run_cops2 sc o l = Ok oF /\
    (mat_obj sc o oF = true \/ mat_obj sc o' oF = true) /\
    enc_obj sc oF = enc_obj sc o /\ ounk oF = ounk o /\ ocls oF = ocls o /\
    (forall g, which_one_of oF g = which_one_of o g) /\
    pickle_rt sc oF = Ok o'.
Proof.
  intros Hpre Hs. pose proof (pickle_pre_wf sc o Hpre) as Hwf.
  destruct (pickle_summary sc o o Hpre (mat_obj_refl sc o)) as (o' & Hp & He & Hu & Hc & _ & Hg & _).
  destruct (run_near sc o o' Hpre Hp l o (or_introl (mat_obj_refl sc o)) Hs) as (oF & Hr & Hn).
  exists o', oF. split; [exact Hp|]. split; [exact Hr|]. split; [exact Hn|].
  assert (HP : pickle_rt sc oF = Ok o') by exact (near_pickle sc o o' Hpre Hp oF Hn).
  destruct Hn as [H|H].
  - destruct (mat_indistinguishable sc Hwf o oF H) as (Me & _ & _ & _ & Mu & Mc).
    repeat (split; [assumption|]). split; [|exact HP].
    exact (proj2 (proj2 (keep_flag_selection sc o oF H))).
  - destruct (mat_indistinguishable sc Hwf o' oF H) as (Me & _ & _ & _ & Mu & Mc).
    split; [rewrite Me; exact He|]. split; [rewrite Mu; exact Hu|]. split; [rewrite Mc; exact Hc|].
    split; [|exact HP]. intros g. rewrite (proj2 (proj2 (keep_flag_selection sc o' oF H)) g). exact (Hg g).
Qed.

(* every pickle taken anywhere in such a sequence returns the same object: the sequence cut at any point ends "near" *)
Theorem pickles_in_sequence_agree sc o l1 l2 :
  pickle_pre sc o = true -> cops2_shaped sc o (l1 ++ C2Pickle :: l2) = true ->
  exists o', pickle_rt sc o = Ok o' /\ run_cops2 sc o (l1 ++ [C2Pickle]) = Ok o'.
Proof.
  intros Hpre Hs.
  destruct (pickle_summary sc o o Hpre (mat_obj_refl sc o)) as (o' & Hp & _).
  exists o'. split; [exact Hp|].
  assert (G : forall l s, near sc o o' s -> cops2_shaped sc s (l ++ C2Pickle :: l2) = true ->
              run_cops2 sc s (l ++ [C2Pickle]) = Ok o').
  { induction l as [|k l IH]; intros s Hn Hsh.
    - cbn [app run_cops2]. rewrite (near_pickle sc o o' Hpre Hp s Hn). reflexivity.
    - destruct k as [c|]; cbn [app run_cops2 cops2_shaped] in *.
      + apply andb_true_iff in Hsh as [Hc Hr]. apply IH; [apply (near_step sc o o' Hpre); assumption | exact Hr].
      + rewrite (near_pickle sc o o' Hpre Hp s Hn) in *. cbn [bind]. apply IH; [right; apply mat_obj_refl | exact Hsh]. }
  apply G; [left; apply mat_obj_refl | exact Hs].
Qed.
