(* C07: Model/C07Step.v is Message.load taken apart -- checked by conversion (about 30 s, hence its own file). *)
From BP Require Import Base.Prelude Model.Types Model.Varint Model.Object Model.Eq Model.Decode Model.C07Step.

(* the named pieces of Model/C07Step.v ARE the body of load: by conversion *)
Lemma load_unfold fuel' sc c raw sow unk cur s :
  load (S fuel') sc (Obj c raw sow unk cur) s None =
  c7_loop fuel' sc None (get_class sc c) (S (length s)) (Obj c raw true unk cur) s 0.
Proof. reflexivity. Qed.

