(* C07: the decoder (Message.load / parse) preserves the oneof invariant, and what it does to
   _group_current is a fold of [sel_record] over the records it reads. *)
From Coq Require Import ZArith List Bool Lia Arith.
From BP Require Import Base.Prelude Model.Types Model.Varint Model.Object Model.Eq Model.Encode Model.Decode.
From BP Require Import Model.History Model.C07Ops Model.C07Step Proofs.C07InvP Proofs.C07UnfoldP.
Import ListNotations.

(* ---- small facts ---- *)
Lemma set_nth_same {A} (g : nat) (x d : A) l : nth g l d = x -> set_nth g x l = l.
Proof.
  revert g; induction l as [|y l IH]; intros [|g] H; cbn [set_nth nth] in *; auto; [congruence|].
  f_equal. auto.
Qed.

Lemma set_nth_idem {A} (g : nat) (x : A) l : set_nth g x (set_nth g x l) = set_nth g x l.
Proof. revert g; induction l as [|y l IH]; intros [|g]; cbn [set_nth]; auto. f_equal. auto. Qed.

Lemma upd_sel_idem f i cur : upd_sel f i (upd_sel f i cur) = upd_sel f i cur.
Proof. unfold upd_sel. destruct (fgroup f); auto using set_nth_idem. Qed.

Lemma upd_sel_selected cur f i : group_selects cur f i <> Some false -> upd_sel f i cur = cur.
Proof.
  unfold group_selects, upd_sel. destruct (fgroup f) as [g|]; [|reflexivity].
  destruct (opt_nat_eqb (nth g cur None) (Some i)) eqn:E; [|congruence].
  intros _. apply opt_nat_eqb_eq in E. apply set_nth_same with (d := None). exact E.
Qed.

Lemma upd_sel_length f i cur : length (upd_sel f i cur) = length cur.
Proof. unfold upd_sel. destruct (fgroup f); auto using length_set_nth. Qed.

Lemma field_by_number_some cd num i f :
  field_by_number cd num = Some (i, f) -> nth_error (cfields cd) i = Some f /\ fnum f = num.
Proof.
  unfold field_by_number.
  assert (G : forall fs j acc i' f',
    (fix go (i : nat) (fs : list fdesc) (acc : option (nat * fdesc)) : option (nat * fdesc) :=
       match fs with
       | [] => acc
       | f :: fs' => go (S i) fs' (if fnum f =? num then Some (i, f) else acc)
       end) j fs acc = Some (i', f') ->
    acc = Some (i', f') \/ ((j <= i')%nat /\ nth_error fs (i' - j) = Some f' /\ fnum f' = num)).
  { clear. induction fs as [|f0 fs IH]; intros j acc i' f' H; [left; exact H|].
    apply IH in H. destruct H as [H | (Hj & Hn & Hf)].
    - destruct (fnum f0 =? num) eqn:E; [|left; exact H].
      injection H as <- <-. right. rewrite Nat.sub_diag. cbn [nth_error]. apply Z.eqb_eq in E. repeat split; auto; lia.
    - right. split; [lia|]. split; [|exact Hf].
      replace (i' - j)%nat with (S (i' - S j)) by lia. exact Hn. }
  intros H. apply G in H. destruct H as [H | (_ & Hn & Hf)]; [discriminate|].
  rewrite Nat.sub_0_r in Hn. auto.
Qed.

Lemma ocur_setattr sc c raw sow unk cur i v f :
  nth_error (cfields (get_class sc c)) i = Some f ->
  ocur (setattr sc (Obj c raw sow unk cur) i v) = upd_sel f i cur.
Proof.
  intros Hf. rewrite setattr_unfold. cbn zeta. rewrite Hf. unfold upd_sel.
  destruct (fgroup f); reflexivity.
Qed.

(* a raw attribute may change freely unless it is a member of an in-range group that selects nothing *)
Lemma InvS_raw_change' sc c raw raw' sow sow' unk unk' cur :
  InvS sc (Obj c raw sow unk cur) ->
  length raw' = length raw ->
  (forall k f g, nth_error (cfields (get_class sc c)) k = Some f -> fgroup f = Some g ->
                 (g < length cur)%nat -> nth g cur None = None ->
                 nth k raw' PPlaceholder = nth k raw PPlaceholder) ->
  InvS sc (Obj c raw' sow' unk' cur).
Proof.
  unfold InvS, cfs. cbn [oraw ocur ocls]. intros (Hr & Hc & Hs & Hn) Hl Hk.
  repeat split; auto; try congruence.
  intros g i f Hg E Hf Hfg. rewrite (Hk i f g Hf Hfg Hg E). eauto.
Qed.

(* ... in particular the attribute of a field whose group (if any, and in range) selects something *)
Lemma InvS_set_visible sc c raw sow sow' unk unk' cur i f x :
  InvS sc (Obj c raw sow unk cur) ->
  nth_error (cfields (get_class sc c)) i = Some f ->
  (forall g, fgroup f = Some g -> (g < length cur)%nat -> nth g cur None <> None) ->
  InvS sc (Obj c (set_nth i x raw) sow' unk' cur).
Proof.
  intros H Hf Hv. eapply InvS_raw_change'; [exact H | apply length_set_nth |].
  intros k f' g Hk Hg Hl E. apply nth_set_nth_neq. intros ->.
  rewrite Hf in Hk. injection Hk as <-. exact (Hv g Hg Hl E).
Qed.

(* ---- one record ---- *)
Lemma c7_step_spec {A} fuel' sc c raw sow unk cur p (k : obj -> result A) a :
  InvS sc (Obj c raw sow unk cur) ->
  c7_step fuel' sc (get_class sc c) (Obj c raw sow unk cur) p k = Ok a ->
  exists o', k o' = Ok a /\ InvS sc o' /\ ocls o' = c /\
             ocur o' = sel_record (get_class sc c) cur p.
Proof.
  intros H E. unfold c7_step in E. unfold sel_record.
  destruct (field_by_number (get_class sc c) (pnum p)) as [[i f]|] eqn:Hfb.
  2:{ eexists. split; [exact E|]. split; [eapply InvS_flags; exact H|]. auto. }
  destruct (wire_type_fits f (pwt p)) eqn:Hfit; cbn [negb] in E.
  2:{ eexists. split; [exact E|]. split; [eapply InvS_flags; exact H|]. auto. }
  destruct (field_by_number_some _ _ _ _ Hfb) as (Hf & _).
  destruct (c7_value fuel' sc f p) as [value|] eqn:Ev; cbn [bind] in E; [|discriminate].
  (* the state after `try: current = getattr(...) except AttributeError: setattr(default)` *)
  assert (Hmid : exists raw1 sow1 current,
     (match getattr sc (Obj c raw sow unk cur) i with
      | (o', Ok cur_v) => (o', cur_v)
      | (_, Err _) => (setattr sc (Obj c raw sow unk cur) i (default_of sc f), default_of sc f)
      end) = (Obj c raw1 sow1 unk (upd_sel f i cur), current) /\
     InvS sc (Obj c raw1 sow1 unk (upd_sel f i cur)) /\
     (forall g, fgroup f = Some g -> (g < length cur)%nat -> nth g (upd_sel f i cur) None <> None)).
  { destruct (getattr_cases sc c raw sow unk cur i) as [(e & Eg) | (f' & w & raw' & Eg & Hf' & Hs & Hraw)];
      rewrite Eg.
    - (* AttributeError: the default is assigned through __setattr__ *)
      cbn zeta. pose proof (InvS_setattr sc (Obj c raw sow unk cur) i (default_of sc f) H) as HI.
      pose proof (ocur_setattr sc c raw sow unk cur i (default_of sc f) f Hf) as Hc.
      destruct (setattr_shape sc (Obj c raw sow unk cur) i (default_of sc f)) as (Hcl & Hu).
      destruct (setattr sc (Obj c raw sow unk cur) i (default_of sc f)) as [c1 raw1 sow1 unk1 cur1].
      cbn [ocls ounk ocur] in *. subst c1 unk1 cur1.
      exists raw1, sow1, (default_of sc f). split; [reflexivity|]. split; [exact HI|].
      intros g Hg Hl. unfold upd_sel. rewrite Hg, nth_set_nth_eq by exact Hl. discriminate.
    - rewrite Hf in Hf'. injection Hf' as <-.
      rewrite (upd_sel_selected cur f i Hs).
      exists raw', sow, w. split; [reflexivity|]. split.
      + destruct Hraw as [->| ->]; [exact H | eapply InvS_set_readable; eauto].
      + intros g Hg Hl E0. apply Hs. unfold group_selects. rewrite Hg, E0. reflexivity. }
  destruct Hmid as (raw1 & sow1 & current & Hm & H1 & Hvis). rewrite Hm in E. clear Hm.
  assert (Hvis' : forall g, fgroup f = Some g -> (g < length (upd_sel f i cur))%nat ->
                            nth g (upd_sel f i cur) None <> None).
  { intros g Hg Hl. rewrite upd_sel_length in Hl. auto. }
  assert (Hset : forall x, InvS sc (Obj c (set_nth i x raw1) sow1 unk (upd_sel f i cur))).
  { intros x. eapply InvS_set_visible; eauto. }
  destruct (ptype_eqb (fty f) TMap).
  - destruct value; try discriminate. destruct current; try discriminate.
    destruct (getattr sc o 0) as [? [k0|]]; try discriminate.
    destruct (getattr sc o 1) as [? [v0|]]; try discriminate.
    eexists. split; [exact E|]. split; [apply Hset|]. auto.
  - assert (Hfin : forall current', current' = current ->
        k (setattr sc (Obj c raw1 sow1 unk (upd_sel f i cur)) i value) = Ok a ->
        exists o', k o' = Ok a /\ InvS sc o' /\ ocls o' = c /\ ocur o' = upd_sel f i cur).
    { intros _ _ E'. eexists. split; [exact E'|]. split; [apply InvS_setattr; exact H1|].
      split; [apply setattr_shape|]. rewrite (ocur_setattr _ _ _ _ _ _ _ _ _ Hf). apply upd_sel_idem. }
    destruct current; try (apply (Hfin _ eq_refl); exact E).
    eexists. split; [exact E|]. split; [apply Hset|]. auto.
Qed.

(* ---- the loop ---- *)
Lemma c7_loop_spec fuel' sc size c : forall n o s read o' s',
  InvS sc o -> ocls o = c ->
  c7_loop fuel' sc size (get_class sc c) n o s read = Ok (o', s') ->
  InvS sc o' /\ ocls o' = c /\
  (size = None -> exists ps, frames fuel' n s = Ok ps /\
                             ocur o' = fold_left (sel_record (get_class sc c)) ps (ocur o)).
Proof.
  induction n as [|n IH]; intros o s read o' s' H Hc E; [discriminate|].
  cbn [c7_loop] in E. destruct s as [|b s].
  - assert (E' : Ok (o, @nil byte) = Ok (o', s')).
    { destruct size as [sz|]; [|exact E]. destruct (read <? sz); [discriminate | exact E]. }
    injection E' as <- <-. split; [exact H|]. split; [exact Hc|].
    intros _. exists []. split; reflexivity.
  - destruct (load_varint (b :: s)) as [[[nw r] s1]|] eqn:Ev; cbn [bind] in E; [|discriminate].
    destruct (load_field fuel' s1 nw r) as [[p s2]|] eqn:Ef; cbn [bind] in E; [|discriminate].
    match type of E with (do read <- ?R; _) = _ => destruct R as [read'|] eqn:Er end; cbn [bind] in E; [|discriminate].
    destruct o as [c0 raw sow unk cur]. cbn [ocls] in Hc. subst c0.
    apply c7_step_spec in E; [|exact H].
    destruct E as (o1 & E & H1 & Hc1 & Hcur1).
    destruct (match size with Some sz => read' =? sz | None => false end) eqn:Efin.
    + injection E as <- <-. split; [exact H1|]. split; [exact Hc1|].
      intros ->. discriminate.
    + apply IH in E; auto. destruct E as (H2 & Hc2 & Hps). split; [exact H2|]. split; [exact Hc2|].
      intros Hs. destruct (Hps Hs) as (ps & Hfr & Hfold).
      exists (p :: ps). split.
      * cbn [frames]. rewrite Ev. cbn [bind]. rewrite Ef. cbn [bind]. rewrite Hfr. reflexivity.
      * cbn [fold_left ocur]. rewrite Hfold, Hcur1. reflexivity.
Qed.

(* ---- Message.load / parse ---- *)
Theorem InvS_load fuel sc o s o' s' :
  InvS sc o -> load fuel sc o s None = Ok (o', s') -> InvS sc o' /\ ocls o' = ocls o.
Proof.
  intros H E. destruct fuel as [|fuel']; [discriminate|].
  destruct o as [c raw sow unk cur]. rewrite load_unfold in E.
  apply c7_loop_spec with (c := c) in E; [tauto | eapply InvS_flags; exact H | reflexivity].
Qed.

Theorem InvS_parse_into sc o bs o' : InvS sc o -> parse_into sc o bs = Ok o' -> InvS sc o' /\ ocls o' = ocls o.
Proof.
  unfold parse_into. intros H E.
  destruct (load _ sc o bs None) as [[o1 s1]|] eqn:El; cbn [bind] in E; [|discriminate].
  injection E as <-. eapply InvS_load; eauto.
Qed.

Theorem InvS_parse sc c bs o' : parse sc c bs = Ok o' -> InvS sc o' /\ ocls o' = c.
Proof. unfold parse. intros E. apply InvS_parse_into in E; [exact E | apply InvS_new]. Qed.

(* the selections after parse(): a fold over the records read *)
Theorem parse_into_selections sc o bs o' :
  InvS sc o -> parse_into sc o bs = Ok o' ->
  exists ps, frames (length bs) (S (length bs)) bs = Ok ps /\
             ocur o' = fold_left (sel_record (get_class sc (ocls o))) ps (ocur o).
Proof.
  unfold parse_into. intros H E.
  destruct (load _ sc o bs None) as [[o1 s1]|] eqn:El; cbn [bind] in E; [|discriminate].
  injection E as <-. destruct o as [c raw sow unk cur]. rewrite load_unfold in El.
  apply c7_loop_spec with (c := c) in El; [|eapply InvS_flags; exact H|reflexivity].
  destruct El as (_ & _ & Hps). destruct (Hps eq_refl) as (ps & Hfr & Hfold).
  exists ps. split; [exact Hfr | exact Hfold].
Qed.

(* ---- pickle round trip ---- *)
Theorem InvS_pickle sc o o' : pickle_rt sc o = Ok o' -> InvS sc o' /\ ocls o' = ocls o.
Proof.
  unfold pickle_rt. intros E. destruct (enc_obj sc o) as [bs|]; cbn [bind] in E; [|discriminate].
  apply InvS_parse in E. exact E.
Qed.
