(* C14 / pickle with unknown fields at ANY depth - assembled from the clones of the C01 proof for [normu_obj]
   (Proofs/C14U*.v): decode (C14UMain), same bytes again (C14UStable), == in both operand orders (C14UEq, C14UEqR),
   observers at the top level (C14UObs) and presence at every path (C14UPres). *)
From Coq Require Import ZArith List Bool Lia ZifyBool.
From BP Require Import Base.Prelude Model.Types Model.Object Model.Eq Model.Encode Model.Decode Model.WellFormed.
From BP Require Import Model.History Model.C14Ops Model.C01Def Model.C14Pickle Model.C14UDef.
From BP Require Import Proofs.C01Unfold Proofs.C14UUnfold Proofs.C14UMain Proofs.C14UStable Proofs.C14UEq Proofs.C14UEqR Proofs.C14UObs Proofs.C14UPres.
From BP Require Import Proofs.C14Obs Proofs.C14Pres Proofs.C14Thm Proofs.C14Pickle.

Theorem pickle_faithful_u sc o :
  c01_schema_ok sc = true -> c14u_value_ok sc o = true -> enc_small sc o = true ->
  exists o', pickle_rt sc o = Ok o' /\ o' = normu_obj sc o /\ pickle_faithful_to sc o o'.
Proof.
  intros Hs Hv Hsm. destruct (c14u_decode_is_norm sc o Hs Hv) as (bs & Eb & Hrt).
  unfold enc_small in Hsm. rewrite Eb in Hsm. apply Z.ltb_lt in Hsm. specialize (Hrt Hsm).
  exists (normu_obj sc o). split; [unfold pickle_rt; rewrite Eb; cbn [bind]; exact Hrt|]. split; [reflexivity|].
  unfold pickle_faithful_to. split; [|split; [|split; [|split; [|split; [|split; [|split]]]]]].
  - intros Hn. split; [apply c14u_decoded_equal_r; assumption | apply c14u_decoded_equal; assumption].
  - apply c14u_reencode_stable; assumption.
  - destruct o; reflexivity.
  - destruct o; reflexivity.
  - destruct o; reflexivity.
  - destruct o; reflexivity.
  - intros g. destruct o; reflexivity.
  - intros Hsow. pose proof (c14u_observers_agree sc o Hs Hv Hsow) as Ho. split; [exact Ho|].
    apply obs_top_presence; try assumption; try (destruct o; reflexivity).
    apply in_range_length. apply c14u_value_ok_spec in Hv. exact (proj1 Hv).
Qed.

Theorem pickle_summary_u sc o o2 :
  pickle_pre_u sc o = true -> mat_obj sc o o2 = true ->
  exists o', pickle_rt sc o2 = Ok o' /\ o' = normu_obj sc o /\
    enc_obj sc o' = enc_obj sc o2 /\ ounk o' = ounk o2 /\ ocls o' = ocls o2 /\ osow o' = true /\
    (forall g, which_one_of o' g = which_one_of o2 g) /\
    (deep nan_free (PMsg o) = true -> obj_eq sc o' o2 = true /\ obj_eq sc o2 o' = true) /\
    (sow_ok sc o = true ->
     presence_below sc o' [] = presence_below sc o2 [] /\ forall i, child_flag sc o' i = child_flag sc o2 i) /\
    (deep (sow_ok sc) (PMsg o) = true -> deep (flags_ok sc) (PMsg o) = true ->
     forall p, presence_below sc o' p = presence_below sc o2 p).
Proof.
  unfold pickle_pre_u. intros H Hm. apply andb_true_iff in H as [H Hsm]. apply andb_true_iff in H as [Hs Hv].
  pose proof (c01_schema_wf sc Hs) as Hwf.
  destruct (pickle_faithful_u sc o Hs Hv Hsm) as (o' & Hp & -> & He & Henc & Hc & Hu & Hso & Hg & Hw & Hpres).
  destruct (mat_indistinguishable sc Hwf o o2 Hm) as (Me & Meq & _ & _ & Mu & Mc).
  destruct (mat_obj_cur sc o o2 Hm) as (Mg & _).
  exists (normu_obj sc o). split; [rewrite (pickle_of_mat sc Hwf o o2 Hm); exact Hp|]. split; [reflexivity|].
  split; [rewrite Me; exact Henc|]. split; [rewrite Mu; exact Hu|]. split; [rewrite Mc; exact Hc|]. split; [exact Hso|].
  split; [intros g; unfold which_one_of; rewrite Mg, Hg; reflexivity|].
  split; [intros Hn; destruct (He Hn) as (E1 & E2); destruct (Meq (normu_obj sc o)) as (M1 & M2); rewrite M1, M2; split; assumption|].
  split.
  - intros Hsow. destruct (Hpres Hsow) as (_ & P1 & P2). split.
    + rewrite (presence_below_mat sc o o2 Hm). exact P1.
    + intros i. rewrite (child_flag_mat sc o o2 i Hm). apply P2.
  - intros Hsw Hfl p. rewrite (presence_below_mat sc o o2 Hm).
    apply c14u_value_ok_spec in Hv. apply (presence_everywhere sc Hs o Hv Hsw Hfl).
Qed.

(* unknown bytes survive at every depth: the decoded form keeps the _unknown_fields of every message it keeps *)
Lemma normu_unk sc o : ounk (normu_obj sc o) = ounk o.
Proof. destruct o; reflexivity. Qed.
