(* C02, encoder side: every shape a slot of a message can have — singular (plain / optional / oneof member /
   wrapper), nothing written, the selected oneof member still holding PLACEHOLDER, packed and unpacked repeated
   fields.  Map fields are in Proofs/C02LegalDict.v. *)
From BP Require Import Base.Prelude Model.Types Model.Varint Model.Scalar Model.Float Model.Utf8.
From BP Require Import Model.Object Model.Eq Model.TimeCore Model.Encode Model.Decode Model.WellFormed Model.C01Def.
From BP Require Import Spec.Varint Spec.Wire.
From BP Require Import Proofs.BytesP Proofs.LenP Proofs.C02Abs Proofs.C02WireP Proofs.C02ListP Proofs.C02StepP Proofs.C02SimP Proofs.C02MapP.
From BP Require Import Proofs.C01Frame Proofs.C01Elem Proofs.C01Builtin Proofs.C01Unfold Proofs.C01Value Proofs.C01Slot Proofs.C01Slot2
     Proofs.C01Main Proofs.C01Stable.
From BP Require Import Proofs.C02LegalSpec Proofs.C02LegalLeaf Proofs.C02LegalPacked Proofs.C02LegalWalk Proofs.C02LegalFlat Proofs.C02LegalElem.
From BP Require Import gen.Tables.
From Coq Require Import ZifyBool.
Ltac Zify.zify_post_hook ::= Z.to_euclidean_division_equations.

(* the record of a packed repeated field *)
Lemma packed_rec_fine sc nested nested_ok f buf es :
  card_of f = Repeated -> packable (fty f) = true -> unpack (fty f) buf = Some es ->
  narrow_t (fty f) (Len buf) = true -> rec_fine sc nested nested_ok f (Len buf) = true.
Proof.
  intros Hc Hp Hu Hn.
  assert (Hm : msg_class f = None) by (unfold msg_class; destruct (fty f); try reflexivity; discriminate Hp).
  unfold rec_fine, accepts, payload_valid, rec_sup, fits, elems_of. rewrite Hc, Hm, Hp, Hu.
  change (narrow_ok f (Len buf)) with (narrow_t (fty f) (Len buf)). rewrite Hn.
  destruct (wire_of (fty f)); reflexivity.
Qed.

Lemma sing_msg_repeated f : card_of f = Repeated -> sing_msg f = false.
Proof. unfold sing_msg. intros ->. reflexivity. Qed.

Section Slots.
  Variable sc : schema.
  Hypothesis Hsc : c01_schema_ok sc = true.
  Variables (c : nat) (cur : list (option nat)) (i : nat) (f : fdesc).
  Hypothesis Hwf : wf_field sc (cngroups (get_class sc c)) f = true.
  Let sel := group_selects cur f i.
  Let nc := length (classes sc).
  Let ne := length (enums sc).
  Let Hnum := wf_field_num _ _ _ Hwf.

  (* ---- singular ---- *)
  Lemma slot_sing_all x :
    is_singular x = true -> sel <> Some false -> slot_in_range sc f x = true -> elemP (Good2 sc) x ->
    slot_legal sc cur i f x.
  Proof.
    intros Hx Hsel Hr HG.
    assert (Hh : exists p, fhint f = HPlain p \/ fhint f = HOptional p).
    { unfold slot_in_range in Hr. destruct (fhint f) as [p|p|p|pk pv']; eauto;
        destruct x; try discriminate Hx; try discriminate Hr; destruct (fmap f) as [[? ?]|]; discriminate Hr. }
    destruct Hh as (p & Hh). apply (slot_singular2 sc cur i f x p Hx Hsel Hh).
    destruct Hh as [Hh|Hh].
    - destruct (wf_plain _ _ _ _ Hwf Hh) as (Hfo & Hfw & Hfm & Hmap & Hfit).
      assert (Hr' : elem_in_range sc (fty f) p x = true).
      { unfold slot_in_range in Hr. rewrite Hh in Hr. destruct x; try discriminate Hx; exact Hr. }
      apply (elem_any2 sc Hsc f p x); auto. rewrite Hh. reflexivity.
    - destruct (wf_optional _ _ _ _ Hwf Hh) as (Hfm & Hfg & [(w & vt & Hfw & Hfo & Hty & Hwc & Hvt & Hfit) | (Hfw & Hfo & Hmap & Hfit)]).
      + assert (Hp : match p with PyMsg _ | PyDatetime | PyTimedelta => False | _ => True end).
        { destruct w; try discriminate Hvt; injection Hvt as <-; destruct p; try discriminate Hfit; exact I. }
        assert (Hr' : scalar_in_range w x = true).
        { unfold slot_in_range in Hr. rewrite Hh, Hfw in Hr.
          rewrite <- (scalar_elem_in_range sc w p x Hp). destruct x; try discriminate Hx; exact Hr. }
        apply (elem_wrapped2 sc Hsc f w vt x); auto; rewrite Hh; cbn [elem_hint]; intros ->; exact Hp.
      + assert (Hr' : elem_in_range sc (fty f) p x = true).
        { unfold slot_in_range in Hr. rewrite Hh, Hfw in Hr. destruct x; try discriminate Hx; exact Hr. }
        apply (elem_any2 sc Hsc f p x); auto. rewrite Hh. reflexivity.
  Qed.

  (* ---- nothing is written ---- *)
  Lemma slot_unselected2 x : sel = Some false -> slot_legal sc cur i f x.
  Proof. intros Hs. apply slot_legal_nothing. unfold enc_slot. fold sel. rewrite Hs. reflexivity. Qed.

  Lemma slot_none2 : slot_legal sc cur i f PNone.
  Proof. apply slot_legal_nothing. unfold enc_slot. destruct (group_selects cur f i) as [[|]|]; reflexivity. Qed.

  Lemma slot_placeholder_unselected2 : sel = None -> slot_legal sc cur i f PPlaceholder.
  Proof.
    intros Hs. apply slot_legal_nothing. apply (enc_placeholder_unselected sc c cur i f Hwf []); [|exact Hs].
    intros g _ k f' _ _ _. destruct k; reflexivity.
  Qed.

  (* ---- the selected member of a oneof that still holds PLACEHOLDER: its default is written ---- *)
  Lemma slot_placeholder_selected2 : sel = Some true -> slot_legal sc cur i f PPlaceholder.
  Proof.
    intros Hs.
    pose proof (group_selects_shape cur f i) as Hsh. fold sel in Hsh. rewrite Hs in Hsh. destruct Hsh as (g & Hg & _).
    assert (Hh : exists p, fhint f = HPlain p).
    { destruct (fhint f) as [p|p|p|pk pv'] eqn:Hh; [eauto| | |].
      - destruct (wf_optional _ _ _ _ Hwf Hh) as (_ & Hg' & _). congruence.
      - destruct (wf_list _ _ _ _ Hwf Hh) as (_ & _ & _ & Hg' & _). congruence.
      - destruct (wf_dict _ _ _ _ _ Hwf Hh) as (_ & _ & Hg' & _). congruence. }
    destruct Hh as (p & Hh). destruct (wf_plain _ _ _ _ Hwf Hh) as (Hfo & Hfw & _ & Hmap & Hfit).
    pose proof (pyty_fits_scalar _ _ _ _ Hfit) as Ht.
    set (msg0 := msg_bytes (fun _ : obj => @Ok (list byte) [])).
    assert (Eq : enc_slot sc cur i f PPlaceholder = serialize_with msg0 (fnum f) (fty f) (default_of sc f) true (fwraps f)).
    { unfold enc_slot. fold sel. rewrite Hs. unfold default_of. rewrite Hh.
      destruct p; unfold emit_field; rewrite Hg; cbn [Encode.is_some orb negb]; rewrite andb_false_r, ?orb_true_r; reflexivity. }
    apply (slot_from_ser sc cur i f PPlaceholder p msg0 (default_of sc f) true (or_introl Hh) Eq).
    unfold default_of. rewrite Hh.
    destruct p.
    1-6: (apply elem_scalar2; try assumption;
          first [ solve [unfold msg_class; destruct (fty f); try reflexivity; discriminate Ht]
                | solve [destruct (fty f); try discriminate Hfit; reflexivity] ]).
    - apply (msg_elem2 msg0 sc f c0); try assumption.
      + unfold msg_class. rewrite Ht, Hh, Hfw. reflexivity.
      + intros val Hp _. rewrite Hfw in Hp. cbn in Hp. injection Hp as <-.
        eexists. split; [apply legal_at_nil|]. unfold exact_val. rewrite Hh, Hfw. reflexivity.
    - apply (elem_datetime2 sc Hsc); try assumption; [rewrite Hh; reflexivity | unfold dt_min_us, dt_max_us; lia].
    - apply (elem_timedelta2 sc Hsc); try assumption; [rewrite Hh; reflexivity | lia].
  Qed.

  (* ---- repeated fields ---- *)
  Section Repeated.
    Variable p : pyty.
    Hypothesis Hh : fhint f = HList p.

    Let item_bytes2 (item : pv) : result (list byte) :=
      do r <- serialize_with (msg_bytes (enc_obj sc)) (fnum f) (fty f) item true (fwraps f);
      Ok (match r with [] => [x0a; x00] | _ => r end).

    Lemma card_list : card_of f = Repeated.
    Proof. unfold card_of. rewrite Hh. reflexivity. Qed.

    Lemma unpacked_items2 n' items : forall bs,
      Forall (elem_legal sc f) items ->
      concat_map item_bytes2 items = Ok bs -> lsmall bs -> (length bs <= n')%nat ->
      exists rs, wire_ok bs rs /\
        Forall (fun r => fst r = fnum f /\ rec_fine sc (nested_sem n' sc) (nested_ok_of n' sc) f (snd r) = true) rs.
    Proof.
      induction items as [|y items IH]; intros bs He E Hs Hl.
      { injection E as <-. exists []. split; constructor. }
      inversion He as [|? ? Hy He']; subst. rewrite concat_map_cons in E.
      unfold item_bytes2 at 1 in E.
      destruct (serialize_with (msg_bytes (enc_obj sc)) (fnum f) (fty f) y true (fwraps f)) as [r|] eqn:Er; [|discriminate].
      cbn [bind] in E.
      destruct (concat_map item_bytes2 items) as [rest|] eqn:Erest; [|discriminate]. cbn [bind] in E. injection E as <-.
      destruct (Hy n' true r Er) as [(_ & Habs) | (Hne & Hrec)]; [discriminate|].
      assert (Hr : (match r with [] => [x0a; x00] | _ => r end) = r) by (destruct r; [congruence | reflexivity]).
      rewrite Hr in *. rewrite app_length in Hl.
      destruct (Hrec (lsmall_app_l _ _ Hs) ltac:(lia)) as (pl & Rp & Fp).
      destruct (IH rest He' eq_refl (lsmall_app_r _ _ Hs) ltac:(lia)) as (rs & W & F).
      exists ((fnum f, pl) :: rs). split; [apply ok_cons; assumption|].
      constructor; [|exact F]. split; [reflexivity|]. cbn [snd]. apply elem_rec_fine; [|exact Fp].
      rewrite card_list. discriminate.
    Qed.

    Lemma slot_list2 l :
      slot_in_range sc f (PList l) = true -> Forall (elemP (Good2 sc)) l -> slot_legal sc cur i f (PList l).
    Proof.
      intros Hr HG.
      destruct (wf_list _ _ _ _ Hwf Hh) as (Hfo & Hfw & _ & Hg & Hmap & Hfit).
      assert (Hsel : sel = None) by (unfold sel, group_selects; rewrite Hg; reflexivity).
      assert (Hin : Forall (fun y => elem_in_range sc (fty f) p y = true) l).
      { unfold slot_in_range in Hr. rewrite Hh in Hr. apply all_fix_forall in Hr. exact Hr. }
      assert (Hemit : enc_slot sc cur i f (PList l) = emit_field (enc_obj sc) sc f None (PList l))
        by (unfold enc_slot; fold sel; rewrite Hsel; reflexivity).
      destruct l as [|y l'].
      { apply slot_legal_nothing. rewrite Hemit. unfold emit_field. cbn [is_default]. rewrite Hh, Hg, Hfo. reflexivity. }
      set (l := y :: l') in *.
      assert (Hemit2 : emit_field (enc_obj sc) sc f None (PList l) =
                       if tmem (fty f) PACKED_TYPES
                       then (do buf <- concat_map (preprocess_with (msg_bytes (enc_obj sc)) (fty f) None) l;
                             serialize_with (msg_bytes (enc_obj sc)) (fnum f) TBytes (PBytes buf) false None)
                       else concat_map item_bytes2 l).
      { unfold emit_field. cbn [is_default]. rewrite Hh. cbn [andb]. reflexivity. }
      intros n' here E Hs Hl. rewrite Hemit, Hemit2 in E.
      destruct (tmem (fty f) PACKED_TYPES) eqn:Hpk.
      - (* packed: one Len record *)
        pose proof (packed_scalar _ _ _ _ Hpk Hfit) as Hps.
        assert (Hsr : Forall (fun x => scalar_in_range (fty f) x = true) l).
        { eapply Forall_impl; [|exact Hin]. intros x Hx. rewrite <- (scalar_elem_in_range sc (fty f) p x Hps). exact Hx. }
        destruct (concat_map (preprocess_with (msg_bytes (enc_obj sc)) (fty f) None) l) as [buf|] eqn:Eb; [|discriminate].
        cbn [bind] in E.
        destruct (packed_payload _ _ _ _ Hpk Hsr Eb) as ((es & Hu) & Hn).
        destruct (ser_len_rec _ (fnum f) TBytes (PBytes buf) false None buf here eq_refl Hnum eq_refl E)
          as [(-> & _) | (Hne & Hrec)]; [apply nothing_legal|].
        destruct (Hrec Hs) as (Rp & _).
        exists [(fnum f, Len buf)]. split; [apply wire_ok_one; exact Rp|].
        split; [|intros SM; rewrite (sing_msg_repeated f card_list) in SM; discriminate].
        constructor; [|constructor]. split; [reflexivity|]. cbn [snd].
        apply (packed_rec_fine sc _ _ f buf es card_list); [rewrite <- packed_packable; exact Hpk | exact Hu | exact Hn].
      - (* one record per element *)
        assert (Hel : Forall (elem_legal sc f) l).
        { apply Forall_forall. intros x Hx. rewrite Forall_forall in Hin, HG.
          apply (elem_any2 sc Hsc f p x); auto. rewrite Hh. reflexivity. }
        destruct (unpacked_items2 n' l here Hel E Hs Hl) as (rs & W & F).
        exists rs. split; [exact W|]. split; [exact F|].
        intros SM. rewrite (sing_msg_repeated f card_list) in SM. discriminate.
    Qed.
  End Repeated.
End Slots.
