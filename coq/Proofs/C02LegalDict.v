(* C02, encoder side: map fields.  Every entry is written as one Len record around the key record (field 1) and the
   value record (field 2) of the synthetic Entry class: the entry payload is itself a legal, supported serialisation
   of that class with nothing but key and value in it ([entry_clean]). *)
From BP Require Import Base.Prelude Model.Types Model.Varint Model.Scalar Model.Float Model.Utf8.
From BP Require Import Model.Object Model.Eq Model.TimeCore Model.Encode Model.Decode Model.WellFormed Model.C01Def.
From BP Require Import Spec.Varint Spec.Wire.
From BP Require Import Proofs.BytesP Proofs.LenP Proofs.C02Abs Proofs.C02WireP Proofs.C02ListP Proofs.C02StepP Proofs.C02SimP Proofs.C02MapP.
From BP Require Import Proofs.C01Frame Proofs.C01Elem Proofs.C01Builtin Proofs.C01Unfold Proofs.C01Value Proofs.C01Slot Proofs.C01Slot2
     Proofs.C01Dict Proofs.C01Main Proofs.C01Stable.
From BP Require Import Proofs.C02LegalSpec Proofs.C02LegalLeaf Proofs.C02LegalWalk Proofs.C02LegalFlat Proofs.C02LegalElem.
From BP Require Import gen.Tables.
From Coq Require Import ZifyBool.
Ltac Zify.zify_post_hook ::= Z.to_euclidean_division_equations.

(* the records one call of _serialize_single contributes *)
Lemma elem_records sc f x p n' se bs :
  fhint f = HPlain p \/ fhint f = HOptional p \/ fhint f = HList p ->
  elem_legal sc f x ->
  serialize_with (msg_bytes (enc_obj sc)) (fnum f) (fty f) x se (fwraps f) = Ok bs -> lsmall bs -> (length bs <= n')%nat ->
  exists rs, wire_ok bs rs /\
    Forall (fun r => fst r = fnum f /\ rec_fine sc (nested_sem n' sc) (nested_ok_of n' sc) f (snd r) = true) rs /\
    (length rs <= 1)%nat.
Proof.
  intros Hh He E Hs Hl.
  destruct (He n' _ _ E) as [(-> & _) | (Hne & Hrec)].
  { exists []. split; [constructor|]. split; [constructor | cbn; lia]. }
  destruct (Hrec Hs Hl) as (pl & Rp & Fp).
  exists [(fnum f, pl)]. split; [apply wire_ok_one; exact Rp|]. split; [|cbn; lia].
  constructor; [|constructor]. split; [reflexivity|]. cbn [snd]. apply elem_rec_fine; [|exact Fp].
  apply (hint_not_map f p Hh).
Qed.

Section Dict2.
  Variable sc : schema.
  Hypothesis Hsc : c01_schema_ok sc = true.
  Variables (c : nat) (cur : list (option nat)) (i : nat) (f : fdesc).
  Hypothesis Hwf : wf_field sc (cngroups (get_class sc c)) f = true.
  Hypothesis Hent : entry_hints_ok sc f = true.
  Variables (pk pv' : pyty).
  Hypothesis Hh : fhint f = HDict pk pv'.
  Let msgf := msg_bytes (enc_obj sc).

  Lemma card_dict : card_of f = MapOf.
  Proof. unfold card_of. rewrite Hh. reflexivity. Qed.

  (* one entry payload *)
  Lemma entry_legal n' kt vt fk fv k y sk sv :
    cfields (get_class sc (fentry f)) = [fk; fv] ->
    fnum fk = 1 -> fty fk = kt -> fwraps fk = None -> (exists p, fhint fk = HPlain p) ->
    fnum fv = 2 -> fty fv = vt -> fwraps fv = None -> (exists p, fhint fv = HPlain p) ->
    elem_legal sc fk k -> elem_legal sc fv y ->
    serialize_with msgf 1 kt k false None = Ok sk -> serialize_with msgf 2 vt y false None = Ok sv ->
    lsmall (sk ++ sv) -> (length (sk ++ sv) < n')%nat ->
    rec_fine sc (nested_sem n' sc) (nested_ok_of n' sc) f (Len (sk ++ sv)) = true.
  Proof.
    intros Hcf Hn1 Ht1 Hw1 (p1 & Hh1) Hn2 Ht2 Hw2 (p2 & Hh2) Hek Hev Esk Esv Hs Hl.
    destruct n' as [|n'']; [lia|]. rewrite app_length in Hl.
    rewrite <- Hn1, <- Ht1, <- Hw1 in Esk. rewrite <- Hn2, <- Ht2, <- Hw2 in Esv.
    destruct (elem_records sc fk k p1 n'' false sk (or_introl Hh1) Hek Esk (lsmall_app_l _ _ Hs) ltac:(lia)) as (rk & Wk & Fk & Lk).
    destruct (elem_records sc fv y p2 n'' false sv (or_introl Hh2) Hev Esv (lsmall_app_r _ _ Hs) ltac:(lia)) as (rv & Wv & Fv & Lv).
    set (ce := fentry f) in *.
    assert (ND : nodup_z (map fnum (cfields (get_class sc ce))) = true) by (rewrite Hcf; cbn [map]; rewrite Hn1, Hn2; reflexivity).
    assert (Hok : okrs sc (nested_sem n'' sc) (nested_ok_of n'' sc) (cfields (get_class sc ce)) 0 (rk ++ rv)).
    { apply (okrs_slot sc _ _ _ 0 fk rk rv); [rewrite Hcf; reflexivity | exact Fk | intros _; exact Lk|].
      rewrite <- (app_nil_r rv). apply (okrs_slot sc _ _ _ 1 fv rv []); [rewrite Hcf; reflexivity | exact Fv | intros _; exact Lv|].
      constructor. }
    destruct (okrs_sem n'' sc ce (rk ++ rv) ND Hok) as ((a & Sm) & Sp).
    pose proof (wire_ok_parse _ _ (wire_ok_app _ _ _ _ Wk Wv)) as Hp.
    assert (Hfits : forall g rs, (g = fk \/ g = fv) ->
              Forall (fun r => fst r = fnum g /\ rec_fine sc (nested_sem n'' sc) (nested_ok_of n'' sc) g (snd r) = true) rs ->
              forallb (fun '(num, q) => match find_field (cfields (get_class sc ce)) num with
                                        | Some (_, fe) => fits fe q
                                        | None => false
                                        end) rs = true).
    { intros g rs Hg Hall. apply forallb_forall. intros [num q] Hin. rewrite Forall_forall in Hall.
      destruct (Hall _ Hin) as (Hnum & Hfine). cbn [fst snd] in *. subst num.
      assert (Hfind : exists j, find_field (cfields (get_class sc ce)) (fnum g) = Some (j, g)).
      { destruct Hg as [-> | ->]; [exists 0%nat | exists 1%nat]; apply find_field_nth; try exact ND; rewrite Hcf; reflexivity. }
      destruct Hfind as (j & ->). unfold rec_fine, accepts in Hfine.
      apply andb_true_iff in Hfine as [Hfine _]. apply andb_true_iff in Hfine as [Hfine _].
      now apply andb_true_iff in Hfine as [Hfine _]. }
    unfold rec_fine, accepts, payload_valid, rec_sup, fits, narrow_ok. rewrite card_dict.
    destruct (dict_facts sc c cur i f Hwf Hent pk pv' Hh) as (_ & _ & _ & Hty & _). rewrite Hty.
    cbn [wire_of narrow32 len_bytes andb].
    assert (Hclean : entry_clean sc f (Len (sk ++ sv)) = true).
    { unfold entry_clean. rewrite Hp. fold ce. rewrite forallb_app. apply andb_true_iff.
      split; [apply (Hfits fk rk) | apply (Hfits fv rv)]; auto. }
    rewrite Hclean. unfold nested_sem, nested_ok_of. fold ce. rewrite Hp. cbn [obind]. rewrite Sm, Sp. reflexivity.
  Qed.

  Lemma dict_entries2 n' kt vt fk fv d : forall bs,
    cfields (get_class sc (fentry f)) = [fk; fv] ->
    fnum fk = 1 -> fty fk = kt -> fwraps fk = None -> (exists p, fhint fk = HPlain p) ->
    fnum fv = 2 -> fty fv = vt -> fwraps fv = None -> (exists p, fhint fv = HPlain p) ->
    Forall (fun kv => elem_legal sc fk (fst kv) /\ elem_legal sc fv (snd kv)) d ->
    entries_bytes sc f kt vt d = Ok bs -> lsmall bs -> (length bs <= n')%nat ->
    exists rs, wire_ok bs rs /\
      Forall (fun r => fst r = fnum f /\ rec_fine sc (nested_sem n' sc) (nested_ok_of n' sc) f (snd r) = true) rs.
  Proof.
    intros bs Hcf Hn1 Ht1 Hw1 Hh1 Hn2 Ht2 Hw2 Hh2 Hall. revert bs.
    destruct (dict_facts sc c cur i f Hwf Hent pk pv' Hh) as (_ & _ & _ & Hty & _).
    induction Hall as [|[k y] d (Hk & Hy) _ IH]; intros bs E Hs Hl.
    { injection E as <-. exists []. split; constructor. }
    cbn [fst snd] in *. rewrite entries_bytes_cons in E. fold msgf in E.
    destruct (serialize_with msgf 1 kt k false None) as [sk|] eqn:Esk; [|discriminate]. cbn [bind] in E.
    destruct (serialize_with msgf 2 vt y false None) as [sv|] eqn:Esv; [|discriminate]. cbn [bind] in E.
    destruct (serialize_with msgf (fnum f) (fty f) (PBytes (sk ++ sv)) true None) as [e|] eqn:Ee; [|discriminate]. cbn [bind] in E.
    destruct (entries_bytes sc f kt vt d) as [rest|] eqn:Er; [|discriminate]. cbn [bind] in E. injection E as <-.
    rewrite Hty in Ee. rewrite app_length in Hl.
    destruct (ser_len_rec msgf (fnum f) TMap (PBytes (sk ++ sv)) true None (sk ++ sv) e eq_refl (wf_field_num _ _ _ Hwf) eq_refl Ee)
      as [(_ & _ & Habs & _) | (Hne & Hrec)]; [discriminate|].
    destruct (Hrec (lsmall_app_l _ _ Hs)) as (Rp & Lp).
    assert (Hsp : lsmall (sk ++ sv)) by (pose proof (lsmall_app_l _ _ Hs); unfold lsmall, Zlength in *; lia).
    pose proof (entry_legal n' kt vt fk fv k y sk sv Hcf Hn1 Ht1 Hw1 Hh1 Hn2 Ht2 Hw2 Hh2 Hk Hy Esk Esv Hsp ltac:(lia)) as Hfine.
    destruct (IH rest eq_refl (lsmall_app_r _ _ Hs) ltac:(lia)) as (rs & W & F).
    exists ((fnum f, Len (sk ++ sv)) :: rs). split; [apply ok_cons; assumption|].
    constructor; [|exact F]. split; [reflexivity | exact Hfine].
  Qed.

  Lemma slot_dict2 d :
    slot_in_range sc f (PDict d) = true -> Forall (fun kv => elemP (Good2 sc) (snd kv)) d ->
    slot_legal sc cur i f (PDict d).
  Proof.
    intros Hr HG.
    destruct (dict_facts sc c cur i f Hwf Hent pk pv' Hh) as (Hfo & Hfw & Hg & Hty & Hsel & Hdef & Hfr & kt & vt & fk & fv & Hm &
      Hkok & Hvmap & Hfk & Hfv & Hcf & Hn1 & Ht1 & Hn2 & Ht2 & Hg1 & Hg2 & Ho1 & Ho2 & Hw1 & Hw2 & Hh1 & Hh2).
    assert (Hin : Forall (fun kv => scalar_in_range kt (fst kv) = true /\ elem_in_range sc vt pv' (snd kv) = true) d).
    { unfold slot_in_range in Hr. rewrite Hh, Hm in Hr.
      apply (dict_fix_forall (fun k y => scalar_in_range kt k && elem_in_range sc vt pv' y)) in Hr.
      eapply Forall_impl; [|exact Hr]. intros kv H. apply andb_true_iff in H. exact H. }
    assert (Hemit : enc_slot sc cur i f (PDict d) = emit_field (enc_obj sc) sc f None (PDict d))
      by (unfold enc_slot; rewrite Hsel; reflexivity).
    destruct d as [|kv0 d'].
    { apply slot_legal_nothing. rewrite Hemit. unfold emit_field. cbn [is_default]. rewrite Hh, Hg, Hfo. reflexivity. }
    set (d := kv0 :: d') in *.
    assert (Hemit2 : emit_field (enc_obj sc) sc f None (PDict d) = entries_bytes sc f kt vt d).
    { unfold emit_field. cbn [is_default]. rewrite Hh. cbn [andb]. rewrite Hm. reflexivity. }
    destruct (key_scalar kt Hkok) as (Hks & _ & _).
    assert (Hel : Forall (fun kv => elem_legal sc fk (fst kv) /\ elem_legal sc fv (snd kv)) d).
    { apply Forall_forall. intros kv Hkv. rewrite Forall_forall in Hin, HG. destruct (Hin kv Hkv) as (Hk & Hy). split.
      - apply elem_scalar2; [|exact Hw1 | rewrite Hn1; lia | rewrite Ht1; exact Hks | rewrite Ht1; exact Hk].
        unfold msg_class. rewrite Ht1. destruct kt; try reflexivity; discriminate Hkok.
      - apply (elem_any2 sc Hsc fv pv' (snd kv)); auto; [rewrite Hh2; reflexivity | rewrite Hn2; lia | rewrite Ht2; exact Hfv | rewrite Ht2; exact Hy]. }
    intros n' here E Hs Hl. rewrite Hemit, Hemit2 in E.
    destruct (dict_entries2 n' kt vt fk fv d here Hcf Hn1 Ht1 Hw1 (ex_intro _ pk Hh1) Hn2 Ht2 Hw2 (ex_intro _ pv' Hh2) Hel E Hs Hl)
      as (rs & W & F).
    exists rs. split; [exact W|]. split; [exact F|].
    intros SM. unfold sing_msg in SM. rewrite card_dict in SM. discriminate.
  Qed.
End Dict2.
