(* C04: the concrete witnesses - one value that meets every hypothesis of the theorems (non-vacuity)
   and, for every conjunct of json_supported, one value on which the round trip really fails
   (each replayed on the implementation by harness/props/c04.py: regression_messages). *)
From BP Require Import Base.Prelude Model.Types Model.Float Model.Object Model.Eq Model.Encode Model.WellFormed Model.Json.
From BP Require Import Proofs.C04Def.

(* class 11: x:int32=1  s:string=2  rec:<class 11>=3  o:optional int32=4  t:optional Timestamp=5
             m:map<int32,bytes>=6  rd:repeated double=7  d:double=8  oneof g0 { u:int64=9  v:bytes=10 } *)
Definition ex_sc : schema :=
  mkS (builtin_classes ++
       [mkC [mkF [x78] 1 TInt32 None None None false (HPlain PyInt) 0;
             mkF [x73] 2 TString None None None false (HPlain PyStr) 0;
             mkF [x72; x65; x63] 3 TMessage None None None false (HPlain (PyMsg 11)) 0;
             mkF [x6f] 4 TInt32 None None None true (HOptional PyInt) 0;
             mkF [x74] 5 TMessage None None None true (HOptional PyDatetime) 0;
             mkF [x6d] 6 TMap (Some (TInt32, TBytes)) None None false (HDict PyInt PyBytes) 12;
             mkF [x72; x64] 7 TDouble None None None false (HList PyFloat) 0;
             mkF [x64] 8 TDouble None None None false (HPlain PyFloat) 0;
             mkF [x75] 9 TInt64 None (Some 0%nat) None false (HPlain PyInt) 0;
             mkF [x76] 10 TBytes None (Some 0%nat) None false (HPlain PyBytes) 0] 1;
        mkC [mkF [x6b; x65; x79] 1 TInt32 None None None false (HPlain PyInt) 0;
             mkF [x76; x61; x6c; x75; x65] 2 TBytes None None None false (HPlain PyBytes) 0] 0]) [].

Definition ph9 : list pv := repeat PPlaceholder 9.
Definition fresh_raw : list pv := [PPlaceholder; PPlaceholder; PPlaceholder; PNone; PNone; PPlaceholder; PPlaceholder; PPlaceholder; PPlaceholder; PPlaceholder].
Definition with_x (z : Z) (sow : bool) (unk : list byte) : obj :=
  Obj 11 (PInt z :: tl fresh_raw) sow unk [None].

(* everything at once: negative int, nested message, set optional 0, set optional Timestamp at the epoch, a map with
   int keys and bytes values (one of them empty), repeated doubles, the canonical NaN, a selected oneof member holding
   its default *)
Definition ex_m : obj :=
  Obj 11 [PInt (-3); PStr [x61]; PMsg (with_x 5 true []); PInt 0; PDatetime 0;
          PDict [(PInt 1, PBytes [x61; x62]); (PInt (-7), PBytes [])];
          PList [PFloat 0; PFloat 4609434218613702656]; PFloat nan_bits; PPlaceholder; PBytes []] true [] [Some 9%nat].

(* unknown fields: Inner(x=3) after parse(b"\x98\x06\x01") *)
Definition wit_unknown : obj := with_x 3 true [x98; x06; x01].
(* K12: m.rec.rec.x = 5 through lazily created intermediates: the middle object has sow = False *)
Definition wit_lazy : obj :=
  Obj 11 (PPlaceholder :: PPlaceholder :: PMsg (Obj 11 (PPlaceholder :: PPlaceholder :: PMsg (with_x 5 true []) :: tl (tl (tl fresh_raw))) false [] [None])
          :: tl (tl (tl fresh_raw))) false [] [None].
(* NaN inside a repeated field *)
Definition wit_nan_list : obj :=
  Obj 11 [PPlaceholder; PPlaceholder; PPlaceholder; PNone; PNone; PPlaceholder; PList [PFloat nan_bits]; PPlaceholder; PPlaceholder; PPlaceholder] true [] [None].
(* a NaN with the sign bit and a payload bit set *)
Definition wit_nan_payload : obj :=
  Obj 11 [PPlaceholder; PPlaceholder; PPlaceholder; PNone; PNone; PPlaceholder; PPlaceholder; PFloat (nan_bits + 2 ^ 63 + 1); PPlaceholder; PPlaceholder] true [] [None].

Definition schema_ok (sc : schema) : bool := wf_schema sc && keys_ok CAMEL sc && keys_ok SNAKE sc.
Definition domain_ok (sc : schema) (o : obj) : bool := in_range sc o && oneof_ok sc o && dicts_ok sc o.

Definition rt_class (cs : casing) (text : bool) (sc : schema) (m : obj) : result obj :=
  from_dict_cls sc (ocls m) (if text then text_rt (to_dict cs false sc m) else to_dict cs false sc m).

Definition bytes_differ (a b : result (list byte)) : bool :=
  match a, b with Ok x, Ok y => negb (bytes_eqb x y) | _, _ => false end.

Lemma ex_schema_ok : schema_ok ex_sc = true. Proof. vm_compute. reflexivity. Qed.
Lemma ex_good : good ex_sc ex_m = true. Proof. vm_compute. reflexivity. Qed.

Lemma unknown_refuted :
  domain_ok ex_sc wit_unknown = true /\ no_lazy ex_sc wit_unknown = true /\ nan_ok wit_unknown = true /\
  no_unknown wit_unknown = false /\
  match rt_class CAMEL false ex_sc wit_unknown with
  | Ok m' => obj_eq ex_sc m' wit_unknown = true /\ bytes_differ (enc_obj ex_sc m') (enc_obj ex_sc wit_unknown) = true
  | Err _ => False
  end.
Proof. vm_compute. repeat split; reflexivity. Qed.

Lemma lazy_refuted :
  domain_ok ex_sc wit_lazy = true /\ no_unknown wit_lazy = true /\ nan_ok wit_lazy = true /\
  no_lazy ex_sc wit_lazy = false /\
  to_dict CAMEL false ex_sc wit_lazy = JObj [] /\
  match rt_class CAMEL false ex_sc wit_lazy with
  | Ok m' => obj_eq ex_sc m' wit_lazy = false /\ bytes_differ (enc_obj ex_sc m') (enc_obj ex_sc wit_lazy) = true
  | Err _ => False
  end.
Proof. vm_compute. repeat split; reflexivity. Qed.

Lemma nan_in_container_refuted :
  domain_ok ex_sc wit_nan_list = true /\ no_unknown wit_nan_list = true /\ no_lazy ex_sc wit_nan_list = true /\
  nan_ok wit_nan_list = false /\
  match rt_class CAMEL true ex_sc wit_nan_list with
  | Ok m' => obj_eq ex_sc m' wit_nan_list = false /\ enc_obj ex_sc m' = enc_obj ex_sc wit_nan_list
  | Err _ => False
  end.
Proof. vm_compute. repeat split; reflexivity. Qed.

Lemma nan_payload_refuted :
  domain_ok ex_sc wit_nan_payload = true /\ no_unknown wit_nan_payload = true /\ no_lazy ex_sc wit_nan_payload = true /\
  nan_ok wit_nan_payload = false /\
  match rt_class CAMEL false ex_sc wit_nan_payload with
  | Ok m' => obj_eq ex_sc m' wit_nan_payload = true /\ bytes_differ (enc_obj ex_sc m') (enc_obj ex_sc wit_nan_payload) = true
  | Err _ => False
  end.
Proof. vm_compute. repeat split; reflexivity. Qed.
