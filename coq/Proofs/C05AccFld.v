(* C05, message level, ACCEPT direction: the object the reader builds, part 3: one field. *)
From BP Require Import Base.Prelude Model.Types Model.Float Model.Utf8 Model.Object Model.Eq Model.WellFormed Model.TimeCore Spec.Time.
From BP Require Model.Json Model.Enum Model.Casing Spec.JsonMap Model.Time.
From BP Require Import gen.Tables.
From BP Require Import Proofs.BytesP Proofs.C04Def Proofs.C04ScalarP Proofs.C04ElemP Proofs.C04FieldP Proofs.C04ObjP Proofs.C04CurP.
From BP Require Import Proofs.C05Casing Proofs.C05Leaf Proofs.C05Model Proofs.C05MsgDef Proofs.C05MsgSpec Proofs.C05MsgLeaf
                       Proofs.C05MsgElem Proofs.C05MsgField.
From BP Require Import Proofs.C05AccDef Proofs.C05AccSpec Proofs.C05AccLeaf Proofs.C05AccField Proofs.C05AccRead Proofs.C05AccCur
                       Proofs.C05AccElem.
From Coq Require Import Lia.

Lemma map_id_in {A} (f : A -> A) l : (forall x, In x l -> f x = x) -> map f l = l.
Proof. intros H. rewrite <- (map_id l) at 2. apply map_ext_in. exact H. Qed.

Section Fld.
  Variable sc : schema.
  Variable js : S.jschema.
  Variable off : nat.
  Let nj := length (S.jclasses js).
  Let nc := length (classes sc).
  Let ne := length (enums sc).
  Notation wfa := (wf_aval sc js off).
  Notation cel := (conc_elem sc js off).
  Variable n : nat.
  Hypothesis IHm : forall c afs, (aval_size (S.AMsg afs) < n)%nat -> wfa (S.JMsg c) (S.AMsg afs) = true ->
    obj_ok sc js off c afs.

  Definition field_good (f : fdesc) (sel : option bool) (x : pv) (af : S.afield) : Prop :=
    value_ok sc f x = true /\ pv_good5 sc x = true /\ field_nan_canon x = true /\ neg_zero_field f x = true /\
    abs_field (abs_elem sc) f sel x = af.

  Lemma field_ok ng f fd af :
    wf_field sc ng f = true -> fmatch off nj f fd -> (afield_size af < n)%nat ->
    wf_afield wfa f fd af = true ->
    field_good f (match fgroup f with Some _ => Some (is_set_field af) | None => None end) (conc_field cel f fd af) af.
  Proof.
    intros W [Fk Fkind Fcard Fone Fmsg] Hs Wa.
    destruct f as [name num t mp grp wr op hint ent].
    unfold wf_field in W. cbn [fnum fgroup fhint fopt fwraps fmap fty] in W.
    fold nc ne in W. apply andb_prop in W as [W Wh]. clear W.
    unfold kind_of, elem_ptype in Fkind. unfold card_of in Fcard.
    cbn [fwraps fmap fty fhint fgroup J.hint_elem] in Fkind, Fcard, Fmsg.
    unfold wf_afield in Wa. unfold field_good, conc_field, omitted, sentinel, value_ok, neg_zero_field.
    cbn [fty fwraps fmap fhint fgroup fopt abs_field].
    destruct hint as [p|p|p|pk p]; cbn [J.hint_elem fhint abs_field] in *.
    - (* ---- plain ---- *)
      apply andb_true5 in Wh as [Wop [Wwr [Wmp [Wt Wp]]]].
      apply negb_true in Wop. apply is_some'_false in Wwr. apply is_some'_false in Wmp. subst op wr mp.
      rewrite Fkind in *.
      destruct af as [|v|l|l].
      + (* absent *)
        destruct (S.jf_card fd) eqn:Cd; try discriminate Wa.
        repeat split; try reflexivity. destruct grp; [reflexivity|]. cbn [is_some' orb] in Fcard.
        destruct (explicit_py p); [reflexivity|discriminate Fcard].
      + cbn [afield_size] in Hs.
        destruct (S.jf_card fd) eqn:Cd; try discriminate Wa; apply andb_prop in Wa as [W1 W2];
          destruct (elem_ok sc js off n IHm t p v Hs Wp Fmsg W1) as (R & G & N & A & Nph & Nn).
        * (* implicit *)
          destruct grp as [g|]; [discriminate Fcard|]. cbn [is_some' orb] in Fcard.
          destruct (explicit_py p) eqn:Ex; [discriminate Fcard|].
          assert (Sp : scalar_py p = true) by (destruct p; try discriminate Ex; reflexivity).
          destruct (S.is_default_val v) eqn:D.
          -- repeat split; try reflexivity. f_equal. symmetry.
             exact (default_val_abs sc js off t p v Sp Wp W1 D).
          -- rewrite (elem_scalar _ _ _ _ Sp) in R.
             assert (Lf : match v with S.AMsg _ | S.ATime _ _ | S.ADur _ _ => False | _ => True end).
             { destruct v; try exact I; destruct p; try discriminate Sp; destruct t; try discriminate Wp; discriminate W1. }
             set (x := cel (kind_of_elem off t p) v) in *.
             assert (Sh : match x with PInt _ | PBool _ | PFloat _ | PStr _ | PBytes _ => True | _ => False end).
             { destruct x; try exact I; destruct t; discriminate R. }
             repeat split.
             ++ destruct x; try contradiction Sh; rewrite (elem_scalar _ _ _ _ Sp); exact R.
             ++ exact G.
             ++ destruct x; try contradiction Sh; try reflexivity; exact N.
             ++ destruct x; try contradiction Sh; try reflexivity. cbn [abs_elem] in A. subst v. exact W2.
             ++ destruct x; try contradiction Sh; rewrite A; reflexivity.
        * (* explicit *)
          set (x := cel (kind_of_elem off t p) v) in *.
          assert (Vo : match x with PPlaceholder => true | PNone => false | _ => elem_in_range sc t p x end = true)
            by (destruct x; try congruence; exact R).
          assert (Fn : field_nan_canon x = true)
            by (destruct x; try reflexivity; try exact N; destruct p; try discriminate R; destruct t; discriminate R).
          destruct grp as [g|].
          -- repeat split; try assumption.
             ++ destruct x; reflexivity.
             ++ cbn [is_set_field]. destruct x; try congruence; rewrite A; reflexivity.
          -- cbn [is_some' orb] in Fcard. destruct (explicit_py p) eqn:Ex; [|discriminate Fcard].
             assert (Sp : scalar_py p = false) by (destruct p; try discriminate Ex; reflexivity).
             pose proof (fits_message _ _ _ _ Sp Wp) as ->.
             repeat split; try assumption.
             ++ destruct x; try reflexivity. destruct p; discriminate R.
             ++ unfold plain_zero_time in W2. cbn [fhint fgroup] in W2.
                destruct p; try discriminate Sp; cbn [kind_of_elem] in *; destruct v; try discriminate W1.
                ** subst x. rewrite conc_elem_msg in A. rewrite conc_elem_msg. unfold conc_obj, J.set_sow in *.
                   rewrite post_init_unfold in *. cbn [osow]. rewrite A. reflexivity.
                ** subst x. cbn [conc_elem] in *. cbn [wf_aval] in W1. apply negb_true in W2.
                   pose proof (time_nonzero s n0 W1 W2) as Nz. apply Z.eqb_neq in Nz. rewrite Nz, A. reflexivity.
                ** subst x. cbn [conc_elem] in *. cbn [wf_aval] in W1. apply negb_true in W2.
                   pose proof (dur_nonzero s n0 W1 W2) as Nz. apply Z.eqb_neq in Nz. rewrite Nz, A. reflexivity.
      + destruct (S.jf_card fd) eqn:Cd; try discriminate Wa. destruct (is_some' grp || explicit_py p); discriminate Fcard.
      + destruct (S.jf_card fd) eqn:Cd; try discriminate Wa. destruct (is_some' grp || explicit_py p); discriminate Fcard.
    - (* ---- optional ---- *)
      rewrite Fcard in *.
      assert (Gn : grp = None).
      { apply andb_prop in Wh as [Wh _]. apply andb_prop in Wh as [_ Wg]. apply is_some'_false in Wg. exact Wg. }
      subst grp.
      destruct af as [|v|l|l]; try discriminate Wa.
      + destruct op; repeat split; reflexivity.
      + cbn [afield_size] in Hs. apply andb_prop in Wa as [W1 W2].
        destruct wr as [w|].
        * apply andb_prop in Wh as [Wh Wrest].
          apply andb_prop in Wrest as [Wrest Wfit]. apply andb_prop in Wrest as [Wrest Wcls]. apply andb_prop in Wrest as [Wop Wt].
          destruct (wrapper_value_type w) as [vt|] eqn:Ev; [|discriminate Wfit].
          pose proof (wrapper_same w vt Ev) as Evt. subst vt.
          pose proof (wrapper_scalar w Wcls) as Ht. pose proof (fits_scalar_py _ _ _ _ Ht Wfit) as Sp.
          rewrite Fkind in *.
          assert (Lf : match v with S.AMsg _ | S.ATime _ _ | S.ADur _ _ | S.AEnum _ => False | _ => True end)
            by (destruct v; try discriminate W1; exact I).
          assert (Wl : wf_leaf (sk w) v = true) by (destruct v; try contradiction Lf; exact W1).
          destruct (scalar_read sc js off w (sk w) p v (wrapper_skind w Wcls) Wfit Wl) as (j & _ & _ & R & N & A).
          rewrite (conc_elem_leaf sc js off (S.JWrapper (sk w)) v) by (destruct v; try contradiction Lf; exact I).
          assert (Sh : match conc_leaf v with PInt _ | PBool _ | PFloat _ | PStr _ | PBytes _ => True | _ => False end)
            by (destruct v; try contradiction Lf; exact I).
          destruct (conc_leaf v) eqn:Cv; try contradiction Sh;
            (repeat split; try reflexivity; try (rewrite A; reflexivity); try exact N;
             try (rewrite (elem_scalar _ _ _ _ Sp); exact R)).
        * apply andb_prop in Wh as [Wh Wrest]. apply andb_prop in Wh as [Wmp _]. apply is_some'_false in Wmp. subst mp.
          apply andb_prop in Wrest as [Wrest Wp]. apply andb_prop in Wrest as [Wop Wt].
          rewrite Fkind in *.
          destruct (elem_ok sc js off n IHm t p v Hs Wp Fmsg W1) as (R & G & N & A & Nph & Nn).
          set (x := cel (kind_of_elem off t p) v) in *.
          repeat split.
          -- destruct x; try congruence; exact R.
          -- exact G.
          -- destruct x; try reflexivity; try exact N; destruct p; try discriminate R; destruct t; discriminate R.
          -- destruct x; reflexivity.
          -- destruct x; try congruence; rewrite A; reflexivity.
    - (* ---- repeated ---- *)
      apply andb_prop in Wh as [Wh Wp]. apply andb_prop in Wh as [Wh Wt]. apply andb_prop in Wh as [Wh Wgrp].
      apply andb_prop in Wh as [Wh Wmp]. apply andb_prop in Wh as [Wop Wwr].
      apply negb_true in Wop. apply is_some'_false in Wwr. apply is_some'_false in Wmp. apply is_some'_false in Wgrp.
      subst op wr mp grp.
      rewrite Fcard, Fkind in *.
      destruct af as [|v|l|l]; try discriminate Wa.
      destruct l as [|v l']; [repeat split; reflexivity|]. cbn [is_nil].
      set (l := v :: l') in *.
      assert (Each : forall y, In y l ->
                elem_in_range sc t p (cel (kind_of_elem off t p) y) = true /\ pv_good5 sc (cel (kind_of_elem off t p) y) = true /\
                nan_canonical (cel (kind_of_elem off t p) y) = true /\ abs_elem sc p (cel (kind_of_elem off t p) y) = y).
      { intros y Hy. rewrite forallb_forall in Wa. pose proof (in_rep_size y l Hy).
        destruct (elem_ok sc js off n IHm t p y ltac:(lia) Wp Fmsg (Wa y Hy)) as (R & G & N & A & _). auto. }
      repeat split.
      + rewrite all_list_forallb. apply forallb_forall. intros x Hx. apply in_map_iff in Hx as (y & <- & Hy). apply (Each y Hy).
      + unfold pv_good5. cbn [pv_all]. apply forallb_forall. intros x Hx. apply in_map_iff in Hx as (y & <- & Hy). apply (Each y Hy).
      + cbn [field_nan_canon]. apply forallb_forall. intros x Hx. apply in_map_iff in Hx as (y & <- & Hy). apply (Each y Hy).
      + rewrite map_map. f_equal. apply map_id_in. intros y Hy. apply (Each y Hy).
    - (* ---- map ---- *)
      apply andb_prop in Wh as [Wh Wentry]. apply andb_prop in Wh as [Wh Wmap]. apply andb_prop in Wh as [Wh Wt].
      apply andb_prop in Wh as [Wh Wgrp]. apply andb_prop in Wh as [Wop Wwr].
      apply negb_true in Wop. apply is_some'_false in Wwr. apply is_some'_false in Wgrp. subst op wr grp.
      apply ptype_eqb_eq in Wt. subst t.
      destruct mp as [[kt vt]|]; [|discriminate Wmap].
      apply andb_prop in Wmap as [Wmap Wv]. apply andb_prop in Wmap as [Wmap Wk]. apply andb_prop in Wmap as [Wkey Wvt].
      rewrite Fcard, Fkind in *.
      destruct af as [|v|l|l]; try discriminate Wa.
      destruct l as [|kv l']; [repeat split; reflexivity|]. cbn [is_nil].
      set (l := kv :: l') in *. apply andb_prop in Wa as [Wa _].
      assert (Each : forall k y, In (k, y) l ->
                (scalar_in_range kt (cel (S.JScalar S.KInt32) k) = true /\ abs_elem sc pk (cel (S.JScalar S.KInt32) k) = k) /\
                elem_in_range sc vt p (cel (kind_of_elem off vt p) y) = true /\ pv_good5 sc (cel (kind_of_elem off vt p) y) = true /\
                nan_canonical (cel (kind_of_elem off vt p) y) = true /\ abs_elem sc p (cel (kind_of_elem off vt p) y) = y).
      { intros k y Hy. rewrite forallb_forall in Wa. pose proof (in_map_size k y l Hy).
        specialize (Wa _ Hy). cbn [fst snd] in Wa. apply andb_prop in Wa as [Wk' Wy].
        destruct (elem_ok sc js off n IHm vt p y ltac:(lia) Wv Fmsg Wy) as (R & G & N & A & _).
        destruct (key_read sc kt pk k Wkey Wk Wk') as (ks & _ & _ & Rk & Ak).
        assert (Ek : cel (S.JScalar S.KInt32) k = conc_leaf k).
        { apply conc_elem_leaf. unfold wf_mkey in Wk'. apply andb_prop in Wk' as [Wk' _].
          destruct k; try exact I. destruct (sk kt); discriminate Wk'. }
        rewrite Ek. auto. }
      repeat split.
      + rewrite all_dict_forallb. apply forallb_forall. intros x Hx. apply in_map_iff in Hx as ([k y] & <- & Hy).
        cbn [fst snd]. destruct (Each k y Hy) as [[A1 _] [A2 _]]. rewrite A1, A2. reflexivity.
      + unfold pv_good5. cbn [pv_all]. apply forallb_forall. intros x Hx. apply in_map_iff in Hx as ([k y] & <- & Hy).
        cbn [fst snd]. apply (Each k y Hy).
      + cbn [field_nan_canon]. apply forallb_forall. intros x Hx. apply in_map_iff in Hx as ([k y] & <- & Hy).
        cbn [fst snd]. apply (Each k y Hy).
      + rewrite map_map. f_equal. apply map_id_in. intros [k y] Hy. cbn [fst snd].
        destruct (Each k y Hy) as [[_ A1] [_ [_ [_ A2]]]]. rewrite A1, A2. reflexivity.
  Qed.
End Fld.
