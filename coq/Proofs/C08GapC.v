(* C08 gap closing, third group (see the clause table in Proofs/C08GapA.v, item 5b).
   evo_top: the top-level step of Proofs/C08EvoMain.v evo_step re-run with its intermediate objects exposed (same proof script, the
   nested messages supplied by all_evo); evolution_with_unknown is derived from it in Proofs/C08GapD.v. *)
From Coq Require Import ZArith List Bool Lia ZifyBool.
From BP Require Import Base.Prelude Model.Types Model.Varint Model.Scalar Model.Float Model.Utf8.
From BP Require Import Model.Object Model.Eq Model.TimeCore Model.Encode Model.Decode Model.WellFormed Model.C01Def.
From BP Require Model.C08Step.
From BP Require Import gen.Tables Proofs.BytesP Proofs.LenP Proofs.C01Frame Proofs.C01Step Proofs.C01Apply
     Proofs.C01Elem Proofs.C01Field Proofs.C01Builtin Proofs.C01Unfold Proofs.C01Value Proofs.C01Slot Proofs.C01Slot2
     Proofs.C01Dict Proofs.C01Msg Proofs.C01Main Proofs.C01Stable Proofs.C01Eq.
From BP Require Proofs.C08FrameP Proofs.C08StepP Proofs.C08UnknownP Proofs.C08EvolutionP.
From BP Require Import Proofs.C08EvoDef Proofs.C08EvoBridge Proofs.C08EvoSchema Proofs.C08EvoRecs Proofs.C08EvoWalk Proofs.C08EvoSym Proofs.C08EvoMain.
Import ListNotations.

Section Level.
  Variables (sn : schema) (masks : list (list bool)).
  Let so := C08Step.drop_fields masks sn.
  Hypothesis Hsn : c01_schema_ok sn = true.
  Hypothesis Hmk : masks_ok sn masks = true.

  Lemma Hso_ok_top : c01_schema_ok so = true.
  Proof. apply schema_ok_drop; assumption. Qed.

  (* what the proof of C08_evolution establishes for the TOP level of a message, with the pieces named: the records ps of bytes(m) (all
     known to the newer class), the object mk the older reader builds from the records it knows, its encoding k2 (a sequence of
     complete records psk), and the newer reader's view of k2 followed by the deleted fields' records *)
  Definition EvoTop (o : obj) : Prop :=
    exists b1, enc_obj sn o = Ok b1 /\
      (small b1 -> exists ps mk k2 psk,
         C08Step.records b1 ps /\
         nodup_z (map fnum (cfields (get_class sn (ocls o)))) = true /\
         (forall p, In p ps -> C08Step.is_unknown (get_class sn (ocls o)) p = false) /\
         parse so (ocls o) (C08Step.known_raw (get_class so (ocls o)) ps) = Ok mk /\ ounk mk = [] /\
         enc_obj so mk = Ok k2 /\ C08Step.records k2 psk /\
         parse sn (ocls o) (k2 ++ C08Step.unknown_raw (get_class so (ocls o)) ps) = Ok (norm_obj sn o) /\
         length k2 = length (C08Step.known_raw (get_class so (ocls o)) ps)).

  Lemma evo_top c raw sow unk cur :
    value_ok sn (Obj c raw sow unk cur) ->
    EvoTop (Obj c raw sow unk cur).
  Proof.
    intros Hv.
    assert (HP : Forall (subP (fun o => value_ok sn o -> Evo sn masks o)) raw).
    { apply Forall_forall. intros x _. apply subP_forall. intros o Ho. apply (all_evo sn masks Hsn Hmk o Ho). } pose proof Hso_ok_top as Hso. pose proof Hv as (Hr & Hd).
    rewrite in_range_unfold in Hr. rewrite deep_msg in Hd.
    apply andb_true_iff in Hr as [Hr Hsl]. apply andb_true_iff in Hr as [Hr Hcl]. apply andb_true_iff in Hr as [_ Hlen].
    apply Nat.eqb_eq in Hlen, Hcl.
    apply andb_true_iff in Hd as [Hloc Hdl]. unfold local_ok in Hloc.
    apply andb_true_iff in Hloc as [Hloc Hku]. apply andb_true_iff in Hloc as [Hloc Hnu]. apply andb_true_iff in Hloc as [Hoc Hco].
    rewrite oneof_clean_unfold in Hoc.
    unfold no_unknown in Hnu. cbn [ounk] in Hnu. destruct unk; [|discriminate]. clear Hnu.
    destruct (schema_class_facts sn c Hsn) as (Hwf & Hnd & Hent).
    pose proof (cur_ok_spec sn c raw sow [] cur Hco) as Hcur.
    set (cdn := get_class sn c) in *. set (fs := cfields cdn) in *.
    set (mask := mask_of masks c).
    set (cdo := get_class so c).
    assert (Hfso : cfields cdo = C08Step.filter_mask mask fs) by apply cfields_drop.
    assert (Hngo : cngroups cdo = cngroups cdn) by apply cngroups_drop.
    assert (Hcdo : cdo = mkC (C08Step.filter_mask mask fs) (cngroups cdn)).
    { unfold cdo, so. rewrite get_class_drop. reflexivity. }
    set (rawo := C08Step.filter_mask mask raw). set (curo := cur_old mask cur).
    (* the nested messages: induction hypothesis and C01 *)
    pose proof (value_ok_slots sn (Evo sn masks) c raw sow [] cur Hv HP) as HEs.
    assert (HGs : Forall (subP (Good sn)) raw).
    { apply (value_ok_slots sn (Good sn) c raw sow [] cur Hv).
      apply Forall_forall. intros x _. apply subP_forall. intros o Ho. apply (all_good sn Hsn o Ho). }
    (* C01 for the newer schema *)
    destruct (all_good sn Hsn _ Hv) as (b1 & Eb1 & _ & Hload1).
    exists b1. split; [exact Eb1|]. intros Hs1. cbn [ocls].
    pose proof (load_parse sn c b1 _ (Hload1 Hs1 (S (length b1)) (Nat.lt_succ_diag_r _))) as Hp1.
    pose proof Eb1 as Eslots. rewrite enc_obj_unfold in Eslots. fold cdn fs in Eslots.
    destruct (enc_slots sn cur 0 raw fs) as [body|] eqn:Ebody; cbn [bind] in Eslots; [|discriminate].
    rewrite app_nil_r in Eslots. injection Eslots as ->.
    (* the records of b1; all of them are known to the newer class *)
    pose proof Hp1 as Hp1'. apply C08UnknownP.parse_fold in Hp1' as (ps & Hrec & Hfold). fold cdn in Hfold.
    assert (Hallk : forall p, In p ps -> C08Step.is_unknown cdn p = false).
    { apply C08UnknownP.fold_shape in Hfold as [_ Hu]. rewrite norm_obj_unfold in Hu. cbn [ounk] in Hu.
      assert (Hu' : C08Step.unknown_raw cdn ps = []).
      { destruct (new sn c) as [? ? ? u0 ?] eqn:En. unfold new in En. injection En as _ _ _ <- _. cbn [C08Step.touch ounk app] in Hu. symmetry. exact Hu. }
      apply (unknown_raw_nil_known cdn ps); auto. apply (records_praw_nonempty _ _ Hrec). }
    assert (Hnum1 : forall f, In f fs -> 1 <= fnum f).
    { intros f Hin. apply In_nth_error in Hin as (k & Hk). pose proof (wf_field_num _ _ _ (forallb_nth_error _ _ _ _ Hwf Hk)). lia. }
    (* the kept chunks are the known part *)
    assert (Hknown : forall k f p, nth_error fs k = Some f -> In p ps -> pnum p = fnum f ->
                       C08UnknownP.known cdo p = kept mask k).
    { intros k f p Hk Hp Hpn. unfold C08UnknownP.known, C08Step.is_unknown. rewrite Hcdo, Hpn.
      destruct (kept mask k) eqn:Ek.
      - rewrite (fbn_kept mask fs _ k f Hnd Hk Ek).
        pose proof (Hallk p Hp) as Hkn. unfold C08Step.is_unknown in Hkn.
        rewrite Hpn, (field_by_number_unique cdn k f Hnd Hk) in Hkn. rewrite Hkn. reflexivity.
      - rewrite (fbn_deleted mask fs _ k f Hnd Hk Ek). reflexivity. }
    pose proof (known_chunks sn mask raw fs cur 0 curo 0 b1 ps (C08UnknownP.known cdo) Hlen Hnum1 Ebody Hrec
                  (fun k f Hk Ek => group_selects_old mask cur f k Ek) Hknown) as EK.
    fold rawo in EK. rewrite <- Hfso in EK.
    set (K := C08Step.raw_of (filter (C08UnknownP.known cdo) ps)) in *.
    assert (HK : K = C08Step.known_raw cdo ps) by reflexivity.
    set (U := C08Step.unknown_raw cdo ps).
    assert (Hb1 : b1 = C08Step.raw_of ps) by (apply C08FrameP.records_raw, Hrec).
    assert (Hlens : length b1 = (length K + length U)%nat).
    { rewrite Hb1, (raw_of_partition_length (C08UnknownP.known cdo) ps). unfold K, U, C08Step.unknown_raw.
      f_equal. f_equal. f_equal. exact (C08EvolutionP.unknown_filter_eq sn masks c ps). }
    assert (HsK : small K) by (unfold small, Zlength in *; lia).
    (* the walk over the older class *)
    assert (Hleno : length rawo = length (cfields cdo)).
    { rewrite Hfso. unfold rawo. apply filter_mask_length_eq. exact Hlen. }
    assert (Hcuro : forall g j, nth g curo None = Some j -> exists f, nth_error (cfields cdo) j = Some f /\ fgroup f = Some g).
    { intros g j Hg. unfold curo, cur_old in Hg.
      rewrite (map_nth (fun o => match o with Some j0 => if kept mask j0 then Some (sigma mask j0) else None | None => None end) cur None g) in Hg.
      destruct (nth g cur None) as [j0|] eqn:Eg; [|discriminate].
      destruct (kept mask j0) eqn:Ek; [|discriminate]. injection Hg as <-.
      destruct (Hcur g j0 Eg) as (f & Hf0 & Hgf). exists f. split; [|exact Hgf].
      rewrite Hfso. apply filter_mask_nth; assumption. }
    assert (Hslots : forall k x f, nth_error rawo k = Some x -> nth_error (cfields cdo) k = Some f ->
      (exists j, field_by_number cdn (fnum f) = Some (j, f)) /\ wf_field sn (cngroups cdn) f = true /\
      entry_hints_ok sn f = true /\ slot_in_range sn f x = true /\
      (group_selects curo f k = Some false -> x = PPlaceholder) /\
      (forall d, x = PDict d -> keys_nodup sn d = true) /\ subP (Evo sn masks) x /\ subP (Good sn) x).
    { intros k x f Hx Hf. unfold rawo in Hx. rewrite Hfso in Hf.
      apply filter_mask_nth_inv in Hx as (j & Hxj & Ekj & Hsj).
      apply filter_mask_nth_inv in Hf as (j' & Hfj & Ekj' & Hsj').
      assert (j' = j) by (apply (sigma_inj mask); congruence). subst j'.
      split; [exists j; apply field_by_number_unique; assumption|].
      split; [exact (forallb_nth_error _ _ _ _ Hwf Hfj)|].
      split; [exact (forallb_nth_error _ _ _ _ Hent Hfj)|].
      split; [exact (slots_in_range_nth sn raw fs j x f Hsl Hxj Hfj)|].
      split.
      { intros Hsf. rewrite <- Hsj in Hsf. unfold curo in Hsf. rewrite (group_selects_old mask cur f j Ekj) in Hsf.
        apply (clean_slots_nth sn cur raw fs 0 j x f Hoc Hxj Hfj Hsf). }
      split.
      { intros d ->. unfold keys_unique in Hku. cbn [oraw] in Hku. apply (forallb_nth_error _ _ _ _ Hku Hxj). }
      split; [exact (Forall_nth_error _ _ _ _ HEs Hxj) | exact (Forall_nth_error _ _ _ _ HGs Hxj)]. }
    set (fresho := map fresh_of (cfields cdo)).
    assert (Hpre : Pre sn masks c curo 0 fresho).
    { unfold Pre. fold so cdo. split; [unfold fresho; apply map_length|]. split.
      - intros k f _ Hf. unfold fresho. apply nth_map_error. exact Hf.
      - intros k f g Hk. lia. }
    destruct (walk2 sn masks Hsn Hso c rawo curo Hleno Hcuro Hslots rawo (cfields cdo) 0%nat) with (K := K) (rawS := fresho)
      as (rawE & k2 & Hfeed & HlE & _ & Ek2 & Hlk2 & Hceq); auto.
    cbn [skipn] in Ek2.
    (* the older reader on the known part *)
    set (mk := Obj c rawE true [] curo).
    assert (HpK : parse so c K = Ok mk).
    { apply load_parse. specialize (Hfeed (length K) (le_n _)).
      rewrite cur_upto_0 in Hfeed. rewrite cur_upto_all in Hfeed.
      2:{ intros g j Hg. destruct (Hcuro g j Hg) as (f & Hf & _). apply nth_error_Some.
          intros Habs. change (nth_error (cfields cdo) j = None) in Habs. congruence. }
      unfold curo in Hfeed at 1. rewrite cur_old_length, Hcl, <- Hngo in Hfeed.
      rewrite new_unfold. fold cdo. apply (feeds_load (length K) so c _ false [] _ K mk Hfeed). }
    assert (Ek : enc_obj so mk = Ok k2).
    { unfold mk. rewrite enc_obj_unfold.
      change (enc_slots so curo 0 rawE (cfields (get_class so c))) with (enc_slots (C08Step.drop_fields masks sn) curo 0 rawE (cfields cdo)).
      rewrite Ek2. cbn [bind]. rewrite app_nil_r. reflexivity. }
    (* the older reader on all of b1, the older writer *)
    assert (Hpo : parse so c b1 = Ok (C08Step.set_unk mk U)).
    { apply (C08UnknownP.known_undisturbed_conv so c b1 ps mk Hrec). fold cdo. rewrite <- HK. exact HpK. }
    set (mo := C08Step.set_unk mk U).
    assert (Eo : enc_obj so mo = Ok (k2 ++ U)).
    { unfold mo, mk. cbn [C08Step.set_unk]. rewrite C08StepP.enc_obj_unk. fold mk. rewrite Ek. reflexivity. }
    (* the newer reader on the re-emitted bytes *)
    pose proof (split_free_canonical sn masks c raw sow cur b1 ps Hnd Hnum1 Eb1 Hrec) as Hsf. fold so cdn cdo in Hsf.
    destruct (known_part_parses sn masks c b1 ps _ Hnd Hrec Hsf Hp1) as (mid & Hmid). fold so cdo in Hmid. rewrite <- HK in Hmid.
    assert (Hview : parse sn c k2 = parse sn c (C08Step.known_raw cdo ps)).
    { rewrite <- HK, Hmid. apply (ceq_parse sn c K k2 mid); [apply Hceq; lia | exact Hlk2 | exact Hmid]. }
    destruct (C08EvolutionP.evolution_bytes sn masks c Hnd b1 ps mo (k2 ++ U) k2 _ Hrec Hsf Hpo Eo Ek Hview Hp1) as (_ & Hp2).
    destruct (Hceq (length K) ltac:(lia)) as (psK & psk & _ & Hrk & _).
    exists ps, mk, k2, psk.
    split; [exact Hrec|]. split; [exact Hnd|]. split; [exact Hallk|].
    split; [exact HpK|]. split; [reflexivity|]. split; [exact Ek|]. split; [exact Hrk|].
    split; [exact Hp2 | exact Hlk2].
  Qed.
End Level.
