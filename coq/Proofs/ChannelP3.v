(* C12 — runs without cancellation: the counting invariant behind "no stranded receiver"
   (DESIGN §4 C12: W = b + w, b > 0 -> |q| <= w, |q| + r >= W once flushed, ...). *)
From BP Require Import Base.Prelude Model.Channel Proofs.ChannelP1 Proofs.ChannelP2.
From Coq Require Import Arith Lia.
Local Open Scope nat_scope.

Lemma forallb_wakeup : forall b w l ts, is_fin b = false ->
  (match w with CancGet | CancPut => false | _ => true end) = true ->
  forallb task_nocancel ts = true -> forallb task_nocancel (snd (wakeup b w l ts)) = true.
Proof.
  intros b w l ts NF Hw H. destruct (wakeup_effect b w l ts NF) as [[-> _]|(u & U & HU & _ & _ & ->)]; auto.
  apply forallb_upd; auto. pose proof (forallb_nth _ _ _ _ H HU) as HN. unfold task_nocancel in *.
  cbn [mc prog st set_st]. apply andb_true_iff in HN as [HN _]. rewrite HN. exact Hw.
Qed.

Lemma forallb_repeat_nc : forall n, forallb op_nocancel (repeat IPut n) = true.
Proof. induction n; cbn; auto. Qed.
Lemma forallb_repeat_nc2 : forall n, forallb op_nocancel (repeat IPutFlush n) = true.
Proof. induction n; cbn; auto. Qed.

Lemma nocancel_step : forall s t s', step s t = Some s' -> nocancel_state s -> nocancel_state s'.
Proof.
  intros s t s' H N. step_inv H; simp_proj; unfold nocancel_state in *; simp_proj.
  all: try nocancel_contra.
  all: match goal with E : nth_error (tasks _) _ = Some ?T |- _ =>
         pose proof (forallb_nth _ _ _ _ N E) as HN; unfold task_nocancel in HN;
         repeat match goal with
                | E1 : st T = _ |- _ => rewrite E1 in HN
                | E1 : mc T = _ |- _ => rewrite E1 in HN
                | E1 : prog T = _ |- _ => rewrite E1 in HN
                end; cbn [negb andb forallb op_nocancel] in HN end.
  all: try discriminate HN.
  all: rewrite ?forallb_app; try (apply andb_true_iff; split; [|reflexivity]).
  all: repeat (apply forallb_upd; [try (apply forallb_wakeup; [reflexivity|reflexivity|]); try assumption|]).
  all: try match goal with |- context [after_item ?o _] => destruct o; cbn [after_item fst snd] in * end.
  all: unfold task_nocancel, finished, set_prog, set_st, set_mc; cbn [mc prog st];
       repeat match goal with
              | E1 : st ?T = _ |- context [st ?T] => rewrite E1
              | E1 : mc ?T = _ |- context [mc ?T] => rewrite E1
              end;
       cbn [negb andb forallb op_nocancel];
       rewrite ?forallb_app, ?forallb_repeat_nc, ?forallb_repeat_nc2; cbn [forallb op_nocancel andb];
       rewrite ?andb_true_r in *; try assumption; try reflexivity.
  all: apply andb_true_iff in HN; tauto.
Qed.

(* when _wakeup_next found nobody although the deque covers every pending future, nobody is pending *)
Lemma cover_none : forall b l ts, cover b l ts ->
  (forall u U, In u l -> nth_error ts u = Some U -> st U <> b) -> sumf (is_st b) ts = 0.
Proof.
  intros b l ts C H. apply no_blk_count. intros u U HU. unfold is_st.
  destruct (status_eqb (st U) b) eqn:EB; auto. apply status_eqb_eq in EB. exfalso. eapply H; eauto.
Qed.

Ltac cover_rm :=
  try match goal with
      | E : nth_error (tasks ?s) ?t = Some ?T, C : cover ?b (getters ?s) (tasks ?s) |- context [remove1 ?t (getters ?s)] =>
          assert (cover b (remove1 t (getters s)) (tasks s)) by (eapply cover_remove_only; [exact C|exact E|congruence])
      | E : nth_error (tasks ?s) ?t = Some ?T, C : cover ?b (putters ?s) (tasks ?s) |- context [remove1 ?t (putters ?s)] =>
          assert (cover b (remove1 t (putters s)) (tasks s)) by (eapply cover_remove_only; [exact C|exact E|congruence])
      end.

Ltac wake_none :=
  try match goal with
      | C : cover ?b ?l ?ts, Hno : forall u U, In u ?l -> nth_error ?ts u = Some U -> st U <> ?b |- _ =>
          pose proof (cover_none b l ts C Hno)
      end.

Lemma empty_true : forall s, empty s = true -> q s = [].
Proof. unfold empty. intros s. destruct (q s); auto; discriminate. Qed.
Lemma empty_false : forall s, empty s = false -> length (q s) > 0.
Proof. unfold empty. intros s. destruct (q s); cbn; [discriminate|lia]. Qed.
Lemma full_true : forall s, full s = true -> 0 < maxsize s /\ maxsize s <= length (q s).
Proof.
  unfold full. intros s H. apply andb_true_iff in H as [H1 H2]. apply Nat.leb_le in H2.
  apply negb_true_iff in H1. apply Nat.eqb_neq in H1. lia.
Qed.
Lemma full_false : forall s, full s = false -> maxsize s = 0 \/ length (q s) < maxsize s.
Proof.
  unfold full. intros s H. apply andb_false_iff in H as [H|H].
  - apply negb_false_iff in H. apply Nat.eqb_eq in H. auto.
  - apply Nat.leb_gt in H. auto.
Qed.

Ltac norm_tests :=
  repeat match goal with
         | E : empty _ = true |- _ => apply empty_true in E; simp_proj
         | E : empty _ = false |- _ => apply empty_false in E; simp_proj
         | E : full _ = true |- _ => apply full_true in E; simp_proj
         | E : full _ = false |- _ => apply full_false in E; simp_proj
         end.

Definition invB (s : state) : Prop :=
  sumf (is_st BlkGet) (tasks s) > 0 -> length (q s) <= sumf (is_st WokeGet) (tasks s).

Lemma B_step : forall s t s', step s t = Some s' -> cover BlkGet (getters s) (tasks s) -> invB s -> invB s'.
Proof.
  intros s t s' H C I. step_inv H; simp_proj; unfold invB in *; simp_proj; try exact I.
  all: norm_tests.
  all: repeat match goal with E : q _ = _ |- _ => rewrite E in *; clear E end.
  all: cover_rm; try wake_cases; wake_none; sumf_norm; meas_simpl; rewrite ?app_length; cbn [length] in *; try lia.
Qed.

Definition invD (s : state) : Prop :=
  sumf (is_st BlkPut) (tasks s) > 0 ->
  0 < maxsize s /\ maxsize s <= length (q s) + sumf (is_st WokePut) (tasks s).

Lemma D_step : forall s t s', step s t = Some s' -> cover BlkPut (putters s) (tasks s) -> invD s -> invD s'.
Proof.
  intros s t s' H C I. step_inv H; simp_proj; unfold invD in *; simp_proj; try exact I.
  all: norm_tests.
  all: repeat match goal with E : q _ = _ |- _ => rewrite E in *; clear E end.
  all: cover_rm; try wake_cases; wake_none; sumf_norm; meas_simpl; rewrite ?app_length; cbn [length] in *; try lia.
Qed.

(* ---------------------------------------------------------------- shape of programs *)
Definition alltasks (P : task -> Prop) (ts : list task) : Prop := forall u U, nth_error ts u = Some U -> P U.

Lemma alltasks_upd : forall P ts t x, alltasks P ts -> P x -> alltasks P (upd ts t x).
Proof.
  intros P ts t x A Hx u U HU. rewrite nth_upd in HU. destruct (Nat.eqb t u).
  - destruct (nth_error ts t); [|discriminate]. injection HU as <-. auto.
  - eapply A; eauto.
Qed.

Lemma alltasks_app1 : forall P ts x, alltasks P ts -> P x -> alltasks P (ts ++ [x]).
Proof.
  intros P ts x A Hx u U HU. destruct (Nat.lt_ge_cases u (length ts)) as [L|G].
  - rewrite nth_error_app1 in HU by auto. eapply A; eauto.
  - rewrite nth_error_app2 in HU by auto. destruct (u - length ts) as [|[|k]]; cbn in HU; try discriminate.
    injection HU as <-. auto.
Qed.

Lemma alltasks_wakeup : forall (P : task -> Prop) b w l ts, is_fin b = false ->
  (forall U, P U -> P (set_st U w)) -> alltasks P ts -> alltasks P (snd (wakeup b w l ts)).
Proof.
  intros P b w l ts NF Hw A. destruct (wakeup_effect b w l ts NF) as [[-> _]|(u & U & HU & _ & _ & ->)]; auto.
  apply alltasks_upd; auto. apply Hw. eapply A; eauto.
Qed.

Definition user_op (o : op) : bool := negb (is_flush o) && negb (is_iflush o).
(* a task is the unexecuted _flush_queue, or a user program, or the remaining sentinel puts of _flush_queue *)
Definition shapeP (T : task) : Prop :=
  prog T = [IFlush] \/ forallb user_op (prog T) = true \/ forallb is_flush (prog T) = true.

Lemma shape_tail : forall T o l, shapeP T -> prog T = o :: l -> is_flush o = false ->
  length (filter is_flush l) = 0.
Proof.
  intros T o l [H|[H|H]] E NF; rewrite E in H.
  - injection H as _ ->. reflexivity.
  - cbn in H. apply andb_true_iff in H as [_ H]. clear E. induction l as [|a l IH]; cbn in *; auto.
    apply andb_true_iff in H as [Ha H]. unfold user_op in Ha. apply andb_true_iff in Ha as [Ha _].
    apply negb_true_iff in Ha. rewrite Ha. auto.
  - cbn in H. rewrite NF in H. discriminate.
Qed.

Lemma shape_iflush : forall T l, shapeP T -> prog T = IFlush :: l -> l = [].
Proof.
  intros T l [H|[H|H]] E; rewrite E in H; try (cbn in H; discriminate). injection H; auto.
Qed.

Lemma user_repeat_put : forall n, forallb user_op (repeat IPut n) = true.
Proof. induction n; cbn; auto. Qed.
Lemma flush_repeat : forall n, forallb is_flush (repeat IPutFlush n) = true.
Proof. induction n; cbn; auto. Qed.

Lemma shapeP_tail : forall T o l x, shapeP T -> prog T = o :: l -> prog x = l -> shapeP x.
Proof.
  intros T o l x [H|[H|H]] E Ex; rewrite E in H; unfold shapeP; rewrite Ex.
  - injection H as _ ->. right. left. reflexivity.
  - cbn in H. apply andb_true_iff in H as [_ H]. auto.
  - cbn in H. apply andb_true_iff in H as [_ H]. auto.
Qed.

Lemma shapeP_same : forall T x, shapeP T -> prog x = prog T -> shapeP x.
Proof. intros T x H E. unfold shapeP in *. rewrite E. exact H. Qed.

Lemma shapeP_nil : forall x, prog x = [] -> shapeP x.
Proof. intros x E. right. left. rewrite E. reflexivity. Qed.

Lemma shape_user_tail : forall T o l, shapeP T -> prog T = o :: l -> is_flush o = false -> forallb user_op l = true.
Proof.
  intros T o l [H|[H|H]] E NF; rewrite E in H.
  - injection H as _ ->. reflexivity.
  - cbn in H. apply andb_true_iff in H as [_ H]. auto.
  - cbn in H. rewrite NF in H. discriminate.
Qed.

Lemma shape_step : forall s t s', step s t = Some s' -> alltasks shapeP (tasks s) -> alltasks shapeP (tasks s').
Proof.
  intros s t s' H A. step_inv H; simp_proj.
  all: match goal with E : nth_error (tasks _) _ = Some ?T |- _ => pose proof (A _ _ E) as HS end.
  all: try apply alltasks_app1; repeat (apply alltasks_upd);
       try (apply alltasks_wakeup; [reflexivity|intros ? ?; eapply shapeP_same; eauto|]); try exact A.
  all: try (apply shapeP_nil; reflexivity).
  all: try (eapply shapeP_tail; [exact HS|eassumption|reflexivity]).
  all: try (eapply shapeP_same; [exact HS|cbn; congruence]).
  all: try (left; reflexivity).
  all: try match goal with |- context [after_item ?o _] => destruct o; cbn [after_item fst snd] in * end.
  all: try (eapply shapeP_tail; [exact HS|eassumption|reflexivity]).
  all: try (eapply shapeP_same; [exact HS|cbn; congruence]).
  all: try (match goal with E : nth_error (upd (tasks _) _ ?x) _ = Some ?U |- _ =>
              eapply shapeP_same; [eapply (alltasks_upd shapeP _ _ x A _ _ _ E)|reflexivity] end;
            eapply shapeP_tail; [exact HS|eassumption|reflexivity]).
  all: try (match goal with E2 : prog _ = IFlush :: ?l |- _ => pose proof (shape_iflush _ _ HS E2); subst l end;
            right; right; cbn [prog set_prog]; rewrite app_nil_r; apply flush_repeat).
  all: try (match goal with E2 : prog _ = _ :: ?l |- _ => pose proof (shape_user_tail _ _ _ HS E2 eq_refl) as HU end;
            right; left; cbn [prog set_prog]; rewrite ?forallb_app, ?user_repeat_put; cbn [forallb user_op is_flush is_iflush negb andb]; exact HU).
  all: match goal with E : nth_error (upd (tasks _) _ ?x) _ = Some ?U |- _ =>
         assert (HX : shapeP x) by (eapply shapeP_tail; [exact HS|eassumption|reflexivity]);
         eapply shapeP_same; [exact (alltasks_upd shapeP _ _ x A HX _ _ E)|reflexivity] end.
Qed.
