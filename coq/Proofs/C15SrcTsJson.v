(* C15 source-translation tie, part "ts_json": the mechanical translation of _Timestamp.timestamp_to_json (coq/gen/C15Src.v)
   against the hand-written model's timestamp_to_json (Model/Time.v), whose calendar argument [cal] is here the
   isoformat() the source itself calls (Model/Json.v cal_text of the UTC whole second).
   The source converts to UTC first (dt.astimezone(timezone.utc)), which raises OverflowError when the UTC wall clock
   leaves year 1..9999; the model has no such arm (it takes [cal] from outside): equal inside the range, OverflowError
   outside it, both proved.  The float arithmetic of the source (nanos = dt.microsecond * 1e3, %, //) is the library's
   integer-valued-float vocabulary (exact below 2^53; nanos < 10^9).
   Built only by the "source tie" stage of harness/props/c15.py (non-alarming: see Proofs/C15Src.v). *)
From BP Require Import Base.Prelude Model.Time Spec.Time Model.C16SrcLib Model.C15SrcLib gen.C15Src Proofs.TimeP.
From BP Require Model.TimeCore Model.Json Spec.JsonMap Proofs.C15CalP.
From Coq Require Import ZifyBool ZifyN.
Ltac Zify.zify_post_hook ::= Z.to_euclidean_division_equations.

Lemma src_ts_json_present : src_c15_ts_json_translated = true.
Proof. reflexivity. Qed.

Definition utc_in_range (dt : datetime) : bool := (DT_MIN_US <=? instant dt) && (instant dt <=? DT_MAX_US).

Lemma format_0d_nonneg' k x : 0 <= x -> py_format_0d k x = fmt0 k x.
Proof. intros H. unfold py_format_0d. replace (x <? 0) with false by lia. reflexivity. Qed.

Theorem src_timestamp_to_json_is_model dt : utc_in_range dt = true ->
  src_timestamp_to_json dt = timestamp_to_json (Model.Json.cal_text (instant dt / 1000000)) dt.
Proof.
  unfold utc_in_range. intros R.
  unfold src_timestamp_to_json, py_dt_tzinfo_is_not_none. cbv iota.
  unfold py_dt_astimezone_utc. cbv zeta.
  replace ((instant dt <? DT_MIN_US) || (DT_MAX_US <? instant dt)) with false by lia.
  cbn [bind]. cbv zeta.
  unfold py_dt_microsecond, py_dt_replace_us0_naive, py_isoformat_naive_s, py_int_mul_float, py_float_mod, py_float_floordiv,
    py_int_of_float, py_format_d_float.
  cbn [wall]. set (i := instant dt) in *.
  replace ((i - i mod 1000000) / 1000000) with (i / 1000000) by lia.
  unfold timestamp_to_json, timestamp_to_json_us. fold i. cbv zeta.
  destruct (i mod 1000000 * 1000 mod 1000000000 =? 0); [reflexivity|].
  destruct (i mod 1000000 * 1000 mod 1000000 =? 0).
  { rewrite format_0d_nonneg' by lia. reflexivity. }
  destruct (i mod 1000000 * 1000 mod 1000 =? 0).
  { rewrite format_0d_nonneg' by lia. reflexivity. }
  reflexivity.
Qed.

(* outside the range the source raises OverflowError (astimezone), whatever the fraction *)
Theorem src_timestamp_to_json_out_of_range dt : utc_in_range dt = false -> src_timestamp_to_json dt = Err EOverflow.
Proof.
  unfold utc_in_range. intros R.
  unfold src_timestamp_to_json, py_dt_tzinfo_is_not_none. cbv iota.
  unfold py_dt_astimezone_utc. cbv zeta.
  replace ((instant dt <? DT_MIN_US) || (DT_MAX_US <? instant dt)) with true by lia.
  reflexivity.
Qed.

(* there the model (given any calendar text) still answers: datetime.min carrying the offset +01:00 *)
Lemma model_has_no_overflow_arm :
  exists dt, utc_in_range dt = false /\ DT_MIN_US <= wall dt <= DT_MAX_US /\ src_timestamp_to_json dt = Err EOverflow /\
             forall cal, timestamp_to_json cal dt = Ok (cal ++ [cZ]).
Proof. exists (mkdt DT_MIN_US 3600000000). vm_compute. repeat split; intros; try discriminate; reflexivity. Qed.

(* ---------- the statements of Properties/C15.v over the translated function ---------- *)
(* the 9-digit branch (format code 'd' on a float: ValueError) is dead: the result is always one of the three forms *)
Theorem src_json_ts dt : utc_in_range dt = true ->
  src_timestamp_to_json dt = Ok (ts_json (Model.Json.cal_text (instant dt / 1000000)) (snd (ts_of_us (instant dt)))).
Proof. intros R. rewrite (src_timestamp_to_json_is_model dt R). apply timestamp_to_json_is_spec. Qed.

Theorem src_json_ts_calendar dt : utc_in_range dt = true ->
  exists text,
    src_timestamp_to_json dt = Ok text /\
    text = Spec.JsonMap.ts_str (fst (ts_of_us (instant dt))) (snd (ts_of_us (instant dt))) /\
    Spec.JsonMap.ts_parse text = Some (ts_of_us (instant dt)) /\
    Model.Json.iso_parse text = Ok (instant dt).
Proof.
  intros R. destruct (C15CalP.timestamp_json_full dt R) as (text & E & H).
  exists text. split; [|exact H]. rewrite (src_timestamp_to_json_is_model dt R). exact E.
Qed.

(* only the instant matters: two aware datetimes at the same instant give the same text *)
Theorem src_json_ts_tz a b : instant a = instant b -> src_timestamp_to_json a = src_timestamp_to_json b.
Proof.
  intros H. destruct (utc_in_range a) eqn:Ra.
  - assert (Rb : utc_in_range b = true) by (unfold utc_in_range in *; rewrite <- H; exact Ra).
    rewrite (src_json_ts a Ra), (src_json_ts b Rb), H. reflexivity.
  - assert (Rb : utc_in_range b = false) by (unfold utc_in_range in *; rewrite <- H; exact Ra).
    rewrite (src_timestamp_to_json_out_of_range a Ra), (src_timestamp_to_json_out_of_range b Rb). reflexivity.
Qed.
