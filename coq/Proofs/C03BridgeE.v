(* C03 bridge, part E (field by field): the runtime class generated for message M agrees with M's descriptor on
   every field: number, Python name, proto type (read directly off descriptor.proto's type numbers), map key /
   value types, optional flag, wrapper type (read off the wrapper's name), membership in a real oneof, and the
   shape of the hint (plain / Optional / List / Dict). *)
From BP Require Import Base.Prelude Model.Types Spec.Descriptor Model.Object Model.WellFormed.
From BP Require Import Model.C03Bridge Proofs.PluginP Proofs.C03BridgeA Proofs.C03BridgeB Proofs.C03BridgeC Proofs.C03BridgeD.
From Coq Require Import Lia.

(* the TYPE_ strings and descriptor.proto's numbers name the same proto types *)
Lemma kind_dtype t kn : kind_name t = Some kn -> exists ty, ptype_of_str kn = Some ty /\ ptype_of_dtype t = Some ty.
Proof.
  unfold kind_name, scalar_kind, ptype_of_dtype. intros H.
  repeat match type of H with
         | context [if ?a =? ?c then _ else _] =>
             destruct (Z.eqb_spec a c) as [-> | _];
             [cbv in H; injection H as <-; eexists; split; reflexivity|]
         end.
  discriminate.
Qed.

Lemma wrapper_ptypes_agree tn :
  lookup tn wrapper_ptypes = option_map (fun kv => ptype_or_bad (fst kv)) (lookup tn wkt_wrappers).
Proof. apply lookups_agree. repeat (constructor; [vm_compute; reflexivity|]). constructor. Qed.

Lemma scalar_kind_leaf t kn py : scalar_kind t = Some (kn, py) ->
  (t =? T_MESSAGE) = false /\ match py with PyOptional _ | PyList _ | PyDict _ _ => False | _ => True end.
Proof.
  unfold scalar_kind. intros H.
  repeat match type of H with
         | context [if ?a =? ?c then _ else _] =>
             destruct (Z.eqb_spec a c) as [-> | _]; [injection H as <- <-; split; [reflexivity | exact I]|]
         end.
  discriminate.
Qed.

Lemma tr_fields_Forall2 {A} (Q : A -> fdesc -> Prop) R gs xs fs :
  Forall2 (fun x pf => forall k, Q x (tr_field R gs k pf)) xs fs -> forall k, Forall2 Q xs (tr_fields R gs k fs).
Proof. induction 1 as [|x pf xs fs H _ IH]; intros k; cbn [tr_fields]; constructor; auto. Qed.

Lemma Forall2_with_in_r {A B} (P : A -> B -> Prop) l ys :
  Forall2 P l ys -> Forall2 (fun a y => P a y /\ In a l /\ In y ys) l ys.
Proof.
  induction 1 as [|a y l ys H _ IH]; constructor.
  - split; [assumption | split; now left].
  - eapply Forall2_impl; [|exact IH]. cbn beta. intros a' y' (H1 & H2 & H3). split; [assumption | split; now right].
Qed.

Section Agree.
  Variable field_name : str -> str.
  Variable class_name : str -> str.
  Variable enum_member_name : str -> str -> str.
  Variable D : descriptor.
  Variable t : class_table.
  Hypothesis Ht : class_table_of field_name class_name enum_member_name D = Some t.
  Hypothesis Hcn : class_nodup class_name D = true.
  Hypothesis Hbr : bridge_ok D = true.

  Let R := class_rows t.
  Let sc := schema_of_table t.

  Lemma tr_field_agrees pkg p m x pf gs k :
    spec_field field_name class_name D pkg p m x = Some pf ->
    (spec_map_entry pkg p m x = None -> vref_ok D x = true) ->
    (forall g, pf_group pf = Some g -> In g gs) ->
    field_agrees field_name pkg p m x (tr_field R gs k pf).
  Proof.
    unfold spec_field, field_agrees. intros Hs Hv Hg.
    destruct (spec_map_entry pkg p m x) as [e|] eqn:Hsp.
    - destruct (field_numbered 1 e) as [kf|] eqn:Ek; [|discriminate].
      destruct (field_numbered 2 e) as [vf|] eqn:Ev; [|discriminate].
      destruct (kind_name (fd_type kf)) as [kn|] eqn:Ekn; [|discriminate].
      destruct (kind_name (fd_type vf)) as [vn|] eqn:Evn; [|discriminate].
      destruct (spec_value_type class_name D kf) as [kt|]; [|discriminate].
      destruct (spec_value_type class_name D vf) as [vt|]; [|discriminate].
      injection Hs as <-. destruct (kind_dtype _ _ Ekn) as (ktp & Hk1 & Hk2). destruct (kind_dtype _ _ Evn) as (vtp & Hv1 & Hv2).
      unfold tr_field, ptype_or_bad, is_mapf.
      cbn [pf_name pf_number pf_proto_type pf_map_types pf_group pf_wraps pf_optional pf_hint fnum fname fty fmap fgroup fwraps fopt fhint hint_of hint_shape].
      rewrite Hk1, Hv1. repeat split. exists kf, vf, ktp, vtp. repeat split; assumption.
    - specialize (Hv eq_refl).
      destruct (kind_name (fd_type x)) as [kn|] eqn:Ekn; [|discriminate].
      destruct (spec_value_type class_name D x) as [vt|] eqn:Evt; [|discriminate].
      destruct (spec_group m x) as [grp|] eqn:Eg; [|discriminate].
      injection Hs as <-. destruct (kind_dtype _ _ Ekn) as (ty & Hty1 & Hty2).
      unfold tr_field, ptype_or_bad, is_mapf.
      cbn [pf_name pf_number pf_proto_type pf_map_types pf_group pf_wraps pf_optional pf_hint fnum fname fty fmap fgroup fwraps fopt fhint].
      rewrite Hty1. split; [reflexivity|]. split; [reflexivity|]. split; [assumption|]. split; [reflexivity|]. split; [reflexivity|].
      assert (Hw : match spec_wraps x with Some w => Some (ptype_or_bad w) | None => None end = wrapped_ptype x).
      { unfold spec_wraps, wrapped_ptype. destruct (fd_type x =? T_MESSAGE); [|reflexivity].
        rewrite wrapper_ptypes_agree. destruct (lookup (fd_type_name x) wkt_wrappers) as [[wk py]|]; reflexivity. }
      split; [exact Hw|]. split.
      + (* group *)
        unfold spec_group in Eg. unfold real_oneof. cbn [pf_group] in Hg.
        destruct (fd_oneof_index x) as [i|]; [|injection Eg as <-; reflexivity].
        destruct (fd_proto3_optional x); [injection Eg as <-; reflexivity|].
        destruct ((0 <=? i) && (i <? Zlength (md_oneofs m))); [|discriminate]. injection Eg as <-.
        destruct (index_of_in _ gs (Hg _ eq_refl)) as (j & -> & _). reflexivity.
      + (* shape of the hint *)
        destruct (fd_label x =? L_REPEATED); [reflexivity|].
        assert (Hvt : (is_some' (wrapped_ptype x) = true /\ exists py, vt = PyOptional py)
                      \/ (is_some' (wrapped_ptype x) = false
                          /\ match vt with PyOptional _ | PyList _ | PyDict _ _ => False | _ => True end)).
        { unfold spec_value_type in Evt. unfold wrapped_ptype. unfold vref_ok in Hv.
          destruct (scalar_kind (fd_type x)) as [[kn' py]|] eqn:Es.
          - injection Evt as <-. destruct (scalar_kind_leaf _ _ _ Es) as [E1 E2]. rewrite E1. right. split; [reflexivity | assumption].
          - destruct ((fd_type x =? T_MESSAGE) || (fd_type x =? T_ENUM)); [|discriminate].
            rewrite wrapper_ptypes_agree.
            destruct (lookup (fd_type_name x) wkt_wrappers) as [[wk py]|] eqn:El.
            + assert (Ew : is_wkt_name (fd_type_name x) = true) by (unfold is_wkt_name, is_wrapper_name; now rewrite El).
              rewrite Ew in Hv. rewrite Hv. injection Evt as <-. left. split; [reflexivity | eauto].
            + right. split; [now destruct (fd_type x =? T_MESSAGE)|].
              destruct (str_eqb (fd_type_name x) wkt_duration); [injection Evt as <-; exact I|].
              destruct (str_eqb (fd_type_name x) wkt_timestamp); [injection Evt as <-; exact I|].
              destruct (resolve D (fd_type_name x)); [injection Evt as <-; exact I | discriminate]. }
        destruct Hvt as [[Hw1 (py & ->)] | [Hw1 Hleaf]]; rewrite Hw1.
        * rewrite orb_true_r. now destruct (fd_proto3_optional x).
        * rewrite orb_false_r. destruct (fd_proto3_optional x).
          -- destruct vt; try contradiction; reflexivity.
          -- destruct vt; try contradiction; reflexivity.
  Qed.

  Theorem class_faithful pkg p m :
    In (SymMsg pkg p m) (symbols D) -> pkg <> google_protobuf -> md_map_entry m = false ->
    exists c, pyty_of R (PyRef (module_of_package pkg) (class_name (dotted p))) = Some (PyMsg c)
      /\ Forall2 (field_agrees field_name pkg p m) (md_fields m) (cfields (get_class sc c)).
  Proof.
    intros Hs Hne Hme. destruct (sym_msg_in D pkg p m Hs) as (f & Hf & <- & Hm).
    destruct (row_of_msg_fields field_name class_name enum_member_name D t Ht f p m Hf Hne Hm Hme) as (fs & Hrow & F).
    pose proof (rows_nodup field_name class_name enum_member_name D t Ht Hcn) as Hnd. fold R in Hnd.
    destruct (resolve_ref_msg_nth R Hnd _ _ _ O O Hrow) as (i & Hi & Hn). cbn [Nat.add] in Hi.
    exists (NB + i)%nat. split.
    { cbn [pyty_of]. unfold module_of_package. apply str_eqb_neq in Hne. now rewrite Hne. }
    destruct (user_class_at t i fs Hn) as (k' & Hk). unfold sc. rewrite Hk. unfold tr_class. cbn [cfields].
    apply tr_fields_Forall2. eapply Forall2_impl; [|exact (Forall2_with_in_r _ _ _ F)]. cbn beta.
    intros x pf (Hx & Hxin & Hpfin) k. apply (tr_field_agrees _ _ _ _ _ _ _ Hx).
    - intros Hsp. pose proof (bridge_msg D Hbr f p m Hf Hne Hm Hme) as B. unfold msg_bridge_ok in B. cbn [fst snd] in B.
      apply andb_prop in B as [_ B]. rewrite forallb_forall in B. specialize (B x Hxin). apply andb_prop in B as [_ B].
      rewrite Hsp in B. unfold plain_ok in B. apply andb_prop in B as [B _]. now apply andb_prop in B as [B _].
    - intros g Hg. eapply group_in_names; eauto.
  Qed.
End Agree.
