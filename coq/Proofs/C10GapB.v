(* C10 gap closing, second group (the table is at the top of Proofs/C10GapA.v): compositions.
     (1a) the value hypotheses of the end-to-end stream theorems discharged for objects produced by public-API histories (C01 reach);
     (8)  the same for the older reader;
     (4)  written messages that CARRY unknown fields, at any nesting depth (C14's normu_obj / c14u_value_ok, i.e. C01 + C08);
     (7a) faults other than a cut;  (7b) what a cut run returns re-encodes to the bytes written. *)
From Coq Require Import ZArith List Bool Lia.
From BP Require Import Base.Prelude Model.Types Model.Varint Model.Object Model.Eq Model.Encode Model.Len Model.Decode.
From BP Require Import Model.WellFormed Model.C01Def Model.C07Ops Model.C01Reach Model.C01Parse Model.C08Step.
From BP Require Import Model.C10Stream Model.C10Rt Model.C10GapDefs Model.C14Pickle Model.C14UDef.
From BP Require Import Spec.Varint Proofs.LenP Proofs.C10FieldP Proofs.C10FrameP Proofs.C10StreamP Proofs.C10TotalP Proofs.C10RtGenP
     Proofs.C10RtP Proofs.C10RtOldP Proofs.C10RtCutP Proofs.C10GapA.
From BP Require Proofs.C08EvoDef Proofs.C01Reach2B Proofs.C14UMain Proofs.C14UStable Proofs.C14UFinal Proofs.C14Obs.
Import ListNotations.

(* ---------- (1a) reachable objects ---------- *)
Lemma reached_ok sc hs ms :
  c01_schema_ok sc = true -> Forall2 (reached sc) hs ms ->
  Forall (fun m => c01_value_ok sc m = true) ms /\ Forall (fun m => sow_ok sc m = true) ms.
Proof.
  intros Hs H. induction H as [|h m hs ms (Hh & Hr) _ (IH1 & IH2)]; [split; constructor|].
  destruct (C01Reach2B.c01_reachable_sow_ok_parse sc (fst h) (snd h) m Hs Hh Hr) as (Hv & Hw).
  split; constructor; assumption.
Qed.

Definition cut_end (stream : list byte) (k nwhole nmsgs : nat) (r : result (list byte)) : Prop :=
  if (k <? length stream)%nat
  then (exists e, r = Err e /\ e <> EFuel) /\ (nwhole < nmsgs)%nat
  else r = Ok [] /\ nwhole = nmsgs.

Theorem stream_roundtrip_reachable sc hs ms rest :
  c01_schema_ok sc = true -> Forall2 (reached sc) hs ms -> Forall (fun m => msg_small sc m = true) ms ->
  exists stream,
    dump_stream sc ms = Ok stream /\
    loads sc (map ocls ms) (stream ++ rest) = (map (norm_obj sc) ms, Ok rest) /\
    Forall (fun m => same_message sc m (norm_obj sc m) /\ obs_top sc m (norm_obj sc m) = true) ms /\
    dump_stream sc (map (norm_obj sc) ms) = Ok stream /\
    forall k, exists r,
      loads sc (map ocls ms) (firstn k stream) = (map (norm_obj sc) (firstn (whole_frames sc ms k) ms), r) /\
      cut_end stream k (whole_frames sc ms k) (length ms) r.
Proof.
  intros Hs Hr Hsm. destruct (reached_ok sc hs ms Hs Hr) as (Hv & Hw).
  destruct (stream_decoded sc ms rest Hs Hv Hsm) as (stream & D & L & Same & D2).
  exists stream. split; [exact D|]. split; [exact L|]. split; [|split; [exact D2|]].
  - rewrite Forall_forall in *. intros m Hin. split; [apply Same; exact Hin|].
    destruct (Same m Hin) as (_ & _ & _ & _ & _ & Ho). apply Ho. apply Hw. exact Hin.
  - intros k. destruct (stream_truncate_decoded sc ms stream k Hs Hv Hsm D) as (r & EL & He & _).
    exists r. split; [exact EL | exact He].
Qed.

(* ---------- (8) the older reader, reachable objects ---------- *)
Theorem older_reader_reachable sn masks hs ms rest :
  c01_schema_ok sn = true -> C08EvoDef.masks_ok sn masks = true ->
  Forall2 (reached sn) hs ms -> Forall (fun m => msg_small sn m = true) ms ->
  exists stream mos stream2,
    dump_stream sn ms = Ok stream /\
    Forall2 (older_view sn masks) ms mos /\
    loads (drop_fields masks sn) (map ocls ms) (stream ++ rest) = (mos, Ok rest) /\
    dump_stream (drop_fields masks sn) mos = Ok stream2 /\ length stream2 = length stream /\
    (forall rest', loads sn (map ocls ms) (stream2 ++ rest') = (map (norm_obj sn) ms, Ok rest')) /\
    forall k, exists r,
      loads (drop_fields masks sn) (map ocls ms) (firstn k stream) = (firstn (whole_frames sn ms k) mos, r) /\
      cut_end stream k (whole_frames sn ms k) (length ms) r.
Proof.
  intros Hs Hm Hr Hsm. destruct (reached_ok sn hs ms Hs Hr) as (Hv & _).
  destruct (stream_older_reader sn masks ms rest Hs Hm Hv Hsm) as (stream & mos & stream2 & D & OV & L & D2 & Len & Back & _).
  exists stream, mos, stream2. repeat (split; [assumption|]).
  intros k.
  assert (PE : parse_each sn (drop_fields masks sn) (map ocls ms) ms = (mos, true)).
  { apply parse_each_forall2. clear - OV. induction OV as [|m mo ms mos (b1 & F & b2 & E & _ & P & _) _ IH]; constructor; eauto. }
  exact (stream_cut_total sn (drop_fields masks sn) ms (map ocls ms) stream k mos Hsm D (map_length _ _) PE).
Qed.

(* ---------- (4) written messages that carry unknown fields ---------- *)
Lemma dump_stream_map_same sc (f : obj -> obj) : forall ms stream,
  Forall (fun m => enc_obj sc (f m) = enc_obj sc m) ms ->
  dump_stream sc ms = Ok stream -> dump_stream sc (map f ms) = Ok stream.
Proof.
  induction ms as [|m ms IH]; intros stream H D; [exact D|].
  inversion H as [|? ? Hm Hms]; subst.
  destruct (dump_stream_cons _ _ _ _ D) as (F & S' & DF & DS & ->).
  cbn [map dump_stream]. rewrite (dump_of_enc_eq sc (f m) m Hm), DF. cbn [bind]. rewrite (IH S' Hms DS). reflexivity.
Qed.

Lemma unk_one sc m :
  c01_schema_ok sc = true -> c14u_value_ok sc m = true -> msg_small sc m = true ->
  (exists bs, enc_obj sc m = Ok bs /\ parse sc (ocls m) bs = Ok (normu_obj sc m)) /\ unk_view sc m (normu_obj sc m).
Proof.
  intros Hs Hv Hsm.
  destruct (C14UMain.c14u_decode_is_norm sc m Hs Hv) as (bs & E & P).
  assert (Hlt : Zlength bs < 2 ^ 64).
  { apply msg_small_spec in Hsm. destruct Hsm as (bs' & E' & L). rewrite E in E'. injection E' as <-. exact L. }
  split; [exists bs; split; [exact E | apply P; exact Hlt]|].
  assert (Hpre : pickle_pre_u sc m = true).
  { unfold pickle_pre_u, enc_small. rewrite Hs, Hv, E. cbn [andb]. apply Z.ltb_lt. exact Hlt. }
  destruct (C14UFinal.pickle_summary_u sc m m Hpre (C14Obs.mat_obj_refl sc m))
    as (o' & _ & -> & He & Hu & Hc & _ & Hg & Heq & _).
  unfold unk_view. split; [exact He|]. split; [apply dump_of_enc_eq; exact He|]. repeat (split; [assumption|]). exact Heq.
Qed.

Theorem stream_roundtrip_unknown sc ms rest :
  c01_schema_ok sc = true ->
  Forall (fun m => c14u_value_ok sc m = true) ms -> Forall (fun m => msg_small sc m = true) ms ->
  exists stream,
    dump_stream sc ms = Ok stream /\
    loads sc (map ocls ms) (stream ++ rest) = (map (normu_obj sc) ms, Ok rest) /\
    Forall (fun m => unk_view sc m (normu_obj sc m)) ms /\
    dump_stream sc (map (normu_obj sc) ms) = Ok stream /\
    forall k, exists r,
      loads sc (map ocls ms) (firstn k stream) = (map (normu_obj sc) (firstn (whole_frames sc ms k) ms), r) /\
      cut_end stream k (whole_frames sc ms k) (length ms) r.
Proof.
  intros Hs Hv Hsm. destruct (dump_stream_small sc ms Hsm) as (stream & D). exists stream.
  assert (PE : parse_each sc sc (map ocls ms) ms = (map (normu_obj sc) ms, true)).
  { apply parse_each_map. rewrite Forall_forall in *. intros m Hin. apply (unk_one sc m Hs (Hv m Hin) (Hsm m Hin)). }
  assert (UV : Forall (fun m => unk_view sc m (normu_obj sc m)) ms).
  { rewrite Forall_forall in *. intros m Hin. apply (unk_one sc m Hs (Hv m Hin) (Hsm m Hin)). }
  split; [exact D|]. split; [apply (loads_parse_each sc sc ms (map ocls ms) stream rest _ Hsm D (map_length _ _) PE)|].
  split; [exact UV|]. split.
  - apply dump_stream_map_same; [|exact D]. rewrite Forall_forall in *. intros m Hin. apply (UV m Hin).
  - intros k. destruct (stream_cut_total sc sc ms (map ocls ms) stream k _ Hsm D (map_length _ _) PE) as (r & EL & Hr).
    exists r. rewrite <- firstn_map. split; [exact EL | exact Hr].
Qed.

(* the side condition on the unknown bytes is needed: _unknown_fields that hold a record of a DECLARED field (parse never leaves
   such bytes there) are written after the known fields and read back INTO the field - a different message, not == *)
Definition unk_sc : schema :=
  mkS (builtin_classes ++ [mkC [mkF [x78] 1 TInt32 None None None false (HPlain PyInt) 0] 0]) [].
Definition unk_bad : obj := Obj 11 [PInt 5] true [x08; x07] [].

Lemma stream_unknown_needs_records_refuted :
  exists sc m stream m',
    c01_schema_ok sc = true /\ c01_value_ok sc (clear_unk m) = true /\ msg_small sc m = true /\
    unk_records_ok sc m = false /\ c14u_value_ok sc m = false /\
    dump_stream sc [m] = Ok stream /\ loads sc [ocls m] stream = ([m'], Ok []) /\
    ounk m' = [] /\ obj_eq sc m m' = false /\ obj_eq sc m' m = false /\ enc_obj sc m' <> enc_obj sc m.
Proof.
  exists unk_sc, unk_bad, [x04; x08; x05; x08; x07], (Obj 11 [PInt 7] true [] []).
  vm_compute. repeat split; try reflexivity. discriminate.
Qed.

(* ---------- (7a) a written stream damaged from byte k on, in any way ---------- *)
Theorem stream_fault_any_reader scW scR ms cs stream k l s2 :
  Forall (fun m => msg_small scW m = true) ms ->
  dump_stream scW ms = Ok stream -> length cs = length ms ->
  parse_each scW scR cs ms = (l, true) -> agree_upto k stream s2 ->
  exists more, fst (loads scR cs s2) = firstn (whole_frames scW ms k) l ++ more.
Proof.
  intros Hs D Hl PE A.
  destruct (stream_cut_total scW scR ms cs stream k l Hs D Hl PE) as (r & EL & _).
  destruct (loads_fault scR cs k stream s2 A) as (_ & H2). rewrite EL in H2. cbn [fst] in H2.
  exists (skipn (length (firstn (whole_frames scW ms k) l)) (fst (loads scR cs s2))).
  rewrite <- H2 at 1. symmetry. rewrite H2. rewrite <- H2 at 1. apply firstn_skipn.
Qed.

Theorem stream_fault_roundtrip sc ms stream k s2 :
  c01_schema_ok sc = true ->
  Forall (fun m => c01_value_ok sc m = true) ms -> Forall (fun m => msg_small sc m = true) ms ->
  dump_stream sc ms = Ok stream -> agree_upto k stream s2 ->
  exists more, fst (loads sc (map ocls ms) s2) = map (norm_obj sc) (firstn (whole_frames sc ms k) ms) ++ more /\
               Forall (fun m => same_message sc m (norm_obj sc m)) (firstn (whole_frames sc ms k) ms).
Proof.
  intros Hs Hv Hsm D A.
  assert (PE : parse_each sc sc (map ocls ms) ms = (map (norm_obj sc) ms, true)).
  { apply parse_each_map. rewrite Forall_forall in *. intros m Hin. apply rt_read; auto. }
  destruct (stream_fault_any_reader sc sc ms (map ocls ms) stream k _ s2 Hsm D (map_length _ _) PE A) as (more & H).
  exists more. rewrite firstn_map in H. split; [exact H|].
  apply Forall_firstn. rewrite Forall_forall in *. intros m Hin. apply rt_same; auto.
Qed.

(* ---------- (7b) never shortened, as bytes: what a cut run returns re-encodes to the bytes written ---------- *)
Theorem returned_same_bytes sc ms stream k :
  c01_schema_ok sc = true ->
  Forall (fun m => c01_value_ok sc m = true) ms -> Forall (fun m => msg_small sc m = true) ms ->
  dump_stream sc ms = Ok stream ->
  exists j, (j <= length ms)%nat /\
    Forall2 (fun m m' => enc_obj sc m' = enc_obj sc m /\ dump sc m' true = dump sc m true)
            (firstn j ms) (fst (loads sc (map ocls ms) (firstn k stream))).
Proof.
  intros Hs Hv Hsm D. destruct (stream_truncate_decoded sc ms stream k Hs Hv Hsm D) as (r & EL & _ & Same).
  exists (whole_frames sc ms k). split; [apply whole_frames_le|]. rewrite EL. cbn [fst].
  clear EL. induction Same as [|m l (_ & He & Hd & _) _ IH]; cbn [map]; constructor; [split; assumption | exact IH].
Qed.
