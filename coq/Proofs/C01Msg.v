(* C01 layer 4g — a whole message: every slot shape combined ([slot_all]), the walk over the field list
   (the decoder's object goes through the states "slots < i normalised, slots >= i fresh"), the
   _group_current bookkeeping, and the induction over nested values. *)
From Coq Require Import ZArith List Bool Lia ZifyBool.
From BP Require Import Base.Prelude Model.Types Model.Varint Model.Scalar Model.Float Model.Utf8.
From BP Require Import Model.Object Model.Eq Model.TimeCore Model.Encode Model.Decode Model.WellFormed Model.C01Def.
From BP Require Import gen.Tables Proofs.BytesP Proofs.LenP Proofs.C01Scalar Proofs.C01Frame Proofs.C01Step Proofs.C01Apply
     Proofs.C01Elem Proofs.C01Field Proofs.C01Builtin Proofs.C01Unfold Proofs.C01Value Proofs.C01Slot Proofs.C01Slot2
     Proofs.C01Dict.

Section SlotAll.
  Variables (sc : schema) (fuel' : nat) (c : nat).
  Hypothesis Hbi : builtins_exact sc = true.
  Let cd := get_class sc c.
  Let fs := cfields cd.

  Variables (cur : list (option nat)) (i : nat) (f : fdesc).
  Hypothesis Hf : nth_error fs i = Some f.
  Hypothesis Hnd : nodup_z (map fnum fs) = true.
  Hypothesis Hwf : wf_field sc (cngroups cd) f = true.
  Hypothesis Hent : entry_hints_ok sc f = true.
  Let sel := group_selects cur f i.

  Variables (rawP : list pv) (unk : list byte) (curP : list (option nat)).
  Hypothesis Hfresh : nth i rawP PPlaceholder = fresh_of f.
  Hypothesis Hlen : (i < length rawP)%nat.
  Hypothesis Hsib : sel = Some true -> forall g, fgroup f = Some g -> sibs_clear fs rawP g i.

  Lemma singular_hint x :
    is_singular x = true -> slot_in_range sc f x = true -> exists p, fhint f = HPlain p \/ fhint f = HOptional p.
  Proof.
    intros Hx Hr. unfold slot_in_range in Hr. destruct (fhint f) as [p|p|p|pk pv']; eauto;
      destruct x; try discriminate Hx; try discriminate Hr; destruct (fmap f) as [[? ?]|]; discriminate Hr.
  Qed.

  Lemma slot_all x :
    slot_in_range sc f x = true ->
    (sel = Some false -> x = PPlaceholder) ->
    (forall d, x = PDict d -> keys_nodup sc d = true) ->
    subP (Good sc) x ->
    slot_goal sc fuel' c cur i f rawP unk curP x.
  Proof.
    intros Hr Hclean Hkeys HG.
    assert (Hsib' : sel <> Some false -> forall g, fgroup f = Some g -> sibs_clear fs rawP g i).
    { intros Hn g Hg. destruct sel as [[|]|] eqn:Hsel; [apply Hsib; auto | congruence |].
      pose proof (group_selects_shape cur f i) as Hsh. fold sel in Hsh. rewrite Hsel in Hsh. congruence. }
    destruct (sel) as [[|]|] eqn:Hsel.
    2:{ apply slot_unselected; auto. }
    all: assert (Hne : group_selects cur f i <> Some false) by (fold sel; rewrite Hsel; discriminate).
    all: specialize (Hsib' ltac:(discriminate)).
    all: destruct (is_singular x) eqn:Hx.
    1,3: (destruct (singular_hint x Hx Hr) as (p & Hp);
          assert (HG' : elemP (Good sc) x) by (destruct x; try discriminate Hx; try exact I; exact HG);
          exact (slot_singular sc fuel' c Hbi cur i f x Hf Hnd Hwf Hx Hr HG' Hne rawP unk curP Hfresh Hlen Hsib' p Hp)).
    all: destruct x as [| |z|b|bits|s|b|us|us|l|d|o]; try discriminate Hx.
    - apply slot_placeholder_selected; auto.
    - exfalso. pose proof (group_selects_shape cur f i) as Hsh. fold sel in Hsh. rewrite Hsel in Hsh. destruct Hsh as (g & Hg & _).
      unfold slot_in_range in Hr. destruct (fhint f) as [p|p|p|pk pv'] eqn:Hh; try discriminate Hr.
      destruct (wf_optional _ _ _ _ Hwf Hh) as (_ & Hg' & _). congruence.
    - exfalso. pose proof (group_selects_shape cur f i) as Hsh. fold sel in Hsh. rewrite Hsel in Hsh. destruct Hsh as (g & Hg & _).
      unfold slot_in_range in Hr. destruct (fhint f) as [p|p|p|pk pv'] eqn:Hh; try discriminate Hr;
        try (destruct p; try discriminate Hr; destruct (fty f); discriminate Hr).
      destruct (wf_list _ _ _ _ Hwf Hh) as (_ & _ & _ & Hg' & _). congruence.
    - exfalso. pose proof (group_selects_shape cur f i) as Hsh. fold sel in Hsh. rewrite Hsel in Hsh. destruct Hsh as (g & Hg & _).
      unfold slot_in_range in Hr. destruct (fhint f) as [p|p|p|pk pv'] eqn:Hh; try discriminate Hr;
        try (destruct p; try discriminate Hr; destruct (fty f); discriminate Hr).
      destruct (wf_dict _ _ _ _ _ Hwf Hh) as (_ & _ & Hg' & _). congruence.
    - apply slot_placeholder_unselected; auto.
    - apply slot_none; auto. unfold slot_in_range in Hr. destruct (fhint f); try discriminate Hr. eauto.
    - assert (Hh : exists p, fhint f = HList p).
      { unfold slot_in_range in Hr. destruct (fhint f) as [p|p|p|pk pv'] eqn:Hh; eauto; try discriminate Hr;
          try (destruct p; try discriminate Hr; destruct (fty f); try destruct (fwraps f); try discriminate Hr; destruct p0; discriminate Hr). }
      destruct Hh as (p & Hh). apply (slot_list sc fuel' c Hbi cur i f Hf Hnd Hwf rawP unk curP Hfresh Hlen Hsib' p Hh l Hr HG).
    - assert (Hh : exists pk pv', fhint f = HDict pk pv').
      { unfold slot_in_range in Hr. destruct (fhint f) as [p|p|p|pk pv'] eqn:Hh; eauto; try discriminate Hr;
          try (destruct p; try discriminate Hr; destruct (fty f); try destruct (fwraps f); try discriminate Hr; destruct p0; discriminate Hr). }
      destruct Hh as (pk & pv' & Hh).
      apply (slot_dict sc fuel' c Hbi cur i f Hf Hnd Hwf Hent rawP unk curP Hfresh Hlen pk pv' Hh d Hr (Hkeys d eq_refl) HG).
  Qed.
End SlotAll.
