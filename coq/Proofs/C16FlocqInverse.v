(* C16, float clause, part 7: the other direction of "mutually inverse" - every binary32 number (finite or
   infinite) survives struct.unpack("<f") followed by struct.pack("<f") bit for bit; and the value a float32
   field holds after one round trip (C01's norm_f32) is the correctly rounded one and is stable. *)
From Coq Require Import ZArith Reals List Bool Lia Lra ZifyBool.
From Flocq Require Import Core IEEE754.Binary IEEE754.Bits.
From BP Require Import Base.Prelude Model.Float Model.C01Def Proofs.C01Float.
From BP Require Import Proofs.C16FlocqBits Proofs.C16FlocqWiden Proofs.C16FlocqRound Proofs.C16FlocqNarrowZ Proofs.C16FlocqNarrow Proofs.C16FlocqCodec.
Open Scope Z_scope.

Lemma finite32_eq a b :
  0 <= a < 2 ^ 32 -> 0 <= b < 2 ^ 32 -> f32_exp a <> 255 -> f32_exp b <> 255 ->
  f32_R a = f32_R b -> f32_sign a = f32_sign b -> a = b.
Proof.
  intros Ha Hb Fa Fb HR HS.
  destruct (b32_finite_all a Ha Fa) as (A1 & A2 & A3). destruct (b32_finite_all b Hb Fb) as (B1 & B2 & B3).
  rewrite <- (bits_b32 a Ha), <- (bits_b32 b Hb). f_equal.
  apply B2R_Bsign_inj; try assumption; congruence.
Qed.

Lemma d2f_f2d_finite w : 0 <= w < 2 ^ 32 -> f32_exp w <> 255 -> d2f (f2d w) = Some w.
Proof.
  intros Hw Hf.
  destruct (f2d_finite_exact w Hw Hf) as (Hr & HE & HSg & HR).
  destruct (b32_finite_all w Hw Hf) as (A1 & A2 & A3).
  assert (Hfmt : generic_format radix2 fexp32 (f32_R w)).
  { rewrite <- A1. exact (generic_format_B2R 24 128 (b32_of_bits w)). }
  assert (Hlt : (Rabs (f32_R w) < bpow radix2 128)%R).
  { rewrite <- A1. exact (abs_B2R_lt_emax 24 128 (b32_of_bits w)). }
  destruct (d2f_rounds (f2d w) Hr HE) as [HS _]. cbv zeta in HS. rewrite HR in HS.
  rewrite (round_generic radix2 fexp32 ZnearestE (f32_R w) Hfmt) in HS.
  destruct (HS Hlt) as (w' & Hd & Hw' & Hf' & Hs' & HR').
  rewrite Hd. f_equal. apply finite32_eq; try assumption. congruence.
Qed.

Theorem d2f_f2d_inverse w :
  0 <= w < 2 ^ 32 ->
  Z.land (Z.shiftr w 23) 255 <> 255 \/ Z.land w (2 ^ 23 - 1) = 0 ->
  d2f (f2d w) = Some w.
Proof.
  intros Hw [Hf | Hm0].
  - apply d2f_f2d_finite; assumption.
  - destruct (Z.eq_dec (f32_exp w) 255) as [He | Hne]; [|apply d2f_f2d_finite; assumption].
    (* the two infinities *)
    pose proof (f32_compose w) as Hc. fold (f32_man w) in Hm0. rewrite He, Hm0 in Hc.
    destruct (f32_sign_cases w Hw) as [Hs | Hs]; rewrite Hs in Hc; rewrite Hc; vm_compute; reflexivity.
Qed.

(* a signalling NaN does not survive: the conversions set the quiet bit (as the hardware conversion does) *)
Lemma d2f_f2d_snan_refuted : exists w, 0 <= w < 2 ^ 32 /\ d2f (f2d w) <> Some w.
Proof. exists 2139095041. vm_compute. split; [split|]; congruence. Qed.

(* the value a float32 field holds after encode + decode *)
Theorem norm_f32_correctly_rounded b :
  0 <= b < 2 ^ 64 -> Z.land (Z.shiftr b 52) 2047 <> 2047 ->
  let r := round radix2 (FLT_exp (-149) 24) ZnearestE (B2R 53 1024 (b64_of_bits b)) in
  (Rabs r < bpow radix2 128)%R ->
  0 <= norm_f32 b < 2 ^ 64 /\
  is_finite 53 1024 (b64_of_bits (norm_f32 b)) = true /\
  B2R 53 1024 (b64_of_bits (norm_f32 b)) = r /\
  Bsign 53 1024 (b64_of_bits (norm_f32 b)) = Bsign 53 1024 (b64_of_bits b) /\
  f32_representable (norm_f32 b) = true /\ norm_f32 (norm_f32 b) = norm_f32 b.
Proof.
  intros Hb Hfin r Hlt.
  destruct (d2f_correctly_rounded b Hb Hfin) as [HS _]. fold r in HS.
  destruct (HS Hlt) as (w & Hd & Hw & F1 & F2 & F3 & F4).
  assert (Hfw : Z.land (Z.shiftr w 23) 255 <> 255).
  { intros E. fold (f32_exp w) in E.
    unfold b32_of_bits, binary_float_of_bits in F1. rewrite is_finite_FF2B, (decode_32 w Hw) in F1.
    cbv zeta in F1. rewrite E in F1. cbn [Z.eqb] in F1.
    change (255 =? 255) with true in F1. cbv iota in F1.
    destruct (f32_man w); discriminate. }
  destruct (f2d_exact w Hw Hfw) as (G0 & G1 & G2 & G3 & G4).
  pose proof (d2f_f2d_finite w Hw Hfw) as Hinv.
  assert (Hn : norm_f32 b = f2d w) by (unfold norm_f32; rewrite Hd; reflexivity).
  rewrite !Hn.
  split; [exact G0|]. split; [exact G2|]. split; [congruence|]. split; [congruence|].
  split.
  - unfold f32_representable. rewrite Hinv. lia.
  - unfold norm_f32. rewrite Hinv. reflexivity.
Qed.
