(* C01 over reachable objects, parse discharged: the [flagged] clause of [dec_ok] (Model/C01Parse.v) never fails on
   what the decoder computes - it is implied by the other clause, so [clean_bytes] excludes nothing through it. *)
From Coq Require Import ZArith List Bool Lia Arith.
From BP Require Import Base.Prelude Model.Types Model.Varint Model.Scalar Model.Object Model.Eq Model.Encode Model.Decode Model.WellFormed.
From BP Require Import Model.History Model.C07Ops Model.C01Def Model.C01Reach Model.C01Parse.
From BP Require Import gen.Tables.
From BP Require Import Proofs.C01Unfold Proofs.C01Msg Proofs.C07ValP.
Import ListNotations.

Lemma postprocess_varint_nomsg t v o : postprocess_varint t v <> PMsg o.
Proof.
  unfold postprocess_varint.
  repeat match goal with |- context [if ?b then _ else _] => destruct b end; discriminate.
Qed.

Lemma unpack_value_nomsg t bs o : unpack_value t bs <> Ok (PMsg o).
Proof.
  unfold unpack_value. destruct (pack_fmt t) as [[]|]; try discriminate;
    try (destruct (Nat.eqb _ _); discriminate);
    (destruct (unpack_int _ bs); cbn [bind]; discriminate).
Qed.

Lemma wrapper_value_not_message w : wrapper_value_type w <> Some TMessage.
Proof. destruct w; vm_compute; discriminate. Qed.

Lemma decoded_flagged fuel' sc n f p v :
  wf_field sc n f = true ->
  (exists t, fhint f = HPlain t \/ fhint f = HOptional t) ->
  decode_value fuel' sc f p = Ok v -> val_ok sc f v = true -> flagged v = true.
Proof.
  intros Hwf (t & Hh) E Hv. destruct v as [| | | | | | | | | | |o]; try reflexivity.
  assert (Hnm : ptype_eqb (fty f) TMap = false).
  { destruct Hh as [Hh|Hh].
    - destruct (wf_plain _ _ _ _ Hwf Hh) as (_ & _ & _ & Hnm & _). exact Hnm.
    - destruct (wf_optional _ _ _ _ Hwf Hh) as (_ & _ & [(w & vt & _ & _ & Ht & _) | (_ & _ & Ht & _)]);
        [rewrite Ht; reflexivity | exact Ht]. }
  destruct (fwraps f) as [w|] eqn:Hw.
  { (* a wrapper field never holds a message *)
    exfalso. destruct Hh as [Hh|Hh].
    - destruct (wf_plain _ _ _ _ Hwf Hh) as (_ & Hw' & _). congruence.
    - destruct (wf_optional _ _ _ _ Hwf Hh) as (_ & _ & [(w' & vt & Hw' & _ & _ & _ & Hvt & Hfit) | (Hw' & _)]); [|congruence].
      assert (w' = w) by congruence. subst w'.
      unfold val_ok, slot_ok, field_in_range in Hv. rewrite Hh, Hw in Hv.
      apply andb_true_iff in Hv as [_ Hv]. apply andb_true_iff in Hv as [Hv _]. apply andb_true_iff in Hv as [Hv _].
      destruct t; try (destruct w; destruct o; discriminate Hv).
      destruct vt; try discriminate Hfit. eapply wrapper_value_not_message; eauto. }
  unfold decode_value in E.
  destruct ((pwt p =? WIRE_LEN_DELIM) && tmem (fty f) PACKED_TYPES).
  { destruct (unpack_packed _ _ _); cbn [bind] in E; discriminate. }
  destruct (pwt p =? WIRE_VARINT).
  { injection E as E. exfalso. eapply postprocess_varint_nomsg; eauto. }
  destruct ((pwt p =? WIRE_FIXED_32) || (pwt p =? WIRE_FIXED_64)).
  { exfalso. eapply unpack_value_nomsg; eauto. }
  rewrite Hnm in E. unfold post_len in E. rewrite Hw in E.
  destruct (ptype_eqb (fty f) TString). { destruct (Utf8.utf8_valid _); discriminate. }
  destruct (ptype_eqb (fty f) TMessage); [|discriminate].
  destruct (hint_elem (fhint f)) as [| | | | |e|c'| |]; try discriminate E.
  - destruct (parse_new fuel' sc c' (pbytes p)) as [m|]; cbn [bind] in E; [|discriminate].
    injection E as <-. destruct m; reflexivity.
  - crush_ok E.
  - crush_ok E.
Qed.

(* so: for the records of a clean stream the clause could be dropped *)
Lemma dec_ok_without_flag fuel' sc n f p v :
  wf_field sc n f = true -> decode_value fuel' sc f p = Ok v ->
  dec_ok sc f v =
  match fhint f with
  | HPlain _ | HOptional _ => val_ok sc f v
  | _ => dec_ok sc f v
  end.
Proof.
  intros Hwf E. unfold dec_ok. destruct (fhint f) as [t|t|t|pk t] eqn:Hh; try reflexivity.
  - destruct (val_ok sc f v) eqn:Hv; [|reflexivity].
    rewrite (decoded_flagged fuel' sc n f p v Hwf (ex_intro _ t (or_introl Hh)) E Hv). reflexivity.
  - destruct (val_ok sc f v) eqn:Hv; [|reflexivity].
    rewrite (decoded_flagged fuel' sc n f p v Hwf (ex_intro _ t (or_intror Hh)) E Hv). reflexivity.
Qed.
