(* C15 source-translation tie, part "dur_json": the mechanical translation of _Duration.delta_to_json (coq/gen/C15Src.v)
   is the hand-written model's delta_to_json (Model/Time.v) for every timedelta.  Built only by the "source tie" stage of
   harness/props/c15.py (non-alarming: see Proofs/C15Src.v). *)
From BP Require Import Base.Prelude Model.Time Spec.Time Model.C16SrcLib Model.C15SrcLib gen.C15Src Proofs.TimeP.
From Coq Require Import ZifyBool ZifyN.
Ltac Zify.zify_post_hook ::= Z.to_euclidean_division_equations.

Lemma src_dur_json_present : src_c15_dur_json_translated = true.
Proof. reflexivity. Qed.

Lemma td_us1' : py_timedelta_s_us 0 1 = Ok 1.
Proof. vm_compute. reflexivity. Qed.

(* the sign arms of the two formatting primitives are not reached: both arguments are non-negative *)
Lemma str_of_int_nonneg x : 0 <= x -> py_str_of_int x = dec x.
Proof. intros H. unfold py_str_of_int. replace (x <? 0) with false by lia. reflexivity. Qed.

Lemma format_0d_nonneg k x : 0 <= x -> py_format_0d k x = fmt0 k x.
Proof. intros H. unfold py_format_0d. replace (x <? 0) with false by lia. reflexivity. Qed.

Theorem src_delta_to_json_is_model d : src_delta_to_json d = Ok (delta_to_json d).
Proof.
  unfold src_delta_to_json. rewrite td_us1'. cbn [bind].
  unfold py_td_floordiv_td. change (1 =? 0) with false. cbv iota. cbn [bind]. cbv zeta.
  rewrite Z.div_1_r.
  unfold delta_to_json, py_divmod, py_pow, py_abs, py_floordiv. cbv beta iota zeta.
  change (10 ^ 6) with 1000000.
  rewrite str_of_int_nonneg by lia.
  rewrite (format_0d_nonneg 3) by lia. rewrite (format_0d_nonneg 6) by lia.
  destruct (Z.abs d mod 1000000 mod 1000 =? 0); reflexivity.
Qed.

(* ---------- the statements of Properties/C15.v over the translated function ---------- *)
Theorem src_json_dur d : d mod 1000000 <> 0 ->
  src_delta_to_json d = Ok (dur_json (fst (dur_of_us d)) (snd (dur_of_us d))).
Proof. intros H. rewrite src_delta_to_json_is_model, (delta_to_json_is_spec d H). reflexivity. Qed.

Theorem src_json_dur_read_by_reference d :
  bind (src_delta_to_json d) (fun t => Ok (dur_parse t)) = Ok (Some (dur_of_us d)).
Proof. rewrite src_delta_to_json_is_model. cbn [bind]. rewrite dur_parse_delta_to_json. reflexivity. Qed.

Theorem src_json_dur_roundtrip d : Z.abs (td_days d) <= 999999999 ->
  bind (src_delta_to_json d) parse_duration = Ok d.
Proof. intros H. rewrite src_delta_to_json_is_model. cbn [bind]. apply parse_duration_delta_to_json, H. Qed.
