(* C02, leaves of the one-record simulation: what _postprocess_single computes for one payload
   is what Spec/Wire.v says the payload denotes (per scalar type), the packed loop against
   [unpack], and the wire-type tables against [fits]. *)
From BP Require Import Base.Prelude Model.Types Model.Varint Model.Scalar Model.Float Model.Utf8.
From BP Require Import Model.Object Model.Eq Model.Decode.
From BP Require Import Spec.Varint Spec.Wire Proofs.BytesP Proofs.VarintP Proofs.ScalarP Proofs.C02Abs Proofs.C02WireP.
From BP Require Import gen.Tables.
From Coq Require Import ZifyBool ZifyN.
Ltac Zify.zify_post_hook ::= Z.to_euclidean_division_equations.

(* ------------------------------------------------------------------ integers *)
Lemma sign_recover_signed bits n :
  0 < bits -> sign_recover bits n = signed bits n.
Proof.
  intros Hb. unfold sign_recover, signed. rewrite !Z.shiftl_1_l.
  replace (2 ^ bits - 1) with (Z.ones bits) by (rewrite Z.ones_equiv; lia).
  rewrite Z.land_ones by lia.
  assert (Hp : 0 < 2 ^ bits) by (apply Z.pow_pos_nonneg; lia).
  pose proof (Z.mod_pos_bound n (2 ^ bits) Hp) as Hm.
  assert (Eb : 2 ^ bits = 2 * 2 ^ (bits - 1)).
  { rewrite <- Z.pow_succ_r by lia. f_equal. lia. }
  rewrite lxor_signbit; [| lia | replace (bits - 1 + 1) with bits by lia; exact Hm].
  destruct (n mod 2 ^ bits <? 2 ^ (bits - 1)); lia.
Qed.

Lemma unzigzag_unzz n : 0 <= n -> unzigzag n = unzz n.
Proof.
  intros Hn. unfold unzigzag, unzz. rewrite shiftr_1, land_1.
  pose proof (Zmod_even n) as He. destruct (Z.even n); rewrite He.
  - change (- 0) with 0. rewrite Z.lxor_0_r. reflexivity.
  - change (- (1)) with (Z.lnot 0). rewrite lxor_m1. lia.
Qed.

Lemma postprocess_varint_spec t n :
  tmem t WIRE_VARINT_TYPES = true -> 0 <= n < 2 ^ 64 -> (narrow32 t = true -> n < 2 ^ 32) ->
  of_varint t n = Some (abs_scalar (postprocess_varint t n)).
Proof.
  intros Ht Hn Hnar.
  destruct t; try (vm_compute in Ht; discriminate Ht); unfold postprocess_varint, of_varint;
    cbn [ptype_eqb ptype_tag Z.eqb Pos.eqb tmem existsb orb abs_scalar].
  - (* enum *) now rewrite sign_recover_signed by lia.
  - (* bool *) unfold bool_of_varint. do 2 f_equal. lia.
  - (* int32 *) now rewrite sign_recover_signed by lia.
  - (* int64 *) now rewrite sign_recover_signed by lia.
  - (* uint32 *) specialize (Hnar eq_refl). do 2 f_equal. lia.
  - (* uint64 *) do 2 f_equal. lia.
  - (* sint32 *) specialize (Hnar eq_refl). rewrite unzigzag_unzz by lia. do 3 f_equal. lia.
  - (* sint64 *) rewrite unzigzag_unzz by lia. do 3 f_equal. lia.
Qed.

(* ------------------------------------------------------------------ fixed width *)
Lemma le_value_4 b : length b = 4%nat -> 0 <= le_value b < 2 ^ 32.
Proof. intros L. pose proof (le_value_range b) as H. rewrite L in H. exact H. Qed.
Lemma le_value_8 b : length b = 8%nat -> 0 <= le_value b < 2 ^ 64.
Proof. intros L. pose proof (le_value_range b) as H. rewrite L in H. exact H. Qed.

Lemma unpack_value_fixed32 t b :
  tmem t WIRE_FIXED_32_TYPES = true -> length b = 4%nat ->
  exists v, unpack_value t b = Ok v /\ of_fixed32 t b = Some (abs_scalar v).
Proof.
  intros Ht L. pose proof (le_value_4 b L) as Hr.
  destruct t; try (vm_compute in Ht; discriminate Ht); unfold unpack_value, pack_fmt, of_fixed32.
  - (* float *) rewrite L. cbn [Nat.eqb]. eexists; split; reflexivity.
  - (* fixed32 *) unfold unpack_int, fmt_int_range. rewrite L. cbn [Nat.eqb bind].
    eexists; split; [reflexivity|]. cbn [abs_scalar]. do 2 f_equal.
    match goal with |- _ = if ?c then _ else _ => destruct c eqn:E end; lia.
  - (* sfixed32 *) unfold unpack_int, fmt_int_range. rewrite L. cbn [Nat.eqb bind].
    eexists; split; [reflexivity|]. cbn [abs_scalar]. unfold signed. cbv zeta.
    rewrite Z.mod_small by lia. change (2 ^ (32 - 1)) with (2 ^ 31).
    destruct (le_value b <? 2 ^ 31); do 2 f_equal; lia.
Qed.

Lemma unpack_value_fixed64 t b :
  tmem t WIRE_FIXED_64_TYPES = true -> length b = 8%nat ->
  exists v, unpack_value t b = Ok v /\ of_fixed64 t b = Some (abs_scalar v).
Proof.
  intros Ht L. pose proof (le_value_8 b L) as Hr.
  destruct t; try (vm_compute in Ht; discriminate Ht); unfold unpack_value, pack_fmt, of_fixed64.
  - (* double *) rewrite L. cbn [Nat.eqb]. eexists; split; reflexivity.
  - (* fixed64 *) unfold unpack_int, fmt_int_range. rewrite L. cbn [Nat.eqb bind].
    eexists; split; [reflexivity|]. cbn [abs_scalar]. do 2 f_equal.
    match goal with |- _ = if ?c then _ else _ => destruct c eqn:E end; lia.
  - (* sfixed64 *) unfold unpack_int, fmt_int_range. rewrite L. cbn [Nat.eqb bind].
    eexists; split; [reflexivity|]. cbn [abs_scalar]. unfold signed. cbv zeta.
    rewrite Z.mod_small by lia. change (2 ^ (64 - 1)) with (2 ^ 63).
    destruct (le_value b <? 2 ^ 63); do 2 f_equal; lia.
Qed.

(* ------------------------------------------------------------------ the packed loop *)
Lemma read_varint_load s n rest :
  read_varint 10 s = Some (n, rest) -> exists raw, load_varint s = Ok (n, raw, rest) /\ s = raw ++ rest /\ raw <> [].
Proof.
  intros H. destruct (read_varint_sound _ _ _ _ H) as (raw & -> & Sh & Va & Le).
  exists raw. split; [|split; [reflexivity | now apply varint_shape_nonempty]].
  apply load_varint_rep. repeat split; assumption.
Qed.

Lemma unpack_packed_unfold n t buf :
  unpack_packed (S n) t buf =
  match buf with
  | [] => Ok []
  | _ =>
      if tmem t [TFloat; TFixed32; TSFixed32] then
        do x <- unpack_value t (firstn 4 buf);
        do r <- unpack_packed n t (skipn 4 buf); Ok (x :: r)
      else if tmem t [TDouble; TFixed64; TSFixed64] then
        do x <- unpack_value t (firstn 8 buf);
        do r <- unpack_packed n t (skipn 8 buf); Ok (x :: r)
      else
        do (v, _, rest) <- load_varint buf;
        do r <- unpack_packed n t rest; Ok (postprocess_varint t v :: r)
  end.
Proof. reflexivity. Qed.

Lemma unpack_packed_varints t : tmem t WIRE_VARINT_TYPES = true ->
  forall fuel b es n, unpack_varints fuel t b = Some es -> (length b < n)%nat ->
    (narrow32 t = true -> varints_below fuel (2 ^ 32) b = true) ->
    exists l, unpack_packed n t b = Ok l /\ map abs_scalar l = es.
Proof.
  intros Ht. assert (T1 : tmem t [TFloat; TFixed32; TSFixed32] = false) by (destruct t; try reflexivity; vm_compute in Ht; discriminate).
  assert (T2 : tmem t [TDouble; TFixed64; TSFixed64] = false) by (destruct t; try reflexivity; vm_compute in Ht; discriminate).
  induction fuel as [|fuel IH]; intros b es n H Ln Hnar.
  - destruct b; [|discriminate]. injection H as <-. destruct n; [cbn in Ln; lia|]. exists []. split; reflexivity.
  - destruct b as [|b0 b']. { injection H as <-. destruct n; [cbn in Ln; lia|]. exists []. split; reflexivity. }
    cbn [unpack_varints] in H. unfold obind in H.
    destruct (read_varint 10 (b0 :: b')) as [[v r]|] eqn:R; [|discriminate].
    destruct (v <? 2 ^ 64) eqn:Hv; [|discriminate].
    destruct (of_varint t v) as [x|] eqn:Ov; [|discriminate].
    destruct (unpack_varints fuel t r) as [xs|] eqn:U; [|discriminate]. injection H as <-.
    destruct (read_varint_load _ _ _ R) as (raw & Lv & Es & Nr).
    destruct (read_varint_sound _ _ _ _ R) as (raw' & _ & _ & Va & _).
    pose proof (varint_value_nonneg raw') as Hv0. rewrite Va in Hv0.
    assert (Lr : (length r < length (b0 :: b'))%nat).
    { rewrite Es, app_length. pose proof (length_pos_of_nonempty _ Nr). lia. }
    destruct n as [|n]; [lia|].
    assert (Hnar' : narrow32 t = true -> v < 2 ^ 32 /\ varints_below fuel (2 ^ 32) r = true).
    { intros E. specialize (Hnar E). cbn [varints_below] in Hnar.
      rewrite R in Hnar. apply andb_true_iff in Hnar as [A B]. split; [lia | exact B]. }
    destruct (IH r xs n U ltac:(lia) (fun E => proj2 (Hnar' E))) as (l & Hl & Ml).
    exists (postprocess_varint t v :: l). rewrite unpack_packed_unfold.
    rewrite T1, T2, Lv. cbn [bind]. rewrite Hl. cbn [bind].
    split; [reflexivity|]. cbn [map]. rewrite Ml. f_equal.
    pose proof (postprocess_varint_spec t v Ht ltac:(lia) (fun E => proj1 (Hnar' E))) as P. congruence.
Qed.

Lemma unpack_packed_fixed t (w : nat) (one : list byte -> option aval) (sel : bool) :
  (w = 4%nat /\ tmem t [TFloat; TFixed32; TSFixed32] = true /\
     (forall b, length b = 4%nat -> exists v, unpack_value t b = Ok v /\ one b = Some (abs_scalar v))) \/
  (w = 8%nat /\ tmem t [TFloat; TFixed32; TSFixed32] = false /\ tmem t [TDouble; TFixed64; TSFixed64] = true /\
     (forall b, length b = 8%nat -> exists v, unpack_value t b = Ok v /\ one b = Some (abs_scalar v))) ->
  forall fuel b es n, unpack_fixed fuel w one b = Some es -> (length b < n)%nat ->
    exists l, unpack_packed n t b = Ok l /\ map abs_scalar l = es.
Proof.
  intros Hw. induction fuel as [|fuel IH]; intros b es n H Ln.
  - destruct b; [|discriminate]. injection H as <-. destruct n; [cbn in Ln; lia|]. exists []. split; reflexivity.
  - destruct b as [|b0 b']. { injection H as <-. destruct n; [cbn in Ln; lia|]. exists []. split; reflexivity. }
    cbn [unpack_fixed] in H. unfold obind in H.
    destruct (take w (b0 :: b')) as [[x r]|] eqn:Tk; [|discriminate].
    destruct (one x) as [v|] eqn:Ov; [|discriminate].
    destruct (unpack_fixed fuel w one r) as [vs|] eqn:U; [|discriminate]. injection H as <-.
    pose proof Tk as Tk'. unfold take in Tk'. destruct (Nat.leb w (length (b0 :: b'))); [|discriminate]. injection Tk' as Ex Er.
    apply take_sound in Tk as [Es Lx].
    assert (Lr : (length r < length (b0 :: b'))%nat).
    { rewrite Es, app_length. destruct Hw as [(-> & _)|(-> & _)]; lia. }
    destruct n as [|n]; [lia|].
    destruct (IH r vs n U ltac:(lia)) as (l & Hl & Ml).
    rewrite unpack_packed_unfold.
    destruct Hw as [(-> & T1 & Hone)|(-> & T1 & T2 & Hone)].
    + rewrite T1. destruct (Hone x Lx) as (pvx & Hu & Ho). rewrite Ex, Er, Hu. cbn [bind]. rewrite Hl. cbn [bind].
      eexists; split; [reflexivity|]. cbn [map]. rewrite Ml. f_equal. congruence.
    + rewrite T1, T2. destruct (Hone x Lx) as (pvx & Hu & Ho). rewrite Ex, Er, Hu. cbn [bind]. rewrite Hl. cbn [bind].
      eexists; split; [reflexivity|]. cbn [map]. rewrite Ml. f_equal. congruence.
Qed.

(* a packed chunk on a packable repeated field *)
Lemma unpack_packed_spec t b es :
  packable t = true -> unpack t b = Some es ->
  (narrow32 t = true -> varints_below (length b) (2 ^ 32) b = true) ->
  exists l, unpack_packed (S (length b)) t b = Ok l /\ map abs_scalar l = es.
Proof.
  intros Hp H Hnar. unfold unpack in H. destruct (wire_of t) eqn:W.
  - apply (unpack_packed_varints t) with (fuel := length b); [destruct t; try discriminate; reflexivity | exact H | lia | exact Hnar].
  - apply (unpack_packed_fixed t 8 (of_fixed64 t) true) with (fuel := length b); [|exact H | lia].
    right. split; [reflexivity|]. split; [destruct t; try discriminate; reflexivity|].
    split; [destruct t; try discriminate; reflexivity|].
    intros x Lx. apply unpack_value_fixed64; [destruct t; try discriminate; reflexivity | exact Lx].
  - unfold packable in Hp. rewrite W in Hp. discriminate.
  - apply (unpack_packed_fixed t 4 (of_fixed32 t) true) with (fuel := length b); [|exact H | lia].
    left. split; [reflexivity|]. split; [destruct t; try discriminate; reflexivity|].
    intros x Lx. apply unpack_value_fixed32; [destruct t; try discriminate; reflexivity | exact Lx].
Qed.
