(* C08 evolution — one slot of the OLDER class: the chunk the NEWER writer emitted for it drives the older reader to
   a value D; the older writer emits for D a chunk of the same length that the newer reader cannot tell from the
   original one.  Slots without message objects are instances of the round-trip lemmas of C01 for the older schema
   (the encoder does not consult the schema for them); singular message slots are done here. *)
From Coq Require Import ZArith List Bool Lia ZifyBool.
From BP Require Import Base.Prelude Model.Types Model.Varint Model.Scalar Model.Float Model.Utf8.
From BP Require Import Model.Object Model.Eq Model.TimeCore Model.Encode Model.Decode Model.WellFormed Model.C01Def.
From BP Require Model.C08Step.
From BP Require Import gen.Tables Proofs.BytesP Proofs.LenP Proofs.C01Scalar Proofs.C01Frame Proofs.C01Step Proofs.C01Apply
     Proofs.C01Elem Proofs.C01Field Proofs.C01Builtin Proofs.C01Unfold Proofs.C01Value Proofs.C01Slot Proofs.C01Slot2
     Proofs.C01Dict Proofs.C01Msg Proofs.C01Main Proofs.C01Stable Proofs.C06EncP.
From BP Require Import Proofs.C08EvoDef Proofs.C08EvoBridge Proofs.C08EvoIndep Proofs.C08EvoElem.
Import ListNotations.

Lemma msgfree_subP (P : obj -> Prop) x : msgfree x = true -> subP P x.
Proof.
  destruct x as [| |z|b|bits|s|b|us|us|l|d|o]; try (intros _; exact I); cbn [msgfree subP].
  - intros H. rewrite forallb_forall in H. apply Forall_forall. intros y Hy. specialize (H y Hy). destruct y; try exact I. discriminate H.
  - intros H. rewrite forallb_forall in H. apply Forall_forall. intros [k y] Hy. specialize (H _ Hy). cbn [fst snd] in *.
    apply andb_true_iff in H as [_ H]. destruct y; try exact I. discriminate H.
  - discriminate.
Qed.

Lemma wf_opt_hinted' sc : c01_schema_ok sc = true -> opt_hinted sc.
Proof.
  intros H. apply wf_opt_hinted. unfold c01_schema_ok in H.
  apply andb_true_iff in H as [H _]. apply andb_true_iff in H as [H _]. exact H.
Qed.

Section Slot.
  Variables (sn : schema) (masks : list (list bool)).
  Let so := C08Step.drop_fields masks sn.
  Hypothesis Hsn : c01_schema_ok sn = true.
  Hypothesis Hso : c01_schema_ok so = true.
  Variable c : nat.
  Let cdn := get_class sn c.
  Let cdo := get_class so c.
  Let fso := cfields cdo.

  Variables (cur : list (option nat)) (i : nat) (f : fdesc).
  Hypothesis Hf : nth_error fso i = Some f.
  Hypothesis Hfn : exists j, field_by_number cdn (fnum f) = Some (j, f).
  Hypothesis Hwfn : wf_field sn (cngroups cdn) f = true.
  Let sel := group_selects cur f i.

  Variables (rawP : list pv) (unk : list byte) (curP : list (option nat)).
  Hypothesis Hfresh : nth i rawP PPlaceholder = fresh_of f.
  Hypothesis Hlen : (i < length rawP)%nat.
  Hypothesis Hsib : sel = Some true -> forall g, fgroup f = Some g -> sibs_clear fso rawP g i.

  Definition slot_goal2 (x : pv) : Prop :=
    forall B, enc_slot sn cur i f x = Ok B -> small B ->
    exists D B',
      (forall F, (length B <= F)%nat ->
         feeds F so cdo (Obj c rawP true unk curP) B (Obj c (set_nth i D rawP) true unk (cur_sel sel f i curP))) /\
      (sel = Some false -> D = PPlaceholder) /\
      enc_slot so cur i f D = Ok B' /\ length B' = length B /\
      (forall F2, (length B <= F2)%nat -> ceq sn F2 cdn B B').

  Lemma so_facts :
    builtins_exact so = true /\ nodup_z (map fnum fso) = true /\
    wf_field so (cngroups cdo) f = true /\ entry_hints_ok so f = true.
  Proof.
    destruct (schema_class_facts so c Hso) as (Hw & Hnd & He).
    split; [apply schema_builtins; exact Hso|]. split; [exact Hnd|].
    split; [exact (forallb_nth_error _ _ _ _ Hw Hf) | exact (forallb_nth_error _ _ _ _ He Hf)].
  Qed.

  Lemma sib_any : sel <> Some false -> forall g, fgroup f = Some g -> sibs_clear fso rawP g i.
  Proof.
    intros Hn g Hg. destruct sel as [[|]|] eqn:Hsel; [apply Hsib; auto | congruence |].
    pose proof (group_selects_shape cur f i) as Hsh. fold sel in Hsh. rewrite Hsel in Hsh. congruence.
  Qed.

  Lemma unselected_placeholder D : (sel = Some false -> D = fresh_of f) -> sel = Some false -> D = PPlaceholder.
  Proof.
    intros HD Hs. rewrite (HD Hs). destruct so_facts as (_ & _ & Hwf & _).
    pose proof (group_selects_shape cur f i) as Hsh. fold sel in Hsh. rewrite Hs in Hsh. destruct Hsh as (g & Hg & _).
    unfold fresh_of. rewrite (group_member_not_opt so _ f g Hwf Hg). reflexivity.
  Qed.

  (* ---- (a) no message object in the slot: C01 for the older schema ---- *)
  Lemma slot2_msgfree x :
    msgfree x = true -> slot_in_range sn f x = true ->
    (sel = Some false -> x = PPlaceholder) ->
    (forall d, x = PDict d -> keys_nodup so d = true) ->
    slot_goal2 x.
  Proof.
    intros Hm Hr Hclean Hkeys B EB Hs. destruct so_facts as (Hbi & Hnd & Hwf & Hent).
    assert (Hro : slot_in_range so f x = true) by (rewrite (slot_in_range_msgfree so sn f x Hm); exact Hr).
    pose proof (msgfree_subP (Good so) x Hm) as HG.
    pose proof (msgfree_subP (Stable so) x Hm) as HS.
    rewrite (enc_slot_msgfree sn so (cngroups cdn) cur i f x Hm (wf_opt_hinted' sn Hsn) (wf_opt_hinted' so Hso) Hwfn) in EB.
    assert (Hall : forall F, slot_goal so F c cur i f rawP unk curP x)
      by (intros F; exact (slot_all so F c Hbi cur i f Hf Hnd Hwf Hent rawP unk curP Hfresh Hlen Hsib x Hro Hclean Hkeys HG)).
    set (D := norm_slot so (norm_obj so) f sel x).
    assert (Hfeed : forall F, (length B <= F)%nat ->
              feeds F so cdo (Obj c rawP true unk curP) B (Obj c (set_nth i D rawP) true unk (cur_sel sel f i curP))).
    { intros F Hl. destruct (Hall F) as (B2 & EB2 & _ & Hfd). rewrite EB in EB2. injection EB2 as <-. exact (Hfd Hs Hl). }
    exists D, B. split; [exact Hfeed|]. split.
    { apply unselected_placeholder. intros Hsf. unfold D. rewrite Hsf. reflexivity. }
    split.
    { unfold D, sel. rewrite (slot_stable so Hso c cur i f Hwf x Hro Hclean HG HS). exact EB. }
    split; [reflexivity|].
    intros F2 _. destruct (feeds_records _ _ _ _ _ _ (Hfeed (length B) (le_n _))) as (ps & Rp & _).
    eapply ceq_refl. exact Rp.
  Qed.

  (* ---- (b) a singular message ---- *)
  Lemma slot2_msg o p :
    (fhint f = HPlain p \/ fhint f = HOptional p) ->
    slot_in_range sn f (PMsg o) = true -> sel <> Some false ->
    Evo sn masks o -> Good sn o ->
    slot_goal2 (PMsg o).
  Proof.
    intros Hh Hr Hsel HE HG B EB Hs. destruct so_facts as (Hbi & Hnd & Hwf & Hent).
    (* the shape of the field *)
    assert (Hshape : p = PyMsg (ocls o) /\ fty f = TMessage /\ fwraps f = None /\
                     (fhint f = HOptional p -> fopt f = true)).
    { destruct Hh as [Hh|Hh].
      - destruct (wf_plain _ _ _ _ Hwfn Hh) as (Hfo & Hfw & _ & _ & Hfit).
        unfold slot_in_range in Hr. rewrite Hh in Hr.
        destruct p; try (destruct (fty f); destruct o; discriminate Hr); try (destruct o; discriminate Hr).
        rewrite elem_in_range_msg in Hr. apply andb_true_iff in Hr as [Hc _]. apply Nat.eqb_eq in Hc. subst c0.
        split; [reflexivity|]. split; [destruct (fty f); try discriminate Hfit; reflexivity|]. split; [exact Hfw|].
        intros Hh'. congruence.
      - destruct (wf_optional _ _ _ _ Hwfn Hh) as (_ & _ & [(w & vt & Hfw & Hfo & Hty & Hwc & Hvt & Hfit) | (Hfw & Hfo & Hmap & Hfit)]).
        + exfalso. unfold slot_in_range in Hr. rewrite Hh, Hfw in Hr.
          destruct p; try (destruct w; destruct o; discriminate Hr); try (destruct o; discriminate Hr).
          destruct w; try discriminate Hvt; injection Hvt as <-; discriminate Hfit.
        + unfold slot_in_range in Hr. rewrite Hh, Hfw in Hr.
          destruct p; try (destruct (fty f); destruct o; discriminate Hr); try (destruct o; discriminate Hr).
          rewrite elem_in_range_msg in Hr. apply andb_true_iff in Hr as [Hc _]. apply Nat.eqb_eq in Hc. subst c0.
          split; [reflexivity|]. split; [destruct (fty f); try discriminate Hfit; reflexivity|]. split; [exact Hfw|].
          intros _. exact Hfo. }
    destruct Hshape as (-> & Hty & Hfw & Hopt).
    assert (Hhe : hint_elem (fhint f) = PyMsg (ocls o)) by (destruct Hh as [-> | ->]; reflexivity).
    pose proof (wf_field_num _ _ _ Hwfn) as Hnum.
    assert (Hmap : ptype_eqb (fty f) TMap = false) by (rewrite Hty; reflexivity).
    assert (Hnl : forall l, default_of so f <> PList l).
    { intros l. unfold default_of. destruct Hh as [-> | ->]; discriminate. }
    set (forced := forced_of cur i f (PMsg o)).
    destruct (msg_elem sn masks o (fnum f) forced Hnum HE HG) as (y & Ey & Hydef & B0 & EB0 & HBnil & HB).
    rewrite (enc_slot_sing sn cur i f (PMsg o) eq_refl Hsel) in EB. fold forced in EB. rewrite Hty, Hfw in EB.
    destruct (is_default sn f (PMsg o) && negb forced) eqn:Hd.
    - (* skipped: nothing arrives, the slot stays fresh *)
      injection EB as <-.
      apply andb_true_iff in Hd as [_ Hnf]. apply negb_true_iff in Hnf.
      assert (Hns : sel <> Some true).
      { intros Hs'. unfold forced in Hnf. rewrite (forced_selected cur i f (PMsg o) Hs') in Hnf. discriminate. }
      exists (fresh_of f), []. split.
      { intros F _. rewrite <- Hfresh, set_nth_same by exact Hlen.
        assert (Hc : cur_sel sel f i curP = curP) by (unfold cur_sel; destruct sel as [[|]|]; congruence).
        rewrite Hc. apply feeds_nil. }
      split; [apply unselected_placeholder; reflexivity|].
      split; [apply (enc_fresh_slot so c cur i f Hwf Hns)|]. split; [reflexivity|].
      intros F2 _. apply ceq_nil.
    - (* written *)
      rewrite EB0 in EB. injection EB as <-.
      assert (HBne : B0 <> []).
      { intros Hb. apply HBnil in Hb as (-> & Hfo).
        (* not forced and empty: then it compares equal to the default and would have been skipped *)
        rewrite Hfo, andb_true_r in Hd.
        destruct Hh as [Hh|Hh].
        - rewrite (is_default_msg sn f (ocls o) o Hh) in Hd. unfold obj_default in Hydef. rewrite (Hydef eq_refl) in Hd. discriminate.
        - unfold forced, forced_of in Hfo. rewrite (Hopt Hh), orb_true_r in Hfo. cbn in Hfo. discriminate. }
      destruct (HB HBne Hs) as (Hly & Rd & mo & y' & B' & Hsow & Ey' & Hly' & Po & Pn & Pn' & Ser & HlB & Rd').
      fold so in Ey', Po, Ser.
      exists (PMsg mo), B'. split.
      { intros F Hl.
        destruct (decode_msg F so f (ocls o) (fnum f) y B0 Hty Hhe Hfw) as (Hfit & Hdec).
        eapply feeds_one; [exact Rd|].
        unfold sel. rewrite (cur_sel_eq cur i f (PMsg o) Hsel curP).
        rewrite <- (marked_flag so mo Hsow) at 1.
        apply (step_singular F so c rawP unk curP i f); auto.
        - cbn [pnum]. apply field_by_number_unique; assumption.
        - rewrite Hdec, (Po F ltac:(lia)). cbn [bind]. rewrite (mark_sow_flag mo Hsow). reflexivity.
        - rewrite Hfresh. unfold fresh_of. destruct (fopt f); auto.
        - apply sib_any. exact Hsel. }
      split; [intros Hsf; fold sel in Hsel; congruence|].
      split.
      { rewrite (enc_slot_sing so cur i f (PMsg mo) eq_refl Hsel).
        assert (Hfo : forced_of cur i f (PMsg mo) = true) by (unfold forced_of; cbn [osow]; rewrite Hsow; apply orb_true_r).
        rewrite Hfo, andb_false_r, Hty, Hfw. apply Ser. left. reflexivity. }
      split; [exact HlB|].
      intros F2 Hl2. destruct Hfn as (j & Hj).
      destruct (decode_msg F2 sn f (ocls o) (fnum f) y B0 Hty Hhe Hfw) as (Hfit & Hdec).
      destruct (decode_msg F2 sn f (ocls o) (fnum f) y' B' Hty Hhe Hfw) as (_ & Hdec').
      eapply ceq_one; [exact Rd | exact Rd' |].
      apply (req_dv sn F2 cdn j f); auto.
      rewrite Hdec, Hdec', (Pn F2 ltac:(lia)), (Pn' F2 ltac:(lia)). reflexivity.
  Qed.

  (* ---- (c) a repeated message field: one record per element ---- *)
  Definition item_n (item : pv) : result (list byte) :=
    do r <- serialize_with (msg_bytes (enc_obj sn)) (fnum f) (fty f) item true (fwraps f);
    Ok (match r with [] => [x0a; x00] | _ => r end).
  Definition item_o (item : pv) : result (list byte) :=
    do r <- serialize_with (msg_bytes (enc_obj so)) (fnum f) (fty f) item true (fwraps f);
    Ok (match r with [] => [x0a; x00] | _ => r end).

  Definition MsgElem (y : pv) : Prop := exists o, y = PMsg o /\ Evo sn masks o /\ Good sn o.

  Lemma msg_items c' :
    fty f = TMessage -> fwraps f = None -> hint_elem (fhint f) = PyMsg c' -> fgroup f = None ->
    default_of so f = PList [] ->
    forall l acc rawQ B,
    ((nth i rawQ PPlaceholder = PPlaceholder /\ acc = []) \/ nth i rawQ PPlaceholder = PList acc) ->
    (i < length rawQ)%nat ->
    Forall MsgElem l -> Forall (fun y => forall o, y = PMsg o -> ocls o = c') l ->
    concat_map item_n l = Ok B -> small B ->
    exists mos B',
      length mos = length l /\
      (forall F, (length B <= F)%nat ->
         feeds F so cdo (Obj c rawQ true unk curP) B
               (Obj c (match l with [] => rawQ | _ => set_nth i (PList (acc ++ mos)) rawQ end) true unk curP)) /\
      concat_map item_o mos = Ok B' /\ length B' = length B /\
      (forall F2, (length B <= F2)%nat -> ceq sn F2 cdn B B').
  Proof.
    intros Hty Hfw Hhe Hg Hdef. destruct so_facts as (Hbi & Hnd & Hwf & Hent).
    pose proof (wf_field_num _ _ _ Hwfn) as Hnum.
    assert (Hmap : ptype_eqb (fty f) TMap = false) by (rewrite Hty; reflexivity).
    induction l as [|x l IH]; intros acc rawQ B Hslot HlenQ HM Hcls EB Hs.
    { injection EB as <-. exists [], []. split; [reflexivity|]. split; [intros F _; apply feeds_nil|].
      split; [reflexivity|]. split; [reflexivity|]. intros F2 _. apply ceq_nil. }
    inversion HM as [|? ? (o & -> & HE & HG) HM']; subst. inversion Hcls as [|? ? Hc0 Hcls']; subst.
    specialize (Hc0 o eq_refl).
    rewrite concat_map_cons in EB. unfold item_n at 1 in EB. rewrite Hty, Hfw in EB.
    destruct (msg_elem sn masks o (fnum f) true Hnum HE HG) as (y & Ey & _ & B0 & EB0 & HBnil & HB).
    rewrite EB0 in EB. cbn [bind] in EB.
    assert (HBne : B0 <> []) by (intros Hb; apply HBnil in Hb as (_ & Hb); discriminate Hb).
    assert (Hm0 : (match B0 with [] => [x0a; x00] | _ => B0 end) = B0) by (destruct B0; [congruence | reflexivity]).
    rewrite Hm0 in EB.
    destruct (concat_map item_n l) as [Br|] eqn:Er; cbn [bind] in EB; [|discriminate]. injection EB as <-.
    destruct (HB HBne (small_app_l _ _ Hs)) as (Hly & Rd & mo & y' & B0' & Hsow & Ey' & Hly' & Po & Pn & Pn' & Ser & HlB & Rd').
    fold so in Ey', Po, Ser. rewrite Hc0 in Po, Pn, Pn'.
    set (rawQ' := set_nth i (PList (acc ++ [PMsg mo])) rawQ).
    destruct (IH (acc ++ [PMsg mo]) rawQ' Br) as (mos & Br' & Hne & Hfeed & EBr' & HlBr & Hceq); auto.
    { right. unfold rawQ'. apply nth_set_nth_same. exact HlenQ. }
    { unfold rawQ'. rewrite set_nth_length. exact HlenQ. }
    { eapply small_app_r; eauto. }
    exists (PMsg mo :: mos), (B0' ++ Br'). split; [cbn [length]; rewrite Hne; reflexivity|]. split.
    { intros F Hl. rewrite app_length in Hl.
      destruct (decode_msg F so f c' (fnum f) y B0 Hty Hhe Hfw) as (Hfit & Hdec).
      eapply feeds_app.
      - eapply feeds_one; [exact Rd|].
        apply (step_list F so c rawQ unk curP i f _ (PMsg mo) acc); auto.
        + cbn [pnum]. apply field_by_number_unique; assumption.
        + rewrite Hdec, (Po F ltac:(lia)). cbn [bind]. rewrite (mark_sow_flag mo Hsow). reflexivity.
      - fold rawQ'. eapply feeds_eq; [apply Hfeed; lia|].
        destruct l as [|x2 l].
        + destruct mos; [reflexivity | discriminate Hne].
        + unfold rawQ'. rewrite set_nth_twice, <- app_assoc. reflexivity. }
    split.
    { rewrite concat_map_cons. unfold item_o at 1. rewrite Hty, Hfw, (Ser true (or_introl eq_refl)). cbn [bind].
      assert (Hm0' : (match B0' with [] => [x0a; x00] | _ => B0' end) = B0').
      { destruct B0'; [|reflexivity]. destruct B0; [congruence | discriminate HlB]. }
      rewrite Hm0', EBr'. reflexivity. }
    split; [rewrite !app_length; lia|].
    intros F2 Hl2. rewrite app_length in Hl2. apply ceq_app; [|apply Hceq; lia].
    destruct Hfn as (j & Hj).
    destruct (decode_msg F2 sn f c' (fnum f) y B0 Hty Hhe Hfw) as (Hfit & Hdec).
    destruct (decode_msg F2 sn f c' (fnum f) y' B0' Hty Hhe Hfw) as (_ & Hdec').
    eapply ceq_one; [exact Rd | exact Rd' |].
    apply (req_dv sn F2 cdn j f); auto.
    rewrite Hdec, Hdec', (Pn F2 ltac:(lia)), (Pn' F2 ltac:(lia)). reflexivity.
  Qed.

  Lemma slot2_msglist l p :
    fhint f = HList p -> l <> [] -> slot_in_range sn f (PList l) = true -> Forall MsgElem l ->
    slot_goal2 (PList l).
  Proof.
    intros Hh Hne Hr HM B EB Hs. destruct so_facts as (Hbi & Hnd & Hwf & Hent).
    destruct (wf_list _ _ _ _ Hwfn Hh) as (Hfo & Hfw & _ & Hg & Hmap & Hfit).
    assert (Hsel : sel = None) by (unfold sel, group_selects; rewrite Hg; reflexivity).
    assert (Hin : Forall (fun y => elem_in_range sn (fty f) p y = true) l).
    { unfold slot_in_range in Hr. rewrite Hh in Hr. apply all_fix_forall in Hr. exact Hr. }
    (* the element type *)
    assert (Hp : exists c', p = PyMsg c' /\ Forall (fun y => forall o, y = PMsg o -> ocls o = c') l).
    { destruct l as [|x0 l0]; [congruence|]. inversion HM as [|? ? (o & -> & _) _]; subst.
      inversion Hin as [|? ? H0 _]; subst.
      destruct p; try (destruct (fty f); destruct o; discriminate H0); try (destruct o; discriminate H0).
      exists c0. split; [reflexivity|]. eapply Forall_impl; [|exact Hin]. intros y Hy o' ->.
      rewrite elem_in_range_msg in Hy. apply andb_true_iff in Hy as [Hc _]. apply Nat.eqb_eq in Hc. symmetry. exact Hc. }
    destruct Hp as (c' & -> & Hcls).
    assert (Hty : fty f = TMessage) by (destruct (fty f); try discriminate Hfit; reflexivity).
    assert (Hdef : default_of so f = PList []) by (unfold default_of; rewrite Hh; reflexivity).
    assert (Hemit : forall sc l0, l0 <> [] -> enc_slot sc cur i f (PList l0) =
              concat_map (fun item => do r <- serialize_with (msg_bytes (enc_obj sc)) (fnum f) (fty f) item true (fwraps f);
                                      Ok (match r with [] => [x0a; x00] | _ => r end)) l0).
    { intros sc l0 Hl0. unfold enc_slot. fold sel. rewrite Hsel. unfold emit_field. cbn [is_default]. rewrite Hh.
      destruct l0 as [|z l0]; [congruence|]. cbn [andb]. rewrite Hty. reflexivity. }
    rewrite (Hemit sn l Hne) in EB.
    destruct (msg_items c' Hty Hfw ltac:(rewrite Hh; reflexivity) Hg Hdef l [] rawP B) as (mos & B' & Hmne & Hfeed & EB' & HlB & Hceq); auto.
    { left. split; [|reflexivity]. rewrite Hfresh. unfold fresh_of. rewrite Hfo. reflexivity. }
    exists (PList mos), B'. split.
    { intros F Hl. unfold cur_sel. rewrite Hsel. eapply feeds_eq; [apply Hfeed; exact Hl|].
      destruct l; [congruence | reflexivity]. }
    split; [rewrite Hsel; discriminate|].
    assert (Hmos : mos <> []) by (destruct mos; [destruct l; [congruence | discriminate Hmne] | discriminate]).
    split; [rewrite (Hemit so mos Hmos); exact EB'|].
    split; [exact HlB | exact Hceq].
  Qed.
End Slot.
