(* C19, part X4: the regex specification (Spec/C19Regex.v) on the patterns of casing.py - parsing the live pattern
   strings, and evaluation lemmas for the backtracking matcher on greedy repetitions of character sets. *)
From BP Require Import Base.Prelude Model.Casing Spec.C19Regex Proofs.BytesP Proofs.CasingP.
From BP Require gen.C19Tables.

(* ---------------------------------------------------------------- the parsed patterns *)
Definition cs_sym : cset := mk_cset true [(97, 122); (65, 90); (48, 57)]%N.   (* [^a-zA-Z0-9] *)
Definition cs_AZ : cset := mk_cset false [(65, 90)]%N.
Definition cs_az : cset := mk_cset false [(97, 122)]%N.
Definition cs_09 : cset := mk_cset false [(48, 57)]%N.
Definition re_symbols : re := RStar (RSet cs_sym).
Definition re_word_upper : re := RSeq (RPlus (RSet cs_AZ)) (RSeq (RNegLook (RSet cs_az)) (RStar (RSet cs_09))).
Definition re_word : re := RSeq (RStar (RSet cs_AZ)) (RSeq (RStar (RSet cs_az)) (RStar (RSet cs_09))).
Definition re_body (g2 g3 : nat) : re := RSeq (RGroup g2 re_symbols) (RGroup g3 (RAlt re_word_upper re_word)).
Definition snake_re : re := RSeq (ROpt (RGroup 1 RBol)) (re_body 2 3).
Definition pascal_re : re := re_body 1 2.

Lemma parse_snake : parse C19Tables.snake_pattern = Some snake_re.
Proof. vm_compute. reflexivity. Qed.
Lemma parse_pascal : parse C19Tables.pascal_pattern = Some pascal_re.
Proof. vm_compute. reflexivity. Qed.

Definition is_sym_b (b : byte) : bool := match classify b with Sym => true | _ => false end.

Lemma in_cs_sym b : in_cset byte_code cs_sym b = is_sym_b b.
Proof. destruct b; reflexivity. Qed.
Lemma in_cs_AZ b : in_cset byte_code cs_AZ b = is_upper_b b.
Proof. destruct b; reflexivity. Qed.
Lemma in_cs_az b : in_cset byte_code cs_az b = is_lower_b b.
Proof. destruct b; reflexivity. Qed.
Lemma in_cs_09 b : in_cset byte_code cs_09 b = is_digit_b b.
Proof. destruct b; reflexivity. Qed.

(* ---------------------------------------------------------------- longest prefix satisfying p, and the rest *)
Fixpoint tw (p : byte -> bool) (l : list byte) : list byte :=
  match l with b :: t => if p b then b :: tw p t else [] | [] => [] end.
Fixpoint dw (p : byte -> bool) (l : list byte) : list byte :=
  match l with b :: t => if p b then dw p t else l | [] => [] end.
Definition nohead (p : byte -> bool) (l : list byte) : Prop :=
  match l with c :: _ => p c = false | [] => True end.

Lemma tw_dw p l : tw p l ++ dw p l = l.
Proof. induction l as [|b t IH]; [reflexivity|]. cbn [tw dw]. destruct (p b); [cbn [app]; rewrite IH|]; reflexivity. Qed.
Lemma tw_all p l : forallb p (tw p l) = true.
Proof. induction l as [|b t IH]; [reflexivity|]. cbn [tw]. destruct (p b) eqn:E; [cbn [forallb]; rewrite E, IH|]; reflexivity. Qed.
Lemma dw_nohead p l : nohead p (dw p l).
Proof. induction l as [|b t IH]; [exact I|]. cbn [dw]. destruct (p b) eqn:E; [exact IH|exact E]. Qed.
Lemma tw_nohead p l : nohead p l -> tw p l = [] /\ dw p l = l.
Proof. destruct l as [|c r]; [split; reflexivity|]. cbn [nohead tw dw]. intros ->. split; reflexivity. Qed.
Lemma tw_app_all p a l : forallb p a = true -> tw p (a ++ l) = a ++ tw p l /\ dw p (a ++ l) = dw p l.
Proof.
  induction a as [|c r IH]; intros H; [split; reflexivity|]. cbn [forallb] in H. apply andb_true_iff in H.
  destruct H as [Hc Hr]. cbn [app tw dw]. rewrite Hc. destruct (IH Hr) as [-> ->]. split; reflexivity.
Qed.

(* ---------------------------------------------------------------- unfolding equations of the matcher *)
Lemma m_seq a b s k : m byte_code (RSeq a b) s k = m byte_code a s (fun s' => m byte_code b s' k).
Proof. reflexivity. Qed.
Lemma m_alt a b s k : m byte_code (RAlt a b) s k = match m byte_code a s k with Some x => Some x | None => m byte_code b s k end.
Proof. reflexivity. Qed.
Lemma m_opt a s k : m byte_code (ROpt a) s k = match m byte_code a s k with Some x => Some x | None => k s end.
Proof. reflexivity. Qed.
Lemma m_group n a s k : m byte_code (RGroup n a) s k =
  m byte_code a s (fun s' => k (mk_mst (m_pos s') (m_rem s')
                             ((n, firstn (length (m_rem s) - length (m_rem s')) (m_rem s)) :: m_caps s'))).
Proof. reflexivity. Qed.
Lemma m_bol s k : m byte_code RBol s k = if (m_pos s =? 0)%nat then k s else None.
Proof. reflexivity. Qed.

(* greedy repetition of a one-character test, without fuel *)
Fixpoint star_p (p : byte -> bool) (pos : nat) (rem : list byte) (caps : list (nat * list byte)) (k : K byte) : option (mst byte) :=
  match rem with
  | b :: t => if p b then match star_p p (S pos) t caps k with
                          | Some x => Some x
                          | None => k (mk_mst pos rem caps)
                          end
              else k (mk_mst pos rem caps)
  | [] => k (mk_mst pos [] caps)
  end.

Definition set_step (p : byte -> bool) (s : mst byte) (k : K byte) : option (mst byte) :=
  match m_rem s with
  | b :: t => if p b then k (mk_mst (S (m_pos s)) t (m_caps s)) else None
  | [] => None
  end.

Lemma star_eq_gen p ma (Hma : forall s k, ma s k = set_step p s k) :
  forall rem fuel pos caps k, (length rem < fuel)%nat ->
  star ma fuel (mk_mst pos rem caps) k = star_p p pos rem caps k.
Proof.
  induction rem as [|b t IH]; intros fuel pos caps k L; (destruct fuel as [|f]; [cbn [length] in L; lia|]);
    cbn [star]; rewrite Hma; unfold set_step; cbn [m_rem m_pos m_caps star_p]; [reflexivity|].
  destruct (p b); [|reflexivity].
  assert ((length t <? length (b :: t))%nat = true) as -> by (apply Nat.ltb_lt; cbn [length]; lia).
  rewrite IH by (cbn [length] in L; lia). reflexivity.
Qed.

Lemma m_set_step c p (Hp : forall b, in_cset byte_code c b = p b) s k : m byte_code (RSet c) s k = set_step p s k.
Proof. cbn [m]. unfold set_step. destruct (m_rem s) as [|b t]; [reflexivity|]. rewrite Hp. reflexivity. Qed.

Lemma m_star_p c p (Hp : forall b, in_cset byte_code c b = p b) pos rem caps k :
  m byte_code (RStar (RSet c)) (mk_mst pos rem caps) k = star_p p pos rem caps k.
Proof.
  change (m byte_code (RStar (RSet c)) (mk_mst pos rem caps) k)
    with (star (m byte_code (RSet c)) (S (length rem)) (mk_mst pos rem caps) k).
  apply (star_eq_gen p); [intros; apply m_set_step, Hp|lia].
Qed.

Lemma m_plus_p c p (Hp : forall b, in_cset byte_code c b = p b) pos rem caps k :
  m byte_code (RPlus (RSet c)) (mk_mst pos rem caps) k =
  match rem with
  | b :: t => if p b then star_p p (S pos) t caps k else None
  | [] => None
  end.
Proof.
  change (m byte_code (RPlus (RSet c)) (mk_mst pos rem caps) k)
    with (m byte_code (RSet c) (mk_mst pos rem caps) (fun s' => star (m byte_code (RSet c)) (S (length (m_rem s'))) s' k)).
  rewrite (m_set_step c p Hp). unfold set_step. cbn [m_rem m_pos m_caps]. destruct rem as [|b t]; [reflexivity|].
  destruct (p b); [|reflexivity]. apply (star_eq_gen p); [intros; apply m_set_step, Hp|lia].
Qed.

Lemma m_neglook_p c p (Hp : forall b, in_cset byte_code c b = p b) s k :
  m byte_code (RNegLook (RSet c)) s k = match m_rem s with b :: _ => if p b then None else k s | [] => k s end.
Proof.
  change (m byte_code (RNegLook (RSet c)) s k)
    with (match m byte_code (RSet c) s (fun s' => Some s') with Some _ => None | None => k s end).
  rewrite (m_set_step c p Hp). unfold set_step. destruct (m_rem s) as [|b t]; [reflexivity|]. destruct (p b); reflexivity.
Qed.

(* ---------------------------------------------------------------- how a greedy repetition ends *)
(* the continuation accepts the longest run: that is the result *)
Lemma star_p_greedy p rem : forall pos caps k x,
  k (mk_mst (pos + length (tw p rem)) (dw p rem) caps) = Some x -> star_p p pos rem caps k = Some x.
Proof.
  induction rem as [|b t IH]; intros pos caps k x H; cbn [star_p tw dw length] in *.
  - rewrite Nat.add_0_r in H. exact H.
  - destruct (p b).
    + cbn [length] in H. rewrite (IH (S pos) caps k x); [reflexivity|]. rewrite <- H. f_equal. f_equal. lia.
    + cbn [length] in H. rewrite Nat.add_0_r in H. exact H.
Qed.

(* nothing to repeat *)
Lemma star_p_nohead p rem pos caps k : nohead p rem -> star_p p pos rem caps k = k (mk_mst pos rem caps).
Proof. destruct rem as [|b t]; [reflexivity|]. cbn [nohead star_p]. intros ->. reflexivity. Qed.

(* the continuation rejects the longest run  pre ++ [u]  but accepts  pre : one character is given back *)
Lemma star_p_back p pre u post : forall pos caps k x,
  forallb p pre = true -> p u = true -> nohead p post ->
  k (mk_mst (pos + length pre + 1) post caps) = None ->
  k (mk_mst (pos + length pre) (u :: post) caps) = Some x ->
  star_p p pos (pre ++ u :: post) caps k = Some x.
Proof.
  induction pre as [|a r IH]; intros pos caps k x Hp Hu Hn K1 K2.
  - cbn [app star_p length] in *. rewrite Hu. rewrite star_p_nohead by exact Hn.
    replace (S pos) with (pos + 0 + 1)%nat by lia. rewrite K1. rewrite Nat.add_0_r in K2. exact K2.
  - cbn [forallb] in Hp. apply andb_true_iff in Hp. destruct Hp as [Ha Hr]. cbn [app star_p]. rewrite Ha.
    rewrite (IH (S pos) caps k x Hr Hu Hn); [reflexivity| |].
    + rewrite <- K1. f_equal. f_equal. cbn [length]. lia.
    + rewrite <- K2. f_equal. f_equal. cbn [length]. lia.
Qed.

(* the text a group captured *)
Lemma firstn_cap {A} (a b : list A) : firstn (length (a ++ b) - length b) (a ++ b) = a.
Proof.
  rewrite app_length. replace (length a + length b - length b)%nat with (length a + 0)%nat by lia.
  rewrite firstn_app_2. cbn [firstn]. apply app_nil_r.
Qed.
