(* C12 — the property-level theorems: conservation / exactly-once / FIFO, W bookkeeping,
   no stranded receiver at quiescence, behaviour after close, cancellation safety, and
   the refutations on the pinned code (F10) and under cancellation (K6). *)
From BP Require Import Base.Prelude Model.Channel.
From BP Require Import Proofs.ChannelP1 Proofs.ChannelP2 Proofs.ChannelP3 Proofs.ChannelP4 Proofs.ChannelP5.
From Coq Require Import Arith Lia FinFun.
Local Open Scope nat_scope.

(* ---------------------------------------------------------------- quiescence *)
Lemma quiescent_nth : forall s u U, quiescent s = true -> nth_error (tasks s) u = Some U -> runnable U = false.
Proof.
  intros s u U Q HU. unfold quiescent in Q. rewrite forallb_forall in Q.
  specialize (Q U (nth_error_In _ _ HU)). apply negb_true_iff in Q. exact Q.
Qed.

Lemma quiescent_zero : forall s f, quiescent s = true -> (forall T, runnable T = false -> f T = 0) ->
  sumf f (tasks s) = 0.
Proof. intros s f Q H. apply no_blk_count. intros u U HU. apply H. eapply quiescent_nth; eauto. Qed.

Theorem no_strand : forall c s, Reach c s -> cfg_nocancel c = true -> closed s = true -> quiescent s = true ->
  sumf (is_st BlkGet) (tasks s) = 0 /\
  (drained s = true -> sent_before_close s = firstn (npre s) (received s)).
Proof.
  intros c s R NC CL Q.
  destruct (reach_gen _ _ R) as [I1 IB ID IS IT IN IHh]. destruct (reach_nc _ _ R NC) as [JN [JH1 JH2] JC JE JF JG].
  assert (Zw : sumf (is_st WokeGet) (tasks s) = 0)
    by (apply quiescent_zero; auto; intros T HT; unfold runnable, is_st in *; destruct (st T); cbn; auto; discriminate).
  assert (Zp : sumf (is_st WokePut) (tasks s) = 0)
    by (apply quiescent_zero; auto; intros T HT; unfold runnable, is_st in *; destruct (st T); cbn; auto; discriminate).
  assert (Zf : sumf pending_flush (tasks s) = 0)
    by (apply quiescent_zero; auto; intros T HT; unfold runnable, pending_flush in *; destruct (st T); cbn; auto; discriminate).
  assert (FL : flushed s = true) by (destruct (JE CL) as [F|F]; [exact F|lia]).
  split.
  - destruct (Nat.eq_0_gt_0_cases (sumf (is_st BlkGet) (tasks s))) as [Z|P]; [exact Z|exfalso].
    specialize (IB P). rewrite Zw in IB.
    pose proof (i_W _ I1) as HW. rewrite in_get_split, (nocancel_no_cancget _ JN), Zw in HW.
    specialize (JC FL).
    assert (RP : sumf nflush (tasks s) > 0) by lia.
    destruct (sumf_pos _ _ RP) as (T & HIn & HT). apply In_nth_error in HIn as [u HU].
    pose proof (IS _ _ HU) as SHP. pose proof (IT _ _ HU) as STO. pose proof (quiescent_nth _ _ _ Q HU) as RN.
    unfold nflush in HT.
    assert (HB : st T = BlkPut).
    { destruct SHP as [E|[E|E]].
      - rewrite E in HT. cbn in HT. lia.
      - exfalso. clear - E HT. induction (prog T) as [|o p IH]; cbn in *; [lia|].
        apply andb_true_iff in E as [Eo Ep]. unfold user_op in Eo. apply andb_true_iff in Eo as [Eo _].
        apply negb_true_iff in Eo. rewrite Eo in HT. auto.
      - unfold stat_ok, runnable in *. destruct (prog T) as [|o p] eqn:EP; [cbn in HT; lia|].
        cbn in E. apply andb_true_iff in E as [Eo _]. destruct o; try discriminate.
        destruct (st T); try discriminate; try contradiction; auto. }
    assert (PB : sumf (is_st BlkPut) (tasks s) > 0).
    { pose proof (sumf_nth (is_st BlkPut) _ _ _ HU) as K. unfold is_st in K at 1. rewrite HB in K. cbn in K. lia. }
    destruct (ID PB) as [M1 M2]. rewrite Zp in M2. lia.
  - intros DR. specialize (JG DR). rewrite Zw in JG. unfold sent_before_close. rewrite JH1.
    rewrite firstn_app. replace (npre s - length (received s)) with 0; [cbn; rewrite app_nil_r; reflexivity|].
    unfold received. rewrite map_length. lia.
Qed.

Lemma In_firstn' : forall (A : Type) (x : A) n l, In x (firstn n l) -> In x l.
Proof. induction n; intros [|a l] H; cbn in *; try contradiction. destruct H as [H|H]; [left; exact H|right; apply IHn; exact H]. Qed.

Lemma firstn_seq' : forall k a n, firstn k (seq a n) = seq a (Nat.min k n).
Proof. induction k; intros a [|n]; cbn; auto. rewrite IHk. reflexivity. Qed.

Lemma NoDup_app_l : forall (A : Type) (a b : list A), NoDup (a ++ b) -> NoDup a.
Proof.
  induction a as [|x a IH]; intros b H; [constructor|]. cbn in H. inversion H as [|? ? NI ND]; subst.
  constructor; eauto. intros HI. apply NI. apply in_or_app; auto.
Qed.

Corollary no_strand_items : forall c s, Reach c s -> cfg_nocancel c = true -> closed s = true -> quiescent s = true ->
  drained s = true -> forall x, In x (sent_before_close s) -> In x (received s).
Proof.
  intros c s R NC CL Q D x Hx. destruct (no_strand c s R NC CL Q) as [_ H]. rewrite (H D) in Hx.
  eapply In_firstn'; eauto.
Qed.

Corollary no_blocked_receiver : forall c s, Reach c s -> cfg_nocancel c = true -> closed s = true -> quiescent s = true ->
  forall T, In T (tasks s) -> blocked_receiver T = false /\ (exists o, st T = Fin o) \/ st T = BlkPut.
Proof.
  intros c s R NC CL Q T HT. destruct (no_strand c s R NC CL Q) as [Z _].
  apply In_nth_error in HT as [u HU]. pose proof (sumf_zero _ _ Z _ _ HU) as Zu.
  pose proof (quiescent_nth _ _ _ Q HU) as RN. unfold runnable, is_st, blocked_receiver in *.
  destruct (st T); cbn in *; try discriminate; eauto.
Qed.

(* ---------------------------------------------------------------- conservation, exactly once, FIFO *)
Definition real_sent (s : state) : Prop := forallb is_real (sent s) = true.

Lemma real_sent_step : forall s t s', step s t = Some s' -> real_sent s -> real_sent s'.
Proof.
  intros s t s' H I. step_inv H; simp_proj; unfold real_sent in *; simp_proj; try exact I.
  all: rewrite forallb_app, I; reflexivity.
Qed.

Lemma reach_real_sent : forall c s, Reach c s -> real_sent s.
Proof. induction 1; [reflexivity|]. eapply real_sent_step; eauto. Qed.

Lemma NoDup_map_seq : forall v n, NoDup (map (Msg v) (seq 0 n)).
Proof.
  intros. apply Injective_map_NoDup; [|apply seq_NoDup]. intros a b E. injection E; auto.
Qed.

Lemma NoDup_by_sender : forall l, forallb is_real l = true ->
  (forall v, NoDup (filter (from v) l)) -> NoDup l.
Proof.
  induction l as [|a l IH]; intros R H; [constructor|].
  cbn in R. apply andb_true_iff in R as [Ra Rl]. constructor.
  - intros HIn. destruct a as [v k|]; [|discriminate]. specialize (H v). cbn in H. rewrite Nat.eqb_refl in H.
    inversion H as [|? ? NI _]; subst. apply NI. apply filter_In. split; auto. cbn. apply Nat.eqb_refl.
  - apply IH; auto. intros v. specialize (H v). cbn in H. destruct (from v a); auto. inversion H; auto.
Qed.

Theorem sent_nodup : forall c s, Reach c s -> NoDup (sent s).
Proof.
  intros c s R. apply NoDup_by_sender; [apply (reach_real_sent c); auto|].
  intros v. destruct (reach_gen _ _ R) as [_ _ _ _ _ IN _]. rewrite (IN v). apply NoDup_map_seq.
Qed.

(* the repaired channel: the send log is exactly what was received, in order, followed by what is queued *)
Theorem conserve : forall c s, Reach c s -> c_pinned c = false ->
  sent s = received s ++ reals (q s) /\ NoDup (sent s).
Proof.
  intros c s R P. split; [|eapply sent_nodup; eauto].
  destruct (reach_gen _ _ R) as [_ _ _ _ _ _ IHh]. apply IHh. rewrite (reach_pinned c); auto.
Qed.

Corollary received_once : forall c s, Reach c s -> c_pinned c = false ->
  NoDup (received s) /\ (forall x, In x (received s) -> In x (sent s)) /\
  (forall x, In x (sent s) -> In x (received s) \/ In x (q s)) /\
  (forall x, In x (received s) -> ~ In x (q s)).
Proof.
  intros c s R P. destruct (conserve c s R P) as [E ND]. rewrite E in ND. repeat split.
  - eapply NoDup_app_l; eauto.
  - intros x Hx. rewrite E. apply in_or_app; auto.
  - intros x Hx. rewrite E in Hx. apply in_app_or in Hx as [H|H]; auto. right. apply filter_In in H. tauto.
  - intros x Hx Hq. assert (Hr : In x (reals (q s))).
    { apply filter_In. split; auto. destruct x; auto. exfalso.
      assert (HS : In Flush (sent s)) by (rewrite E; apply in_or_app; auto).
      pose proof (reach_real_sent c s R) as RS. unfold real_sent in RS. rewrite forallb_forall in RS.
      specialize (RS _ HS). discriminate. }
    clear - ND Hx Hr. induction (received s) as [|a l IH]; [contradiction|].
    cbn in ND. inversion ND as [|? ? NI ND']; subst. destruct Hx as [->|Hx]; auto.
    apply NI. apply in_or_app; auto.
Qed.

Lemma prefix_map_seq_gen : forall (f : nat -> item) a b n st0, a ++ b = map f (seq st0 n) -> a = map f (seq st0 (length a)).
Proof.
  induction a as [|x a IH]; intros b n st0 E; [reflexivity|].
  destruct n as [|n]; [discriminate|]. cbn in E. injection E as -> E. cbn. f_equal. eapply IH; eauto.
Qed.
Lemma prefix_map_seq : forall (f : nat -> item) a b n, a ++ b = map f (seq 0 n) -> a = map f (seq 0 (length a)).
Proof. intros. eapply prefix_map_seq_gen; eauto. Qed.

(* per sender: what has been received from sender v is exactly its first k items, in the order sent *)
Theorem fifo : forall c s, Reach c s -> c_pinned c = false -> forall v,
  filter (from v) (received s) = map (Msg v) (seq 0 (length (filter (from v) (received s)))) /\
  length (filter (from v) (received s)) <= nsent_of s v.
Proof.
  intros c s R P v. destruct (conserve c s R P) as [E _].
  destruct (reach_gen _ _ R) as [_ _ _ _ _ IN _]. specialize (IN v). rewrite E, filter_app in IN.
  split; [eapply prefix_map_seq; eauto|].
  apply (f_equal (@length item)) in IN. rewrite app_length, map_length, seq_length in IN.
  unfold nsent_of. fold (nso (tasks s) v). lia.
Qed.

Theorem W_exact : forall c s, Reach c s -> W s = sumf in_get (tasks s).
Proof. intros c s R. apply (reach_inv1 c s R). Qed.
