(* C06, from_dict, part 1: from the mapping to the keyword arguments.
   What Message._from_dict_init returns ([kw], Model/Json.v from_dict_init), read through [kw_get]
   (the value the keyword list finally holds for a field), in terms of the mapping alone:
     init_lookup  :  kw_get i kw  is the converted value of  dict_lookup fs d i ;  map fst kw = given_order fs d.
   Reuses Proofs/C04ObjP.v (fd_items = the named loop of _from_dict_init, from_dict_init_unfold, find_field_nth)
   and Proofs/C04ElemP.v (recf = the recursive call for nested messages). *)
From BP Require Import Base.Prelude Model.Types Model.Object Model.Eq Model.Encode Model.WellFormed Model.Json.
From BP Require Import Model.C06Obs Model.C06Dict.
From BP Require Model.Casing Model.Enum Model.Time.
From BP Require Import gen.Tables.
From BP Require Import Proofs.C04ElemP Proofs.C04ObjP.
From Coq Require Import Lia.

Lemma kw_get_app i a b :
  kw_get i (a ++ b) = match kw_get i b with Some y => Some y | None => kw_get i a end.
Proof.
  induction a as [|[k x] a IH]; cbn [app kw_get].
  - destruct (kw_get i b); reflexivity.
  - rewrite IH. destruct (kw_get i b); reflexivity.
Qed.

Lemma kw_get_snoc i kw k x :
  kw_get i (kw ++ [(k, x)]) = if Nat.eqb k i then Some x else kw_get i kw.
Proof. rewrite kw_get_app. cbn [kw_get]. destruct (Nat.eqb k i); reflexivity. Qed.

Lemma kw_get_notin i kw : ~ In i (map fst kw) -> kw_get i kw = None.
Proof.
  induction kw as [|[k x] kw IH]; intros H; [reflexivity|]. cbn [kw_get].
  rewrite IH by (intros I; apply H; right; exact I).
  destruct (Nat.eqb_spec k i) as [->|]; [|reflexivity]. exfalso. apply H. left. reflexivity.
Qed.

Lemma kw_get_in i kw x : kw_get i kw = Some x -> In i (map fst kw).
Proof.
  revert x. induction kw as [|[k y] kw IH]; intros x H; [discriminate|]. cbn [kw_get] in H. cbn [map fst In].
  destruct (kw_get i kw) as [z|]; [right; apply (IH z); reflexivity|].
  destruct (Nat.eqb_spec k i) as [->|]; [left; reflexivity|discriminate].
Qed.

(* ---- init_kwargs[name] = value ---- *)
Lemma kw_set_spec k v kw :
  NoDup (map fst kw) ->
  NoDup (map fst (kw_set k v kw)) /\
  map fst (kw_set k v kw) = add_once k (map fst kw) /\
  forall i, kw_get i (kw_set k v kw) = if Nat.eqb k i then Some v else kw_get i kw.
Proof.
  induction kw as [|[k' v'] kw IH]; intros N.
  - cbn [kw_set map fst add_once kw_get]. split; [constructor; [intros []|constructor]|]. split; [reflexivity|].
    intros i. destruct (Nat.eqb k i); reflexivity.
  - cbn [map fst] in N. inversion N as [|? ? N1 N2]; subst.
    cbn [kw_set map fst add_once]. destruct (Nat.eqb_spec k k') as [->|Ne].
    + cbn [map fst]. split; [exact N|]. split; [reflexivity|]. intros i. cbn [kw_get].
      destruct (Nat.eqb_spec k' i) as [->|Ne'].
      * rewrite (kw_get_notin _ _ N1). reflexivity.
      * destruct (kw_get i kw); reflexivity.
    + destruct (IH N2) as (A & B & C). cbn [map fst]. split; [|split].
      * constructor; [|exact A]. rewrite B. intros I. apply N1.
        clear - I Ne. induction (map fst kw) as [|a l IHl]; cbn [add_once] in I.
        -- destruct I as [I|[]]. congruence.
        -- destruct (Nat.eqb k a); [exact I|]. destruct I as [I|I]; [left; exact I|right; apply IHl; exact I].
      * rewrite B. reflexivity.
      * intros i. cbn [kw_get]. rewrite C. destruct (Nat.eqb_spec k i) as [->|Ne'].
        -- reflexivity.
        -- reflexivity.
Qed.

Lemma kw_norm_fold_spec items : forall acc,
  NoDup (map fst acc) ->
  let res := fold_left (fun kw iv => kw_set (fst iv) (snd iv) kw) items acc in
  NoDup (map fst res) /\
  map fst res = fold_left (fun a i => add_once i a) (map fst items) (map fst acc) /\
  forall i, kw_get i res = match kw_get i items with Some y => Some y | None => kw_get i acc end.
Proof.
  induction items as [|[k v] items IH]; intros acc N; cbn zeta.
  - cbn [fold_left map kw_get]. repeat split; auto.
  - cbn [fold_left map fst snd]. destruct (kw_set_spec k v acc N) as (A & B & C).
    destruct (IH (kw_set k v acc) A) as (A' & B' & C'). cbn zeta in A', B', C'.
    split; [exact A'|]. split; [rewrite B', B; reflexivity|].
    intros i. rewrite C', C. cbn [kw_get]. destruct (kw_get i items); [reflexivity|].
    destruct (Nat.eqb k i); reflexivity.
Qed.

Lemma kw_norm_spec items :
  NoDup (map fst (kw_norm items)) /\
  map fst (kw_norm items) = fold_left (fun a i => add_once i a) (map fst items) [] /\
  forall i, kw_get i (kw_norm items) = kw_get i items.
Proof.
  destruct (kw_norm_fold_spec items [] (NoDup_nil _)) as (A & B & C). cbn zeta in A, B, C.
  unfold kw_norm. split; [exact A|]. split; [exact B|]. intros i. rewrite (C i). destruct (kw_get i items); reflexivity.
Qed.

(* ---- one item of the mapping ---- *)
Lemma find_field_index fs nm i f : find_field O fs nm = Some (i, f) -> nth_error fs i = Some f.
Proof. intros H. destruct (find_field_nth _ _ _ _ _ H) as [_ E]. rewrite Nat.sub_0_r in E. exact E. Qed.

Lemma key_index_field fs k i : key_index fs k = Some i -> exists f, nth_error fs i = Some f.
Proof.
  unfold key_index. destruct k; try discriminate.
  destruct (Casing.field_for_key (map fname fs) s); [|discriminate].
  destruct (find_field O fs l) as [[j f]|] eqn:F; [|discriminate]. intros E. injection E as <-.
  exists f. eapply find_field_index. exact F.
Qed.

Lemma item_spec rec sc fs k v here :
  item_from_json rec sc fs k v = Ok here ->
  (item_field fs (k, v) = None /\ here = []) \/
  (exists i f x, item_field fs (k, v) = Some i /\ nth_error fs i = Some f /\ is_jnull v = false /\
                 value_from_json rec sc f v = Ok x /\ here = [(i, x)]).
Proof.
  unfold item_from_json, item_field, key_index. cbn [fst snd]. destruct k; try discriminate.
  destruct (Casing.field_for_key (map fname fs) s) as [nm|].
  2:{ intros H. injection H as <-. left. split; [destruct (is_jnull v); reflexivity|reflexivity]. }
  destruct (find_field O fs nm) as [[i f]|] eqn:F.
  2:{ intros H. injection H as <-. left. split; [destruct (is_jnull v); reflexivity|reflexivity]. }
  pose proof (find_field_index _ _ _ _ F) as Hf.
  assert (G : forall (Hv : is_jnull v = false),
             (do x <- value_from_json rec sc f v; Ok [(i, x)]) = Ok here ->
             exists i0 f0 x, (if is_jnull v then None else Some i) = Some i0 /\ nth_error fs i0 = Some f0 /\ is_jnull v = false /\
                            value_from_json rec sc f0 v = Ok x /\ here = [(i0, x)]).
  { intros Hv H. destruct (value_from_json rec sc f v) as [x|] eqn:V; cbn [bind] in H; [|discriminate].
    injection H as <-. exists i, f, x. rewrite Hv. auto. }
  destruct v; try (intros H; right; apply (G eq_refl H)).
  intros H. injection H as <-. left. split; reflexivity.
Qed.

(* ---- the loop of _from_dict_init ---- *)
Definition lookup_rel (sc : schema) (fs : list fdesc) (kvs : list (json * json)) (kw : list (nat * pv)) : Prop :=
  forall i f, nth_error fs i = Some f ->
    match dict_lookup fs kvs i with
    | None => kw_get i kw = None
    | Some v => exists x, value_from_json (recf sc) sc f v = Ok x /\ kw_get i kw = Some x /\ is_jnull v = false
    end.

Lemma fd_items_spec sc c : forall kvs items,
  fd_items sc c kvs = Ok items ->
  map fst items = given_list (cfields (get_class sc c)) kvs /\
  lookup_rel sc (cfields (get_class sc c)) kvs items.
Proof.
  set (fs := cfields (get_class sc c)).
  induction kvs as [|[k v] kvs IH]; intros items H.
  - cbn [fd_items] in H. injection H as <-. split; [reflexivity|]. intros i f Hf. reflexivity.
  - cbn [fd_items] in H. fold fs in H.
    destruct (item_from_json (recf sc) sc fs k v) as [here|] eqn:It; cbn [bind] in H; [|discriminate].
    destruct (fd_items sc c kvs) as [rest|] eqn:R; cbn [bind] in H; [|discriminate].
    injection H as <-. destruct (IH rest eq_refl) as [A B].
    destruct (item_spec _ _ _ _ _ _ It) as [(N & ->)|(j & fj & x & N & Hj & Hn & V & ->)].
    + split.
      * cbn [given_list flat_map app]. rewrite N. exact A.
      * intros i f Hf. cbn [dict_lookup app]. rewrite N. specialize (B i f Hf).
        destruct (dict_lookup fs kvs i); exact B.
    + split.
      * cbn [given_list flat_map app map fst]. rewrite N. cbn [app]. f_equal. exact A.
      * intros i f Hf. cbn [dict_lookup]. rewrite N. specialize (B i f Hf).
        change ([(j, x)] ++ rest) with ((j, x) :: rest). cbn [kw_get].
        destruct (dict_lookup fs kvs i) as [v'|].
        -- destruct B as (x' & V' & G & Hn'). rewrite G. exists x'. auto.
        -- rewrite B. destruct (Nat.eqb_spec j i) as [->|Ne]; [|reflexivity].
           cbn [snd]. rewrite Hf in Hj. injection Hj as <-. exists x. auto.
Qed.

Lemma given_list_valid fs : forall kvs k, In k (given_list fs kvs) -> exists f, nth_error fs k = Some f.
Proof.
  induction kvs as [|kv kvs IH]; intros k I; [destruct I|].
  cbn [given_list flat_map] in I. apply in_app_or in I as [I|I]; [|apply IH; exact I].
  destruct (item_field fs kv) as [j|] eqn:E; [|destruct I]. destruct I as [<-|[]].
  unfold item_field in E. destruct (is_jnull (snd kv)); [discriminate|]. eapply key_index_field. exact E.
Qed.

Lemma add_once_in i l k : In k (add_once i l) <-> k = i \/ In k l.
Proof.
  induction l as [|a l IH]; cbn [add_once].
  - split; [intros [H|[]]; left; congruence|intros [H|[]]; left; congruence].
  - destruct (Nat.eqb_spec i a) as [->|Ne].
    + split; [intros H; right; exact H|intros [->|H]; [left; reflexivity|exact H]].
    + cbn [In]. rewrite IH. tauto.
Qed.

Lemma fold_add_once_in l : forall acc k, In k (fold_left (fun a i => add_once i a) l acc) <-> In k l \/ In k acc.
Proof.
  induction l as [|i l IH]; intros acc k; cbn [fold_left].
  - cbn [In]. tauto.
  - rewrite IH, add_once_in. cbn [In]. split; intros H; repeat destruct H as [H|H]; auto.
Qed.

Lemma given_order_in fs kvs k : In k (given_order fs kvs) <-> In k (given_list fs kvs).
Proof. unfold given_order. rewrite fold_add_once_in. cbn [In]. tauto. Qed.

(* ---- Message._from_dict_init, in terms of the mapping ---- *)
Theorem init_lookup sc c kvs kw :
  from_dict_init sc c (JObj kvs) = Ok kw ->
  NoDup (map fst kw) /\
  map fst kw = given_order (cfields (get_class sc c)) kvs /\
  lookup_rel sc (cfields (get_class sc c)) kvs kw.
Proof.
  rewrite from_dict_init_unfold. intros H.
  destruct (fd_items sc c kvs) as [items|] eqn:E; cbn [bind] in H; [|discriminate]. injection H as <-.
  destruct (fd_items_spec sc c kvs items E) as [A B].
  destruct (kw_norm_spec items) as (N & O & G).
  split; [exact N|]. split; [rewrite O, A; reflexivity|].
  intros i f Hf. specialize (B i f Hf). rewrite G. exact B.
Qed.

Lemma from_dict_init_is_obj sc c j kw : from_dict_init sc c j = Ok kw -> exists kvs, j = JObj kvs.
Proof. destruct j; try discriminate. eauto. Qed.

(* the mapping does not give field i  <->  i is not among the assigned fields *)
Lemma dict_lookup_none fs kvs i : dict_lookup fs kvs i = None <-> ~ In i (given_list fs kvs).
Proof.
  induction kvs as [|kv kvs IH]; cbn [dict_lookup given_list flat_map]; [tauto|].
  fold (given_list fs kvs). rewrite in_app_iff.
  destruct (dict_lookup fs kvs i) as [v|].
  - split; [discriminate|]. intros H. exfalso. apply H. right.
    destruct (in_dec Nat.eq_dec i (given_list fs kvs)) as [I|N]; [exact I|]. apply IH in N. discriminate.
  - destruct (item_field fs kv) as [j|].
    + destruct (Nat.eqb_spec j i) as [->|Ne].
      * split; [discriminate|]. intros H. exfalso. apply H. left. left. reflexivity.
      * split; [|reflexivity]. intros _ [[E|[]]|I]; [congruence|]. apply (proj1 IH eq_refl). exact I.
    + split; [|reflexivity]. intros _ [[]|I]. apply (proj1 IH eq_refl). exact I.
Qed.

(* ---- the converted value ---- *)
Definition is_value_b (x : pv) : bool := match x with PNone | PPlaceholder => false | _ => true end.
Definition not_list_b (x : pv) : bool := match x with PList _ => false | _ => true end.

Lemma is_value_b_spec x : is_value_b x = true -> is_value x.
Proof. destruct x; try discriminate; intros _; split; discriminate. Qed.
Lemma not_list_b_spec x : not_list_b x = true -> singular_value x.
Proof. destruct x; try discriminate; intros _ l; discriminate. Qed.

Lemma py_of_json_singular v : singular_json v = true -> is_value_b (py_of_json v) && not_list_b (py_of_json v) = true.
Proof. destruct v; try discriminate; try reflexivity. destruct v; try discriminate; reflexivity. Qed.

Lemma scalar_from_json_singular sc t p v x :
  singular_json v = true -> scalar_from_json sc t p v = Ok x -> is_value_b x && not_list_b x = true.
Proof.
  intros S. pose proof (py_of_json_singular v S) as P. unfold scalar_from_json.
  destruct (tmem t INT_64_TYPES).
  { unfold int_of_json. destruct v; try discriminate.
    - intros H. injection H as <-. reflexivity.
    - intros H. injection H as <-. reflexivity.
    - destruct (parse_int s); [|discriminate]. intros H. injection H as <-. reflexivity. }
  destruct (ptype_eqb t TBytes).
  { destruct v; try discriminate. destruct (b64decode s); cbn [bind]; [|discriminate]. intros H. injection H as <-. reflexivity. }
  destruct (ptype_eqb t TEnum).
  { destruct p; try (intros H; injection H as <-; exact P).
    unfold enum_from_json. destruct v; try (intros H; injection H as <-; exact P).
    destruct (Enum.from_string (enum_cls sc e) s); cbn [bind]; [|discriminate]. intros H. injection H as <-. reflexivity. }
  destruct (tmem t [TFloat; TDouble]).
  { unfold parse_float. destruct v; try discriminate.
    - intros H. injection H as <-. reflexivity.
    - destruct (f64_of_Z z); [|discriminate]. intros H. injection H as <-. reflexivity.
    - intros H. injection H as <-. reflexivity.
    - destruct (bytes_eqb s JSON_INFINITY); [intros H; injection H as <-; reflexivity|].
      destruct (bytes_eqb s JSON_NEG_INFINITY); [intros H; injection H as <-; reflexivity|].
      destruct (bytes_eqb s JSON_NAN); [intros H; injection H as <-; reflexivity|discriminate]. }
  intros H. injection H as <-. exact P.
Qed.

Lemma list_or_single_singular conv v : singular_json v = true -> list_or_single conv v = conv v.
Proof. destruct v; try discriminate; reflexivity. Qed.

Lemma elem_from_json_singular rec sc t p v x :
  singular_json v = true -> elem_from_json rec sc t p v = Ok x -> is_value_b x && not_list_b x = true.
Proof.
  intros S. unfold elem_from_json.
  assert (G : (if ptype_eqb t TMessage
               then match p with PyMsg c => do o <- rec c v; Ok (PMsg o) | _ => Err EAttribute end
               else scalar_from_json sc t p v) = Ok x -> is_value_b x && not_list_b x = true).
  { destruct (ptype_eqb t TMessage); [|apply scalar_from_json_singular; exact S].
    destruct p; try discriminate. destruct (rec c v); cbn [bind]; [|discriminate]. intros H. injection H as <-. reflexivity. }
  destruct p; try exact G.
  - destruct v; try discriminate. destruct (iso_parse s); cbn [bind]; [|discriminate]. intros H. injection H as <-. reflexivity.
  - destruct v; try discriminate. destruct (Model.Time.parse_duration s); cbn [bind]; [|discriminate].
    intros H. injection H as <-. reflexivity.
Qed.

(* whatever the field: from a singular JSON value from_dict stores one proper value (not None, not PLACEHOLDER, not a list) *)
Theorem value_from_json_singular rec sc f v x :
  singular_json v = true -> value_from_json rec sc f v = Ok x -> is_value x /\ singular_value x.
Proof.
  intros S H.
  assert (G : is_value_b x && not_list_b x = true).
  { unfold value_from_json in H. destruct (ptype_eqb (fty f) TMessage).
    - destruct (fwraps f) as [w|].
      + destruct (hint_elem f); try discriminate; rewrite list_or_single_singular in H by exact S;
          eapply scalar_from_json_singular; eassumption.
      + rewrite list_or_single_singular in H by exact S. eapply elem_from_json_singular; eassumption.
    - destruct (fmap f) as [[kt vt]|].
      + destruct v; try discriminate.
        match type of H with (do kvs <- ?M; _) = _ => destruct M; cbn [bind] in H; [|discriminate] end.
        injection H as <-. reflexivity.
      + rewrite list_or_single_singular in H by exact S. eapply scalar_from_json_singular; eassumption. }
  apply andb_prop in G as [A B]. split; [apply is_value_b_spec; exact A|apply not_list_b_spec; exact B].
Qed.

(* a plain sub-message field given anything but a list: the stored child was built by the class form of
   from_dict, so its flag is up *)
Lemma value_from_json_msg sc f c' v x :
  fty f = TMessage -> fwraps f = None -> fhint f = HPlain (PyMsg c') ->
  singular_json v = true -> value_from_json (recf sc) sc f v = Ok x ->
  exists ch, x = PMsg ch /\ osow ch = true /\ from_dict_cls sc c' v = Ok ch.
Proof.
  intros Ht Hw Hh S H. unfold value_from_json in H. rewrite Ht, Hw in H. cbn [ptype_eqb] in H.
  replace (ptype_eqb TMessage TMessage) with true in H by reflexivity.
  rewrite list_or_single_singular in H by exact S.
  unfold hint_elem in H. rewrite Hh in H. unfold elem_from_json in H.
  replace (ptype_eqb TMessage TMessage) with true in H by reflexivity.
  destruct (recf sc c' v) as [ch|] eqn:R; cbn [bind] in H; [|discriminate]. injection H as <-.
  exists ch. split; [reflexivity|]. unfold recf in R. unfold from_dict_cls.
  destruct (from_dict_init sc c' v) as [kw|]; cbn [bind] in R |- *; [|discriminate].
  injection R as <-. split; [|reflexivity]. unfold finish_cls, set_sow. destruct (construct sc c' kw). reflexivity.
Qed.
