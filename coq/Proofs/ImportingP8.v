(* Proofs/ImportingP8.v — C13, part 8: what the model of casing.safe_snake_case (Model/Casing.v,
   = pythonize_field_name) can and cannot produce.  Pure Casing facts (nothing of Importing here):
     - its result never contains two consecutive underscores, for ANY input string;
     - its result starts with a lower-case letter or with "_" (never upper-case, never a digit);
     - "_".join of lower-cased words that starts with a letter and is not a keyword is a fixed point. *)
From BP Require Import Base.Prelude Model.Casing Proofs.BytesP Proofs.CasingP Proofs.CasingP2.
From BP Require gen.Tables.

(* two consecutive "_" somewhere in s; [prev]: the character before s was "_" *)
Fixpoint dus (prev : bool) (s : list byte) : bool :=
  match s with
  | [] => false
  | c :: r => (prev && is_us c) || dus (is_us c) r
  end.
Definition double_us (s : list byte) : bool := dus false s.
Definition last_us (prev : bool) (s : list byte) : bool := fold_left (fun _ c => is_us c) s prev.

Lemma dus_app p a b : dus p (a ++ b) = dus p a || dus (last_us p a) b.
Proof.
  revert p. induction a as [|c a IH]; intros p; cbn [app dus last_us fold_left]; [reflexivity|].
  rewrite IH. unfold last_us. rewrite orb_assoc. reflexivity.
Qed.

Lemma last_us_app p a b : last_us p (a ++ b) = last_us (last_us p a) b.
Proof. unfold last_us. apply fold_left_app. Qed.

Definition no_us (w : list byte) : Prop := forallb (fun c => negb (is_us c)) w = true.

Lemma no_us_dus w : no_us w -> forall p, dus p w = false.
Proof.
  induction w as [|c r IH]; intros H p; cbn [dus]; [reflexivity|].
  unfold no_us in H. cbn [forallb] in H. apply andb_true_iff in H. destruct H as [Hc Hr].
  apply negb_true_iff in Hc. rewrite Hc, andb_false_r. cbn [orb]. apply IH. exact Hr.
Qed.

Lemma no_us_last w : no_us w -> w <> [] -> forall p, last_us p w = false.
Proof.
  induction w as [|c r IH]; intros H N p; [congruence|].
  unfold no_us in H. cbn [forallb] in H. apply andb_true_iff in H. destruct H as [Hc Hr].
  apply negb_true_iff in Hc. change (last_us p (c :: r)) with (last_us (is_us c) r).
  destruct r as [|d r']; [exact Hc|]. apply IH; [exact Hr | discriminate].
Qed.

Lemma join_dus ws : Forall lword ws ->
  forall p, dus p (join [us] ws) = false /\ (ws <> [] -> last_us p (join [us] ws) = false).
Proof.
  induction ws as [|w r IH]; intros F p; [split; [reflexivity | congruence]|].
  inversion F as [|? ? Hw Hr]; subst.
  pose proof (lword_no_us w Hw) as Nw. pose proof (lword_ne w Hw) as Ew.
  destruct r as [|w' r'].
  - cbn [join]. split; [apply no_us_dus, Nw | intros _; apply no_us_last; assumption].
  - change (join [us] (w :: w' :: r')) with (w ++ us :: join [us] (w' :: r')).
    destruct (IH Hr true) as [D L]. split.
    + rewrite dus_app, (no_us_dus w Nw), (no_us_last w Nw Ew). cbn [orb dus andb]. exact D.
    + intros _. rewrite last_us_app. change (last_us (last_us p w) (us :: join [us] (w' :: r'))) with (last_us true (join [us] (w' :: r'))).
      apply L. discriminate.
Qed.

Lemma nil_not_keyword : is_keyword [] = false.
Proof. vm_compute. reflexivity. Qed.

(* ANY string: the pythonised field name has no "__" in it *)
Theorem safe_snake_no_double_us s : double_us (safe_snake_case s) = false.
Proof.
  unfold safe_snake_case, sanitize_name, snake_case, double_us.
  pose proof (words_lwords s) as F. set (ws := map lower (words s)) in *.
  destruct (is_keyword (join [us] ws)) eqn:K.
  - assert (N : ws <> []) by (intros E; rewrite E in K; cbn [join] in K; rewrite nil_not_keyword in K; discriminate).
    destruct (join_dus ws F false) as [D L]. rewrite dus_app, D, (L N). reflexivity.
  - destruct (negb (is_identifier (join [us] ws))).
    + cbn [dus andb orb]. apply (join_dus ws F true).
    + apply (join_dus ws F false).
Qed.

Lemma sanitize_snake_chars x : forallb snake_char x = true -> forallb snake_char (sanitize_name x) = true.
Proof.
  intros H. unfold sanitize_name. destruct (is_keyword x).
  - rewrite forallb_app, H. reflexivity.
  - destruct (negb (is_identifier x)); [cbn [forallb]; rewrite H; reflexivity | exact H].
Qed.

Lemma safe_snake_chars s : forallb snake_char (safe_snake_case s) = true.
Proof. apply sanitize_snake_chars, snake_chars. Qed.

(* ... and starts with a lower-case letter or "_" *)
Theorem safe_snake_head s :
  exists c r, safe_snake_case s = c :: r /\ (is_lower_b c = true \/ is_us c = true).
Proof.
  destruct (safe_snake_ok s) as [I _]. pose proof (safe_snake_chars s) as Ch.
  destruct (safe_snake_case s) as [|c r]; [discriminate|]. exists c, r. split; [reflexivity|].
  cbn [is_identifier] in I. apply andb_true_iff in I. destruct I as [I _].
  cbn [forallb] in Ch. apply andb_true_iff in Ch. destruct Ch as [Ch _].
  revert I Ch. unfold ident_start, snake_char, is_lower_b, is_digit_b. destruct (classify c); cbn; intros; auto; discriminate.
Qed.

(* "_".join of lower-cased words is reproduced, unless it is a keyword or starts with a digit *)
Theorem safe_snake_join_fix ws :
  Forall lword ws ->
  (exists c r, join [us] ws = c :: r /\ is_lower_b c = true) ->
  is_keyword (join [us] ws) = false ->
  safe_snake_case (join [us] ws) = join [us] ws.
Proof.
  intros F [c [r [E L]]] K.
  assert (S : snake_case (join [us] ws) = join [us] ws).
  { unfold snake_case, words. rewrite (scan_join ws F), (Forall_lword_lower_fix ws F). reflexivity. }
  unfold safe_snake_case. rewrite S. unfold sanitize_name. rewrite K.
  assert (I : is_identifier (join [us] ws) = true).
  { pose proof (join_chars ws F) as Ch. rewrite E in *. cbn [is_identifier]. cbn [forallb] in Ch.
    apply andb_true_iff in Ch. destruct Ch as [_ Ch]. apply andb_true_iff. split.
    - revert L. unfold ident_start, is_lower_b. destruct (classify c); intros; first [reflexivity | discriminate].
    - rewrite forallb_forall in *. intros x Hx. apply snake_char_ident, Ch, Hx. }
  rewrite I. reflexivity.
Qed.

(* no keyword of the live interpreter contains an underscore *)
Lemma kw_no_us : forallb (fun k => forallb (fun c => negb (is_us c)) k) Tables.kwlist = true.
Proof. vm_compute. reflexivity. Qed.

Lemma has_us_not_keyword x : existsb is_us x = true -> is_keyword x = false.
Proof.
  intros H. destruct (is_keyword x) eqn:K; [|reflexivity]. exfalso.
  apply is_keyword_in in K. pose proof kw_no_us as T. rewrite forallb_forall in T. specialize (T x K).
  apply existsb_exists in H. destruct H as [c [Hc U]]. rewrite forallb_forall in T. specialize (T c Hc). rewrite U in T. discriminate.
Qed.
