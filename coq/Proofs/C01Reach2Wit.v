(* C01 over reachable objects, parse discharged: witnesses (vm_compute) that each clause of [clean_bytes]
   (Model/C01Parse.v) is needed - bytes that fail exactly that clause and take a fresh object out of [c01_value_ok]. *)
From Coq Require Import ZArith List Bool.
From BP Require Import Base.Prelude Model.Types Model.Object Model.Eq Model.Encode Model.Decode Model.WellFormed.
From BP Require Import Model.History Model.C07Ops Model.C01Def Model.C01Reach Model.C01Parse.
From BP Require Import Proofs.C01ReachWit.
Import ListNotations.
Open Scope Z_scope.

(* B { int32 x = 1; } receives field number 7: kept as unknown bytes *)
Lemma parse_unknown_field_refuted :
  exists sc c bs m,
    c01_schema_ok sc = true /\ clean_bytes sc c bs = false /\
    run7 sc (new sc c) [OBase (OParse bs)] = Ok m /\ ounk m = bs /\ no_unknown m = false /\ c01_value_ok sc m = false.
Proof.
  exists w_sc, 13%nat, w_unk, (final w_sc 13 [OBase (OParse w_unk)]).
  vm_compute. repeat split; reflexivity.
Qed.

(* B { int32 x = 1; } receives field 1 with wire type 5 (fixed32): _wire_type_fits fails, kept as unknown bytes *)
Definition w_misfit : list byte := [x0d; x01; x00; x00; x00].
Lemma parse_misfit_refuted :
  exists sc c bs m,
    c01_schema_ok sc = true /\ clean_bytes sc c bs = false /\
    run7 sc (new sc c) [OBase (OParse bs)] = Ok m /\ ounk m = bs /\ no_unknown m = false /\ c01_value_ok sc m = false.
Proof.
  exists w_sc, 13%nat, w_misfit, (final w_sc 13 [OBase (OParse w_misfit)]).
  vm_compute. repeat split; reflexivity.
Qed.

(* M { A a = 1; ... } receives a well-placed record for a whose PAYLOAD carries an unknown field: the top-level record
   hits a declared field with a fitting wire type, the unknown bytes sit in m.a *)
Definition w_nested_unk : list byte := [x0a; x02; x38; x01].
Lemma parse_nested_unknown_refuted :
  exists sc c bs m,
    c01_schema_ok sc = true /\ clean_bytes sc c bs = false /\
    run7 sc (new sc c) [OBase (OParse bs)] = Ok m /\ no_unknown m = true /\ in_range sc m = true /\
    c01_value_ok sc m = false.
Proof.
  exists w_sc, 11%nat, w_nested_unk, (final w_sc 11 [OBase (OParse w_nested_unk)]).
  vm_compute. repeat split; reflexivity.
Qed.

(* U { uint32 u = 1; } receives the 5-byte varint 2^33 - 1: the decoder does not truncate unsigned fields, the value is
   outside the declared range ([in_range], the "in-range value" of the property, fails) *)
Definition w_sc_u : schema :=
  mkS (builtin_classes ++ [mkC [mkF [x75] 1 TUInt32 None None None false (HPlain PyInt) 0] 0]) [].
Definition w_big : list byte := [x08; xff; xff; xff; xff; x1f].
Lemma parse_out_of_range_refuted :
  exists sc c bs m,
    c01_schema_ok sc = true /\ clean_bytes sc c bs = false /\
    run7 sc (new sc c) [OBase (OParse bs)] = Ok m /\ no_unknown m = true /\ in_range sc m = false /\
    c01_value_ok sc m = false.
Proof.
  exists w_sc_u, 11%nat, w_big, (final w_sc_u 11 [OBase (OParse w_big)]).
  vm_compute. repeat split; reflexivity.
Qed.
