(* C05, message level, ACCEPT direction: the object the reader builds, part 4: the field loops and the object.
   For every well-formed abstract message a, conc_obj a is in range, satisfies the value-side conditions of C05_emit,
   and denotes a. *)
From BP Require Import Base.Prelude Model.Types Model.Float Model.Utf8 Model.Object Model.Eq Model.WellFormed Model.TimeCore Spec.Time.
From BP Require Model.Json Model.Enum Model.Casing Spec.JsonMap Model.Time.
From BP Require Import gen.Tables.
From BP Require Import Proofs.BytesP Proofs.C04Def Proofs.C04ScalarP Proofs.C04ElemP Proofs.C04FieldP Proofs.C04ObjP Proofs.C04CurP.
From BP Require Import Proofs.C05Casing Proofs.C05Leaf Proofs.C05Model Proofs.C05MsgDef Proofs.C05MsgSpec Proofs.C05MsgLeaf
                       Proofs.C05MsgElem Proofs.C05MsgField.
From BP Require Import Proofs.C05AccDef Proofs.C05AccSpec Proofs.C05AccLeaf Proofs.C05AccField Proofs.C05AccRead Proofs.C05AccCur
                       Proofs.C05AccElem Proofs.C05AccFld.
From Coq Require Import Lia.

Lemma in_range_fold sc c raw s u g :
  length raw = length (cfields (get_class sc c)) -> length g = cngroups (get_class sc c) ->
  fields_ok sc raw (cfields (get_class sc c)) = true -> in_range sc (Obj c raw s u g) = true.
Proof.
  intros L G F. unfold in_range. cbn [ocls elem_in_range]. rewrite Nat.eqb_refl, L, G, !Nat.eqb_refl. cbn [andb].
  revert F. generalize (cfields (get_class sc c)) as fs. clear.
  induction raw as [|x raw IH]; intros fs F; [reflexivity|]. destruct fs as [|f fs]; [reflexivity|].
  cbn [fields_ok] in F. apply andb_prop in F as [F1 F2]. rewrite (IH fs F2), andb_true_r. exact F1.
Qed.

Section Obj.
  Variable sc : schema.
  Variable js : S.jschema.
  Variable off : nat.
  Hypothesis JM : js_matches off sc js = true.
  Hypothesis WF : wf_schema sc = true.
  Let nj := length (S.jclasses js).
  Notation wfa := (wf_aval sc js off).
  Notation cel := (conc_elem sc js off).

  Section Step.
    Variable n : nat.
    Hypothesis IHm : forall c afs, (aval_size (S.AMsg afs) < n)%nat -> wfa (S.JMsg c) (S.AMsg afs) = true ->
      obj_ok sc js off c afs.

    Lemma loops_ok cur ng : forall afs fs fds i,
      Forall2 (fmatch off nj) fs fds -> forallb (wf_field sc ng) fs = true ->
      wf_afields wfa fs fds afs = true -> (afields_size afs < n)%nat ->
      (forall k f fd af g, nth_error fs k = Some f -> nth_error fds k = Some fd -> nth_error afs k = Some af ->
                           fgroup f = Some g -> group_selects cur f (i + k) = Some (is_set_field af)) ->
      let raw := conc_fields cel fs fds afs in
      fields_ok sc raw fs = true /\ forallb (pv_good5 sc) raw = true /\ forallb field_nan_canon raw = true /\
      negzero_loop raw fs = true /\ oneof_loop cur i raw fs = true /\ abs_fields sc cur i raw fs = afs.
    Proof.
      induction afs as [|af afs IH]; intros fs fds i F2 W Wa Hs Hsel raw; subst raw.
      - destruct fs, fds; try discriminate Wa. repeat split; reflexivity.
      - destruct fs as [|f fs], fds as [|fd fds]; try discriminate Wa.
        cbn [wf_afields] in Wa. apply andb_prop in Wa as [Wa1 Wa2].
        cbn [forallb] in W. apply andb_prop in W as [W1 W2].
        inversion F2 as [|? ? ? ? Fm F2']; subst.
        rewrite afields_size_cons in Hs.
        destruct (IH fs fds (Datatypes.S i) F2' W2 Wa2 ltac:(lia)) as (I1 & I2 & I3 & I4 & I5 & I6).
        { intros k f' fd' af' g Hf Hd Ha G. replace (Datatypes.S i + k)%nat with (i + Datatypes.S k)%nat by lia.
          exact (Hsel (Datatypes.S k) f' fd' af' g Hf Hd Ha G). }
        destruct (field_ok sc js off n IHm ng f fd af W1 Fm ltac:(lia) Wa1) as (V & G & N & Z & A).
        assert (Sel : group_selects cur f i = match fgroup f with Some _ => Some (is_set_field af) | None => None end).
        { destruct (fgroup f) as [g|] eqn:Gf.
          - pose proof (Hsel O f fd af g eq_refl eq_refl eq_refl Gf) as H. rewrite Nat.add_0_r in H. exact H.
          - unfold group_selects. rewrite Gf. reflexivity. }
        cbn [conc_fields fields_ok forallb negzero_loop oneof_loop abs_fields].
        rewrite V, G, N, Z, I1, I2, I3, I4, I5, I6, Sel, A. repeat split; try reflexivity.
        destruct (fgroup f) as [g|] eqn:Gf; [|reflexivity]. rewrite andb_true_r.
        destruct (group_member sc js off ng f fd af g W1 Fm Wa1 Gf) as [[-> E]|(x & -> & _ & Sent)].
        + rewrite E. reflexivity.
        + cbn [is_set_field]. destruct (conc_field cel f fd (S.FOne x)); try reflexivity. discriminate Sent.
    Qed.
  End Step.

  Lemma obj_ok_n : forall n c afs, (aval_size (S.AMsg afs) < n)%nat -> wfa (S.JMsg c) (S.AMsg afs) = true ->
    obj_ok sc js off c afs.
  Proof.
    induction n as [|n IHn]; intros c afs Hs W; [lia|].
    rewrite wf_aval_msg in W. apply andb_prop in W as [W Wf]. apply andb_prop in W as [Wc Wg].
    apply Nat.ltb_lt in Wc.
    destruct (js_matches_class off sc js c JM Wc) as [F2 ND].
    rewrite aval_size_msg in Hs.
    set (cls := (c + off)%nat). set (fs := cfields (get_class sc cls)). set (fds := S.jclass js c).
    set (ng := cngroups (get_class sc cls)).
    set (raw := conc_fields cel fs fds afs). set (cur := cur_loop O fs raw (repeat None ng)).
    pose proof (wf_fields sc cls WF) as Wfs. fold fs ng in Wfs.
    destruct (loops_ok n IHn cur ng afs fs fds O F2 Wfs Wf ltac:(lia)) as (L1 & L2 & L3 & L4 & L5 & L6).
    { intros k f fd af g Hf Hd Ha G. cbn [Nat.add]. exact (sel_char sc js off ng fs fds afs Wfs F2 Wf Wg k f fd af g Hf Hd Ha G). }
    fold raw in L1, L2, L3, L4, L5, L6.
    assert (E : conc_obj sc js off c afs = Obj cls raw true [] cur).
    { unfold conc_obj, J.set_sow. rewrite post_init_unfold. reflexivity. }
    destruct (wf_afields_length _ _ _ _ Wf) as [Lf Ld].
    unfold obj_ok. rewrite E. split; [|split].
    - apply in_range_fold; [|exact (eq_trans (cur_loop_length _ _ _ _) (repeat_length _ _))|exact L1].
      unfold raw. rewrite conc_fields_length by assumption. symmetry. exact Lf.
    - assert (L2' : forallb (pv_all (local_ok5 sc)) raw = true) by exact L2.
      unfold pv_good5. rewrite pv_all_msg, L2', andb_true_r.
      unfold local_ok5. rewrite local_oneof_sel_unfold, local_no_neg_zero_unfold.
      fold cls fs. rewrite (oneof_loop_sel _ _ _ _ L5), L4. unfold local_nan_canon. cbn [oraw].
      change (forallb field_nan_canon raw = true) in L3. unfold field_nan_canon in L3. rewrite L3. reflexivity.
    - rewrite abs_obj_unfold. fold cls fs. rewrite L6. reflexivity.
  Qed.

  Theorem conc_obj_ok c afs : wfa (S.JMsg c) (S.AMsg afs) = true ->
    emit_good sc (conc_obj sc js off c afs) = true /\ abs_obj sc (conc_obj sc js off c afs) = S.AMsg afs /\
    ocls (conc_obj sc js off c afs) = (c + off)%nat.
  Proof.
    intros W. destruct (obj_ok_n (Datatypes.S (aval_size (S.AMsg afs))) c afs (Nat.lt_succ_diag_r _) W) as (R & G & A).
    split; [rewrite emit_good_split, R, G; reflexivity|]. split; [exact A|reflexivity].
  Qed.
End Obj.
