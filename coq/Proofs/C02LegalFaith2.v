(* C02, encoder side: abs_obj (norm_obj m) = abs_obj m under enc_faithful — the slot cases and the induction. *)
From BP Require Import Base.Prelude Model.Types Model.Varint Model.Scalar Model.Float Model.Utf8.
From BP Require Import Model.Object Model.Eq Model.TimeCore Model.Encode Model.Decode Model.WellFormed Model.C01Def.
From BP Require Import Spec.Varint Spec.Wire.
From BP Require Import Proofs.BytesP Proofs.LenP Proofs.C02Abs Proofs.C02WireP Proofs.C02ListP Proofs.C02StepP Proofs.C02SimP Proofs.C02MapP.
From BP Require Import Proofs.C01Frame Proofs.C01Elem Proofs.C01Builtin Proofs.C01Unfold Proofs.C01Value Proofs.C01Slot Proofs.C01Slot2
     Proofs.C01Dict Proofs.C01Msg Proofs.C01Main Proofs.C01Stable.
From BP Require Import Proofs.C02LegalSpec Proofs.C02LegalLeaf Proofs.C02LegalWalk Proofs.C02LegalFlat Proofs.C02LegalElem
     Proofs.C02LegalMain Proofs.C02LegalFaith.
From BP Require Import gen.Tables.

Lemma card_plain f p :
  fhint f = HPlain p ->
  card_of f = match fgroup f with Some g => Oneof g | None => match fty f with TMessage => Explicit | _ => Implicit end end.
Proof. unfold card_of. intros ->. reflexivity. Qed.

Lemma norm_elem_nonmsg rec t x : float32_ok t x = true -> (forall o, x <> PMsg o) -> norm_elem rec t x = x.
Proof. intros Hf Hm. destruct x; cbn [norm_elem]; try apply norm_scalar_ok; try exact Hf. exfalso. eapply Hm. reflexivity. Qed.

Section Faith2.
  Variable sc : schema.
  Hypothesis Hsc : c01_schema_ok sc = true.
  Let WF := proj1 (schema_parts sc Hsc).
  Let Hbi := proj2 (schema_parts sc Hsc).
  Let nc := length (classes sc).
  Let ne := length (enums sc).

  Section OneSlot.
    Variables (c : nat) (cur : list (option nat)) (i : nat) (f : fdesc).
    Hypothesis Hwf : wf_field sc (cngroups (get_class sc c)) f = true.
    Let sel := group_selects cur f i.

    (* ---- a singular value without wrapper ---- *)
    Lemma sing_faith_plain x p :
      fwraps f = None -> fhint f = HPlain p \/ fhint f = HOptional p ->
      pyty_fits nc ne (fty f) p = true ->
      is_singular x = true -> sel <> Some false -> elem_in_range sc (fty f) p x = true ->
      faithful_slot sc f x = true -> elemP (Sub sc) x ->
      abs_field sc cur i f (norm_slot sc (norm_obj sc) f sel x) = abs_field sc cur i f x.
    Proof.
      intros Hfw Hh Hfit Hx Hsel Hr Hfa HS.
      unfold sel. rewrite (norm_slot_sing sc cur i f x Hx Hsel), Hfw.
      pose proof (group_selects_shape cur f i) as Hsh. fold sel in Hsh, Hsel.
      destruct (is_default sc f x && negb (forced_of cur i f x)) eqn:Hd.
      - (* dropped: equal to the default and nothing forces it onto the wire *)
        apply andb_true_iff in Hd as [Hd Hnf]. apply negb_true_iff in Hnf. unfold forced_of in Hnf.
        apply orb_false_iff in Hnf as [Hnf Hsow]. apply orb_false_iff in Hnf as [Hnf Hst].
        apply orb_false_iff in Hnf as [Hg Hfo].
        assert (Hg' : fgroup f = None) by (destruct (fgroup f); [discriminate | reflexivity]).
        unfold fresh_of. rewrite Hfo.
        destruct Hh as [Hh|Hh].
        2:{ exfalso. cbn in Hd. destruct x; try discriminate Hx; cbn [is_default] in Hd; rewrite Hh in Hd; discriminate Hd. }
        unfold abs_field. rewrite (card_plain f p Hh), Hg'.
        unfold faithful_slot in Hfa. rewrite (card_plain f p Hh), Hg' in Hfa.
        destruct (fty f) eqn:Ht.
        all: try (apply andb_true_iff in Hfa as [Hfp _];
                  assert (Hsr : scalar_in_range (fty f) x = true)
                    by (rewrite Ht; rewrite scalar_elem_in_range in Hr; [exact Hr | destruct p; try discriminate Hfit; exact I]);
                  rewrite <- Ht; destruct x; try discriminate Hx; try (rewrite Ht in Hsr; discriminate Hsr);
                  symmetry; apply (default_abs_scalar sc f p _ Hh); try assumption; rewrite Ht; exact Hfit).
        (* a plain message-typed field: only an unflagged all-default sub-message is dropped *)
        rewrite Hh in Hfa.
        destruct x; try discriminate Hx; try (destruct p; discriminate Hr); try (destruct p; try discriminate Hr; destruct o; discriminate Hr).
        + (* datetime at the epoch: excluded by enc_faithful *)
          cbn [is_default] in Hd. rewrite Hh in Hd. destruct p; try discriminate Hd. rewrite Hd in Hfa. discriminate Hfa.
        + cbn [is_default] in Hd. rewrite Hh in Hd. destruct p; try discriminate Hd. rewrite Hd in Hfa. discriminate Hfa.
        + rewrite Hh. cbn in Hsow. rewrite Hsow. reflexivity.
      - (* written *)
        assert (Hfl : (forall o, x <> PMsg o) -> float32_ok (fty f) x = true).
        { intros Hnm. unfold faithful_slot in Hfa. destruct Hh as [Hh|Hh].
          - rewrite (card_plain f p Hh) in Hfa. destruct (fgroup f).
            + apply andb_true_iff in Hfa as [Hfa _]. exact Hfa.
            + destruct (fty f) eqn:Ht; try (apply andb_true_iff in Hfa as [_ Hfa]; exact Hfa).
              destruct x; reflexivity.
          - assert (Cf : card_of f = Explicit) by (unfold card_of; rewrite Hh; reflexivity).
            rewrite Cf, Hh, Hfw in Hfa. destruct x; try exact Hfa; try reflexivity. exfalso. eapply Hnm. reflexivity. }
        destruct x as [| |z|b|bits|s|b|us|us|l|d|o]; try discriminate Hx.
        8:{ (* sub-message *)
          cbn [norm_elem elemP] in *. destruct HS as (_ & HS).
          unfold abs_field, faithful_slot in *. destruct (card_of f) eqn:Cf; try reflexivity.
          - (* explicit presence *)
            destruct Hh as [Hh|Hh]; rewrite Hh in *.
            + apply andb_true_iff in Hfa as [Hso Hef]. rewrite (HS Hef).
              assert (Hfo : forced_of cur i f (PMsg o) = osow o).
              { unfold forced_of. rewrite (card_plain f p Hh) in Cf. destruct (fgroup f) eqn:G; [discriminate|].
                destruct (wf_plain _ _ _ _ Hwf Hh) as (Hfo & _). rewrite Hfo.
                unfold group_selects. rewrite G. reflexivity. }
              rewrite Hfo in Hd. destruct o as [c0 r0 s0 u0 g0]. cbn [osow norm_obj] in *.
              destruct s0; [reflexivity|]. cbn [orb negb] in Hso, Hd. rewrite Hso in Hd. discriminate Hd.
            + rewrite (HS Hfa). reflexivity.
          - (* oneof member *)
            apply andb_true_iff in Hfa as [_ Hef]. destruct (opt_nat_eqb (nth g cur None) (Some i)); [|reflexivity].
            f_equal. unfold abs_elem. destruct (msg_class f); [|reflexivity]. apply HS. exact Hef. }
        all: rewrite (norm_elem_nonmsg (norm_obj sc) (fty f) _ (Hfl ltac:(discriminate))) by discriminate; reflexivity.
    Qed.

    (* ---- a wrapped scalar ---- *)
    Lemma sing_faith_wrapped x p w vt :
      fhint f = HOptional p -> fwraps f = Some w -> fty f = TMessage -> wrapper_value_type w = Some vt ->
      is_singular x = true -> sel <> Some false -> scalar_in_range w x = true ->
      faithful_slot sc f x = true ->
      abs_field sc cur i f (norm_slot sc (norm_obj sc) f sel x) = abs_field sc cur i f x.
    Proof.
      intros Hh Hfw Hty Hvt Hx Hsel Hr Hfa.
      unfold sel. rewrite (norm_slot_sing sc cur i f x Hx Hsel), Hfw.
      assert (Hnd : is_default sc f x = false) by (destruct x; try discriminate Hx; cbn [is_default]; rewrite Hh; reflexivity).
      rewrite Hnd. cbn [andb].
      assert (Cf : card_of f = Explicit) by (unfold card_of; rewrite Hh; reflexivity).
      unfold faithful_slot in Hfa. rewrite Cf, Hh, Hfw in Hfa.
      assert (Hfa' : float_plain_ok x && float32_ok w x = true) by (destruct x; try discriminate Hx; try exact Hfa; destruct w; discriminate Hr).
      apply andb_true_iff in Hfa' as [Hfp Hf32].
      unfold norm_wrapped. rewrite Hvt.
      assert (Hw : vt = w) by (destruct w; try discriminate Hvt; injection Hvt as <-; reflexivity). subst vt.
      destruct (is_default (mkS [] []) (wrapper_field w) x) eqn:Hd.
      - (* the default value: read back as the materialised default *)
        unfold abs_field. rewrite Cf.
        destruct w; try discriminate Hvt; destruct x; try discriminate Hr; cbn in Hd; cbn [default_of wrapper_field plain_field fhint plain_pyty];
          try (apply Z.eqb_eq in Hd; subst; reflexivity); try (destruct b; try discriminate Hd; reflexivity).
        + cbn [float_plain_ok] in Hfp. rewrite Hd in Hfp. cbn in Hfp. apply Z.eqb_eq in Hfp. subst. reflexivity.
        + cbn [float_plain_ok] in Hfp. rewrite Hd in Hfp. cbn in Hfp. apply Z.eqb_eq in Hfp. subst. reflexivity.
        + destruct utf8; try discriminate Hd; reflexivity.
      - rewrite (norm_scalar_ok w x Hf32). reflexivity.
    Qed.

    (* ---- every singular slot ---- *)
    Lemma sing_faith x :
      is_singular x = true -> sel <> Some false -> slot_in_range sc f x = true ->
      faithful_slot sc f x = true -> elemP (Sub sc) x ->
      abs_field sc cur i f (norm_slot sc (norm_obj sc) f sel x) = abs_field sc cur i f x.
    Proof.
      intros Hx Hsel Hr Hfa HS.
      assert (Hh : exists p, fhint f = HPlain p \/ fhint f = HOptional p).
      { unfold slot_in_range in Hr. destruct (fhint f) as [p|p|p|pk pv']; eauto;
          destruct x; try discriminate Hx; try discriminate Hr; destruct (fmap f) as [[? ?]|]; discriminate Hr. }
      destruct Hh as (p & [Hh|Hh]).
      - destruct (wf_plain _ _ _ _ Hwf Hh) as (Hfo & Hfw & Hfm & Hmap & Hfit).
        assert (Hr' : elem_in_range sc (fty f) p x = true).
        { unfold slot_in_range in Hr. rewrite Hh in Hr. destruct x; try discriminate Hx; exact Hr. }
        apply (sing_faith_plain x p); auto.
      - destruct (wf_optional _ _ _ _ Hwf Hh) as (Hfm & Hfg & [(w & vt & Hfw & Hfo & Hty & Hwc & Hvt & Hfit) | (Hfw & Hfo & Hmap & Hfit)]).
        + assert (Hp : match p with PyMsg _ | PyDatetime | PyTimedelta => False | _ => True end).
          { destruct w; try discriminate Hvt; injection Hvt as <-; destruct p; try discriminate Hfit; exact I. }
          assert (Hr' : scalar_in_range w x = true).
          { unfold slot_in_range in Hr. rewrite Hh, Hfw in Hr.
            rewrite <- (scalar_elem_in_range sc w p x Hp). destruct x; try discriminate Hx; exact Hr. }
          apply (sing_faith_wrapped x p w vt); auto.
        + assert (Hr' : elem_in_range sc (fty f) p x = true).
          { unfold slot_in_range in Hr. rewrite Hh, Hfw in Hr. destruct x; try discriminate Hx; exact Hr. }
          apply (sing_faith_plain x p); auto.
    Qed.

    (* ---- nothing was written: the slot comes back fresh ---- *)
    Lemma fresh_faith x :
      (x = PPlaceholder \/ (x = PNone /\ exists p, fhint f = HOptional p)) ->
      abs_field sc cur i f (fresh_of f) = abs_field sc cur i f x.
    Proof.
      intros Hx. unfold fresh_of. destruct (fopt f) eqn:Hfo.
      - assert (Hh : exists p, fhint f = HOptional p).
        { destruct (fhint f) as [p|p|p|pk pv'] eqn:Hh; [| eauto | |].
          - destruct (wf_plain _ _ _ _ Hwf Hh) as (H & _). congruence.
          - destruct (wf_list _ _ _ _ Hwf Hh) as (H & _). congruence.
          - destruct (wf_dict _ _ _ _ _ Hwf Hh) as (H & _). congruence. }
        destruct Hh as (p & Hh). unfold abs_field, card_of. rewrite Hh. destruct Hx as [-> | (-> & _)]; reflexivity.
      - destruct Hx as [-> | (-> & p & Hh)]; [reflexivity|]. unfold abs_field, card_of. rewrite Hh. reflexivity.
    Qed.

    (* ---- the selected member of a oneof that still holds PLACEHOLDER ---- *)
    Lemma placeholder_selected_faith :
      sel = Some true ->
      abs_field sc cur i f (norm_slot sc (norm_obj sc) f sel PPlaceholder) = abs_field sc cur i f PPlaceholder.
    Proof.
      intros Hs. pose proof (group_selects_shape cur f i) as Hsh. fold sel in Hsh. rewrite Hs in Hsh. destruct Hsh as (g & Hg & Hb).
      assert (Hh : exists p, fhint f = HPlain p).
      { destruct (fhint f) as [p|p|p|pk pv'] eqn:Hh; [eauto| | |].
        - destruct (wf_optional _ _ _ _ Hwf Hh) as (_ & Hg' & _). congruence.
        - destruct (wf_list _ _ _ _ Hwf Hh) as (_ & _ & _ & Hg' & _). congruence.
        - destruct (wf_dict _ _ _ _ _ Hwf Hh) as (_ & _ & Hg' & _). congruence. }
      destruct Hh as (p & Hh). destruct (wf_plain _ _ _ _ Hwf Hh) as (Hfo & Hfw & _ & Hmap & Hfit).
      unfold norm_slot. rewrite Hs. unfold abs_field. rewrite (card_plain f p Hh), Hg, <- Hb. f_equal.
      rewrite <- (default_abs_elem sc Hsc f p Hh Hfw Hfit).
      unfold default_of. rewrite Hh. destruct p; reflexivity.
    Qed.
  End OneSlot.
End Faith2.
