(* C06, decoder side, part 3: values denoted by records, the effect of apply_record, preservation
   of the typing invariant by Message.load, and the presence invariants over a record list. *)
From BP Require Import Base.Prelude Model.Types Model.Varint Model.Scalar Model.Float Model.Utf8.
From BP Require Import Model.Object Model.Eq Model.TimeCore Model.Decode Model.WellFormed Model.C06Obs.
From BP Require Import gen.Tables Spec.Varint Spec.C06Wire.
From BP Require Import Proofs.C06SpecP Proofs.C06LoopP Proofs.C06EncP Proofs.C06StoreP.

Definition nested_good (fuel' : nat) (sc : schema) : Prop :=
  forall c' bs m, parse_new fuel' sc c' bs = Ok m -> good sc m /\ ocls m = c'.

(* a value that can be stored in a field with this hint: not None, not the sentinel, a list only in a repeated field *)
Definition proper_value (h : hint) (v : pv) : Prop :=
  v <> PNone /\ v <> PPlaceholder /\ (forall l, v = PList l -> exists t, h = HList t).

Lemma postprocess_varint_proper h t z : proper_value h (postprocess_varint t z).
Proof.
  unfold postprocess_varint.
  repeat match goal with |- context [if ?c then _ else _] => destruct c end;
    repeat split; try discriminate; intros; discriminate.
Qed.

Lemma unpack_value_proper h t bs v : unpack_value t bs = Ok v -> proper_value h v.
Proof.
  unfold unpack_value. intros H.
  destruct (pack_fmt t) as [[| | | | |]|]; try discriminate;
    try (destruct (Nat.eqb (length bs) _); try discriminate; injection H as <-;
         repeat split; try discriminate; intros; discriminate);
    (destruct (unpack_int _ bs); cbn [bind] in H; try discriminate; injection H as <-;
     repeat split; try discriminate; intros; discriminate).
Qed.

Lemma packed_not_len t : tmem t PACKED_TYPES = true -> base_wire_type t <> 2.
Proof. destruct t; vm_compute; intros; try discriminate; lia. Qed.

Lemma record_value_proper fuel' sc ng f p v :
  nested_good fuel' sc -> std_builtins_b sc = true ->
  wf_field sc ng f = true -> wire_type_fits f (pwt p) = true ->
  record_value fuel' sc f p = Ok v ->
  proper_value (fhint f) v.
Proof.
  intros Hn S W Hfit H. unfold record_value in H.
  destruct ((pwt p =? WIRE_LEN_DELIM) && tmem (fty f) PACKED_TYPES) eqn:Pk.
  { apply andb_prop in Pk as [Pw Pt]. apply Z.eqb_eq in Pw. unfold WIRE_LEN_DELIM in Pw.
    destruct (unpack_packed _ _ _) as [l|]; cbn [bind] in H; [|discriminate]. injection H as <-.
    repeat split; try discriminate. intros l' _.
    rewrite fits_is_wire_type_fits in Hfit. unfold fits in Hfit. rewrite Pw in Hfit.
    pose proof (packed_not_len _ Pt) as Nb.
    replace (2 =? base_wire_type (fty f)) with false in Hfit by (symmetry; apply Z.eqb_neq; lia).
    cbn in Hfit. unfold is_repeated in Hfit. destruct (fhint f); try discriminate. eauto. }
  destruct (pwt p =? WIRE_VARINT); [injection H as <-; apply postprocess_varint_proper|].
  destruct ((pwt p =? WIRE_FIXED_32) || (pwt p =? WIRE_FIXED_64)); [eapply unpack_value_proper; exact H|].
  destruct (ptype_eqb (fty f) TMap).
  { destruct (parse_new _ _ _ _); cbn [bind] in H; [|discriminate]. injection H as <-.
    repeat split; try discriminate; intros; discriminate. }
  unfold post_len in H.
  destruct (ptype_eqb (fty f) TString).
  { destruct (utf8_valid _); [|discriminate]. injection H as <-. repeat split; try discriminate; intros; discriminate. }
  destruct (ptype_eqb (fty f) TMessage);
    [|injection H as <-; repeat split; try discriminate; intros; discriminate].
  assert (Wr : forall w, fwraps f = Some w ->
               match wrapper_cls w with
               | Some wc => do m <- parse_new fuel' sc wc (pbytes p); snd (getattr sc m 0)
               | None => Err EKey
               end = Ok v -> proper_value (fhint f) v).
  { intros w _ Hw. destruct (wrapper_cls w) as [wc|] eqn:Wc; [|discriminate].
    destruct (parse_new fuel' sc wc (pbytes p)) as [m|] eqn:Pm; cbn [bind] in Hw; [|discriminate].
    destruct (Hn _ _ _ Pm) as [Gm Cm].
    destruct (wrapper_read sc m v S) as (A & B & C); try assumption.
    { rewrite Cm. eapply wrapper_cls_builtin. exact Wc. }
    repeat split; try assumption. intros l E. exfalso. eapply C. exact E. }
  destruct (hint_elem (fhint f)) eqn:He; destruct (fwraps f) as [w|] eqn:Fw;
    try discriminate; try (eapply Wr; [reflexivity|exact H]).
  all: repeat (match type of H with
               | (do _ <- ?X; _) = Ok _ => destruct X eqn:?; cbn [bind] in H; [|discriminate]
               | match ?X with _ => _ end = Ok _ => destruct X eqn:?; try discriminate
               end).
  all: try (injection H as <-);
       try (match goal with |- context [match ?m with Obj _ _ _ _ _ => _ end] => destruct m end);
       repeat split; try discriminate; intros; discriminate.
Qed.

Lemma record_value_msg fuel' sc f p v c' :
  fty f = TMessage -> fwraps f = None -> hint_elem (fhint f) = PyMsg c' ->
  wire_type_fits f (pwt p) = true ->
  record_value fuel' sc f p = Ok v ->
  exists ch, v = PMsg ch /\ osow ch = true.
Proof.
  intros Ht Hw Hh Hfit H.
  rewrite fits_is_wire_type_fits in Hfit. unfold fits in Hfit. rewrite Ht in Hfit. cbn [base_wire_type] in Hfit.
  assert (Pw : pwt p = 2).
  { destruct (Z.eqb_spec (pwt p) 2) as [E|E]; [exact E|]. cbn in Hfit. discriminate. }
  unfold record_value, post_len in H. rewrite Ht, Pw, Hh, Hw in H.
  change (tmem TMessage PACKED_TYPES) with false in H.
  change (2 =? WIRE_LEN_DELIM) with true in H. change (2 =? WIRE_VARINT) with false in H.
  change (2 =? WIRE_FIXED_32) with false in H. change (2 =? WIRE_FIXED_64) with false in H.
  change (ptype_eqb TMessage TMap) with false in H. change (ptype_eqb TMessage TString) with false in H.
  change (ptype_eqb TMessage TMessage) with true in H. cbn [andb orb] in H. cbn beta iota in H.
  destruct (parse_new fuel' sc c' (pbytes p)) as [m|]; [|discriminate].
  injection H as <-. destruct m as [c r s u g]. eexists. split; reflexivity.
Qed.

Lemma marked_proper sc h v : proper_value h v -> proper_value h (marked sc v).
Proof.
  unfold marked. destruct (fieldless sc v); [|auto].
  intros (A & B & C). destruct v; cbn [mark_sow]; try (repeat split; assumption).
  destruct o. repeat split; try discriminate; intros; discriminate.
Qed.

Lemma marked_msg sc v ch :
  v = PMsg ch -> osow ch = true -> exists ch', marked sc v = PMsg ch' /\ osow ch' = true.
Proof.
  intros -> Hs. unfold marked. destruct (fieldless sc (PMsg ch)); [|eauto].
  destruct ch. cbn. eauto.
Qed.

Definition unchanged (o o' : obj) : Prop := ocls o' = ocls o /\ oraw o' = oraw o /\ ocur o' = ocur o.

Lemma add_unknown_unchanged o bs : unchanged o (add_unknown o bs).
Proof. destruct o. repeat split. Qed.

Lemma wf_group_lt sc ng f g : wf_field sc ng f = true -> fgroup f = Some g -> (g < ng)%nat.
Proof.
  unfold wf_field. intros W G. rewrite G in W.
  apply andb_prop in W as [W _]. apply andb_prop in W as [_ W]. apply Nat.ltb_lt. exact W.
Qed.

Lemma apply_record_effect fuel' sc o p o' :
  wf_schema sc = true -> std_builtins_b sc = true -> nested_good fuel' sc -> good sc o ->
  apply_record fuel' sc (get_class sc (ocls o)) o p = Ok o' ->
  match field_by_number (get_class sc (ocls o)) (pnum p) with
  | Some (i, f) =>
      if wire_type_fits f (pwt p) then
        exists vs, effect sc o o' i f vs /\ proper_value (fhint f) vs /\
          (fty f = TMessage -> fwraps f = None -> msg_hinted f -> exists ch, vs = PMsg ch /\ osow ch = true)
      else unchanged o o'
  | None => unchanged o o'
  end.
Proof.
  intros W S Hn Hg H. unfold apply_record in H.
  destruct (field_by_number (get_class sc (ocls o)) (pnum p)) as [[i f]|] eqn:B;
    [|injection H as <-; apply add_unknown_unchanged].
  destruct (wire_type_fits f (pwt p)) eqn:Hfit; cbn [negb] in H;
    [|injection H as <-; apply add_unknown_unchanged].
  apply field_by_number_some in B as [Bi Bn].
  pose proof (wf_field_of sc (ocls o) f W (nth_error_In _ _ Bi)) as Wf.
  destruct (record_value fuel' sc f p) as [value|] eqn:Rv; cbn [bind] in H; [|discriminate].
  pose proof (record_value_proper _ _ _ _ _ _ Hn S Wf Hfit Rv) as Pv.
  assert (Hgl : forall g, fgroup f = Some g -> (g < length (ocur o))%nat).
  { intros g G. destruct Hg as (_ & Hc & _). rewrite Hc. eapply wf_group_lt; eassumption. }
  destruct (store_effect sc o i f value o' Bi Hg Hgl H) as (vs & E & Hvs).
  exists vs. split; [exact E|].
  destruct Hvs as [(l & t & -> & Hl)|[(d & -> & Hm)| ->]].
  - split; [repeat split; try discriminate; eauto|].
    intros _ _ (c' & Hc'). rewrite Hc' in Hl. discriminate.
  - split; [repeat split; try discriminate; intros; discriminate|].
    intros Ht. rewrite Hm in Ht. discriminate.
  - split; [apply marked_proper; exact Pv|].
    intros Ht Hw (c' & Hc').
    destruct (record_value_msg fuel' sc f p value c' Ht Hw) as (ch & Ev & Es); try assumption.
    { rewrite Hc'. reflexivity. }
    eapply marked_msg; eassumption.
Qed.

Lemma proper_fits h v : proper_value h v -> fits_hint h v.
Proof.
  intros (A & B & C). destruct v; cbn; auto; try congruence. apply (C l eq_refl).
Qed.

Lemma effect_good sc o o' i f vs :
  good sc o -> nth_error (fields_of sc o) i = Some f -> effect sc o o' i f vs ->
  fits_hint (fhint f) vs -> good sc o'.
Proof.
  intros (Hl & Hc & Hg) Hf E Hv.
  pose proof (effect_fields _ _ _ _ _ _ E) as Efs. unfold good.
  rewrite Efs, (ef_len _ _ _ _ _ _ E), (ef_clen _ _ _ _ _ _ E), (ef_cls _ _ _ _ _ _ E).
  repeat split; try assumption.
  intros j f' Hj. destruct (Nat.eq_dec j i) as [->|Ne].
  - rewrite (ef_here _ _ _ _ _ _ E). rewrite Hf in Hj. injection Hj as <-. exact Hv.
  - destruct (ef_other _ _ _ _ _ _ E j Ne) as [->|[-> _]]; [apply Hg; exact Hj|exact I].
Qed.

Lemma unchanged_good sc o o' : good sc o -> unchanged o o' -> good sc o'.
Proof.
  intros (Hl & Hc & Hg) (Ec & Er & Eu). unfold good, fields_of, raw_at in *. rewrite Ec, Er, Eu. auto.
Qed.

Lemma apply_record_good fuel' sc o p o' :
  wf_schema sc = true -> std_builtins_b sc = true -> nested_good fuel' sc -> good sc o ->
  apply_record fuel' sc (get_class sc (ocls o)) o p = Ok o' ->
  good sc o' /\ ocls o' = ocls o.
Proof.
  intros W S Hn Hg H. pose proof (apply_record_effect _ _ _ _ _ W S Hn Hg H) as E.
  destruct (field_by_number (get_class sc (ocls o)) (pnum p)) as [[i f]|] eqn:B.
  - apply field_by_number_some in B as [Bi _].
    destruct (wire_type_fits f (pwt p)).
    + destruct E as (vs & E & Pv & _). split; [|apply (ef_cls _ _ _ _ _ _ E)].
      eapply effect_good; try eassumption. apply proper_fits. exact Pv.
    + split; [eapply unchanged_good; eassumption|apply E].
  - split; [eapply unchanged_good; eassumption|apply E].
Qed.

Lemma loop_good fuel' sc :
  wf_schema sc = true -> std_builtins_b sc = true -> nested_good fuel' sc ->
  forall n o s o' rest, good sc o ->
  my_loop fuel' sc (get_class sc (ocls o)) n o s = Ok (o', rest) -> good sc o' /\ ocls o' = ocls o.
Proof.
  intros W S Hn. induction n as [|n IH]; intros o s o' rest Hg H; [discriminate|].
  cbn [my_loop] in H. destruct s as [|b s]; [injection H as <- _; auto|].
  destruct (load_varint (b :: s)) as [[[nw r] s1]|]; cbn [bind] in H; [|discriminate].
  destruct (load_field fuel' s1 nw r) as [[p s2]|]; cbn [bind] in H; [|discriminate].
  destruct (apply_record fuel' sc (get_class sc (ocls o)) o p) as [o1|] eqn:A; cbn [bind] in H; [|discriminate].
  destruct (apply_record_good _ _ _ _ _ W S Hn Hg A) as [G1 C1].
  rewrite <- C1 in H. destruct (IH _ _ _ _ G1 H) as [G2 C2]. split; [exact G2|congruence].
Qed.

Theorem load_good sc :
  wf_schema sc = true -> std_builtins_b sc = true ->
  forall fuel o s o' rest, load fuel sc o s None = Ok (o', rest) -> good sc o ->
  good sc o' /\ ocls o' = ocls o.
Proof.
  intros W S. induction fuel as [|fuel' IH]; intros o s o' rest H Hg; [discriminate|].
  rewrite load_none in H.
  assert (Hn : nested_good fuel' sc).
  { intros c' bs m Hp. unfold parse_new in Hp.
    destruct (load fuel' sc (new sc c') bs None) as [[m' r']|] eqn:L; cbn [bind] in Hp; [|discriminate].
    injection Hp as <-. apply (IH _ _ _ _ L). apply good_new. apply wf_opt_hinted. exact W. }
  replace (ocls o) with (ocls (mark_received o)) in H by (destruct o; reflexivity).
  destruct (loop_good fuel' sc W S Hn _ _ _ _ _ (good_mark_received _ _ Hg) H) as [G C].
  split; [exact G|]. rewrite C. destruct o; reflexivity.
Qed.

Lemma nested_good_all sc fuel' :
  wf_schema sc = true -> std_builtins_b sc = true -> nested_good fuel' sc.
Proof.
  intros W S c' bs m Hp. unfold parse_new in Hp.
  destruct (load fuel' sc (new sc c') bs None) as [[m' r']|] eqn:L; cbn [bind] in Hp; [|discriminate].
  injection Hp as <-. apply (load_good sc W S _ _ _ _ _ L). apply good_new. apply wf_opt_hinted. exact W.
Qed.
