(* C14 / commutation, part 2 - copy and deepcopy are monotone for [mat]: copying a state with more lazily created
   defaults written back gives a copy with more defaults written back, nothing else.  No shape hypothesis. *)
From BP Require Import Base.Prelude Model.Types Model.Float Model.Object Model.Eq Model.Encode Model.Decode Model.History Model.C14Ops.
From BP Require Import Model.WellFormed Proofs.BytesP Proofs.C14Ind Proofs.C14Mat Proofs.C14Obs Proofs.C14Pres Proofs.C14Sim1.
From Coq Require Import Lia.

Section Wf.
  Variable sc : schema.
  Hypothesis Hopt : schema_opt_ok sc = true.

  Lemma mat_slot_of_placeholder c f x' :
    In f (cfields (get_class sc c)) -> x' <> PPlaceholder -> mat sc f PPlaceholder x' = true -> mat sc f (slot f) x' = true.
  Proof.
    intros Hin Hn Hm. unfold slot. destruct (fopt f) eqn:Hfo; [|exact Hm].
    pose proof (opt_ok_field sc c f Hopt Hin) as Ho. unfold opt_hint_ok in Ho. rewrite Hfo in Ho.
    rewrite mat_placeholder in Hm by exact Hn. unfold default_of in Hm. destruct (fhint f); try discriminate Ho. exact Hm.
  Qed.

  Lemma is_ph_dec (x : pv) : {x = PPlaceholder} + {x <> PPlaceholder}.
  Proof. destruct x; try (right; discriminate). left; reflexivity. Qed.

  Lemma overlay_head_np x y : x <> PPlaceholder -> match x with PPlaceholder => y | _ => x end = x.
  Proof. destruct x; try reflexivity. intros H; contradiction H; reflexivity. Qed.

  Lemma overlay_go_mono c : forall fs, (forall f, In f fs -> In f (cfields (get_class sc c))) ->
    forall a a', mat_go sc a a' fs = true ->
    mat_go sc (overlay_go a (map slot fs)) (overlay_go a' (map slot fs)) fs = true.
  Proof.
    induction fs as [|f fs IH]; intros Hin a a' H.
    - destruct a, a'; reflexivity.
    - destruct a as [|x r], a' as [|x' r']; cbn [mat_go] in H; try discriminate H.
      + cbn [overlay_go]. apply mat_go_refl. apply Forall_forall. intros y _ g. apply mat_refl.
      + apply andb_true_iff in H as [H1 H2]. cbn [map overlay_go mat_go].
        rewrite (IH (fun f0 Hf0 => Hin f0 (or_intror Hf0)) r r' H2), andb_true_r.
        destruct (is_ph_dec x) as [->|Hx].
        * destruct (is_ph_dec x') as [->|Hx']; [apply mat_refl|].
          rewrite (overlay_head_np x' _ Hx'). apply (mat_slot_of_placeholder c); auto. apply Hin. left. reflexivity.
        * pose proof (mat_not_placeholder sc f x x' H1 Hx) as Hx'.
          rewrite (overlay_head_np x _ Hx), (overlay_head_np x' _ Hx'). exact H1.
  Qed.

  Lemma overlay_mono c raw raw' :
    mat_go sc raw raw' (cfields (get_class sc c)) = true ->
    mat_go sc (overlay sc c raw) (overlay sc c raw') (cfields (get_class sc c)) = true.
  Proof. intros H. rewrite !overlay_eq. apply (overlay_go_mono c); auto. Qed.

  Theorem copy_mono o o' : mat_obj sc o o' = true -> mat_obj sc (copy sc o) (copy sc o') = true.
  Proof.
    intros H. destruct (mat_obj_inv sc o o' H) as (c & raw & raw' & sow & unk & cur & -> & -> & Hg).
    cbn [copy]. rewrite mat_obj_mk. apply overlay_mono. exact Hg.
  Qed.

  (* ---- deepcopy ---- *)
  Lemma overlay_go_slots fs : overlay_go (map slot fs) (map slot fs) = map slot fs.
  Proof.
    induction fs as [|f fs IH]; [reflexivity|]. cbn [map overlay_go]. rewrite IH. f_equal.
    unfold slot. destruct (fopt f); reflexivity.
  Qed.

  Lemma deepcopy_slot f : deepcopy_pv sc (slot f) = slot f.
  Proof. unfold slot. destruct (fopt f); reflexivity. Qed.

  Lemma deepcopy_default f : deepcopy_pv sc (default_of sc f) = default_of sc f.
  Proof.
    unfold default_of. destruct (fhint f) as [[]| | |]; try reflexivity.
    unfold new. cbn [deepcopy_pv]. do 2 f_equal. rewrite overlay_eq.
    change (map (fun f0 => if fopt f0 then PNone else PPlaceholder) (cfields (get_class sc c))) with (map slot (cfields (get_class sc c))).
    rewrite map_map. rewrite (map_ext _ slot deepcopy_slot). apply overlay_go_slots.
  Qed.

  Definition DQ (v' : pv) : Prop := forall f v, mat sc f v v' = true -> mat sc f (deepcopy_pv sc v) (deepcopy_pv sc v') = true.

  Lemma dc_lift v' :
    (forall f v, v <> PPlaceholder -> mat sc f v v' = true -> mat sc f (deepcopy_pv sc v) (deepcopy_pv sc v') = true) -> DQ v'.
  Proof.
    intros N f v H. destruct (is_ph_dec v) as [->|Hv]; [|apply N; assumption].
    destruct (is_ph_dec v') as [->|Hv']; [reflexivity|].
    cbn [deepcopy_pv]. rewrite mat_placeholder in H by exact Hv'.
    pose proof (N f (default_of sc f) (default_not_placeholder sc f) H) as H'. rewrite deepcopy_default in H'.
    rewrite mat_placeholder; [exact H'|]. intros E. apply deepcopy_placeholder in E. contradiction.
  Qed.

  Lemma mat_elem_dc f x x' : DQ x' -> mat_elem sc f x x' = true -> mat_elem sc f (deepcopy_pv sc x) (deepcopy_pv sc x') = true.
  Proof.
    intros Q H. unfold mat_elem in H.
    destruct x as [| | | | | | | | | | |o]; try (apply pv_same_sound in H; subst x'; apply mat_elem_refl; intros g; apply mat_refl).
    destruct x' as [| | | | | | | | | | |o']; try (destruct o; cbn [pv_same] in H; discriminate H).
    apply Q in H. destruct o as [c raw s u g], o' as [c' raw' s' u' g']. cbn [deepcopy_pv] in *. unfold mat_elem. exact H.
  Qed.

  Lemma mat_go_map_dc : forall raw', Forall DQ raw' -> forall raw fs,
    mat_go sc raw raw' fs = true -> mat_go sc (map (deepcopy_pv sc) raw) (map (deepcopy_pv sc) raw') fs = true.
  Proof.
    induction 1 as [|x' r' Hx Hr IH]; intros [|x r] fs H; cbn [mat_go] in H; try discriminate H; [reflexivity|].
    cbn [map mat_go]. destruct fs as [|f fs]; apply andb_true_iff in H as [H1 H2].
    - apply pv_same_sound in H1. subst x'. rewrite pv_same_refl. cbn [andb]. apply IH. exact H2.
    - rewrite (Hx f x H1). cbn [andb]. apply IH. exact H2.
  Qed.

  Lemma deepcopy_mono_all : forall v', DQ v'.
  Proof.
    induction v' using pv_induction; apply dc_lift; intros f v Hn Hm.
    1-9: (pose proof Hm as Hm'; rewrite mat_np in Hm' by exact Hn;
          match type of Hm' with mat_core _ _ _ ?t = true => apply (mat_core_scalar sc f v t) in Hm' end;
          [subst v; apply mat_refl | try exact I]).
    - (* placeholder on the right: impossible for v <> placeholder *)
      exfalso. rewrite mat_np in Hm by exact Hn.
      destruct v as [| | | | | | | | | | |[c0 r0 s0 u0 g0]]; cbn [mat_core pv_same] in Hm; try discriminate Hm.
    - (* list *)
      pose proof Hm as Hi. apply mat_inv in Hi. rewrite (src_id sc f v Hn) in Hi.
      destruct Hi as [[Hv _]|[(c0 & raw0 & raw0' & sow0 & unk0 & cur0 & Hs & Hv' & Hg)|[(l0 & l0' & Hs & Hv' & Hg)|[(d0 & d0' & Hs & Hv' & Hg)|[Hs Hsc]]]]];
        try discriminate; try contradiction.
      inversion Hv'; subst l0' v. cbn [deepcopy_pv]. rewrite mat_np by discriminate. cbn [mat_core].
      clear Hm Hn Hv'. revert l0 Hg. induction H as [|x' l' Hx Hl IH]; intros [|x l0] Hg; cbn [mat_list] in Hg; try discriminate Hg; [reflexivity|].
      apply andb_true_iff in Hg as [G1 G2]. cbn [map mat_list]. rewrite (mat_elem_dc f x x' Hx G1), (IH l0 G2). reflexivity.
    - (* dict *)
      pose proof Hm as Hi. apply mat_inv in Hi. rewrite (src_id sc f v Hn) in Hi.
      destruct Hi as [[Hv _]|[(c0 & raw0 & raw0' & sow0 & unk0 & cur0 & Hs & Hv' & Hg)|[(l0 & l0' & Hs & Hv' & Hg)|[(d0 & d0' & Hs & Hv' & Hg)|[Hs Hsc]]]]];
        try discriminate; try contradiction.
      inversion Hv'; subst d0' v. cbn [deepcopy_pv]. rewrite mat_np by discriminate. cbn [mat_core].
      clear Hm Hn Hv'. revert d0 Hg. induction H as [|[k' x'] d' [_ Hx] Hl IH]; intros [|[k x] d0] Hg; cbn [mat_dict] in Hg; try discriminate Hg; [reflexivity|].
      apply andb_true_iff in Hg as [G1 G3]. apply andb_true_iff in G1 as [G1 G2]. cbn [mat_dict snd] in *.
      rewrite G1, (mat_elem_dc f x x' Hx G2), (IH d0 G3). reflexivity.
    - (* message *)
      pose proof Hm as Hi. apply mat_inv in Hi. rewrite (src_id sc f v Hn) in Hi.
      destruct Hi as [[Hv _]|[(c0 & raw0 & raw0' & sow0 & unk0 & cur0 & Hs & Hv' & Hg)|[(l0 & l0' & Hs & Hv' & Hg)|[(d0 & d0' & Hs & Hv' & Hg)|[Hs Hsc]]]]];
        try discriminate; try contradiction.
      inversion Hv'; subst. cbn [deepcopy_pv]. rewrite mat_np by discriminate. cbn [mat_core].
      rewrite Nat.eqb_refl, eqb_reflx, bytes_eqb_refl, cur_same_refl. cbn [andb].
      apply overlay_mono. apply mat_go_map_dc; assumption.
  Qed.

  Theorem deepcopy_mono o o' : mat_obj sc o o' = true -> mat_obj sc (deepcopy sc o) (deepcopy sc o') = true.
  Proof.
    intros H. unfold deepcopy, mat_obj in *. pose proof (deepcopy_mono_all (PMsg o') dummy_field (PMsg o) H) as H'.
    destruct o as [c raw s u g], o' as [c' raw' s' u' g']. cbn [deepcopy_pv] in *. exact H'.
  Qed.
End Wf.
