(* C04, object level (B), part 3: field by field, then the whole object:
   norm_obj m == m  and  bytes(norm_obj m) = bytes(m). *)
From BP Require Import Base.Prelude Model.Types Model.Varint Model.Scalar Model.Float Model.Utf8 Model.Object Model.Eq Model.TimeCore.
From BP Require Import Model.Encode Model.WellFormed Model.Json.
From BP Require Import gen.Tables Proofs.BytesP Proofs.C04Def Proofs.C04ScalarP Proofs.C04ElemP Proofs.C04FieldP Proofs.C04ObjP
  Proofs.C04CurP Proofs.C04EncP.
From Coq Require Import Lia ZifyBool.

(* ---------------------------------------------------------------------------------- *)
(* the loops of enc_obj, pv_eq and local_no_lazy, named                                 *)
(* ---------------------------------------------------------------------------------- *)
Definition enc_head_sel (sc : schema) (sel : option bool) (f : fdesc) (x : pv) : result (list byte) :=
  match sel with
  | Some false => Ok []
  | sel =>
      match x with
      | PNone => Ok []
      | PPlaceholder =>
          match default_of sc f with
          | PNone => Ok []
          | d => emit_field (fun _ => Ok []) sc f sel d
          end
      | _ => emit_field (enc_obj sc) sc f sel x
      end
  end.

Section EncLoop.
  Variable sc : schema.
  Variable cur : list (option nat).
  Fixpoint enc_loop (i : nat) (raw : list pv) (fs : list fdesc) {struct raw} : result (list byte) :=
    match raw, fs with
    | x :: raw', f :: fs' =>
        do here <- enc_head_sel sc (group_selects cur f i) f x;
        do rest <- enc_loop (S i) raw' fs';
        Ok (here ++ rest)
    | _, _ => Ok []
    end.
End EncLoop.

Lemma enc_obj_unfold sc c raw s u g :
  enc_obj sc (Obj c raw s u g) = do body <- enc_loop sc g O raw (cfields (get_class sc c)); Ok (body ++ u).
Proof.
  cbn [enc_obj]. f_equal. generalize O. generalize (cfields (get_class sc c)).
  induction raw as [|x raw IH]; intros fs i; [reflexivity|]. destruct fs as [|f fs]; [reflexivity|].
  cbn [enc_loop]. rewrite <- IH. f_equal.
  unfold enc_head_sel. destruct (group_selects g f i) as [[|]|]; reflexivity.
Qed.

Definition eq_head (sc : schema) (f : fdesc) (u v : pv) : bool :=
  match u, v with
  | PPlaceholder, PPlaceholder => true
  | PPlaceholder, _ => is_default sc f v
  | _, PPlaceholder => is_default sc f u
  | _, _ => pv_eq sc u v || (pv_is_nan u && pv_is_nan v)
  end.

Section EqLoop.
  Variable sc : schema.
  Fixpoint eq_loop (ra rb : list pv) (fs : list fdesc) {struct ra} : bool :=
    match ra, rb, fs with
    | u :: ra', v :: rb', f :: fs' => eq_head sc f u v && eq_loop ra' rb' fs'
    | _, _, _ => true
    end.
End EqLoop.

Lemma obj_eq_unfold sc c ra s u g c' rb s' u' g' :
  obj_eq sc (Obj c ra s u g) (Obj c' rb s' u' g') = Nat.eqb c c' && eq_loop sc ra rb (cfields (get_class sc c)).
Proof. reflexivity. Qed.

Definition lazy_cond (sc : schema) (sel : option bool) (f : fdesc) (x : pv) : bool :=
  match x, fhint f, sel with
  | PMsg o', HPlain _, None => osow o' || is_default sc f x
  | _, _, _ => true
  end.

Section LazyLoop.
  Variable sc : schema.
  Variable cur : list (option nat).
  Fixpoint lazy_loop (i : nat) (raw : list pv) (fs : list fdesc) {struct raw} : bool :=
    match raw, fs with
    | x :: raw', f :: fs' => lazy_cond sc (group_selects cur f i) f x && lazy_loop (S i) raw' fs'
    | _, _ => true
    end.
End LazyLoop.

Lemma local_no_lazy_unfold sc c raw s u g :
  local_no_lazy sc (Obj c raw s u g) = lazy_loop sc g O raw (cfields (get_class sc c)).
Proof. reflexivity. Qed.

(* ---------------------------------------------------------------------------------- *)
(* defaults                                                                            *)
(* ---------------------------------------------------------------------------------- *)
Lemma opt_is_optional sc ng f : wf_field sc ng f = true -> fopt f = true -> exists p, fhint f = HOptional p.
Proof.
  intros W O. unfold wf_field in W. apply andb_prop in W as [_ Wh]. rewrite O in Wh.
  destruct (fhint f) as [p|p|p|pk p]; [| eexists; reflexivity | |].
  - apply andb_true5 in Wh as [Wop _]. discriminate Wop.
  - apply andb_prop in Wh as [Wh _]. apply andb_prop in Wh as [Wh _]. apply andb_prop in Wh as [Wh _].
    apply andb_prop in Wh as [Wh _]. apply andb_prop in Wh as [Wh _]. discriminate Wh.
  - apply andb_prop in Wh as [Wh _]. apply andb_prop in Wh as [Wh _]. apply andb_prop in Wh as [Wh _].
    apply andb_prop in Wh as [Wh _]. apply andb_prop in Wh as [Wh _]. discriminate Wh.
Qed.

Lemma new_is_default_loop sc ng fs :
  forallb (wf_field sc ng) fs = true ->
  (fix go (raw : list pv) (fs : list fdesc) {struct raw} : bool :=
     match raw, fs with
     | x :: raw', f' :: fs' => (match x with PPlaceholder => true | _ => is_default sc f' x end) && go raw' fs'
     | _, _ => true
     end) (map (fun f => if fopt f then PNone else PPlaceholder) fs) fs = true.
Proof.
  induction fs as [|f fs IH]; intros W; [reflexivity|]. cbn [forallb] in W. apply andb_prop in W as [W1 W2].
  cbn [map]. rewrite (IH W2), andb_true_r. destruct (fopt f) eqn:O; [|reflexivity].
  destruct (opt_is_optional sc ng f W1 O) as [p Hp]. cbn [is_default]. rewrite Hp. reflexivity.
Qed.

Lemma is_default_default sc ng f : wf_schema sc = true -> wf_field sc ng f = true -> is_default sc f (default_of sc f) = true.
Proof.
  intros WS W. unfold default_of. destruct f as [name num t mp grp wr op hint ent]. cbn [fhint].
  destruct hint as [p|p|p|pk p]; try reflexivity.
  destruct p; try reflexivity.
  unfold new. cbn [is_default fhint]. rewrite Nat.eqb_refl. cbn [andb].
  exact (new_is_default_loop sc _ _ (wf_fields sc c WS)).
Qed.

Lemma default_emission_empty sc ng f :
  wf_schema sc = true -> wf_field sc ng f = true -> fgroup f = None -> fopt f = false ->
  match default_of sc f with PNone => Ok [] | d => emit_field (fun _ => Ok []) sc f None d end = Ok [].
Proof.
  intros WS W G O.
  assert (E : emit_field (fun _ => Ok []) sc f None (default_of sc f) = Ok []).
  { unfold emit_field. rewrite (is_default_default sc ng f WS W), G, O. cbn [is_some orb].
    assert (S : match default_of sc f with PMsg o => osow o | _ => false end = false).
    { unfold default_of. destruct (fhint f) as [p|p|p|pk p]; try reflexivity. destruct p; reflexivity. }
    rewrite S. reflexivity. }
  destruct (default_of sc f); try exact E. reflexivity.
Qed.

(* ---------------------------------------------------------------------------------- *)
(* a field that to_dict leaves out holds its default                                    *)
(* ---------------------------------------------------------------------------------- *)
Lemma not_emitted_facts sc ng f sel x :
  wf_field sc ng f = true ->
  (fgroup f = None -> sel = None) -> (forall g, fgroup f = Some g -> exists s, sel = Some s) -> sel <> Some false ->
  x <> PPlaceholder -> x <> PNone -> value_ok sc f x = true -> lazy_cond sc sel f x = true ->
  emitted sc f sel x = false ->
  is_default sc f x = true /\ fopt f = false /\ sel = None /\ fgroup f = None /\
  match x with PMsg o => osow o = false | _ => True end.
Proof.
  intros W Hs1 Hs2 Hs3 Hx Hxn Hv Hl He.
  assert (Gn : fgroup f = None).
  { destruct (fgroup f) as [g|] eqn:G; [|reflexivity]. destruct (Hs2 g eq_refl) as [s ->].
    destruct s; [|congruence]. rewrite (selected_emitted sc ng f g x W G Hx Hv) in He. discriminate He. }
  pose proof (Hs1 Gn) as ->. clear Hs1 Hs2 Hs3.
  destruct f as [name num t mp grp wr op hint ent].
  unfold wf_field in W. cbn [fnum fgroup fhint fopt fwraps fmap fty] in W, Gn. subst grp.
  apply andb_prop in W as [_ Wh].
  unfold value_ok in Hv. cbn [fhint fty fwraps fmap] in Hv.
  unfold emitted, field_to_json, emit in He. cbn [fty fwraps fhint fmap fopt hint_elem orb] in He.
  unfold lazy_cond in Hl. cbn [fhint] in Hl.
  cbn [fopt fgroup].
  destruct hint as [p|p|p|pk p]; cbn [hint_elem fhint] in He.
  - apply andb_true5 in Wh as [Wop [Wwr [Wmp [Wt Wp]]]].
    apply negb_true in Wop. apply is_some'_false in Wwr. apply is_some'_false in Wmp. subst op wr mp.
    assert (Hr : elem_in_range sc t p x = true) by (destruct x; try discriminate Hv; try congruence; exact Hv).
    destruct (scalar_py p) eqn:Sp.
    + pose proof (fits_scalar _ _ _ _ Sp Wp) as Ht. destruct (scalar_not_message t Ht) as [Nm Np].
      rewrite Nm, Np in He. rewrite (elem_scalar _ _ _ _ Sp) in Hr.
      destruct (is_default sc _ x) eqn:D.
      * repeat split; try reflexivity. destruct x; try exact I. destruct t; discriminate Hr.
      * cbn [negb orb] in He. destruct x; try discriminate Hr; try congruence; discriminate He.
    + pose proof (fits_message _ _ _ _ Sp Wp) as ->. change (ptype_eqb TMessage TMessage) with true in He. cbv iota in He.
      destruct p; try discriminate Sp; destruct x; try discriminate Hr; cbn [elem_in_range] in Hr.
      * destruct o as [c' r s u g]. cbn [osow] in *. destruct s; [discriminate He|]. cbn [orb] in Hl.
        repeat split; try reflexivity. exact Hl.
      * rewrite !orb_false_r in He. destruct (us =? 0) eqn:E; [|discriminate He]. repeat split; try reflexivity.
        cbn [is_default fhint]. exact E.
      * rewrite !orb_false_r in He. destruct (us =? 0) eqn:E; [|discriminate He]. repeat split; try reflexivity.
        cbn [is_default fhint]. exact E.
  - exfalso. destruct wr as [w|].
    + apply andb_prop in Wh as [_ Wrest]. apply andb_prop in Wrest as [Wrest Wfit]. apply andb_prop in Wrest as [Wrest Wcls].
      apply andb_prop in Wrest as [_ Wt]. apply ptype_eqb_eq in Wt. subst t.
      destruct (wrapper_value_type w) as [vt|] eqn:Ev; [|discriminate Wfit].
      pose proof (wrapper_same w vt Ev) as Evt. subst vt.
      pose proof (fits_scalar_py _ _ _ _ (wrapper_scalar w Wcls) Wfit) as Sp.
      change (ptype_eqb TMessage TMessage) with true in He. cbv iota in He.
      rewrite (elem_scalar _ _ _ _ Sp) in Hv.
      destruct x; try congruence; try discriminate He; destruct w; discriminate Hv.
    + apply andb_prop in Wh as [_ Wrest]. apply andb_prop in Wrest as [Wrest Wp]. apply andb_prop in Wrest as [Wop Wt]. subst op.
      destruct (scalar_py p) eqn:Sp.
      * pose proof (fits_scalar _ _ _ _ Sp Wp) as Ht. destruct (scalar_not_message t Ht) as [Nm Np].
        rewrite Nm, Np in He. rewrite (elem_scalar _ _ _ _ Sp) in Hv.
        destruct x; try congruence; cbn [is_default fhint negb orb] in He; try discriminate He; destruct t; discriminate Hv.
      * pose proof (fits_message _ _ _ _ Sp Wp) as ->. change (ptype_eqb TMessage TMessage) with true in He. cbv iota in He.
        destruct x; try congruence; try discriminate He; try (destruct p; discriminate Hv).
        all: rewrite ?orb_true_r in He; discriminate He.
  - apply andb_prop in Wh as [Wh Wp]. apply andb_prop in Wh as [Wh Wt]. apply andb_prop in Wh as [Wh Wgrp].
    apply andb_prop in Wh as [Wh Wmp]. apply andb_prop in Wh as [Wop Wwr].
    apply negb_true in Wop. apply is_some'_false in Wwr. subst op wr.
    destruct x as [| | | | | | | | |l| |]; try discriminate Hv; try congruence.
    assert (l = []) as ->.
    { destruct l as [|y l]; [reflexivity|]. exfalso.
      destruct (ptype_eqb t TMessage); [discriminate He|]. rewrite (negb_true _ Wt) in He. discriminate He. }
    repeat split; reflexivity.
  - apply andb_prop in Wh as [Wh _]. apply andb_prop in Wh as [Wh Wmap]. apply andb_prop in Wh as [Wh Wt].
    apply andb_prop in Wh as [Wh _]. apply andb_prop in Wh as [Wop _]. apply negb_true in Wop. subst op.
    apply ptype_eqb_eq in Wt. subst t. destruct mp as [[kt vt]|]; [|discriminate Wmap].
    destruct x as [| | | | | | | | | |d|]; try discriminate Hv; try congruence.
    assert (d = []) as -> by (destruct d; [reflexivity|discriminate He]).
    repeat split; reflexivity.
Qed.

Lemma pv_eq_dec_none x : x = PNone \/ x <> PNone.
Proof. destruct x; try (right; discriminate). left; reflexivity. Qed.
