(* C04 (include_default_values generic, wfx schemas), object level (B), part 1: the _group_current that __post_init__
   derives for the rebuilt message selects exactly the members the original selects.  Mirrors C04CurP. *)
From BP Require Import Base.Prelude Model.Types Model.Float Model.Utf8 Model.Object Model.Eq Model.TimeCore.
From BP Require Import Model.Encode Model.WellFormed Model.Json Model.C04RepWrap.
From BP Require Import gen.Tables Proofs.BytesP Proofs.C04Def Proofs.C04ScalarP Proofs.C04ElemP Proofs.C04FieldP Proofs.C04ObjP Proofs.C04CurP
  Proofs.C04InclDef Proofs.C04InclBaseP Proofs.C04InclFieldP Proofs.C04InclObjP.
From Coq Require Import Lia ZifyBool.

Lemma gnorm_raw_cons sc incl cur i x raw f fs :
  gnorm_raw sc incl cur i (x :: raw) (f :: fs)
  = or_sentinel f (gfield sc incl (group_selects cur f i) f x) :: gnorm_raw sc incl cur (S i) raw fs.
Proof. reflexivity. Qed.

Lemma nth_gnorm_raw sc incl cur : forall raw fs i k x f,
  nth_error raw k = Some x -> nth_error fs k = Some f ->
  nth_error (gnorm_raw sc incl cur i raw fs) k = Some (or_sentinel f (gfield sc incl (group_selects cur f (i + k)) f x)).
Proof.
  induction raw as [|y raw IH]; intros fs i k x f Hx Hf; [destruct k; discriminate Hx|].
  destruct fs as [|g fs]; [destruct k; discriminate Hf|]. rewrite gnorm_raw_cons.
  destruct k as [|k]; cbn [nth_error] in *.
  - inversion Hx; inversion Hf; subst. rewrite Nat.add_0_r. reflexivity.
  - rewrite (IH fs (S i) k x f Hx Hf). f_equal. f_equal. f_equal. f_equal. lia.
Qed.

Lemma gnorm_raw_length sc incl cur : forall raw fs i, length raw = length fs -> length (gnorm_raw sc incl cur i raw fs) = length fs.
Proof.
  induction raw as [|y raw IH]; intros fs i H; destruct fs as [|g fs]; try discriminate H; [reflexivity|].
  rewrite gnorm_raw_cons. cbn [length]. f_equal. apply IH. cbn in H. lia.
Qed.

(* the selected member of a oneof is always emitted *)
Lemma selected_emittedG sc ng incl f g x :
  wfx_field sc ng f = true -> fgroup f = Some g -> x <> PPlaceholder -> value_okx sc f x = true ->
  emittedG sc incl f (Some true) x = true /\ x <> PNone.
Proof.
  intros W G Hx Hv. destruct (wfx_group_plain sc ng f g W G) as [_ [Hop [Hw [Hm [p [Hp Hfit]]]]]].
  unfold value_okx in Hv. rewrite Hp in Hv.
  split; [|intros ->; discriminate Hv].
  unfold emittedG, field_to_json, emit. rewrite Hp, Hop, Hw. rewrite !orb_true_r.
  destruct (ptype_eqb (fty f) TMessage).
  { destruct x; try congruence; try discriminate Hv; rewrite ?orb_true_r; cbn [orb]; reflexivity. }
  destruct (ptype_eqb (fty f) TMap).
  { destruct x, (fmap f) as [[? ?]|]; reflexivity. }
  destruct x; reflexivity.
Qed.

Lemma gfield_selected sc ng incl f g x :
  wfx_field sc ng f = true -> fgroup f = Some g -> x <> PPlaceholder -> value_okx sc f x = true ->
  gfield sc incl (Some true) f x = Some (gnorm_pv incl sc x).
Proof.
  intros W G Hx Hv. destruct (selected_emittedG sc ng incl f g x W G Hx Hv) as [E N].
  rewrite (gfield_value sc incl (Some true) f x ltac:(discriminate) Hx). rewrite E. destruct x; try congruence; reflexivity.
Qed.

Lemma sentinel_groupG sc ng f g : wfx_field sc ng f = true -> fgroup f = Some g -> sentinel f = PPlaceholder.
Proof. intros Wf G. destruct (wfx_group_plain sc ng f g Wf G) as [_ [O _]]. unfold sentinel. rewrite O. reflexivity. Qed.

(* an assigning position of the rebuilt attributes is a selected member of the original *)
Lemma gnorm_assigner_selected sc incl cur ng raw fs g k :
  forallb (wfx_field sc ng) fs = true -> length raw = length fs ->
  assigns fs (gnorm_raw sc incl cur O raw fs) g k -> nth g cur None = Some k.
Proof.
  intros W Hl [f [v [A1 [A2 [A3 A4]]]]].
  assert (exists x, nth_error raw k = Some x) as [x Hx].
  { destruct (nth_error raw k) eqn:E; [eauto|]. apply nth_error_None in E.
    assert (k < length fs)%nat by (apply nth_error_Some; congruence). lia. }
  rewrite (nth_gnorm_raw sc incl cur raw fs O k x f Hx A1) in A2. inversion A2; subst v; clear A2. cbn [Nat.add] in A4.
  pose proof (forallb_at _ _ _ _ W A1) as Wf.
  rewrite (group_selects_some cur f k g A3) in A4.
  destruct (opt_nat_eqb (nth g cur None) (Some k)) eqn:E.
  - apply opt_nat_eqb_true in E. exact E.
  - rewrite gfield_false in A4. cbn [or_sentinel] in A4. rewrite (sentinel_groupG sc ng f g Wf A3) in A4. discriminate A4.
Qed.

(* (G) the rebuilt object selects what the original selects *)
Lemma group_selects_gnorm sc incl c cur raw :
  let fs := cfields (get_class sc c) in
  let ng := cngroups (get_class sc c) in
  forallb (wfx_field sc ng) fs = true -> length cur = ng -> length raw = length fs ->
  oneof_loop cur O raw fs = true -> fields_okx sc raw fs = true ->
  forall k f, nth_error fs k = Some f ->
    group_selects (cur_loop O fs (gnorm_raw sc incl cur O raw fs) (repeat None ng)) f k = group_selects cur f k.
Proof.
  intros fs ng W Lc Hl On Fo k f Hf.
  destruct (fgroup f) as [g|] eqn:G; [|unfold group_selects; rewrite G; reflexivity].
  rewrite !(group_selects_some _ f k g G). f_equal.
  pose proof (forallb_at _ _ _ _ W Hf) as Wf.
  destruct (wfx_group_plain sc ng f g Wf G) as [Lg [Hop _]].
  set (nr := gnorm_raw sc incl cur O raw fs).
  destruct (opt_nat_eqb (nth g cur None) (Some k)) eqn:E.
  - apply opt_nat_eqb_true in E.
    assert (exists x, nth_error raw k = Some x) as [x Hx].
    { destruct (nth_error raw k) eqn:E'; [eauto|]. apply nth_error_None in E'.
      assert (k < length fs)%nat by (apply nth_error_Some; congruence). lia. }
    pose proof (oneof_at cur raw fs O k x f On Hx Hf) as O1. cbn [Nat.add] in O1.
    rewrite (group_selects_some cur f k g G), E in O1. cbn [opt_nat_eqb] in O1. rewrite Nat.eqb_refl in O1.
    assert (Hxp : x <> PPlaceholder) by (intros ->; discriminate O1).
    assert (A : assigns fs nr g k).
    { exists f, (gnorm_pv incl sc x). split; [exact Hf|]. split.
      - unfold nr. rewrite (nth_gnorm_raw sc incl cur raw fs O k x f Hx Hf). cbn [Nat.add].
        rewrite (group_selects_some cur f k g G), E. cbn [opt_nat_eqb]. rewrite Nat.eqb_refl.
        rewrite (gfield_selected sc ng incl f g x Wf G Hxp (fields_okx_at sc raw fs k x f Fo Hx Hf)). reflexivity.
      - split; [exact G|].
        pose proof (gnorm_not_ph incl sc x Hxp) as N. unfold is_sentinel. rewrite Hop.
        destruct (gnorm_pv incl sc x); try reflexivity. congruence. }
    destruct (cur_loop_assigned fs O nr (repeat None ng) g k ltac:(rewrite repeat_length; exact Lg) A) as [k' [A' E']].
    rewrite E'. cbn [Nat.add].
    pose proof (gnorm_assigner_selected sc incl cur ng raw fs g k' W Hl A') as S. rewrite E in S. inversion S; subst k'.
    cbn [opt_nat_eqb]. apply Nat.eqb_refl.
  - destruct (cur_loop_char fs O nr (repeat None ng) g) as [E'|[k' [A' E']]]; rewrite E'.
    + rewrite nth_repeat_none. reflexivity.
    + cbn [Nat.add]. pose proof (gnorm_assigner_selected sc incl cur ng raw fs g k' W Hl A') as S.
      cbn [opt_nat_eqb]. destruct (Nat.eqb k' k) eqn:Ek; [|reflexivity]. apply Nat.eqb_eq in Ek. subst k'.
      rewrite S in E. cbn [opt_nat_eqb] in E. rewrite Nat.eqb_refl in E. discriminate E.
Qed.
