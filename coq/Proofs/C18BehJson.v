(* C18 behavioural part, JSON: to_dict / to_json of corresponding states of the plain and the pydantic class.
   The model prints an ill-typed attribute as [JPy v] (json.dumps raises on it); the two states differ in exactly such
   payloads when a message sits where the codec does not expect one, so the theorem about to_dict is stated up to the
   payload of [JPy] ([jsim]); to_json (= dumps, an error as soon as a [JPy] occurs) is then EQUAL for all inputs, and
   to_dict is equal whenever it can be dumped. *)
From Coq Require Import ZArith List Bool Lia Arith.
From BP Require Import Base.Prelude Model.Types Model.Object Model.Eq Model.WellFormed Model.Json.
From BP Require Import Spec.Time gen.Tables.
From BP Require Import Model.C18Beh Proofs.C01Unfold Proofs.C06EncP Proofs.C14Ind Proofs.C18BehBase Proofs.C07JsonP.
Import ListNotations.

(* ---------------- equal up to the payload of JPy ---------------- *)
Fixpoint jsim (a b : json) {struct a} : Prop :=
  match a with
  | JPy _ => match b with JPy _ => True | _ => False end
  | JList l => exists l', b = JList l' /\ list_rel jsim l l'
  | JObj d => exists d', b = JObj d' /\
                list_rel (fun kx ky => let '(k, x) := kx in let '(k', y) := ky in k' = k /\ jsim x y) d d'
  | _ => b = a
  end.

Definition osim (a b : option json) : Prop :=
  match a, b with Some x, Some y => jsim x y | None, None => True | _, _ => False end.

Section JsonInd.
  Variable P : json -> Prop.
  Hypothesis H0 : P JNull.
  Hypothesis H1 : forall b, P (JBool b).
  Hypothesis H2 : forall z, P (JInt z).
  Hypothesis H3 : forall z, P (JFloat z).
  Hypothesis H4 : forall s, P (JStr s).
  Hypothesis H5 : forall l, Forall P l -> P (JList l).
  Hypothesis H6 : forall d, Forall (fun kx => P (snd kx)) d -> P (JObj d).
  Hypothesis H7 : forall v, P (JPy v).
  Fixpoint json_induction (j : json) : P j :=
    match j with
    | JNull => H0 | JBool b => H1 b | JInt z => H2 z | JFloat z => H3 z | JStr s => H4 s | JPy v => H7 v
    | JList l => H5 l ((fix go (l : list json) : Forall P l :=
                         match l with [] => Forall_nil _ | x :: r => Forall_cons x (json_induction x) (go r) end) l)
    | JObj d => H6 d ((fix go (d : list (json * json)) : Forall (fun kx => P (snd kx)) d :=
                         match d with
                         | [] => Forall_nil _
                         | kx :: r => Forall_cons kx (let (k, x) as p return P (snd p) := kx in json_induction x) (go r)
                         end) d)
    end.
End JsonInd.

Lemma jsim_refl : forall a, jsim a a.
Proof.
  induction a using json_induction; cbn [jsim]; try reflexivity; try exact I.
  - eexists. split; [reflexivity|]. induction H as [|x l Hx Hl IH]; cbn [list_rel]; auto.
  - eexists. split; [reflexivity|]. induction H as [|[k x] d Hx Hd IH]; cbn [list_rel]; auto.
Qed.

Lemma dumpsable_sim : forall a b, jsim a b -> dumpsable b = dumpsable a.
Proof.
  induction a using json_induction; intros b' S; cbn [jsim] in S; try (subst b'; reflexivity).
  - destruct S as (l' & -> & S). cbn [dumpsable]. revert l' S.
    induction H as [|x l Hx Hl IH]; intros [|y l'] S; cbn [list_rel] in S; try contradiction; [reflexivity|].
    destruct S as [Sx S]. cbn [forallb]. rewrite (Hx _ Sx), (IH _ S). reflexivity.
  - destruct S as (d' & -> & S). cbn [dumpsable]. revert d' S.
    induction H as [|[k x] d Hx Hd IH]; intros [|[k' y] d'] S; cbn [list_rel] in S; try contradiction; [reflexivity|].
    destruct S as [[-> Sx] S]. cbn [forallb]. cbn [snd] in Hx. rewrite (Hx _ Sx), (IH _ S). reflexivity.
  - destruct b'; try contradiction. reflexivity.
Qed.

Lemma jsim_dumpsable_eq : forall a b, jsim a b -> dumpsable a = true -> b = a.
Proof.
  induction a using json_induction; intros b' S D; cbn [jsim] in S; try exact S.
  - destruct S as (l' & -> & S). f_equal. cbn [dumpsable] in D. revert l' S D.
    induction H as [|x l Hx Hl IH]; intros [|y l'] S D; cbn [list_rel] in S; try contradiction; [reflexivity|].
    destruct S as [Sx S]. cbn [forallb] in D. apply andb_true_iff in D as [Dx D]. f_equal; auto.
  - destruct S as (d' & -> & S). f_equal. cbn [dumpsable] in D. revert d' S D.
    induction H as [|[k x] d Hx Hd IH]; intros [|[k' y] d'] S D; cbn [list_rel] in S; try contradiction; [reflexivity|].
    destruct S as [[-> Sx] S]. cbn [forallb] in D. apply andb_true_iff in D as [Dx D]. cbn [snd] in Hx.
    f_equal; [|auto]. f_equal. apply Hx; [exact Sx|]. destruct k; try discriminate; exact Dx.
  - discriminate.
Qed.

(* ---------------- output[key] = value ---------------- *)
Definition items_rel (a b : list (list byte * json)) : Prop :=
  list_rel (fun x y => fst y = fst x /\ jsim (snd x) (snd y)) a b.
Definition dict_rel (d d' : list (json * json)) : Prop :=
  list_rel (fun kx ky => let '(k, x) := kx in let '(k', y) := ky in k' = k /\ jsim x y) d d'.

Lemma jset_sim k v v' : jsim v v' -> forall d d', dict_rel d d' -> dict_rel (jset k v d) (jset k v' d').
Proof.
  intros Sv. induction d as [|[k0 x] d IH]; intros [|[k0' y] d'] S; cbn [dict_rel list_rel] in S; try contradiction.
  - cbn [jset dict_rel list_rel]. auto.
  - destruct S as [[-> Sx] S]. cbn [jset]. unfold dict_rel in *.
    destruct k0; try (cbn [list_rel]; split; [split; [reflexivity | exact Sx] | apply IH; exact S]).
    destruct (bytes_eqb k s); cbn [list_rel]; auto.
Qed.

Lemma dict_norm_sim items items' : items_rel items items' -> jsim (JObj (dict_norm items)) (JObj (dict_norm items')).
Proof.
  intros S. cbn [jsim]. eexists. split; [reflexivity|]. unfold dict_norm. fold (dict_rel).
  assert (G : forall d d', dict_rel d d' ->
            dict_rel (fold_left (fun d kv => jset (fst kv) (snd kv) d) items d)
                     (fold_left (fun d kv => jset (fst kv) (snd kv) d) items' d')).
  { revert items' S. induction items as [|[k v] items IH]; intros [|[k' v'] items'] S d d' Sd; cbn [items_rel list_rel] in S; try contradiction.
    - exact Sd.
    - destruct S as [[Hk Sv] S]. cbn [fst snd] in Hk, Sv. subst k'. cbn [fold_left fst snd]. apply IH; [exact S|].
      apply jset_sim; assumption. }
  apply G. exact I.
Qed.

Lemma items_rel_app a a' b b' : items_rel a a' -> items_rel b b' -> items_rel (a ++ b) (a' ++ b').
Proof.
  unfold items_rel. revert a'. induction a as [|x a IH]; intros [|y a'] Sa Sb; cbn [list_rel] in Sa; try contradiction; [exact Sb|].
  destruct Sa as [Sx Sa]. cbn [app list_rel]. auto.
Qed.

(* ---------------- field_to_json in terms of what it reads from the field ---------------- *)
Definition hl (f : fdesc) : option pyty := match fhint f with HList p => Some p | _ => None end.
Definition hd' (f : fdesc) : option pyty := match fhint f with HDict _ p => Some p | _ => None end.

Definition ftj (rec : obj -> json) (sc : schema) (incl : bool) (ty : ptype) (opt : bool) (wr : option ptype)
           (mp : option (ptype * ptype)) (l d : option pyty) (he : pyty) (isdef : bool) (sel : option bool) (v : pv) : option json :=
  let inc := incl || match sel with Some true => true | _ => false end in
  if ptype_eqb ty TMessage then
    match v with
    | PDatetime us => emit (negb (us =? 0) || inc || opt) (JStr (ts_text us))
    | PTimedelta us => emit (negb (us =? 0) || inc || opt) (JStr (Model.Time.delta_to_json us))
    | _ =>
        match wr with
        | Some w =>
            match v with
            | PNone => emit incl JNull
            | _ => match l with
                   | Some p => match v with PList li => Some (JList (map (scalar_to_json sc w p) li)) | _ => Some (JPy v) end
                   | None => Some (scalar_to_json sc w he v)
                   end
            end
        | None =>
            match l with
            | Some p => match v with
                        | PList li => emit (negb (is_nil li) || incl) (JList (map (elem_to_json rec sc TMessage p) li))
                        | _ => Some (JPy v)
                        end
            | None => match v with
                      | PNone => emit incl JNull
                      | PMsg o => emit (osow o || inc || opt) (rec o)
                      | _ => Some (JPy v)
                      end
            end
        end
    end
  else if ptype_eqb ty TMap then
    match v, mp, d with
    | PDict di, Some (_, vt), Some pv' =>
        emit (negb (is_nil di) || incl)
             (JObj (map (fun kx => let '(k, x) := kx in (raw_json k, elem_to_json rec sc vt pv' x)) di))
    | _, _, _ => Some (JPy v)
    end
  else if negb isdef || inc then
    match l with
    | Some p => match v with PList li => Some (JList (map (scalar_to_json sc ty p) li)) | _ => Some (JPy v) end
    | None => match v with PNone => Some JNull | _ => Some (scalar_to_json sc ty he v) end
    end
  else None.

Lemma ftj_eq rec sc incl f sel v :
  field_to_json rec sc incl f sel v =
  ftj rec sc incl (fty f) (fopt f) (fwraps f) (fmap f) (hl f) (hd' f) (Json.hint_elem f) (is_default sc f v) sel v.
Proof.
  unfold field_to_json, ftj, hl, hd', Json.hint_elem.
  destruct (fhint f); destruct v; try reflexivity; destruct (fmap f) as [[? ?]|]; reflexivity.
Qed.

Section Json.
  Variable sc : schema.
  Hypothesis M : forall c, Forall mem_ok (cfields (get_class sc c)).
  (* a message-typed plain hint only on a message-typed field (wf_field: pyty_fits) *)
  Hypothesis T : forall c f k, In f (cfields (get_class sc c)) -> fhint f = HPlain (PyMsg k) -> fty f = TMessage.
  Let sc' := pyd_schema sc.

  Lemma raw_json_sim : forall v v', vrel sc v v' -> jsim (raw_json v) (raw_json v').
  Proof.
    induction v using pv_induction; intros v' R; cbn [vrel] in R; try (subst v'; apply jsim_refl).
    - destruct R as (lb & -> & R). cbn [raw_json jsim]. eexists. split; [reflexivity|]. revert lb R.
      induction H as [|x l Hx Hl IH]; intros [|y lb] R; cbn [list_rel] in R; try contradiction; cbn [map list_rel]; [exact I|].
      destruct R as [Rx R]. auto.
    - destruct R as (db & -> & R). cbn [raw_json jsim]. eexists. split; [reflexivity|]. revert db R.
      induction H as [|[k x] d [_ Hx] Hd IH]; intros [|[k' y] db] R; cbn [list_rel] in R; try contradiction; cbn [map list_rel]; [exact I|].
      destruct R as [(-> & _ & Rx) R]. cbn [snd] in Hx. auto.
    - destruct R as (rb & -> & R). exact I.
  Qed.

  Lemma scalar_to_json_sc t p v : scalar_to_json sc' t p v = scalar_to_json sc t p v.
  Proof. reflexivity. Qed.

  Lemma scalar_to_json_sim t p v v' : vrel sc v v' -> jsim (scalar_to_json sc t p v) (scalar_to_json sc' t p v').
  Proof.
    intros R. rewrite scalar_to_json_sc. destruct (scalar_pv v) eqn:S.
    - rewrite (vrel_scalar _ _ _ S R). apply jsim_refl.
    - pose proof (raw_json_sim _ _ R) as J. unfold scalar_to_json.
      destruct v; try discriminate; cbn [vrel] in R.
      + destruct R as (? & -> & _). destruct (tmem t INT_64_TYPES); [exact I|]. destruct (ptype_eqb t TBytes); [exact I|].
        destruct (ptype_eqb t TEnum); [exact J|]. destruct (tmem t [TFloat; TDouble]); exact J.
      + destruct R as (? & -> & _). destruct (tmem t INT_64_TYPES); [exact I|]. destruct (ptype_eqb t TBytes); [exact I|].
        destruct (ptype_eqb t TEnum); [exact J|]. destruct (tmem t [TFloat; TDouble]); exact J.
      + destruct o. destruct R as (? & -> & _). destruct (tmem t INT_64_TYPES); [exact I|]. destruct (ptype_eqb t TBytes); [exact I|].
        destruct (ptype_eqb t TEnum); [exact J|]. destruct (tmem t [TFloat; TDouble]); exact J.
  Qed.

  Section WithRec.
    Variables rec rec' : obj -> json.

    Definition RA (x y : pv) : Prop := forall o o', x = PMsg o -> y = PMsg o' -> jsim (rec o) (rec' o').
    Definition JR (x y : pv) : Prop := vrel sc x y /\ RA x y.

    Lemma elem_to_json_sim t p x y : JR x y -> jsim (elem_to_json rec sc t p x) (elem_to_json rec' sc' t p y).
    Proof.
      intros [R A]. destruct x; cbn [vrel] in R; try (subst y; unfold elem_to_json; first [apply jsim_refl | apply scalar_to_json_sim; reflexivity]).
      - pose proof R as R0. destruct R as (? & -> & _). unfold elem_to_json. apply scalar_to_json_sim. exact R0.
      - pose proof R as R0. destruct R as (? & -> & _). unfold elem_to_json. apply scalar_to_json_sim. exact R0.
      - destruct o. destruct R as (? & -> & _). unfold elem_to_json. apply A; reflexivity.
    Qed.

    Definition JA (v v' : pv) : Prop :=
      match v, v' with
      | PList l, PList l' => list_rel JR l l'
      | PDict d, PDict d' => list_rel (fun kx ky => fst ky = fst kx /\ JR (snd kx) (snd ky)) d d'
      | _, _ => RA v v'
      end.

    Lemma map_list_sim (g g' : pv -> json) l l' :
      (forall x y, vrel sc x y -> jsim (g x) (g' y)) -> list_rel (vrel sc) l l' -> list_rel jsim (map g l) (map g' l').
    Proof.
      intros G. revert l'. induction l as [|x l IH]; intros [|y l'] R; cbn [list_rel] in R; try contradiction; cbn [map list_rel]; [exact I|].
      destruct R as [Rx R]. auto.
    Qed.

    Lemma is_nil_rel {A B} (r : A -> B -> Prop) l l' : list_rel r l l' -> is_nil l' = is_nil l.
    Proof. destruct l, l'; cbn [list_rel]; intros H; try contradiction; reflexivity. Qed.

    Lemma ftj_sim incl ty opt opt' wr mp l d he isdef isdef' sel v v' :
      vrel sc v v' -> JA v v' ->
      (incl || match sel with Some true => true | _ => false end = true \/
       (opt' = opt /\ (ptype_eqb ty TMessage = true \/ isdef' = isdef))) ->
      osim (ftj rec sc incl ty opt wr mp l d he isdef sel v) (ftj rec' sc' incl ty opt' wr mp l d he isdef' sel v').
    Proof.
      intros R A C. unfold ftj.
      assert (Cb : forall b, b || (incl || match sel with Some true => true | _ => false end) || opt'
                         = b || (incl || match sel with Some true => true | _ => false end) || opt).
      { intros b. destruct C as [-> | [-> _]]; [rewrite !orb_true_r; reflexivity | reflexivity]. }
      assert (Cd : ptype_eqb ty TMessage = false ->
                   negb isdef' || (incl || match sel with Some true => true | _ => false end)
                 = negb isdef || (incl || match sel with Some true => true | _ => false end)).
      { intros Et. destruct C as [-> | [_ [C | ->]]]; [rewrite !orb_true_r; reflexivity | congruence | reflexivity]. }
      set (inc := incl || match sel with Some true => true | _ => false end) in *.
      assert (Rl : forall li lb, list_rel (JR) li lb -> list_rel (vrel sc) li lb).
      { induction li as [|x li IH]; intros [|y lb] A0; cbn [list_rel] in *; try contradiction; [exact I|].
        destruct A0 as [[Rx _] A0]. auto. }
      destruct (ptype_eqb ty TMessage) eqn:Et.
      - (* message-typed field *)
        destruct v as [| |z|b|b|s|s|z|z|li|di|o]; cbn [vrel] in R.
        1-9: subst v'; rewrite ?Cb; destruct wr; try destruct l; unfold emit;
          repeat match goal with |- context [if ?c then _ else _] => destruct c end;
          cbn [osim]; first [exact I | apply jsim_refl | apply scalar_to_json_sim; reflexivity].
        + pose proof R as R0. destruct R as (lb & -> & R). cbn [JA] in A. destruct wr as [w|].
          * destruct l as [p|]; cbn [osim].
            -- cbn [jsim]. eexists. split; [reflexivity|]. apply map_list_sim; [intros; apply scalar_to_json_sim; assumption | apply Rl; exact A].
            -- apply scalar_to_json_sim. exact R0.
          * destruct l as [p|]; [|exact I]. rewrite (is_nil_rel _ _ _ R). unfold emit. destruct (negb (is_nil li) || incl); [|exact I].
            cbn [osim jsim]. eexists. split; [reflexivity|]. clear - A. revert lb A.
            induction li as [|x li IH]; intros [|y lb] A; cbn [list_rel] in *; try contradiction; cbn [map list_rel]; [exact I|].
            destruct A as [Jx A]. split; [apply elem_to_json_sim; exact Jx | auto].
        + pose proof R as R0. destruct R as (db & -> & R). destruct wr as [w|].
          * destruct l as [p|]; cbn [osim]; [exact I | apply scalar_to_json_sim; exact R0].
          * destruct l as [p|]; exact I.
        + pose proof R as R0. destruct o as [c ra so u g]. destruct R as (rb & -> & R). cbn [JA] in A. destruct wr as [w|].
          * destruct l as [p|]; cbn [osim]; [exact I | apply scalar_to_json_sim; exact R0].
          * destruct l as [p|]; [exact I|]. cbn [osow]. rewrite Cb. unfold emit. destruct (so || inc || opt); [|exact I].
            cbn [osim]. apply A; reflexivity.
      - rewrite (Cd eq_refl). destruct (ptype_eqb ty TMap).
        + (* map field *)
          destruct v as [| |z|b|b|s|s|z|z|li|di|o]; cbn [vrel] in R.
          1-9: subst v'; cbn [osim]; exact I.
          * destruct R as (lb & -> & R). exact I.
          * destruct R as (db & -> & R). cbn [JA] in A. destruct mp as [[kt vt]|]; [|exact I]. destruct d as [pv'|]; [|exact I].
            rewrite (is_nil_rel _ _ _ R). unfold emit. destruct (negb (is_nil di) || incl); [|exact I].
            cbn [osim jsim]. eexists. split; [reflexivity|]. clear - A. revert db A.
            induction di as [|[k x] di IH]; intros [|[k' y] db] A; cbn [list_rel] in *; try contradiction; cbn [map list_rel]; [exact I|].
            cbn [fst snd] in A. destruct A as [[-> Jx] A]. split; [split; [reflexivity | apply elem_to_json_sim; exact Jx] | auto].
          * destruct o. destruct R as (rb & -> & R). exact I.
        + destruct (negb isdef || inc); [|exact I].
          destruct v as [| |z|b|b|s|s|z|z|li|di|o]; cbn [vrel] in R.
          1-9: subst v'; destruct l; cbn [osim]; first [exact I | apply jsim_refl | apply scalar_to_json_sim; reflexivity].
          * pose proof R as R0. destruct R as (lb & -> & R). cbn [JA] in A. destruct l as [p|]; cbn [osim].
            -- cbn [jsim]. eexists. split; [reflexivity|]. apply map_list_sim; [intros; apply scalar_to_json_sim; assumption | apply Rl; exact A].
            -- apply scalar_to_json_sim. exact R0.
          * pose proof R as R0. destruct R as (db & -> & R). destruct l as [p|]; cbn [osim]; [exact I | apply scalar_to_json_sim; exact R0].
          * pose proof R as R0. destruct o. destruct R as (rb & -> & R). destruct l as [p|]; cbn [osim]; [exact I | apply scalar_to_json_sim; exact R0].
    Qed.
  End WithRec.

  (* `value == default` on a field that is not message-typed *)
  Lemma is_default_nonmsg f v v' : (forall k, fhint f <> HPlain (PyMsg k)) -> vrel sc v v' ->
    is_default sc' f v' = is_default sc f v.
  Proof.
    intros Hn R. destruct (scalar_pv v) eqn:S.
    - rewrite (vrel_scalar _ _ _ S R). destruct v; try discriminate; cbn [is_default]; destruct (fhint f) as [t|t|t|k w]; try reflexivity;
        destruct t; reflexivity.
    - destruct v; try discriminate; cbn [vrel] in R.
      + destruct R as (lb & -> & R). pose proof (list_rel_length _ _ _ R) as L.
        cbn [is_default]. destruct (fhint f) as [t|t|t|k w]; try reflexivity; try (destruct t; reflexivity).
        destruct l, lb; cbn [length] in L; try discriminate; reflexivity.
      + destruct R as (db & -> & R). pose proof (list_rel_length _ _ _ R) as L.
        cbn [is_default]. destruct (fhint f) as [t|t|t|k w]; try reflexivity; try (destruct t; reflexivity).
        destruct l, db; cbn [length] in L; try discriminate; reflexivity.
      + destruct o. destruct R as (rb & -> & R). cbn [is_default]. destruct (fhint f) as [t|t|t|k w] eqn:E; try reflexivity.
        destruct t; try reflexivity. exfalso. eapply Hn. reflexivity.
  Qed.

  (* one field, both kinds *)
  Lemma field_to_json_sim rec rec' incl f sel v v' c :
    In f (cfields (get_class sc c)) -> mem_ok f ->
    (fgroup f = None \/ sel = Some true) ->
    vrel sc v v' -> JA rec rec' v v' ->
    osim (field_to_json rec sc incl f sel v) (field_to_json rec' sc' incl (pyd_field f) sel v').
  Proof.
    intros I Mf Hs R A. rewrite !ftj_eq. rewrite pyd_field_ty, pyd_field_wraps, pyd_field_map.
    assert (Hh : hl (pyd_field f) = hl f /\ hd' (pyd_field f) = hd' f /\ Json.hint_elem (pyd_field f) = Json.hint_elem f).
    { destruct (fgroup f) as [g|] eqn:Eg; [|rewrite (pyd_field_none _ Eg); auto].
      destruct (pyd_field_member _ _ Mf Eg) as (p & Hh & Hh' & _). unfold hl, hd', Json.hint_elem. rewrite Hh, Hh'. auto. }
    destruct Hh as (-> & -> & ->). apply ftj_sim; [exact R | exact A |].
    destruct Hs as [Hg | ->]; [|left; apply orb_true_r].
    rewrite (pyd_field_none _ Hg). right. split; [reflexivity|].
    destruct (ptype_eqb (fty f) TMessage) eqn:Et; [left; reflexivity|]. right.
    apply is_default_nonmsg; [|exact R].
    intros k Hk. rewrite (T _ _ _ I Hk) in Et. discriminate.
  Qed.
End Json.
