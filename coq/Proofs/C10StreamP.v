(* C10, part 5: several frames on one stream (dump_stream / loads, Model/C10Stream.v). *)
From BP Require Import Base.Prelude Model.Types Model.Varint Model.Object Model.Eq Model.Encode Model.Len Model.Decode.
From BP Require Import Model.C10Stream.
From BP Require Import Spec.Varint Proofs.VarintP Proofs.LenP Proofs.C10FieldP Proofs.C10FrameP.

(* what dump(stream, SIZE_DELIMITED) writes is a frame: the canonical varint of |bytes(m)|, then bytes(m).
   (C09 proves the prefix is computed by the separate __len__ walk and still equals |bytes(m)|.) *)
Lemma dump_is_frame sc m F : dump sc m true = Ok F -> Zlength F < 2 ^ 64 ->
  exists pre p, enc_obj sc m = Ok p /\ encode_varint (Zlength p) = Ok pre /\
                VarintRep (Zlength p) pre /\ F = pre ++ p.
Proof.
  intros D L. destruct (enc_obj sc m) as [p|e] eqn:E.
  - rewrite (dump_delimited _ _ _ E) in D.
    destruct (encode_varint (Zlength p)) as [pre|] eqn:EV; [|discriminate]. cbn [bind] in D. injection D as <-.
    exists pre, p. split; [reflexivity|]. split; [exact EV|]. split; [|reflexivity].
    rewrite Zlen_app in L. pose proof (Zlen_nonneg pre). pose proof (Zlen_nonneg p).
    destruct (encode_in_range (Zlength p) ltac:(lia)) as (bs & EV' & (Sh & Va & _) & Le).
    rewrite EV in EV'. injection EV' as <-. unfold wrap64 in Va. rewrite Z.mod_small in Va by lia.
    repeat split; assumption.
  - rewrite (dump_fails_iff_bytes_fails _ _ true _ E) in D. discriminate.
Qed.

Lemma dump_stream_cons sc m ms stream :
  dump_stream sc (m :: ms) = Ok stream ->
  exists F S', dump sc m true = Ok F /\ dump_stream sc ms = Ok S' /\ stream = F ++ S'.
Proof.
  cbn [dump_stream]. destruct (dump sc m true) as [F|]; [|discriminate]. cbn [bind].
  destruct (dump_stream sc ms) as [S'|]; [|discriminate]. cbn [bind]. intros H. injection H as <-.
  exists F, S'. repeat split.
Qed.

(* ---- the stream read back: every load returns parse(bytes(m_i)) and consumes exactly frame i ---- *)
Theorem stream_frames scW scR : forall ms cs stream rest,
  dump_stream scW ms = Ok stream -> Zlength stream < 2 ^ 64 -> length cs = length ms ->
  exists r, loads scR cs (stream ++ rest) = (fst (parse_each scW scR cs ms), r) /\
            (if snd (parse_each scW scR cs ms) then r = Ok rest else exists e, r = Err e).
Proof.
  induction ms as [|m ms IH]; intros cs stream rest D L Hl; destruct cs as [|c cs]; cbn [length] in Hl; try lia.
  - cbn in D. injection D as <-. exists (Ok rest). split; reflexivity.
  - destruct (dump_stream_cons _ _ _ _ D) as (F & S' & DF & DS & ->).
    rewrite Zlen_app in L. pose proof (Zlen_nonneg F). pose proof (Zlen_nonneg S').
    destruct (dump_is_frame _ _ _ DF ltac:(lia)) as (pre & p & E & _ & R & ->).
    cbn [parse_each loads]. rewrite E. rewrite <- !app_assoc.
    destruct (parse scR c p) as [m'|e] eqn:P.
    + rewrite (frame_load_ok scR c pre p (S' ++ rest) m' R P).
      destruct (IH cs S' rest DS ltac:(lia) ltac:(cbn [length] in Hl; lia)) as (r & EL & Hr).
      rewrite EL. destruct (parse_each scW scR cs ms) as [l ok]. cbn [fst snd] in *.
      exists r. split; [reflexivity | exact Hr].
    + destruct (frame_load_err scR c pre p (S' ++ rest) e R P) as (e' & ->).
      exists (Err e'). split; [reflexivity | cbn [snd]; eauto].
Qed.

Definition returns_parse (scW scR : schema) (c : nat) (m m' : obj) : Prop :=
  exists bs, enc_obj scW m = Ok bs /\ parse scR c bs = Ok m'.

Lemma parse_each_all scW scR : forall cs ms ms',
  Forall2 (fun cm m' => returns_parse scW scR (fst cm) (snd cm) m') (combine cs ms) ms' ->
  length cs = length ms -> parse_each scW scR cs ms = (ms', true).
Proof.
  induction cs as [|c cs IH]; intros ms ms' H Hl; destruct ms as [|m ms]; cbn [length] in Hl; try lia.
  - inversion H. reflexivity.
  - cbn [combine] in H. inversion H as [|? m' ? l' (bs & E & P) H']; subst. cbn [fst snd] in *.
    cbn [parse_each]. rewrite E, P, (IH ms l' H') by (cbn [length] in Hl; lia). reflexivity.
Qed.

Theorem stream_roundtrip scW scR ms cs stream rest ms' :
  dump_stream scW ms = Ok stream -> Zlength stream < 2 ^ 64 -> length cs = length ms ->
  Forall2 (fun cm m' => returns_parse scW scR (fst cm) (snd cm) m') (combine cs ms) ms' ->
  loads scR cs (stream ++ rest) = (ms', Ok rest).
Proof.
  intros D L Hl H. destruct (stream_frames scW scR ms cs stream rest D L Hl) as (r & EL & Hr).
  rewrite (parse_each_all _ _ _ _ _ H Hl) in *. cbn [fst snd] in *. subst r. exact EL.
Qed.

(* ---- with the binary round trip of C01 as an explicit premise: the messages come back == ---- *)
Section WithRoundTrip.
  Variable sc : schema.
  Variable good : obj -> Prop.
  Hypothesis binary_roundtrip : forall m bs, good m -> enc_obj sc m = Ok bs ->
    exists m', parse sc (ocls m) bs = Ok m' /\ obj_eq sc m m' = true.

  Theorem stream_roundtrip_eq : forall ms stream rest,
    Forall good ms -> dump_stream sc ms = Ok stream -> Zlength stream < 2 ^ 64 ->
    exists ms', loads sc (map ocls ms) (stream ++ rest) = (ms', Ok rest) /\
                Forall2 (fun m m' => obj_eq sc m m' = true) ms ms'.
  Proof.
    intros ms stream rest G D L.
    assert (H : exists ms', Forall2 (fun cm m' => returns_parse sc sc (fst cm) (snd cm) m') (combine (map ocls ms) ms) ms' /\
                            Forall2 (fun m m' => obj_eq sc m m' = true) ms ms').
    { clear L rest. revert stream D. induction G as [|m ms Gm G IH]; intros stream D.
      - exists []. split; constructor.
      - destruct (dump_stream_cons _ _ _ _ D) as (F & S' & DF & DS & ->).
        destruct (IH _ DS) as (l & H1 & H2).
        destruct (enc_obj sc m) as [p|e] eqn:E.
        + destruct (binary_roundtrip m p Gm E) as (m' & P & Q). exists (m' :: l). split.
          * cbn [map combine]. constructor; [|exact H1]. exists p. cbn [fst snd]. split; assumption.
          * constructor; assumption.
        + rewrite (dump_fails_iff_bytes_fails _ _ true _ E) in DF. discriminate. }
    destruct H as (ms' & H1 & H2). exists ms'. split; [|exact H2].
    apply (stream_roundtrip sc sc ms (map ocls ms) stream rest ms' D L); [apply map_length | exact H1].
  Qed.
End WithRoundTrip.

(* ---- truncation ---- *)

(* for ANY stream and ANY classes: the messages returned from a prefix of the stream are exactly the
   messages the whole stream returns at those positions *)
Theorem loads_prefix sc : forall cs t more,
  exists j, fst (loads sc cs t) = firstn j (fst (loads sc cs (t ++ more))).
Proof.
  induction cs as [|c cs IH]; intros t more; [exists O; reflexivity|].
  cbn [loads]. destruct (load_delimited sc c t) as [[m r]|e] eqn:H.
  - rewrite (load_prefix_stable _ _ _ _ _ more H). destruct (IH r more) as (j & Ej).
    destruct (loads sc cs r) as [l1 r1]. destruct (loads sc cs (r ++ more)) as [l2 r2]. cbn [fst] in *.
    exists (S j). cbn [firstn]. rewrite Ej. reflexivity.
  - exists O. reflexivity.
Qed.

Corollary loads_cut sc cs s k :
  exists j, fst (loads sc cs (firstn k s)) = firstn j (fst (loads sc cs s)).
Proof.
  destruct (loads_prefix sc cs (firstn k s) (skipn k s)) as (j & H). rewrite firstn_skipn in H. exists j. exact H.
Qed.

(* a stream written by dump_stream and cut anywhere before its end: the run ends in an exception,
   and what it returned before is a prefix of what the uncut stream returns *)
Theorem stream_truncate scW scR : forall ms cs stream k,
  dump_stream scW ms = Ok stream -> Zlength stream < 2 ^ 64 ->
  (length ms <= length cs)%nat -> (k < length stream)%nat ->
  exists j e, loads scR cs (firstn k stream) = (firstn j (fst (loads scR cs stream)), Err e).
Proof.
  induction ms as [|m ms IH]; intros cs stream k D L Hl Hk.
  - cbn in D. injection D as <-. cbn [length] in Hk. lia.
  - destruct cs as [|c cs]; [cbn [length] in Hl; lia|].
    destruct (dump_stream_cons _ _ _ _ D) as (F & S' & DF & DS & ->).
    rewrite Zlen_app in L. pose proof (Zlen_nonneg F). pose proof (Zlen_nonneg S').
    destruct (dump_is_frame _ _ _ DF ltac:(lia)) as (pre & p & E & _ & R & EF).
    destruct (Nat.lt_ge_cases k (length F)) as [Hc|Hc].
    + (* the cut is inside the first frame *)
      rewrite firstn_app. replace (k - length F)%nat with O by lia. cbn [firstn]. rewrite app_nil_r.
      assert (Hx : skipn k F <> []).
      { intros Hn. pose proof (firstn_skipn k F) as Hfs. rewrite Hn, app_nil_r in Hfs.
        pose proof (firstn_length k F) as Hfl. rewrite Hfs in Hfl. lia. }
      destruct (frame_cut_err scR c pre p (firstn k F) (skipn k F) R) as (e & He);
        [rewrite firstn_skipn; symmetry; exact EF | exact Hx |].
      exists O, e. cbn [loads firstn]. rewrite He. reflexivity.
    + rewrite firstn_app, firstn_all2 by lia. subst F. rewrite <- !app_assoc.
      cbn [loads]. destruct (parse scR c p) as [m'|e] eqn:P.
      * rewrite !(frame_load_ok scR c pre p _ m' R P).
        destruct (IH cs S' (k - length (pre ++ p))%nat DS ltac:(lia) ltac:(cbn [length] in Hl; lia)
                     ltac:(rewrite app_length in Hk; lia)) as (j & e & EL).
        rewrite EL. destruct (loads scR cs S') as [l r]. cbn [fst]. exists (S j), e. reflexivity.
      * destruct (frame_load_err scR c pre p (firstn (k - length (pre ++ p)) S') e R P) as (e1 & ->).
        destruct (frame_load_err scR c pre p S' e R P) as (e2 & ->).
        exists O, e1. reflexivity.
Qed.

(* the number of loads that return is the number of frames that lie wholly before the cut *)
Theorem stream_truncate_count scW scR : forall ms1 m ms2 cs pre_s F stream k,
  dump_stream scW ms1 = Ok pre_s -> dump scW m true = Ok F ->
  dump_stream scW (ms1 ++ m :: ms2) = Ok stream -> Zlength stream < 2 ^ 64 ->
  (length ms1 < length cs)%nat ->
  (length pre_s <= k < length pre_s + length F)%nat ->
  snd (parse_each scW scR (firstn (length ms1) cs) ms1) = true ->
  exists e, loads scR cs (firstn k stream) = (fst (parse_each scW scR (firstn (length ms1) cs) ms1), Err e).
Proof.
  induction ms1 as [|m1 ms1 IH]; intros m ms2 cs pre_s F stream k D1 DF D L Hl Hk Hok.
  - cbn in D1. injection D1 as <-. cbn [length] in *. cbn [app] in D.
    destruct cs as [|c cs]; [cbn [length] in Hl; lia|].
    destruct (dump_stream_cons _ _ _ _ D) as (F' & S' & DF' & DS & ->).
    rewrite DF in DF'. injection DF' as <-.
    rewrite Zlen_app in L. pose proof (Zlen_nonneg F). pose proof (Zlen_nonneg S').
    destruct (dump_is_frame _ _ _ DF ltac:(lia)) as (pre & p & E & _ & R & EF).
    rewrite firstn_app. replace (k - length F)%nat with O by lia. cbn [firstn]. rewrite app_nil_r.
    assert (Hx : skipn k F <> []).
    { intros Hn. pose proof (firstn_skipn k F) as Hfs. rewrite Hn, app_nil_r in Hfs.
      pose proof (firstn_length k F) as Hfl. rewrite Hfs in Hfl. lia. }
    destruct (frame_cut_err scR c pre p (firstn k F) (skipn k F) R) as (e & He);
      [rewrite firstn_skipn; symmetry; exact EF | exact Hx |].
    exists e. cbn [loads parse_each fst]. rewrite He. reflexivity.
  - destruct cs as [|c cs]; [cbn [length] in Hl; lia|].
    destruct (dump_stream_cons _ _ _ _ D1) as (F1 & P1 & DF1 & DP1 & ->).
    cbn [app] in D. destruct (dump_stream_cons _ _ _ _ D) as (F1' & S' & DF1' & DS & ->).
    rewrite DF1 in DF1'. injection DF1' as <-.
    rewrite Zlen_app in L. pose proof (Zlen_nonneg F1). pose proof (Zlen_nonneg S').
    destruct (dump_is_frame _ _ _ DF1 ltac:(lia)) as (pre & p & E & _ & R & ->).
    cbn [length firstn parse_each] in *. rewrite E in *.
    destruct (parse scR c p) as [m'|e0] eqn:P; [|cbn [snd] in Hok; discriminate].
    rewrite app_length in Hk.
    rewrite firstn_app, firstn_all2 by lia. rewrite <- !app_assoc.
    cbn [loads]. rewrite (frame_load_ok scR c pre p _ m' R P).
    destruct (parse_each scW scR (firstn (length ms1) cs) ms1) as [l ok] eqn:PE. cbn [fst snd] in *.
    destruct (IH m ms2 cs P1 F S' (k - length (pre ++ p))%nat DP1 DF DS ltac:(lia) ltac:(lia) ltac:(lia)) as (e & EL).
    { rewrite PE. exact Hok. }
    rewrite EL, PE. exists e. reflexivity.
Qed.

(* ---- one message: what dump writes is a frame, and any reader (schema scR, class c) consumes exactly
        that frame and returns what it would return from parse(bytes(m)) — or raises iff parse raises ---- *)
Theorem dump_frame_load scW scR m F :
  dump scW m true = Ok F -> Zlength F < 2 ^ 64 ->
  exists pre p, enc_obj scW m = Ok p /\ encode_varint (Zlength p) = Ok pre /\ F = pre ++ p /\
    forall c rest,
      match parse scR c p with
      | Ok m' => load_delimited scR c (F ++ rest) = Ok (m', rest)
      | Err _ => exists e', load_delimited scR c (F ++ rest) = Err e'
      end.
Proof.
  intros D L. destruct (dump_is_frame _ _ _ D L) as (pre & p & E & EV & R & ->).
  exists pre, p. repeat split; try assumption. intros c rest. rewrite <- app_assoc.
  destruct (parse scR c p) as [m'|e] eqn:P.
  - apply frame_load_ok; assumption.
  - apply (frame_load_err scR c pre p rest e R P).
Qed.
