(* Proofs/GrpcConvExP.v — the seeded breaking change ("_stream_stream awaits _send_messages(...) to completion
   before reading any response") as a system, and concrete protocols (non-vacuity). *)
From Coq Require Import List Bool Lia Arith.
From BP Require Import Base.Prelude Model.Grpc Model.GrpcConv Proofs.GrpcConvP Proofs.GrpcConvRealP Proofs.GrpcConvDlgP.
Import ListNotations.

(* ---------------------------------------------------------------------------
   the variant: every protocol whose request source waits for a response AT ALL never completes
   --------------------------------------------------------------------------- *)
Section SendAllFirst.
  Variables SS HS : Type.
  Variable src_step : SS -> src_act SS.
  Variable hdl_step : HS -> hdl_act HS.
  Variable sm_single : bool.

  Notation step := (step SS HS src_step hdl_step send_all_first_mode sm_single).
  Notation run := (run SS HS src_step hdl_step send_all_first_mode sm_single).

  (* the generator reaches an await (before it ends) when it is given no response *)
  Inductive SrcWaits : SS -> Prop :=
  | SW_now ss k : src_step ss = SaAwait k -> SrcWaits ss
  | SW_later ss r ss' : src_step ss = SaYield r ss' -> SrcWaits ss' -> SrcWaits ss.

  Definition waiting (s : state SS HS) : Prop :=
    SrcWaits (s_src s) /\ s_sfin s = false /\ s_inbox s = [] /\ s_recv s = [] /\ s_cend s = None.

  Lemma waiting_step t s s' : waiting s -> step t s = Some s' -> waiting s'.
  Proof.
    intros (Hw & Hf & Hib & Hrc & Hce) Hs. destruct s as [ss sf rq ib hs rd b e hd q rcv cw ce].
    cbn [s_src s_sfin s_inbox s_recv s_cend] in *. subst sf ib rcv ce.
    destruct t; unfold GrpcConv.step, GrpcConv.step_sender, GrpcConv.step_caller, GrpcConv.step_handler in Hs; cbn in Hs.
    - destruct Hw as [ss k E | ss r ss' E Hw']; rewrite E in Hs; [discriminate|].
      inversion Hs; subst. unfold waiting. cbn. repeat split; try reflexivity. exact Hw'.
    - discriminate.
    - destruct hd; [discriminate|].
      destruct (hdl_step hs) as [st|y hs'|k].
      + inversion Hs; subst. unfold waiting. cbn. repeat split; try reflexivity. exact Hw.
      + destruct (sm_single && b) eqn:Eb; cbn in Hs; inversion Hs; subst; unfold waiting; cbn; repeat split; try reflexivity; exact Hw.
      + destruct rq; [discriminate|]. inversion Hs; subst. unfold waiting. cbn. repeat split; try reflexivity. exact Hw.
  Qed.

  Theorem send_all_first_never_completes ss hs :
    SrcWaits ss ->
    forall sch s, run sch (init ss hs) = Some s -> s_cend s = None /\ s_recv s = [].
  Proof.
    intros Hw sch.
    assert (Hinit : waiting (init ss hs)) by (unfold waiting, init; cbn; repeat split; try reflexivity; exact Hw).
    revert Hinit. generalize (init ss hs) as s0.
    induction sch as [|t r IH]; intros s0 H0 s Hr; cbn [GrpcConv.run] in Hr.
    - inversion Hr; subst. destruct H0 as (_ & _ & _ & A & B). split; assumption.
    - destruct (step t s0) as [s1|] eqn:E; [|discriminate].
      apply (IH s1 (waiting_step t s0 s1 H0 E) s Hr).
  Qed.
End SendAllFirst.

(* ---------------------------------------------------------------------------
   concrete protocols of the table vocabulary
   --------------------------------------------------------------------------- *)
Definition tQ : str := [x51].     (* request class *)
Definition tA : str := [x41].     (* response class *)
Definition q (b : byte) : msg := (tQ, [x08; b]).
Definition a (b : byte) : msg := (tA, [x08; b]).

(* ping-pong of length 3: request i+1 is produced only after response i was seen; the second and third
   requests are chosen BY the response just seen, the handler's answers by the request just read *)
Definition pp3_src : list src_instr :=
  [SI_yield (q x01); SI_await;
   SI_reply [([x08; x0b], q x02)] (q x00); SI_await;
   SI_reply [([x08; x0c], q x03)] (q x00); SI_await].
Definition pp3_hdl : list hdl_instr :=
  [HI_recv; HI_reply [([x08; x01], a x0b)] (a x00);
   HI_recv; HI_reply [([x08; x02], a x0c)] (a x00);
   HI_recv; HI_reply [([x08; x03], a x0d)] (a x00);
   HI_recv].

Lemma pp3_dialogue :
  table_dialogue 40 pp3_src pp3_hdl None = Some ([q x01; q x02; q x03], [a x0b; a x0c; a x0d], None, true).
Proof. vm_compute. reflexivity. Qed.

(* the server speaks first (greeting), the caller answers what it was told to, a burst of two responses, a last
   request, the handler reads to the end of the request stream and ends with NOT_FOUND *)
Definition greet_src : list src_instr :=
  [SI_await; SI_reply [([x08; x07], q x11)] (q x00); SI_await; SI_await; SI_yield (q x12)].
Definition greet_hdl : list hdl_instr :=
  [HI_yield (a x07); HI_recv; HI_reply [([x08; x11], a x21)] (a x00); HI_yield (a x22); HI_recv; HI_recv].

Lemma greet_dialogue :
  table_dialogue 40 greet_src greet_hdl (Some 5) = Some ([q x11; q x12], [a x07; a x21; a x22], Some 5, true).
Proof. vm_compute. reflexivity. Qed.

(* both sides wait for the other: no finite dialogue *)
Definition stall_src : list src_instr := [SI_await; SI_yield (q x01)].
Definition stall_hdl : list hdl_instr := [HI_recv; HI_yield (a x01)].

Lemma stall_no_dialogue :
  ~ exists t, Dlg tsrc thdl tsrc_step thdl_step (tsrc_init stall_src) false [] (thdl_init stall_hdl None) [] t.
Proof.
  intros [t H]. inversion H; subst;
    match goal with
    | E : thdl_step _ = _ |- _ => try (cbn in E; discriminate)
    end;
    match goal with
    | E : tsrc_step _ = _ |- _ => cbn in E; discriminate
    end.
Qed.

Notation trun cm := (run tsrc thdl tsrc_step thdl_step cm false).
Notation tstuckb cm := (stuckb tsrc thdl tsrc_step thdl_step cm false).

(* C11_send_all_first_deadlocks_refuted: ping-pong has a finite dialogue (so the real structure completes it
   under every schedule) but the variant reaches a state in which no task can move and the call has not
   completed; and no schedule of the variant ever completes it *)
Theorem send_all_first_deadlocks :
  (exists t, Dlg tsrc thdl tsrc_step thdl_step (tsrc_init pp3_src) false [] (thdl_init pp3_hdl None) [] t) /\
  (exists sch f,
     trun send_all_first_mode sch (init (tsrc_init pp3_src) (thdl_init pp3_hdl None)) = Some f /\
     tstuckb send_all_first_mode f = true /\ s_cend f = None /\ s_recv f = [] /\ s_hread f = [q x01] /\
     s_respq f = [a x0b]) /\
  (forall sch s, trun send_all_first_mode sch (init (tsrc_init pp3_src) (thdl_init pp3_hdl None)) = Some s ->
     s_cend s = None /\ s_recv s = []).
Proof.
  split; [|split].
  - eexists. eapply dialogue_sound. exact pp3_dialogue.
  - exists [TSender; THandler; THandler]. eexists. split; [vm_compute; reflexivity|].
    split; [vm_compute; reflexivity|]. repeat split; vm_compute; reflexivity.
  - apply send_all_first_never_completes.
    eapply SW_later; [reflexivity|]. eapply SW_now. reflexivity.
Qed.

(* the real structure on the same protocols, under three different schedulers *)
Lemma pp3_system_schedules :
  option_map (observe) (table_system ss_mode false 80 [0%nat] pp3_src pp3_hdl None)
    = Some (Observed [q x01; q x02; q x03] [a x0b; a x0c; a x0d] (Some CDone)) /\
  option_map (observe) (table_system ss_mode false 80 [2%nat; 1%nat] pp3_src pp3_hdl None)
    = Some (Observed [q x01; q x02; q x03] [a x0b; a x0c; a x0d] (Some CDone)) /\
  option_map (observe) (table_system ss_mode false 80 [1%nat; 0%nat; 2%nat; 2%nat] greet_src greet_hdl (Some 5))
    = Some (Observed [q x11; q x12] [a x07; a x21; a x22] (Some (CGrpc 5))).
Proof. repeat split; vm_compute; reflexivity. Qed.

(* ---------------------------------------------------------------------------
   the handler finishes WITHOUT reading the request stream to its end: ping-pong of length 3 whose handler returns
   right after its third answer
   --------------------------------------------------------------------------- *)
Definition early_hdl : list hdl_instr :=
  [HI_recv; HI_reply [([x08; x01], a x0b)] (a x00);
   HI_recv; HI_reply [([x08; x02], a x0c)] (a x00);
   HI_recv; HI_reply [([x08; x03], a x0d)] (a x00)].

Lemma early_dialogue :
  table_dialogue 40 pp3_src early_hdl None = Some ([q x01; q x02; q x03], [a x0b; a x0c; a x0d], None, false).
Proof. vm_compute. reflexivity. Qed.

Definition early_init := init (tsrc_init pp3_src) (thdl_init early_hdl None).
(* the sender is preferred / the caller is preferred *)
Definition early_sched_ok : list task := sched_choices tsrc thdl tsrc_step thdl_step ss_mode false 80 [0%nat] early_init.
Definition early_sched_bad : list task := sched_choices tsrc thdl tsrc_step thdl_step ss_mode false 80 [1%nat] early_init.

(* C11_server_ends_first_refuted: the protocol has a finite dialogue, every response is delivered in order under both
   schedules, but whether the caller's iteration ends normally or with ProtocolError depends on whether the sender
   task reached stream.end() before the caller left `async with` *)
Theorem server_ends_first_witness :
  Dlg tsrc thdl tsrc_step thdl_step (tsrc_init pp3_src) false [] (thdl_init early_hdl None) []
      ([q x01; q x02; q x03], [a x0b; a x0c; a x0d], None, false) /\
  (exists f, trun ss_mode early_sched_ok early_init = Some f /\ tstuckb ss_mode f = true /\
             observe f = Observed [q x01; q x02; q x03] [a x0b; a x0c; a x0d] (Some CDone)) /\
  (exists f, trun ss_mode early_sched_bad early_init = Some f /\ tstuckb ss_mode f = true /\
             observe f = Observed [q x01; q x02; q x03] [a x0b; a x0c; a x0d] (Some CExc)).
Proof.
  split; [eapply dialogue_sound; exact early_dialogue|].
  split; eexists; (split; [vm_compute; reflexivity|]); split; vm_compute; reflexivity.
Qed.
