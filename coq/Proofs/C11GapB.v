(* C11 - second group of gap-closing proofs (table: top of Proofs/C11GapA.v).
     call_general            what a call returns for ANY handler body (ok or not), in terms of the adapter and the send checks
     payload_iff_handler_ok  clause (3): handler_ok is EXACT - the caller receives what the handler produced iff handler_ok
     arg_wrong_class_refuted clause (2): arg_ok is needed for "a request equal to what the caller sent"
     payload_objects         clauses (2)/(3) at the level of OBJECTS, for any serialiser / parser pair that round-trips on the
                             values in question (what C01_roundtrip proves of betterproto's: parse (bytes v) = norm v) *)
From Coq Require Import ZArith List Bool Lia.
From BP Require Import Base.Prelude Model.Grpc Model.C11GapDefs Proofs.BytesP Proofs.GrpcP Proofs.C11GapA.
Import ListNotations.

Definition so_of (m : method) (h : hbody) (inp : hinput) : server_out :=
  let '(tr, ys, st) := run_adapter (m_ss m) (m_py m) h inp in
  let '(sent, st') := send_all (negb (m_ss m)) false (m_out m) ys st in
  SOut tr (map snd sent) st'.

Lemma call_general svc im skw ckw m h a :
  names_distinct svc -> owns svc m -> resolve_handler svc im (m_py m) = Some h -> arg_ok m a ->
  call svc im skw (m_py m) a ckw =
    Some (Obs (RInfo (route svc m) (mapping_card m) (m_in m) (m_out m) (resolve_kwargs skw ckw))
              (so_trace (so_of m h (hin_of a)))
              (client_recv (stub_helper m) (m_out m) (so_of m h (hin_of a)))).
Proof.
  intros ND Hown Hh Harg. unfold call.
  rewrite (stub_lookup_owns svc m Hown). cbn [stub_method sd_helper sd_route sd_in sd_out].
  destruct (cardinality_agree m) as (Hcard & _ & _ & Htakes & _).
  rewrite Htakes, Hcard.
  pose proof (adapter_input_arg m a Harg) as Hinp.
  destruct a as [r|rs]; cbn [arg_ok] in Harg; destruct Harg as [Hcs Ht]; rewrite Hcs.
  - rewrite (serve_own svc im m h [snd r] ND Hown Hh). cbn [hin_of] in *. rewrite Hinp, Ht. reflexivity.
  - rewrite (encode_all_typed _ _ Ht).
    rewrite (serve_own svc im m h (map snd rs) ND Hown Hh). cbn [hin_of] in *. rewrite Hinp. reflexivity.
Qed.

Lemma send_all_stream_inv out : forall ys sent st a s,
  send_all false sent out ys st = (a, s) -> (typed out ys /\ a = ys /\ s = st) \/ (length a < length ys)%nat.
Proof.
  induction ys as [|y r IH]; intros sent st a s; cbn [send_all andb].
  - intros [= <- <-]. left. split; [constructor | auto].
  - destruct (str_eqb (fst y) out) eqn:E.
    + destruct (send_all false true out r st) as [a' s'] eqn:Er. intros [= <- <-].
      destruct (IH _ _ _ _ Er) as [(Ht & -> & ->)|Hlt].
      * left. split; [constructor; [apply str_eqb_eq; exact E | exact Ht] | auto].
      * right. cbn [length]. lia.
    + intros [= <- <-]. right. cbn [length]. lia.
Qed.

Lemma payload_iff_handler_ok svc im skw ckw m h a :
  names_distinct svc -> owns svc m -> im (m_py m) = Some h -> arg_ok m a ->
  (call svc im skw (m_py m) a ckw = Some (expected_obs svc m skw ckw a (produced (m_ss m) h (hin_of a)))
   <-> handler_ok m h (hin_of a)).
Proof.
  intros ND Hown Him Harg. split; [|intros Hok; apply payload_owner; assumption].
  rewrite (call_general svc im skw ckw m h a ND Hown) by (try assumption; unfold resolve_handler; rewrite Him; reflexivity).
  unfold expected_obs. intros H.
  assert (Htr := f_equal (option_map ob_trace) H). assert (Hres := f_equal (option_map ob_res) H).
  cbn [option_map ob_trace ob_res] in Htr, Hres. clear H. injection Htr as Htr. injection Hres as Hres.
  revert Htr Hres.
  unfold so_of, handler_ok, produced, run_adapter, client_recv.
  destruct (cardinality_agree m) as (_ & _ & _ & _ & ->).
  destruct (m_ss m) eqn:Ess; cbn [negb].
  - destruct h as [f|f].
    + intros _ _. split; [|discriminate]. destruct (f (hin_of a)); constructor.
    + destruct (f (hin_of a)) as [ys st] eqn:Ef.
      destruct (send_all false false (m_out m) ys st) as [sent st'] eqn:Es.
      cbn [so_trace so_wire so_status fst snd]. intros _ [= Hms Hend].
      split; [|discriminate].
      destruct (send_all_stream_inv _ _ _ _ _ _ Es) as [(Ht & _)|Hlt]; [exact Ht|].
      exfalso. apply (f_equal (@length _)) in Hms. rewrite !map_length in Hms. assert (Hms2 : length sent = length ys) by exact Hms. lia.
  - destruct h as [f|f].
    + destruct (f (hin_of a)) as [y| |s] eqn:Ef.
      * cbn [send_all andb negb]. destruct (str_eqb (fst y) (m_out m)) eqn:Ey.
        -- intros _ _. split; [constructor; [apply str_eqb_eq; exact Ey | constructor]|].
           intros _. exists f. split; [reflexivity|]. rewrite Ef. discriminate.
        -- cbn [so_trace so_wire so_status fst snd map]. intros _ Hd. discriminate Hd.
      * cbn [send_all andb negb so_trace so_wire so_status fst snd map]. intros _ Hd. discriminate Hd.
      * intros _ _. split; [constructor|]. intros _. exists f. split; [reflexivity|]. rewrite Ef. discriminate.
    + cbn [send_all andb negb so_trace so_wire so_status fst snd map]. intros Hd. discriminate Hd.
Qed.

(* clause (2): a unary call with a message of ANOTHER class.  The two unary helpers pass type(request) as request_type, so the
   client codec accepts it; the server decodes the bytes as the declared class: the handler's request is not what was sent *)
Definition svc_one : service := Service [x70] [x53] [m_GetFoo].

Lemma arg_wrong_class_witness :
  names_distinct svc_one /\ pynames_distinct svc_one /\ In m_GetFoo (s_methods svc_one) /\
  arg_okb m_GetFoo (ArgOne o_msg) = false /\
  exists o, call svc_one im_one kw0 (m_py m_GetFoo) (ArgOne o_msg) kw0 = Some o /\
            ri_req_ty (ob_req o) = fst o_msg /\
            ob_trace o = [(m_py m_GetFoo, InOne (Some (m_in m_GetFoo, snd o_msg)))] /\
            (m_in m_GetFoo, snd o_msg) <> o_msg /\
            ob_trace o <> [(m_py m_GetFoo, hin_of (ArgOne o_msg))].
Proof.
  split; [repeat constructor; intros []|]. split; [repeat constructor; intros []|].
  split; [left; reflexivity|]. split; [vm_compute; reflexivity|].
  eexists. split; [vm_compute; reflexivity|]. cbn [ob_req ob_trace ri_req_ty].
  repeat split; try (vm_compute; reflexivity); vm_compute; discriminate.
Qed.

(* clauses (2)/(3) at the level of objects.  [ser] / [par] : any serialiser and per-class parser; the caller's objects are
   sent as (class of the object, ser object); what a handler / the caller gets is par applied to the bytes.  If ser / par round
   trip on an object up to a normal form (C01_roundtrip: parse sc (ocls v) (enc v) = Ok (norm_obj sc v), == for NaN-free v),
   the handler receives the normal form of what the caller sent, and the caller the normal form of what the handler returned *)
Section Objects.
  Context {O : Type} (cls : O -> str) (ser : O -> list byte) (par : str -> list byte -> option O) (nf : O -> O).
  Definition msg_of (v : O) : msg := (cls v, ser v).
  Definition obj_of (x : msg) : option O := par (fst x) (snd x).
  Definition rt_ok (v : O) : Prop := par (cls v) (ser v) = Some (nf v).

  Lemma payload_objects svc im skw ckw m f (req resp : O) :
    names_distinct svc -> owns svc m -> m_cs m = false -> m_ss m = false ->
    cls req = m_in m -> cls resp = m_out m -> rt_ok req -> rt_ok resp ->
    im (m_py m) = Some (HCoro f) -> f (InOne (Some (msg_of req))) = RetMsg (msg_of resp) ->
    exists o x y, call svc im skw (m_py m) (ArgOne (msg_of req)) ckw = Some o /\
      ob_trace o = [(m_py m, InOne (Some x))] /\ obj_of x = Some (nf req) /\
      ob_res o = CRes [y] CDone /\ obj_of y = Some (nf resp).
  Proof.
    intros ND Hown Hcs Hss Hin Hout Hrq Hrs Him Hf.
    assert (Harg : arg_ok m (ArgOne (msg_of req))) by (split; [exact Hcs | exact Hin]).
    assert (Hok : handler_ok m (HCoro f) (hin_of (ArgOne (msg_of req)))).
    { unfold handler_ok, produced. cbn [hin_of]. rewrite Hf, Hss. cbn [fst]. split.
      - constructor; [exact Hout | constructor].
      - intros _. exists f. split; [reflexivity|]. rewrite Hf. discriminate. }
    exists (expected_obs svc m skw ckw (ArgOne (msg_of req)) (produced (m_ss m) (HCoro f) (hin_of (ArgOne (msg_of req))))),
           (msg_of req), (msg_of resp).
    split; [apply payload_owner; assumption|].
    unfold expected_obs, produced. cbn [hin_of ob_trace ob_res]. rewrite Hf, Hss. cbn [fst snd end_of].
    repeat split; assumption.
  Qed.

  (* streams: every element of a typed list of objects comes back as its normal form, in order *)
  Lemma objects_stream (vs : list O) :
    Forall rt_ok vs -> map obj_of (map msg_of vs) = map (fun v => Some (nf v)) vs.
  Proof.
    induction 1 as [|v vs Hv _ IH]; cbn [map]; [reflexivity|]. rewrite IH. unfold obj_of, msg_of. cbn [fst snd].
    rewrite Hv. reflexivity.
  Qed.

  Lemma payload_objects_stream svc im skw ckw m g (reqs resps : list O) st :
    names_distinct svc -> owns svc m -> m_cs m = true -> m_ss m = true ->
    Forall (fun v => cls v = m_in m) reqs -> Forall (fun v => cls v = m_out m) resps ->
    Forall rt_ok reqs -> Forall rt_ok resps ->
    im (m_py m) = Some (HGen g) -> g (InMany (map msg_of reqs)) = (map msg_of resps, st) ->
    exists o, call svc im skw (m_py m) (ArgIter (map msg_of reqs)) ckw = Some o /\
      ob_trace o = [(m_py m, InMany (map msg_of reqs))] /\
      map obj_of (map msg_of reqs) = map (fun v => Some (nf v)) reqs /\
      ob_res o = CRes (map msg_of resps) (end_of st) /\
      map obj_of (map msg_of resps) = map (fun v => Some (nf v)) resps.
  Proof.
    intros ND Hown Hcs Hss Hin Hout Hrq Hrs Him Hg.
    assert (Hty : forall t l, Forall (fun v => cls v = t) l -> typed t (map msg_of l)).
    { intros t l Hl. induction Hl as [|v l Hv _ IH]; cbn [map]; constructor; [exact Hv | exact IH]. }
    assert (Harg : arg_ok m (ArgIter (map msg_of reqs))) by (split; [exact Hcs | apply Hty; exact Hin]).
    assert (Hok : handler_ok m (HGen g) (hin_of (ArgIter (map msg_of reqs)))).
    { unfold handler_ok, produced. cbn [hin_of]. rewrite Hg. cbn [fst]. split; [apply Hty; exact Hout|].
      rewrite Hss. discriminate. }
    eexists. split; [apply payload_owner; eassumption|].
    unfold expected_obs, produced. cbn [hin_of ob_trace ob_res]. rewrite Hg. cbn [fst snd].
    split; [reflexivity|]. split; [apply objects_stream; exact Hrq|]. split; [reflexivity|]. apply objects_stream; exact Hrs.
  Qed.
End Objects.
