(* C04: the round trip of one field value: whatever to_dict emits for a field of a well-formed
   class holding an in-range value is read back by _from_dict_init as the normal form of that value. *)
From BP Require Import Base.Prelude Model.Types Model.Float Model.Utf8 Model.Object Model.Eq Model.TimeCore.
From BP Require Import Model.Encode Model.WellFormed Model.Json.
From BP Require Import Spec.Time.
From BP Require Model.Time Model.Enum Model.Casing.
From BP Require Import gen.Tables Proofs.BytesP Proofs.C04Def Proofs.C04ScalarP Proofs.C04ElemP.
From Coq Require Import Lia ZifyBool.

Definition field_nan_ok (x : pv) : bool :=
  match x with
  | PList l => forallb not_nan l
  | PDict d => forallb (fun kx => not_nan (snd kx)) d
  | _ => nan_canonical x
  end.

Lemma emit_some c j j' : emit c j = Some j' -> c = true /\ j = j'.
Proof. unfold emit. destruct c; intros H; inversion H; auto. Qed.

Lemma to_dict_is_obj cs incl sc o : exists d, to_dict cs incl sc o = JObj d.
Proof. destruct o as [c raw s u g]. cbn [to_dict]. eexists. reflexivity. Qed.

Lemma list_or_single_obj conv d : list_or_single conv (JObj d) = conv (JObj d).
Proof. reflexivity. Qed.

Lemma andb_true5 a b c d e : a && b && c && d && e = true -> a = true /\ b = true /\ c = true /\ d = true /\ e = true.
Proof. destruct a, b, c, d, e; intuition discriminate. Qed.

Lemma negb_true b : negb b = true -> b = false. Proof. destruct b; [discriminate|reflexivity]. Qed.
Lemma is_some'_false {A} (o : option A) : negb (is_some' o) = true -> o = None.
Proof. destruct o; [discriminate|reflexivity]. Qed.

Lemma wrapper_scalar w : is_some' (wrapper_cls w) = true -> tmem w scalar_ptypes = true.
Proof. destruct w; cbn; intros H; try discriminate; reflexivity. Qed.
Lemma fits_scalar_py nc ne t p : tmem t scalar_ptypes = true -> pyty_fits nc ne t p = true -> scalar_py p = true.
Proof. destruct t; try discriminate; intros _; destruct p; try discriminate; reflexivity. Qed.

Section Field.
  Variable sc : schema.
  Variable cs : casing.
  Variable b : bool.
  Variable n : nat.
  Hypothesis IHo : forall o', (pv_size (PMsg o') < n)%nat -> in_range sc o' = true -> pv_good sc (PMsg o') = true ->
    from_dict_cls sc (ocls o') (tr b (to_dict cs false sc o')) = Ok (norm_obj sc o').

  Let nc := length (classes sc).
  Let ne := length (enums sc).

  (* a singular message-typed value (Timestamp, Duration, nested message) *)
  Lemma single_message_rt p x :
    (pv_size x < n)%nat -> scalar_py p = false -> pyty_fits nc ne TMessage p = true ->
    elem_in_range sc TMessage p x = true -> pv_good sc x = true ->
    let j := elem_to_json (to_dict cs false sc) sc TMessage p x in
    list_or_single (elem_from_json (recf sc) sc TMessage p) (tr b j) = Ok (norm_pv sc x) /\ tr b j <> JNull.
  Proof.
    intros Hs Sp Hp Hr Hg j.
    assert (Hn : nan_canonical x = true) by (destruct p, x; try discriminate; reflexivity).
    pose proof (elem_rt sc cs b n IHo TMessage p x Hs Hp Hr Hg Hn) as R. fold j in R.
    assert (K : (exists s, j = JStr s) \/ (exists d, j = JObj d)).
    { unfold j. destruct p; try discriminate Sp; destruct x; try discriminate Hr; cbn [elem_to_json];
        try (left; eexists; reflexivity). right. apply to_dict_is_obj. }
    destruct K as [[s E]|[d E]]; rewrite E in *.
    - rewrite tr_str in *. split; [exact R|discriminate].
    - rewrite tr_obj in *. split; [exact R|discriminate].
  Qed.

  Lemma field_rt ng f sel x j :
    wf_field sc ng f = true -> (fgroup f = None -> sel = None) ->
    (pv_size x < n)%nat -> x <> PPlaceholder ->
    value_ok sc f x = true -> pv_good sc x = true -> field_nan_ok x = true ->
    field_to_json (to_dict cs false sc) sc false f sel x = Some j ->
    value_from_json (recf sc) sc f (tr b j) = Ok (norm_pv sc x) /\ tr b j <> JNull.
  Proof.
    intros W Hsel Hs Hx Hv Hg Hn Hj.
    destruct f as [name num t mp grp wr op hint ent].
    unfold wf_field in W. cbn [fnum fgroup fhint fopt fwraps fmap fty] in W, Hsel.
    fold nc ne in W.
    apply andb_prop in W as [W Wh]. clear W.
    unfold value_ok in Hv. cbn [fhint fty fwraps fmap] in Hv.
    unfold field_to_json in Hj. cbn [fty fwraps fhint fmap fopt hint_elem] in Hj.
    unfold value_from_json. cbn [fty fwraps fhint fmap hint_elem].
    destruct hint as [p|p|p|pk p]; cbn [hint_elem fhint] in Hj |- *.
    - (* ---- plain ---- *)
      apply andb_true5 in Wh as [Wop [Wwr [Wmp [Wt Wp]]]].
      apply negb_true in Wop. apply is_some'_false in Wwr. apply is_some'_false in Wmp. subst op wr mp.
      assert (Hr : elem_in_range sc t p x = true) by (destruct x; try discriminate Hv; try congruence; exact Hv).
      destruct (scalar_py p) eqn:Sp.
      + pose proof (fits_scalar _ _ _ _ Sp Wp) as Ht. destruct (scalar_not_message t Ht) as [Nm Np].
        rewrite Nm, Np in *. rewrite (elem_scalar _ _ _ _ Sp) in Hr.
        destruct (negb (is_default sc _ x) || (false || match sel with Some true => true | _ => false end)); [|discriminate Hj].
        assert (E : j = scalar_to_json sc t p x) by (destruct x; try discriminate Hr; destruct t; try discriminate Hr; inversion Hj; reflexivity).
        subst j. pose proof (scalar_atom sc t p x Ht Wp Hr) as A.
        rewrite (list_or_single_atom _ _ (atom_tr b _ A)).
        split.
        * rewrite (norm_scalar sc t x Hr). apply scalar_roundtrip; try assumption.
          destruct x; try discriminate Hr; try reflexivity. exact Hn.
        * pose proof (atom_tr b _ A) as A'. destruct (tr b (scalar_to_json sc t p x)); try discriminate A'; discriminate.
      + pose proof (fits_message _ _ _ _ Sp Wp) as ->. change (ptype_eqb TMessage TMessage) with true in *. cbv iota in Hj.
        assert (E : j = elem_to_json (to_dict cs false sc) sc TMessage p x).
        { destruct p; try discriminate Sp; destruct x; try discriminate Hr; cbn [elem_to_json];
            apply emit_some in Hj as [_ Hj]; symmetry; exact Hj. }
        subst j. apply single_message_rt; assumption.
    - (* ---- optional: a wrapper or proto3 optional ---- *)
      destruct wr as [w|].
      + apply andb_prop in Wh as [Wh Wrest]. apply andb_prop in Wh as [Wmp Wgrp].
        apply is_some'_false in Wmp. subst mp.
        apply andb_prop in Wrest as [Wrest Wfit]. apply andb_prop in Wrest as [Wrest Wcls]. apply andb_prop in Wrest as [Wop Wt].
        apply negb_true in Wop. subst op. apply ptype_eqb_eq in Wt. subst t.
        destruct (wrapper_value_type w) as [vt|] eqn:Ev; [|discriminate Wfit].
        pose proof (wrapper_same w vt Ev) as Evt. subst vt.
        pose proof (wrapper_scalar w Wcls) as Ht. pose proof (fits_scalar_py _ _ _ _ Ht Wfit) as Sp.
        change (ptype_eqb TMessage TMessage) with true in *. cbv iota in Hj.
        destruct x; try congruence;
          try (cbn [emit] in Hj; discriminate Hj);
          rewrite (elem_scalar _ _ _ _ Sp) in Hv; try (destruct w; discriminate Hv).
        all: inversion Hj; subst j; clear Hj.
        all: match goal with |- context [scalar_to_json sc ?w' ?p' ?v] =>
               pose proof (scalar_atom sc w p v Ht Wfit Hv) as A;
               pose proof (atom_tr b _ A) as A';
               rewrite (norm_scalar sc w v Hv);
               split; [destruct p; try discriminate Sp; rewrite (list_or_single_atom _ _ A'); apply scalar_roundtrip; try assumption; try reflexivity
                      |destruct (tr b (scalar_to_json sc w p v)); try discriminate A'; discriminate]
             end.
      + apply andb_prop in Wh as [Wh Wrest]. apply andb_prop in Wh as [Wmp Wgrp].
        apply is_some'_false in Wmp. apply is_some'_false in Wgrp. subst mp grp.
        apply andb_prop in Wrest as [Wrest Wp]. apply andb_prop in Wrest as [Wop Wt]. subst op.
        specialize (Hsel eq_refl). subst sel.
        destruct (scalar_py p) eqn:Sp.
        * pose proof (fits_scalar _ _ _ _ Sp Wp) as Ht. destruct (scalar_not_message t Ht) as [Nm Np].
          rewrite Nm, Np in *.
          destruct x; try congruence; try (cbn in Hj; discriminate Hj);
            rewrite (elem_scalar _ _ _ _ Sp) in Hv; try (destruct t; discriminate Hv).
          all: cbn [is_default fhint negb orb] in Hj; inversion Hj; subst j; clear Hj.
          all: match goal with |- context [scalar_to_json sc ?t' ?p' ?v] =>
               pose proof (scalar_atom sc t p v Ht Wp Hv) as A;
               pose proof (atom_tr b _ A) as A';
               rewrite (list_or_single_atom _ _ A');
               rewrite (norm_scalar sc t v Hv);
               split; [apply scalar_roundtrip; try assumption; try reflexivity
                      |destruct (tr b (scalar_to_json sc t p v)); try discriminate A'; discriminate]
             end.
        * pose proof (fits_message _ _ _ _ Sp Wp) as ->. change (ptype_eqb TMessage TMessage) with true in *. cbv iota in Hj.
          destruct x; try congruence; try (cbn in Hj; discriminate Hj).
          all: try (destruct p; discriminate Hv).
          all: match goal with |- context [norm_pv sc ?v] =>
                 assert (E : j = elem_to_json (to_dict cs false sc) sc TMessage p v)
                   by (destruct p; try discriminate Sp; try discriminate Hv; cbn [elem_to_json];
                       apply emit_some in Hj as [_ Hj]; symmetry; exact Hj);
                 subst j; apply single_message_rt; assumption
               end.
    - (* ---- repeated ---- *)
      apply andb_prop in Wh as [Wh Wp]. apply andb_prop in Wh as [Wh Wt]. apply andb_prop in Wh as [Wh Wgrp].
      apply andb_prop in Wh as [Wh Wmp]. apply andb_prop in Wh as [Wop Wwr].
      apply negb_true in Wop. apply is_some'_false in Wwr. apply is_some'_false in Wmp. subst op wr mp.
      destruct x as [| | | | | | | | |l| |]; try discriminate Hv; try congruence. clear Hx.
      cbv beta iota in Hv. rewrite all_list_forallb in Hv. rewrite forallb_forall in Hv.
      cbn [field_nan_ok] in Hn. rewrite forallb_forall in Hn.
      unfold pv_good in Hg. cbn [pv_all] in Hg. rewrite forallb_forall in Hg.
      cbn [norm_pv].
      destruct (scalar_py p) eqn:Sp.
      + pose proof (fits_scalar _ _ _ _ Sp Wp) as Ht. destruct (scalar_not_message t Ht) as [Nm Np].
        rewrite Nm, Np in *.
        destruct (negb (is_default sc _ (PList l)) || (false || match sel with Some true => true | _ => false end)); [|discriminate Hj].
        inversion Hj; subst j; clear Hj. rewrite tr_list. cbn [list_or_single]. rewrite map_map.
        split; [|discriminate].
        rewrite (mapM_map _ _ (fun v => v)).
        * cbn [bind]. rewrite map_id. f_equal. f_equal. rewrite <- (map_id l) at 1. apply map_ext_in.
          intros y Hy. symmetry. apply (norm_scalar sc t). rewrite <- (elem_scalar sc t p y Sp). apply Hv, Hy.
        * intros y Hy. apply scalar_roundtrip; try assumption.
          -- rewrite <- (elem_scalar sc t p y Sp). apply Hv, Hy.
          -- apply not_nan_canonical, Hn, Hy.
      + pose proof (fits_message _ _ _ _ Sp Wp) as ->. change (ptype_eqb TMessage TMessage) with true in *. cbv iota in Hj.
        apply emit_some in Hj as [_ Hj]. subst j. rewrite tr_list. cbn [list_or_single]. rewrite map_map.
        split; [|discriminate].
        rewrite (mapM_map _ _ (norm_pv sc)); [reflexivity|].
        intros y Hy. apply (elem_rt sc cs b n IHo); try assumption.
        * rewrite size_list in Hs. pose proof (in_sum_size y l Hy). lia.
        * apply Hv, Hy.
        * apply Hg, Hy.
        * apply not_nan_canonical, Hn, Hy.
    - (* ---- map ---- *)
      apply andb_prop in Wh as [Wh Wentry]. apply andb_prop in Wh as [Wh Wmap]. apply andb_prop in Wh as [Wh Wt].
      apply andb_prop in Wh as [Wh Wgrp]. apply andb_prop in Wh as [Wop Wwr].
      apply negb_true in Wop. apply is_some'_false in Wwr. subst op wr.
      apply ptype_eqb_eq in Wt. subst t.
      destruct mp as [[kt vt]|]; [|discriminate Wmap].
      apply andb_prop in Wmap as [Wmap Wv]. apply andb_prop in Wmap as [Wmap Wk]. apply andb_prop in Wmap as [Wkey Wvt].
      destruct x as [| | | | | | | | | |d|]; try discriminate Hv; try congruence. clear Hx.
      cbv beta iota in Hv. rewrite all_dict_forallb in Hv. rewrite forallb_forall in Hv.
      cbn [field_nan_ok] in Hn. rewrite forallb_forall in Hn.
      unfold pv_good in Hg. cbn [pv_all] in Hg. rewrite forallb_forall in Hg.
      change (ptype_eqb TMap TMessage) with false in *. change (ptype_eqb TMap TMap) with true in *. cbv iota in Hj.
      apply emit_some in Hj as [_ Hj]. subst j. rewrite tr_obj. rewrite map_map. cbn [norm_pv].
      split; [|discriminate].
      rewrite (mapM_map _ _ (fun kx => (fst kx, norm_pv sc (snd kx)))); [reflexivity|].
      intros [k y] Hy. cbn [fst snd].
      specialize (Hv _ Hy). cbn [fst snd] in Hv. apply andb_prop in Hv as [Hk Hy'].
      rewrite (key_roundtrip b kt k Wkey Hk). cbn [bind].
      rewrite (elem_rt sc cs b n IHo vt p y); try assumption.
      + reflexivity.
      + rewrite size_dict in Hs. pose proof (in_sum_size_d k y d Hy). lia.
      + apply (Hg _ Hy).
      + apply not_nan_canonical. apply (Hn _ Hy).
  Qed.
End Field.
