(* C12 extension (5) — a receiver that keeps receiving until the channel is done and returns has observed the end
   ([drained]); with it the delivery clause of the property in full: at quiescence every item sent before close() has been
   received, by exactly one receiver. *)
From BP Require Import Base.Prelude Model.Channel Model.C12X.
From BP Require Import Proofs.ChannelP1 Proofs.ChannelP2 Proofs.ChannelP3 Proofs.ChannelP4 Proofs.ChannelP5 Proofs.ChannelP6
                       Proofs.ChannelP7 Proofs.ChannelP8.
From BP Require Import Proofs.ChannelX2 Proofs.ChannelX4.
From Coq Require Import Arith Lia.
Local Open Scope nat_scope.

Lemma step_tasks_length : forall s t s', step s t = Some s' -> length (tasks s) <= length (tasks s').
Proof.
  intros s t s' H. step_inv H; simp_proj.
  all: rewrite ?app_length, ?upd_length; cbn [length];
       repeat match goal with |- context [wakeup ?b ?w ?l ?ts] =>
                destruct (wakeup_effect b w l ts eq_refl) as [[-> _]|(u0 & U0 & _ & _ & _ & ->)] end;
       rewrite ?upd_length; lia.
Qed.

Lemma reach_tasks_length : forall c s, Reach c s -> length (c_progs c) <= length (tasks s).
Proof.
  induction 1 as [|s t s' R IH Hs]; [cbn; rewrite map_length; lia|].
  pose proof (step_tasks_length _ _ _ Hs). lia.
Qed.

(* the loop is still ahead, or the end has been observed, or the task died with an exception *)
Definition LT (d : bool) (T : task) : Prop :=
  existsb is_loop_op (prog T) = true \/ d = true \/ (exists o, st T = Fin o /\ o <> ORet).

Definition loop_inv (c : config) (s : state) : Prop :=
  idxall (fun i T => loop_task c i = true -> LT (drained s) T) (tasks s).

Lemma LT_same : forall d T x, LT d T -> prog x = prog T -> is_fin (st T) = false -> LT d x.
Proof.
  intros d T x [H|[H|(o & H1 & H2)]] E NF.
  - left. rewrite E. exact H.
  - right. left. exact H.
  - rewrite H1 in NF. discriminate.
Qed.

Lemma loop_task_lt : forall c i, loop_task c i = true -> i < length (c_progs c).
Proof.
  intros c i H. unfold loop_task in H. destruct (nth_error (c_progs c) i) eqn:E; [|discriminate].
  apply nth_error_Some. congruence.
Qed.

Lemma idxall_wakeup_st : forall (P : nat -> task -> Prop) b w l ts, is_fin b = false ->
  (forall i U, st U = b -> P i U -> P i (set_st U w)) -> idxall P ts -> idxall P (snd (wakeup b w l ts)).
Proof.
  intros P b w l ts NF Hw A. destruct (wakeup_effect b w l ts NF) as [[-> _]|(u & U & HU & HS & _ & ->)]; auto.
  apply idxall_upd; auto.
Qed.

Lemma LT_set_st : forall d U b w, st U = b -> is_fin b = false -> LT d U -> LT d (set_st U w).
Proof. intros d U b w HS NF H. eapply LT_same; eauto. rewrite HS. exact NF. Qed.

Lemma LT_fin_exc : forall d T o, o <> ORet -> LT d (finished T o).
Proof. intros d T o H. right. right. exists o. split; [reflexivity|exact H]. Qed.

Ltac lt_moving t0 HP :=
  let HM := fresh "HM" in let oo := fresh "oo" in let HP1 := fresh "HP1" in let HP2 := fresh "HP2" in
  intros HM; specialize (HP HM); destruct HP as [HP|[HP|(oo & HP1 & HP2)]];
  [ | right; left; exact HP | congruence ];
  match goal with E2 : prog t0 = _ |- _ => rewrite E2 in HP end; cbn [existsb is_loop_op orb] in HP;
  first [ discriminate HP
        | left; cbn [prog set_prog]; rewrite ?existsb_app, ?(existsb_repeat_false is_loop_op IPut), ?(existsb_repeat_false is_loop_op IPutFlush) by reflexivity;
          cbn [existsb is_loop_op orb]; exact HP ].

Lemma loop_step : forall c s t s', step s t = Some s' -> length (c_progs c) <= length (tasks s) ->
  loop_inv c s -> loop_inv c s'.
Proof.
  intros c s t s' H L A. unfold loop_inv in *. step_inv H; simp_proj.
  all: try (intros i T _ _; right; left; reflexivity).
  all: match goal with E : nth_error (tasks _) _ = Some ?T |- _ => pose proof (A _ _ E) as HP; cbv beta in HP end.
  all: try (apply idxall_app1; [|intros HM; apply loop_task_lt in HM; rewrite upd_length in HM; lia]).
  all: repeat (apply idxall_upd);
       try (apply idxall_wakeup_st; [reflexivity|intros i0 U0 HS0 HU0 HM0; specialize (HU0 HM0); eapply LT_set_st; eauto|]);
       try exact A.
  all: try match goal with |- context [after_item ?o _] => destruct o; cbn [after_item fst snd] in * end.
  all: try (intros HM; apply LT_fin_exc; unfold cancel_out; destruct (tmo t0); discriminate).
  all: try (lt_moving t0 HP).
  all: match goal with E3 : nth_error (upd (tasks _) ?t ?x) ?u = Some ?t1 |- _ =>
         assert (HX : loop_task c t = true -> LT (drained s) x) by (lt_moving t0 HP);
         pose proof (idxall_upd _ _ _ _ A HX _ _ E3) as HT1; cbv beta in HT1;
         intros HM; specialize (HT1 HM); eapply LT_same; [exact HT1|reflexivity|]
       end.
  all: match goal with E4 : st ?t1 = _ |- is_fin (st ?t1) = false => rewrite E4; reflexivity end.
Qed.

Theorem reach_loop_inv : forall c s, Reach c s -> loop_inv c s.
Proof.
  induction 1 as [|s t s' R IH Hs].
  - intros i T HT HM. left. unfold loop_task in HM. cbn in HT. rewrite nth_error_map in HT.
    destruct (nth_error (c_progs c) i) as [pb|]; [|discriminate]. injection HT as <-. cbn [prog].
    induction (fst pb) as [|o p IHp]; cbn in *; [discriminate|]. destruct o; cbn in *; auto.
  - eapply loop_step; eauto. eapply reach_tasks_length; eauto.
Qed.

(* a task containing a receive loop / async-for that has returned has observed the end of the channel *)
Theorem loop_drains : forall c s i T, Reach c s -> loop_task c i = true -> nth_error (tasks s) i = Some T ->
  st T = Fin ORet -> drained s = true.
Proof.
  intros c s i T R HL HT HS. destruct (reach_gen _ _ R) as [_ _ _ _ IT _ _].
  pose proof (IT _ _ HT) as SO. unfold stat_ok in SO. rewrite HS in SO.
  destruct (reach_loop_inv c s R i T HT HL) as [H|[H|(o & H1 & H2)]].
  - rewrite SO in H. discriminate.
  - exact H.
  - rewrite HS in H1. injection H1 as <-. congruence.
Qed.

(* the delivery clause in full: no cancellation, repaired code; closed, nothing can run any more, and some receiver that
   keeps receiving until the channel is done has returned: every item whose send completed before close() has been
   received (the first npre entries of the receive log, in send order), each by exactly one receiver *)
Theorem delivery : forall c s i T, Reach c s -> cfg_nocancel c = true -> c_pinned c = false ->
  closed s = true -> quiescent s = true ->
  loop_task c i = true -> nth_error (tasks s) i = Some T -> st T = Fin ORet ->
  sent_before_close s = firstn (npre s) (received s) /\
  forall x, In x (sent_before_close s) ->
    exists r, In x (received_by s r) /\ forall r', In x (received_by s r') -> r' = r.
Proof.
  intros c s i T R NC P CL Q HL HT HS. pose proof (loop_drains c s i T R HL HT HS) as D.
  destruct (no_strand c s R NC CL Q) as [_ K]. split; [exact (K D)|].
  intros x Hx. pose proof (no_strand_items c s R NC CL Q D x Hx) as HR.
  destruct (one_receiver c s R P) as [U1 U2]. apply U2 in HR as [r Hr]. exists r. split; [exact Hr|].
  intros r' Hr'. eapply U1; eauto.
Qed.

(* ---------------------------------------------------------------- the event loop's own schedules (one ready handle run to its
   next suspension per entry) are bounded as well: each entry is at least one atomic segment *)
Lemma macro_measure : forall c fuel s t s', Reach c s -> macro fuel s t = Some s' -> Reach c s' /\ measure s' < measure s.
Proof.
  induction fuel as [|f IH]; intros s t s' R H; cbn [macro] in H; [discriminate|].
  destruct (step_b s t) as [[s1 b]|] eqn:E; [|discriminate].
  assert (E1 : step s t = Some s1) by (eapply step_of_step_b; eauto).
  pose proof (measure_decreases _ _ _ _ R E1) as M. assert (R1 : Reach c s1) by (econstructor; eauto).
  destruct b.
  - injection H as <-. auto.
  - destruct (IH _ _ _ R1 H) as [R' M']. split; [exact R'|lia].
Qed.

Theorem run_final_bounded : forall c fuel sch s s', Reach c s -> run_final fuel s sch = Some s' ->
  length sch + measure s' <= measure s /\ length sch <= bound c.
Proof.
  intros c fuel. induction sch as [|t r IH]; intros s s' R H; cbn [run_final] in H.
  - injection H as <-. pose proof (reach_measure_bound _ _ R). cbn. lia.
  - destruct (macro fuel s t) as [s1|] eqn:E; [|discriminate].
    destruct (macro_measure _ _ _ _ _ R E) as [R1 M1]. destruct (IH _ _ R1 H) as [K1 K2].
    pose proof (reach_measure_bound _ _ R). cbn [length]. lia.
Qed.

(* ---------------------------------------------------------------- no lost wake-up (closed or not, cancellation included):
   when nothing can run, a receiver is blocked only on an empty queue and a sender / the flush task only on a full one *)
Theorem no_lost_wakeup : forall c s, Reach c s -> quiescent s = true ->
  (sumf (is_st BlkGet) (tasks s) > 0 -> q s = []) /\
  (sumf (is_st BlkPut) (tasks s) > 0 -> full s = true).
Proof.
  intros c s R Q. destruct (reach_gen _ _ R) as [_ IB ID _ _ _ _].
  assert (Zw : sumf (is_st WokeGet) (tasks s) = 0)
    by (apply quiescent_zero; auto; intros T HT; unfold runnable, is_st in *; destruct (st T); cbn; auto; discriminate).
  assert (Zp : sumf (is_st WokePut) (tasks s) = 0)
    by (apply quiescent_zero; auto; intros T HT; unfold runnable, is_st in *; destruct (st T); cbn; auto; discriminate).
  split; intros HB.
  - specialize (IB HB). rewrite Zw in IB. destruct (q s); [reflexivity|cbn in IB; lia].
  - destruct (ID HB) as [M1 M2]. rewrite Zp in M2. unfold full.
    apply andb_true_iff. split; [apply negb_true_iff; apply Nat.eqb_neq; lia|apply Nat.leb_le; lia].
Qed.
