(* C18, Message.parse: the decoder preserves the flag condition [sow_ok_obj] of the bytes theorem (every message value at
   any depth has _serialized_on_wire set or holds no selection): nested messages are decoded by Message.load, which raises
   the flag first; the defaults __getattribute__ materialises hold no selection.  Plain side only, any schema. *)
From Coq Require Import ZArith List Bool Lia Arith.
From BP Require Import Base.Prelude Model.Types Model.Varint Model.Scalar Model.Float Model.Utf8 Model.Object Model.Eq Model.TimeCore.
From BP Require Import Model.Decode Model.WellFormed Model.C07Step Model.C18Beh Model.C18Parse gen.Tables.
From BP Require Import Proofs.C07InvP Proofs.C18BehBase Proofs.C18BehPrim Proofs.C18ParseBase Proofs.C18ParseUnfold.
From BP Require Import Proofs.C18ParseInv Proofs.C18ParseVal.
Import ListNotations.

Definition sv (x : pv) : bool := flag_or_nosel x && sow_ok x.

Lemma sow_ok_obj_sv c ra s u g : sow_ok_obj (Obj c ra s u g) = forallb sv ra.
Proof. reflexivity. Qed.

Lemma forallb_sv_nth ra : forallb sv ra = true <-> forall j, sv (nth j ra PPlaceholder) = true.
Proof.
  induction ra as [|x ra IH]; cbn [forallb].
  - split; [intros _ [|j]; reflexivity | reflexivity].
  - rewrite andb_true_iff, IH. split.
    + intros [Hx H] [|j]; cbn [nth]; auto.
    + intros H. split; [exact (H 0%nat) | intros j; exact (H (S j))].
Qed.

Lemma scalar_sv v : scalar_pv v = true -> sv v = true.
Proof. destruct v; try discriminate; reflexivity. Qed.

Lemma sv_sow_ok v : sv v = true -> sow_ok v = true.
Proof. unfold sv. intros H. apply andb_true_iff in H. tauto. Qed.

Lemma sow_ok_new sc c : sow_ok (PMsg (new sc c)) = true.
Proof.
  unfold new. cbn [sow_ok]. induction (cfields (get_class sc c)) as [|f fs IH]; cbn [map forallb]; [reflexivity|].
  rewrite IH. destruct (fopt f); reflexivity.
Qed.

Lemma sv_default sc f : sv (default_of sc f) = true.
Proof.
  unfold sv. rewrite andb_true_iff. split.
  - pose proof (nosel_default sc f) as N. unfold flag_or_nosel. destruct (default_of sc f); try reflexivity.
    rewrite N. apply orb_true_r.
  - unfold default_of. destruct (fhint f) as [[]| | |]; try reflexivity. apply sow_ok_new.
Qed.

Lemma sv_mark_sow v : sow_ok v = true -> (match v with PMsg _ => True | _ => flag_or_nosel v = true end) -> sv (mark_sow v) = true.
Proof.
  destruct v; intros H F; try (unfold sv; cbn [mark_sow]; rewrite H, F; reflexivity).
  destruct o as [c r s u g]. unfold sv. cbn [mark_sow flag_or_nosel osow orb andb]. exact H.
Qed.

Lemma sv_init sc v : sv v = true -> sv (if fieldless sc v then mark_sow v else v) = true.
Proof.
  intros H. destruct (fieldless sc v); [|exact H]. unfold sv in H. apply andb_true_iff in H as [F S].
  apply sv_mark_sow; [exact S|]. destruct v; auto.
Qed.

Lemma getattr_sv sc o i v : sow_ok_obj o = true -> snd (getattr sc o i) = Ok v -> sv v = true.
Proof.
  destruct o as [c ra s u g]. rewrite sow_ok_obj_sv, forallb_sv_nth. intros So H. unfold getattr in H.
  destruct (nth_error _ i) as [f|]; [|discriminate]. pose proof (So i) as Si.
  destruct (group_selects g f i) as [[|]|]; try discriminate;
    destruct (nth i ra PPlaceholder) eqn:En; cbn [snd] in H; injection H as <-; try exact Si; apply sv_default.
Qed.

Lemma sgood_frame i o o1 :
  sow_ok_obj o = true -> frame_ok i o o1 -> sv (nth i (oraw o1) PPlaceholder) = true -> sow_ok_obj o1 = true.
Proof.
  destruct o as [c ra s u g], o1 as [c1 ra1 s1 u1 g1]. rewrite !sow_ok_obj_sv, !forallb_sv_nth. cbn [oraw].
  intros So (_ & _ & _ & D) Hi j. destruct (Nat.eq_dec j i) as [->|Hne]; [exact Hi|].
  cbn [oraw] in D. destruct (D j Hne) as [E|E]; rewrite E; [apply So | reflexivity].
Qed.

Lemma current_sv sc o i f :
  kgood sc o -> sow_ok_obj o = true -> nth_error (cfields (get_class sc (ocls o))) i = Some f ->
  sv (snd (c18_current sc o i f)) = true /\ sv (nth i (oraw (fst (c18_current sc o i f))) PPlaceholder) = true.
Proof.
  intros [S _] So Hf.
  assert (Hi : (i < length (oraw o))%nat).
  { apply pshape_iff in S. destruct S as [-> _]. apply nth_error_Some. congruence. }
  pose proof (sv_default sc f) as Kd.
  unfold c18_current. destruct o as [c raw sow unk cur]. cbn [ocls oraw] in *.
  rewrite sow_ok_obj_sv, forallb_sv_nth in So. pose proof (So i) as Ki. unfold getattr. rewrite Hf.
  destruct (group_selects cur f i) as [[|]|].
  2:{ cbn zeta. cbn [fst snd]. split; [exact Kd|].
      rewrite (setattr_slot sc (Obj c raw sow unk cur) i _ f Hf Hi). apply sv_init, Kd. }
  all: destruct (nth i raw PPlaceholder) eqn:En; cbn [fst snd oraw]; rewrite ?En; try (split; [exact Ki | exact Ki]);
       rewrite nth_set_nth_eq by exact Hi; auto.
Qed.

Lemma dict_set_sow sc k v : sow_ok v = true -> forall d,
  forallb (fun kx : pv * pv => let '(_, x) := kx in sow_ok x) d = true ->
  forallb (fun kx : pv * pv => let '(_, x) := kx in sow_ok x) (dict_set d sc k v) = true.
Proof.
  intros Hv. induction d as [|[k0 x] d IH]; intros H.
  - cbn [dict_set forallb]. rewrite Hv. reflexivity.
  - unfold dict_set. fold (dict_set d sc k v). cbn [forallb] in H. apply andb_true_iff in H as [Hx H].
    destruct (pv_eq sc k0 k); cbn [forallb]; [rewrite Hv, H | rewrite Hx, IH]; auto.
Qed.

Lemma sgood_store sc o i f value o1 :
  kgood sc o -> sow_ok_obj o = true -> nth_error (cfields (get_class sc (ocls o))) i = Some f ->
  sow_ok value = true -> (ptype_eqb (fty f) TMap = false -> flag_or_nosel value = true) ->
  c18_store sc o i f value = Ok o1 -> sow_ok_obj o1 = true.
Proof.
  intros G So Hf Vs Vf H. unfold c18_store in H.
  pose proof (current_frame sc o i f) as Fc. pose proof (current_sv sc o i f G So Hf) as [Sc Si].
  destruct (c18_current sc o i f) as [o2 current]. cbn [fst snd] in *.
  assert (Hi2 : (i < length (oraw o2))%nat).
  { destruct Fc as (_ & -> & _). destruct G as [S _]. apply pshape_iff in S. destruct S as [-> _].
    apply nth_error_Some. congruence. }
  assert (So2 : sow_ok_obj o2 = true) by (eapply sgood_frame; eauto).
  assert (Fin : forall o3, frame_ok i o2 o3 -> sv (nth i (oraw o3) PPlaceholder) = true -> sow_ok_obj o3 = true).
  { intros o3 F3 K3. eapply sgood_frame; eauto. }
  destruct o2 as [c raw sow unk cur]. cbn [oraw] in Hi2. destruct (ptype_eqb (fty f) TMap) eqn:Em.
  - destruct value as [| | | | | | | | | | |e0]; try discriminate. destruct current as [| | | | | | | | | |d|]; try discriminate.
    destruct (getattr sc e0 0) as [? [k0|]] eqn:E0; try discriminate. destruct (getattr sc e0 1) as [? [v0|]] eqn:E1; try discriminate.
    injection H as <-. apply Fin; [apply frame_set_nth|]. cbn [oraw]. rewrite nth_set_nth_eq by exact Hi2.
    unfold sv. cbn [flag_or_nosel andb sow_ok]. apply dict_set_sow.
    + apply sv_sow_ok. apply (getattr_sv sc e0 1 v0); [exact Vs | rewrite E1; reflexivity].
    + apply sv_sow_ok in Sc. exact Sc.
  - assert (Hset : Ok (setattr sc (Obj c raw sow unk cur) i value) = Ok o1 -> sow_ok_obj o1 = true).
    { intros E. replace o1 with (setattr sc (Obj c raw sow unk cur) i value) by congruence.
      apply Fin; [apply frame_setattr|].
      rewrite (setattr_slot sc (Obj c raw sow unk cur) i value f); [| |exact Hi2].
      - apply sv_init. unfold sv. rewrite (Vf eq_refl), Vs. reflexivity.
      - destruct Fc as (Ec & _). cbn [ocls] in Ec |- *. rewrite Ec. exact Hf. }
    destruct current as [| | | | | | | | |l| |]; try (apply Hset; exact H).
    injection H as <-. apply Fin; [apply frame_set_nth|]. cbn [oraw]. rewrite nth_set_nth_eq by exact Hi2.
    apply sv_sow_ok in Sc. cbn [sow_ok] in Sc. unfold sv. cbn [flag_or_nosel andb sow_ok].
    destruct value; rewrite forallb_app; cbn [forallb]; rewrite Sc; cbn [andb]; try reflexivity;
      try (cbn [sow_ok] in Vs; exact Vs); rewrite Vs; reflexivity.
Qed.

Section Fuel.
  Variables (sc : schema) (fuel' : nat).
  Hypothesis NS : forall c bs m, c7_parse_new fuel' sc c bs = Ok m -> sow_ok_obj m = true.

  Lemma value_sv f p v : c7_value fuel' sc f p = Ok v ->
    sow_ok v = true /\ (ptype_eqb (fty f) TMap = false -> flag_or_nosel v = true).
  Proof.
    assert (Sc : forall x, scalar_pv x = true -> sow_ok x = true /\ (ptype_eqb (fty f) TMap = false -> flag_or_nosel x = true)).
    { intros x Hx. pose proof (scalar_sv x Hx) as Hs. unfold sv in Hs. apply andb_true_iff in Hs. tauto. }
    assert (Sv : forall x, sv x = true -> sow_ok x = true /\ (ptype_eqb (fty f) TMap = false -> flag_or_nosel x = true)).
    { intros x Hs. unfold sv in Hs. apply andb_true_iff in Hs. tauto. }
    unfold c7_value. intros H.
    destruct ((pwt p =? WIRE_LEN_DELIM) && tmem (fty f) PACKED_TYPES).
    { destruct (unpack_packed _ _ _) as [l|] eqn:E; cbn [bind] in H; [|discriminate]. injection H as <-.
      split; [|reflexivity]. cbn [sow_ok]. apply unpack_packed_scalar in E. rewrite forallb_forall in *.
      intros x Hx. apply Sc. auto. }
    destruct (pwt p =? WIRE_VARINT); [injection H as <-; apply Sc, postprocess_varint_scalar|].
    destruct ((pwt p =? WIRE_FIXED_32) || (pwt p =? WIRE_FIXED_64)); [apply Sc; eapply unpack_value_scalar; exact H|].
    destruct (ptype_eqb (fty f) TMap).
    { destruct (c7_parse_new _ _ _ _) as [m|] eqn:Pm; cbn [bind] in H; [|discriminate]. injection H as <-.
      split; [exact (NS _ _ _ Pm) | discriminate]. }
    unfold c7_post_len in H. destruct (ptype_eqb (fty f) TString).
    { destruct (utf8_valid _); [|discriminate]. injection H as <-. apply Sc. reflexivity. }
    destruct (ptype_eqb (fty f) TMessage); [|injection H as <-; apply Sc; reflexivity].
    assert (Wr : forall w0, match wrapper_cls w0 with None => Err EKey
                            | Some wc => do m <- c7_parse_new fuel' sc wc (pbytes p); snd (getattr sc m 0) end = Ok v ->
                            sv v = true).
    { intros w0 Hw. destruct (wrapper_cls w0) as [wc|]; [|discriminate].
      destruct (c7_parse_new fuel' sc wc (pbytes p)) as [m|] eqn:Pm; cbn [bind] in Hw; [|discriminate].
      eapply getattr_sv; [exact (NS _ _ _ Pm) | exact Hw]. }
    assert (Two : forall cls (k : Z -> Z -> result pv), (forall a b x, k a b = Ok x -> scalar_pv x = true) ->
        (do m <- c7_parse_new fuel' sc cls (pbytes p);
         match snd (getattr sc m 0), snd (getattr sc m 1) with Ok (PInt sec), Ok (PInt nan) => k sec nan | _, _ => Err EType end) = Ok v ->
        scalar_pv v = true).
    { intros cls k Hk Ht. destruct (c7_parse_new fuel' sc cls (pbytes p)) as [m|]; cbn [bind] in Ht; [|discriminate].
      rewrite two_ints in Ht. destruct (as_int _) as [a|]; [|discriminate]. destruct (as_int _) as [b|]; [|discriminate].
      exact (Hk a b v Ht). }
    destruct (hint_elem (fhint f)) as [| | | | | e0 | c0 | |]; destruct (fwraps f) as [w0|]; try discriminate;
      try (apply Sv; exact (Wr _ H));
      try (apply Sc; refine (Two _ _ _ H); intros a b x; cbv beta;
           match goal with |- (do us <- ?X; _) = _ -> _ => destruct X; cbn [bind]; intros Hx; [injection Hx as <-; reflexivity | discriminate] end).
    destruct (c7_parse_new _ _ _ _) as [m|] eqn:Pm; cbn [bind] in H; [|discriminate]. injection H as <-.
    apply Sv. change (sv (mark_sow (PMsg m)) = true). apply sv_mark_sow; [exact (NS _ _ _ Pm) | exact I].
  Qed.

  Lemma sgood_step o p o1 :
    kgood sc o -> sow_ok_obj o = true -> c18_step fuel' sc (get_class sc (ocls o)) o p = Ok o1 -> sow_ok_obj o1 = true.
  Proof.
    intros G So H. unfold c18_step in H.
    destruct (field_by_number (get_class sc (ocls o)) (pnum p)) as [[i f]|] eqn:Hfb.
    2:{ injection H as <-. destruct o; exact So. }
    destruct (wire_type_fits f (pwt p)); cbn [negb] in H.
    2:{ injection H as <-. destruct o; exact So. }
    destruct (c7_value fuel' sc f p) as [value|] eqn:Ev; cbn [bind] in H; [|discriminate].
    destruct (value_sv _ _ _ Ev) as [Vs Vf].
    eapply sgood_store; [exact G | exact So | eapply field_by_number_nth; exact Hfb | exact Vs | exact Vf | exact H].
  Qed.

  Lemma sgood_loop size : forall n o s read o' s',
    kgood sc o -> sow_ok_obj o = true ->
    c7_loop fuel' sc size (get_class sc (ocls o)) n o s read = Ok (o', s') -> sow_ok_obj o' = true.
  Proof.
    induction n as [|n IH]; intros o s read o' s' G So H; [discriminate|].
    rewrite c7_loop_S in H. destruct s as [|b s].
    - assert (E : Ok (o, @nil byte) = Ok (o', s')).
      { destruct size as [sz|]; [|exact H]. destruct (read <? sz); [discriminate | exact H]. }
      injection E as <- <-. exact So.
    - destruct (load_varint (b :: s)) as [[[nw r] s1]|]; cbn [bind] in H; [|discriminate].
      destruct (load_field fuel' s1 nw r) as [[p s2]|]; cbn [bind] in H; [|discriminate].
      match type of H with (do read <- ?R; _) = _ => destruct R as [read'|] end; cbn [bind] in H; [|discriminate].
      destruct (c18_step fuel' sc (get_class sc (ocls o)) o p) as [o1|] eqn:Es; cbn [bind] in H; [|discriminate].
      destruct (kgood_step _ _ _ _ _ G Es) as [G1 C1]. pose proof (sgood_step _ _ _ G So Es) as So1.
      destruct (match size with Some sz => read' =? sz | None => false end).
      + injection H as <- <-. exact So1.
      + rewrite <- C1 in H. apply IH in H; auto.
  Qed.
End Fuel.

Theorem sgood_load sc : forall fuel o s size o' s',
  kgood sc o -> sow_ok_obj o = true -> load fuel sc o s size = Ok (o', s') -> sow_ok_obj o' = true.
Proof.
  induction fuel as [|fuel' IH]; intros o s size o' s' G So H; [discriminate|].
  assert (NS : forall c bs m, c7_parse_new fuel' sc c bs = Ok m -> sow_ok_obj m = true).
  { intros c bs m Hp. unfold c7_parse_new in Hp.
    destruct (load fuel' sc (new sc c) bs None) as [[m' r]|] eqn:L; cbn [bind] in Hp; [|discriminate]. injection Hp as <-.
    apply (IH _ _ _ _ _ (kgood_new sc c) (sow_ok_new sc c) L). }
  destruct o as [c raw sow unk cur]. rewrite load_unfold_size in H.
  destruct (c18_size size s) as [[size' s0]|]; cbn [bind] in H; [|discriminate].
  assert (G0 : kgood sc (Obj c raw true unk cur)) by exact G.
  assert (S0 : sow_ok_obj (Obj c raw true unk cur) = true) by exact So.
  destruct size' as [[|q|q]|]; try (injection H as <- <-; exact S0; fail);
    apply (sgood_loop sc fuel' NS _ _ (Obj c raw true unk cur)) in H; auto.
Qed.

Theorem sgood_parse_into sc o bs m :
  pshape sc o = true -> kslots_ok sc o = true -> sow_ok_obj o = true -> parse_into sc o bs = Ok m -> sow_ok_obj m = true.
Proof.
  intros S K So H. unfold parse_into in H. destruct (load _ sc o bs None) as [[m' r]|] eqn:L; cbn [bind] in H; [|discriminate].
  injection H as <-. eapply sgood_load; [apply kgood_iff; split; eassumption | exact So | exact L].
Qed.

Theorem sgood_parse sc c bs m : parse sc c bs = Ok m -> sow_ok_obj m = true.
Proof.
  unfold parse. pose proof (kgood_new sc c) as G. apply kgood_iff in G. destruct G as [S K].
  apply sgood_parse_into; auto. apply sow_ok_new.
Qed.
