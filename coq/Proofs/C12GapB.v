(* C12 — gap closing, part B (the clause table is at the top of Proofs/C12GapA.v):
   "every later send raises ChannelClosed" at the level of runs (nothing enters the channel any more), its exactness,
   and "leaves the channel usable": after ANY history a receive on a non-empty, not-done channel gets the head item. *)
From BP Require Import Base.Prelude Model.Channel Model.C12X Model.C12Gap.
From BP Require Import Proofs.ChannelP1 Proofs.ChannelP2 Proofs.ChannelP3 Proofs.ChannelP4 Proofs.ChannelP5 Proofs.ChannelP6
                       Proofs.ChannelP7 Proofs.ChannelP8.
From BP Require Import Proofs.ChannelX2 Proofs.ChannelX3 Proofs.ChannelX5 Proofs.C12GapA.
From Coq Require Import Arith Lia.
Local Open Scope nat_scope.

(* ---------------------------------------------------------------- later sends put nothing into the channel *)
Lemma sent_frozen_step : forall s t s', step s t = Some s' -> closed s = true -> alltasks noputT (tasks s) ->
  sent s' = sent s.
Proof.
  intros s t s' H CL A. step_inv H; simp_proj; try congruence; try reflexivity; try noput_contra.
Qed.

(* closed, and no send / send_from is past its closed-check: whatever runs afterwards (any sends, send_froms, cancellations,
   any schedule), the log of completed sends never grows again, and the condition is stable *)
Theorem closed_idle_sent_frozen : forall sch s s', closed s = true -> senders_idle s = true ->
  exec s sch = Some s' ->
  sent s' = sent s /\ senders_idle s' = true /\ closed s' = true.
Proof.
  induction sch as [|t r IH]; intros s s' CL SI H; cbn in H.
  - injection H as <-. auto.
  - destruct (step s t) as [s1|] eqn:E; [|discriminate].
    pose proof (proj1 (senders_idle_iff s) SI) as A.
    pose proof (sent_frozen_step _ _ _ E CL A) as E1.
    pose proof (noput_step _ _ _ E CL A) as A1. apply senders_idle_iff in A1.
    destruct (IH s1 s' (closed_stable _ _ _ E CL) A1 H) as (B1 & B2 & B3). split; [congruence|auto].
Qed.

(* exactness of [senders_idle]: a sender blocked in put() past its closed-check completes its send after close();
   that item is not one "whose send completed before the channel was closed" *)
Theorem sent_after_close_refuted : exists c s t s',
  cfg_nocancel c = true /\ Reach c s /\ closed s = true /\ senders_idle s = false /\
  step s t = Some s' /\ sent s' = sent s ++ [Msg 0 1] /\ ~ In (Msg 0 1) (sent_before_close s').
Proof.
  exists cfg_db, (final cfg_db [0; 1; 2]), 0. eexists.
  split; [reflexivity|]. split; [apply final_reach; vm_compute; reflexivity|].
  repeat (split; [vm_compute; reflexivity|]).
  vm_compute; intros H; repeat (destruct H as [H|H]; [discriminate|]); exact H.
Qed.

(* ---------------------------------------------------------------- the channel stays usable *)
(* after ANY history (cancellations and timeouts included; repaired code, or pinned code without cancellation): a receive()
   entered while the channel is not done and the queue holds a real item at its head returns exactly that item, in one
   segment; nothing else changes *)
Theorem receive_gets_head : forall c s t T p v k r, Reach c s -> cfg_sound c = true ->
  nth_error (tasks s) t = Some T -> st T = Ready -> mc T = false -> prog T = IRecv :: p ->
  done s = false -> q s = Msg v k :: r ->
  exists s', step s t = Some s' /\ recv s' = recv s ++ [(t, Msg v k)] /\ q s' = r /\ W s' = W s /\
             sent s' = sent s /\ closed s' = closed s /\ outcome_of s' t = None.
Proof.
  intros c s t T p v k r R P HT HS HM HP HD HQ.
  destruct (conserve_g c s R P) as (_ & _ & U). rewrite HQ in U. cbn [length] in U.
  unfold step, step_b. rewrite HT, HS, HM. unfold step_ready. rewrite HP, HD. unfold do_get. simp_proj. rewrite HQ.
  simp_proj. rewrite U. eexists. split; [reflexivity|]. simp_proj. cbn [after_item fst snd].
  repeat split; try reflexivity; try lia.
  unfold outcome_of. simp_proj.
  match goal with |- context [nth_error (upd ?l t ?x) t] =>
    assert (HN : exists a, nth_error l t = Some a) end.
  { destruct (wakeup_effect BlkPut WokePut (putters s) (tasks s) eq_refl) as [[-> _]|(u & U0 & HU & _ & _ & ->)]; eauto.
    destruct (Nat.eq_dec u t) as [->|NE]; [erewrite nth_upd_same; eauto|rewrite nth_upd_other; eauto]. }
  destruct HN as [a HN]. erewrite nth_upd_same; eauto.
Qed.

Example ex_sent_frozen :
  let s := final cfg_k6 [1; 2; 0; 3] in
  Reach cfg_k6 s /\ closed s = true /\ senders_idle s = true /\ sent s = [Msg 0 0].
Proof. cbv zeta. split; [apply final_reach; vm_compute; reflexivity|]. vm_compute. auto. Qed.

(* the hypotheses of receive_gets_head after a cancellation: K6's final state extended by nothing — use the F10 loss
   configuration on the repaired code: receiver 0 was cancelled, the sender has put two items, receiver 3 is about to start *)
Example ex_usable_after_cancel :
  let s := final (cfg_f10_loss false) [0; 1; 2; 0] in
  Reach (cfg_f10_loss false) s /\ outcome_of s 0 = Some OCancelled /\ done s = false /\ q s = [Msg 2 0; Msg 2 1] /\
  exists T, nth_error (tasks s) 3 = Some T /\ st T = Ready /\ mc T = false /\ prog T = [IRecvLoop].
Proof.
  cbv zeta. split; [apply final_reach; vm_compute; reflexivity|]. vm_compute. repeat split; eauto.
Qed.
