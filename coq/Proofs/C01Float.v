(* C01 layer 1, float32 part: facts about the bit-level conversions of Model/Float.v that the round trip
   needs.  [d2f] always lands in 32 bits; a NaN goes to a NaN whose re-packing is stable.
   (That d2f/f2d ARE struct.pack/unpack("<f") is validated by the correspondence, not proved.) *)
From Coq Require Import ZArith List Bool Lia ZifyBool.
From BP Require Import Base.Prelude Model.Float Proofs.BytesP.
Ltac Zify.zify_post_hook ::= Z.to_euclidean_division_equations.

Lemma lor_high_low k n b : 0 <= n -> 0 <= b < 2 ^ n -> Z.lor (k * 2 ^ n) b = k * 2 ^ n + b.
Proof.
  intros Hn Hb. apply lor_disjoint_add. apply Z.bits_inj'. intros i Hi.
  rewrite Z.land_spec, Z.bits_0.
  destruct (Z.ltb_spec i n) as [Hlt|Hge].
  - rewrite Z.mul_pow2_bits_low by lia. reflexivity.
  - destruct (Z.eq_dec b 0) as [->|Hb0]; [rewrite Z.bits_0; apply andb_false_r|].
    assert (Z.log2 b < n) by (apply Z.log2_lt_pow2; lia).
    rewrite (Z.bits_above_log2 b i) by lia. apply andb_false_r.
Qed.

Lemma shl k n : 0 <= n -> Z.shiftl k n = k * 2 ^ n.
Proof. intros. apply Z.shiftl_mul_pow2; lia. Qed.
Lemma shr k n : 0 <= n -> Z.shiftr k n = k / 2 ^ n.
Proof. intros. apply Z.shiftr_div_pow2; lia. Qed.
Lemma land_mask k n : 0 <= n -> Z.land k (2 ^ n - 1) = k mod 2 ^ n.
Proof. intros. replace (2 ^ n - 1) with (Z.ones n) by (rewrite Z.ones_equiv; lia). apply Z.land_ones; lia. Qed.

Lemma lor_range a b n : 0 <= n -> 0 <= a < 2 ^ n -> 0 <= b < 2 ^ n -> 0 <= Z.lor a b < 2 ^ n.
Proof.
  intros Hn Ha Hb. split; [apply Z.lor_nonneg; lia|].
  destruct (Z.eq_dec (Z.lor a b) 0) as [->|Hne]; [lia|].
  assert (Hpos : 0 < Z.lor a b) by (pose proof (proj2 (Z.lor_nonneg a b) (conj (proj1 Ha) (proj1 Hb))); lia).
  apply Z.log2_lt_pow2; [exact Hpos|].
  rewrite Z.log2_lor by lia.
  destruct (Z.eq_dec a 0) as [->|Ha0]; destruct (Z.eq_dec b 0) as [->|Hb0];
    try (cbn in Hne; congruence).
  - change (Z.log2 0) with 0. rewrite Z.max_r by apply Z.log2_nonneg. apply Z.log2_lt_pow2; lia.
  - change (Z.log2 0) with 0. rewrite Z.max_l by apply Z.log2_nonneg. apply Z.log2_lt_pow2; lia.
  - apply Z.max_lub_lt; apply Z.log2_lt_pow2; lia.
Qed.

Lemma rne_bound M s : 0 <= M -> 0 < s -> M / 2 ^ s <= rne_shift M s <= M / 2 ^ s + 1.
Proof.
  intros HM Hs. unfold rne_shift. replace (s <=? 0) with false by lia.
  rewrite shr by lia.
  destruct (_ <? _); [lia|]. destruct (_ <? _); [lia|]. destruct (Z.odd _); lia.
Qed.

Section Fields.
  Variable b : Z.
  Hypothesis Hb : 0 <= b < 2 ^ 64.

  Lemma sign_cases : f64_sign b = 0 \/ f64_sign b = 1.
  Proof. unfold f64_sign. rewrite shr by lia. change (2 ^ 63) with 9223372036854775808. change (2 ^ 64) with 18446744073709551616 in Hb. lia. Qed.

  Lemma exp_range : 0 <= f64_exp b < 2048.
  Proof.
    unfold f64_exp. change 2047 with (2 ^ 11 - 1). rewrite land_mask by lia.
    change (2 ^ 11) with 2048. lia.
  Qed.

  Lemma man_range : 0 <= f64_man b < 2 ^ 52.
  Proof. unfold f64_man. rewrite land_mask by lia. apply Z.mod_pos_bound. lia. Qed.
End Fields.

Lemma some_inj {A} (a b : A) : Some a = Some b -> a = b.
Proof. intros H. inversion H. reflexivity. Qed.
Ltac inj := let H := fresh in intros H; apply some_inj in H; subst.

Ltac pw :=
  change (2 ^ 22) with 4194304 in *; change (2 ^ 23) with 8388608 in *; change (2 ^ 24) with 16777216 in *;
  change (2 ^ 29) with 536870912 in *; change (2 ^ 30) with 1073741824 in *; change (2 ^ 31) with 2147483648 in *;
  change (2 ^ 32) with 4294967296 in *; change (2 ^ 51) with 2251799813685248 in *;
  change (2 ^ 52) with 4503599627370496 in *; change (2 ^ 63) with 9223372036854775808 in *;
  change (2 ^ 64) with 18446744073709551616 in *.

(* struct.pack("<f") yields four bytes' worth *)
Lemma d2f_range b w : 0 <= b < 2 ^ 64 -> d2f b = Some w -> 0 <= w < 2 ^ 32.
Proof.
  intros Hb. unfold d2f.
  pose proof (sign_cases b Hb) as Hs. pose proof (exp_range b) as He. pose proof (man_range b) as Hm.
  set (sg := f64_sign b) in *. set (e := f64_exp b) in *. set (m := f64_man b) in *. clearbody sg e m. clear b Hb.
  assert (Hs' : Z.shiftl sg 31 = 0 \/ Z.shiftl sg 31 = 2 ^ 31) by (rewrite shl by lia; destruct Hs as [-> | ->]; [left|right]; reflexivity).
  set (s := Z.shiftl sg 31) in *. clearbody s. clear sg Hs.
  assert (Hlow : forall X, 0 <= X < 2 ^ 31 -> 0 <= Z.lor s X < 2 ^ 32).
  { intros X HX. destruct Hs' as [-> | ->].
    - rewrite Z.lor_0_l. pw. lia.
    - apply lor_range; [lia| |]; pw; lia. }
  assert (Hs0 : 0 <= s < 2 ^ 32) by (destruct Hs' as [-> | ->]; pw; lia).
  destruct (e =? 2047) eqn:E1.
  { destruct (m =? 0).
    - inj. apply Hlow. rewrite ?shl by lia. pw. lia.
    - inj. apply Hlow. rewrite ?shl, ?shr by lia.
      apply lor_range; [lia | pw; lia |]. apply lor_range; [lia | pw; lia |]. pw. lia. }
  destruct (e =? 0) eqn:E2; [inj; exact Hs0|].
  destruct (e - 1023 <? -126) eqn:E3.
  { destruct (_ >? 60) eqn:E4; [inj; exact Hs0|].
    inj. apply Hlow.
    pose proof (rne_bound (2 ^ 52 + m) (29 + (-126 - (e - 1023))) ltac:(pw; lia) ltac:(lia)) as Hr.
    assert (Hd : (2 ^ 52 + m) / 2 ^ (29 + (-126 - (e - 1023))) <= (2 ^ 52 + m) / 2 ^ 30).
    { apply Z.div_le_compat_l; [pw; lia|]. split; [pw; lia|]. apply Z.pow_le_mono_r; lia. }
    assert (Hn : 0 <= (2 ^ 52 + m) / 2 ^ (29 + (-126 - (e - 1023)))).
    { apply Z.div_pos; [pw; lia|]. apply Z.pow_pos_nonneg; lia. }
    set (D := (2 ^ 52 + m) / 2 ^ (29 + (-126 - (e - 1023)))) in *.
    set (R := rne_shift (2 ^ 52 + m) (29 + (-126 - (e - 1023)))) in *. clearbody D R.
    pw. lia. }
  pose proof (rne_bound (2 ^ 52 + m) 29 ltac:(pw; lia) ltac:(lia)) as Hr.
  set (q0 := rne_shift (2 ^ 52 + m) 29) in *. clearbody q0.
  assert (Hq0 : 2 ^ 23 <= q0 <= 2 ^ 24) by (pw; lia).
  destruct (q0 =? 2 ^ 24) eqn:E5.
  - destruct (e - 1023 + 1 >? 127) eqn:E6; [discriminate|]. inj. apply Hlow.
    rewrite ?shl by lia. apply lor_range; [lia | pw; lia | pw; lia].
  - destruct (e - 1023 >? 127) eqn:E6; [discriminate|]. inj. apply Hlow.
    rewrite ?shl by lia. apply lor_range; [lia | pw; lia | pw; lia].
Qed.

(* ---------- NaN: packing a NaN gives a float32 NaN whose unpacked value re-packs to the same four bytes ---------- *)
Lemma lor_bit k x : 0 <= k -> 0 <= x < 2 ^ (k + 1) -> Z.lor (2 ^ k) x = 2 ^ k + x mod 2 ^ k.
Proof.
  intros Hk Hx. rewrite Z.pow_add_r in Hx by lia. change (2 ^ 1) with 2 in Hx.
  assert (Hp : 0 < 2 ^ k) by (apply Z.pow_pos_nonneg; lia).
  assert (Hx0 : 0 <= x mod 2 ^ k < 2 ^ k) by (apply Z.mod_pos_bound; lia).
  assert (Hd : x / 2 ^ k = 0 \/ x / 2 ^ k = 1) by (set (p := 2 ^ k) in *; clearbody p; nia).
  pose proof (Z.div_mod x (2 ^ k) ltac:(lia)) as E.
  replace (2 ^ k) with (1 * 2 ^ k) at 1 by lia.
  destruct Hd as [Hd|Hd]; rewrite Hd in E.
  - replace x with (x mod 2 ^ k) at 1 by lia. rewrite lor_high_low by lia. lia.
  - replace x with (1 * 2 ^ k + x mod 2 ^ k) at 1 by lia.
    rewrite <- (lor_high_low 1 k (x mod 2 ^ k)) by lia.
    rewrite Z.lor_assoc, Z.lor_diag. rewrite lor_high_low by lia. lia.
Qed.

Lemma nan_fields b : f64_is_nan b = true -> f64_exp b = 2047 /\ f64_man b <> 0.
Proof. unfold f64_is_nan. intros H. apply andb_true_iff in H as [H1 H2]. split; [lia|]. apply negb_true_iff in H2. lia. Qed.

Lemma d2f_nan b :
  0 <= b < 2 ^ 64 -> f64_is_nan b = true ->
  exists w, d2f b = Some w /\ f64_is_nan (f2d w) = true /\ d2f (f2d w) = Some w.
Proof.
  intros Hb Hnan. destruct (nan_fields b Hnan) as [He Hm0].
  pose proof (sign_cases b Hb) as Hs. pose proof (man_range b) as Hm.
  set (t0 := (f64_man b / 2 ^ 29) mod 2 ^ 22).
  assert (Ht0 : 0 <= t0 < 2 ^ 22) by (apply Z.mod_pos_bound; pw; lia).
  set (u := 2 ^ 22 + t0).
  set (wv := f64_sign b * 2 ^ 31 + 255 * 2 ^ 23 + u).
  assert (Hu : 2 ^ 22 <= u < 2 ^ 23) by (unfold u; pw; lia).
  assert (Hlor22 : forall x, 0 <= x < 2 ^ 23 -> x mod 2 ^ 22 = t0 -> Z.lor (Z.shiftl 1 22) x = u).
  { intros x Hx Hx0. rewrite shl by lia. rewrite Z.mul_1_l. rewrite (lor_bit 22) by (change (22 + 1) with 23; lia). unfold u. lia. }
  (* the shape of a packed NaN *)
  assert (Hpack : forall sg m', (sg = 0 \/ sg = 1) -> 0 <= m' < 2 ^ 52 -> (m' / 2 ^ 29) mod 2 ^ 22 = t0 ->
             Z.lor (Z.shiftl sg 31) (Z.lor (Z.shiftl 255 23) (Z.lor (Z.shiftl 1 22) (Z.shiftr m' 29)))
             = sg * 2 ^ 31 + 255 * 2 ^ 23 + u).
  { intros sg m' Hsg Hm' Hm2. rewrite (shr m' 29) by lia.
    rewrite (Hlor22 (m' / 2 ^ 29)) by (try exact Hm2; pw; lia).
    rewrite !shl by lia. rewrite (lor_high_low 255 23) by lia.
    rewrite lor_high_low by (pw; lia). lia. }
  exists wv.
  assert (Hd1 : d2f b = Some wv).
  { unfold d2f. rewrite He. rewrite Z.eqb_refl. replace (f64_man b =? 0) with false by lia.
    f_equal. apply Hpack; [exact Hs | exact Hm | reflexivity]. }
  split; [exact Hd1|].
  (* unpacking *)
  set (bv := f64_sign b * 2 ^ 63 + 2047 * 2 ^ 52 + u * 2 ^ 29).
  assert (Hf : f2d wv = bv).
  { unfold f2d.
    assert (H1 : Z.shiftr wv 31 = f64_sign b) by (rewrite shr by lia; unfold wv; pw; lia).
    assert (H2 : Z.land (Z.shiftr wv 23) 255 = 255).
    { change 255 with (2 ^ 8 - 1) at 1. rewrite land_mask by lia. rewrite shr by lia. unfold wv. pw. change (2 ^ 8) with 256. lia. }
    assert (H3 : Z.land wv (2 ^ 23 - 1) = u) by (rewrite land_mask by lia; unfold wv; pw; lia).
    rewrite H1, H2, H3. rewrite Z.eqb_refl. replace (u =? 0) with false by (pw; lia).
    unfold f64_pos_inf. rewrite !shl by lia. rewrite Z.mul_1_l.
    rewrite (lor_bit 51) by (change (51 + 1) with 52; pw; lia).
    replace (2 ^ 51 + (u * 2 ^ 29) mod 2 ^ 51) with (u * 2 ^ 29) by (pw; lia).
    rewrite (lor_high_low 2047 52) by (pw; lia).
    rewrite lor_high_low by (pw; lia). unfold bv. lia. }
  rewrite Hf.
  assert (Hbv : 0 <= bv < 2 ^ 64) by (unfold bv; pw; lia).
  assert (Hse : f64_sign bv = f64_sign b) by (unfold f64_sign at 1; rewrite shr by lia; unfold bv; pw; lia).
  assert (Hee : f64_exp bv = 2047).
  { unfold f64_exp. change 2047 with (2 ^ 11 - 1) at 1. rewrite land_mask by lia. rewrite shr by lia. unfold bv. pw. change (2 ^ 11) with 2048. lia. }
  assert (Hme : f64_man bv = u * 2 ^ 29) by (unfold f64_man; rewrite land_mask by lia; unfold bv; pw; lia).
  split.
  - unfold f64_is_nan. rewrite Hee, Hme. rewrite Z.eqb_refl. replace (u * 2 ^ 29 =? 0) with false by (pw; lia). reflexivity.
  - unfold d2f. rewrite Hee, Hme, Hse. rewrite Z.eqb_refl. replace (u * 2 ^ 29 =? 0) with false by (pw; lia).
    f_equal. apply Hpack; [exact Hs | pw; lia |].
    rewrite Z.div_mul by (pw; lia). unfold u. pw. lia.
Qed.
