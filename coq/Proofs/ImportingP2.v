(* Proofs/ImportingP2.v — C13, part 2: parse_source_type_name on well-formed names and
   one lemma per reference_* function: the (annotation, import line) it returns denotes,
   under Spec/PyImport, the intended class. *)
From BP Require Import Base.Prelude Proofs.BytesP Spec.PyImport Model.Importing Proofs.ImportingP.
From Coq Require Import Lia.
Local Open Scope nat_scope.

(* ------------------------------------------------------------------ side conditions (decidable) *)
Definition no_upperb (s : list byte) : bool := forallb (fun c => negb (upperb c)) s.
(* a package segment: ASCII identifier, not a keyword, no upper-case letter *)
Definition seg_okb (s : name) : bool := identb s && no_upperb s.
Definition pkg_okb (p : path) : bool := forallb seg_okb p.
(* no '.' before the first upper-case letter (none at all if there is no upper-case letter) *)
Fixpoint no_dot_before_upper (T : list byte) : bool :=
  match T with
  | [] => true
  | c :: r => if upperb c then true else if Byte.eqb c b_dot then false else no_dot_before_upper r
  end.
(* a (possibly nested, dotted) type name as it appears after the package in a descriptor *)
Definition type_okb (T : list byte) : bool :=
  nonemptyb T && negb (existsb (Byte.eqb b_nl) T) && no_dot_before_upper T.

Lemma pkg_ok_ident p : pkg_okb p = true -> Forall (fun s => identb s = true) p.
Proof.
  unfold pkg_okb. rewrite forallb_forall, Forall_forall. intros H x Hx. specialize (H x Hx).
  unfold seg_okb in H. apply andb_true_iff in H. tauto.
Qed.
Lemma pkg_ok_noupper p : pkg_okb p = true -> Forall (fun s => no_upperb s = true) p.
Proof.
  unfold pkg_okb. rewrite forallb_forall, Forall_forall. intros H x Hx. specialize (H x Hx).
  unfold seg_okb in H. apply andb_true_iff in H. tauto.
Qed.
Lemma pkg_okb_app a b : pkg_okb (a ++ b) = true <-> pkg_okb a = true /\ pkg_okb b = true.
Proof. unfold pkg_okb. rewrite forallb_app. apply andb_true_iff. Qed.

(* ------------------------------------------------------------------ the regex scanner *)
Lemma scan_none T : no_dot_before_upper T = true -> scan T = None.
Proof.
  induction T as [|c r IH]; cbn [no_dot_before_upper scan]; [reflexivity|].
  destruct (upperb c); [reflexivity|].
  destruct (Byte.eqb c b_dot); [discriminate|]. intros H. rewrite (IH H). reflexivity.
Qed.

Lemma scan_unfold c r :
  scan (c :: r) =
  if upperb c then None
  else match scan r with
       | Some (g, rest) => Some (c :: g, rest)
       | None => if Byte.eqb c b_dot
                 then match r with d :: _ => if Byte.eqb d b_nl then None else Some ([], r) | [] => None end
                 else None
       end.
Proof. reflexivity. Qed.

Lemma scan_prefix P d T :
  no_upperb P = true -> no_dot_before_upper (d :: T) = true -> d <> b_nl ->
  scan (P ++ b_dot :: d :: T) = Some (P, d :: T).
Proof.
  intros HP HT Hd. induction P as [|c P IH].
  - cbn [app]. rewrite scan_unfold. change (upperb b_dot) with false. cbv iota.
    rewrite (scan_none _ HT). rewrite byte_eqb_refl.
    apply byte_eqb_neq in Hd. rewrite Hd. reflexivity.
  - cbn [app]. rewrite scan_unfold. unfold no_upperb in HP. cbn [forallb] in HP. apply andb_true_iff in HP. destruct HP as [Hc HP].
    apply negb_true_iff in Hc. rewrite Hc. rewrite (IH HP). reflexivity.
Qed.

Lemma take_line_id T : ~ In b_nl T -> take_line T = T.
Proof.
  induction T as [|c r IH]; cbn [take_line]; [reflexivity|]. intros H.
  destruct (Byte.eqb c b_nl) eqn:E.
  - apply byte_eqb_eq in E. subst. exfalso. apply H. left. reflexivity.
  - rewrite IH; [reflexivity|]. intros I. apply H. right. exact I.
Qed.

Lemma existsb_eqb_In c T : existsb (Byte.eqb c) T = false -> ~ In c T.
Proof.
  intros H I. assert (existsb (Byte.eqb c) T = true); [|congruence].
  apply existsb_exists. exists c. split; [exact I | apply byte_eqb_refl].
Qed.

Lemma no_upperb_join p : Forall (fun s => no_upperb s = true) p -> no_upperb (py_join b_dot p) = true.
Proof.
  intros H. unfold no_upperb. apply forallb_forall. intros x Hx.
  apply In_py_join in Hx. destruct Hx as [->|[s [Hs Hx]]]; [reflexivity|].
  rewrite Forall_forall in H. specialize (H s Hs). unfold no_upperb in H. rewrite forallb_forall in H. auto.
Qed.

Theorem parse_well_formed (tgt : path) (T : list byte) :
  pkg_okb tgt = true -> type_okb T = true ->
  parse_source_type_name (b_dot :: py_join b_dot (tgt ++ [T])) = (py_join b_dot tgt, T).
Proof.
  intros Hp HT. unfold type_okb in HT.
  apply andb_true_iff in HT. destruct HT as [HT Hnd]. apply andb_true_iff in HT. destruct HT as [Hne Hnl].
  apply negb_true_iff in Hnl. apply existsb_eqb_In in Hnl.
  destruct T as [|d T']; [discriminate|].
  assert (Hd : d <> b_nl) by (intros ->; apply Hnl; left; reflexivity).
  assert (Hdd : d <> b_dot).
  { intros ->. cbn [no_dot_before_upper] in Hnd. change (upperb b_dot) with false in Hnd.
    rewrite byte_eqb_refl in Hnd. discriminate. }
  unfold parse_source_type_name. rewrite byte_eqb_refl.
  destruct tgt as [|t0 tgt'].
  - cbn [app py_join]. unfold match_body at 1. rewrite (scan_none _ Hnd).
    unfold match_body. rewrite (scan_prefix [] d T' eq_refl Hnd Hd : scan (b_dot :: d :: T') = _).
    cbn [lstrip]. rewrite byte_eqb_refl. apply byte_eqb_neq in Hdd. cbn [lstrip]. rewrite Hdd. reflexivity.
  - rewrite py_join_snoc by discriminate.
    assert (HJ : no_upperb (py_join b_dot (t0 :: tgt')) = true) by (apply no_upperb_join, pkg_ok_noupper, Hp).
    assert (HJn : py_join b_dot (t0 :: tgt') <> []).
    { apply py_join_nonnil; [discriminate|]. apply pkg_ok_ident in Hp. rewrite Forall_forall in *.
      intros x Hx. apply identb_nonnil. auto. }
    unfold match_body at 1. rewrite (scan_prefix _ d T' HJ Hnd Hd).
    destruct (py_join b_dot (t0 :: tgt')) as [|j0 jr]; [congruence|].
    rewrite take_line_id by exact Hnl. reflexivity.
Qed.

Lemma split_pkg_join (p : path) : pkg_okb p = true -> split_pkg (py_join b_dot p) = p.
Proof.
  intros Hp. destruct p as [|a p]; [reflexivity|].
  assert (Hn : py_join b_dot (a :: p) <> []).
  { apply py_join_nonnil; [discriminate|]. apply pkg_ok_ident in Hp. rewrite Forall_forall in *.
    intros x Hx. apply identb_nonnil. auto. }
  unfold split_pkg. destruct (py_join b_dot (a :: p)) eqn:E; [congruence|]. rewrite <- E.
  rewrite py_split_is_split_on. apply split_on_join; [discriminate|].
  apply pkg_ok_ident in Hp. rewrite Forall_forall in *. intros x Hx.
  apply (ident_chars_no_dot x). apply identb_chars. auto.
Qed.

(* ------------------------------------------------------------------ list facts for the dispatch *)
Lemma skipn_length_app {A} (l r : list A) : skipn (length l) (l ++ r) = r.
Proof. induction l; cbn [length skipn app]; auto. Qed.
Lemma firstn_length_app {A} (l r : list A) : firstn (length l) (l ++ r) = l.
Proof. induction l; cbn [length firstn app]; [reflexivity | f_equal; auto]. Qed.

Lemma firstn_eq_prefix {A} (cur tgt : list A) : firstn (length cur) tgt = cur -> tgt = cur ++ skipn (length cur) tgt.
Proof. intros H. rewrite <- H at 1. symmetry. apply firstn_skipn. Qed.

Lemma common_prefix_decomp a b :
  exists ra rb, a = common_prefix a b ++ ra /\ b = common_prefix a b ++ rb.
Proof.
  revert b. induction a as [|x a IH]; intros b.
  - exists [], b. split; reflexivity.
  - destruct b as [|y b].
    + exists (x :: a), []. split; reflexivity.
    + cbn [common_prefix]. destruct (bytes_eqb x y) eqn:E.
      * apply bytes_eqb_eq in E. subst y. destruct (IH b) as [ra [rb [Ha Hb]]].
        exists ra, rb. cbn [app]. split; congruence.
      * exists (x :: a), (y :: b). split; reflexivity.
Qed.

(* ------------------------------------------------------------------ spec-side helpers *)
Lemma exec_all_one w P t b : binds w P t = Some b -> exec_all w P [t] = Some [b].
Proof. intros H. cbn [exec_all]. rewrite H. reflexivity. Qed.

Lemma rel_base_up (base up : path) : base <> [] -> rel_base (base ++ up) (S (length up)) = Some base.
Proof.
  intros Hb. unfold rel_base. rewrite app_length.
  assert (length base <> 0) by (destruct base; [congruence | discriminate]).
  assert (Nat.ltb (length up) (length base + length up) = true) as -> by (apply Nat.ltb_lt; lia).
  replace (length base + length up - length up) with (length base) by lia.
  rewrite firstn_length_app. reflexivity.
Qed.

Lemma from_import_pkg w m x :
  w_pkg w m = true -> w_cls w m x = false -> w_pkg w (m ++ [x]) = true ->
  from_import w m x = Some (VMod (m ++ [x])).
Proof. intros H1 H2 H3. unfold from_import, mod_attr. rewrite H1, H2, H3. reflexivity. Qed.

Lemma resolve_via_alias w P alias q C :
  identb alias = true -> identb C = true -> w_cls w q C = true ->
  resolve_annotation w P [(alias, VMod q)] (quoted (alias ++ b_dot :: C)) = Some (VCls q C).
Proof.
  intros Ha HC Hw. unfold resolve_annotation. rewrite unquote_quoted. unfold resolve.
  rewrite parse_dotted_two by assumption. unfold lookup_name. cbn [lookup_env]. rewrite bytes_eqb_refl.
  cbn [attrs attr]. unfold mod_attr. rewrite Hw. reflexivity.
Qed.

Lemma identb_join_us (l : path) :
  2 <= length l -> Forall (fun s => identb s = true) l -> identb (py_join b_us l) = true.
Proof.
  intros Hl Hf. destruct l as [|a [|b l]]; cbn [length] in Hl; try lia.
  inversion Hf as [|? ? Ha Hr]; subst.
  destruct a as [|a0 ar]; [discriminate|].
  rewrite py_join_cons by discriminate. change ((a0 :: ar) ++ b_us :: py_join b_us (b :: l)) with (a0 :: (ar ++ b_us :: py_join b_us (b :: l))).
  apply identb_intro_us.
  - cbn [identb] in Ha. apply andb_true_iff in Ha. destruct Ha as [Ha _]. apply andb_true_iff in Ha. tauto.
  - change (a0 :: ar ++ b_us :: py_join b_us (b :: l)) with ((a0 :: ar) ++ b_us :: py_join b_us (b :: l)).
    apply ident_chars_app; [apply identb_chars, Ha|].
    unfold ident_chars. apply forallb_forall. intros x Hx. destruct Hx as [<-|Hx]; [reflexivity|].
    apply In_py_join in Hx. destruct Hx as [->|[s [Hs Hx]]]; [reflexivity|].
    rewrite Forall_forall in Hr. specialize (Hr s Hs). apply identb_chars in Hr. unfold ident_chars in Hr.
    rewrite forallb_forall in Hr. auto.
  - right. apply in_or_app. right. left. reflexivity.
Qed.

(* alias shapes "_"*n ++ body ++ "__" with n >= 1 *)
Lemma identb_us_wrapped n body :
  n <> 0 -> ident_chars body -> identb (repeat b_us n ++ body ++ [b_us; b_us]) = true.
Proof.
  intros Hn Hb. destruct n; [congruence|]. cbn [repeat app].
  apply identb_intro_us.
  - reflexivity.
  - change (b_us :: repeat b_us n ++ body ++ [b_us; b_us]) with (repeat c_us (S n) ++ body ++ [b_us; b_us]).
    apply ident_chars_app; [apply ident_chars_repeat_us|]. apply ident_chars_app; [exact Hb | reflexivity].
  - left. reflexivity.
Qed.

Lemma app_length_sub {A} (a b : list A) : length (a ++ b) - length a = length b.
Proof. rewrite app_length. lia. Qed.

Lemma parse_stmt_from_as_nosub n N A :
  n <> 0 -> identb N = true -> identb A = true ->
  parse_stmt (s_from_sp ++ repeat c_dot n ++ s_import_sp ++ N ++ s_as_sp ++ A) = Some (SFrom n [] N A).
Proof.
  intros Hn HN HA. pose proof (parse_stmt_from_as n [] N A (or_introl Hn) (Forall_nil _) HN HA) as H.
  cbn [py_join] in H. rewrite app_nil_r in H. exact H.
Qed.

(* name the statement text under parse_stmt and state what it parses to *)
Ltac parse_is H t :=
  match goal with |- context [parse_stmt ?s] => assert (H : parse_stmt s = Some t) end.

(* ------------------------------------------------------------------ one lemma per reference_* *)
Section Refs.
  Variable w : world.
  Variable root : path.
  Hypothesis root_nonnil : root <> [].

  Lemma sibling_ok P C :
    identb C = true -> w_cls w P C = true -> denotes w P (reference_sibling C) (VCls P C).
  Proof.
    intros HC Hw. exists []. split; [reflexivity|]. cbn [fst reference_sibling].
    unfold resolve_annotation. rewrite unquote_quoted. unfold resolve. rewrite parse_dotted_one by exact HC.
    unfold lookup_name. cbn [lookup_env]. rewrite Hw. reflexivity.
  Qed.

  Lemma descendent_ok (cur rest : path) C :
    rest <> [] -> Forall (fun s => identb s = true) rest -> identb C = true ->
    (forall p r, rest = p ++ r -> w_pkg w ((root ++ cur) ++ p) = true) ->
    (forall p x r, rest = p ++ x :: r -> w_cls w ((root ++ cur) ++ p) x = false) ->
    w_cls w ((root ++ cur) ++ rest) C = true ->
    denotes w (root ++ cur) (reference_descendent cur (cur ++ rest) C) (VCls ((root ++ cur) ++ rest) C).
  Proof.
    intros Hr Hid HC Wp Wn Wc.
    destruct (snoc_cases rest) as [->|[ys [x ->]]]; [congruence|].
    apply Forall_app in Hid. destruct Hid as [Hys Hx]. inversion Hx as [|? ? Hx' _]; subst.
    unfold reference_descendent. rewrite skipn_length_app, removelast_snoc, last_snoc.
    assert (Hbase : rel_base ((root ++ cur) ++ []) 1 = Some (root ++ cur)).
    { apply (rel_base_up (root ++ cur) []). destruct root; [congruence | discriminate]. }
    rewrite app_nil_r in Hbase.
    assert (Himp : from_import w ((root ++ cur) ++ ys) x = Some (VMod ((root ++ cur) ++ ys ++ [x]))).
    { rewrite app_assoc. apply from_import_pkg.
      - apply (Wp ys [x]). reflexivity.
      - apply (Wn ys x []). reflexivity.
      - rewrite <- app_assoc. apply (Wp (ys ++ [x]) []). rewrite app_nil_r. reflexivity. }
    destruct ys as [|y0 ys'].
    - (* direct child: from . import x *)
      cbn [py_join]. cbv iota.
      exists [(x, VMod ((root ++ cur) ++ [x]))]. split.
      + cbn [snd]. apply exec_all_one. unfold binds. rewrite parse_stmt_from_dot by exact Hx'.
        cbn [exec_stmt]. rewrite Hbase. rewrite app_nil_r in *. cbn [app] in Himp. rewrite Himp. reflexivity.
      + cbn [fst]. apply resolve_via_alias; assumption.
    - assert (HJ : py_join b_dot (y0 :: ys') <> []).
      { apply py_join_nonnil; [discriminate|]. rewrite Forall_forall in *. intros s Hs. apply identb_nonnil. auto. }
      destruct (py_join b_dot (y0 :: ys')) as [|j0 jr] eqn:EJ; [congruence|]. cbv iota. rewrite <- EJ.
      set (alias := py_join b_us ((y0 :: ys') ++ [x])).
      assert (Hal : identb alias = true).
      { apply identb_join_us.
        - rewrite app_length. cbn [length]. lia.
        - apply Forall_app. split; [exact Hys | constructor; [exact Hx' | constructor]]. }
      exists [(alias, VMod ((root ++ cur) ++ (y0 :: ys') ++ [x]))]. split.
      + cbn [snd]. apply exec_all_one. unfold binds.
        parse_is Hps (SFrom 1 (y0 :: ys') x alias).
        { exact (parse_stmt_from_as 1 (y0 :: ys') x alias (or_introl (Nat.neq_succ_0 0)) Hys Hx' Hal). }
        rewrite Hps. cbn [exec_stmt]. rewrite Hbase. rewrite Himp. reflexivity.
      + cbn [fst]. apply resolve_via_alias; assumption.
  Qed.

  Lemma ancestor_ok (ts : path) (x : name) (rest : path) C :
    rest <> [] -> identb x = true -> identb C = true ->
    w_pkg w (root ++ ts) = true -> w_cls w (root ++ ts) x = false -> w_pkg w ((root ++ ts) ++ [x]) = true ->
    w_cls w ((root ++ ts) ++ [x]) C = true ->
    denotes w (root ++ (ts ++ [x]) ++ rest) (reference_ancestor ((ts ++ [x]) ++ rest) (ts ++ [x]) C)
            (VCls ((root ++ ts) ++ [x]) C).
  Proof.
    intros Hr Hx HC W1 W2 W3 W4. unfold reference_ancestor.
    rewrite app_length_sub. rewrite last_snoc.
    destruct (ts ++ [x]) as [|t0 tr] eqn:E; [destruct ts; discriminate|]. cbv iota. rewrite <- E. clear E t0 tr.
    set (d := length rest).
    set (alias := b_us :: repeat b_us d ++ x ++ [b_us; b_us]).
    assert (Hal : identb alias = true).
    { apply (identb_us_wrapped (S d) x); [discriminate | apply identb_chars, Hx]. }
    exists [(alias, VMod ((root ++ ts) ++ [x]))]. split.
    - cbn [snd]. apply exec_all_one. unfold binds.
      parse_is Hps (SFrom (S (S d)) [] x alias).
      { exact (parse_stmt_from_as_nosub (S (S d)) x alias (Nat.neq_succ_0 _) Hx Hal). }
      rewrite Hps. cbn [exec_stmt].
      assert (Hb : rel_base (root ++ (ts ++ [x]) ++ rest) (S (S d)) = Some (root ++ ts)).
      { rewrite <- (app_assoc ts [x] rest). rewrite (app_assoc root ts). cbn [app].
        apply (rel_base_up (root ++ ts) (x :: rest)). destruct root; [congruence | discriminate]. }
      rewrite Hb. rewrite app_nil_r. rewrite from_import_pkg by assumption. reflexivity.
    - cbn [fst]. apply resolve_via_alias; assumption.
  Qed.

  Lemma ancestor_root_ok (cur : path) C :
    cur <> [] -> identb C = true -> w_pkg w root = true -> w_cls w root C = true ->
    denotes w (root ++ cur) (reference_ancestor cur [] C) (VCls root C).
  Proof.
    intros Hc HC W1 W2. unfold reference_ancestor. cbn [length]. rewrite Nat.sub_0_r.
    set (d := length cur).
    assert (Hd : d <> 0) by (subst d; destruct cur; [congruence | discriminate]).
    set (alias := repeat b_us d ++ C ++ [b_us; b_us]).
    assert (Hal : identb alias = true) by (apply identb_us_wrapped; [exact Hd | apply identb_chars, HC]).
    exists [(alias, VCls root C)]. split.
    - cbn [snd]. apply exec_all_one. unfold binds.
      parse_is Hps (SFrom (S d) [] C alias).
      { exact (parse_stmt_from_as_nosub (S d) C alias (Nat.neq_succ_0 _) HC Hal). }
      rewrite Hps. cbn [exec_stmt]. subst d. rewrite rel_base_up by exact root_nonnil.
      rewrite app_nil_r. unfold from_import, mod_attr. rewrite W1, W2. reflexivity.
    - cbn [fst]. unfold resolve_annotation. rewrite unquote_quoted. unfold resolve.
      rewrite parse_dotted_one by exact Hal. unfold lookup_name. cbn [lookup_env]. rewrite bytes_eqb_refl.
      reflexivity.
  Qed.

  Variable snake : list byte -> list byte.
  Hypothesis snake_chars : forall s, ident_chars (snake s).

  Lemma cousin_ok (sh ra rb : path) C :
    common_prefix (sh ++ ra) (sh ++ rb) = sh ->
    ra <> [] -> rb <> [] -> Forall (fun s => identb s = true) rb -> identb C = true ->
    (forall p r, rb = p ++ r -> w_pkg w ((root ++ sh) ++ p) = true) ->
    (forall p x r, rb = p ++ x :: r -> w_cls w ((root ++ sh) ++ p) x = false) ->
    w_cls w ((root ++ sh) ++ rb) C = true ->
    denotes w (root ++ sh ++ ra) (reference_cousin snake (sh ++ ra) (sh ++ rb) C) (VCls ((root ++ sh) ++ rb) C).
  Proof.
    intros Hcp Hra Hrb Hid HC Wp Wn Wc. unfold reference_cousin. rewrite Hcp.
    rewrite app_length_sub. rewrite skipn_length_app.
    destruct (snoc_cases rb) as [->|[ys [x ->]]]; [congruence|].
    apply Forall_app in Hid. destruct Hid as [Hys Hx]. inversion Hx as [|? ? Hx' _]; subst.
    rewrite removelast_snoc. rewrite (app_assoc sh ys [x]), last_snoc.
    set (d := length ra).
    assert (Hd : d <> 0) by (subst d; destruct ra; [congruence | discriminate]).
    set (alias := repeat b_us d ++ snake (py_join b_dot (ys ++ [x])) ++ [b_us; b_us]).
    assert (Hal : identb alias = true) by (apply identb_us_wrapped; [exact Hd | apply snake_chars]).
    exists [(alias, VMod ((root ++ sh) ++ ys ++ [x]))]. split.
    - cbn [snd]. apply exec_all_one. unfold binds.
      parse_is Hps (SFrom (S d) ys x alias).
      { exact (parse_stmt_from_as (S d) ys x alias (or_introl (Nat.neq_succ_0 _)) Hys Hx' Hal). }
      rewrite Hps. cbn [exec_stmt]. rewrite (app_assoc root sh ra). subst d.
      rewrite rel_base_up by (destruct root; [congruence | discriminate]).
      rewrite (app_assoc (root ++ sh) ys [x]).
      rewrite from_import_pkg; [reflexivity | | |].
      + apply (Wp ys [x]). reflexivity.
      + apply (Wn ys x []). reflexivity.
      + rewrite <- app_assoc. apply (Wp (ys ++ [x]) []). rewrite app_nil_r. reflexivity.
    - cbn [fst]. apply resolve_via_alias; assumption.
  Qed.

  (* import a.b.c as z  (reference_absolute): absolute, does not depend on root *)
  Lemma absolute_ok (P m : path) C :
    m <> [] -> Forall (fun s => identb s = true) m -> identb C = true ->
    identb (snake (py_join b_dot m)) = true ->
    w_pkg w m = true -> w_cls w m C = true ->
    denotes w P (reference_absolute snake m C) (VCls m C).
  Proof.
    intros Hm Hid HC Hal W1 W2. unfold reference_absolute.
    exists [(snake (py_join b_dot m), VMod m)]. split.
    - cbn [snd]. apply exec_all_one. unfold binds.
      change (py_join b_dot m) with (py_join c_dot m).
      rewrite parse_stmt_import_as by assumption. cbn [exec_stmt]. rewrite W1. reflexivity.
    - cbn [fst]. apply resolve_via_alias; assumption.
  Qed.
End Refs.
