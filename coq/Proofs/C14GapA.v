(* C14 - gap analysis of the property text against Properties/C14.v, and the gap-closing proofs (GapA = this file,
   GapB = Proofs/C14GapB.v: gap g).

   PROPERTY TEXT, clause by clause  ->  theorems that existed  ->  gap  ->  closed by

   (1) "Read-only operations - attribute reads (including lazily defaulted nested messages), bytes, len, ==, bool, repr,
        to_dict, to_json, to_pydict - never change what a message subsequently ENCODES TO"
         -> C14_observer_enc, C14_observers_pure, C14_materialisation_invisible: every state, every finite sequence, errors
            of bytes() included.  All nine observers are constructors of [observer] (BDump besides).
         gap a: "encodes to" is observed through bytes(), len() AND dump(); only enc_obj was stated.
            -> outputs_stable: for every state reads / copies left behind, bytes, len, dump (plain and delimited), bool and ==
               in both operand orders return what they returned before (result or error) - composition with C09's
               two-walks theorem (len_matches_bytes), no hypothesis beyond wf_schema.
   (2) "... COMPARES EQUAL TO"  -> same theorems (== against EVERY other value, both operand positions).  No gap.
   (3) "... or REPORTS AS PRESENT"
         -> C14_observer_presence (presence_at at every path: serialized_on_wire, which_one_of of every group, None-ness).
            is_set: C14_is_set_refuted (K4) + C14_observer_is_set_optional.
         gap b: the flag and the oneof selection of the message itself were only readable inside presence_at [].
            -> keep_flag_selection: _serialized_on_wire, _group_current and which_one_of for every group are literally
               unchanged by whatever reads / copies did (composition with C07's reading of which_one_of).
   (4) "copy, deepcopy and a pickle round trip EACH yield a message that is equal to the original and encodes to identical
        bytes (unknown fields, oneof selection and nested-message presence included)"
         -> C14_copy_faithful / C14_deepcopy_faithful_partial under shaped_top / shaped_obj ("true of every Python object":
            evaluated on samples only); C14_pickle / C14_pickle_unknown_any_depth under pickle_pre(_u) (sampled).
         gap c: the shape hypothesis is never derived.  -> value_ok_shaped: every value that satisfies C01's condition is
            shaped at every depth; copies_faithful_value_ok: both copy theorems without a shape hypothesis;
            copies_faithful_reachable: for every object a run7 history of public-API operations (constructor, from_dict on
            class and instance, assignments through any path, reads, parse of clean bytes, copies, pickles) produces, under
            C01's operation-level conditions - this is the quantifier's "constructed, decoded from bytes, loaded from dicts".
            Exactness of the shape hypothesis: NOT established - no unshaped witness on which copy differs was found (the
            model pads a short attribute list with the fresh defaults); the hypothesis may be redundant, not proved.
         gap d: pickle_pre is sampled.  -> pickle_reachable: discharged for run7-reachable objects (composition with
            C01_reachable_sow_ok_parse), sow_ok included, so the top-level presence statement is unconditional there;
            the only value-level premise left is enc_small (bytes(m) shorter than 2^64).
         gap e: "each": nothing related the three copies to each other.  -> pickle_of_mat_exact: pickling any state reads /
            copies left behind returns THE SAME result as pickling the original, errors included, no side condition
            (generalises C14_pickle_after_observers to copy / deepcopy / any interleaving: pickle_after_cops_exact);
            three_copies_agree: copy, deepcopy and the unpickled message have the same bytes, the same unknown bytes, the same
            selection, and unpickling any of them gives one and the same object.
         gap f: WHEN does the pickle round trip return a message at all.  -> pickle_accept_iff: composition with
            C17_accept_iff - exactly when bytes(m) exists and is [valid] for the class; pickle_err_iff the failing half;
            pickle_pre_valid: under pickle_pre the bytes ARE valid.
   (5) "mutating a deep copy or an unpickled copy never affects the original"
         -> heap model: C14_deepcopy_independent, C14_pickle_independent, C14_copy_shares_refuted.  Value level: nothing to say.
         not extended here (chains of copies / two copies of one original against each other at heap level: open).
   (6) quantifier "for all message values (constructed, decoded from bytes, loaded from dicts)": observers - every state, no
       gap; copies - gap c/d above.
   (7) quantifier "all finite sequences of observer calls followed by copy/deepcopy/pickle, in any order"
         -> C14_observers_and_copies_any_order, C14_pickle_after_any_order, C14_pickle_fixed_point.
         gap g: histories in which pickles are INTERLEAVED with observers and copies (pickle is not a [cop]).
            -> Model/C14GapDef.v [cop2] adds it; GapB any_order_with_pickles / pickles_in_sequence_agree: along any such sequence from a pickle_pre state every
               state is either a materialisation of the start or a materialisation of the one unpickled object, hence has the
               bytes / unknown bytes / class of the original throughout, and every pickle in the sequence succeeds. *)
From Coq Require Import ZArith List Bool Lia.
From BP Require Import Base.Prelude Model.Types Model.Object Model.Eq Model.Encode Model.Decode Model.Len Model.WellFormed.
From BP Require Import Model.History Model.C07Ops Model.C14Ops Model.C01Def Model.C01Reach Model.C01Parse Model.C14Pickle Model.C14Seq.
From BP Require Import Model.C17Typed Model.C17Nested.
From BP Require Import Proofs.C14Ind Proofs.C14Mat Proofs.C14Obs Proofs.C14Pres Proofs.C14Thm Proofs.C14Seq Proofs.C14Pickle.
From BP Require Import Proofs.C14PicklePres2 Proofs.C14Seq2.
From BP Require Proofs.LenP Proofs.C01Main Proofs.C01Unfold Proofs.C01ReachBase Proofs.C01ReachShape Proofs.C01Reach2B Proofs.C17NestedAcceptP.
Import ListNotations.

(* ---------- (1a) outputs of the encoding observers ---------- *)
Lemma len_of_enc_eq sc o o' : enc_obj sc o' = enc_obj sc o -> len_obj sc o' = len_obj sc o.
Proof.
  intros E. pose proof (LenP.len_matches_bytes sc o) as A. pose proof (LenP.len_matches_bytes sc o') as A'.
  unfold LenP.agree in A, A'. rewrite E in A'.
  destruct (enc_obj sc o) as [b|e]; destruct (len_obj sc o) as [n|e1]; destruct (len_obj sc o') as [n'|e2];
    try contradiction; congruence.
Qed.

Lemma dump_of_enc_eq sc o o' d : enc_obj sc o' = enc_obj sc o -> dump sc o' d = dump sc o d.
Proof. intros E. unfold dump. rewrite E, (len_of_enc_eq sc o o' E). reflexivity. Qed.

Theorem outputs_stable sc : wf_schema sc = true -> forall o o', mat_obj sc o o' = true ->
  enc_obj sc o' = enc_obj sc o /\ len_obj sc o' = len_obj sc o /\ (forall d, dump sc o' d = dump sc o d) /\
  obj_bool sc o' = obj_bool sc o /\
  (forall x, obj_eq sc o' x = obj_eq sc o x /\ obj_eq sc x o' = obj_eq sc x o).
Proof.
  intros Hwf o o' Hm. destruct (mat_indistinguishable sc Hwf o o' Hm) as (Me & Meq & Mb & _).
  split; [exact Me|]. split; [exact (len_of_enc_eq sc o o' Me)|]. split; [intros d; exact (dump_of_enc_eq sc o o' d Me)|].
  split; [exact Mb | exact Meq].
Qed.

Theorem outputs_stable_observers sc : wf_schema sc = true -> forall o bs,
  enc_obj sc (observe_all sc o bs) = enc_obj sc o /\ len_obj sc (observe_all sc o bs) = len_obj sc o /\
  (forall d, dump sc (observe_all sc o bs) d = dump sc o d) /\
  obj_bool sc (observe_all sc o bs) = obj_bool sc o /\
  (forall x, obj_eq sc (observe_all sc o bs) x = obj_eq sc o x /\ obj_eq sc x (observe_all sc o bs) = obj_eq sc x o).
Proof. intros Hwf o bs. apply (outputs_stable sc Hwf). apply observe_all_mat. Qed.

(* ---------- (3b) flag and selection ---------- *)
Theorem keep_flag_selection sc o o' : mat_obj sc o o' = true ->
  osow o' = osow o /\ ocur o' = ocur o /\ (forall g, which_one_of o' g = which_one_of o g).
Proof.
  intros Hm. destruct (mat_obj_cur sc o o' Hm) as (Hc & Hs). split; [exact Hs|]. split; [exact Hc|].
  intros g. unfold which_one_of. rewrite Hc. reflexivity.
Qed.

Theorem observers_keep_flag_selection sc o bs :
  osow (observe_all sc o bs) = osow o /\ ocur (observe_all sc o bs) = ocur o /\
  (forall g, which_one_of (observe_all sc o bs) g = which_one_of o g).
Proof. exact (keep_flag_selection sc o _ (observe_all_mat sc bs o)). Qed.

Theorem cops_keep_flag_selection sc : wf_schema sc = true -> forall l o, cops_shaped sc o l = true ->
  osow (apply_cops sc o l) = osow o /\ ocur (apply_cops sc o l) = ocur o /\
  (forall g, which_one_of (apply_cops sc o l) g = which_one_of o g).
Proof. intros Hwf l o H. exact (keep_flag_selection sc o _ (cops_mat sc Hwf l o H)). Qed.

(* ---------- (4c) the shape hypothesis ---------- *)
Lemma shaped_obj_top sc o : shaped_obj sc o = true -> shaped_top sc o = true.
Proof.
  destruct o as [c raw s u g]. unfold shaped_obj, shaped_top. cbn [shaped oraw ocls].
  intros H. apply andb_prop in H as [H _]. exact H.
Qed.

Theorem value_ok_shaped sc o : c01_value_ok sc o = true -> shaped_obj sc o = true /\ shaped_top sc o = true.
Proof.
  intros Hv. assert (Hs : shaped_obj sc o = true).
  { apply C01ReachShape.vgood_shaped. apply C01ReachBase.vgood_of_value_ok. exact Hv. }
  split; [exact Hs | exact (shaped_obj_top sc o Hs)].
Qed.

Definition faithful (sc : schema) (o oc : obj) : Prop :=
  (enc_obj sc oc = enc_obj sc o /\
   (forall x, obj_eq sc oc x = obj_eq sc o x /\ obj_eq sc x oc = obj_eq sc x o) /\
   obj_bool sc oc = obj_bool sc o /\
   (forall p, presence_at sc oc p = presence_at sc o p) /\
   ounk oc = ounk o /\ ocls oc = ocls o) /\
  osow oc = osow o /\ ocur oc = ocur o.

Theorem copies_faithful_value_ok sc o : wf_schema sc = true -> c01_value_ok sc o = true ->
  faithful sc o (copy sc o) /\ faithful sc o (deepcopy sc o) /\
  mat_obj sc o (copy sc o) = true /\ mat_obj sc o (deepcopy sc o) = true.
Proof.
  intros Hwf Hv. destruct (value_ok_shaped sc o Hv) as (Hs & Ht).
  split; [exact (copy_faithful sc Hwf o Ht)|]. split; [exact (deepcopy_faithful sc Hwf o Hs)|].
  split; [apply (copy_mat sc (wf_schema_opt_ok sc Hwf) o Ht) | apply (deepcopy_mat sc (wf_schema_opt_ok sc Hwf) o Hs)].
Qed.

Theorem copies_faithful_reachable sc c ops o :
  c01_schema_ok sc = true -> hist_ok op_value_ok_p sc (new sc c) ops = true -> run7 sc (new sc c) ops = Ok o ->
  shaped_obj sc o = true /\ faithful sc o (copy sc o) /\ faithful sc o (deepcopy sc o).
Proof.
  intros Hs Hh E. pose proof (c01_schema_wf sc Hs) as Hwf.
  pose proof (C01Reach2B.c01_reachable_value_ok_parse sc c ops o Hs Hh E) as Hv.
  destruct (copies_faithful_value_ok sc o Hwf Hv) as (A & B & _).
  split; [exact (proj1 (value_ok_shaped sc o Hv))|]. split; [exact A | exact B].
Qed.

(* ---------- (4e) the three copies against each other ---------- *)
(* pickling ANY state reads / copies left behind returns what pickling the original returns: result or error, no side condition *)
Theorem pickle_of_mat_exact sc : wf_schema sc = true -> forall o o2,
  mat_obj sc o o2 = true -> pickle_rt sc o2 = pickle_rt sc o.
Proof. intros Hwf o o2 Hm. exact (pickle_of_mat sc Hwf o o2 Hm). Qed.

Theorem pickle_after_cops_exact sc : wf_schema sc = true -> forall l o,
  cops_shaped sc o l = true -> pickle_rt sc (apply_cops sc o l) = pickle_rt sc o.
Proof. intros Hwf l o H. apply (pickle_of_mat sc Hwf). apply (cops_mat sc Hwf l o H). Qed.

Theorem three_copies_agree sc o :
  pickle_pre sc o = true -> shaped_obj sc o = true ->
  exists o', pickle_rt sc o = Ok o' /\ pickle_rt sc (copy sc o) = Ok o' /\ pickle_rt sc (deepcopy sc o) = Ok o' /\
    pickle_rt sc o' = Ok o' /\
    enc_obj sc (copy sc o) = enc_obj sc o /\ enc_obj sc (deepcopy sc o) = enc_obj sc o /\ enc_obj sc o' = enc_obj sc o /\
    ounk (copy sc o) = ounk o /\ ounk (deepcopy sc o) = ounk o /\ ounk o' = ounk o /\
    (forall g, which_one_of (copy sc o) g = which_one_of o g /\ which_one_of (deepcopy sc o) g = which_one_of o g /\
               which_one_of o' g = which_one_of o g) /\
    (forall p, presence_at sc (copy sc o) p = presence_at sc o p /\ presence_at sc (deepcopy sc o) p = presence_at sc o p).
Proof.
  intros Hpre Hs. pose proof (pickle_pre_wf sc o Hpre) as Hwf. pose proof (wf_schema_opt_ok sc Hwf) as Hopt.
  pose proof (copy_mat sc Hopt o (shaped_obj_top sc o Hs)) as Mc. pose proof (deepcopy_mat sc Hopt o Hs) as Md.
  destruct (pickle_summary sc o o Hpre (mat_obj_refl sc o)) as (o' & Hp & He & Hu & _ & _ & Hg & _).
  destruct (mat_indistinguishable sc Hwf o _ Mc) as (Ce & _ & _ & Cp & Cu & _).
  destruct (mat_indistinguishable sc Hwf o _ Md) as (De & _ & _ & Dp & Du & _).
  exists o'. split; [exact Hp|]. split; [rewrite (pickle_of_mat sc Hwf o _ Mc); exact Hp|].
  split; [rewrite (pickle_of_mat sc Hwf o _ Md); exact Hp|].
  split; [exact (proj1 (pickle_fixed_point sc o o' Hpre Hp))|].
  repeat (split; [assumption|]). split.
  - intros g. split; [exact (proj2 (proj2 (keep_flag_selection sc o _ Mc)) g)|].
    split; [exact (proj2 (proj2 (keep_flag_selection sc o _ Md)) g) | exact (Hg g)].
  - intros p. split; [exact (Cp p) | exact (Dp p)].
Qed.

(* ---------- (4d) pickle for reachable objects ---------- *)
Theorem pickle_reachable sc c ops o o2 :
  c01_schema_ok sc = true -> hist_ok op_reach_ok_p sc (new sc c) ops = true -> run7 sc (new sc c) ops = Ok o ->
  enc_small sc o = true -> mat_obj sc o o2 = true ->
  exists o', pickle_rt sc o2 = Ok o' /\ pickle_rt sc o = Ok o' /\ o' = norm_obj sc o /\
    (deep nan_free (PMsg o) = true -> obj_eq sc o' o2 = true /\ obj_eq sc o2 o' = true) /\
    enc_obj sc o' = enc_obj sc o2 /\
    ocls o' = ocls o2 /\ ounk o' = ounk o2 /\ ounk o' = [] /\ osow o' = true /\ ocur o' = ocur o2 /\
    (forall g, which_one_of o' g = which_one_of o2 g) /\
    presence_below sc o' [] = presence_below sc o2 [] /\ (forall i, child_flag sc o' i = child_flag sc o2 i).
Proof.
  intros Hs Hh E Hsm Hm.
  destruct (C01Reach2B.c01_reachable_sow_ok_parse sc c ops o Hs Hh E) as (Hv & Hw).
  destruct (pickle_faithful_of_mat sc o o2 Hs Hv Hsm Hm) as (o' & P2 & P & F).
  destruct (pickle_faithful_c01 sc o Hs Hv Hsm) as (o1 & P1 & N1 & F1). rewrite P in P1. injection P1 as <-.
  destruct F as (Fe & Fb & Fc & Fu & Fs & Fg & Fw & Fp). destruct (Fp Hw) as (Fp1 & Fp2).
  destruct F1 as (_ & _ & _ & Fu1 & _).
  assert (Hnu : ounk o = []).
  { pose proof Hv as Hv2. apply C01Main.c01_value_ok_spec in Hv2. destruct Hv2 as (_ & Hd). destruct o as [c0 raw s u g].
    rewrite C01Unfold.deep_msg in Hd. apply andb_true_iff in Hd as [Hloc _]. unfold C01Main.local_ok in Hloc.
    apply andb_true_iff in Hloc as [Hloc _]. apply andb_true_iff in Hloc as [_ Hnu].
    unfold no_unknown in Hnu. cbn [ounk] in *. destruct u; [reflexivity | discriminate]. }
  exists o'. repeat (split; [assumption|]).
  split; [rewrite Fu1; exact Hnu|]. repeat (split; [assumption|]). exact Fp2.
Qed.

(* ---------- (4f) when the pickle round trip returns a message: composition with C17_accept_iff ---------- *)
Theorem pickle_accept_iff sc : wf_schema sc = true -> has_builtins sc -> entries_agree sc = true -> forall o,
  (exists o', pickle_rt sc o = Ok o') <-> (exists bs, enc_obj sc o = Ok bs /\ valid sc (ocls o) bs).
Proof.
  intros Hwf Hb He o. unfold pickle_rt. split.
  - intros (o' & H). destruct (enc_obj sc o) as [bs|e]; cbn [bind] in H; [|discriminate].
    exists bs. split; [reflexivity|]. apply (C17NestedAcceptP.accept_iff sc Hwf Hb He). exists o'. exact H.
  - intros (bs & Eb & V). rewrite Eb. cbn [bind]. apply (C17NestedAcceptP.accept_iff sc Hwf Hb He). exact V.
Qed.

Theorem pickle_err_iff sc : wf_schema sc = true -> has_builtins sc -> entries_agree sc = true -> forall o,
  (exists e, pickle_rt sc o = Err e) <->
  ((exists e, enc_obj sc o = Err e) \/ (exists bs, enc_obj sc o = Ok bs /\ ~ valid sc (ocls o) bs)).
Proof.
  intros Hwf Hb He o. unfold pickle_rt. destruct (enc_obj sc o) as [bs|e]; cbn [bind].
  - split.
    + intros (e & H). right. exists bs. split; [reflexivity|]. intros V.
      apply (C17NestedAcceptP.accept_iff sc Hwf Hb He) in V. destruct V as (m & P). congruence.
    + intros [(e & H)|(bs' & H & NV)]; [discriminate|]. injection H as <-.
      destruct (parse sc (ocls o) bs) as [m|e] eqn:P; [|exists e; reflexivity].
      exfalso. apply NV. apply (C17NestedAcceptP.accept_iff sc Hwf Hb He). exists m. exact P.
  - split; [intros _; left; exists e; reflexivity | intros _; exists e; reflexivity].
Qed.

(* what betterproto writes for a message within the side conditions is valid input for its own class *)
Theorem pickle_pre_valid sc o : has_builtins sc -> entries_agree sc = true -> pickle_pre sc o = true ->
  exists bs, enc_obj sc o = Ok bs /\ valid sc (ocls o) bs.
Proof.
  intros Hb He Hpre. pose proof (pickle_pre_wf sc o Hpre) as Hwf.
  apply (pickle_accept_iff sc Hwf Hb He).
  destruct (pickle_summary sc o o Hpre (mat_obj_refl sc o)) as (o' & Hp & _). exists o'. exact Hp.
Qed.
