(* C18 - gap analysis of the property text against Properties/C18.v (sections 1-10), and the gap-closing proofs
   (GapA = this file, GapB = C18GapB.v: the constructor).

   PROPERTY TEXT, clause by clause  ->  theorems that existed  ->  gap  ->  closed by

   (1) "for every supported combination of plugin options (typing.direct, typing.root, typing.310; standard or pydantic)"
         -> C18_options (3 x 2 strings, either order), C18_options_multiple_rejected.
         gap a: "as the default configuration": no theorem names the default.  -> options_default_is_direct_plain.
         gap b: "select EXACTLY that configuration": distinct configurations are never confused.  -> options_injective.
   (2) "the generated package imports without error"
         -> C18_denote / C18_sites / C18_template_sites / C18_imports_cover (annotation text is an annotation, every
            generic is imported); Jinja and CPython's importer are run for real by the check, not modelled.  No new theorem
            (K32 stays an open finding).
   (3) "defines the same classes with the same field numbers, types, groups and enum values as the default configuration"
         -> C18_metadata_indep / C18_metadata_pydantic (per field, plugin side), C18_schema_pydantic (class table = pyd_schema).
         gap: no theorem says that pyd_schema KEEPS names, numbers, proto types, map types, groups, wrapped types, Entry
            classes, group counts, the number of classes and the enum table; nor that what it changes is confined to
            (optional, hint) of oneof members.
         -> pyd_schema_shape (every schema, no hypothesis), pyd_field_exact (what changes, and only for members),
            pyd_field_changes_member (a well-formed member IS changed: the two class tables differ - converse),
            configurations_same_classes (all 3 x 2 configurations of the plugin model: same shape as the default one).
   (4) quantifier "services with every streaming cardinality"
         -> C18_template_sites is per site.  gap: no statement per METHOD and cardinality.
         -> method_signature_same: for each of the 2 x 2 cardinalities, every annotation of the Stub and the Base
            signature exists under the three compilers and denotes the same type.
   (5) "For identical field values the classes ... encode to identical bytes and identical JSON"
         -> C18_bytes_pydantic, C18_json_pydantic, C18_configurations, C18_parse_* (section 10).
         gap a: "identical field values": what orel fixes besides the attributes was implicit.  -> orel_observables
            (class, flag, unknown bytes [C08], selections / which_one_of [C07], number of slots).
         gap b: C09 (len) never composed.  -> len_pydantic (len() of the two classes agrees, error kind included).
         gap c: C17 acceptance never composed.  -> parse_accept_same, parse_accept_iff_valid (the pydantic class accepts
            exactly the byte strings that are [valid] for the PLAIN class table - pyd_schema itself is outside wf_schema,
            so C17_accept_iff does not apply to it directly).
         gap d: C08: unknown fields kept by both decoders.  -> parse_unknown_same.
         gap e: interoperability - bytes written by one variant and read by the other.  -> cross_variant_wire.
         gap f: C01 round trip of the pydantic class.  -> roundtrip_pydantic (bytes(o') parse back, in the pydantic class, to
            an object corresponding to norm_obj of the plain value, which encodes to the same bytes again), and
            roundtrip_pydantic_reachable for everything a run7 history of public-API operations builds (C01's
            reachability discharges c01_value_ok; the C18 flag condition stays: K37 shows it is needed).
         gap g: from_dict / from_json and the constructor: GapB. *)
From Coq Require Import ZArith List Bool Lia Arith.
From BP Require Import Base.Prelude Model.Types Model.Object Model.Eq Model.Encode Model.Decode Model.Json Model.Len Model.WellFormed.
From BP Require Import Model.History Model.C07Ops Model.C01Def Model.C17Typed Model.C17Nested.
From BP Require Import Model.C18Beh Model.C18BehEx Model.C18Parse Model.C18Bridge Model.C18GapA.
From BP Require Import Proofs.C18BehBase Proofs.C18BehEnc Proofs.C18BehEx Proofs.C18ParseBase Proofs.C18ParseSim Proofs.C18ParseSow Proofs.C18ParseCor.
From BP Require Import Proofs.C18BridgeP Proofs.LenP.
From BP Require Proofs.C01Final Proofs.C17NestedAcceptP.
Import ListNotations.

(* ---------------- (3) the same classes ---------------- *)
Lemma pyd_field_shape f : shape_of (pyd_field f) = shape_of f.
Proof.
  unfold shape_of. rewrite pyd_field_name, pyd_field_num, pyd_field_ty, pyd_field_map, pyd_field_group, pyd_field_wraps, pyd_field_entry.
  reflexivity.
Qed.

Lemma pyd_class_shape cd : class_shape (pyd_class cd) = class_shape cd.
Proof.
  unfold class_shape, pyd_class. cbn [cfields cngroups]. f_equal. rewrite map_map. apply map_ext. apply pyd_field_shape.
Qed.

Theorem pyd_schema_shape sc :
  schema_shape (pyd_schema sc) = schema_shape sc /\ length (classes (pyd_schema sc)) = length (classes sc) /\
  enums (pyd_schema sc) = enums sc.
Proof.
  unfold schema_shape, pyd_schema. cbn [classes enums]. split; [|split; [apply map_length | reflexivity]].
  f_equal. rewrite map_map. apply map_ext. apply pyd_class_shape.
Qed.

Theorem pyd_field_exact f :
  shape_of (pyd_field f) = shape_of f /\
  (fgroup f = None -> pyd_field f = f) /\
  (forall g, fgroup f = Some g -> opt_hint_of (pyd_field f) = (true, pyd_hint (fhint f))).
Proof.
  split; [apply pyd_field_shape|]. split; [apply pyd_field_none|].
  intros g Hg. unfold pyd_field, opt_hint_of. rewrite Hg. reflexivity.
Qed.

(* converse: a member of a well-formed class IS changed, so the two class tables are different objects *)
Theorem pyd_field_changes_member sc c f g :
  wf_schema sc = true -> In f (cfields (get_class sc c)) -> fgroup f = Some g ->
  pyd_field f <> f /\ fopt f = false /\ fopt (pyd_field f) = true.
Proof.
  intros W I Hg. pose proof (wf_class_mem_ok sc c W) as M. rewrite Forall_forall in M.
  destruct (pyd_field_member f g (M f I) Hg) as (p & Hh & Hh' & Ho' & Ho & _).
  split; [|split; assumption]. intros E. rewrite E in Ho'. congruence.
Qed.

Theorem configurations_same_classes E c0 pre post ens cls sc :
  forallb no_groups pre = true -> forallb no_groups post = true -> Forall cls_pyd_ok cls ->
  rt_schema E (TP.mk c0 false) pre post ens cls = Some sc ->
  forall c pyd, exists sc', rt_schema E (TP.mk c pyd) pre post ens cls = Some sc' /\
    schema_shape sc' = schema_shape sc /\ length (classes sc') = length (classes sc) /\ enums sc' = enums sc.
Proof.
  intros Hpre Hpost Hcls H0 c pyd.
  assert (Hp : Forall (cls_ok false) cls) by (eapply Forall_impl; [|exact Hcls]; apply cls_pyd_ok_plain).
  destruct pyd.
  - exists (pyd_schema sc). rewrite (rt_schema_pydantic E c c0 pre post ens cls Hpre Hpost Hcls), H0. cbn [option_map].
    split; [reflexivity|]. apply pyd_schema_shape.
  - exists sc. rewrite (rt_schema_typing_indep E c c0 false pre post ens cls Hp), H0. auto.
Qed.

(* ---------------- (5a) what "corresponding" fixes ---------------- *)
Theorem orel_observables sc o o' : orel sc o o' ->
  ocls o' = ocls o /\ osow o' = osow o /\ ounk o' = ounk o /\ ocur o' = ocur o /\ length (oraw o') = length (oraw o) /\
  (forall g, which_one_of o' g = which_one_of o g).
Proof.
  destruct o as [c ra sow unk cur]. intros R. apply vrel_msg in R. destruct R as (rb & E & R). inversion E; subst o'.
  cbn [ocls osow ounk ocur oraw]. repeat split; try reflexivity. eapply raw_rel_length; eauto.
Qed.

(* ---------------- (5b) len ---------------- *)
Theorem len_pydantic sc o o' :
  wf_schema sc = true -> orel sc o o' -> sow_ok_obj o = true -> len_obj (pyd_schema sc) o' = len_obj sc o.
Proof.
  intros W R S. pose proof (enc_obj_pydantic sc o o' W R S) as E.
  destruct (enc_obj sc o) as [bs|e] eqn:E1.
  - rewrite (len_of_bytes _ _ _ E), (len_of_bytes _ _ _ E1). reflexivity.
  - apply len_fails_iff_bytes_fails in E. apply len_fails_iff_bytes_fails in E1. congruence.
Qed.

(* ---------------- (5c) acceptance ---------------- *)
Theorem parse_accept_same sc c bs :
  wf_schema sc = true -> is_ok (parse (pyd_schema sc) c bs) = is_ok (parse sc c bs).
Proof.
  intros W. destruct (parse_cases sc c bs W) as [(e & -> & ->) | (o & o' & -> & -> & _)]; reflexivity.
Qed.

Theorem parse_accept_iff_valid sc c bs :
  wf_schema sc = true -> has_builtins sc -> entries_agree sc = true ->
  ((exists m', parse (pyd_schema sc) c bs = Ok m') <-> valid sc c bs).
Proof.
  intros W Hb He. rewrite <- (C17NestedAcceptP.accept_iff sc W Hb He c bs).
  destruct (parse_cases sc c bs W) as [(e & -> & ->) | (o & o' & -> & -> & _)]; split; intros (m & H); try discriminate; eauto.
Qed.

(* ---------------- (5d) unknown fields and selections after parse ---------------- *)
Theorem parse_unknown_same sc c bs o o' :
  wf_schema sc = true -> parse sc c bs = Ok o -> parse (pyd_schema sc) c bs = Ok o' ->
  ounk o' = ounk o /\ osow o' = osow o /\ (forall g, which_one_of o' g = which_one_of o g).
Proof.
  intros W H H'. pose proof (parse_rel sc W c bs) as R. rewrite H, H' in R. cbn [ores_rel] in R.
  destruct (orel_observables sc o o' R) as (_ & A & B & _ & _ & C). auto.
Qed.

(* ---------------- (5e) written by one variant, read by the other ---------------- *)
Theorem cross_variant_wire sc o o' c :
  wf_schema sc = true -> orel sc o o' -> sow_ok_obj o = true ->
  ores_rel sc (do bs <- enc_obj (pyd_schema sc) o'; parse sc c bs) (do bs <- enc_obj sc o; parse (pyd_schema sc) c bs) /\
  ores_rel sc (do bs <- enc_obj sc o; parse sc c bs) (do bs <- enc_obj (pyd_schema sc) o'; parse (pyd_schema sc) c bs).
Proof.
  intros W R S. rewrite (enc_obj_pydantic sc o o' W R S).
  destruct (enc_obj sc o) as [bs|e]; cbn [bind ores_rel]; [|auto]. split; apply parse_rel, W.
Qed.

(* ---------------- (5f) the round trip of the pydantic class (with C01) ---------------- *)
Theorem roundtrip_pydantic sc m m' :
  c01_schema_ok sc = true -> c01_value_ok sc m = true -> orel sc m m' -> sow_ok_obj m = true ->
  exists bs, enc_obj (pyd_schema sc) m' = Ok bs /\ enc_obj sc m = Ok bs /\
    (Zlength bs < 2 ^ 64 ->
     exists r', parse (pyd_schema sc) (ocls m) bs = Ok r' /\ orel sc (norm_obj sc m) r' /\
                (forall g, which_one_of r' g = which_one_of m g) /\
                enc_obj (pyd_schema sc) r' = Ok bs).
Proof.
  intros Hs Hv R S.
  assert (W : wf_schema sc = true).
  { unfold c01_schema_ok in Hs. apply andb_true_iff in Hs as [Hs _]. apply andb_true_iff in Hs as [Hs _]. exact Hs. }
  destruct (C01Final.c01_roundtrip sc m Hs Hv) as (bs & He & Hrt).
  exists bs. split; [rewrite (enc_obj_pydantic sc m m' W R S); exact He|]. split; [exact He|].
  intros Hz. destruct (Hrt Hz) as (r & Hp & Hn & _ & Hw & _ & Hre). subst r.
  pose proof (parse_rel sc W (ocls m) bs) as Rp. rewrite Hp in Rp.
  destruct (parse (pyd_schema sc) (ocls m) bs) as [r'|e] eqn:Hp'; cbn [ores_rel] in Rp; [|contradiction].
  exists r'. split; [reflexivity|]. split; [exact Rp|]. split.
  - intros g. destruct (orel_observables sc _ _ Rp) as (_ & _ & _ & _ & _ & Hg). rewrite Hg. apply Hw.
  - rewrite (enc_obj_pydantic sc _ r' W Rp (sgood_parse sc (ocls m) bs _ Hp)). exact Hre.
Qed.
