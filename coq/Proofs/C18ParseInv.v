(* C18, Message.parse: the plain-side invariant of the decoder loop that the simulation needs -
   shape (one raw attribute per field, one selection per group) and "a scalar-only field holds a scalar"
   (so that the key a map Entry object yields is a scalar: the state correspondence [vrel] asks for scalar keys).
   Holds for any schema (no wf needed): it only uses PACKED_TYPES /\ WIRE_LEN_DELIM_TYPES = {}. *)
From Coq Require Import ZArith List Bool Lia Arith.
From BP Require Import Base.Prelude Model.Types Model.Varint Model.Scalar Model.Float Model.Utf8 Model.Object Model.Eq Model.Decode Model.WellFormed.
From BP Require Import Model.C07Step Model.C18Beh Model.C18Parse gen.Tables.
From BP Require Import Proofs.C07InvP Proofs.C18BehBase Proofs.C18BehPrim Proofs.C18ParseBase Proofs.C18ParseUnfold.
Import ListNotations.

Definition kgood (sc : schema) (o : obj) : Prop :=
  pshape sc o = true /\
  forall j f, nth_error (cfields (get_class sc (ocls o))) j = Some f -> kslot f = true ->
              scalar_pv (nth j (oraw o) PPlaceholder) = true.

Lemma kslots_go_iff : forall raw fs,
  (fix go (raw : list pv) (fs : list fdesc) {struct raw} : bool :=
     match raw, fs with
     | x :: raw', f :: fs' => (if kslot f then scalar_pv x else true) && go raw' fs'
     | _, _ => true
     end) raw fs = true <->
  (forall j f, (j < length raw)%nat -> nth_error fs j = Some f -> kslot f = true -> scalar_pv (nth j raw PPlaceholder) = true).
Proof.
  induction raw as [|x raw IH]; intros fs.
  - split; [intros _ j f Hj; cbn [length] in Hj; lia | reflexivity].
  - destruct fs as [|f0 fs].
    + split; [intros _ j f _ Hj; destruct j; discriminate | reflexivity].
    + rewrite andb_true_iff, IH. split.
      * intros [H0 H] j f Hj Hf Hk. destruct j as [|j]; cbn [nth_error nth length] in *.
        -- injection Hf as <-. rewrite Hk in H0. exact H0.
        -- apply (H j f); auto. lia.
      * intros H. split.
        -- destruct (kslot f0) eqn:E; [|reflexivity]. apply (H 0%nat f0); cbn [length]; auto; lia.
        -- intros j f Hj Hf Hk. apply (H (S j) f); cbn [length]; auto. lia.
Qed.

Lemma kgood_iff sc o : kgood sc o <-> pshape sc o = true /\ kslots_ok sc o = true.
Proof.
  unfold kgood, kslots_ok. split; intros [S K]; (split; [exact S|]).
  - apply kslots_go_iff. intros j f _ Hf Hk. eauto.
  - intros j f Hf Hk. rewrite kslots_go_iff in K. apply (K j f); auto.
    apply pshape_iff in S. destruct S as [-> _]. apply nth_error_Some. congruence.
Qed.

Lemma kgood_new sc c : kgood sc (new sc c).
Proof.
  split; [apply pshape_new|]. intros j f Hf Hk. unfold new. cbn [oraw ocls] in *.
  rewrite (nth_map_error _ _ _ _ _ Hf). destruct (fopt f); reflexivity.
Qed.

(* ---- values the decoder assigns to a scalar-only field ---- *)
Lemma packed_not_len_delim t : tmem t PACKED_TYPES = true -> tmem t WIRE_LEN_DELIM_TYPES = false.
Proof. destruct t; vm_compute; intros; try discriminate; reflexivity. Qed.

Lemma postprocess_varint_scalar t z : scalar_pv (postprocess_varint t z) = true.
Proof. unfold postprocess_varint. repeat match goal with |- context [if ?c then _ else _] => destruct c end; reflexivity. Qed.

Lemma unpack_value_scalar t bs v : unpack_value t bs = Ok v -> scalar_pv v = true.
Proof.
  unfold unpack_value. intros H.
  destruct (pack_fmt t) as [[| | | | |]|]; try discriminate;
    try (destruct (Nat.eqb (length bs) _); try discriminate; injection H as <-; reflexivity);
    (destruct (unpack_int _ bs); cbn [bind] in H; try discriminate; injection H as <-; reflexivity).
Qed.

Lemma fits_len_delim f :
  wire_type_fits f WIRE_LEN_DELIM =
  tmem (fty f) WIRE_LEN_DELIM_TYPES || (tmem (fty f) PACKED_TYPES && match fhint f with HList _ => true | _ => false end).
Proof. reflexivity. Qed.

Lemma kslot_value_scalar fuel' sc f p v :
  kslot f = true -> wire_type_fits f (pwt p) = true -> c7_value fuel' sc f p = Ok v -> scalar_pv v = true.
Proof.
  intros Hk Hfit H. unfold c7_value in H. unfold kslot in Hk.
  destruct (fhint f) as [t| | |] eqn:Hh; try discriminate.
  assert (Hty : ptype_eqb (fty f) TMessage = false /\ ptype_eqb (fty f) TMap = false).
  { destruct t; try discriminate; apply andb_true_iff in Hk as [A B]; apply negb_true_iff in A, B; auto. }
  destruct Hty as [HnM HnP].
  destruct ((pwt p =? WIRE_LEN_DELIM) && tmem (fty f) PACKED_TYPES) eqn:Pk.
  { exfalso. apply andb_prop in Pk as [Pw Pt]. apply Z.eqb_eq in Pw. rewrite Pw, fits_len_delim, Hh in Hfit.
    rewrite (packed_not_len_delim _ Pt), andb_false_r in Hfit. discriminate. }
  destruct (pwt p =? WIRE_VARINT); [injection H as <-; apply postprocess_varint_scalar|].
  destruct ((pwt p =? WIRE_FIXED_32) || (pwt p =? WIRE_FIXED_64)); [eapply unpack_value_scalar; exact H|].
  rewrite HnP in H. unfold c7_post_len in H. rewrite HnM in H.
  destruct (ptype_eqb (fty f) TString); [|injection H as <-; reflexivity].
  destruct (utf8_valid _); [|discriminate]. injection H as <-. reflexivity.
Qed.

Lemma kslot_default_scalar sc f : kslot f = true -> scalar_pv (default_of sc f) = true.
Proof. unfold kslot, default_of. destruct (fhint f) as [[]| | |]; try discriminate; reflexivity. Qed.

(* ---- frame: what one store does to the raw attributes ---- *)
Definition frame_ok (i : nat) (o o1 : obj) : Prop :=
  ocls o1 = ocls o /\ length (oraw o1) = length (oraw o) /\ length (ocur o1) = length (ocur o) /\
  forall j, j <> i -> nth j (oraw o1) PPlaceholder = nth j (oraw o) PPlaceholder \/ nth j (oraw o1) PPlaceholder = PPlaceholder.

Lemma frame_refl i o : frame_ok i o o.
Proof. repeat split; auto. Qed.

Lemma frame_trans i o o1 o2 : frame_ok i o o1 -> frame_ok i o1 o2 -> frame_ok i o o2.
Proof.
  intros (A & B & C & D) (A' & B' & C' & D'). repeat split; try congruence.
  intros j Hj. destruct (D' j Hj) as [E|E]; [rewrite E; auto | auto].
Qed.

Lemma frame_set_nth i c raw sow unk cur x sow' : frame_ok i (Obj c raw sow unk cur) (Obj c (set_nth i x raw) sow' unk cur).
Proof.
  repeat split; cbn [oraw ocur ocls]; auto using length_set_nth. intros j Hj. left. apply nth_set_nth_neq. exact Hj.
Qed.

Lemma reset_go_nth g i fs : forall j raw k,
  nth k (reset_go g i j fs raw) PPlaceholder = nth k raw PPlaceholder \/ nth k (reset_go g i j fs raw) PPlaceholder = PPlaceholder.
Proof.
  induction fs as [|f fs IH]; intros j raw k; [left; destruct raw; reflexivity|].
  destruct raw as [|x raw]; [left; reflexivity|]. cbn [reset_go]. fold (reset_go g i).
  destruct k as [|k]; cbn [nth]; [|apply IH].
  destruct (opt_nat_eqb (fgroup f) (Some g) && negb (Nat.eqb j i)); auto.
Qed.

Lemma frame_setattr sc o i v : frame_ok i o (setattr sc o i v).
Proof.
  destruct o as [c raw sow unk cur]. rewrite setattr_unfold. cbn zeta.
  destruct (nth_error _ i) as [f|]; [|apply frame_refl]. destruct (fgroup f) as [g|]; [|apply frame_set_nth].
  repeat split; cbn [oraw ocur ocls]; rewrite ?length_set_nth, ?reset_go_length; auto.
  intros j Hj. rewrite nth_set_nth_neq by exact Hj. apply reset_go_nth.
Qed.

Lemma frame_getattr sc o i : frame_ok i o (fst (getattr sc o i)).
Proof.
  destruct o as [c raw sow unk cur].
  destruct (getattr_cases sc c raw sow unk cur i) as [(e & ->) | (f & v & raw' & -> & Hf & Hs & [->| ->])]; cbn [fst];
    auto using frame_refl, frame_set_nth.
Qed.

(* the slot a setattr writes *)
Lemma setattr_slot sc o i v f :
  nth_error (cfields (get_class sc (ocls o))) i = Some f -> (i < length (oraw o))%nat ->
  nth i (oraw (setattr sc o i v)) PPlaceholder = (if fieldless sc v then mark_sow v else v).
Proof.
  destruct o as [c raw sow unk cur]. cbn [ocls oraw]. intros Hf Hi. rewrite setattr_unfold. cbn zeta. rewrite Hf.
  destruct (fgroup f); cbn [oraw]; apply nth_set_nth_eq; rewrite ?reset_go_length; exact Hi.
Qed.

Lemma fieldless_scalar sc v : scalar_pv v = true -> (if fieldless sc v then mark_sow v else v) = v.
Proof. destruct v; try discriminate; reflexivity. Qed.

Lemma current_frame sc o i f : frame_ok i o (fst (c18_current sc o i f)).
Proof.
  unfold c18_current. pose proof (frame_getattr sc o i) as Fg. destruct (getattr sc o i) as [o' [v|e]]; cbn [fst] in *; auto.
  cbn zeta. cbn [fst]. apply frame_setattr.
Qed.

Lemma current_scalar sc o i f :
  kgood sc o -> nth_error (cfields (get_class sc (ocls o))) i = Some f -> kslot f = true ->
  scalar_pv (snd (c18_current sc o i f)) = true /\
  scalar_pv (nth i (oraw (fst (c18_current sc o i f))) PPlaceholder) = true.
Proof.
  intros [S K] Hf Hk. pose proof (K i f Hf Hk) as Ki. pose proof (kslot_default_scalar sc f Hk) as Kd.
  assert (Hi : (i < length (oraw o))%nat).
  { apply pshape_iff in S. destruct S as [-> _]. apply nth_error_Some. congruence. }
  unfold c18_current. destruct o as [c raw sow unk cur]. cbn [ocls oraw] in *. unfold getattr. rewrite Hf.
  destruct (group_selects cur f i) as [[|]|].
  2:{ cbn zeta. cbn [fst snd]. split; [exact Kd|].
      rewrite (setattr_slot sc (Obj c raw sow unk cur) i _ f Hf Hi), fieldless_scalar; exact Kd. }
  all: destruct (nth i raw PPlaceholder) eqn:En; cbn [fst snd oraw]; rewrite ?En; try (split; [exact Ki | exact Ki]);
       try discriminate Ki; rewrite nth_set_nth_eq by exact Hi; auto.
Qed.

Lemma kgood_frame sc i o o1 :
  kgood sc o -> frame_ok i o o1 ->
  (forall f, nth_error (cfields (get_class sc (ocls o))) i = Some f -> kslot f = true ->
             scalar_pv (nth i (oraw o1) PPlaceholder) = true) ->
  kgood sc o1.
Proof.
  intros [S K] (A & B & C & D) Hi. split.
  - apply pshape_iff in S. apply pshape_iff. rewrite A, B, C. exact S.
  - rewrite A. intros j f Hf Hk. destruct (Nat.eq_dec j i) as [->|Hne]; [eauto|].
    destruct (D j Hne) as [E|E]; rewrite E; [eauto | reflexivity].
Qed.

Lemma kslot_not_map f : kslot f = true -> ptype_eqb (fty f) TMap = false.
Proof.
  unfold kslot. destruct (fhint f) as [[]| | |]; try discriminate; intros H; apply andb_true_iff in H as [_ H];
    apply negb_true_iff in H; exact H.
Qed.

Lemma kgood_store sc o i f value o1 :
  kgood sc o -> nth_error (cfields (get_class sc (ocls o))) i = Some f ->
  (kslot f = true -> scalar_pv value = true) ->
  c18_store sc o i f value = Ok o1 -> kgood sc o1 /\ ocls o1 = ocls o.
Proof.
  intros G Hf Hv H. unfold c18_store in H.
  pose proof (current_frame sc o i f) as Fc. pose proof (current_scalar sc o i f G Hf) as Sc.
  destruct (c18_current sc o i f) as [o2 current]. cbn [fst snd] in *.
  assert (Hi2 : (i < length (oraw o2))%nat).
  { destruct Fc as (_ & -> & _). destruct G as [S _]. apply pshape_iff in S. destruct S as [-> _].
    apply nth_error_Some. congruence. }
  assert (Fin : forall o1, frame_ok i o2 o1 ->
            (kslot f = true -> scalar_pv (nth i (oraw o1) PPlaceholder) = true) -> kgood sc o1 /\ ocls o1 = ocls o).
  { intros o3 F3 K3. pose proof (frame_trans _ _ _ _ Fc F3) as F. split; [|apply F].
    eapply kgood_frame; [exact G | exact F |]. intros f' Hf' Hk'. rewrite Hf in Hf'. injection Hf' as <-. auto. }
  destruct o2 as [c raw sow unk cur]. destruct (ptype_eqb (fty f) TMap) eqn:Em.
  - destruct value; try discriminate. destruct current; try discriminate.
    destruct (getattr sc o0 0) as [? [k0|]]; try discriminate. destruct (getattr sc o0 1) as [? [v0|]]; try discriminate.
    injection H as <-. apply Fin; [apply frame_set_nth|]. intros Hk. rewrite (kslot_not_map _ Hk) in Em. discriminate.
  - assert (Hset : Ok (setattr sc (Obj c raw sow unk cur) i value) = Ok o1 -> kgood sc o1 /\ ocls o1 = ocls o).
    { intros E. replace o1 with (setattr sc (Obj c raw sow unk cur) i value) by congruence.
      apply Fin; [apply frame_setattr|]. intros Hk.
      rewrite (setattr_slot sc (Obj c raw sow unk cur) i value f); [rewrite fieldless_scalar; auto | | exact Hi2].
      destruct Fc as (-> & _). exact Hf. }
    destruct current; try (apply Hset; exact H).
    injection H as <-. apply Fin; [apply frame_set_nth|]. intros Hk. destruct (Sc Hk) as [Sx _]. discriminate.
Qed.

Lemma add_unk_kgood sc o bs : kgood sc o -> kgood sc (add_unk o bs) /\ ocls (add_unk o bs) = ocls o.
Proof. destruct o. intros H. split; [exact H | reflexivity]. Qed.

Lemma field_by_number_nth cd num i f : field_by_number cd num = Some (i, f) -> nth_error (cfields cd) i = Some f.
Proof.
  unfold field_by_number.
  assert (G : forall fs j acc i' f',
    (fix go (i : nat) (fs : list fdesc) (acc : option (nat * fdesc)) : option (nat * fdesc) :=
       match fs with
       | [] => acc
       | f :: fs' => go (S i) fs' (if fnum f =? num then Some (i, f) else acc)
       end) j fs acc = Some (i', f') ->
    acc = Some (i', f') \/ ((j <= i')%nat /\ nth_error fs (i' - j) = Some f')).
  { clear. induction fs as [|f0 fs IH]; intros j acc i' f' H; [left; exact H|].
    apply IH in H. destruct H as [H | (Hj & Hn)].
    - destruct (fnum f0 =? num) eqn:E; [|left; exact H].
      injection H as <- <-. right. rewrite Nat.sub_diag. cbn [nth_error]. split; auto.
    - right. split; [lia|]. replace (i' - j)%nat with (S (i' - S j)) by lia. exact Hn. }
  intros H. apply G in H. destruct H as [H | (_ & Hn)]; [discriminate|]. rewrite Nat.sub_0_r in Hn. exact Hn.
Qed.

Lemma kgood_step fuel' sc o p o1 :
  kgood sc o -> c18_step fuel' sc (get_class sc (ocls o)) o p = Ok o1 -> kgood sc o1 /\ ocls o1 = ocls o.
Proof.
  intros G H. unfold c18_step in H.
  destruct (field_by_number (get_class sc (ocls o)) (pnum p)) as [[i f]|] eqn:Hfb.
  2:{ injection H as <-. apply add_unk_kgood, G. }
  destruct (wire_type_fits f (pwt p)) eqn:Hfit; cbn [negb] in H.
  2:{ injection H as <-. apply add_unk_kgood, G. }
  destruct (c7_value fuel' sc f p) as [value|] eqn:Ev; cbn [bind] in H; [|discriminate].
  eapply kgood_store; [exact G | eapply field_by_number_nth; exact Hfb | | exact H].
  intros Hk. eapply kslot_value_scalar; eauto.
Qed.

Lemma kgood_loop fuel' sc size : forall n o s read o' s',
  kgood sc o -> c7_loop fuel' sc size (get_class sc (ocls o)) n o s read = Ok (o', s') -> kgood sc o' /\ ocls o' = ocls o.
Proof.
  induction n as [|n IH]; intros o s read o' s' G H; [discriminate|].
  rewrite c7_loop_S in H. destruct s as [|b s].
  - assert (E : Ok (o, @nil byte) = Ok (o', s')).
    { destruct size as [sz|]; [|exact H]. destruct (read <? sz); [discriminate | exact H]. }
    injection E as <- <-. auto.
  - destruct (load_varint (b :: s)) as [[[nw r] s1]|]; cbn [bind] in H; [|discriminate].
    destruct (load_field fuel' s1 nw r) as [[p s2]|]; cbn [bind] in H; [|discriminate].
    match type of H with (do read <- ?R; _) = _ => destruct R as [read'|] end; cbn [bind] in H; [|discriminate].
    destruct (c18_step fuel' sc (get_class sc (ocls o)) o p) as [o1|] eqn:Es; cbn [bind] in H; [|discriminate].
    destruct (kgood_step _ _ _ _ _ G Es) as [G1 C1].
    destruct (match size with Some sz => read' =? sz | None => false end).
    + injection H as <- <-. auto.
    + rewrite <- C1 in H. apply IH in H; [|exact G1]. destruct H as [G2 C2]. split; [exact G2 | congruence].
Qed.

Theorem kgood_load sc fuel o s size o' s' :
  kgood sc o -> load fuel sc o s size = Ok (o', s') -> kgood sc o' /\ ocls o' = ocls o.
Proof.
  intros G H. destruct fuel as [|fuel']; [discriminate|]. destruct o as [c raw sow unk cur].
  rewrite load_unfold_size in H. destruct (c18_size size s) as [[size' s0]|]; cbn [bind] in H; [|discriminate].
  assert (G0 : kgood sc (Obj c raw true unk cur)) by exact G.
  destruct size' as [[|q|q]|]; try (injection H as <- <-; auto; fail);
    apply (kgood_loop fuel' sc _ _ (Obj c raw true unk cur)) in H; auto.
Qed.

Lemma kgood_parse_new fuel' sc c bs m : c7_parse_new fuel' sc c bs = Ok m -> kgood sc m /\ ocls m = c.
Proof.
  unfold c7_parse_new. intros H. destruct (load fuel' sc (new sc c) bs None) as [[m' r]|] eqn:L; cbn [bind] in H; [|discriminate].
  injection H as <-. apply (kgood_load _ _ _ _ _ _ _ (kgood_new sc c) L).
Qed.
