(* C10, part 6: the [Err] of the theorems is always a Python exception.
   [EFuel] is the model's own "ran out of fuel" marker, not a Python outcome.  With the fuel
   [parse] / [load_delimited] supply (more than the number of bytes on the stream) it never occurs,
   so every `exists e, ... = Err e` of C10 can be read as "raises".
   (C17 proves the same totality statement independently; this copy keeps C10 self-contained.) *)
From BP Require Import Base.Prelude Model.Types Model.Varint Model.Scalar Model.Float Model.Utf8.
From BP Require Import Model.Object Model.Eq Model.TimeCore Model.Decode.
From BP Require Import gen.Tables Proofs.VarintP Proofs.C10GenP Proofs.C10FieldP Proofs.C10LoadP.

Definition nofuel {A} (r : result A) : Prop := r <> Err EFuel.

Lemma bind_nofuel {A B} (r : result A) (k : A -> result B) :
  nofuel r -> (forall a, r = Ok a -> nofuel (k a)) -> nofuel (bind r k).
Proof.
  destruct r as [a|e]; cbn [bind]; intros H1 H2; [apply H2; reflexivity|].
  unfold nofuel in *. intros E. apply H1. injection E as ->. reflexivity.
Qed.

Lemma lv_nofuel s : nofuel (load_varint s).
Proof.
  unfold nofuel, load_varint. destruct (load_go_total 10 0 0 [] s) as [(x & ->) | [-> | ->]]; discriminate.
Qed.

Lemma re_nofuel s n : nofuel (read_exactly s n).
Proof. unfold nofuel, read_exactly. destruct (_ && _); discriminate. Qed.

Lemma unpack_int_nofuel f bs : nofuel (unpack_int f bs).
Proof.
  unfold nofuel, unpack_int. destruct (fmt_int_range f) as [[[lo hi] n]|]; [|discriminate].
  destruct (Nat.eqb _ _); discriminate.
Qed.

Lemma unpack_value_nofuel t bs : nofuel (unpack_value t bs).
Proof.
  unfold unpack_value. destruct (pack_fmt t) as [[| | | | |]|]; try (unfold nofuel; discriminate);
    try (apply bind_nofuel; [apply unpack_int_nofuel | intros; unfold nofuel; discriminate]);
    unfold nofuel; destruct (Nat.eqb _ _); discriminate.
Qed.

Lemma skipn_shorter {A} k (l : list A) : l <> [] -> (0 < k)%nat -> (length (skipn k l) < length l)%nat.
Proof. intros Hl Hk. rewrite skipn_length. destruct l; [congruence | cbn [length]; lia]. Qed.

Lemma unpack_packed_nofuel n : forall t buf, (length buf < n)%nat -> nofuel (unpack_packed n t buf).
Proof.
  induction n as [|n IH]; intros t buf L; [lia|]. cbn [unpack_packed].
  destruct buf as [|b buf0]; [unfold nofuel; discriminate|].
  assert (Hne : b :: buf0 <> []) by discriminate.
  destruct (tmem t [TFloat; TFixed32; TSFixed32]).
  { apply bind_nofuel; [apply unpack_value_nofuel|]. intros x _.
    apply bind_nofuel; [|intros; unfold nofuel; discriminate].
    apply IH. pose proof (skipn_shorter 4 _ Hne ltac:(lia)). lia. }
  destruct (tmem t [TDouble; TFixed64; TSFixed64]).
  { apply bind_nofuel; [apply unpack_value_nofuel|]. intros x _.
    apply bind_nofuel; [|intros; unfold nofuel; discriminate].
    apply IH. pose proof (skipn_shorter 8 _ Hne ltac:(lia)). lia. }
  apply bind_nofuel; [apply lv_nofuel|]. intros [[v r] rest] V.
  apply bind_nofuel; [|intros; unfold nofuel; discriminate].
  apply IH. destruct (lv_sound _ _ _ _ V) as (E & Lr & _).
  assert (length (b :: buf0) = (length r + length rest)%nat) by (rewrite E, app_length; reflexivity). lia.
Qed.

Lemma getattr_nofuel sc o i : nofuel (snd (getattr sc o i)).
Proof.
  unfold nofuel, getattr. destruct o as [c raw sow unk cur].
  destruct (nth_error _ i) as [f|]; [|discriminate].
  destruct (group_selects cur f i) as [[|]|]; try discriminate; destruct (nth i raw PPlaceholder); discriminate.
Qed.

Lemma us_of_ts_nofuel s n : nofuel (us_of_ts s n).
Proof. unfold nofuel, us_of_ts. destruct (_ && _); discriminate. Qed.
Lemma us_of_dur_nofuel s n : nofuel (us_of_dur s n).
Proof. unfold nofuel, us_of_dur. destruct (td_ok _); discriminate. Qed.

(* ---- one record ---- *)
Lemma group_nofuel lf num wt : r_acct lf -> forall n s raw,
  (length s < n)%nat ->
  (forall s' nw raw', (length s' < length s)%nat -> nofuel (lf s' nw raw')) ->
  nofuel (group_g lf num wt n s raw).
Proof.
  intros AC. induction n as [|n IH]; intros s raw L H; [lia|]. cbn [group_g].
  apply bind_nofuel; [apply lv_nofuel|]. intros [[inner r] s1] V.
  destruct (lv_sound _ _ _ _ V) as (E & Lr & _).
  assert (Ls : length s = (length r + length s1)%nat) by (rewrite E, app_length; reflexivity).
  destruct (Z.land inner 7 =? WIRE_END_GROUP).
  { destruct (_ =? num); unfold nofuel; discriminate. }
  apply bind_nofuel; [apply H; lia|]. intros [p s2] F.
  destruct (AC _ _ _ _ _ F) as (u & E1 & _ & _).
  assert (Ls1 : length s1 = (length u + length s2)%nat) by (rewrite E1, app_length; reflexivity).
  apply IH; [lia|]. intros. apply H. lia.
Qed.

Lemma load_field_nofuel : forall f s nw raw, (length s < f)%nat -> nofuel (load_field f s nw raw).
Proof.
  induction f as [|f IH]; intros s nw raw L; [lia|].
  rewrite load_field_unfold. unfold load_field_body.
  destruct (_ =? 0); [unfold nofuel; discriminate|].
  destruct (_ =? WIRE_VARINT).
  { apply bind_nofuel; [apply lv_nofuel | intros [[? ?] ?] _; unfold nofuel; discriminate]. }
  destruct (_ =? WIRE_FIXED_64).
  { apply bind_nofuel; [apply re_nofuel | intros [? ?] _; unfold nofuel; discriminate]. }
  destruct (_ =? WIRE_LEN_DELIM).
  { apply bind_nofuel; [apply lv_nofuel | intros [[? ?] ?] _].
    apply bind_nofuel; [apply re_nofuel | intros [? ?] _; unfold nofuel; discriminate]. }
  destruct (_ =? WIRE_FIXED_32).
  { apply bind_nofuel; [apply re_nofuel | intros [? ?] _; unfold nofuel; discriminate]. }
  destruct (_ =? WIRE_START_GROUP); [|unfold nofuel; discriminate].
  apply group_nofuel; [apply load_field_acct | lia |]. intros. apply IH. lia.
Qed.

(* ---- dispatch of one record ---- *)
Lemma post_len_nofuel sc pn f t ety w bs :
  (forall c, nofuel (pn c bs)) -> nofuel (post_len_g sc pn f t ety w bs).
Proof.
  intros H. unfold post_len_g.
  destruct (ptype_eqb t TString); [destruct (utf8_valid bs); unfold nofuel; discriminate|].
  destruct (ptype_eqb t TMessage); [|unfold nofuel; discriminate].
  assert (TS : forall m, nofuel (match snd (getattr sc m 0), snd (getattr sc m 1) with
                                 | Ok (PInt sec), Ok (PInt nan) => do us <- us_of_ts sec nan; Ok (PDatetime us)
                                 | _, _ => Err EType end)).
  { intros m. destruct (snd (getattr sc m 0)) as [[]|]; try (unfold nofuel; discriminate);
      destruct (snd (getattr sc m 1)) as [[]|]; try (unfold nofuel; discriminate).
    apply bind_nofuel; [apply us_of_ts_nofuel | intros; unfold nofuel; discriminate]. }
  assert (TD : forall m, nofuel (match snd (getattr sc m 0), snd (getattr sc m 1) with
                                 | Ok (PInt sec), Ok (PInt nan) => do us <- us_of_dur sec nan; Ok (PTimedelta us)
                                 | _, _ => Err EType end)).
  { intros m. destruct (snd (getattr sc m 0)) as [[]|]; try (unfold nofuel; discriminate);
      destruct (snd (getattr sc m 1)) as [[]|]; try (unfold nofuel; discriminate).
    apply bind_nofuel; [apply us_of_dur_nofuel | intros; unfold nofuel; discriminate]. }
  destruct ety, w;
    try (unfold nofuel; discriminate);
    try (apply bind_nofuel; [apply H | intros; first [apply TS | apply TD | unfold nofuel; discriminate]]);
    try (destruct (wrapper_cls _); [|unfold nofuel; discriminate];
         apply bind_nofuel; [apply H | intros; apply getattr_nofuel]).
Qed.

Lemma step_nofuel sc pn cd o p : (forall c, nofuel (pn c (pbytes p))) -> nofuel (step sc pn cd o p).
Proof.
  intros H. unfold step, dispatch. destruct o as [c raw sow unk cur].
  destruct (field_by_number cd (pnum p)) as [[i f]|]; [|unfold nofuel; discriminate].
  destruct (negb (wire_type_fits f (pwt p))); [unfold nofuel; discriminate|].
  apply bind_nofuel.
  - destruct (_ && _).
    { apply bind_nofuel; [apply unpack_packed_nofuel; lia | intros; unfold nofuel; discriminate]. }
    destruct (pwt p =? WIRE_VARINT); [unfold nofuel; discriminate|].
    destruct (_ || _); [apply unpack_value_nofuel|].
    destruct (ptype_eqb (fty f) TMap).
    { apply bind_nofuel; [apply H | intros; unfold nofuel; discriminate]. }
    apply post_len_nofuel, H.
  - intros value _. unfold nofuel.
    repeat match goal with
           | |- context [match ?x with _ => _ end] => destruct x
           end; discriminate.
Qed.

(* ---- the loop and load ---- *)
Lemma loop_nofuel sc pn lf cd size : r_acct lf -> forall n o s read,
  (length s < n)%nat ->
  (forall s' nw raw, (length s' < length s)%nat -> nofuel (lf s' nw raw)) ->
  (forall c bs, (length bs < length s)%nat -> nofuel (pn c bs)) ->
  nofuel (loop_g sc pn lf cd size n o s read).
Proof.
  intros AC. induction n as [|n IH]; intros o s read L HL HP; [lia|].
  rewrite loop_g_S. destruct s as [|b s0].
  { destruct size as [sz|]; [destruct (read <? sz)|]; unfold nofuel; discriminate. }
  apply bind_nofuel; [apply lv_nofuel|]. intros [[nw r] s1] V.
  destruct (lv_sound _ _ _ _ V) as (E & Lr & _).
  assert (Ls : length (b :: s0) = (length r + length s1)%nat) by (rewrite E, app_length; reflexivity).
  apply bind_nofuel; [apply HL; lia|]. intros [p s2] F.
  destruct (acct_lengths _ AC _ _ _ _ _ F) as (L2 & LB & _).
  apply bind_nofuel.
  { unfold account. destruct size as [sz|]; [cbv zeta; destruct (sz <? _)|]; unfold nofuel; discriminate. }
  intros read' _. apply bind_nofuel; [apply step_nofuel; intros; apply HP; lia|]. intros o' _.
  destruct (finished size read'); [unfold nofuel; discriminate|].
  apply IH; [lia | intros; apply HL; lia | intros; apply HP; lia].
Qed.

Theorem load_nofuel sc : forall f o s size, (length s < f)%nat -> nofuel (load f sc o s size).
Proof.
  induction f as [|f IH]; intros o s size L; [lia|].
  rewrite load_unfold. unfold load_body.
  apply bind_nofuel.
  { unfold read_prefix. destruct size as [n|]; [|unfold nofuel; discriminate].
    destruct (n =? SIZE_DELIMITED); [|unfold nofuel; discriminate].
    apply bind_nofuel; [apply lv_nofuel | intros [[? ?] ?] _; unfold nofuel; discriminate]. }
  intros [size' s'] P. pose proof (read_prefix_length _ _ _ _ P) as Lp.
  destruct o as [c raw sow unk cur].
  assert (G : nofuel (loop_g sc (pn_of f sc) (load_field f) (get_class sc c) size' (S (length s')) (Obj c raw true unk cur) s' 0)).
  { apply loop_nofuel; [apply load_field_acct | lia | |].
    - intros. apply load_field_nofuel. lia.
    - intros c' bs Lb. unfold pn_of. apply bind_nofuel; [apply IH; lia | intros [? ?] _; unfold nofuel; discriminate]. }
  destruct size' as [[|z|z]|]; try exact G. unfold nofuel; discriminate.
Qed.

Corollary load_delimited_raises sc c s e : load_delimited sc c s = Err e -> e <> EFuel.
Proof.
  unfold load_delimited. intros H ->. revert H.
  generalize (Some SIZE_DELIMITED). intros size H.
  exact (load_nofuel sc (S (length s)) (new sc c) s size ltac:(lia) H).
Qed.

Corollary parse_raises sc c bs e : parse sc c bs = Err e -> e <> EFuel.
Proof.
  unfold parse, parse_into. intros H ->.
  destruct (load (S (length bs)) sc (new sc c) bs None) as [[o' r]|e] eqn:L; [discriminate|].
  cbn [bind] in H. injection H as ->.
  apply (load_nofuel sc (S (length bs)) (new sc c) bs None ltac:(lia)). exact L.
Qed.

From BP Require Import Model.C10Stream.

Lemma loads_raises sc : forall cs s l e, loads sc cs s = (l, Err e) -> e <> EFuel.
Proof.
  induction cs as [|c cs IH]; intros s l e H; cbn [loads] in H; [discriminate|].
  destruct (load_delimited sc c s) as [[m s']|e'] eqn:L.
  - destruct (loads sc cs s') as [l' r] eqn:R. injection H as _ ->. apply (IH _ _ _ R).
  - injection H as _ <-. apply (load_delimited_raises _ _ _ _ L).
Qed.
