(* C01 over reachable objects, part 2: Cls() and the lazily materialised defaults are good. *)
From Coq Require Import ZArith List Bool Lia Arith.
From BP Require Import Base.Prelude Model.Types Model.Float Model.Utf8 Model.TimeCore.
From BP Require Import Model.Object Model.Eq Model.Encode Model.Decode Model.WellFormed.
From BP Require Import Model.History Model.C07Ops Model.C01Def Model.C01Reach.
From BP Require Import Proofs.C01Unfold Proofs.C01Main Proofs.C07InvP Proofs.C07ObsP Proofs.C07ValP Proofs.C01ReachBase.
Import ListNotations.

Lemma wf_fopt_optional sc n f : wf_field sc n f = true -> fopt f = true -> exists p, fhint f = HOptional p.
Proof.
  intros H Ho. destruct (fhint f) as [p|p|p|pk pv'] eqn:Hh.
  - destruct (wf_plain _ _ _ _ H Hh) as (E & _). congruence.
  - eauto.
  - destruct (wf_list _ _ _ _ H Hh) as (E & _). congruence.
  - destruct (wf_dict _ _ _ _ _ H Hh) as (E & _). congruence.
Qed.

Definition fresh_slot (f : fdesc) : pv := if fopt f then PNone else PPlaceholder.

Lemma fresh_slot_ok sc n f : wf_field sc n f = true -> slot_ok sc f (fresh_slot f) = true.
Proof.
  intros H. unfold fresh_slot. destruct (fopt f) eqn:Ho; [|reflexivity].
  destruct (wf_fopt_optional _ _ _ H Ho) as (p & Hh). unfold slot_ok, field_in_range. rewrite Hh. reflexivity.
Qed.

Lemma nth_error_repeat_none {A} n g (x : A) : nth_error (repeat (@None A) n) g = Some (Some x) -> False.
Proof. revert g; induction n as [|n IH]; intros [|g] H; cbn in H; try discriminate. eapply IH; eauto. Qed.

Lemma vgood_new sc c : wf_schema sc = true -> VGood sc (new sc c).
Proof.
  intros Hwf. unfold VGood, new, cfs. cbn [oraw ocur ocls ounk]. repeat split.
  - apply map_length.
  - apply repeat_length.
  - intros g i H. exfalso. eapply nth_error_repeat_none; eauto.
  - intros i f x Hf Hx Hs. rewrite nth_error_map, Hf in Hx. cbn in Hx. injection Hx as <-.
    unfold group_selects in Hs. destruct (fgroup f) as [g|] eqn:Hg; [|discriminate].
    destruct (wf_member_shape _ _ _ _ (wf_field_of sc c i f Hwf Hf) Hg) as (_ & Ho & _). rewrite Ho. reflexivity.
  - intros i f x Hf Hx. rewrite nth_error_map, Hf in Hx. cbn in Hx. injection Hx as <-.
    apply (fresh_slot_ok sc _ f (wf_field_of sc c i f Hwf Hf)).
Qed.

Lemma value_ok_new sc c : wf_schema sc = true -> c01_value_ok sc (new sc c) = true.
Proof. intros H. apply value_ok_of_vgood, vgood_new, H. Qed.

(* _get_field_default of a declared field is a good attribute value *)
Lemma default_slot_ok sc n f : wf_schema sc = true -> wf_field sc n f = true -> slot_ok sc f (default_of sc f) = true.
Proof.
  intros Hwf H. unfold default_of. destruct (fhint f) as [p|p|p|pk pv'] eqn:Hh.
  - destruct (wf_plain _ _ _ _ H Hh) as (_ & _ & _ & _ & Hfit).
    destruct p as [| | | | |e|c'| |].
    1-6: unfold slot_ok, field_in_range; rewrite Hh; destruct (fty f); try discriminate Hfit; reflexivity.
    + (* message *)
      pose proof (value_ok_new sc c' Hwf) as Hn. unfold c01_value_ok in Hn. apply andb_true_iff in Hn as [Hn1 Hn2].
      unfold slot_ok, field_in_range. rewrite Hh.
      replace (elem_in_range sc (fty f) (PyMsg c') (PMsg (new sc c'))) with (Nat.eqb c' (ocls (new sc c')) && in_range sc (new sc c'))
        by (symmetry; apply elem_in_range_msg).
      cbn [ocls new]. rewrite Nat.eqb_refl, Hn1. change (deep (clean_ok sc) (PMsg (new sc c')) = true) in Hn2.
      rewrite Hn2. reflexivity.
    + unfold slot_ok, field_in_range; rewrite Hh; destruct (fty f); try discriminate Hfit; reflexivity.
    + unfold slot_ok, field_in_range; rewrite Hh; destruct (fty f); try discriminate Hfit; reflexivity.
  - unfold slot_ok, field_in_range. rewrite Hh. reflexivity.
  - unfold slot_ok, field_in_range. rewrite Hh. reflexivity.
  - destruct (wf_dict _ _ _ _ _ H Hh) as (_ & _ & _ & _ & kt & vt & Hm & _).
    unfold slot_ok, field_in_range. rewrite Hh, Hm. reflexivity.
Qed.

Lemma default_slot_ok_at sc c i f :
  wf_schema sc = true -> nth_error (cfields (get_class sc c)) i = Some f -> slot_ok sc f (default_of sc f) = true.
Proof. intros Hwf Hf. eapply default_slot_ok; [exact Hwf|]. eapply wf_field_of; eauto. Qed.
