(* C14 / pickle, part 2 - pickle.loads(pickle.dumps(m)) is faithful: the premise of C14_pickle_faithful_partial
   discharged with the C01 round trip (Proofs/C01Final.v) and the other operand order of == (Proofs/C14PickleEq.v);
   presence in C14's own vocabulary (presence_below, child_flag); the same after any sequence of observers. *)
From Coq Require Import ZArith List Bool Lia ZifyBool.
From BP Require Import Base.Prelude Model.Types Model.Object Model.Eq Model.Encode Model.Decode Model.WellFormed.
From BP Require Import Model.History Model.C14Ops Model.C01Def Model.C14Pickle.
From BP Require Import Proofs.C01Unfold Proofs.C01Main Proofs.C01Final Proofs.C01Obs Proofs.C14PickleEq.
From BP Require Import Proofs.C14Mat Proofs.C14Eq Proofs.C14Enc Proofs.C14Obs Proofs.C14Pres Proofs.C14Thm.

(* ---- obs_top, index by index ---- *)
Definition obs3_at (sc : schema) (a b : obj) (i : nat) : Prop :=
  res_ok (read sc a i) = res_ok (read sc b i) /\ res_none (read sc a i) = res_none (read sc b i) /\
  res_flag (read sc a i) = res_flag (read sc b i).

Lemma obs_top_nth sc a b :
  obs_top sc a b = true -> forall i, (i < length (oraw a))%nat -> obs3_at sc a b i.
Proof.
  unfold obs_top. intros H. apply andb_true_iff in H as [_ H].
  assert (G : forall ra j,
    (fix go (i : nat) (ra : list pv) {struct ra} : bool :=
       match ra with
       | [] => true
       | _ :: ra' =>
           Bool.eqb (res_ok (read sc a i)) (res_ok (read sc b i)) &&
           Bool.eqb (res_none (read sc a i)) (res_none (read sc b i)) &&
           Bool.eqb (res_flag (read sc a i)) (res_flag (read sc b i)) && go (S i) ra'
       end) j ra = true ->
    forall k, (k < length ra)%nat -> obs3_at sc a b (j + k)).
  { induction ra as [|x ra IH]; intros j Hg k Hk; [cbn in Hk; lia|].
    apply andb_true_iff in Hg as [Hg Hr]. apply andb_true_iff in Hg as [Hg H3]. apply andb_true_iff in Hg as [H1 H2].
    destruct k as [|k].
    - rewrite Nat.add_0_r. unfold obs3_at. apply eqb_prop in H1, H2, H3. auto.
    - replace (j + S k)%nat with (S j + k)%nat by lia. apply IH; [exact Hr | cbn in Hk; lia]. }
  intros i Hi. apply (G (oraw a) 0%nat H i Hi).
Qed.

Lemma noneness_obs r r' : res_ok r = res_ok r' -> res_none r = res_none r' -> noneness r' = noneness r.
Proof.
  destruct r as [v|e], r' as [v'|e']; cbn; intros H1 H2; try discriminate; try reflexivity.
  destruct v, v'; try discriminate; reflexivity.
Qed.

Lemma obs_top_presence sc a b :
  obs_top sc a b = true -> ocls b = ocls a -> ocur b = ocur a ->
  length (oraw a) = length (cfields (get_class sc (ocls a))) ->
  presence_below sc b [] = presence_below sc a [] /\ forall i, child_flag sc b i = child_flag sc a i.
Proof.
  intros Ho Hc Hg Hl. pose proof (obs_top_nth sc a b Ho) as Hn. split.
  - unfold presence_below, presence_at, nav, presence_here. rewrite Hc, Hg. f_equal. f_equal.
    apply map_ext_in. intros i Hi. apply in_seq in Hi. destruct (Hn i ltac:(lia)) as (H1 & H2 & _).
    apply noneness_obs; assumption.
  - intros i. unfold child_flag. destruct (Nat.lt_ge_cases i (length (oraw a))) as [Hi|Hi].
    + destruct (Hn i Hi) as (_ & _ & H3). unfold res_flag in H3. symmetry. exact H3.
    + assert (Ha : read sc a i = Err EAttribute).
      { unfold read, getattr. destruct a as [c raw s u g]. cbn [ocls oraw] in *.
        destruct (nth_error (cfields (get_class sc c)) i) eqn:E; [|reflexivity].
        exfalso. assert (i < length (cfields (get_class sc c)))%nat by (apply nth_error_Some; congruence). lia. }
      assert (Hb : read sc b i = Err EAttribute).
      { unfold read, getattr. destruct b as [c raw s u g]. cbn [ocls oraw] in *. subst c.
        destruct (nth_error (cfields (get_class sc (ocls a))) i) eqn:E; [|reflexivity].
        exfalso. assert (i < length (cfields (get_class sc (ocls a))))%nat by (apply nth_error_Some; congruence). lia. }
      rewrite Ha, Hb. reflexivity.
Qed.

Lemma in_range_length sc o : in_range sc o = true -> length (oraw o) = length (cfields (get_class sc (ocls o))).
Proof.
  destruct o as [c raw s u g]. rewrite in_range_unfold. intros H.
  apply andb_true_iff in H as [H _]. apply andb_true_iff in H as [H _]. apply andb_true_iff in H as [_ H].
  apply Nat.eqb_eq in H. exact H.
Qed.

Lemma c01_schema_wf sc : c01_schema_ok sc = true -> wf_schema sc = true.
Proof. unfold c01_schema_ok. intros H. apply andb_true_iff in H as [H _]. apply andb_true_iff in H as [H _]. exact H. Qed.

(* what the pickle theorems conclude about the unpickled message o' of o *)
Definition pickle_faithful_to (sc : schema) (o o' : obj) : Prop :=
  (deep nan_free (PMsg o) = true -> obj_eq sc o' o = true /\ obj_eq sc o o' = true) /\
  enc_obj sc o' = enc_obj sc o /\
  ocls o' = ocls o /\ ounk o' = ounk o /\ osow o' = true /\ ocur o' = ocur o /\
  (forall g, which_one_of o' g = which_one_of o g) /\
  (sow_ok sc o = true ->
   obs_top sc o o' = true /\ presence_below sc o' [] = presence_below sc o [] /\
   forall i, child_flag sc o' i = child_flag sc o i).

Theorem pickle_faithful_c01 sc o :
  c01_schema_ok sc = true -> c01_value_ok sc o = true -> enc_small sc o = true ->
  exists o', pickle_rt sc o = Ok o' /\ o' = norm_obj sc o /\ pickle_faithful_to sc o o'.
Proof.
  intros Hs Hv Hsm. destruct (c01_roundtrip sc o Hs Hv) as (bs & Eb & Hrt).
  unfold enc_small in Hsm. rewrite Eb in Hsm. apply Z.ltb_lt in Hsm.
  destruct (Hrt Hsm) as (m' & Hp & -> & He & Hw & Hobs & Hst).
  exists (norm_obj sc o). split; [unfold pickle_rt; rewrite Eb; cbn [bind]; exact Hp|]. split; [reflexivity|].
  assert (Hcls : ocls (norm_obj sc o) = ocls o) by (destruct o; reflexivity).
  assert (Hcur : ocur (norm_obj sc o) = ocur o) by (destruct o; reflexivity).
  unfold pickle_faithful_to. split; [|split; [|split; [|split; [|split; [|split; [|split]]]]]].
  - intros Hn. split; [apply c01_decoded_equal_r; assumption | apply He; exact Hn].
  - rewrite Hst, Eb. reflexivity.
  - exact Hcls.
  - apply c01_value_ok_spec in Hv. destruct Hv as (_ & Hd). destruct o as [c raw s u g].
    rewrite deep_msg in Hd. apply andb_true_iff in Hd as [Hloc _]. unfold local_ok in Hloc.
    apply andb_true_iff in Hloc as [Hloc _]. apply andb_true_iff in Hloc as [_ Hnu].
    unfold no_unknown in Hnu. cbn [ounk] in *. destruct u; [reflexivity | discriminate].
  - destruct o; reflexivity.
  - exact Hcur.
  - exact Hw.
  - intros Hsow. pose proof (Hobs Hsow) as Ho. split; [exact Ho|].
    apply obs_top_presence; try assumption.
    apply in_range_length. apply c01_value_ok_spec in Hv. exact (proj1 Hv).
Qed.

(* ---- the same after any sequence of observers: pickling the observed object gives the very same unpickled
        object, and nothing the statement mentions can tell the observed object from the original ---- *)
Lemma presence_below_mat sc o o2 : mat_obj sc o o2 = true -> forall p, presence_below sc o2 p = presence_below sc o p.
Proof. intros H p. unfold presence_below. destruct p; rewrite (mat_presence sc o o2 H); reflexivity. Qed.

Lemma child_flag_presence sc o i :
  child_flag sc o i = match presence_at sc o [SField i] with Some (s, _, _) => s | None => false end.
Proof.
  unfold child_flag, presence_at, nav, child_at. destruct (read sc o i) as [[]|]; try reflexivity.
Qed.

Lemma child_flag_mat sc o o2 i : mat_obj sc o o2 = true -> child_flag sc o2 i = child_flag sc o i.
Proof. intros H. rewrite !child_flag_presence, (mat_presence sc o o2 H). reflexivity. Qed.

(* the part of [pickle_faithful_to] that can be stated against a materialised state of the original *)
Definition pickle_faithful_obs (sc : schema) (o o2 o' : obj) : Prop :=
  (deep nan_free (PMsg o) = true -> obj_eq sc o' o2 = true /\ obj_eq sc o2 o' = true) /\
  enc_obj sc o' = enc_obj sc o2 /\
  ocls o' = ocls o2 /\ ounk o' = ounk o2 /\ osow o' = true /\ ocur o' = ocur o2 /\
  (forall g, which_one_of o' g = which_one_of o2 g) /\
  (sow_ok sc o = true ->
   presence_below sc o' [] = presence_below sc o2 [] /\ forall i, child_flag sc o' i = child_flag sc o2 i).

Lemma mat_obj_cur sc o o2 : mat_obj sc o o2 = true -> ocur o2 = ocur o /\ osow o2 = osow o.
Proof. intros H. destruct (mat_obj_inv sc o o2 H) as (c & raw & raw' & sow & unk & cur & -> & -> & _). split; reflexivity. Qed.

Theorem pickle_faithful_of_mat sc o o2 :
  c01_schema_ok sc = true -> c01_value_ok sc o = true -> enc_small sc o = true ->
  mat_obj sc o o2 = true ->
  exists o', pickle_rt sc o2 = Ok o' /\ pickle_rt sc o = Ok o' /\ pickle_faithful_obs sc o o2 o'.
Proof.
  intros Hs Hv Hsm Hm. pose proof (c01_schema_wf sc Hs) as Hwf.
  destruct (pickle_faithful_c01 sc o Hs Hv Hsm) as (o' & Hp & _ & He & Henc & Hc & Hu & Hso & Hg & Hw & Hpres).
  destruct (mat_indistinguishable sc Hwf o o2 Hm) as (Me & Meq & _ & _ & Mu & Mc).
  destruct (mat_obj_cur sc o o2 Hm) as (Mg & _).
  exists o'. split; [rewrite (pickle_of_mat sc Hwf o o2 Hm); exact Hp|]. split; [exact Hp|].
  unfold pickle_faithful_obs. split; [|split; [|split; [|split; [|split; [|split; [|split]]]]]].
  - intros Hn. destruct (He Hn) as (E1 & E2). destruct (Meq o') as (M1 & M2). rewrite M1, M2. split; assumption.
  - rewrite Me. exact Henc.
  - rewrite Mc. exact Hc.
  - rewrite Mu. exact Hu.
  - exact Hso.
  - rewrite Mg. exact Hg.
  - intros g. unfold which_one_of. rewrite Mg, Hg. reflexivity.
  - intros Hsow. destruct (Hpres Hsow) as (_ & P1 & P2). split.
    + rewrite (presence_below_mat sc o o2 Hm). exact P1.
    + intros i. rewrite (child_flag_mat sc o o2 i Hm). apply P2.
Qed.

Theorem pickle_faithful_after_observers sc o bs :
  c01_schema_ok sc = true -> c01_value_ok sc o = true -> enc_small sc o = true ->
  exists o', pickle_rt sc (observe_all sc o bs) = Ok o' /\ pickle_rt sc o = Ok o' /\
             pickle_faithful_obs sc o (observe_all sc o bs) o'.
Proof. intros Hs Hv Hsm. apply pickle_faithful_of_mat; try assumption. apply observe_all_mat. Qed.
