(* C18 behavioural part, JSON (2): the loop of to_dict, the defaults listed by include_default_values=True, the theorem
   and its corollaries for to_json. *)
From Coq Require Import ZArith List Bool Lia Arith.
From BP Require Import Base.Prelude Model.Types Model.Object Model.Eq Model.WellFormed Model.Json.
From BP Require Import Spec.Time gen.Tables.
From BP Require Import Model.C18Beh Proofs.C01Unfold Proofs.C06EncP Proofs.C14Ind Proofs.C18BehBase Proofs.C07JsonP Proofs.C18BehJson.
Import ListNotations.

Section Json2.
  Variable sc : schema.
  Hypothesis M : forall c, Forall mem_ok (cfields (get_class sc c)).
  Hypothesis T : forall c f k, In f (cfields (get_class sc c)) -> fhint f = HPlain (PyMsg k) -> fty f = TMessage.
  Let sc' := pyd_schema sc.

  Lemma key_of_pyd cs f : key_of_field cs (pyd_field f) = key_of_field cs f.
  Proof. unfold key_of_field. rewrite pyd_field_name. reflexivity. Qed.

  (* the default of a field: its parts are a fresh message or nothing *)
  Lemma JA_default rec rec' f :
    (forall c, jsim (rec (new sc c)) (rec' (new sc' c))) ->
    JA sc rec rec' (default_of sc f) (default_of sc' f).
  Proof.
    intros H. unfold default_of. destruct (fhint f) as [t|t|t|k v]; cbn [JA list_rel]; try exact I;
      try (intros o o' E; discriminate E).
    destruct t; try (intros o o' E; discriminate E). intros o o' E E'. injection E as <-. injection E' as <-. apply H.
  Qed.

  (* Cls().to_dict(include_default_values=True) *)
  Lemma default_dict_sim cs : forall n c, jsim (default_dict n cs sc c) (default_dict n cs sc' c).
  Proof.
    induction n as [|n IH]; intros c; [exact I|]. cbn [default_dict]. apply dict_norm_sim.
    unfold sc'. rewrite pyd_cfields. fold sc'.
    assert (G : forall fs, (forall f, In f fs -> In f (cfields (get_class sc c))) ->
      items_rel
        (flat_map (fun f => match fgroup f with
                            | Some _ => []
                            | None => match field_to_json (fun o' => default_dict n cs sc (ocls o')) sc true f None (default_of sc f) with
                                      | Some j => [(key_of_field cs f, j)] | None => [] end end) fs)
        (flat_map (fun f => match fgroup f with
                            | Some _ => []
                            | None => match field_to_json (fun o' => default_dict n cs sc' (ocls o')) sc' true f None (default_of sc' f) with
                                      | Some j => [(key_of_field cs f, j)] | None => [] end end) (map pyd_field fs))).
    { induction fs as [|f fs IHf]; intros Hin; [exact I|]. cbn [map flat_map]. apply items_rel_app; [|apply IHf; intros; apply Hin; right; assumption].
      rewrite pyd_field_group. destruct (fgroup f) as [g|] eqn:Eg; [exact I|]. rewrite (pyd_field_none _ Eg).
      assert (If : In f (cfields (get_class sc c))) by (apply Hin; left; reflexivity).
      assert (Mf : mem_ok f) by (pose proof (M c) as Mc; rewrite Forall_forall in Mc; auto).
      pose proof (field_to_json_sim sc T (fun o' => default_dict n cs sc (ocls o')) (fun o' => default_dict n cs sc' (ocls o'))
                    true f None (default_of sc f) (default_of sc' f) c If Mf (or_introl Eg) (default_rel sc f M)) as S.
      rewrite (pyd_field_none _ Eg) in S. fold sc' in S.
      specialize (S (JA_default _ _ f (fun c0 => IH c0))).
      destruct (field_to_json _ sc true f None (default_of sc f)); destruct (field_to_json _ sc' true f None (default_of sc' f));
        cbn [osim] in S; try contradiction; [|exact I].
      cbn [items_rel list_rel fst snd]. auto. }
    apply G. auto.
  Qed.

  Definition PJ (o : obj) : Prop :=
    forall o', orel sc o o' -> forall cs incl, jsim (to_dict cs incl sc o) (to_dict cs incl sc' o').

  Lemma JA_of_sub cs incl x y : subP PJ x -> vrel sc x y -> JA sc (to_dict cs incl sc) (to_dict cs incl sc') x y.
  Proof.
    intros Sx R. destruct x; cbn [vrel] in R; try (subst y; cbn [JA]; intros o o' E; discriminate E).
    - destruct R as (lb & -> & R). cbn [JA]. cbn [subP] in Sx. revert lb R.
      induction Sx as [|x l Hx Hl IH]; intros [|y lb] R; cbn [list_rel] in *; try contradiction; [exact I|].
      destruct R as [Rx R]. split; [|apply IH; assumption]. split; [exact Rx|].
      intros o o' -> ->. cbn [elemP] in Hx. apply Hx. exact Rx.
    - destruct R as (db & -> & R). cbn [JA]. cbn [subP] in Sx. revert db R.
      induction Sx as [|[k x] d Hx Hd IH]; intros [|[k' y] db] R; cbn [list_rel] in *; try contradiction; [exact I|].
      destruct R as [(-> & Sk & Rx) R]. split; [|apply IH; assumption]. cbn [fst snd] in *. repeat split; auto.
      intros o o' -> ->. cbn [elemP] in Hx. apply Hx. exact Rx.
    - cbn [subP] in Sx. pose proof R as R0. destruct o as [c ra s u g]. destruct R as (rb & -> & R). cbn [JA].
      intros o o' Ho Ho'. injection Ho as <-. injection Ho' as <-. apply Sx. exact R0.
  Qed.

  Lemma td_here_rel cs incl cur i f x y c :
    In f (cfields (get_class sc c)) -> mem_ok f -> slot_rel (vrel sc) (group_selects cur f i) x y -> subP PJ x ->
    osim (td_here cs incl sc cur f i x) (td_here cs incl sc' cur (pyd_field f) i y).
  Proof.
    intros If Mf Rs Sx. unfold td_here. rewrite pyd_group_selects.
    destruct (group_selects cur f i) as [[|]|] eqn:Eg; cbn [slot_rel] in Rs.
    - destruct Rs as [Np R]. pose proof (vrel_ph _ _ _ R) as Hp.
      pose proof (field_to_json_sim sc T (to_dict cs incl sc) (to_dict cs incl sc') incl f (Some true) x y c If Mf
                    (or_intror eq_refl) R (JA_of_sub cs incl x y Sx R)) as S.
      destruct x; try congruence; cbn [is_ph] in Hp; destruct y; try discriminate Hp; exact S.
    - exact I.
    - assert (Hg : fgroup f = None).
      { unfold group_selects in Eg. destruct (fgroup f); [discriminate | reflexivity]. }
      pose proof (vrel_ph _ _ _ Rs) as Hp.
      pose proof (field_to_json_sim sc T (to_dict cs incl sc) (to_dict cs incl sc') incl f None x y c If Mf
                    (or_introl Hg) Rs (JA_of_sub cs incl x y Sx Rs)) as S.
      assert (S2 : osim (field_to_json (fun o' => if incl then default_dict default_fuel cs sc (ocls o') else JObj []) sc incl f None (default_of sc f))
                        (field_to_json (fun o' => if incl then default_dict default_fuel cs sc' (ocls o') else JObj []) sc' incl (pyd_field f) None (default_of sc' f))).
      { apply (field_to_json_sim sc T _ _ incl f None _ _ c If Mf (or_introl Hg) (default_rel sc f M)).
        apply JA_default. intros c0. cbn [ocls new]. destruct incl; [apply default_dict_sim | apply jsim_refl]. }
      rewrite (pyd_field_none _ Hg) in *.
      destruct x; cbn [is_ph] in Hp; destruct y; try discriminate Hp; try exact S. exact S2.
  Qed.

  Lemma td_fields_rel cs incl cur c : forall ra i rb fs,
    (forall f, In f fs -> In f (cfields (get_class sc c))) ->
    raw_rel (vrel sc) cur i ra rb fs -> Forall (subP PJ) ra ->
    items_rel (td_fields cs incl sc cur i ra fs) (td_fields cs incl sc' cur i rb (map pyd_field fs)).
  Proof.
    induction ra as [|x ra IH]; intros i [|y rb] fs Hin R Sx; cbn [raw_rel] in R; try contradiction; [exact I|].
    destruct fs as [|f fs]; [exact I|]. destruct R as [Rs R]. cbn [map td_fields].
    fold (td_fields cs incl sc cur). fold (td_fields cs incl sc' cur).
    inversion Sx as [|? ? Sx0 Sxs]; subst.
    assert (If : In f (cfields (get_class sc c))) by (apply Hin; left; reflexivity).
    assert (Mf : mem_ok f) by (pose proof (M c) as Mc; rewrite Forall_forall in Mc; auto).
    apply items_rel_app; [|apply IH; auto; intros; apply Hin; right; assumption].
    pose proof (td_here_rel cs incl cur i f x y c If Mf Rs Sx0) as S.
    destruct (td_here cs incl sc cur f i x); destruct (td_here cs incl sc' cur (pyd_field f) i y); cbn [osim] in S; try contradiction; [|exact I].
    rewrite key_of_pyd. cbn [items_rel list_rel fst snd]. auto.
  Qed.

  Theorem to_dict_rel : forall o, PJ o.
  Proof.
    apply obj_nested_ind. intros c raw s u g Sx o' R cs incl. unfold orel in R. apply vrel_msg in R as (rb & E & R).
    injection E as ->. rewrite !to_dict_unfold. apply dict_norm_sim. unfold sc'. rewrite pyd_cfields. fold sc'.
    apply (td_fields_rel cs incl g c); auto.
  Qed.
End Json2.

Lemma wf_msg_hint sc : wf_schema sc = true ->
  forall c f k, In f (cfields (get_class sc c)) -> fhint f = HPlain (PyMsg k) -> fty f = TMessage.
Proof.
  intros W c f k I Hh. pose proof (wf_field_of _ _ _ W I) as Wf. destruct (wf_plain _ _ _ _ Wf Hh) as (_ & _ & _ & _ & Hp).
  destruct (fty f); try discriminate Hp; reflexivity.
Qed.

Theorem to_dict_pydantic_sim sc o o' cs incl :
  wf_schema sc = true -> orel sc o o' -> jsim (to_dict cs incl sc o) (to_dict cs incl (pyd_schema sc) o').
Proof.
  intros W R. apply to_dict_rel; auto.
  - intros c. apply wf_class_mem_ok, W.
  - apply wf_msg_hint, W.
Qed.

Theorem to_json_pydantic sc o o' cs incl :
  wf_schema sc = true -> orel sc o o' -> to_json cs incl (pyd_schema sc) o' = to_json cs incl sc o.
Proof.
  intros W R. pose proof (to_dict_pydantic_sim sc o o' cs incl W R) as S. unfold to_json, dumps_loads.
  rewrite (dumpsable_sim _ _ S). destruct (dumpsable (to_dict cs incl sc o)) eqn:D; [|reflexivity].
  rewrite (jsim_dumpsable_eq _ _ S D). reflexivity.
Qed.

Theorem to_dict_pydantic sc o o' cs incl :
  wf_schema sc = true -> orel sc o o' -> dumpsable (to_dict cs incl sc o) = true ->
  to_dict cs incl (pyd_schema sc) o' = to_dict cs incl sc o.
Proof. intros W R D. apply jsim_dumpsable_eq; [apply to_dict_pydantic_sim; assumption | exact D]. Qed.
