(* C14 / commutation, part 3 - bytes() / len() / dump() (History.touch: the lazy-default write-back of the walk) is
   monotone for [mat]. *)
From BP Require Import Base.Prelude Model.Types Model.Float Model.Object Model.Eq Model.Encode Model.Decode Model.History Model.C14Ops.
From BP Require Import Model.WellFormed Proofs.BytesP Proofs.C14Ind Proofs.C14Mat Proofs.C14Eq Proofs.C14Enc Proofs.C14Obs Proofs.C14Pres.
From BP Require Import Proofs.C14Sim1 Proofs.C14Sim2.
From Coq Require Import Lia.

Definition touch_val (sc : schema) (x : pv) : pv :=
  match x with
  | PMsg _ => touch_pv sc x
  | PList l => PList (map (touch_pv sc) l)
  | PDict d => PDict (touch_dict sc d)
  | _ => x
  end.

Definition is_none (x : pv) : bool := match x with PNone => true | _ => false end.

Definition tslot (sc : schema) (f : fdesc) (sel : option bool) (x : pv) : pv :=
  match sel with
  | Some false => x
  | _ =>
      match x with
      | PPlaceholder => default_of sc f
      | _ => if is_none x || skipped sc f sel x then x else touch_val sc x
      end
  end.

Lemma touch_go_cons sc cur i x raw f fs :
  touch_go sc cur i (x :: raw) (f :: fs) = tslot sc f (group_selects cur f i) x :: touch_go sc cur (S i) raw fs.
Proof.
  cbn [touch_go]. f_equal. unfold tslot. destruct (group_selects cur f i) as [[|]|]; try reflexivity.
  all: destruct x; cbn [is_none orb touch_val]; try reflexivity.
  all: match goal with |- context [skipped ?a ?b ?c ?d] => destruct (skipped a b c d) end; reflexivity.
Qed.

Lemma touch_val_mat sc v f : mat sc f v (touch_val sc v) = true.
Proof.
  pose proof (touch_mat_all sc v) as (H1 & H2).
  destruct v as [| | | | | | | | |l|d|o]; cbn [touch_val]; try apply mat_refl; [apply H2 | apply H2 | apply H1].
Qed.

Lemma touch_val_placeholder sc x : touch_val sc x = PPlaceholder -> x = PPlaceholder.
Proof. destruct x as [| | | | | | | | | | |[c raw s u g]]; cbn [touch_val touch_pv]; intros H; try discriminate H; reflexivity. Qed.

Section Wf.
  Variable sc : schema.
  Hypothesis Hopt : schema_opt_ok sc = true.

  Definition TQ (v' : pv) : Prop := forall f v, mat sc f v v' = true -> mat sc f (touch_val sc v) (touch_val sc v') = true.

  Lemma tq_lift v' :
    (forall f v, v <> PPlaceholder -> mat sc f v v' = true -> mat sc f (touch_val sc v) (touch_val sc v') = true) -> TQ v'.
  Proof.
    intros N f v H. destruct (is_ph_dec v) as [->|Hv]; [|apply N; assumption].
    cbn [touch_val]. eapply mat_trans; [exact H | apply touch_val_mat].
  Qed.

  Lemma mat_is_none f x x' : mat sc f x x' = true -> x <> PPlaceholder -> is_none x' = is_none x.
  Proof.
    intros Hm Hn. pose proof Hm as Hi. apply mat_inv in Hi. rewrite (src_id sc f x Hn) in Hi.
    destruct Hi as [[Hv _]|[(c0 & raw0 & raw0' & sow0 & unk0 & cur0 & Hs & Hv' & Hg)|[(l0 & l0' & Hs & Hv' & Hg)|[(d0 & d0' & Hs & Hv' & Hg)|[Hs Hsc]]]]];
      subst; try reflexivity. contradiction Hn; reflexivity.
  Qed.

  Lemma tslot_mono f sel x x' : TQ x' -> mat sc f x x' = true -> mat sc f (tslot sc f sel x) (tslot sc f sel x') = true.
  Proof.
    intros Q H.
    assert (Live : sel <> Some false -> mat sc f (tslot sc f sel x) (tslot sc f sel x') = true).
    { intros Hsel.
      assert (Enp : forall y, y <> PPlaceholder ->
                tslot sc f sel y = if is_none y || skipped sc f sel y then y else touch_val sc y).
      { intros y Hy. unfold tslot. destruct sel as [[|]|]; [| congruence |]; destruct y; try reflexivity; contradiction Hy; reflexivity. }
      assert (Eph : tslot sc f sel PPlaceholder = default_of sc f).
      { unfold tslot. destruct sel as [[|]|]; [| congruence |]; reflexivity. }
      destruct (is_ph_dec x) as [->|Hx].
      - rewrite Eph. destruct (is_ph_dec x') as [->|Hx']; [rewrite Eph; apply mat_refl|].
        rewrite (Enp x' Hx'). destruct (is_none x' || skipped sc f sel x').
        + rewrite <- mat_placeholder by exact Hx'. exact H.
        + rewrite <- mat_placeholder by (intros E; apply touch_val_placeholder in E; contradiction).
          apply (Q f PPlaceholder H).
      - pose proof (mat_not_placeholder sc f x x' H Hx) as Hx'.
        rewrite (Enp x Hx), (Enp x' Hx'), (mat_is_none f x x' H Hx), (mat_skipped sc Hopt f sel x x' H Hx).
        destruct (is_none x || skipped sc f sel x); [exact H | apply Q; exact H]. }
    destruct sel as [[|]|]; [apply Live; discriminate | exact H | apply Live; discriminate].
  Qed.

  Lemma touch_go_mono cur : forall raw', Forall TQ raw' -> forall raw fs i,
    mat_go sc raw raw' fs = true -> mat_go sc (touch_go sc cur i raw fs) (touch_go sc cur i raw' fs) fs = true.
  Proof.
    induction 1 as [|x' r' Hx Hr IH]; intros [|x r] fs i H; cbn [mat_go] in H; try discriminate H; [destruct fs; reflexivity|].
    destruct fs as [|f fs]; [exact H|].
    apply andb_true_iff in H as [H1 H2]. rewrite !touch_go_cons. cbn [mat_go].
    rewrite (tslot_mono f _ x x' Hx H1), (IH r fs (S i) H2). reflexivity.
  Qed.

  Lemma mat_elem_touch_mono f x x' : TQ x' -> mat_elem sc f x x' = true -> mat_elem sc f (touch_pv sc x) (touch_pv sc x') = true.
  Proof.
    intros Q H. unfold mat_elem in H.
    destruct x as [| | | | | | | | | | |o]; try (apply pv_same_sound in H; subst x'; apply mat_elem_refl; intros g; apply mat_refl).
    destruct x' as [| | | | | | | | | | |o']; try (destruct o; cbn [pv_same] in H; discriminate H).
    apply Q in H. cbn [touch_val] in H. destruct o as [c raw s u g], o' as [c' raw' s' u' g']. rewrite !touch_pv_msg in *.
    unfold mat_elem. exact H.
  Qed.

  Lemma touch_mono_all : forall v', TQ v'.
  Proof.
    induction v' using pv_induction; apply tq_lift; intros f v Hn Hm.
    1-9: (pose proof Hm as Hm'; rewrite mat_np in Hm' by exact Hn;
          match type of Hm' with mat_core _ _ _ ?t = true => apply (mat_core_scalar sc f v t) in Hm' end;
          [subst v; apply mat_refl | try exact I]).
    - exfalso. rewrite mat_np in Hm by exact Hn.
      destruct v as [| | | | | | | | | | |[c0 r0 s0 u0 g0]]; cbn [mat_core pv_same] in Hm; try discriminate Hm.
    - (* list *)
      pose proof Hm as Hi. apply mat_inv in Hi. rewrite (src_id sc f v Hn) in Hi.
      destruct Hi as [[Hv _]|[(c0 & raw0 & raw0' & sow0 & unk0 & cur0 & Hs & Hv' & Hg)|[(l0 & l0' & Hs & Hv' & Hg)|[(d0 & d0' & Hs & Hv' & Hg)|[Hs Hsc]]]]];
        try discriminate; try contradiction.
      inversion Hv'; subst l0' v. cbn [touch_val]. rewrite mat_np by discriminate. cbn [mat_core].
      clear Hm Hn Hv'. revert l0 Hg. induction H as [|x' l' Hx Hl IH]; intros [|x l0] Hg; cbn [mat_list] in Hg; try discriminate Hg; [reflexivity|].
      apply andb_true_iff in Hg as [G1 G2]. cbn [map mat_list]. rewrite (mat_elem_touch_mono f x x' Hx G1), (IH l0 G2). reflexivity.
    - (* dict *)
      pose proof Hm as Hi. apply mat_inv in Hi. rewrite (src_id sc f v Hn) in Hi.
      destruct Hi as [[Hv _]|[(c0 & raw0 & raw0' & sow0 & unk0 & cur0 & Hs & Hv' & Hg)|[(l0 & l0' & Hs & Hv' & Hg)|[(d0 & d0' & Hs & Hv' & Hg)|[Hs Hsc]]]]];
        try discriminate; try contradiction.
      inversion Hv'; subst d0' v. cbn [touch_val]. rewrite mat_np by discriminate. cbn [mat_core].
      clear Hm Hn Hv'. revert d0 Hg. induction H as [|[k' x'] d' [_ Hx] Hl IH]; intros [|[k x] d0] Hg; cbn [mat_dict] in Hg; try discriminate Hg; [reflexivity|].
      apply andb_true_iff in Hg as [G1 G3]. apply andb_true_iff in G1 as [G1 G2]. cbn [touch_dict mat_dict snd] in *.
      rewrite G1, (mat_elem_touch_mono f x x' Hx G2), (IH d0 G3). reflexivity.
    - (* message *)
      pose proof Hm as Hi. apply mat_inv in Hi. rewrite (src_id sc f v Hn) in Hi.
      destruct Hi as [[Hv _]|[(c0 & raw0 & raw0' & sow0 & unk0 & cur0 & Hs & Hv' & Hg)|[(l0 & l0' & Hs & Hv' & Hg)|[(d0 & d0' & Hs & Hv' & Hg)|[Hs Hsc]]]]];
        try discriminate; try contradiction.
      inversion Hv'; subst. cbn [touch_val]. rewrite !touch_pv_msg. rewrite mat_np by discriminate. cbn [mat_core].
      rewrite Nat.eqb_refl, eqb_reflx, bytes_eqb_refl, cur_same_refl. cbn [andb].
      apply touch_go_mono; assumption.
  Qed.

  Theorem touch_mono o o' : mat_obj sc o o' = true -> mat_obj sc (touch sc o) (touch sc o') = true.
  Proof.
    intros H. unfold mat_obj in *. pose proof (touch_mono_all (PMsg o') dummy_field (PMsg o) H) as H'.
    cbn [touch_val] in H'. unfold touch.
    destruct o as [c raw s u g], o' as [c' raw' s' u' g']. rewrite !touch_pv_msg in *. exact H'.
  Qed.
End Wf.
