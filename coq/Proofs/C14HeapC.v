(* C14 aliasing, part C: copy.deepcopy on the heap - everything it builds lies in the fresh region, the fresh region is
   closed, the old cells are untouched, and the value tree of the result is the value-level [deepcopy_pv]. *)
From BP Require Import Base.Prelude Model.Types Model.Object Model.Eq Model.Encode Model.Decode Model.History Model.C14Heap.
From BP Require Import Proofs.C14HeapA.
From Coq Require Import Lia.
Local Open Scope nat_scope.

Definition hext (h h' : heap) : Prop := exists e, h' = h ++ e.

Lemma hext_refl h : hext h h.
Proof. exists []. rewrite app_nil_r. reflexivity. Qed.

Lemma hext_trans h1 h2 h3 : hext h1 h2 -> hext h2 h3 -> hext h1 h3.
Proof. intros (e1 & E1) (e2 & E2). exists (e1 ++ e2). subst. rewrite app_assoc. reflexivity. Qed.

Lemma hext_length h h' : hext h h' -> length h <= length h'.
Proof. intros (e & E). subst. rewrite app_length. lia. Qed.

Lemma hext_snoc h h1 c : hext h h1 -> hext h (h1 ++ [c]).
Proof. intros H. apply (hext_trans _ _ _ H). exists [c]. reflexivity. Qed.

Lemma hext_old h h' b : hext h h' -> b < length h -> nth_error h' b = nth_error h b.
Proof. intros (e & E) Hb. subst. apply nth_error_app1. exact Hb. Qed.

Lemma lookup_in m a a' : lookup m a = Some a' -> In (a, a') m.
Proof.
  induction m as [|[x y] r IH]; cbn [lookup]; intros H; [discriminate|].
  destruct (Nat.eqb x a) eqn:E.
  - apply Nat.eqb_eq in E. inversion H; subst. left. reflexivity.
  - right. exact (IH H).
Qed.

Lemma overlay_slots_own (own : addr -> Prop) sc cl ss :
  Forall (slot_own own) ss -> Forall (slot_own own) (overlay_slots sc cl ss).
Proof.
  unfold overlay_slots. generalize (oraw (new sc cl)) as fresh.
  induction ss as [|x r IH]; intros fresh Hs.
  - apply Forall_forall. intros s Hs'. apply in_map_iff in Hs'. destruct Hs' as (v & E & _). subst s. exact I.
  - destruct fresh as [|y fr].
    + constructor.
    + inversion Hs; subst. constructor; [|apply IH; assumption].
      destruct x as [v|b]; [destruct v; exact I | assumption].
Qed.

Lemma own_closed_snoc (own : addr -> Prop) h c :
  own_closed own h -> Forall (slot_own own) (cslots c) -> own_closed own (h ++ [c]).
Proof.
  intros Hc Hs a cx Ha Hn. destruct (Nat.lt_ge_cases a (length h)) as [Hlt|Hge].
  - rewrite nth_error_app1 in Hn by exact Hlt. exact (Hc a cx Ha Hn).
  - rewrite nth_error_app2 in Hn by exact Hge. destruct (a - length h) as [|k]; cbn [nth_error] in Hn.
    + inversion Hn; subst. exact Hs.
    + destruct k; discriminate.
Qed.

(* ================================================================================================== *)
(* the region                                                                                          *)
(* ================================================================================================== *)
Section Region.
  Variable sc : schema.
  Variable L : nat.
  Let own := fun b : addr => L <= b.

  Definition memo_own (m : memo) : Prop := forall x y, In (x, y) m -> L <= y.
  Definition dI (h : heap) (m : memo) : Prop := L <= length h /\ own_closed own h /\ memo_own m.

  Definition slot_step (f : heap -> memo -> slot -> option (heap * slot * memo)) : Prop :=
    forall h m x h1 y m1, f h m x = Some (h1, y, m1) -> dI h m -> dI h1 m1 /\ hext h h1 /\ slot_own own y.

  Lemma thread_own f : slot_step f ->
    forall l h m h2 ys m2, thread f h m l = Some (h2, ys, m2) -> dI h m ->
    dI h2 m2 /\ hext h h2 /\ Forall (slot_own own) ys.
  Proof.
    intros Hf. induction l as [|x r IH]; intros h m h2 ys m2 E Hi; cbn [thread] in E.
    - inversion E; subst. split; [exact Hi|]. split; [apply hext_refl | constructor].
    - destruct (f h m x) as [[[h1 y] m1]|] eqn:E1; [|discriminate].
      destruct (thread f h1 m1 r) as [[[h3 ys3] m3]|] eqn:E2; [|discriminate].
      inversion E; subst. destruct (Hf _ _ _ _ _ _ E1 Hi) as (I1 & X1 & O1).
      destruct (IH _ _ _ _ _ E2 I1) as (I2 & X2 & O2).
      split; [exact I2|]. split; [exact (hext_trans _ _ _ X1 X2)|]. constructor; assumption.
  Qed.

  Definition rec_step (rec : heap -> memo -> addr -> option (heap * addr * memo)) : Prop :=
    forall h m a h' a' m', rec h m a = Some (h', a', m') -> dI h m -> dI h' m' /\ hext h h' /\ L <= a'.

  Lemma dc_slot_step rec : rec_step rec -> slot_step (dc_slot sc rec).
  Proof.
    intros Hr h m x h1 y m1 E Hi. destruct x as [v|b]; cbn [dc_slot] in E.
    - inversion E; subst. split; [exact Hi|]. split; [apply hext_refl | exact I].
    - destruct (rec h m b) as [[[h2 b'] m2]|] eqn:E1; [|discriminate]. inversion E; subst.
      destruct (Hr _ _ _ _ _ _ E1 Hi) as (I1 & X1 & O1). split; [exact I1|]. split; [exact X1 | exact O1].
  Qed.

  Lemma dc_slot_fresh_step rec : rec_step rec -> slot_step (dc_slot_fresh sc rec).
  Proof.
    intros Hr h m x h1 y m1 E Hi. unfold dc_slot_fresh in E.
    destruct (dc_slot sc rec h [] x) as [[[h2 s'] m2]|] eqn:E1; [|discriminate]. inversion E; subst.
    destruct Hi as (HL & Hc & Hm).
    assert (Hi0 : dI h []) by (split; [exact HL|split; [exact Hc|intros x0 y0 []]]).
    destruct (dc_slot_step rec Hr _ _ _ _ _ _ E1 Hi0) as ((HL1 & Hc1 & _) & X1 & O1).
    split; [split; [exact HL1|split; [exact Hc1 | exact Hm]]|]. split; [exact X1 | exact O1].
  Qed.

  Lemma dc_own n : rec_step (dc sc n).
  Proof.
    induction n as [|n IH]; intros h m a h' a' m' E Hi; cbn [dc] in E; [discriminate|].
    destruct (lookup m a) as [b|] eqn:El.
    - inversion E; subst. split; [exact Hi|]. split; [apply hext_refl|].
      destruct Hi as (_ & _ & Hm). exact (Hm _ _ (lookup_in _ _ _ El)).
    - destruct (nth_error h a) as [c|] eqn:Hn; [|discriminate].
      destruct Hi as (HL & Hc & Hm).
      destruct (ckind c) as [cl sow unk cur| |ks] eqn:Hk.
      + destruct (thread (dc_slot_fresh sc (dc sc n)) h [] (cslots c)) as [[[h1 ss] m1]|] eqn:Et; [|discriminate].
        inversion E; subst.
        assert (Hi0 : dI h []) by (split; [exact HL|split; [exact Hc|intros x0 y0 []]]).
        destruct (thread_own _ (dc_slot_fresh_step _ IH) _ _ _ _ _ _ Et Hi0) as ((HL1 & Hc1 & _) & X1 & O1).
        split; [split; [|split]|split].
        * rewrite app_length. lia.
        * apply own_closed_snoc; [exact Hc1|]. cbn [cslots]. apply overlay_slots_own. exact O1.
        * intros x y [Exy|Hxy]; [inversion Exy; subst; exact HL1 | exact (Hm x y Hxy)].
        * apply hext_snoc. exact X1.
        * exact HL1.
      + destruct (thread (dc_slot sc (dc sc n)) h m (cslots c)) as [[[h1 ss] m1]|] eqn:Et; [|discriminate].
        inversion E; subst.
        destruct (thread_own _ (dc_slot_step _ IH) _ _ _ _ _ _ Et (conj HL (conj Hc Hm))) as ((HL1 & Hc1 & Hm1) & X1 & O1).
        split; [split; [|split]|split].
        * rewrite app_length. lia.
        * apply own_closed_snoc; [exact Hc1|]. exact O1.
        * intros x y [Exy|Hxy]; [inversion Exy; subst; exact HL1 | exact (Hm1 x y Hxy)].
        * apply hext_snoc. exact X1.
        * exact HL1.
      + destruct (thread (dc_slot sc (dc sc n)) h m (cslots c)) as [[[h1 ss] m1]|] eqn:Et; [|discriminate].
        inversion E; subst.
        destruct (thread_own _ (dc_slot_step _ IH) _ _ _ _ _ _ Et (conj HL (conj Hc Hm))) as ((HL1 & Hc1 & Hm1) & X1 & O1).
        split; [split; [|split]|split].
        * rewrite app_length. lia.
        * apply own_closed_snoc; [exact Hc1|]. exact O1.
        * intros x y [Exy|Hxy]; [inversion Exy; subst; exact HL1 | exact (Hm1 x y Hxy)].
        * apply hext_snoc. exact X1.
        * exact HL1.
  Qed.
End Region.

(* ================================================================================================== *)
(* the value                                                                                           *)
(* ================================================================================================== *)
Lemma omapM_abs_ext k h e l vs :
  omapM (abs_slot (abs k h)) l = Some vs -> omapM (abs_slot (abs k (h ++ e))) l = Some vs.
Proof.
  intros H. rewrite (omapM_ext (abs_slot (abs k (h ++ e))) (abs_slot (abs k h)) l); [exact H|].
  intros s Hs. destruct (omapM_some_each _ _ _ H _ Hs) as (y & Hy). rewrite Hy. apply abs_slot_ext. exact Hy.
Qed.

Lemma abs_not_placeholder k h a v : abs k h a = Some v -> v <> PPlaceholder.
Proof.
  destruct k; cbn [abs]; [discriminate|]. destruct (nth_error h a) as [c|]; [|discriminate].
  destruct (omapM (abs_slot (abs k h)) (cslots c)) as [vs|]; [|discriminate].
  intros H. inversion H. destruct (ckind c); cbn [build]; discriminate.
Qed.

Lemma overlay_abs ab (Hab : forall b v, ab b = Some v -> v <> PPlaceholder) : forall ss fresh ws,
  omapM (abs_slot ab) ss = Some ws ->
  omapM (abs_slot ab)
    ((fix go (slots : list slot) (fresh : list pv) {struct slots} : list slot :=
        match slots, fresh with
        | x :: r, y :: fr => (match x with SVal PPlaceholder => SVal y | _ => x end) :: go r fr
        | _, _ => map SVal fresh
        end) ss fresh) =
  Some ((fix go (raw fresh : list pv) {struct raw} : list pv :=
           match raw, fresh with
           | x :: raw', y :: fresh' => (match x with PPlaceholder => y | _ => x end) :: go raw' fresh'
           | _, _ => fresh
           end) ws fresh).
Proof.
  assert (Hmap : forall fresh, omapM (abs_slot ab) (map SVal fresh) = Some fresh).
  { induction fresh as [|y fr IH]; cbn [map omapM abs_slot]; [reflexivity|]. rewrite IH. reflexivity. }
  induction ss as [|x r IH]; intros fresh ws H; cbn [omapM] in H.
  - inversion H; subst. apply Hmap.
  - destruct (abs_slot ab x) as [w|] eqn:Ex; [|discriminate].
    destruct (omapM (abs_slot ab) r) as [ws'|] eqn:Er; [|discriminate]. inversion H; subst.
    destruct fresh as [|y fr]; [reflexivity|].
    cbn [omapM]. rewrite (IH fr ws' eq_refl).
    destruct x as [v|b]; cbn [abs_slot] in Ex.
    + inversion Ex; subst. destruct w; cbn [abs_slot]; reflexivity.
    + cbn [abs_slot]. rewrite Ex. pose proof (Hab b w Ex) as Hw. destruct w; try reflexivity. congruence.
Qed.

Lemma deepcopy_dict sc ks : forall vs,
  deepcopy_pv sc (PDict (combine ks vs)) = PDict (combine ks (map (deepcopy_pv sc) vs)).
Proof.
  intros vs. cbn [deepcopy_pv]. f_equal. revert vs.
  induction ks as [|k r IH]; intros vs; [reflexivity|].
  destruct vs as [|v vs']; [reflexivity|]. cbn [combine map]. rewrite IH. reflexivity.
Qed.

Section Value.
  Variable sc : schema.
  Variable h0 : heap.
  Let dcv := deepcopy_pv sc.

  Definition memo_abs (h : heap) (m : memo) : Prop :=
    forall x y, In (x, y) m -> forall k v, abs k h0 x = Some v -> abs k h y = Some (dcv v).
  Definition aI (h : heap) (m : memo) : Prop := hext h0 h /\ memo_abs h m.
  Definition slot_rel (h : heap) (x y : slot) : Prop :=
    forall k v, abs_slot (abs k h0) x = Some v -> abs_slot (abs k h) y = Some (dcv v).

  Lemma memo_abs_ext h h' m : hext h h' -> memo_abs h m -> memo_abs h' m.
  Proof. intros (e & E) Hm x y Hxy k v Hv. subst h'. apply abs_ext. exact (Hm x y Hxy k v Hv). Qed.

  Lemma slot_rel_ext h h' x y : hext h h' -> slot_rel h x y -> slot_rel h' x y.
  Proof. intros (e & E) Hr k v Hv. subst h'. apply abs_slot_ext. exact (Hr k v Hv). Qed.

  Definition slot_stepA (f : heap -> memo -> slot -> option (heap * slot * memo)) : Prop :=
    forall h m x h1 y m1, f h m x = Some (h1, y, m1) -> aI h m -> aI h1 m1 /\ hext h h1 /\ slot_rel h1 x y.

  Lemma thread_abs f : slot_stepA f ->
    forall l h m h2 ys m2, thread f h m l = Some (h2, ys, m2) -> aI h m ->
    aI h2 m2 /\ hext h h2 /\ Forall2 (slot_rel h2) l ys.
  Proof.
    intros Hf. induction l as [|x r IH]; intros h m h2 ys m2 E Hi; cbn [thread] in E.
    - inversion E; subst. split; [exact Hi|]. split; [apply hext_refl | constructor].
    - destruct (f h m x) as [[[h1 y] m1]|] eqn:E1; [|discriminate].
      destruct (thread f h1 m1 r) as [[[h3 ys3] m3]|] eqn:E2; [|discriminate].
      inversion E; subst. destruct (Hf _ _ _ _ _ _ E1 Hi) as (I1 & X1 & O1).
      destruct (IH _ _ _ _ _ E2 I1) as (I2 & X2 & O2).
      split; [exact I2|]. split; [exact (hext_trans _ _ _ X1 X2)|].
      constructor; [exact (slot_rel_ext _ _ _ _ X2 O1) | exact O2].
  Qed.

  Lemma rel_omapM h l ys : Forall2 (slot_rel h) l ys ->
    forall k vs, omapM (abs_slot (abs k h0)) l = Some vs -> omapM (abs_slot (abs k h)) ys = Some (map dcv vs).
  Proof.
    induction 1 as [|x y l' ys' Hxy Hr IH]; intros k vs H; cbn [omapM] in H.
    - inversion H; subst. reflexivity.
    - destruct (abs_slot (abs k h0) x) as [w|] eqn:Ex; [|discriminate].
      destruct (omapM (abs_slot (abs k h0)) l') as [ws|] eqn:Er; [|discriminate]. inversion H; subst.
      cbn [omapM map]. rewrite (Hxy k w Ex). rewrite (IH k ws Er). reflexivity.
  Qed.

  Definition rec_stepA (rec : heap -> memo -> addr -> option (heap * addr * memo)) : Prop :=
    forall h m a h' a' m', rec h m a = Some (h', a', m') -> aI h m ->
      aI h' m' /\ hext h h' /\ forall k v, abs k h0 a = Some v -> abs k h' a' = Some (dcv v).

  Lemma dc_slot_stepA rec : rec_stepA rec -> slot_stepA (dc_slot sc rec).
  Proof.
    intros Hr h m x h1 y m1 E Hi. destruct x as [v|b]; cbn [dc_slot] in E.
    - inversion E; subst. split; [exact Hi|]. split; [apply hext_refl|].
      intros k w Hw. cbn [abs_slot] in *. inversion Hw; subst. reflexivity.
    - destruct (rec h m b) as [[[h2 b'] m2]|] eqn:E1; [|discriminate]. inversion E; subst.
      destruct (Hr _ _ _ _ _ _ E1 Hi) as (I1 & X1 & O1). split; [exact I1|]. split; [exact X1|].
      intros k w Hw. cbn [abs_slot] in *. exact (O1 k w Hw).
  Qed.

  Lemma dc_slot_fresh_stepA rec : rec_stepA rec -> slot_stepA (dc_slot_fresh sc rec).
  Proof.
    intros Hr h m x h1 y m1 E Hi. unfold dc_slot_fresh in E.
    destruct (dc_slot sc rec h [] x) as [[[h2 s'] m2]|] eqn:E1; [|discriminate]. inversion E; subst.
    destruct Hi as (HX & Hm).
    assert (Hi0 : aI h []) by (split; [exact HX | intros x0 y0 []]).
    destruct (dc_slot_stepA rec Hr _ _ _ _ _ _ E1 Hi0) as ((HX1 & _) & X1 & O1).
    split; [split; [exact HX1 | exact (memo_abs_ext _ _ _ X1 Hm)]|]. split; [exact X1 | exact O1].
  Qed.

  Lemma abs_new_cell k h1 c : abs (S k) (h1 ++ [c]) (length h1) =
    match omapM (abs_slot (abs k (h1 ++ [c]))) (cslots c) with
    | Some vs => Some (build (ckind c) vs)
    | None => None
    end.
  Proof. cbn [abs]. rewrite nth_error_app2 by lia. rewrite Nat.sub_diag. reflexivity. Qed.

  Lemma dc_abs n : rec_stepA (dc sc n).
  Proof.
    induction n as [|n IH]; intros h m a h' a' m' E Hi; cbn [dc] in E; [discriminate|].
    destruct (lookup m a) as [b|] eqn:El.
    - inversion E; subst. split; [exact Hi|]. split; [apply hext_refl|].
      destruct Hi as (_ & Hm). exact (Hm _ _ (lookup_in _ _ _ El)).
    - destruct (nth_error h a) as [c|] eqn:Hn; [|discriminate].
      destruct Hi as (HX & Hm).
      (* what abs of the original says about the cell *)
      assert (Horig : forall k v, abs k h0 a = Some v ->
                exists k' vs, k = S k' /\ omapM (abs_slot (abs k' h0)) (cslots c) = Some vs /\ v = build (ckind c) vs).
      { intros k v Hv. destruct k as [|k']; cbn [abs] in Hv; [discriminate|].
        destruct (nth_error h0 a) as [c0|] eqn:Hn0; [|discriminate].
        destruct HX as (e & Ee). subst h. rewrite (nth_error_app_some _ e _ _ Hn0) in Hn. inversion Hn; subst c0.
        destruct (omapM (abs_slot (abs k' h0)) (cslots c)) as [vs|] eqn:Hm0; [|discriminate].
        exists k', vs. inversion Hv. auto. }
      destruct (ckind c) as [cl sow unk cur| |ks] eqn:Hk.
      + destruct (thread (dc_slot_fresh sc (dc sc n)) h [] (cslots c)) as [[[h1 ss] m1]|] eqn:Et; [|discriminate].
        inversion E; subst.
        assert (Hi0 : aI h []) by (split; [exact HX | intros x0 y0 []]).
        destruct (thread_abs _ (dc_slot_fresh_stepA _ IH) _ _ _ _ _ _ Et Hi0) as ((HX1 & _) & X1 & O1).
        set (nc := mkCell (KMsg cl sow unk cur) (overlay_slots sc cl ss)).
        assert (Hnew : forall k v, abs k h0 a = Some v -> abs k (h1 ++ [nc]) (length h1) = Some (dcv v)).
        { intros k v Hv. destruct (Horig k v Hv) as (k' & vs & Ek & Hvs & Ev). subst k v.
          rewrite abs_new_cell. cbn [cslots ckind nc].
          pose proof (omapM_abs_ext _ _ [nc] _ _ (rel_omapM _ _ _ O1 k' vs Hvs)) as Hss.
          unfold overlay_slots.
          rewrite (overlay_abs (abs k' (h1 ++ [nc])) (fun b v => abs_not_placeholder k' _ b v) ss _ _ Hss).
          reflexivity. }
        split; [split|split].
        * apply hext_snoc. exact HX1.
        * intros x y [Exy|Hxy].
          -- inversion Exy; subst. exact Hnew.
          -- exact (memo_abs_ext h _ m (hext_snoc _ _ _ X1) Hm x y Hxy).
        * apply hext_snoc. exact X1.
        * exact Hnew.
      + destruct (thread (dc_slot sc (dc sc n)) h m (cslots c)) as [[[h1 ss] m1]|] eqn:Et; [|discriminate].
        inversion E; subst.
        destruct (thread_abs _ (dc_slot_stepA _ IH) _ _ _ _ _ _ Et (conj HX Hm)) as ((HX1 & Hm1) & X1 & O1).
        set (nc := mkCell KList ss).
        assert (Hnew : forall k v, abs k h0 a = Some v -> abs k (h1 ++ [nc]) (length h1) = Some (dcv v)).
        { intros k v Hv. destruct (Horig k v Hv) as (k' & vs & Ek & Hvs & Ev). subst k v.
          rewrite abs_new_cell. cbn [cslots ckind nc].
          rewrite (omapM_abs_ext _ _ [nc] _ _ (rel_omapM _ _ _ O1 k' vs Hvs)). reflexivity. }
        split; [split|split].
        * apply hext_snoc. exact HX1.
        * intros x y [Exy|Hxy].
          -- inversion Exy; subst. exact Hnew.
          -- exact (memo_abs_ext h1 _ m1 (hext_snoc _ _ _ (hext_refl h1)) Hm1 x y Hxy).
        * apply hext_snoc. exact X1.
        * exact Hnew.
      + destruct (thread (dc_slot sc (dc sc n)) h m (cslots c)) as [[[h1 ss] m1]|] eqn:Et; [|discriminate].
        inversion E; subst.
        destruct (thread_abs _ (dc_slot_stepA _ IH) _ _ _ _ _ _ Et (conj HX Hm)) as ((HX1 & Hm1) & X1 & O1).
        set (nc := mkCell (KDict ks) ss).
        assert (Hnew : forall k v, abs k h0 a = Some v -> abs k (h1 ++ [nc]) (length h1) = Some (dcv v)).
        { intros k v Hv. destruct (Horig k v Hv) as (k' & vs & Ek & Hvs & Ev). subst k v.
          rewrite abs_new_cell. cbn [cslots ckind nc].
          rewrite (omapM_abs_ext _ _ [nc] _ _ (rel_omapM _ _ _ O1 k' vs Hvs)). cbn [build].
          unfold dcv. rewrite deepcopy_dict. reflexivity. }
        split; [split|split].
        * apply hext_snoc. exact HX1.
        * intros x y [Exy|Hxy].
          -- inversion Exy; subst. exact Hnew.
          -- exact (memo_abs_ext h1 _ m1 (hext_snoc _ _ _ (hext_refl h1)) Hm1 x y Hxy).
        * apply hext_snoc. exact X1.
        * exact Hnew.
  Qed.
End Value.
