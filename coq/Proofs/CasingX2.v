(* Lemmas about Model/Casing.v (C19), part X2: NECESSITY of pascal_stable and class_name_ok, and the three
   side conditions as exact characterisations, for every byte string (no bound, no alphabet). *)
From BP Require Import Base.Prelude Model.Casing Proofs.BytesP Proofs.CasingP Proofs.CasingP2 Proofs.CasingP3 Proofs.CasingP4
  Proofs.CasingX1.
From BP Require gen.Tables.

(* ---------------------------------------------------------------- pascal_stable is necessary *)
Lemma upper_lower_differs U : classify U = Upper -> to_lower U <> U.
Proof. intros E Q. pose proof (to_lower_class U) as T. rewrite E, Q, E in T. discriminate T. Qed.

Lemma pascal_unstable_scan ws : forall b s, Forall lword ws -> pascal_stable_from b ws = false -> pst b s ->
  capcat (scan s (capcat ws)) <> capcat (flush s) ++ capcat ws.
Proof.
  induction ws as [|w r IH]; intros b s H K Hs; [discriminate K|].
  inversion H as [|? ? Hw Hr]; subst. cbn [pascal_stable_from] in K.
  destruct (negb b || starts_digit w || second_lower w) eqn:K1.
  - cbn [andb] in K. destruct (run_cap_p w b s Hw K1 Hs) as (o & s' & R & P & E).
    unfold capcat at 2 4. cbn [map concat]. fold (capcat r). rewrite scan_app, R. cbn [fst snd].
    rewrite capcat_app. intros Q. rewrite app_assoc, <- E, <- app_assoc in Q. apply app_inv_head in Q.
    exact (IH _ s' Hr K P Q).
  - apply orb_false_iff in K1. destruct K1 as [K1 Sl]. apply orb_false_iff in K1. destruct K1 as [Kb Sd].
    destruct b; [|discriminate Kb]. cbn [pst] in Hs. destruct Hs as (u & -> & Cu).
    destruct (single_then_nolower u w (capcat r) Hw Sd Sl (capcat_not_lower_head r Hr)) as (U & d & t & rest & C & EU & Q).
    unfold capcat at 2 4. cbn [map concat]. fold (capcat r). rewrite Q, C.
    unfold capcat at 1 2. cbn [flush map concat app capitalize lower]. intros A. injection A as A _.
    exact (upper_lower_differs U EU A).
Qed.

Lemma pascal_unstable s : pascal_stable s = false -> pascal_case (pascal_case s) <> pascal_case s.
Proof.
  unfold pascal_stable, pascal_stable_ws. intros K. pose proof (words_lwords s) as H.
  unfold pascal_case at 1. rewrite pascal_lws. unfold words.
  exact (pascal_unstable_scan _ false S0 H K (or_introl eq_refl)).
Qed.

Lemma pascal_stable_iff s : pascal_stable s = true <-> pascal_case (pascal_case s) = pascal_case s.
Proof.
  split; [apply pascal_idem|]. intros E. destruct (pascal_stable s) eqn:K; [reflexivity|].
  exfalso. exact (pascal_unstable s K E).
Qed.

Lemma pascal_stable_decides s : pascal_stable s = str_eqb (pascal_case (pascal_case s)) (pascal_case s).
Proof.
  destruct (pascal_stable s) eqn:K; symmetry.
  - apply str_eqb_eq, pascal_idem, K.
  - destruct (str_eqb _ _) eqn:Q; [|reflexivity]. apply str_eqb_eq in Q. exfalso. exact (pascal_unstable s K Q).
Qed.

(* ---------------------------------------------------------------- class_name_ok is necessary *)
(* facts about the regenerated keyword table: the capitalised keywords are fixed by str.capitalize and
   contain no "_" *)
Lemma capital_kw_shape :
  forallb (fun k => str_eqb (capitalize k) k && forallb (fun c => negb (is_us c)) k) capital_keywords = true.
Proof. vm_compute. reflexivity. Qed.

Lemma capital_kw_are_kw k : In k capital_keywords -> is_keyword k = true.
Proof. unfold capital_keywords. intros I. apply filter_In in I. apply is_keyword_in, I. Qed.

Lemma join_has_us w w' r : exists a b, join [us] (w :: w' :: r) = a ++ us :: b.
Proof. exists w, (join [us] (w' :: r)). reflexivity. Qed.

Lemma to_upper_digit_start w : starts_digit w = true -> exists c t, capitalize w = c :: t /\ is_digit_b c = true.
Proof.
  destruct w as [|c r]; [discriminate|]. cbn [starts_digit]. intros D. exists c, (lower r). split; [|exact D].
  cbn [capitalize]. rewrite (to_upper_digit c D). reflexivity.
Qed.

Lemma class_name_bad_ws ws : Forall lword ws ->
  match ws with [] => false | w :: _ => negb (starts_digit w) end
  && negb (mem_bytes (join [us] ws) (map lower capital_keywords)) = false ->
  is_identifier (capcat ws) = false \/ is_keyword (capcat ws) = true.
Proof.
  intros H K. destruct ws as [|w r]; [left; reflexivity|].
  destruct (starts_digit w) eqn:Sd.
  - left. destruct (to_upper_digit_start w Sd) as (c & t & E & D). unfold capcat. cbn [map concat]. rewrite E.
    cbn [app is_identifier]. unfold ident_start. rewrite (is_digit_class c D). reflexivity.
  - right. rewrite andb_true_l in K. apply negb_false_iff in K. apply mem_bytes_in in K. apply in_map_iff in K.
    destruct K as (k & Ek & Ik).
    pose proof capital_kw_shape as T. rewrite forallb_forall in T. specialize (T k Ik). apply andb_true_iff in T.
    destruct T as [Ck Nk]. apply str_eqb_eq in Ck.
    destruct r as [|w' r'].
    + assert (w = lower k) as -> by (symmetry; exact Ek).
      unfold capcat. cbn [map concat]. rewrite app_nil_r, capitalize_lower, Ck. apply capital_kw_are_kw, Ik.
    + exfalso. destruct (join_has_us w w' r') as (a & b & J). rewrite J in Ek.
      rewrite <- no_us_lower, Ek, forallb_app in Nk. cbn [forallb] in Nk.
      change (is_us us) with true in Nk. cbn [negb andb] in Nk. rewrite andb_false_r in Nk. discriminate Nk.
Qed.

Lemma class_name_ok_ws s : class_name_ok s =
  match map lower (words s) with [] => false | w :: _ => negb (starts_digit w) end
  && negb (mem_bytes (join [us] (map lower (words s))) (map lower capital_keywords)).
Proof.
  unfold class_name_ok, snake_case. f_equal. destruct (words s) as [|w r]; [reflexivity|].
  cbn [map]. rewrite starts_digit_lower. reflexivity.
Qed.

Lemma class_name_bad s : class_name_ok s = false ->
  is_identifier (pascal_case s) = false \/ is_keyword (pascal_case s) = true.
Proof.
  rewrite class_name_ok_ws, pascal_lws. apply class_name_bad_ws, words_lwords.
Qed.

Lemma class_name_ok_iff s : class_name_ok s = true <->
  is_identifier (pascal_case s) = true /\ is_keyword (pascal_case s) = false.
Proof.
  split; [apply class_name_ident|]. intros [I Kw]. destruct (class_name_ok s) eqn:K; [reflexivity|].
  exfalso. destruct (class_name_bad s K) as [Q|Q]; congruence.
Qed.

Lemma class_name_ok_decides s :
  class_name_ok s = is_identifier (pascal_case s) && negb (is_keyword (pascal_case s)).
Proof.
  destruct (class_name_ok s) eqn:K; symmetry.
  - destruct (class_name_ident s K) as [-> ->]. reflexivity.
  - destruct (class_name_bad s K) as [-> | ->]; [reflexivity|apply andb_false_r].
Qed.

(* ---------------------------------------------------------------- the bounded sweep, now for every string *)
Lemma eqb_refl_of a b : a = b -> Bool.eqb a b = true.
Proof. intros ->. apply eqb_reflx. Qed.

Lemma side_conditions_exact_all s : side_conditions_exact s = true.
Proof.
  unfold side_conditions_exact. rewrite !andb_true_iff. repeat split; apply eqb_refl_of.
  - apply key_safe_decides.
  - apply pascal_stable_decides.
  - apply class_name_ok_decides.
Qed.

(* every alphabet, every length, every prefix: the sweep of Proofs/CasingP4.v is an instance *)
Lemma all_strings_true f (Hf : forall s, f s = true) alphabet n : forall p, all_strings alphabet n p f = true.
Proof.
  induction n as [|n IH]; intros p; cbn [all_strings]; rewrite Hf; [reflexivity|].
  cbn [andb]. apply forallb_forall. intros c _. apply IH.
Qed.

Lemma side_conditions_exact_sweep alphabet n p : all_strings alphabet n p side_conditions_exact = true.
Proof. apply all_strings_true, side_conditions_exact_all. Qed.
