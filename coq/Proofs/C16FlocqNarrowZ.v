(* C16, float clause, part 4 (integers only): the shape of what [d2f] (struct.pack("<f"), Model/Float.v)
   computes on a finite binary64 pattern, case by case.  [narrow_q b] * 2 ^ [narrow_c b] is the candidate
   rounded magnitude: the integer significand rounded by rne_shift, at the binary32 canonical exponent.
   Either d2f returns a finite binary32 pattern with the same sign whose significand/exponent denote exactly
   that magnitude (and which is below 2^128), or d2f returns None and the magnitude is at least 2^128. *)
From Coq Require Import ZArith List Bool Lia ZifyBool.
From BP Require Import Base.Prelude Model.Float Proofs.C01Float Proofs.C16FlocqBits Proofs.C16FlocqWiden Proofs.C16FlocqRound.
Ltac Zify.zify_post_hook ::= Z.to_euclidean_division_equations.
Open Scope Z_scope.

Definition narrow_q (b : Z) : Z :=
  let e := f64_exp b in
  if e =? 0 then 0 else if e - 1023 <? -126 then rne_shift (f64_sig b) (926 - e) else rne_shift (f64_sig b) 29.
Definition narrow_c (b : Z) : Z :=
  let e := f64_exp b in
  if e =? 0 then -149 else if e - 1023 <? -126 then -149 else e - 1046.

(* a finite binary32 pattern w denotes the magnitude q * 2^c *)
Definition denotes32 (w q c : Z) : Prop :=
  c <= f32_ex w /\ f32_sig w * 2 ^ (f32_ex w - c) = q /\ 0 <= f32_sig w < 2 ^ 24 /\ f32_ex w <= 104.

Lemma sig_ex_of_fields w sg X y :
  (sg = 0 \/ sg = 1) -> 0 <= X < 256 -> 0 <= y < 2 ^ 23 -> w = sg * 2 ^ 31 + X * 2 ^ 23 + y ->
  0 <= w < 2 ^ 32 /\ f32_exp w = X /\ f32_sign w = sg /\
  f32_sig w = (if X =? 0 then y else 2 ^ 23 + y) /\ f32_ex w = (if X =? 0 then -149 else X - 150).
Proof.
  intros Hs HX Hy Hw. destruct (fields32 sg X y w Hs HX Hy Hw) as (A & B & C & D).
  unfold f32_sig, f32_ex. rewrite C, D. auto.
Qed.

Lemma d2f_shape b :
  0 <= b < 2 ^ 64 -> f64_exp b <> 2047 ->
  0 <= narrow_q b /\
  ((exists w, d2f b = Some w /\ 0 <= w < 2 ^ 32 /\ f32_exp w <> 255 /\ f32_sign w = f64_sign b /\
              denotes32 w (narrow_q b) (narrow_c b))
   \/ (d2f b = None /\ exists q' c', 2 ^ 23 <= q' /\ 105 <= c' /\ narrow_c b <= c' /\
                                     narrow_q b = q' * 2 ^ (c' - narrow_c b))).
Proof.
  intros Hb Hfin. unfold narrow_q, narrow_c, d2f, f64_sig, denotes32.
  pose proof (sign_cases b Hb) as Hs. pose proof (exp_range b) as He. pose proof (man_range b) as Hm.
  set (sg := f64_sign b) in *. set (e := f64_exp b) in *. set (m := f64_man b) in *. clearbody sg e m. clear b Hb.
  replace (e =? 2047) with false by lia.
  assert (Hlor : forall X, 0 <= X < 2 ^ 31 -> Z.lor (Z.shiftl sg 31) X = sg * 2 ^ 31 + X).
  { intros X HX. rewrite shl by lia. apply lor_high_low; lia. }
  destruct (e =? 0) eqn:E0.
  { (* zero and binary64 subnormals *)
    split; [lia|]. left. exists (Z.shiftl sg 31). split; [reflexivity|].
    destruct (sig_ex_of_fields (Z.shiftl sg 31) sg 0 0 Hs ltac:(lia) ltac:(pw2; lia) ltac:(rewrite shl by lia; lia))
      as (A & B & C & D & F).
    rewrite B, C, D, F. cbn [Z.eqb]. repeat split; try lia. }
  assert (HM : 2 ^ 52 <= 2 ^ 52 + m < 2 ^ 53) by (pw2; lia).
  set (M := 2 ^ 52 + m) in *.
  destruct (e - 1023 <? -126) eqn:E3.
  { (* binary32 subnormal range *)
    replace (29 + (-126 - (e - 1023))) with (926 - e) by lia.
    set (sh := 926 - e) in *. assert (Hsh : 30 <= sh) by lia.
    pose proof (rne_bound M sh ltac:(lia) ltac:(lia)) as Hr.
    assert (Hd : M / 2 ^ sh <= M / 2 ^ 30).
    { apply Z.div_le_compat_l; [lia|]. split; [pw2; lia|]. apply Z.pow_le_mono_r; lia. }
    assert (Hn : 0 <= M / 2 ^ sh) by (apply Z.div_pos; [lia|]; apply Z.pow_pos_nonneg; lia).
    assert (Hd30 : M / 2 ^ 30 < 2 ^ 23) by (pw2; lia).
    set (q := rne_shift M sh) in *.
    assert (Hq : 0 <= q <= 2 ^ 23) by lia.
    split; [lia|]. left.
    destruct (sh >? 60) eqn:E4.
    - (* far below the smallest subnormal *)
      assert (Hq0 : q = 0).
      { unfold q. apply rne_shift_small; try lia.
        apply Z.lt_le_trans with (2 ^ 53); [lia|]. apply Z.pow_le_mono_r; lia. }
      exists (Z.shiftl sg 31). split; [reflexivity|].
      destruct (sig_ex_of_fields (Z.shiftl sg 31) sg 0 0 Hs ltac:(lia) ltac:(pw2; lia) ltac:(rewrite shl by lia; lia))
        as (A & B & C & D & F).
      rewrite B, C, D, F, Hq0. cbn [Z.eqb]. repeat split; try lia.
    - exists (Z.lor (Z.shiftl sg 31) q). split; [reflexivity|].
      rewrite Hlor by (pw2; lia).
      destruct (Z.eq_dec q (2 ^ 23)) as [Hq23 | Hq23].
      + destruct (sig_ex_of_fields (sg * 2 ^ 31 + q) sg 1 0 Hs ltac:(lia) ltac:(pw2; lia) ltac:(lia))
          as (A & B & C & D & F).
        rewrite B, C, D, F. cbn [Z.eqb]. repeat split; try lia; pw2; lia.
      + destruct (sig_ex_of_fields (sg * 2 ^ 31 + q) sg 0 q Hs ltac:(lia) ltac:(lia) ltac:(lia))
          as (A & B & C & D & F).
        rewrite B, C, D, F. cbn [Z.eqb]. repeat split; try lia; pw2; lia. }
  (* binary32 normal range *)
  pose proof (rne_bound M 29 ltac:(lia) ltac:(lia)) as Hr.
  assert (Hq0 : 2 ^ 23 <= rne_shift M 29 <= 2 ^ 24) by (pw2; lia).
  set (q0 := rne_shift M 29) in *. clearbody q0.
  split; [pw2; lia|].
  destruct (q0 =? 2 ^ 24) eqn:E5.
  - (* carry into the next binade *)
    destruct (e - 1023 + 1 >? 127) eqn:E6.
    + right. split; [reflexivity|]. exists (2 ^ 23), (e - 1045).
      replace (e - 1045 - (e - 1046)) with 1 by lia. pw2. lia.
    + left. eexists. split; [reflexivity|].
      rewrite (mk32 sg (e - 1023 + 1 + 127) (2 ^ 23 - 2 ^ 23)) by (pw2; lia).
      destruct (sig_ex_of_fields _ sg (e - 1023 + 1 + 127) (2 ^ 23 - 2 ^ 23) Hs ltac:(lia) ltac:(pw2; lia) eq_refl)
        as (A & B & C & D & F).
      rewrite B, C, D, F. replace (e - 1023 + 1 + 127 =? 0) with false by lia.
      replace (e - 1023 + 1 + 127 - 150 - (e - 1046)) with 1 by lia. pw2. lia.
  - destruct (e - 1023 >? 127) eqn:E6.
    + right. split; [reflexivity|]. exists q0, (e - 1046).
      replace (e - 1046 - (e - 1046)) with 0 by lia. pw2. lia.
    + left. eexists. split; [reflexivity|].
      rewrite (mk32 sg (e - 1023 + 127) (q0 - 2 ^ 23)) by (pw2; lia).
      destruct (sig_ex_of_fields _ sg (e - 1023 + 127) (q0 - 2 ^ 23) Hs ltac:(lia) ltac:(pw2; lia) eq_refl)
        as (A & B & C & D & F).
      rewrite B, C, D, F. replace (e - 1023 + 127 =? 0) with false by lia.
      replace (e - 1023 + 127 - 150 - (e - 1046)) with 0 by lia. pw2. lia.
Qed.
