(* C14 aliasing, part B: every mutation through an owned root touches owned cells only and keeps the territory closed. *)
From BP Require Import Base.Prelude Model.Types Model.Object Model.Eq Model.Encode Model.Decode Model.History Model.C14Heap.
From BP Require Import Proofs.C14HeapA.
From Coq Require Import Lia.
Local Open Scope nat_scope.

Section Own.
  Variable own : addr -> Prop.
  Variable L : nat.
  Variable sc : schema.

  Definition step_ok (h h1 : heap) : Prop := inv own L h1 /\ pres own h h1.

  Lemma step_ok_refl h : inv own L h -> step_ok h h.
  Proof. intros Hi. split; [exact Hi | apply pres_refl]. Qed.

  Lemma step_ok_trans h h1 h2 : step_ok h h1 -> step_ok h1 h2 -> step_ok h h2.
  Proof. intros [I1 P1] [I2 P2]. split; [exact I2 | exact (pres_trans _ _ _ _ P1 P2)]. Qed.

  Lemma cell_slots_own h a c : inv own L h -> own a -> nth_error h a = Some c -> Forall (slot_own own) (cslots c).
  Proof. intros (_ & _ & Hc) Ha Hn. exact (Hc a c Ha Hn). Qed.

  (* allocate, then store into the owned cell a *)
  Lemma alloc_upd h a v h1 s k (f : slot -> list slot) :
    inv own L h -> own a -> alloc_pv h v = (h1, s) ->
    (slot_own own s -> Forall (slot_own own) (f s)) ->
    step_ok h (upd h1 a (mkCell k (f s))).
  Proof.
    intros Hi Ha E Hf. destruct (alloc_inv own L h v h1 s Hi E) as (I1 & P1 & _ & S1).
    destruct (upd_inv own L h1 a (mkCell k (f s)) I1 Ha (Hf S1)) as [I2 P2].
    split; [exact I2 | exact (pres_trans _ _ _ _ P1 P2)].
  Qed.

  Lemma nav_step_ok h a st h1 ob :
    inv own L h -> own a -> nav_step sc h a st = (h1, ob) ->
    step_ok h h1 /\ (forall b, ob = Some b -> own b).
  Proof.
    intros Hi Ha E. unfold nav_step in E.
    assert (Hsame : forall o, (h, o) = (h1, ob) -> (forall b, o = Some b -> own b) ->
                              step_ok h h1 /\ (forall b, ob = Some b -> own b)).
    { intros o Eo Ho. inversion Eo; subst. split; [apply step_ok_refl; exact Hi | exact Ho]. }
    assert (Hnone : (h, @None addr) = (h1, ob) -> step_ok h h1 /\ (forall b, ob = Some b -> own b)).
    { intros Eo. apply (Hsame None Eo). intros b Hb. discriminate. }
    destruct (nth_error h a) as [c|] eqn:Hn; [|exact (Hnone E)].
    pose proof (cell_slots_own h a c Hi Ha Hn) as Hs.
    destruct st as [i|k|key]; destruct (ckind c) as [cl sow unk cur| |ks] eqn:Hk; try exact (Hnone E).
    - destruct (nth_error (cfields (get_class sc cl)) i) as [f|] eqn:Hf; [|exact (Hnone E)].
      assert (Hread : match nth i (cslots c) (SVal PPlaceholder) with
                      | SRef b => (h, Some b)
                      | SVal PPlaceholder =>
                          let '(h2, s) := alloc_pv h (default_of sc f) in
                          (upd h2 a (mkCell (ckind c) (set_nth i s (cslots c))),
                           match s with SRef b => Some b | SVal _ => None end)
                      | SVal _ => (h, None)
                      end = (h1, ob) -> step_ok h h1 /\ (forall b, ob = Some b -> own b)).
      { clear E. intros E.
        pose proof (nth_Forall (slot_own own) i (cslots c) (SVal PPlaceholder) I Hs) as Hnth.
        destruct (nth i (cslots c) (SVal PPlaceholder)) as [v|b] eqn:Hsl.
        - destruct v; try exact (Hnone E).
          destruct (alloc_pv h (default_of sc f)) as [h2 s] eqn:Ea. inversion E; subst h1 ob.
          split.
          + apply (alloc_upd h a (default_of sc f) h2 s (ckind c) (fun s => set_nth i s (cslots c)) Hi Ha Ea).
            intros S1. apply Forall_set_nth; assumption.
          + intros b Hb. destruct s as [w|b']; [discriminate|]. inversion Hb; subst b'.
            destruct (alloc_inv own L h _ h2 _ Hi Ea) as (_ & _ & _ & S1). exact S1.
        - apply (Hsame (Some b) E). intros b' Hb'. inversion Hb'; subst b'. exact Hnth. }
      rewrite Hk in Hread.
      destruct (group_selects cur f i) as [[|]|]; [exact (Hread E) | exact (Hnone E) | exact (Hread E)].
    - destruct (nth_error (cslots c) k) as [[v|b]|] eqn:Hsl; try exact (Hnone E).
      apply (Hsame (Some b) E). intros b' Hb'. inversion Hb'; subst b'.
      exact (nth_error_Forall (slot_own own) k (cslots c) (SRef b) Hs Hsl).
    - destruct (find_key key ks) as [j|]; [|exact (Hnone E)].
      destruct (nth_error (cslots c) j) as [[v|b]|] eqn:Hsl; try exact (Hnone E).
      apply (Hsame (Some b) E). intros b' Hb'. inversion Hb'; subst b'.
      exact (nth_error_Forall (slot_own own) j (cslots c) (SRef b) Hs Hsl).
  Qed.

  Lemma nav_ok path : forall h a h1 ob,
    inv own L h -> own a -> nav sc h a path = (h1, ob) ->
    step_ok h h1 /\ (forall b, ob = Some b -> own b).
  Proof.
    induction path as [|st r IH]; intros h a h1 ob Hi Ha E; cbn [nav] in E.
    - inversion E; subst. split; [apply step_ok_refl; exact Hi|]. intros b Hb. inversion Hb; subst. exact Ha.
    - destruct (nav_step sc h a st) as [h2 ob2] eqn:E2.
      destruct (nav_step_ok h a st h2 ob2 Hi Ha E2) as [S2 O2].
      destruct ob2 as [b2|].
      + destruct (IH h2 b2 h1 ob (proj1 S2) (O2 b2 eq_refl) E) as [S3 O3].
        split; [exact (step_ok_trans _ _ _ S2 S3) | exact O3].
      + inversion E; subst. split; [exact S2|]. intros b Hb. discriminate.
  Qed.

  (* the sibling reset of __setattr__ only removes references *)
  Lemma reset_own g i : forall fs j slots,
    Forall (slot_own own) slots ->
    Forall (slot_own own)
      ((fix go (j : nat) (fs : list fdesc) (slots : list slot) {struct fs} : list slot :=
          match fs, slots with
          | f' :: fs', x :: slots' =>
              (if opt_nat_eqb (fgroup f') (Some g) && negb (Nat.eqb j i) then SVal PPlaceholder else x)
              :: go (S j) fs' slots'
          | _, _ => slots
          end) j fs slots).
  Proof.
    induction fs as [|f' fs' IH]; intros j slots Hs; [exact Hs|].
    destruct slots as [|x slots']; [exact Hs|]. inversion Hs; subst.
    constructor; [|apply IH; assumption].
    destruct (opt_nat_eqb (fgroup f') (Some g) && negb (Nat.eqb j i)); [exact I | assumption].
  Qed.

  Lemma setattr_at_ok h a i v : inv own L h -> own a -> step_ok h (h_setattr_at sc h a i v).
  Proof.
    intros Hi Ha. unfold h_setattr_at.
    destruct (nth_error h a) as [c|] eqn:Hn; [|apply step_ok_refl; exact Hi].
    pose proof (cell_slots_own h a c Hi Ha Hn) as Hs.
    destruct (ckind c) as [cl sow unk cur| |ks]; try (apply step_ok_refl; exact Hi).
    destruct (nth_error (cfields (get_class sc cl)) i) as [f|]; [|apply step_ok_refl; exact Hi].
    destruct (alloc_pv h (if fieldless sc v then mark_sow v else v)) as [h1 s] eqn:Ea.
    destruct (fgroup f) as [g|].
    - apply (alloc_upd h a _ h1 s (KMsg cl true unk (set_nth g (Some i) cur))
               (fun s => set_nth i s _) Hi Ha Ea).
      intros S1. apply Forall_set_nth; [exact S1|]. apply reset_own. exact Hs.
    - apply (alloc_upd h a _ h1 s (KMsg cl true unk cur) (fun s => set_nth i s (cslots c)) Hi Ha Ea).
      intros S1. apply Forall_set_nth; assumption.
  Qed.

  Lemma with_list_ok h a f :
    inv own L h -> own a ->
    (forall l, Forall (slot_own own) l -> Forall (slot_own own) (f l)) ->
    step_ok h (with_list h a f).
  Proof.
    intros Hi Ha Hf. unfold with_list.
    destruct (nth_error h a) as [c|] eqn:Hn; [|apply step_ok_refl; exact Hi].
    pose proof (cell_slots_own h a c Hi Ha Hn) as Hs.
    destruct (ckind c); try (apply step_ok_refl; exact Hi).
    destruct (upd_inv own L h a (mkCell KList (f (cslots c))) Hi Ha (Hf _ Hs)) as [I2 P2].
    split; assumption.
  Qed.

  Theorem mut_ok h root m : inv own L h -> own root -> step_ok h (h_mut sc h root m).
  Proof.
    intros Hi Hr. destruct m as [path i v|path|path v|path k v|path key v|path key|path src]; cbn [h_mut].
    - destruct (nav sc h root path) as [h1 oa] eqn:En. destruct (nav_ok path h root h1 oa Hi Hr En) as [S1 O1].
      destruct oa as [a|]; [|exact S1].
      exact (step_ok_trans _ _ _ S1 (setattr_at_ok h1 a i v (proj1 S1) (O1 a eq_refl))).
    - destruct (nav sc h root path) as [h1 oa] eqn:En. destruct (nav_ok path h root h1 oa Hi Hr En) as [S1 O1].
      exact S1.
    - destruct (nav sc h root path) as [h1 oa] eqn:En. destruct (nav_ok path h root h1 oa Hi Hr En) as [S1 O1].
      destruct oa as [a|]; [|exact S1].
      destruct (alloc_pv h1 v) as [h2 s] eqn:Ea.
      destruct (alloc_inv own L h1 v h2 s (proj1 S1) Ea) as (I2 & P2 & _ & S2).
      assert (S12 : step_ok h1 h2) by (split; assumption).
      refine (step_ok_trans _ _ _ S1 (step_ok_trans _ _ _ S12 _)).
      apply with_list_ok; [exact I2 | exact (O1 a eq_refl)|].
      intros l Hl. apply Forall_snoc; assumption.
    - destruct (nav sc h root path) as [h1 oa] eqn:En. destruct (nav_ok path h root h1 oa Hi Hr En) as [S1 O1].
      destruct oa as [a|]; [|exact S1].
      destruct (alloc_pv h1 v) as [h2 s] eqn:Ea.
      destruct (alloc_inv own L h1 v h2 s (proj1 S1) Ea) as (I2 & P2 & _ & S2).
      assert (S12 : step_ok h1 h2) by (split; assumption).
      refine (step_ok_trans _ _ _ S1 (step_ok_trans _ _ _ S12 _)).
      apply with_list_ok; [exact I2 | exact (O1 a eq_refl)|].
      intros l Hl. apply Forall_set_nth; assumption.
    - destruct (nav sc h root path) as [h1 oa] eqn:En. destruct (nav_ok path h root h1 oa Hi Hr En) as [S1 O1].
      destruct oa as [a|]; [|exact S1].
      destruct (alloc_pv h1 v) as [h2 s] eqn:Ea.
      destruct (alloc_inv own L h1 v h2 s (proj1 S1) Ea) as (I2 & P2 & _ & S2).
      assert (S12 : step_ok h1 h2) by (split; assumption).
      refine (step_ok_trans _ _ _ S1 (step_ok_trans _ _ _ S12 _)).
      destruct (nth_error h2 a) as [c|] eqn:Hn; [|apply step_ok_refl; exact I2].
      pose proof (cell_slots_own h2 a c I2 (O1 a eq_refl) Hn) as Hs.
      destruct (ckind c) as [cl sow unk cur| |ks]; try (apply step_ok_refl; exact I2).
      destruct (find_key key ks) as [j|].
      + destruct (upd_inv own L h2 a (mkCell (KDict ks) (set_nth j s (cslots c))) I2 (O1 a eq_refl)) as [I3 P3];
          [apply Forall_set_nth; assumption | split; assumption].
      + destruct (upd_inv own L h2 a (mkCell (KDict (ks ++ [key])) (cslots c ++ [s])) I2 (O1 a eq_refl)) as [I3 P3];
          [apply Forall_snoc; assumption | split; assumption].
    - destruct (nav sc h root path) as [h1 oa] eqn:En. destruct (nav_ok path h root h1 oa Hi Hr En) as [S1 O1].
      destruct oa as [a|]; [|exact S1].
      refine (step_ok_trans _ _ _ S1 _). pose proof (proj1 S1) as I1.
      destruct (nth_error h1 a) as [c|] eqn:Hn; [|apply step_ok_refl; exact I1].
      pose proof (cell_slots_own h1 a c I1 (O1 a eq_refl) Hn) as Hs.
      destruct (ckind c) as [cl sow unk cur| |ks]; try (apply step_ok_refl; exact I1).
      destruct (find_key key ks) as [j|]; [|apply step_ok_refl; exact I1].
      destruct (upd_inv own L h1 a (mkCell (KDict (remove_nth j ks)) (remove_nth j (cslots c))) I1 (O1 a eq_refl)) as [I3 P3];
        [apply Forall_remove_nth; assumption | split; assumption].
    - destruct (nav sc h root src) as [h1 ob] eqn:En. destruct (nav_ok src h root h1 ob Hi Hr En) as [S1 O1].
      destruct ob as [b|]; [|exact S1].
      destruct (nav sc h1 root path) as [h2 oa] eqn:En2.
      destruct (nav_ok path h1 root h2 oa (proj1 S1) Hr En2) as [S2 O2].
      refine (step_ok_trans _ _ _ S1 _).
      destruct oa as [a|]; [|exact S2].
      refine (step_ok_trans _ _ _ S2 _).
      apply with_list_ok; [exact (proj1 S2) | exact (O2 a eq_refl)|].
      intros l Hl. apply Forall_snoc; [exact (O1 b eq_refl) | exact Hl].
  Qed.

  Theorem muts_ok ms : forall h root, inv own L h -> own root -> step_ok h (h_muts sc h root ms).
  Proof.
    induction ms as [|m r IH]; intros h root Hi Hr; unfold h_muts; cbn [fold_left].
    - apply step_ok_refl. exact Hi.
    - pose proof (mut_ok h root m Hi Hr) as S1.
      exact (step_ok_trans _ _ _ S1 (IH _ root (proj1 S1) Hr)).
  Qed.
End Own.
