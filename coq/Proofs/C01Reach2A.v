(* C01 over reachable objects, part 7: m.parse(bytes) into a used object.  Helpers: what one record's merge does to a
   repeated field (append), a map (dict_set), a singular field (__setattr__, possibly after the except-branch
   assignment of the default), in terms of [slot_ok] / [sow_slot]. *)
From Coq Require Import ZArith List Bool Lia Arith.
From BP Require Import Base.Prelude Model.Types Model.Varint Model.Object Model.Eq Model.Encode Model.Decode Model.WellFormed.
From BP Require Import Model.History Model.C07Ops Model.C01Def Model.C01Reach Model.C01Parse.
From BP Require Import Proofs.C01Unfold Proofs.C01Msg Proofs.C01Main Proofs.C07InvP Proofs.C07ObsP Proofs.C07HistP Proofs.C07ValP.
From BP Require Import Proofs.C01ReachBase Proofs.C01ReachNew Proofs.C01ReachOps Proofs.C01ReachObs Proofs.C01ReachSow.
Import ListNotations.

(* ---------- dict_set ---------- *)
Definition ds_go (sc : schema) (k v : pv) : list (pv * pv) -> list (pv * pv) :=
  fix go (d : list (pv * pv)) : list (pv * pv) :=
    match d with
    | [] => [(k, v)]
    | (k', v') :: r => if pv_eq sc k' k then (k', v) :: r else (k', v') :: go r
    end.

Lemma dict_set_go d sc k v : dict_set d sc k v = ds_go sc k v d.
Proof. reflexivity. Qed.

Lemma ds_go_existsb sc k v (Q : pv -> bool) : forall d,
  existsb (fun kv => Q (fst kv)) (ds_go sc k v d) = true -> existsb (fun kv => Q (fst kv)) d = true \/ Q k = true.
Proof.
  induction d as [|[k' v'] d IH]; cbn [ds_go].
  - cbn [existsb fst]. intros H. rewrite orb_false_r in H. right. exact H.
  - destruct (pv_eq sc k' k); cbn [existsb fst]; intros H.
    + left. exact H.
    + apply orb_true_iff in H as [H|H]; [left; rewrite H; reflexivity|].
      destruct (IH H) as [H'|H']; [left; rewrite H'; apply orb_true_r | right; exact H'].
Qed.

Lemma keys_nodup_cons sc k v r :
  keys_nodup sc ((k, v) :: r) = negb (existsb (fun kv => pv_eq sc k (fst kv)) r) && keys_nodup sc r.
Proof. reflexivity. Qed.

Lemma keys_nodup_ds sc k v : forall d, keys_nodup sc d = true -> keys_nodup sc (ds_go sc k v d) = true.
Proof.
  induction d as [|[k' v'] d IH]; intros H; cbn [ds_go]; [reflexivity|].
  rewrite keys_nodup_cons in H. apply andb_true_iff in H as [H1 H2]. destruct (pv_eq sc k' k) eqn:E.
  - rewrite keys_nodup_cons, H1, H2. reflexivity.
  - rewrite keys_nodup_cons, (IH H2), andb_true_r. apply negb_true_iff. apply negb_true_iff in H1.
    destruct (existsb (fun kv => pv_eq sc k' (fst kv)) (ds_go sc k v d)) eqn:Ex; [|reflexivity].
    apply (ds_go_existsb sc k v (pv_eq sc k')) in Ex. destruct Ex; congruence.
Qed.

Lemma all_kv_cons sc kt vt p k y d :
  all_kv sc kt vt p ((k, y) :: d) = scalar_in_range kt k && elem_in_range sc vt p y && all_kv sc kt vt p d.
Proof. reflexivity. Qed.

Lemma all_kv_ds sc kt vt p k v :
  scalar_in_range kt k = true -> elem_in_range sc vt p v = true ->
  forall d, all_kv sc kt vt p d = true -> all_kv sc kt vt p (ds_go sc k v d) = true.
Proof.
  intros Hk Hv. induction d as [|[k' v'] d IH]; intros H; cbn [ds_go].
  - rewrite all_kv_cons, Hk, Hv. reflexivity.
  - rewrite all_kv_cons in H. apply andb_true_iff in H as [H1 H2]. apply andb_true_iff in H1 as [H1a H1b].
    destruct (pv_eq sc k' k); rewrite all_kv_cons.
    + rewrite H1a, Hv, H2. reflexivity.
    + rewrite H1a, H1b, (IH H2). reflexivity.
Qed.

Lemma deep_dict_cons P k y d : deep_dict P ((k, y) :: d) = deep P y && deep_dict P d.
Proof. reflexivity. Qed.

Lemma deep_dict_ds P sc k v :
  deep P v = true -> forall d, deep_dict P d = true -> deep_dict P (ds_go sc k v d) = true.
Proof.
  intros Hv. induction d as [|[k' v'] d IH]; intros H; cbn [ds_go].
  - rewrite deep_dict_cons, Hv. reflexivity.
  - rewrite deep_dict_cons in H. apply andb_true_iff in H as [H1 H2].
    destruct (pv_eq sc k' k); rewrite deep_dict_cons.
    + rewrite Hv, H2. reflexivity.
    + rewrite H1, (IH H2). reflexivity.
Qed.

(* ---------- append ---------- *)
Lemma all_in_cons sc t p y l : all_in sc t p (y :: l) = elem_in_range sc t p y && all_in sc t p l.
Proof. reflexivity. Qed.

Lemma all_in_app sc t p : forall l l', all_in sc t p l = true -> all_in sc t p l' = true -> all_in sc t p (l ++ l') = true.
Proof.
  induction l as [|y l IH]; intros l' H H'; [exact H'|].
  rewrite all_in_cons in H. apply andb_true_iff in H as [H1 H2].
  cbn [app]. rewrite all_in_cons, H1, (IH l' H2 H'). reflexivity.
Qed.

Lemma deep_list_app P : forall l l', deep_list P l = true -> deep_list P l' = true -> deep_list P (l ++ l') = true.
Proof.
  induction l as [|y l IH]; intros l' H H'; [exact H'|].
  rewrite deep_list_cons in H. apply andb_true_iff in H as [H1 H2].
  cbn [app]. rewrite deep_list_cons, H1, (IH l' H2 H'). reflexivity.
Qed.

Lemma elem_ok_all sc t p : forall vs,
  forallb (elem_ok sc t p) vs = true -> all_in sc t p vs = true /\ deep_list (clean_ok sc) vs = true.
Proof.
  induction vs as [|y vs IH]; intros H; [split; reflexivity|].
  cbn [forallb] in H. apply andb_true_iff in H as [H1 H2]. unfold elem_ok in H1. apply andb_true_iff in H1 as [Ha Hb].
  destruct (IH H2) as (I1 & I2). rewrite all_in_cons, deep_list_cons, Ha, Hb, I1, I2. split; reflexivity.
Qed.

(* ---------- a list / dict in a slot ---------- *)
Lemma slot_ok_list_inv sc f l :
  slot_ok sc f (PList l) = true ->
  exists p, fhint f = HList p /\ all_in sc (fty f) p l = true /\ deep_list (clean_ok sc) l = true.
Proof.
  unfold slot_ok. intros H. apply andb_true_iff in H as [H _]. apply andb_true_iff in H as [Hr Hd].
  unfold field_in_range in Hr. destruct (fhint f) as [p|p|p|pk p] eqn:Hh;
    rewrite ?elem_in_range_list in Hr; try discriminate Hr.
  exists p. split; [reflexivity|]. split; [exact Hr|]. rewrite deep_plist in Hd. exact Hd.
Qed.

Lemma slot_ok_list_intro sc f p l :
  fhint f = HList p -> all_in sc (fty f) p l = true -> deep_list (clean_ok sc) l = true -> slot_ok sc f (PList l) = true.
Proof.
  intros Hh Ha Hd. unfold slot_ok. rewrite (field_in_range_list sc f p l Hh), Ha, deep_plist, Hd. reflexivity.
Qed.

Lemma slot_ok_dict_inv sc f d :
  slot_ok sc f (PDict d) = true ->
  exists pk p kt vt, fhint f = HDict pk p /\ fmap f = Some (kt, vt) /\
    all_kv sc kt vt p d = true /\ deep_dict (clean_ok sc) d = true /\ keys_nodup sc d = true.
Proof.
  unfold slot_ok. intros H. apply andb_true_iff in H as [H Hk]. apply andb_true_iff in H as [Hr Hd].
  unfold field_in_range in Hr. destruct (fhint f) as [p|p|p|pk p] eqn:Hh;
    rewrite ?elem_in_range_dict in Hr; try discriminate Hr.
  destruct (fmap f) as [[kt vt]|] eqn:Hm; [|discriminate Hr].
  exists pk, p, kt, vt. repeat split; auto.
Qed.

Lemma slot_ok_dict_intro sc f pk p kt vt d :
  fhint f = HDict pk p -> fmap f = Some (kt, vt) ->
  all_kv sc kt vt p d = true -> deep_dict (clean_ok sc) d = true -> keys_nodup sc d = true ->
  slot_ok sc f (PDict d) = true.
Proof.
  intros Hh Hm Ha Hd Hk. unfold slot_ok. rewrite (field_in_range_dict sc f pk p d kt vt Hh Hm), Ha, deep_pdict, Hd.
  exact Hk.
Qed.

(* ---------- sow: everything but one slot ---------- *)
Definition SGoodX (sc : schema) (i : nat) (o : obj) : Prop :=
  forall k f x, k <> i -> nth_error (cfs sc o) k = Some f -> nth_error (oraw o) k = Some x ->
                sow_slot sc (ocur o) k f x = true.

Lemma sgoodx_of_sgood sc i o : SGood sc o -> SGoodX sc i o.
Proof. intros H k f x _ Hf Hx. apply (H k f x Hf Hx). Qed.

Lemma sgoodx_set_slot sc c raw sow sow' unk unk' cur i f x :
  SGoodX sc i (Obj c raw sow unk cur) ->
  nth_error (cfields (get_class sc c)) i = Some f -> sow_slot sc cur i f x = true ->
  SGood sc (Obj c (set_nth i x raw) sow' unk' cur).
Proof.
  unfold SGood, SGoodX, cfs. cbn [oraw ocur ocls]. intros H Hf Hx k f' y Hf' Hy.
  destruct (Nat.eq_dec k i) as [->|Hne].
  - assert (Hi : (i < length raw)%nat).
    { apply nth_error_lt in Hy. rewrite length_set_nth in Hy. exact Hy. }
    rewrite nth_error_set_nth_eq in Hy by exact Hi. injection Hy as <-. congruence.
  - rewrite nth_error_set_nth_neq in Hy by exact Hne. eapply H; eauto.
Qed.

Lemma sgoodx_set_slot_x sc c raw sow sow' unk unk' cur i x :
  SGoodX sc i (Obj c raw sow unk cur) -> SGoodX sc i (Obj c (set_nth i x raw) sow' unk' cur).
Proof.
  unfold SGoodX, cfs. cbn [oraw ocur ocls]. intros H k f' y Hne Hf' Hy.
  rewrite nth_error_set_nth_neq in Hy by exact Hne. eapply H; eauto.
Qed.

Lemma sgoodx_setattr sc o i v :
  wf_schema sc = true -> VGood sc o -> SGoodX sc i o -> SGoodX sc i (setattr sc o i v).
Proof.
  destruct o as [c raw sow unk cur]. intros Hwf HV H. rewrite setattr_unfold. cbn zeta.
  destruct (nth_error (cfields (get_class sc c)) i) as [f|] eqn:Hf; [|exact H].
  fold (stored sc v).
  destruct (fgroup f) as [g|] eqn:Hg.
  2:{ eapply sgoodx_set_slot_x; eauto. }
  pose proof (wf_field_group _ _ _ _ (wf_field_of sc c i f Hwf Hf) Hg) as Hgl.
  destruct HV as (Hl & Hc & _). unfold cfs in Hl, Hc. cbn [oraw ocur ocls] in Hl, Hc.
  unfold SGoodX, cfs in *. cbn [oraw ocur ocls] in *. intros k f' y Hne Hf' Hy.
  rewrite nth_error_set_nth_neq in Hy by exact Hne.
  assert (Hk : (k < length raw)%nat) by (rewrite Hl; eapply nth_error_lt; eauto).
  apply (nth_error_nth_d _ _ _ PPlaceholder) in Hy. rewrite <- Hy.
  destruct (fgroup f') as [g'|] eqn:Hg'.
  - destruct (Nat.eq_dec g' g) as [->|Hgne].
    + rewrite (reset_go_sibling g i _ 0 raw k f' Hf' Hg' ltac:(cbn; exact Hne) Hk).
      unfold sow_slot, sel_true, group_selects. rewrite Hg'. rewrite nth_set_nth_eq by lia.
      cbn [opt_nat_eqb]. destruct (Nat.eqb i k) eqn:E; [apply Nat.eqb_eq in E; congruence|].
      destruct (fhint f') as [[]| | |]; reflexivity.
    + rewrite (reset_go_other g i _ 0 raw k f' Hf') by congruence.
      rewrite (sow_slot_cur sc cur).
      * apply (H k f'); [exact Hne|exact Hf'|]. apply nth_nth_error. exact Hk.
      * unfold group_selects. rewrite Hg'. rewrite nth_set_nth_neq by exact Hgne. reflexivity.
  - rewrite (reset_go_other g i _ 0 raw k f' Hf') by congruence.
    rewrite (sow_slot_cur sc cur).
    + apply (H k f'); [exact Hne|exact Hf'|]. apply nth_nth_error. exact Hk.
    + unfold group_selects. rewrite Hg'. reflexivity.
Qed.

Lemma setattr_raw_i sc o i v f :
  VGood sc o -> nth_error (cfs sc o) i = Some f -> nth_error (oraw (setattr sc o i v)) i = Some (stored sc v).
Proof.
  destruct o as [c raw sow unk cur]. unfold cfs. cbn [ocls]. intros HV Hf. rewrite setattr_unfold. cbn zeta.
  rewrite Hf. fold (stored sc v).
  destruct HV as (Hl & _). unfold cfs in Hl. cbn [oraw ocls] in Hl.
  assert (Hi : (i < length raw)%nat) by (rewrite Hl; eapply nth_error_lt; eauto).
  destruct (fgroup f) as [g|]; cbn [oraw]; apply nth_error_set_nth_eq; [rewrite reset_go_length|]; exact Hi.
Qed.

Lemma sgood_of_x sc i o f :
  SGoodX sc i o -> nth_error (cfs sc o) i = Some f ->
  (forall x, nth_error (oraw o) i = Some x -> sow_slot sc (ocur o) i f x = true) -> SGood sc o.
Proof.
  intros H Hf Hi k f' x Hf' Hx. destruct (Nat.eq_dec k i) as [->|Hne].
  - rewrite Hf in Hf'. injection Hf' as <-. apply Hi. exact Hx.
  - apply (H k f' x Hne Hf' Hx).
Qed.

Lemma flag_ok_of_flagged sc f v : flagged v = true -> flag_ok sc f v = true.
Proof.
  intros H. unfold flag_ok, stored.
  destruct v as [| | | | | | | | | | |[c r s u g]]; try (destruct (fieldless sc _); destruct (fhint f); reflexivity).
  cbn [flagged osow] in H. subst s.
  destruct (fieldless sc _); cbn [mark_sow]; destruct (fhint f); reflexivity.
Qed.

(* the assignment the decoder performs for a singular field *)
Lemma sgood_setattr_x sc o i v f :
  wf_schema sc = true -> VGood sc o -> SGoodX sc i o -> nth_error (cfs sc o) i = Some f ->
  val_ok sc f v = true -> flagged v = true -> SGood sc (setattr sc o i v).
Proof.
  intros Hwf HV H Hf Hv Hfl.
  pose proof (sgoodx_setattr sc o i v Hwf HV H) as HX.
  apply (sgood_of_x sc i _ f HX).
  - unfold cfs. rewrite setattr_cls. exact Hf.
  - intros x Hx. rewrite (setattr_raw_i sc o i v f HV Hf) in Hx. injection Hx as <-.
    apply flag_ok_slot; [apply flag_ok_of_flagged; exact Hfl | eapply val_ok_np; eauto].
Qed.

Lemma default_not_placeholder sc f : default_of sc f <> PPlaceholder.
Proof. unfold default_of. destruct (fhint f) as [p|p|p|pk p]; try discriminate. destruct p; discriminate. Qed.

(* ---------- try: current = getattr(self, name) except AttributeError: current = default; setattr(...) ---------- *)
Lemma mid_state sc c raw sow unk cur i f :
  wf_schema sc = true -> VGood sc (Obj c raw sow unk cur) -> nth_error (cfields (get_class sc c)) i = Some f ->
  exists o1 current,
    (match getattr sc (Obj c raw sow unk cur) i with
     | (o', Ok cur_v) => (o', cur_v)
     | (_, Err _) => (setattr sc (Obj c raw sow unk cur) i (default_of sc f), default_of sc f)
     end) = (o1, current) /\
    VGood sc o1 /\ ocls o1 = c /\ slot_ok sc f current = true /\ current <> PPlaceholder /\
    (fgroup f = None -> group_selects (ocur o1) f i <> Some false) /\
    (SGood sc (Obj c raw sow unk cur) -> SGoodX sc i o1).
Proof.
  intros Hwf HV Hf.
  destruct (getattr_cases4 sc c raw sow unk cur i)
    as [(e & Eg) | (f' & v & Hf' & Hs & [(Ev & Hne & Eg) | (Ev & Hp & Eg)])]; rewrite Eg.
  - eexists _, _. split; [reflexivity|].
    assert (Hd : slot_ok sc f (default_of sc f) = true) by (eapply default_slot_ok_at; eauto).
    split; [apply vgood_setattr; auto; intros f0 Hf0; unfold cfs in Hf0; cbn [ocls] in Hf0; congruence|].
    split; [apply setattr_cls|]. split; [exact Hd|]. split; [apply default_not_placeholder|].
    split; [intros Hg; unfold group_selects; rewrite Hg; discriminate|].
    intros HS. apply sgoodx_setattr; auto. apply sgoodx_of_sgood. exact HS.
  - rewrite Hf in Hf'. injection Hf' as <-. eexists _, _. split; [reflexivity|].
    split; [exact HV|]. split; [reflexivity|].
    split.
    { destruct HV as (Hl & _ & _ & _ & _ & Hsl). unfold cfs in *. cbn [oraw ocls] in *.
      assert (Hi : (i < length raw)%nat) by (rewrite Hl; eapply nth_error_lt; eauto).
      apply (Hsl i f v Hf). rewrite Ev. apply nth_nth_error. exact Hi. }
    split; [exact Hne|]. split; [intros _; exact Hs|].
    intros HS. apply sgoodx_of_sgood. exact HS.
  - rewrite Hf in Hf'. injection Hf' as <-. eexists _, _. split; [reflexivity|].
    assert (Hd : slot_ok sc f v = true) by (subst v; eapply default_slot_ok_at; eauto).
    split; [eapply vgood_set_slot; eauto; intros Hc; contradiction|]. split; [reflexivity|].
    split; [exact Hd|]. split; [subst v; apply default_not_placeholder|]. split; [intros _; exact Hs|].
    intros HS. eapply sgoodx_set_slot_x. apply sgoodx_of_sgood. exact HS.
Qed.
