(* C05, message level, ACCEPT direction, leaves: for a well-formed abstract scalar / enum number / Timestamp /
   Duration / map key, the canonical JSON json_spec writes is read by betterproto's reader (Model/Json.v) as the
   Python value [conc_leaf a]; that value is in range, NaN-canonical, and denotes [a] again. *)
From BP Require Import Base.Prelude Model.Types Model.Float Model.Utf8 Model.Object Model.WellFormed Model.TimeCore Spec.Time.
From BP Require Model.Json Model.Enum Model.Casing Spec.JsonMap Model.Time.
From BP Require Import gen.Tables.
From BP Require Import Proofs.BytesP Proofs.C04Def Proofs.C04ScalarP Proofs.C04ElemP Proofs.C04FieldP.
From BP Require Proofs.EnumP Proofs.TimeP.
From BP Require Import Proofs.C05Casing Proofs.C05Leaf Proofs.C05Model Proofs.C05MsgDef Proofs.C05MsgSpec Proofs.C05MsgLeaf.
From BP Require Import Proofs.C05AccDef Proofs.C05AccSpec.
From Coq Require Import Lia ZifyBool.
Ltac Zify.zify_post_hook ::= Z.to_euclidean_division_equations.

Definition conc_leaf (a : S.aval) : pv :=
  match a with
  | S.AInt z | S.AEnum z => PInt z
  | S.ABool b => PBool b
  | S.AFloat b => PFloat b
  | S.AStr s => PStr s
  | S.ABytes b => PBytes b
  | S.ATime s n => PDatetime (s * 1000000 + n / 1000)
  | S.ADur s n => PTimedelta (s * 1000000 + Z.quot n 1000)
  | S.AMsg _ => PNone
  end.
Lemma conc_elem_leaf sc js off k a : (match a with S.AMsg _ => False | _ => True end) -> conc_elem sc js off k a = conc_leaf a.
Proof. destruct a; intros H; try contradiction H; reflexivity. Qed.

(* ---- floats ---- *)
Lemma inf_representable : f32_representable f64_pos_inf = true /\ f32_representable f64_neg_inf = true.
Proof. split; vm_compute; reflexivity. Qed.
Lemma inf_not_nan : f64_is_nan f64_pos_inf = false /\ f64_is_nan f64_neg_inf = false.
Proof. split; vm_compute; reflexivity. Qed.

Lemma float_range b : (0 <=? b) && (b <? 2 ^ 64) = true -> wf_float b = true ->
  int_in 0 (2 ^ 64) b = true /\ nan_canonical (PFloat b) = true.
Proof.
  intros B W. split; [unfold int_in; exact B|]. unfold nan_canonical.
  destruct (float_cases b W) as [->|[F|[->| ->]]].
  - rewrite <- nan_bits_same. rewrite Z.eqb_refl. apply orb_true_r.
  - rewrite (finite_not_nan b F). reflexivity.
  - reflexivity.
  - reflexivity.
Qed.
Lemma float32_range b : wf_float b = true -> f32_exact b = true -> f32_representable b || f64_is_nan b = true.
Proof.
  intros W X. destruct (float_cases b W) as [->|[F|[->| ->]]].
  - rewrite spec_nan_is_nan. apply orb_true_r.
  - unfold f32_exact in X. rewrite F in X. unfold S.to_f32 in X. unfold f32_representable.
    destruct (d2f b) as [w|]; [|discriminate X]. destruct (S.f64_finite (f2d w)); [|discriminate X].
    rewrite X. reflexivity.
  - rewrite (proj1 inf_representable). reflexivity.
  - rewrite (proj2 inf_representable). reflexivity.
Qed.

Section Leaves.
  Variable sc : schema.
  Variable js : S.jschema.
  Variable off : nat.
  Hypothesis JM : js_matches off sc js = true.
  Let nc := length (classes sc).
  Let ne := length (enums sc).

  (* ---- scalars ---- *)
  Lemma scalar_read t k p a :
    skind_of t = Some k -> pyty_fits nc ne t p = true -> wf_leaf k a = true ->
    exists j, S.spec_scalar k a = Some j /\
              J.scalar_from_json sc t p (unconv j) = Ok (conc_leaf a) /\
              scalar_in_range t (conc_leaf a) = true /\ nan_canonical (conc_leaf a) = true /\
              abs_elem sc p (conc_leaf a) = a.
  Proof.
    intros K P W. unfold wf_leaf in W. apply andb_prop in W as [W B]. apply andb_prop in W as [W U].
    destruct (spec_scalar_accepted k a W) as (j & Sj & _). exists j. split; [exact Sj|].
    assert (A : abs_scalar (conc_leaf a) = Some a) by (destruct k, a; try discriminate W; reflexivity).
    assert (R : scalar_in_range t (conc_leaf a) = true /\ nan_canonical (conc_leaf a) = true).
    { destruct t; try discriminate K; cbn [skind_of] in K; inversion K; subst k; clear K;
        destruct a; try discriminate W; cbn [conc_leaf scalar_in_range wf_scalar utf8_ok bits_ok] in *.
      all: try (apply andb_prop in W as [W1 W2]; destruct (float_range bits B W1) as [R1 R2];
                rewrite R1, (float32_range bits W1 W2); split; [reflexivity|exact R2]).
      all: try (split; [apply (float_range bits B W)|apply (float_range bits B W)]).
      all: unfold S.in_int_range, S.int_range, int_in in *; split; try reflexivity; try lia; try exact U. }
    destruct R as [R N].
    split; [exact (model_scalar_accepts_canonical sc t k p (conc_leaf a) a j K P R N A Sj)|].
    split; [exact R|]. split; [exact N|].
    destruct t; try discriminate K; destruct a; try discriminate A; destruct p; try discriminate P; reflexivity.
  Qed.

  (* ---- enums ---- *)
  Lemma enum_read e n : (- 2 ^ 31 <=? n) && (n <? 2 ^ 31) = true ->
    exists j, S.spec_val js (S.JEnum e) (S.AEnum n) = Some j /\
              J.scalar_from_json sc TEnum (PyEnum e) (unconv j) = Ok (PInt n).
  Proof.
    intros R. destruct (enum_cls_build sc js off JM e) as [B N].
    assert (E : forall j, J.scalar_from_json sc TEnum (PyEnum e) j = J.enum_from_json sc e j).
    { intros j. unfold J.scalar_from_json. C04ScalarP.eval_tables. reflexivity. }
    cbn [S.spec_val]. rewrite enum_name_first.
    destruct (EnumP.first_name (S.jenum js e) n) as [nm|] eqn:F.
    - exists (S.JStr nm). split; [reflexivity|]. rewrite E. cbn [unconv J.enum_from_json].
      rewrite B. unfold Enum.from_string. rewrite EnumP.mmap_closed by exact N.
      rewrite (EnumP.nget_map_in (fun nv => EnumP.canon (S.jenum js e) (snd nv)) _ nm n N (EnumP.first_name_in _ _ _ F)).
      reflexivity.
    - exists (S.JNum n). split; [reflexivity|]. rewrite E. cbn [unconv J.enum_from_json].
      rewrite B, EnumP.try_value_canon. reflexivity.
  Qed.
End Leaves.

(* ---- Timestamp ---- *)
Lemma time_read s n : wf_time s n = true ->
  let us := s * 1000000 + n / 1000 in
  J.iso_parse (S.ts_str s n) = Ok us /\ (dt_min_us <=? us) && (us <=? dt_max_us) = true /\ ts_of_us us = (s, n).
Proof.
  intros W us. unfold wf_time, S.TS_MIN_S, S.TS_MAX_S in W.
  assert (T : ts_of_us us = (s, n)) by (unfold ts_of_us, us; f_equal; lia).
  assert (R : (dt_min_us <=? us) && (us <=? dt_max_us) = true) by (unfold dt_min_us, dt_max_us, us; lia).
  split; [|split; assumption].
  pose proof (model_timestamp_accepts_canonical us R) as P. rewrite T in P. exact P.
Qed.

(* ---- Duration ---- *)
Lemma parse_duration_whole s : - DUR_MAX_S <= s <= DUR_MAX_S ->
  Model.Time.parse_duration (dur_json s 0) = Ok (s * 1000000).
Proof.
  intros R. unfold dur_json, frac. change (Z.abs 0 mod 1000000000 =? 0) with true. cbv iota.
  replace ((s <? 0) || (0 <? 0)) with (s <? 0) by lia.
  unfold Model.Time.parse_duration. cbn [app]. rewrite app_assoc, removelast_last.
  assert (T : Model.Time.dec_tokens ((if s <? 0 then [cMINUS] else []) ++ dec (Z.abs s)) = Some (s <? 0, dec (Z.abs s), [])).
  { unfold Model.Time.dec_tokens.
    assert (Hb : (let '(ip, r1) := span_digits (dec (Z.abs s)) in
                  let '(fp, r2) := match r1 with b :: r => if Byte.eqb b cDOT then span_digits r else ([], r1) | [] => ([], r1) end in
                  if is_nil r2 && negb (is_nil (ip ++ fp)) then Some (s <? 0, ip, fp) else None)
                 = Some (s <? 0, dec (Z.abs s), [])).
    { rewrite span_digits_all by (apply TimeP.dec_digits; lia). rewrite app_nil_r, TimeP.is_nil_dec. reflexivity. }
    destruct (s <? 0) eqn:E.
    - cbn [app]. change (Byte.eqb cMINUS cMINUS) with true. cbv iota. exact Hb.
    - cbn [app]. pose proof (TimeP.dec_digits (Z.abs s) ltac:(lia)) as Hd. pose proof (TimeP.dec_nonempty (Z.abs s)) as Hn.
      destruct (dec (Z.abs s)) as [|b l] eqn:D; [congruence|]. inversion Hd as [|? ? Hb' _]; subst.
      rewrite (TimeP.digit_not b cMINUS Hb'), (TimeP.digit_not b cPLUS Hb') by reflexivity. exact Hb. }
  rewrite T. rewrite TimeP.dval_dec by lia.
  change (dval (firstn 6 ([] ++ repeat Model.Time.c0 6))) with 0. change (10 ^ 6) with 1000000.
  unfold Model.Time.timedelta_new.
  replace (0 * 1000000 + (if s <? 0 then - (Z.abs s * 1000000 + 0) else Z.abs s * 1000000 + 0)) with (s * 1000000)
    by (destruct (s <? 0) eqn:E; lia).
  assert (D : Z.abs (Model.Time.td_days (s * 1000000)) <= 999999999).
  { apply TimeP.dur_range_days. unfold in_dur_range, DUR_MAX_S in *. lia. }
  replace (Z.abs (Model.Time.td_days (s * 1000000)) >? 999999999) with false by lia. reflexivity.
Qed.

Lemma quot_rem_parts s q :
  - 1000000 < q < 1000000 -> (0 < s -> 0 <= q) -> (s < 0 -> q <= 0) ->
  Z.quot (s * 1000000 + q) 1000000 = s /\ Z.rem (s * 1000000 + q) 1000000 = q.
Proof.
  intros B P N. destruct (Z_le_gt_dec 0 (s * 1000000 + q)) as [H|H].
  - assert (0 <= s /\ 0 <= q) as [Hs Hq] by lia.
    rewrite Z.quot_div_nonneg, Z.rem_mod_nonneg by lia. lia.
  - assert (s <= 0 /\ q <= 0) as [Hs Hq] by lia.
    replace (s * 1000000 + q) with (- ((- s) * 1000000 + (- q))) by lia.
    rewrite Z.quot_opp_l, Z.rem_opp_l by lia.
    rewrite Z.quot_div_nonneg, Z.rem_mod_nonneg by lia. lia.
Qed.

Lemma dur_read s n : wf_dur s n = true ->
  let us := s * 1000000 + Z.quot n 1000 in
  Model.Time.parse_duration (dur_json s n) = Ok us /\
  (- 315576000000000000 <=? us) && (us <=? 315576000000000000) = true /\ dur_of_us us = (s, n).
Proof.
  intros W us. unfold wf_dur, S.dur_in_range, DUR_MAX_S in W.
  assert (Q : n = 1000 * Z.quot n 1000) by (pose proof (Z.quot_rem' n 1000); lia).
  set (q := Z.quot n 1000) in *. clearbody q.
  assert (T : dur_of_us us = (s, n)).
  { unfold dur_of_us, us. destruct (quot_rem_parts s q) as [E1 E2]; try lia. rewrite E1, E2. f_equal. lia. }
  assert (R : (- 315576000000000000 <=? us) && (us <=? 315576000000000000) = true) by (unfold us; lia).
  split; [|split; assumption].
  destruct (Z.eq_dec n 0) as [Ez|Nz]; [assert (Eq0 : q = 0) by lia|].
  - replace us with (s * 1000000) by (unfold us; lia). rewrite Ez.
    apply parse_duration_whole. unfold DUR_MAX_S. lia.
  - assert (M : us mod 1000000 <> 0) by (unfold us; lia).
    pose proof (TimeP.delta_to_json_is_spec us M) as E. rewrite T in E. cbn [fst snd] in E. rewrite <- E.
    apply TimeP.parse_duration_delta_to_json_range. unfold in_dur_range, DUR_MAX_S. lia.
Qed.

(* ---- map keys ---- *)
Lemma key_read sc kt pk a :
  map_key_ok kt = true -> pyty_fits (length (classes sc)) (length (enums sc)) kt pk = true ->
  wf_mkey (sk kt) a = true ->
  exists ks, S.key_str (sk kt) a = Some ks /\ J.key_from_json kt (J.JStr ks) = Ok (conc_leaf a) /\
             scalar_in_range kt (conc_leaf a) = true /\ abs_elem sc pk (conc_leaf a) = a.
Proof.
  intros Hk Hp W. unfold wf_mkey in W. apply andb_prop in W as [W U].
  destruct kt; try discriminate Hk; cbn [sk skind_of] in *; destruct a; try discriminate W;
    destruct pk; try discriminate Hp;
    cbn [S.key_str conc_leaf wf_key utf8_ok scalar_in_range abs_elem] in *;
    unfold S.in_int_range, S.int_range, int_in in *;
    try (eexists; split; [reflexivity|]; unfold J.key_from_json; C04ScalarP.eval_tables;
         change (S.int_str z) with (J.str_of_Z z); rewrite parse_int_str; repeat split; try reflexivity; lia).
  - destruct b; eexists; (split; [reflexivity|]); repeat split; reflexivity.
  - eexists. split; [reflexivity|]. repeat split; try reflexivity. exact U.
Qed.
