(* C06: "emitted" as ONE complete record.  The contribution [here] of an explicit-presence field that holds a value
   is exactly one record of the grammar of Spec/C06Wire.v with the field's number and wire type:
     - length-delimited kinds (string, bytes, message, wrapper, Timestamp / Duration): tag, length, payload, for any value;
     - varint and fixed-width kinds: for a value in the declared range (Model/WellFormed.v scalar_in_range); the scalar
       leaf is C02's (Proofs/C02LegalLeaf.v scalar_leaf), translated from Spec/Wire.v's record grammar to C06's.
   A wrapper field holding the zero of its wrapped type is the empty record: tag, length 0. *)
From BP Require Import Base.Prelude Model.Types Model.Varint Model.Scalar Model.Float Model.Utf8.
From BP Require Import Model.Object Model.Eq Model.TimeCore Model.Encode Model.Decode Model.WellFormed Model.C06Obs.
From BP Require Import gen.Tables Spec.Varint Spec.Wire Spec.C06Wire Spec.C06Zero.
From BP Require Import Proofs.BytesP Proofs.VarintP Proofs.C02LegalLeaf Proofs.C06EncP Proofs.C06ZeroP.
From Coq Require Import Lia.

(* ---- from Spec/Wire.v's grammar to Spec/C06Wire.v's ---- *)
Definition wrec_of (num : Z) (p : payload) : wrec :=
  match p with
  | Varint n => mkR num 0 n []
  | Fixed64 b => mkR num 1 0 b
  | Len b => mkR num 2 0 b
  | Fixed32 b => mkR num 5 0 b
  | Group _ => mkR num 3 0 []
  end.

Lemma rec_ok_is_record bs num p :
  rec_ok bs (num, p) -> (forall rs, p <> Group rs) -> is_record (wrec_of num p) bs.
Proof.
  intros H Hg. inversion H; subst; cbn [wrec_of];
    try match goal with T : TagRep _ _ _ |- _ => destruct T as (R & _ & Hn) end.
  - apply IR_varint; [lia|exact R|assumption].
  - apply IR_fixed64; [lia|exact R|assumption].
  - apply IR_len; [lia|exact R|assumption].
  - apply IR_fixed32; [lia|exact R|assumption].
  - exfalso. eapply Hg. reflexivity.
Qed.

Lemma wire_match_base t p : wire_match_t t p = true -> rwt (wrec_of 0 p) = base_wire_type t /\ forall rs, p <> Group rs.
Proof.
  unfold wire_match_t. destruct p; destruct t; cbn; intros H; try discriminate H; split; try reflexivity; intros; discriminate.
Qed.

Lemma wrec_of_num num p : rnum (wrec_of num p) = num.
Proof. destruct p; reflexivity. Qed.
Lemma wrec_of_wt num p : rwt (wrec_of num p) = rwt (wrec_of 0 p).
Proof. destruct p; reflexivity. Qed.

(* ---- length-delimited kinds ---- *)
Lemma serialize_len_record msg num t v se w h :
  1 <= num < 2 ^ 29 -> base_wire_type t = 2 ->
  serialize_with msg num t v se w = Ok h -> h <> [] -> Zlength h < 2 ^ 63 ->
  exists value, is_record (mkR num 2 0 value) h.
Proof.
  intros Hn Hb H Hne Hlen. unfold serialize_with in H.
  destruct (preprocess_with msg t w v) as [value|]; cbn [bind] in H; [|discriminate].
  assert (T : tmem t WIRE_VARINT_TYPES = false /\ tmem t WIRE_FIXED_32_TYPES = false /\
              tmem t WIRE_FIXED_64_TYPES = false).
  { destruct t; cbn in Hb; try discriminate Hb; repeat split; reflexivity. }
  destruct T as (T1 & T2 & T3). rewrite T1, T2, T3 in H.
  destruct (tmem t WIRE_LEN_DELIM_TYPES); [|discriminate].
  destruct (negb (Zlength value =? 0) || se || match w with Some _ => true | None => false end).
  2:{ injection H as <-. congruence. }
  rewrite tag_value in H by lia.
  destruct (encode_varint (num * 8 + 2)) as [key|] eqn:Ek; cbn [bind] in H; [|discriminate].
  destruct (encode_varint (Zlength value)) as [n|] eqn:En; cbn [bind] in H; [|discriminate].
  injection H as <-. exists value. apply IR_len; [lia|apply encode_tag; [lia|lia|exact Ek]|].
  assert (Hv : 0 <= Zlength value < 2 ^ 64).
  { unfold Zlength in *. rewrite !app_length in Hlen. lia. }
  destruct (encode_in_range (Zlength value) ltac:(lia)) as (bs & E' & (Sh & Va & _) & Le).
  rewrite En in E'. injection E' as <-.
  unfold wrap64 in Va. rewrite Z.mod_small in Va by lia. repeat split; assumption.
Qed.

(* ---- what [here] hands to _serialize_single for an explicit-presence field ---- *)
Lemma explicit_here_serialize sc cur i x f h :
  fmap f = None -> explicit_kind cur i f -> is_value x -> singular_value x ->
  here sc cur i x f = Ok h ->
  exists se, serialize_with (msg_bytes (enc_obj sc)) (fnum f) (fty f) x se (fwraps f) = Ok h.
Proof.
  intros Hmap Hk [Hnn Hnp] Hs H. unfold here in H.
  assert (E : exists sel, emit_field (enc_obj sc) sc f sel x = Ok h /\
                          (is_default sc f x = false \/ Encode.is_some (fgroup f) || fopt f = true)).
  { destruct Hk as [[Hg Hk]|Hsel].
    - unfold group_selects in H. rewrite Hg in H. exists None.
      split; [destruct x; try exact H; congruence|].
      destruct Hk as [Ho|(w & t & Hw & Hh)]; [right; rewrite Ho; apply orb_true_r|].
      left. destruct x; cbn [is_default]; rewrite Hh; try reflexivity. congruence.
    - rewrite Hsel in H. exists (Some true). split; [destruct x; try exact H; congruence|].
      right. unfold group_selects in Hsel. destruct (fgroup f); [reflexivity|discriminate]. }
  destruct E as (sel & E & Hc). unfold emit_field in E.
  match type of E with (if ?c then _ else _) = _ => assert (Ec : c = false) end.
  { destruct Hc as [-> | ->]; [reflexivity|]. cbn [orb negb]. apply andb_false_r. }
  rewrite Ec in E.
  destruct x; try (eexists; exact E).
  - exfalso. eapply Hs. reflexivity.
  - rewrite Hmap in E. discriminate.
Qed.

(* ---- the contribution of an explicit-presence field is exactly one record ---- *)
Theorem explicit_one_record sc cur i x f h :
  1 <= fnum f < 2 ^ 29 -> fmap f = None ->
  explicit_kind cur i f -> is_value x -> singular_value x ->
  (base_wire_type (fty f) = 2 \/ (fwraps f = None /\ scalar_in_range (fty f) x = true)) ->
  here sc cur i x f = Ok h -> Zlength h < 2 ^ 35 ->
  exists r, is_record r h /\ rnum r = fnum f /\ rwt r = base_wire_type (fty f).
Proof.
  intros Hn Hmap Hk Hv Hs Hkind H Hlen.
  pose proof (explicit_emit_here sc cur i x f h Hn Hmap Hk Hv Hs H) as Tag.
  pose proof (starts_with_tag_nonempty _ _ _ Tag) as Hne.
  destruct (explicit_here_serialize sc cur i x f h Hmap Hk Hv Hs H) as (se & S).
  destruct Hkind as [Hb|(Hw & Hr)].
  - destruct (serialize_len_record _ _ _ _ _ _ _ Hn Hb S Hne ltac:(lia)) as (value & R).
    exists (mkR (fnum f) 2 0 value). rewrite Hb. auto.
  - rewrite Hw in S.
    assert (Hsc : tmem (fty f) scalar_ptypes = true).
    { destruct (fty f); cbn in Hr; try discriminate Hr; reflexivity. }
    destruct (scalar_leaf _ _ _ _ _ _ Hn Hsc Hr S) as [(E & _)|(_ & G)]; [congruence|].
    destruct (G Hlen) as (p & R & (Wm & _ & _)).
    destruct (wire_match_base _ _ Wm) as [Wt Ng].
    exists (wrec_of (fnum f) p). split; [apply rec_ok_is_record; assumption|].
    split; [apply wrec_of_num|]. rewrite wrec_of_wt. exact Wt.
Qed.

(* ---- a wrapper field holding the zero of its wrapped type: the empty wrapper message, tag + length 0 ---- *)
Lemma wrapper_bytes_zero w x wt after rb :
  wrapper_value_type w <> None -> zero_record w x = Some (wt, after, rb) -> wrapper_bytes w x = Ok [].
Proof.
  intros Hw Hz. unfold wrapper_bytes.
  destruct w; cbn in Hw; try congruence; cbn [wrapper_value_type];
    destruct x; cbn in Hz; try discriminate Hz.
  all: try (destruct z; try discriminate Hz).
  all: try (destruct b; try discriminate Hz).
  all: try (destruct utf8; try discriminate Hz).
  all: try (destruct bits; try discriminate Hz).
  all: reflexivity.
Qed.

Theorem wrapper_zero_record sc cur i x f h w t wt after rb :
  1 <= fnum f < 2 ^ 29 -> fty f = TMessage -> fgroup f = None -> fwraps f = Some w -> fhint f = HOptional t ->
  wrapper_value_type w <> None -> zero_record w x = Some (wt, after, rb) ->
  here sc cur i x f = Ok h ->
  is_record (mkR (fnum f) 2 0 []) h /\ exists key, h = key ++ [x00].
Proof.
  intros Hn Ht Hg Hw Hh Hwt Hz H.
  assert (Hx : x <> PNone /\ x <> PPlaceholder /\ (forall l, x <> PList l) /\ (forall d, x <> PDict d) /\
               (forall o, x <> PMsg o) /\ (forall us, x <> PDatetime us) /\ (forall us, x <> PTimedelta us)).
  { destruct w, x; cbn in Hz; try discriminate; repeat split; intros; discriminate. }
  destruct Hx as (X1 & X2 & X3 & X4 & X5 & X6 & X7).
  unfold here, group_selects in H. rewrite Hg in H.
  assert (E : emit_field (enc_obj sc) sc f None x = Ok h) by (destruct x; try exact H; congruence). clear H.
  unfold emit_field in E.
  assert (Hd : is_default sc f x = false) by (destruct x; cbn [is_default]; rewrite Hh; try reflexivity; congruence).
  rewrite Hd in E. cbn [andb] in E.
  assert (S : exists se, serialize_with (msg_bytes (enc_obj sc)) (fnum f) (fty f) x se (fwraps f) = Ok h).
  { destruct x; try (eexists; exact E); exfalso; [eapply X3|eapply X4]; reflexivity. }
  destruct S as (se & S). rewrite Ht, Hw in S. unfold serialize_with, preprocess_with in S.
  replace (tmem TMessage [TEnum; TBool; TInt32; TInt64; TUInt32; TUInt64]) with false in S by reflexivity.
  replace (tmem TMessage [TSInt32; TSInt64]) with false in S by reflexivity.
  replace (tmem TMessage FIXED_TYPES) with false in S by reflexivity.
  replace (ptype_eqb TMessage TString) with false in S by reflexivity.
  replace (ptype_eqb TMessage TMessage) with true in S by reflexivity.
  assert (P : match x with
              | PDatetime _ | PTimedelta _ => msg_bytes (enc_obj sc) (Some w) x
              | PNone => Ok []
              | _ => msg_bytes (enc_obj sc) (Some w) x
              end = Ok []).
  { assert (M : msg_bytes (enc_obj sc) (Some w) x = Ok []).
    { pose proof (wrapper_bytes_zero w x wt after rb Hwt Hz) as Wb. unfold msg_bytes.
      destruct x; try exact Wb; exfalso; [eapply X1|eapply X6|eapply X7]; reflexivity. }
    destruct x; exact M. }
  rewrite P in S. cbn [bind] in S.
  replace (tmem TMessage WIRE_VARINT_TYPES) with false in S by reflexivity.
  replace (tmem TMessage WIRE_FIXED_32_TYPES) with false in S by reflexivity.
  replace (tmem TMessage WIRE_FIXED_64_TYPES) with false in S by reflexivity.
  replace (tmem TMessage WIRE_LEN_DELIM_TYPES) with true in S by reflexivity.
  rewrite orb_true_r in S. rewrite tag_value in S by lia.
  destruct (encode_varint (fnum f * 8 + 2)) as [key|] eqn:Ek; cbn [bind] in S; [|discriminate].
  change (Zlength (@nil byte)) with 0 in S. change (encode_varint 0) with (Ok (A:=list byte) [x00]) in S.
  cbn [bind] in S. injection S as <-. cbn [app]. split; [|exists key; reflexivity].
  change (key ++ [x00]) with (key ++ [x00] ++ []). apply IR_len; [lia|apply encode_tag; [lia|lia|exact Ek]|].
  repeat split; cbn; lia.
Qed.
