(* C18 behavioural part, towards Message.parse: the two object-level operations the decoder is made of
   (__getattribute__ with its lazy default, __setattr__ with the sibling reset) take corresponding states to
   corresponding states, for objects of the right shape (one raw attribute per field, one selection per group - the
   first two clauses of C07's invariant).  The loop of Message.load itself is not done: see C18_parse_partial. *)
From Coq Require Import ZArith List Bool Lia Arith.
From BP Require Import Base.Prelude Model.Types Model.Object Model.Eq Model.WellFormed.
From BP Require Import Model.C18Beh Proofs.C01Unfold Proofs.C06EncP Proofs.C07InvP Proofs.C18BehBase.
Import ListNotations.

(* ---- raw_rel, slot by slot ---- *)
Lemma raw_rel_nth r cur : forall ra k rb fs j f,
  raw_rel r cur k ra rb fs -> nth_error fs j = Some f -> (j < length ra)%nat ->
  slot_rel r (group_selects cur f (k + j)) (nth j ra PPlaceholder) (nth j rb PPlaceholder).
Proof.
  induction ra as [|x ra IH]; intros k rb fs j f R Hf Hl; [cbn [length] in Hl; lia|].
  destruct rb as [|y rb]; [contradiction|]. cbn [raw_rel] in R. destruct fs as [|f0 fs]; [destruct j; discriminate|].
  destruct R as [Rs R]. destruct j as [|j]; cbn [nth_error nth] in *.
  - injection Hf as <-. rewrite Nat.add_0_r. exact Rs.
  - replace (k + S j)%nat with (S k + j)%nat by lia. eapply IH; eauto. cbn [length] in Hl. lia.
Qed.

Lemma raw_rel_set r cur : forall ra k rb fs j f x y,
  raw_rel r cur k ra rb fs -> nth_error fs j = Some f ->
  slot_rel r (group_selects cur f (k + j)) x y ->
  raw_rel r cur k (set_nth j x ra) (set_nth j y rb) fs.
Proof.
  induction ra as [|x0 ra IH]; intros k rb fs j f x y R Hf HS.
  - destruct rb; [|contradiction]. destruct j; exact I.
  - destruct rb as [|y0 rb]; [contradiction|]. cbn [raw_rel] in R. destruct fs as [|f0 fs]; [destruct j; discriminate|].
    destruct R as [Rs R]. destruct j as [|j]; cbn [nth_error set_nth raw_rel] in *.
    + injection Hf as <-. rewrite Nat.add_0_r in HS. auto.
    + split; [exact Rs|]. eapply IH; eauto. replace (S k + j)%nat with (k + S j)%nat by lia. exact HS.
Qed.

Lemma nth_error_pyd sc c i : nth_error (cfields (get_class (pyd_schema sc) c)) i = option_map pyd_field (nth_error (cfields (get_class sc c)) i).
Proof. rewrite pyd_cfields. apply nth_error_map. Qed.

Definition res_rel (sc : schema) (r r' : result pv) : Prop :=
  match r, r' with Ok v, Ok v' => vrel sc v v' | Err e, Err e' => e = e' | _, _ => False end.

(* ---- __getattribute__ ---- *)
Theorem getattr_rel sc o o' i :
  (forall c, Forall mem_ok (cfields (get_class sc c))) ->
  length (oraw o) = length (cfields (get_class sc (ocls o))) ->
  orel sc o o' ->
  orel sc (fst (getattr sc o i)) (fst (getattr (pyd_schema sc) o' i)) /\
  res_rel sc (snd (getattr sc o i)) (snd (getattr (pyd_schema sc) o' i)).
Proof.
  intros M L R. destruct o as [c ra s u g]. cbn [oraw ocls] in L. pose proof R as R0. unfold orel in R.
  apply vrel_msg in R as (rb & E & R). injection E as ->. unfold getattr. rewrite nth_error_pyd.
  destruct (nth_error (cfields (get_class sc c)) i) as [f|] eqn:Hf; cbn [option_map]; [|cbn [fst snd res_rel]; auto].
  rewrite pyd_group_selects.
  assert (Hi : (i < length ra)%nat) by (rewrite L; apply nth_error_Some; congruence).
  pose proof (raw_rel_nth _ _ _ _ _ _ _ _ R Hf Hi) as Rs. cbn [Nat.add] in Rs.
  assert (Mf : mem_ok f).
  { pose proof (M c) as Mc. rewrite Forall_forall in Mc. apply Mc. eapply nth_error_In; eauto. }
  destruct (group_selects g f i) as [[|]|] eqn:Eg; cbn [slot_rel] in Rs.
  - destruct Rs as [Np Rv]. pose proof (vrel_ph _ _ _ Rv) as Hp.
    destruct (nth i ra PPlaceholder) eqn:Ex; try congruence; cbn [is_ph] in Hp;
      destruct (nth i rb PPlaceholder) eqn:Ey; try discriminate Hp; cbn [fst snd res_rel]; auto.
  - cbn [fst snd res_rel]. auto.
  - assert (Hg : fgroup f = None) by (unfold group_selects in Eg; destruct (fgroup f); [discriminate | reflexivity]).
    rewrite (pyd_field_none _ Hg). pose proof (vrel_ph _ _ _ Rs) as Hp.
    destruct (nth i ra PPlaceholder) eqn:Ex; cbn [is_ph] in Hp;
      destruct (nth i rb PPlaceholder) eqn:Ey; try discriminate Hp; cbn [fst snd res_rel]; auto.
    (* PLACEHOLDER: the default is stored *)
    split; [|apply default_rel, M]. unfold orel. cbn [vrel]. eexists. split; [reflexivity|].
    eapply raw_rel_set; eauto. cbn [Nat.add]. rewrite Eg. cbn [slot_rel]. apply default_rel, M.
Qed.

(* ---- __setattr__ ---- *)
Lemma raw_rel_of_pointwise r cur : forall ra k rb fs,
  length rb = length ra -> length ra = length fs ->
  (forall j f, nth_error fs j = Some f ->
               slot_rel r (group_selects cur f (k + j)) (nth j ra PPlaceholder) (nth j rb PPlaceholder)) ->
  raw_rel r cur k ra rb fs.
Proof.
  induction ra as [|x ra IH]; intros k rb fs L1 L2 H.
  - destruct rb; [exact I | discriminate].
  - destruct rb as [|y rb]; [discriminate|]. destruct fs as [|f fs]; [discriminate|]. cbn [raw_rel]. split.
    + specialize (H 0%nat f eq_refl). rewrite Nat.add_0_r in H. exact H.
    + apply IH; cbn [length] in *; try lia. intros j f0 Hj. specialize (H (S j) f0 Hj).
      replace (k + S j)%nat with (S k + j)%nat in H by lia. exact H.
Qed.

Lemma reset_go_pyd g i : forall fs j raw, reset_go g i j (map pyd_field fs) raw = reset_go g i j fs raw.
Proof.
  induction fs as [|f fs IH]; intros j raw; [reflexivity|]. destruct raw as [|x raw]; [reflexivity|].
  cbn [map reset_go]. rewrite pyd_field_group. f_equal. apply IH.
Qed.

Lemma fieldless_rel sc v v' : vrel sc v v' -> fieldless (pyd_schema sc) v' = fieldless sc v.
Proof.
  destruct v; cbn [vrel]; intros R; try (subst v'; reflexivity).
  - destruct R as (? & -> & _). reflexivity.
  - destruct R as (? & -> & _). reflexivity.
  - destruct o as [c ra s u g]. destruct R as (rb & -> & _). cbn [fieldless ocls]. rewrite pyd_cfields.
    destruct (cfields (get_class sc c)); reflexivity.
Qed.

Lemma mark_sow_rel sc v v' : vrel sc v v' -> vrel sc (mark_sow v) (mark_sow v').
Proof.
  destruct v; cbn [vrel]; intros R; try (subst v'; reflexivity).
  - destruct R as (lb & -> & R). cbn [mark_sow vrel]. eauto.
  - destruct R as (lb & -> & R). cbn [mark_sow vrel]. eauto.
  - destruct o as [c ra s u g]. destruct R as (rb & -> & R). cbn [mark_sow vrel]. eauto.
Qed.

Lemma mark_sow_ph v : is_ph (mark_sow v) = is_ph v.
Proof. destruct v; try reflexivity. destruct o; reflexivity. Qed.

Theorem setattr_rel sc o o' i v v' :
  wf_schema sc = true ->
  length (oraw o) = length (cfields (get_class sc (ocls o))) ->
  length (ocur o) = cngroups (get_class sc (ocls o)) ->
  orel sc o o' -> vrel sc v v' -> v <> PPlaceholder ->
  orel sc (setattr sc o i v) (setattr (pyd_schema sc) o' i v').
Proof.
  intros W L Lc R Rv Nv. destruct o as [c ra s u g]. cbn [oraw ocls ocur] in L, Lc. unfold orel in R.
  apply vrel_msg in R as (rb & E & R). injection E as ->. rewrite !setattr_unfold. cbn zeta. rewrite nth_error_pyd.
  rewrite (fieldless_rel _ _ _ Rv).
  set (w := if fieldless sc v then mark_sow v else v). set (w' := if fieldless sc v then mark_sow v' else v').
  assert (Rw : vrel sc w w') by (unfold w, w'; destruct (fieldless sc v); [apply mark_sow_rel|]; exact Rv).
  assert (Nw : w <> PPlaceholder).
  { unfold w. destruct (fieldless sc v); [|exact Nv]. intros Hw. pose proof (mark_sow_ph v) as Hp. rewrite Hw in Hp.
    destruct v; try discriminate Hp. congruence. }
  destruct (nth_error (cfields (get_class sc c)) i) as [f|] eqn:Hf; cbn [option_map].
  2:{ unfold orel. cbn [vrel]. eauto. }
  rewrite pyd_field_group. pose proof (raw_rel_length _ _ _ _ _ _ R) as Lb.
  assert (Hi : (i < length ra)%nat) by (rewrite L; apply nth_error_Some; congruence).
  destruct (fgroup f) as [gi|] eqn:Hg.
  - (* a oneof member *)
    assert (Hgi : (gi < length g)%nat).
    { rewrite Lc. eapply wf_field_group; [|exact Hg]. eapply wf_field_of; [exact W|]. eapply nth_error_In; eauto. }
    unfold orel. cbn [vrel]. eexists. split; [reflexivity|]. rewrite pyd_cfields, reset_go_pyd.
    apply raw_rel_of_pointwise.
    + rewrite !length_set_nth, !reset_go_length. exact Lb.
    + rewrite length_set_nth, reset_go_length. exact L.
    + intros j fj Hj. cbn [Nat.add].
      assert (Hjl : (j < length ra)%nat) by (rewrite L; apply nth_error_Some; congruence).
      destruct (Nat.eq_dec j i) as [->|Hne].
      * rewrite Hf in Hj. injection Hj as <-.
        rewrite !nth_set_nth_eq by (rewrite reset_go_length; lia).
        unfold group_selects. rewrite Hg, nth_set_nth_eq by exact Hgi. cbn [opt_nat_eqb]. rewrite Nat.eqb_refl.
        cbn [slot_rel]. auto.
      * rewrite !nth_set_nth_neq by exact Hne.
        destruct (opt_nat_eqb (fgroup fj) (Some gi)) eqn:Eg.
        -- apply opt_nat_eqb_eq in Eg.
           rewrite (reset_go_sibling gi i _ 0 ra j fj Hj Eg) by (cbn; lia).
           rewrite (reset_go_sibling gi i _ 0 rb j fj Hj Eg) by (cbn; lia).
           unfold group_selects. rewrite Eg, nth_set_nth_eq by exact Hgi. cbn [opt_nat_eqb].
           destruct (Nat.eqb i j) eqn:Eij; [apply Nat.eqb_eq in Eij; lia|]. cbn [slot_rel unsel_ok]. auto.
        -- assert (Hng : fgroup fj <> Some gi) by (intros Hx; rewrite Hx, opt_nat_eqb_refl in Eg; discriminate).
           rewrite (reset_go_other gi i _ 0 ra j fj Hj Hng), (reset_go_other gi i _ 0 rb j fj Hj Hng).
           pose proof (raw_rel_nth _ _ _ _ _ _ _ _ R Hj Hjl) as Rs. cbn [Nat.add] in Rs.
           assert (Hsel : group_selects (set_nth gi (Some i) g) fj j = group_selects g fj j).
           { unfold group_selects. destruct (fgroup fj) as [g'|]; [|reflexivity].
             rewrite nth_set_nth_neq; [reflexivity|]. intros ->. apply Hng. reflexivity. }
           rewrite Hsel. exact Rs.
  - (* not in a group *)
    unfold orel. cbn [vrel]. eexists. split; [reflexivity|].
    eapply raw_rel_set; eauto. cbn [Nat.add]. unfold group_selects. rewrite Hg. cbn [slot_rel]. exact Rw.
Qed.
