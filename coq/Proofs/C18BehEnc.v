(* C18 behavioural part, bytes: Message.dump of corresponding states of the plain and the pydantic class. *)
From Coq Require Import ZArith List Bool Lia Arith.
From BP Require Import Base.Prelude Model.Types Model.Varint Model.Scalar Model.Object Model.Eq Model.Encode Model.WellFormed.
From BP Require Import Model.C18Beh Proofs.C01Unfold Proofs.C06EncP Proofs.C14Ind Proofs.C18BehBase.
From BP Require Import gen.Tables.
Import ListNotations.

(* ---- the TYPE_MESSAGE branch never looks inside a container / an ill-placed message ---- *)
Definition same_shape (a b : pv) : Prop :=
  match a, b with
  | PList _, PList _ | PDict _, PDict _ | PMsg _, PMsg _ => True
  | _, _ => False
  end.

Lemma wrapper_bytes_shape w a b : same_shape a b -> wrapper_bytes w a = wrapper_bytes w b.
Proof.
  intros S. unfold wrapper_bytes. destruct (wrapper_value_type w) as [vt|]; [|reflexivity].
  destruct a, b; try contradiction; destruct vt; reflexivity.
Qed.

Lemma vrel_shape sc a b : vrel sc a b -> scalar_pv a = false -> same_shape a b.
Proof.
  destruct a; cbn [scalar_pv vrel]; intros R N; try discriminate.
  - destruct R as (? & -> & _). exact I.
  - destruct R as (? & -> & _). exact I.
  - destruct o. destruct R as (? & -> & _). exact I.
Qed.

Section Enc.
  Variable sc : schema.
  Hypothesis M : forall c, Forall mem_ok (cfields (get_class sc c)).
  Let sc' := pyd_schema sc.

  Section WithE.
    Variables E E' : obj -> result (list byte).

    (* agreement of the message encoders on one element *)
    Definition MA (x y : pv) : Prop := forall w, msg_bytes E' w y = msg_bytes E w x.

    Lemma MA_scalar x : scalar_pv x = true -> MA x x.
    Proof. intros S w. destruct x; try discriminate; reflexivity. Qed.

    Lemma MA_container x y : same_shape x y -> (forall o o', x = PMsg o -> y = PMsg o' -> E' o' = E o) -> MA x y.
    Proof.
      intros S H w. unfold msg_bytes. destruct x, y; try contradiction.
      - destruct w as [w|]; [apply wrapper_bytes_shape; exact I | reflexivity].
      - destruct w as [w|]; [apply wrapper_bytes_shape; exact I | reflexivity].
      - destruct w as [w|]; [apply wrapper_bytes_shape; exact I | apply H; reflexivity].
    Qed.

    Lemma preprocess_agree t w x y : vrel sc x y -> MA x y ->
      preprocess_with (msg_bytes E') t w y = preprocess_with (msg_bytes E) t w x.
    Proof.
      intros R A. destruct (scalar_pv x) eqn:S.
      - rewrite (vrel_scalar _ _ _ S R) in *. unfold preprocess_with.
        destruct (tmem t [TEnum; TBool; TInt32; TInt64; TUInt32; TUInt64]); [reflexivity|].
        destruct (tmem t [TSInt32; TSInt64]); [reflexivity|]. destruct (tmem t FIXED_TYPES); [reflexivity|].
        destruct (ptype_eqb t TString); [reflexivity|]. destruct (ptype_eqb t TMessage); [|reflexivity].
        destruct x, w; try reflexivity; apply A.
      - pose proof (vrel_shape _ _ _ R S) as Sh. unfold preprocess_with.
        destruct (tmem t [TEnum; TBool; TInt32; TInt64; TUInt32; TUInt64]); [destruct x, y; try contradiction; reflexivity|].
        destruct (tmem t [TSInt32; TSInt64]); [destruct x, y; try contradiction; reflexivity|].
        destruct (tmem t FIXED_TYPES).
        { unfold pack_value. destruct (pack_fmt t) as [[]|]; destruct x, y; try contradiction; reflexivity. }
        destruct (ptype_eqb t TString); [destruct x, y; try contradiction; reflexivity|].
        destruct (ptype_eqb t TMessage); [|destruct x, y; try contradiction; reflexivity].
        destruct x, y; try contradiction; destruct w; apply A.
    Qed.

    Lemma serialize_agree num t w se x y : vrel sc x y -> MA x y ->
      serialize_with (msg_bytes E') num t y se w = serialize_with (msg_bytes E) num t x se w.
    Proof. intros R A. unfold serialize_with. rewrite (preprocess_agree _ _ _ _ R A). reflexivity. Qed.

    Definition ER (x y : pv) : Prop := vrel sc x y /\ MA x y.

    (* what the caller knows about the parts of a field value *)
    Definition HA (v v' : pv) : Prop :=
      match v, v' with
      | PList l, PList l' => list_rel ER l l'
      | PDict d, PDict d' => list_rel (fun kx ky => fst ky = fst kx /\ scalar_pv (fst kx) = true /\ ER (snd kx) (snd ky)) d d'
      | _, _ => MA v v'
      end.

    (* the part of emit_field after the skip test *)
    Lemma emit_field_agree f f' sel v v' :
      fnum f' = fnum f -> fty f' = fty f -> fwraps f' = fwraps f -> fmap f' = fmap f ->
      is_some (fgroup f') || fopt f' = is_some (fgroup f) || fopt f ->
      vrel sc v v' -> HA v v' ->
      (is_default sc' f' v' && negb (is_some (fgroup f) || fopt f || (match v with PMsg o => osow o | _ => false end)
                                     || match sel with Some true => true | _ => false end)
       = is_default sc f v && negb (is_some (fgroup f) || fopt f || (match v with PMsg o => osow o | _ => false end)
                                     || match sel with Some true => true | _ => false end)) ->
      emit_field E' sc' f' sel v' = emit_field E sc f sel v.
    Proof.
      intros Hn Ht Hw Hm Hs R A Hc. unfold emit_field. rewrite Hn, Ht, Hw, Hm, Hs.
      assert (Hsow : (match v' with PMsg o => osow o | _ => false end) = (match v with PMsg o => osow o | _ => false end)).
      { destruct v; cbn [vrel] in R; try (subst v'; reflexivity).
        - destruct R as (? & -> & _); reflexivity.
        - destruct R as (? & -> & _); reflexivity.
        - destruct o. destruct R as (? & -> & _); reflexivity. }
      rewrite Hsow, Hc. clear Hsow Hc.
      destruct (is_default sc f v && _); [reflexivity|].
      destruct v as [| |z|b|b|s|s|z|z|l|d|o]; cbn [vrel] in R.
      1-9: subst v'; cbn [HA] in A; apply serialize_agree; [reflexivity | exact A].
      - destruct R as (lb & -> & R). cbn [HA] in A.
        assert (C1 : forall t, concat_map (preprocess_with (msg_bytes E') t None) lb = concat_map (preprocess_with (msg_bytes E) t None) l).
        { intros t. clear R. revert lb A. induction l as [|x l IH]; intros [|y lb] A; cbn [list_rel] in A; try contradiction; [reflexivity|].
          destruct A as [[Rx Ax] A]. cbn [concat_map]. fold (concat_map (preprocess_with (msg_bytes E') t None)).
          fold (concat_map (preprocess_with (msg_bytes E) t None)). rewrite (preprocess_agree _ _ _ _ Rx Ax), (IH _ A). reflexivity. }
        destruct (tmem (fty f) PACKED_TYPES).
        + rewrite C1. destruct (concat_map _ l) as [buf|e]; [|reflexivity]. cbn [bind]. apply serialize_agree; [reflexivity|].
          apply MA_scalar. reflexivity.
        + clear R C1. revert lb A. induction l as [|x l IH]; intros [|y lb] A; cbn [list_rel] in A; try contradiction; [reflexivity|].
          destruct A as [[Rx Ax] A]. cbn [concat_map]. rewrite (serialize_agree _ _ _ _ _ _ Rx Ax).
          match goal with |- bind _ (fun a => bind ?X _) = bind _ (fun a => bind ?Y _) => assert (Hxy : X = Y) by (apply IH; exact A) end.
          rewrite Hxy. reflexivity.
      - destruct R as (db & -> & R). cbn [HA] in A. destruct (fmap f) as [[kt vt]|]; [|reflexivity].
        clear R. revert db A. induction d as [|[k x] d IH]; intros [|[k' y] db] A; cbn [list_rel] in A; try contradiction; [reflexivity|].
        cbn [fst snd] in A. destruct A as [(-> & Sk & Rx & Ax) A].
        rewrite (serialize_agree 1 kt None false k k) by (first [apply MA_scalar; exact Sk | destruct k; try discriminate; reflexivity]).
        rewrite (serialize_agree 2 vt None false _ _ Rx Ax).
        destruct (serialize_with (msg_bytes E) 1 kt k false None) as [sk|]; [|reflexivity]. cbn [bind].
        destruct (serialize_with (msg_bytes E) 2 vt x false None) as [sv|]; [|reflexivity]. cbn [bind].
        rewrite (serialize_agree (fnum f) (fty f) None true (PBytes (sk ++ sv)) (PBytes (sk ++ sv))) by (first [reflexivity | apply MA_scalar; reflexivity]).
        destruct (serialize_with (msg_bytes E) (fnum f) (fty f) (PBytes (sk ++ sv)) true None); [|reflexivity]. cbn [bind].
        rewrite (IH _ A). reflexivity.
      - destruct o as [c ra s u g]. destruct R as (rb & -> & R). cbn [HA] in A.
        apply serialize_agree; [cbn [vrel]; eauto | exact A].
    Qed.
  End WithE.

  (* the property proved by induction over the nesting *)
  Definition PEnc (o : obj) : Prop :=
    forall o', orel sc o o' -> sow_ok_obj o = true -> enc_obj sc' o' = enc_obj sc o.

  (* from the induction hypothesis about the parts of a slot value to what emit_field needs *)
  Lemma HA_of_sub x y : subP PEnc x -> vrel sc x y -> sow_ok x = true -> HA (enc_obj sc) (enc_obj sc') x y.
  Proof.
    intros Sx R K. destruct x; cbn [vrel] in R; try (subst y; cbn [HA]; apply MA_scalar; reflexivity).
    - destruct R as (lb & -> & R). cbn [HA]. cbn [subP] in Sx. cbn [sow_ok] in K. revert lb R K.
      induction Sx as [|x l Hx Hl IH]; intros [|y lb] R K; cbn [list_rel] in *; try contradiction; [exact I|].
      destruct R as [Rx R]. cbn [forallb] in K. apply andb_true_iff in K as [Kx K]. split; [|apply IH; assumption].
      split; [exact Rx|]. destruct (scalar_pv x) eqn:S.
      + rewrite (vrel_scalar _ _ _ S Rx). apply MA_scalar, S.
      + apply MA_container; [eapply vrel_shape; eauto|]. intros o o' -> ->. cbn [elemP] in Hx. apply Hx; [exact Rx | exact Kx].
    - destruct R as (db & -> & R). cbn [HA]. cbn [subP] in Sx. cbn [sow_ok] in K. revert db R K.
      induction Sx as [|[k x] d Hx Hd IH]; intros [|[k' y] db] R K; cbn [list_rel] in *; try contradiction; [exact I|].
      destruct R as [(-> & Sk & Rx) R]. cbn [forallb] in K. apply andb_true_iff in K as [Kx K]. split; [|apply IH; assumption].
      cbn [fst snd] in *. repeat split; auto. destruct (scalar_pv x) eqn:S.
      + rewrite (vrel_scalar _ _ _ S Rx). apply MA_scalar, S.
      + apply MA_container; [eapply vrel_shape; eauto|]. intros o o' -> ->. cbn [elemP] in Hx. apply Hx; [exact Rx | exact Kx].
    - cbn [subP] in Sx. pose proof R as R0. destruct o as [c ra s u g]. destruct R as (rb & -> & R). cbn [HA].
      apply MA_container; [exact I|]. intros o o' Ho Ho'. injection Ho as <-. injection Ho' as <-. apply Sx; [exact R0 | exact K].
  Qed.

  Lemma HA_const x y : vrel sc x y -> nosel x = true -> match x with PList (_ :: _) | PDict (_ :: _) => False | _ => True end ->
    HA (fun _ => Ok []) (fun _ => Ok []) x y.
  Proof.
    intros R _ Hs. destruct x; cbn [vrel] in R; try (subst y; cbn [HA]; apply MA_scalar; reflexivity).
    - destruct l; [|contradiction]. destruct R as (lb & -> & R). destruct lb; [|contradiction]. exact I.
    - destruct l; [|contradiction]. destruct R as (lb & -> & R). destruct lb; [|contradiction]. exact I.
    - destruct o as [c ra s u g]. destruct R as (rb & -> & R). cbn [HA]. apply MA_container; [exact I|]. reflexivity.
  Qed.

  Lemma default_small f : match default_of sc f with PList (_ :: _) | PDict (_ :: _) => False | _ => True end.
  Proof. unfold default_of. destruct (fhint f) as [t|t|t|k v]; try exact I. destruct t; exact I. Qed.

  (* the skip test agrees when the value has the flag or holds no selection *)
  Lemma skip_agree f sel v v' :
    vrel sc v v' -> flag_or_nosel v = true ->
    is_default sc' f v' && negb (is_some (fgroup f) || fopt f || (match v with PMsg o => osow o | _ => false end)
                                     || match sel with Some true => true | _ => false end)
    = is_default sc f v && negb (is_some (fgroup f) || fopt f || (match v with PMsg o => osow o | _ => false end)
                                     || match sel with Some true => true | _ => false end).
  Proof.
    intros R F.
    assert (D : nosel v = true \/ exists o, v = PMsg o /\ osow o = true).
    { destruct v; try (left; reflexivity). cbn [flag_or_nosel] in F. apply orb_true_iff in F as [F|F]; [right; eauto | left; exact F]. }
    destruct D as [N | (o & -> & So)].
    - unfold sc'. rewrite (is_default_rel sc M _ _ f R N). reflexivity.
    - rewrite So, !orb_true_r. cbn [orb negb]. rewrite !andb_false_r. reflexivity.
  Qed.

  Lemma enc_slot_rel cur i f x y :
    mem_ok f -> slot_rel (vrel sc) (group_selects cur f i) x y -> subP PEnc x ->
    flag_or_nosel x = true -> sow_ok x = true ->
    enc_slot sc' cur i (pyd_field f) y = enc_slot sc cur i f x.
  Proof.
    intros Mf Rs Sx F K. unfold enc_slot. rewrite pyd_group_selects.
    destruct (group_selects cur f i) as [[|]|] eqn:Eg; cbn [slot_rel] in Rs.
    - (* selected member *)
      destruct Rs as [Np R].
      assert (exists g, fgroup f = Some g) as [g Hg].
      { unfold group_selects in Eg. destruct (fgroup f); [eauto | discriminate]. }
      destruct (pyd_field_member _ _ Mf Hg) as (p & Hh & Hh' & Ho' & Ho & Hw & Hm).
      pose proof (vrel_ph _ _ _ R) as Hp.
      assert (Hemit : emit_field (enc_obj sc') sc' (pyd_field f) (Some true) y = emit_field (enc_obj sc) sc f (Some true) x).
      { apply emit_field_agree; rewrite ?pyd_field_num, ?pyd_field_ty, ?pyd_field_wraps, ?pyd_field_map, ?pyd_field_group; auto.
        - rewrite Hg. reflexivity.
        - apply HA_of_sub; assumption.
        - rewrite !orb_true_r. cbn [negb]. rewrite !andb_false_r. reflexivity. }
      destruct x; try congruence; cbn [is_ph] in Hp; destruct y; try discriminate Hp; try exact Hemit;
        cbn [vrel] in R; try discriminate R; try reflexivity;
        try (destruct R as (? & R & _); discriminate R).
      all: try (destruct o; destruct R as (? & R & _); discriminate R).
    - exact eq_refl.
    - (* not in a group *)
      assert (Hg : fgroup f = None).
      { unfold group_selects in Eg. destruct (fgroup f); [discriminate | reflexivity]. }
      rewrite (pyd_field_none _ Hg).
      assert (Hemit : emit_field (enc_obj sc') sc' f None y = emit_field (enc_obj sc) sc f None x).
      { apply emit_field_agree; auto. - apply HA_of_sub; assumption. - apply (skip_agree f None); assumption. }
      pose proof (vrel_ph _ _ _ Rs) as Hp.
      destruct x; cbn [is_ph] in Hp; destruct y; try discriminate Hp; try exact Hemit;
        cbn [vrel] in Rs; try discriminate Rs; try reflexivity;
        try (destruct Rs as (? & Rs & _); discriminate Rs).
      2: destruct o; destruct Rs as (? & Rs & _); discriminate Rs.
      (* PLACEHOLDER: the default of the field, written with bytes(Cls()) = b"" *)
      pose proof (default_rel sc f M) as Rd. fold sc' in Rd.
      assert (Hd : emit_field (fun _ => Ok []) sc' f None (default_of sc' f) = emit_field (fun _ => Ok []) sc f None (default_of sc f)).
      { apply emit_field_agree; auto.
        - apply HA_const; [exact Rd | apply nosel_default | apply default_small].
        - apply (skip_agree f None); [exact Rd|]. pose proof (nosel_default sc f) as N. destruct (default_of sc f); try reflexivity.
          cbn [flag_or_nosel]. rewrite N. apply orb_true_r. }
      pose proof (vrel_ph _ _ _ Rd) as Hpd.
      destruct (default_of sc f) eqn:E1; destruct (default_of sc' f) eqn:E2; cbn [is_ph] in Hpd; try discriminate Hpd;
        try exact Hd; cbn [vrel] in Rd; try discriminate Rd; try reflexivity;
        try (destruct Rd as (? & Rd & _); discriminate Rd).
      destruct o; destruct Rd as (? & Rd & _); discriminate Rd.
  Qed.

  Lemma enc_slots_rel cur : forall ra i rb fs,
    Forall mem_ok fs -> raw_rel (vrel sc) cur i ra rb fs -> Forall (subP PEnc) ra ->
    forallb (fun x => flag_or_nosel x && sow_ok x) ra = true ->
    enc_slots sc' cur i rb (map pyd_field fs) = enc_slots sc cur i ra fs.
  Proof.
    induction ra as [|x ra IH]; intros i [|y rb] fs Mf R Sx K; cbn [raw_rel] in R; try contradiction; [reflexivity|].
    destruct fs as [|f fs]; [reflexivity|]. destruct R as [Rs R]. cbn [map]. rewrite !enc_slots_cons.
    inversion Mf as [|? ? Mf0 Mfs]; subst. inversion Sx as [|? ? Sx0 Sxs]; subst.
    cbn [forallb] in K. apply andb_true_iff in K as [Kx K]. apply andb_true_iff in Kx as [Fx Kx].
    rewrite (enc_slot_rel _ _ _ _ _ Mf0 Rs Sx0 Fx Kx), (IH _ _ _ Mfs R Sxs K). reflexivity.
  Qed.

  Theorem enc_obj_rel : forall o, PEnc o.
  Proof.
    apply obj_nested_ind. intros c raw s u g Sx o' R K. unfold orel in R. apply vrel_msg in R as (rb & E & R).
    injection E as ->. rewrite !enc_obj_unfold. unfold sc'. rewrite pyd_cfields.
    unfold sow_ok_obj in K. cbn [sow_ok] in K.
    fold sc'. rewrite (enc_slots_rel g raw 0 rb _ (M c) R Sx K). reflexivity.
  Qed.
End Enc.

Theorem enc_obj_pydantic sc o o' :
  wf_schema sc = true -> orel sc o o' -> sow_ok_obj o = true -> enc_obj (pyd_schema sc) o' = enc_obj sc o.
Proof. intros W R K. apply enc_obj_rel; auto. intros c. apply wf_class_mem_ok, W. Qed.

Theorem enc_obj_pydantic_fn sc o :
  wf_schema sc = true -> pyd_ok_obj sc o = true -> sow_ok_obj o = true ->
  enc_obj (pyd_schema sc) (pyd_obj sc o) = enc_obj sc o.
Proof. intros W K S. apply enc_obj_pydantic; auto. apply pyd_obj_rel, K. Qed.
