(* C03 chain, non-vacuity: the bridge's example descriptor D_ok (nested messages, two enums, a map of messages and a map of
   enums, a oneof, a proto3 optional, a repeated message field, a Timestamp and a wrapper; Proofs/PluginWitP.v) meets the
   premises of every chain corollary, its generated schema S_ok = schema_of_table T_ok and the value ok_outer of the
   generated class Outer meet the value-level hypotheses, and the conclusions evaluate to the non-trivial things one
   expects.  Everything by vm_compute. *)
From BP Require Import Base.Prelude Model.Types Spec.Descriptor Model.Object Model.Eq Model.Encode Model.Decode.
From BP Require Import Model.WellFormed Model.C01Def Model.Json.
From BP Require Import Model.Plugin Proofs.PluginP Proofs.PluginWitP Model.C03Bridge Model.C03Chain Proofs.C03BridgeWit.
From BP Require Import Spec.Wire Proofs.C02Abs Proofs.C08EvoDef.
From BP Require Proofs.C04Def Model.C17Typed Model.C08Step Model.C10Stream Model.C10Rt Model.History Model.C14Ops Model.C14Pickle.
From BP Require Proofs.C05MsgDef Proofs.C05AccDef Proofs.C05Model Spec.C06Wire Model.C06Obs Proofs.C06SpecP.
From BP Require Model.History Model.C07Ops Model.C07Wire Proofs.C07ValP.
From Coq Require Import Lia.
From Coq Require String.
Import String.StringSyntax.

Definition get_ok {A} (d : A) (r : result A) : A := match r with Ok a => a | Err _ => d end.
Definition ok_bytes : list byte := Eval vm_compute in get_ok [] (enc_obj S_ok ok_outer).

(* the descriptor-level premises shared by all corollaries, and the table / schema they speak about *)
Lemma chain_premises :
  protoc_wf D_ok = true /\ names_ok w_field_name w_class_name w_member_name D_ok = true /\ bridge_ok D_ok = true
  /\ reflect (compile w_field_name w_class_name w_member_name D_ok) = Ok T_ok /\ S_ok = schema_of_table T_ok
  /\ n_msgs T_ok = 2%nat /\ n_entries T_ok = 2%nat.
Proof. vm_compute. repeat split; reflexivity. Qed.

(* C02: the writer's hypotheses hold of ok_outer (58 bytes, 8 records), its bytes denote the message itself and lie inside
   [supported]; so the reader's hypotheses hold of those bytes *)
Lemma chain_interop :
  c01_value_ok S_ok ok_outer = true /\ enc_faithful S_ok ok_outer = true /\ enc_obj S_ok ok_outer = Ok ok_bytes
  /\ (Zlength ok_bytes <? 2 ^ 35) = true /\ length ok_bytes = 58%nat
  /\ match parse_wire ok_bytes with
     | Some rs => length rs = 8%nat
                  /\ sem (S (length ok_bytes)) S_ok 11 rs = Some (abs_obj S_ok ok_outer)
                  /\ supported (S (length ok_bytes)) S_ok 11 rs = true
     | None => False
     end
  /\ match parse S_ok 11 ok_bytes with Ok m' => abs_obj S_ok m' = abs_obj S_ok ok_outer | Err _ => False end.
Proof. vm_compute. repeat split; reflexivity. Qed.

(* C04: the residual premise holds of D_ok for both casings (it IS keys_ok of the generated schema), ok_outer is [good],
   and the JSON text round trip rebuilds it *)
Lemma chain_json :
  gen_keys_ok CAMEL w_field_name D_ok = true /\ gen_keys_ok SNAKE w_field_name D_ok = true
  /\ C04Def.keys_ok CAMEL S_ok = true /\ C04Def.keys_ok SNAKE S_ok = true
  /\ C04Def.good S_ok ok_outer = true
  /\ match to_dict CAMEL false S_ok ok_outer with JObj d => length d = 7%nat | _ => False end
  /\ match json_rt_inst CAMEL false S_ok ok_outer (new S_ok 11) with
     | Ok m' => obj_eq S_ok m' ok_outer = true /\ enc_obj S_ok m' = Ok ok_bytes
     | Err _ => False
     end.
Proof. vm_compute. repeat split; reflexivity. Qed.

(* it is a genuine extra premise: `message M { int32 a_1 = 1; int32 a1 = 2; }` - two distinct Python names (fields_nodup and all
   of names_ok hold; the real pythonize_field_name leaves both names alone, as the stand-in w_field_name does) with the one
   camelCase key `a1` *)
Definition D_keys : descriptor :=
  [mkFile (b "D_keys.proto"%string) (b "wk"%string)
     [mkMsg (b "M"%string) [mkField (b "a_1"%string) 1 1 5 (b ""%string) None false;
                            mkField (b "a1"%string) 2 1 5 (b ""%string) None false] [] [] [] false] []].
Lemma chain_keys_residual :
  protoc_wf D_keys = true /\ names_ok w_field_name w_class_name w_member_name D_keys = true /\ bridge_ok D_keys = true
  /\ gen_keys_ok CAMEL w_field_name D_keys = false /\ gen_keys_ok SNAKE w_field_name D_keys = true.
Proof. vm_compute. repeat split; reflexivity. Qed.

(* C17: the generated class Outer parses ok_bytes (and the bytes with a trailing unknown group) *)
Lemma chain_welltyped :
  match parse S_ok 11 (ok_bytes ++ [x9b; x06; x08; x01; x9c; x06]) with
  | Ok m => C17Typed.well_typed S_ok m = true /\ C17Typed.decoded_range S_ok m = true /\ ocls m = 11%nat
            /\ ounk m = [x9b; x06; x08; x01; x9c; x06]
  | Err _ => False
  end.
Proof. vm_compute. repeat split; reflexivity. Qed.

(* C08: Outer loses a (member of the oneof whose OTHER member is selected), od, bv; Inner loses back - one mask per
   generated message class; the older reader keeps 13 unknown bytes (od, bv) at the top level *)
Definition ok_um : list (list bool) := [[true; false; true; false; true; true; false; true]; [false; true]].
Lemma chain_evolution :
  (length ok_um <= n_msgs T_ok)%nat /\ gen_masks_ok T_ok (user_masks ok_um) = true
  /\ masks_ok S_ok (user_masks ok_um) = true
  /\ map (fun c => length (cfields (get_class (C08Step.drop_fields (user_masks ok_um) S_ok) c))) [0; 10; 11; 12; 13; 14]%nat
     = [2; 1; 5; 1; 2; 2]%nat
  /\ match parse (C08Step.drop_fields (user_masks ok_um) S_ok) 11 ok_bytes with
     | Ok mo => length (ounk mo) = 13%nat /\
                match enc_obj (C08Step.drop_fields (user_masks ok_um) S_ok) mo with
                | Ok b2 => length b2 = 58%nat /\ b2 <> ok_bytes /\ parse S_ok 11 b2 = Ok (norm_obj S_ok ok_outer)
                | Err _ => False
                end
     | Err _ => False
     end.
Proof.
  split; [vm_compute; lia|]. split; [vm_compute; reflexivity|]. split; [vm_compute; reflexivity|].
  split; [vm_compute; reflexivity|]. vm_compute. repeat split; try reflexivity. discriminate.
Qed.

(* ... and a mask on an Entry class is refused *)
Lemma chain_evolution_entry_mask : gen_masks_ok T_ok (user_masks [[]; []; [true; false]]) = false.
Proof. vm_compute. reflexivity. Qed.

(* C10: a stream of three generated messages of two classes *)
Definition ok_ms : list obj := [ok_outer; ok_inner; ok_outer].
Lemma chain_streams :
  forallb (fun m => c01_value_ok S_ok m && deep nan_free (PMsg m) && C10Rt.msg_small S_ok m) ok_ms = true
  /\ map ocls ok_ms = [11; 12; 11]%nat
  /\ match C10Stream.dump_stream S_ok ok_ms with
     | Ok stream => length stream = 119%nat
                    /\ C10Stream.loads S_ok (map ocls ok_ms) (stream ++ [xff]) = (map (norm_obj S_ok) ok_ms, Ok [xff])
                    /\ C10Rt.whole_frames S_ok ok_ms 70 = 2%nat
     | Err _ => False
     end.
Proof. vm_compute. repeat split; reflexivity. Qed.
Lemma chain_streams_hyps :
  Forall (fun m => c01_value_ok S_ok m = true /\ deep nan_free (PMsg m) = true) ok_ms /\
  Forall (fun m => C10Rt.msg_small S_ok m = true) ok_ms.
Proof. split; repeat constructor. Qed.

(* C14: pickle / copy / deepcopy of ok_outer *)
Lemma chain_pickle :
  c01_value_ok S_ok (C08Step.clear_unk ok_outer) = true /\ C14Pickle.unk_records_ok S_ok ok_outer = true
  /\ C14Pickle.enc_small S_ok ok_outer = true /\ C14Ops.mat_obj S_ok ok_outer ok_outer = true
  /\ C14Pickle.pickle_pre S_ok ok_outer = true
  /\ sow_ok S_ok ok_outer = true /\ deep nan_free (PMsg ok_outer) = true
  /\ C14Ops.shaped_top S_ok ok_outer = true /\ C14Ops.shaped_obj S_ok ok_outer = true
  /\ History.pickle_rt S_ok ok_outer = Ok (norm_obj S_ok ok_outer).
Proof. vm_compute. repeat split; reflexivity. Qed.

(* C05: the residual premise holds of S_ok (all field names of D_ok are json_name_safe lower_snake names) *)
Lemma chain_json_canonical :
  C05MsgDef.js_matches 0 S_ok (C05MsgDef.jschema_of S_ok) = true /\ C05MsgDef.emit_good S_ok ok_outer = true
  /\ (ocls ok_outer < length (classes S_ok))%nat
  /\ C05Model.model_emit_accepts S_ok (C05MsgDef.jschema_of S_ok) 11 ok_outer = Some (C05MsgDef.abs_obj S_ok ok_outer)
  /\ C05AccDef.wf_aval S_ok (C05MsgDef.jschema_of S_ok) 0 (C05Model.S.JMsg 11) (C05MsgDef.abs_obj S_ok ok_outer) = true.
Proof. split; [vm_compute; reflexivity|]. split; [vm_compute; reflexivity|]. split; [vm_compute; lia|]. vm_compute. split; reflexivity. Qed.

(* C06: the records of ok_bytes, and what the decoded message reports *)
Lemma chain_presence :
  exists rs m, C06Wire.is_records rs ok_bytes /\ parse S_ok 11 ok_bytes = Ok m
    /\ C06Wire.last_member (get_class S_ok 11) 0 rs = Some 2%nat /\ which_one_of m 0 = Some 2%nat
    /\ map (fun f => C06Wire.has_record f rs) (cfields (get_class S_ok 11)) = [true; false; true; true; true; true; true; true]
    /\ C06Obs.value_not_none S_ok m 3 = true /\ C06Obs.is_set S_ok m 3 = true.
Proof.
  destruct (C06Wire.parse_records ok_bytes) as [rs|] eqn:E; [|vm_compute in E; discriminate].
  exists rs. eexists. split; [now apply C06SpecP.parse_records_sound|]. split; [vm_compute; reflexivity|].
  vm_compute in E. injection E as <-. vm_compute. repeat split; reflexivity.
Qed.

(* C07: a history on the generated class Outer: a = 5, then c = NEG (the other member of oneof pick), bytes, pickle, copy *)
Definition ok_ops : list C07Ops.op7 :=
  [C07Ops.OBase (History.OSet [] 1 (PInt 5)); C07Ops.OBase (History.OSet [] 2 (PInt (-1))); C07Ops.OBase History.OBytes;
   C07Ops.OBase History.OPickle; C07Ops.OBase History.OCopy].
Lemma chain_oneof :
  Forall (C07ValP.op_ok S_ok 11) ok_ops /\
  match C07Ops.run7 S_ok (new S_ok 11) ok_ops with
  | Ok o => which_one_of o 0 = Some 2%nat /\ read S_ok o 1 = Err EAttribute
            /\ enc_obj S_ok o = Ok [x18; xff; xff; xff; xff; xff; xff; xff; xff; xff; x01]
            /\ C07Wire.records [x18; xff; xff; xff; xff; xff; xff; xff; xff; xff; x01] = Some [(3, 0)]
  | Err _ => False
  end.
Proof.
  split; [|vm_compute; repeat split; reflexivity].
  unfold ok_ops. repeat constructor; cbn [C07ValP.op_ok]; try exact I; reflexivity.
Qed.
