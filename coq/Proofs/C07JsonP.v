(* C07, the JSON clauses, over the dict/JSON model of property C04 (Model/Json.v, imported read-only):
   - to_dict(casing, include_default_values) — for both casings and BOTH values of the flag — holds the key of the
     selected member of a group (also when the member holds its default) and the key of no unselected member;
   - from_dict (class and instance form) establishes / preserves the invariant. *)
From Coq Require Import ZArith List Bool Lia Arith.
From BP Require Import Base.Prelude Model.Types Model.Object Model.Eq Model.WellFormed Model.Json.
From BP Require Import Model.C07Ops Proofs.BytesP Proofs.C07InvP Proofs.C07EncP Proofs.C07ObsP Proofs.C07HistP Proofs.C07ValP.
Import ListNotations.

(* the keys of a JSON object *)
Definition jkeys (j : json) : list (list byte) :=
  match j with
  | JObj d => flat_map (fun kv => match fst kv with JStr k => [k] | _ => [] end) d
  | _ => []
  end.

Lemma jkeys_jset k v d x : In x (jkeys (JObj (jset k v d))) <-> x = k \/ In x (jkeys (JObj d)).
Proof.
  cbn [jkeys]. induction d as [|[k' v'] d IH]; cbn [jset flat_map fst app In].
  - intuition congruence.
  - destruct k'; cbn [flat_map fst app In]; try (rewrite IH; intuition congruence).
    destruct (bytes_eqb k s) eqn:E; cbn [flat_map fst app In].
    + apply bytes_eqb_eq in E. subst s. intuition congruence.
    + rewrite IH. intuition congruence.
Qed.

Lemma jkeys_dict_norm items x : In x (jkeys (JObj (dict_norm items))) <-> In x (map fst items).
Proof.
  unfold dict_norm.
  assert (G : forall items d, In x (jkeys (JObj (fold_left (fun d kv => jset (fst kv) (snd kv) d) items d))) <->
                              In x (map fst items) \/ In x (jkeys (JObj d))).
  { clear. induction items as [|[k v] items IH]; intros d; cbn [fold_left map In fst snd].
    - intuition.
    - rewrite IH, jkeys_jset. intuition congruence. }
  rewrite G. cbn. intuition.
Qed.

(* the loop of to_dict over the fields *)
Definition td_here (cs : casing) (incl : bool) (sc : schema) (cur : list (option nat)) (f : fdesc) (i : nat) (x : pv)
  : option json :=
  match group_selects cur f i with
  | Some false => None
  | sel =>
      match x with
      | PPlaceholder =>
          field_to_json (fun o' => if incl then default_dict default_fuel cs sc (ocls o') else JObj [])
                        sc incl f sel (default_of sc f)
      | _ => field_to_json (to_dict cs incl sc) sc incl f sel x
      end
  end.

Definition td_fields (cs : casing) (incl : bool) (sc : schema) (cur : list (option nat))
  : nat -> list pv -> list fdesc -> list (list byte * json) :=
  fix go (i : nat) (raw : list pv) (fs : list fdesc) {struct raw} : list (list byte * json) :=
    match raw, fs with
    | x :: raw', f :: fs' =>
        (match td_here cs incl sc cur f i x with Some j => [(key_of_field cs f, j)] | None => [] end)
        ++ go (S i) raw' fs'
    | _, _ => []
    end.

Lemma to_dict_unfold cs incl sc c raw sow unk cur :
  to_dict cs incl sc (Obj c raw sow unk cur) =
  JObj (dict_norm (td_fields cs incl sc cur 0 raw (cfields (get_class sc c)))).
Proof. reflexivity. Qed.

(* the selected member is always written, whatever it holds *)
Lemma field_to_json_selected rec sc incl f v :
  member_value_ok v = true -> field_to_json rec sc incl f (Some true) v <> None.
Proof.
  intros Hv. unfold field_to_json. rewrite orb_true_r.
  destruct (ptype_eqb (fty f) TMessage).
  - destruct v; try discriminate;
      try (rewrite orb_true_r; cbn [orb emit]; discriminate);
      destruct (fwraps f); try discriminate;
      destruct (fhint f); try discriminate;
      rewrite ?orb_true_r; cbn [orb emit]; discriminate.
  - destruct (ptype_eqb (fty f) TMap).
    + destruct v; try discriminate; destruct (fmap f) as [[? ?]|]; try discriminate;
        destruct (fhint f); discriminate.
    + rewrite orb_true_r. destruct (fhint f); destruct v; discriminate.
Qed.

Lemma td_fields_keys cs incl sc cur : forall raw i fs,
  (forall key, In key (map fst (td_fields cs incl sc cur i raw fs)) ->
     exists k f, nth_error fs k = Some f /\ (k < length raw)%nat /\ key = key_of_field cs f /\
                 group_selects cur f (i + k) <> Some false) /\
  (forall k f x, nth_error fs k = Some f -> nth_error raw k = Some x ->
     group_selects cur f (i + k) = Some true -> member_value_ok (shown sc f x) = true ->
     In (key_of_field cs f) (map fst (td_fields cs incl sc cur i raw fs))).
Proof.
  induction raw as [|x raw IH]; intros i fs.
  - split; [intros key [] | intros k f x _ Hx; destruct k; discriminate].
  - destruct fs as [|f fs].
    + split; [intros key [] | intros k f0 x0 Hk; destruct k; discriminate].
    + cbn [td_fields]. fold (td_fields cs incl sc cur). rewrite map_app.
      destruct (IH (S i) fs) as (IH1 & IH2). split.
      * intros key Hin. apply in_app_or in Hin. destruct Hin as [Hin|Hin].
        -- exists 0%nat, f. cbn [nth_error length]. rewrite Nat.add_0_r.
           destruct (td_here cs incl sc cur f i x) as [j|] eqn:Eh; [|destruct Hin].
           destruct Hin as [<-|[]]. repeat split; try lia.
           intros Hs. unfold td_here in Eh. rewrite Hs in Eh. discriminate.
        -- destruct (IH1 key Hin) as (k & f' & Hk & Hl & He & Hs).
           exists (S k), f'. cbn [nth_error length]. repeat split; auto; try lia.
           replace (i + S k)%nat with (S i + k)%nat by lia. exact Hs.
      * intros k f' x' Hk Hx Hs Hv. apply in_or_app. destruct k as [|k]; cbn [nth_error] in Hk, Hx.
        -- injection Hk as <-. injection Hx as <-. rewrite Nat.add_0_r in Hs. left.
           unfold td_here. rewrite Hs. unfold shown in Hv.
           destruct x;
             match goal with
             | |- In _ (map fst match ?F with Some _ => _ | None => _ end) =>
                 let E := fresh in destruct F eqn:E;
                 [left; reflexivity | exfalso; revert E; apply field_to_json_selected; exact Hv]
             end.
        -- right. apply (IH2 k f' x' Hk Hx); auto.
           replace (S i + k)%nat with (i + S k)%nat by lia. exact Hs.
Qed.

(* distinct fields of the class have distinct JSON keys under this casing (name collisions are C19's subject) *)
Definition keys_distinct (cs : casing) (sc : schema) (c : nat) : Prop :=
  forall j k f f', nth_error (cfields (get_class sc c)) j = Some f ->
                   nth_error (cfields (get_class sc c)) k = Some f' ->
                   key_of_field cs f = key_of_field cs f' -> j = k.

Theorem to_dict_observable cs incl sc o :
  wf_schema sc = true -> Inv sc o -> selected_values_ok sc o -> keys_distinct cs sc (ocls o) ->
  forall g, (g < cngroups (get_class sc (ocls o)))%nat ->
    match which_one_of o g with
    | Some i =>
        exists f, nth_error (cfs sc o) i = Some f /\ In (key_of_field cs f) (jkeys (to_dict cs incl sc o)) /\
                  forall j f', j <> i -> nth_error (cfs sc o) j = Some f' -> fgroup f' = Some g ->
                               ~ In (key_of_field cs f') (jkeys (to_dict cs incl sc o))
    | None =>
        forall j f', nth_error (cfs sc o) j = Some f' -> fgroup f' = Some g ->
                     ~ In (key_of_field cs f') (jkeys (to_dict cs incl sc o))
    end.
Proof.
  intros Hwf HI Hval Hkd g Hg. pose proof (InvS_of_Inv _ _ HI) as (Hr & Hc & Hs & _).
  destruct o as [c raw sow unk cur]. unfold cfs, which_one_of, selected_values_ok in *. cbn [ocls oraw ocur] in *.
  rewrite to_dict_unfold.
  destruct (td_fields_keys cs incl sc cur raw 0%nat (cfields (get_class sc c))) as (K1 & K2).
  assert (Hseen : forall j f', nth_error (cfields (get_class sc c)) j = Some f' ->
             In (key_of_field cs f') (jkeys (JObj (dict_norm (td_fields cs incl sc cur 0 raw (cfields (get_class sc c)))))) ->
             group_selects cur f' j <> Some false).
  { intros j f' Hj Hin. apply jkeys_dict_norm in Hin. destruct (K1 _ Hin) as (k & f & Hk & _ & He & Hgs).
    cbn [Nat.add] in Hgs. assert (j = k) by (eapply Hkd; eauto). subst k.
    rewrite Hk in Hj. injection Hj as <-. exact Hgs. }
  destruct (nth g cur None) as [i|] eqn:Ecur.
  - destruct (Hs g i Ecur) as (f & Hf & Hfg). exists f. split; [exact Hf|]. split.
    + apply jkeys_dict_norm.
      destruct (nth_error raw i) as [x|] eqn:Ex.
      2:{ apply nth_error_None in Ex. apply nth_error_lt in Hf. lia. }
      apply (K2 i f x Hf Ex).
      * cbn [Nat.add]. unfold group_selects. rewrite Hfg, Ecur. cbn [opt_nat_eqb]. rewrite Nat.eqb_refl. reflexivity.
      * specialize (Hval g i Ecur). rewrite (nth_error_nth _ _ _ Ex) in Hval. unfold shown.
        destruct x; try contradiction; try reflexivity.
        eapply wf_member_default; eauto. eapply wf_field_of; eauto.
    + intros j f' Hne Hj Hjg Hin. apply (Hseen j f' Hj Hin).
      unfold group_selects. rewrite Hjg, Ecur. cbn [opt_nat_eqb].
      destruct (Nat.eqb i j) eqn:Eij; [apply Nat.eqb_eq in Eij; congruence | reflexivity].
  - intros j f' Hj Hjg Hin. apply (Hseen j f' Hj Hin).
    unfold group_selects. rewrite Hjg, Ecur. reflexivity.
Qed.

(* ---- from_dict of the JSON model: both forms run the same constructor / assignments as C07Ops ---- *)
Theorem json_from_dict_cls_inv sc c j o : Json.from_dict_cls sc c j = Ok o -> Inv sc o.
Proof.
  unfold Json.from_dict_cls. destruct (from_dict_init sc c j) as [kw|]; cbn [bind]; [|discriminate].
  intros H. injection H as <-. apply Inv_of_InvS.
  unfold finish_cls. destruct (construct sc c kw) as [c0 raw sow unk cur] eqn:E.
  pose proof (InvS_construct sc c kw) as HI. rewrite E in HI. cbn [Json.set_sow]. eapply InvS_flags; eauto.
Qed.

Theorem json_from_dict_inst_inv sc o j o' : Inv sc o -> Json.from_dict_inst sc o j = Ok o' -> Inv sc o'.
Proof.
  unfold Json.from_dict_inst. intros HI. destruct (from_dict_init sc (ocls o) j) as [kw|]; cbn [bind]; [|discriminate].
  intros H. injection H as <-. apply Inv_of_InvS. apply InvS_of_Inv in HI.
  assert (H0 : InvS sc (Json.set_sow o)).
  { destruct o as [c raw sow unk cur]. cbn [Json.set_sow]. eapply InvS_flags; eauto. }
  revert H0. generalize (Json.set_sow o). induction kw as [|[i v] kw IH]; intros o0 H0; cbn [fold_left fst snd]; [exact H0|].
  apply IH. apply InvS_setattr. exact H0.
Qed.

(* ... after every history whose assigned member values are values *)
Theorem to_dict_observable_reachable cs incl sc c ops o :
  wf_schema sc = true -> Forall (op_ok sc c) ops -> run7 sc (new sc c) ops = Ok o -> keys_distinct cs sc (ocls o) ->
  forall g, (g < cngroups (get_class sc (ocls o)))%nat ->
    match which_one_of o g with
    | Some i =>
        exists f, nth_error (cfs sc o) i = Some f /\ In (key_of_field cs f) (jkeys (to_dict cs incl sc o)) /\
                  forall j f', j <> i -> nth_error (cfs sc o) j = Some f' -> fgroup f' = Some g ->
                               ~ In (key_of_field cs f') (jkeys (to_dict cs incl sc o))
    | None =>
        forall j f', nth_error (cfs sc o) j = Some f' -> fgroup f' = Some g ->
                     ~ In (key_of_field cs f') (jkeys (to_dict cs incl sc o))
    end.
Proof.
  intros Hwf Hok Er Hkd. apply to_dict_observable; auto.
  - eapply inv_reachable; eauto.
  - eapply selected_values_reachable; eauto.
Qed.
