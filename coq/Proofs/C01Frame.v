(* C01 layer 2 — field framing: the bytes _serialize_single writes for one field are read by
   load_varint + _load_field as exactly that field's record, leaving exactly the rest of the stream;
   the packed payload is inverted by the packed reader. *)
From Coq Require Import ZArith List Bool Lia ZifyBool.
From BP Require Import Base.Prelude Model.Types Model.Varint Model.Scalar Model.Float Model.Utf8.
From BP Require Import Model.Object Model.Eq Model.TimeCore Model.Encode Model.Decode Model.WellFormed Model.C01Def.
From BP Require Import gen.Tables Proofs.BytesP Proofs.VarintP Proofs.ScalarP Proofs.LenP Proofs.C01Float Proofs.C01Scalar.
Ltac Zify.zify_post_hook ::= Z.to_euclidean_division_equations.

(* ---------- small list facts ---------- *)
Lemma firstn_app_exact {A} (a b : list A) : firstn (length a) (a ++ b) = a.
Proof. induction a; cbn; [reflexivity|]. f_equal. assumption. Qed.

Lemma firstn_len {A} n (a b : list A) : length a = n -> firstn n (a ++ b) = a.
Proof. intros <-. apply firstn_app_exact. Qed.
Lemma skipn_len {A} n (a b : list A) : length a = n -> skipn n (a ++ b) = b.
Proof. intros <-. apply skipn_app_exact. Qed.

Lemma Zlength_length {A} (l : list A) : Z.to_nat (Zlength l) = length l.
Proof. unfold Zlength. apply Nat2Z.id. Qed.

Lemma read_exactly_app val rest : read_exactly (val ++ rest) (Zlength val) = Ok (val, rest).
Proof.
  unfold read_exactly. rewrite Zlength_app.
  pose proof (Zlength_nonneg val). pose proof (Zlength_nonneg rest).
  replace ((0 <=? Zlength val) && (Zlength val <=? Zlength val + Zlength rest)) with true by lia.
  rewrite Zlength_length, firstn_app_exact, skipn_app_exact. reflexivity.
Qed.

Lemma read_exactly_n val rest n : Zlength val = n -> read_exactly (val ++ rest) n = Ok (val, rest).
Proof. intros <-. apply read_exactly_app. Qed.

(* ---------- the tag ---------- *)
Lemma tag_fields num w :
  1 <= num < 2 ^ 29 -> 0 <= w < 8 ->
  let k := Z.lor (Z.shiftl num 3) w in
  0 <= k < 2 ^ 64 /\ Z.shiftr k 3 = num /\ Z.land k 7 = w.
Proof.
  intros Hn Hw k. subst k. rewrite shl by lia. change (2 ^ 3) with 8.
  replace (num * 8) with (num * 2 ^ 3) by (change (2 ^ 3) with 8; lia).
  rewrite lor_high_low by (change (2 ^ 3) with 8; lia). change (2 ^ 3) with 8.
  rewrite shr by lia. change 7 with (2 ^ 3 - 1). rewrite land_mask by lia. change (2 ^ 3) with 8.
  change (2 ^ 29) with 536870912 in Hn. change (2 ^ 64) with 18446744073709551616. lia.
Qed.

Lemma tag0_fields num :
  1 <= num < 2 ^ 29 ->
  let k := Z.shiftl num 3 in 0 <= k < 2 ^ 64 /\ Z.shiftr k 3 = num /\ Z.land k 7 = 0.
Proof.
  intros Hn. pose proof (tag_fields num 0 Hn ltac:(lia)) as H. cbv zeta in *. rewrite Z.lor_0_r in H. exact H.
Qed.

(* ---------- reading one record ---------- *)
Definition frame1 (fuel : nat) (s : list byte) : result (parsed * list byte) :=
  do (nw, r, s1) <- load_varint s; load_field fuel s1 nw r.

(* [bs] is one complete record, read as [p], wherever it stands in a stream *)
Definition reads (bs : list byte) (p : parsed) : Prop :=
  bs <> [] /\ praw p = bs /\ forall fuel rest, frame1 fuel (bs ++ rest) = Ok (p, rest).

Lemma app_nonempty_l {A} (a b : list A) : a <> [] -> a ++ b <> [].
Proof. destruct a; [congruence|discriminate]. Qed.

(* wire type 0 *)
Lemma reads_varint num key val n :
  1 <= num < 2 ^ 29 ->
  encode_varint (Z.shiftl num 3) = Ok key ->
  (forall rest, load_varint (val ++ rest) = Ok (n, val, rest)) ->
  reads (key ++ val) (mkP num 0 n [] (key ++ val)).
Proof.
  intros Hn Hk Hv. destruct (tag0_fields num Hn) as (Hr & Hs & Hl).
  destruct (varint_rt_nonneg _ Hr) as (key' & E & Ne & L). rewrite Hk in E. injection E as <-.
  split; [apply app_nonempty_l; exact Ne|]. split; [reflexivity|].
  intros fuel rest. unfold frame1. rewrite <- app_assoc, L. cbn [bind].
  destruct fuel; cbn [load_field]; rewrite Hs, Hl;
    replace (num =? 0) with false by lia; cbn [Z.eqb WIRE_VARINT]; rewrite Hv; reflexivity.
Qed.

(* wire types 1 and 5 *)
Lemma reads_fixed num w key val :
  1 <= num < 2 ^ 29 -> (w = 1 /\ length val = 8%nat) \/ (w = 5 /\ length val = 4%nat) ->
  encode_varint (Z.lor (Z.shiftl num 3) w) = Ok key ->
  reads (key ++ val) (mkP num w 0 val (key ++ val)).
Proof.
  intros Hn Hw Hk. destruct (tag_fields num w Hn ltac:(lia)) as (Hr & Hs & Hl).
  destruct (varint_rt_nonneg _ Hr) as (key' & E & Ne & L). rewrite Hk in E. injection E as <-.
  split; [apply app_nonempty_l; exact Ne|]. split; [reflexivity|].
  intros fuel rest. unfold frame1. rewrite <- app_assoc, L. cbn [bind].
  destruct Hw as [[-> Hlen] | [-> Hlen]];
    destruct fuel; cbn [load_field]; rewrite Hs, Hl; replace (num =? 0) with false by lia;
    cbn [Z.eqb WIRE_VARINT WIRE_FIXED_64 WIRE_LEN_DELIM WIRE_FIXED_32 Pos.eqb];
    (rewrite read_exactly_n by (unfold Zlength; rewrite Hlen; reflexivity)); reflexivity.
Qed.

(* wire type 2 *)
Lemma reads_len num key n val :
  1 <= num < 2 ^ 29 -> Zlength val < 2 ^ 64 ->
  encode_varint (Z.lor (Z.shiftl num 3) 2) = Ok key ->
  encode_varint (Zlength val) = Ok n ->
  reads (key ++ n ++ val) (mkP num 2 0 val (key ++ n ++ val)).
Proof.
  intros Hn Hlen Hk Hnv. destruct (tag_fields num 2 Hn ltac:(lia)) as (Hr & Hs & Hl).
  destruct (varint_rt_nonneg _ Hr) as (key' & E & Ne & L). rewrite Hk in E. injection E as <-.
  pose proof (Zlength_nonneg val) as H0.
  destruct (varint_rt_nonneg (Zlength val) ltac:(lia)) as (n' & E' & Ne' & L'). rewrite Hnv in E'. injection E' as <-.
  split; [apply app_nonempty_l; exact Ne|]. split; [reflexivity|].
  intros fuel rest. unfold frame1. rewrite <- !app_assoc, L. cbn [bind].
  destruct fuel; cbn [load_field]; rewrite Hs, Hl; replace (num =? 0) with false by lia;
    cbn [Z.eqb WIRE_VARINT WIRE_FIXED_64 WIRE_LEN_DELIM WIRE_FIXED_32 Pos.eqb];
    rewrite L'; cbn [bind]; rewrite read_exactly_app; reflexivity.
Qed.

(* ---------- _serialize_single, by wire class ---------- *)
Section Ser.
  Variable msg : option ptype -> pv -> result (list byte).

  Lemma ser_varint num t v se w val n :
    tmem t WIRE_VARINT_TYPES = true -> 1 <= num < 2 ^ 29 ->
    preprocess_with msg t w v = Ok val ->
    (forall rest, load_varint (val ++ rest) = Ok (n, val, rest)) ->
    exists bs, serialize_with msg num t v se w = Ok bs /\ reads bs (mkP num 0 n [] bs).
  Proof.
    intros Ht Hn Hp Hv. unfold serialize_with. rewrite Hp. cbn [bind]. rewrite Ht.
    destruct (tag0_fields num Hn) as (Hr & _).
    destruct (varint_rt_nonneg _ Hr) as (key & E & _). rewrite E. cbn [bind].
    eexists. split; [reflexivity|]. apply reads_varint; assumption.
  Qed.

  Lemma ser_fixed32 num t v se w val :
    tmem t WIRE_FIXED_32_TYPES = true -> 1 <= num < 2 ^ 29 ->
    preprocess_with msg t w v = Ok val -> length val = 4%nat ->
    exists bs, serialize_with msg num t v se w = Ok bs /\ reads bs (mkP num 5 0 val bs).
  Proof.
    intros Ht Hn Hp Hv. unfold serialize_with. rewrite Hp. cbn [bind].
    assert (Hv0 : tmem t WIRE_VARINT_TYPES = false) by (destruct t; try reflexivity; vm_compute in Ht; discriminate).
    rewrite Hv0, Ht.
    destruct (tag_fields num 5 Hn ltac:(lia)) as (Hr & _).
    destruct (varint_rt_nonneg _ Hr) as (key & E & _). rewrite E. cbn [bind].
    eexists. split; [reflexivity|]. apply reads_fixed; auto.
  Qed.

  Lemma ser_fixed64 num t v se w val :
    tmem t WIRE_FIXED_64_TYPES = true -> 1 <= num < 2 ^ 29 ->
    preprocess_with msg t w v = Ok val -> length val = 8%nat ->
    exists bs, serialize_with msg num t v se w = Ok bs /\ reads bs (mkP num 1 0 val bs).
  Proof.
    intros Ht Hn Hp Hv. unfold serialize_with. rewrite Hp. cbn [bind].
    assert (Hv0 : tmem t WIRE_VARINT_TYPES = false) by (destruct t; try reflexivity; vm_compute in Ht; discriminate).
    assert (Hv1 : tmem t WIRE_FIXED_32_TYPES = false) by (destruct t; try reflexivity; vm_compute in Ht; discriminate).
    rewrite Hv0, Hv1, Ht.
    destruct (tag_fields num 1 Hn ltac:(lia)) as (Hr & _).
    destruct (varint_rt_nonneg _ Hr) as (key & E & _). rewrite E. cbn [bind].
    eexists. split; [reflexivity|]. apply reads_fixed; auto.
  Qed.

  (* length-delimited: written iff non-empty, or serialize_empty, or a wrapper *)
  Lemma ser_len num t v se w val :
    tmem t WIRE_LEN_DELIM_TYPES = true -> 1 <= num < 2 ^ 29 ->
    preprocess_with msg t w v = Ok val -> Zlength val < 2 ^ 64 ->
    if negb (Zlength val =? 0) || se || is_some w
    then exists bs, serialize_with msg num t v se w = Ok bs /\ reads bs (mkP num 2 0 val bs)
    else serialize_with msg num t v se w = Ok [] /\ val = [].
  Proof.
    intros Ht Hn Hp Hlen. unfold serialize_with. rewrite Hp. cbn [bind].
    assert (Hv0 : tmem t WIRE_VARINT_TYPES = false) by (destruct t; try reflexivity; vm_compute in Ht; discriminate).
    assert (Hv1 : tmem t WIRE_FIXED_32_TYPES = false) by (destruct t; try reflexivity; vm_compute in Ht; discriminate).
    assert (Hv2 : tmem t WIRE_FIXED_64_TYPES = false) by (destruct t; try reflexivity; vm_compute in Ht; discriminate).
    rewrite Hv0, Hv1, Hv2, Ht.
    change (match w with Some _ => true | None => false end) with (is_some w).
    destruct (negb (Zlength val =? 0) || se || is_some w) eqn:Hc.
    - destruct (tag_fields num 2 Hn ltac:(lia)) as (Hr & _).
      destruct (varint_rt_nonneg _ Hr) as (key & E & _). rewrite E. cbn [bind].
      pose proof (Zlength_nonneg val) as H0.
      destruct (varint_rt_nonneg (Zlength val) ltac:(lia)) as (n & E' & _). rewrite E'. cbn [bind].
      eexists. split; [reflexivity|]. apply reads_len; auto.
    - split; [reflexivity|].
      apply orb_false_iff in Hc as [Hc _]. apply orb_false_iff in Hc as [Hc _].
      apply negb_false_iff in Hc. rewrite Zlength_zero_iff in Hc. destruct val; [reflexivity|discriminate].
  Qed.
End Ser.

(* ---------- packed payloads ---------- *)
Lemma concat_map_cons {A} (f : A -> result (list byte)) x l :
  concat_map f (x :: l) = (do a <- f x; do b <- concat_map f l; Ok (a ++ b)).
Proof. reflexivity. Qed.

Lemma packed_rt msg t items :
  tmem t PACKED_TYPES = true ->
  Forall (fun x => scalar_in_range t x = true) items ->
  exists buf, concat_map (preprocess_with msg t None) items = Ok buf /\
              forall n, (length buf < n)%nat -> unpack_packed n t buf = Ok (map (norm_scalar t) items).
Proof.
  intros Ht Hall. induction Hall as [|x items Hx Hall IH].
  - exists []. split; [reflexivity|]. intros n Hn. destruct n; [lia|]. reflexivity.
  - destruct IH as (buf & Eb & Ub). rewrite concat_map_cons.
    destruct (tmem t FIXED_TYPES) eqn:Hf.
    + (* fixed width *)
      destruct (scalar_fixed_rt t x Hf Hx) as (a & Pa & La & Ua).
      assert (Hpre : preprocess_with msg t None x = Ok a).
      { unfold preprocess_with.
        replace (tmem t [TEnum; TBool; TInt32; TInt64; TUInt32; TUInt64]) with false
          by (destruct t; try reflexivity; vm_compute in Hf; discriminate).
        replace (tmem t [TSInt32; TSInt64]) with false by (destruct t; try reflexivity; vm_compute in Hf; discriminate).
        rewrite Hf. exact Pa. }
      rewrite Hpre, Eb. cbn [bind]. exists (a ++ buf). split; [reflexivity|].
      intros n Hn. rewrite app_length in Hn. destruct n; [lia|]. cbn [unpack_packed].
      unfold fixed_size in La.
      destruct a as [|a0 a']; [destruct (tmem t WIRE_FIXED_32_TYPES); discriminate La|].
      cbn [app]. change (a0 :: a' ++ buf) with ((a0 :: a') ++ buf).
      destruct (tmem t WIRE_FIXED_32_TYPES) eqn:H32.
      * replace (tmem t [TFloat; TFixed32; TSFixed32]) with true
          by (destruct t; try reflexivity; vm_compute in H32; discriminate).
        rewrite (firstn_len _ _ _ La), (skipn_len _ _ _ La), Ua. cbn [bind].
        rewrite Ub by (cbn [length] in Hn; lia). reflexivity.
      * replace (tmem t [TFloat; TFixed32; TSFixed32]) with false
          by (destruct t; try reflexivity; vm_compute in H32; vm_compute in Hf; discriminate).
        replace (tmem t [TDouble; TFixed64; TSFixed64]) with true
          by (destruct t; try reflexivity; vm_compute in H32; vm_compute in Hf; discriminate).
        rewrite (firstn_len _ _ _ La), (skipn_len _ _ _ La), Ua. cbn [bind].
        rewrite Ub by (cbn [length] in Hn; lia). reflexivity.
    + (* varint *)
      assert (Hv : tmem t WIRE_VARINT_TYPES = true)
        by (destruct t; try reflexivity; vm_compute in Hf; vm_compute in Ht; discriminate).
      destruct (scalar_varint_rt msg t x Hv Hx) as (a & n0 & Pa & Na & La & Post).
      rewrite Pa, Eb. cbn [bind]. exists (a ++ buf). split; [reflexivity|].
      intros n Hn. rewrite app_length in Hn. destruct n; [lia|]. cbn [unpack_packed].
      destruct a as [|a0 a']; [congruence|].
      cbn [app]. change (a0 :: a' ++ buf) with ((a0 :: a') ++ buf).
      replace (tmem t [TFloat; TFixed32; TSFixed32]) with false
        by (destruct t; try reflexivity; vm_compute in Hf; discriminate).
      replace (tmem t [TDouble; TFixed64; TSFixed64]) with false
        by (destruct t; try reflexivity; vm_compute in Hf; discriminate).
      rewrite La. cbn [bind]. rewrite Ub by (cbn [length] in Hn; lia). cbn [bind map].
      rewrite Post.
      assert (Hns : norm_scalar t x = x) by (destruct t; try reflexivity; vm_compute in Hf; discriminate).
      rewrite Hns. reflexivity.
Qed.
