(* C18, Message.parse under pydantic_dataclasses: the simulation.  One store, one record, the loop, Message.load by
   induction on the fuel (= recursion into sub-messages, Entry classes, Timestamp / Duration / wrappers), parse_into, parse. *)
From Coq Require Import ZArith List Bool Lia Arith.
From BP Require Import Base.Prelude Model.Types Model.Varint Model.Scalar Model.Float Model.Utf8 Model.Object Model.Eq Model.TimeCore.
From BP Require Import Model.Decode Model.WellFormed Model.C07Step Model.C18Beh Model.C18Parse gen.Tables.
From BP Require Import Proofs.C01Unfold Proofs.C06EncP Proofs.C07InvP Proofs.C18BehBase Proofs.C18BehPrim.
From BP Require Import Proofs.C18ParseBase Proofs.C18ParseUnfold Proofs.C18ParseInv Proofs.C18ParseVal.
Import ListNotations.

(* ---- what wf_schema says about a map field: its Entry class has a scalar-only key field outside every group ---- *)
Lemma entry_key sc ng f :
  wf_field sc ng f = true -> ptype_eqb (fty f) TMap = true ->
  fgroup f = None /\
  exists fk fv, cfields (get_class sc (fentry f)) = [fk; fv] /\ kslot fk = true /\ fgroup fk = None.
Proof.
  intros Wf Hm. destruct (fhint f) as [p|p|p|pk pv'] eqn:Hh.
  - destruct (wf_plain _ _ _ _ Wf Hh) as (_ & _ & _ & A & _). congruence.
  - destruct (wf_optional _ _ _ _ Wf Hh) as (_ & _ & [(w & vt & _ & _ & A & _) | (_ & _ & A & _)]); [|congruence].
    rewrite A in Hm. discriminate.
  - destruct (wf_list _ _ _ _ Wf Hh) as (_ & _ & _ & _ & A & _). congruence.
  - destruct (wf_dict _ _ _ _ _ Wf Hh) as (_ & _ & Hg & _ & kt & vt & Em & Hk & _ & _ & _ & He). split; [exact Hg|].
    unfold entry_class_ok in He. rewrite Em, Hh in He.
    destruct (cfields (get_class sc (fentry f))) as [|fk [|fv [|]]]; try discriminate.
    exists fk, fv. split; [reflexivity|].
    destruct (fhint fk) as [k'| | |] eqn:Hhk; [|split_andb He; discriminate ..].
    destruct (fhint fv) as [v'| | |]; [|split_andb He; discriminate ..].
    split_andb He.
    repeat match goal with H : ptype_eqb _ _ = true |- _ => apply ptype_eqb_eq in H end.
    repeat match goal with H : negb (is_some' _) = true |- _ => apply is_some'_false in H end.
    split; [|assumption]. unfold kslot. rewrite Hhk.
    assert (Ek : fty fk = kt) by assumption. rewrite Ek.
    destruct kt; try discriminate Hk; destruct k'; try discriminate; reflexivity.
Qed.

Lemma getattr_err_member sc o i f e :
  nth_error (cfields (get_class sc (ocls o))) i = Some f -> snd (getattr sc o i) = Err e -> exists g, fgroup f = Some g.
Proof.
  destruct o as [c raw sow unk cur]. cbn [ocls]. intros Hf H. unfold getattr in H. rewrite Hf in H. unfold group_selects in H.
  destruct (fgroup f) as [g|]; [eauto|]. destruct (nth i raw PPlaceholder); discriminate.
Qed.

Lemma vrel_is_list sc v v' : vrel sc v v' ->
  match v with PList l => exists l', v' = PList l' /\ list_rel (vrel sc) l l' | _ => match v' with PList _ => False | _ => True end end.
Proof.
  destruct v; cbn [vrel]; intros R; try (subst v'; exact I); auto.
  - destruct R as (? & -> & _). exact I.
  - destruct o. destruct R as (? & -> & _). exact I.
Qed.

Lemma vrel_is_dict sc v v' : vrel sc v v' ->
  match v with PDict d => True | _ => match v' with PDict _ => False | _ => True end end.
Proof.
  destruct v; cbn [vrel]; intros R; try (subst v'; exact I); auto.
  - destruct R as (? & -> & _). exact I.
  - destruct o. destruct R as (? & -> & _). exact I.
Qed.

Lemma vrel_is_msg sc v v' : vrel sc v v' ->
  match v with PMsg o => exists o', v' = PMsg o' /\ orel sc o o' | _ => match v' with PMsg _ => False | _ => True end end.
Proof.
  destruct v; cbn [vrel]; intros R; try (subst v'; exact I).
  - destruct R as (? & -> & _). exact I.
  - destruct R as (? & -> & _). exact I.
  - destruct o as [c ra s u g]. destruct R as (rb & -> & R). eexists. split; [reflexivity|]. unfold orel. cbn [vrel]. eauto.
Qed.

Section Sim.
  Variable sc : schema.
  Hypothesis W : wf_schema sc = true.
  Let sc' := pyd_schema sc.
  Let M : forall c, Forall mem_ok (cfields (get_class sc c)) := fun c => wf_class_mem_ok sc c W.

  (* writing corresponding values into a readable slot *)
  Lemma set_slot_rel c ra rb s u g s2 i f x y :
    orel sc (Obj c ra s u g) (Obj c rb s u g) ->
    nth_error (cfields (get_class sc c)) i = Some f -> group_selects g f i <> Some false ->
    x <> PPlaceholder -> vrel sc x y ->
    orel sc (Obj c (set_nth i x ra) s2 u g) (Obj c (set_nth i y rb) s2 u g).
  Proof.
    intros R Hf Hs Nx Rx. unfold orel in *. apply vrel_msg in R as (rb0 & E & R). injection E as <-.
    cbn [vrel]. eexists. split; [reflexivity|]. eapply raw_rel_set; eauto. cbn [Nat.add].
    destruct (group_selects g f i) as [[|]|]; cbn [slot_rel]; auto. congruence.
  Qed.

  Lemma dict_set_rel k v v' : scalar_pv k = true -> vrel sc v v' -> forall d d',
    list_rel (fun kx ky => let '(k, x) := kx in let '(k', y) := ky in k' = k /\ scalar_pv k = true /\ vrel sc x y) d d' ->
    list_rel (fun kx ky => let '(k, x) := kx in let '(k', y) := ky in k' = k /\ scalar_pv k = true /\ vrel sc x y)
             (dict_set d sc k v) (dict_set d' sc' k v').
  Proof.
    intros Sk Rv. induction d as [|[k0 x] d IH]; intros [|[k0' y] d'] R; cbn [list_rel] in R; try contradiction.
    - cbn [dict_set list_rel]. auto.
    - destruct R as [(-> & S0 & Rx) R]. unfold dict_set. fold (dict_set d sc k v). fold (dict_set d' sc' k v').
      rewrite (pv_eq_scalar sc' sc k0 k S0). destruct (pv_eq sc k0 k); cbn [list_rel]; auto.
  Qed.

  Lemma add_unk_rel o o' bs : orel sc o o' -> orel sc (add_unk o bs) (add_unk o' bs).
  Proof.
    destruct o as [c ra s u g]. unfold orel. intros R. apply vrel_msg in R as (rb & E & R). injection E as ->. cbn [add_unk vrel]. eauto.
  Qed.

  (* ---- one store ---- *)
  Lemma store_rel o o' i f value value' :
    kgood sc o -> orel sc o o' -> nth_error (cfields (get_class sc (ocls o))) i = Some f ->
    vrel sc value value' -> value <> PPlaceholder ->
    (forall e, value = PMsg e -> ptype_eqb (fty f) TMap = true -> kgood sc e /\ ocls e = fentry f) ->
    ores_rel sc (c18_store sc o i f value) (c18_store sc' o' i (pyd_field f) value').
  Proof.
    intros G R Hf Rv Nv He. destruct G as [S K]. pose proof S as S0. apply pshape_iff in S0. destruct S0 as [L Lc].
    pose proof (wf_field_of sc (ocls o) f W (nth_error_In _ _ Hf)) as Wf.
    unfold c18_store, c18_current. rewrite pyd_field_ty.
    pose proof (getattr_rel sc o o' i M L R) as [Ro Rr]. pose proof (pshape_getattr sc o i S) as S1.
    pose proof (ocls_getattr sc o i) as C1.
    assert (Hsel : forall v, snd (getattr sc o i) = Ok v -> group_selects (ocur (fst (getattr sc o i))) f i <> Some false).
    { destruct o as [c raw sow unk cur]. cbn [ocls] in Hf.
      destruct (getattr_cases sc c raw sow unk cur i) as [(e & ->) | (f0 & v0 & raw' & -> & Hf0 & Hs & _)]; cbn [fst snd ocur].
      - discriminate.
      - intros _ _. rewrite Hf in Hf0. injection Hf0 as <-. exact Hs. }
    pose proof (getattr_err_member sc o i f) as Hmem.
    fold sc' in Ro, Rr.
    destruct (getattr sc o i) as [o1 [cv|e]]; destruct (getattr sc' o' i) as [o1' [cv'|e']]; cbn [fst snd res_rel] in *;
      try contradiction.
    - (* the attribute was readable *)
      specialize (Hsel cv eq_refl). clear Hmem.
      destruct o1 as [c1 ra1 s1 u1 g1]. cbn [ocls ocur] in *. subst c1.
      pose proof Ro as Ro'. unfold orel in Ro'. apply vrel_msg in Ro' as (rb1 & E & _). injection E as ->.
      destruct (ptype_eqb (fty f) TMap) eqn:Em.
      + (* a map field: value is the Entry object *)
        pose proof (vrel_is_msg _ _ _ Rv) as Rm. pose proof (vrel_is_dict _ _ _ Rr) as Rd.
        destruct value as [| | | | | | | | | | |e0]; try (destruct value'; try contradiction; reflexivity).
        destruct Rm as (e0' & -> & Re). destruct (He e0 eq_refl eq_refl) as [[Se Ke] Ce].
        destruct cv as [| | | | | | | | | |d|]; try (destruct cv'; try contradiction; reflexivity).
        cbn [vrel] in Rr. destruct Rr as (d' & -> & Rdd).
        destruct (entry_key _ _ _ Wf Em) as (Hgf & fk & fv & Efs & Hkk & Hgk).
        pose proof Se as Se0. apply pshape_iff in Se0. destruct Se0 as [Le _].
        pose proof (getattr_rel sc e0 e0' 0 M Le Re) as [_ R0]. pose proof (getattr_rel sc e0 e0' 1 M Le Re) as [_ R1].
        fold sc' in R0, R1.
        assert (Sk : forall k, snd (getattr sc e0 0) = Ok k -> scalar_pv k = true).
        { intros k Hk. assert (Hfk : nth_error (cfields (get_class sc (ocls e0))) 0 = Some fk) by (rewrite Ce, Efs; reflexivity).
          pose proof (Ke 0%nat fk Hfk Hkk) as K0. destruct e0 as [ce rae se ue ge]. cbn [ocls oraw] in *.
          unfold getattr in Hk. rewrite Hfk in Hk. unfold group_selects in Hk. rewrite Hgk in Hk.
          destruct (nth 0 rae PPlaceholder) eqn:E0; cbn [snd] in Hk; injection Hk as <-; try exact K0; try discriminate K0.
          apply kslot_default_scalar. exact Hkk. }
        destruct (getattr sc e0 0) as [? [k|]]; destruct (getattr sc' e0' 0) as [? [k'|]]; cbn [snd res_rel] in R0;
          try contradiction;
          destruct (getattr sc e0 1) as [? [v|]]; destruct (getattr sc' e0' 1) as [? [v'|]]; cbn [snd res_rel] in R1;
          try contradiction; try reflexivity.
        cbn [ores_rel]. pose proof (Sk k eq_refl) as Skk. rewrite (vrel_scalar _ _ _ Skk R0).
        eapply set_slot_rel; eauto; [discriminate|]. cbn [vrel]. eexists. split; [reflexivity|].
        apply dict_set_rel; assumption.
      + pose proof (vrel_is_list _ _ _ Rr) as Rl.
        destruct cv as [| | | | | | | | |l| |].
        10:{ destruct Rl as (l' & -> & Rll). cbn [ores_rel]. eapply set_slot_rel; eauto; [discriminate|].
             cbn [vrel]. eexists. split; [reflexivity|].
             pose proof Rv as Rv0.
             destruct value; cbn [vrel] in Rv;
               try (subst value'; apply list_rel_app; [exact Rll|]; cbn [list_rel]; split; [reflexivity | exact I]).
             - destruct Rv as (vs' & -> & Rvs). apply list_rel_app; assumption.
             - destruct Rv as (d' & -> & _). apply list_rel_app; [exact Rll|]. cbn [list_rel]. split; [exact Rv0 | exact I].
             - destruct o0. destruct Rv as (rb' & -> & _). apply list_rel_app; [exact Rll|]. cbn [list_rel].
               split; [exact Rv0 | exact I]. }
        all: destruct cv'; try contradiction; cbn [ores_rel];
             apply (setattr_rel sc (Obj (ocls o) ra1 s1 u1 g1) (Obj (ocls o) rb1 s1 u1 g1) i value value' W);
             try assumption; apply pshape_iff in S1; apply S1.
    - (* AttributeError: an unselected oneof member; the default is assigned, then overwritten *)
      subst e'. destruct (Hmem e Hf eq_refl) as (g & Hg).
      destruct (pyd_field_member f g (wf_mem_ok _ _ _ Wf) Hg) as (p & Hh & Hh' & _).
      cbn zeta.
      assert (D' : default_of sc' (pyd_field f) = PNone) by (unfold default_of; rewrite Hh'; reflexivity).
      rewrite D'.
      assert (Fin : ores_rel sc (Ok (setattr sc (setattr sc o i (default_of sc f)) i value))
                                (Ok (setattr sc' (setattr sc' o' i PNone) i value'))).
      { rewrite !setattr_twice. cbn [ores_rel]. apply setattr_rel; auto. }
      destruct (setattr sc o i (default_of sc f)) as [c2 ra2 s2 u2 g2] eqn:E2.
      destruct (setattr sc' o' i PNone) as [c2' rb2 s2' u2' g2'] eqn:E2'.
      destruct (ptype_eqb (fty f) TMap).
      + assert (Dd : match default_of sc f with PDict _ => False | _ => True end)
          by (unfold default_of; rewrite Hh; destruct p; exact I).
        destruct value; try (destruct value'; reflexivity).
        pose proof (vrel_is_msg _ _ _ Rv) as (e0' & -> & _).
        destruct (default_of sc f); try contradiction; reflexivity.
      + assert (Dl : match default_of sc f with PList _ => False | _ => True end)
          by (unfold default_of; rewrite Hh; destruct p; exact I).
        destruct (default_of sc f); try contradiction; exact Fin.
  Qed.

  (* ---- one record, the loop, Message.load ---- *)
  Section Fuel.
    Variable fuel' : nat.
    Hypothesis N : forall c bs, ores_rel sc (c7_parse_new fuel' sc c bs) (c7_parse_new fuel' sc' c bs).

    Lemma step_rel o o' p :
      kgood sc o -> orel sc o o' ->
      ores_rel sc (c18_step fuel' sc (get_class sc (ocls o)) o p) (c18_step fuel' sc' (get_class sc' (ocls o)) o' p).
    Proof.
      intros G R. unfold c18_step. unfold sc'. rewrite pyd_field_by_number. fold sc'.
      destruct (field_by_number (get_class sc (ocls o)) (pnum p)) as [[i f]|] eqn:Hfb; cbn [option_map].
      2:{ cbn [ores_rel]. apply add_unk_rel, R. }
      rewrite pyd_fits. destruct (wire_type_fits f (pwt p)) eqn:Hfit; cbn [negb].
      2:{ cbn [ores_rel]. apply add_unk_rel, R. }
      pose proof (value_rel sc W fuel' N f p) as Rv. fold sc' in Rv.
      pose proof (value_not_ph sc fuel' N f p) as Nv.
      destruct (c7_value fuel' sc f p) as [v|e] eqn:Ev; destruct (c7_value fuel' sc' (pyd_field f) p) as [v'|e'];
        cbn [res_rel] in Rv; try contradiction; cbn [bind]; [|subst e'; reflexivity].
      apply store_rel; auto; [eapply field_by_number_nth; exact Hfb|].
      intros e0 -> Em. unfold c7_value in Ev.
      assert (P1 : (pwt p =? WIRE_LEN_DELIM) && tmem (fty f) PACKED_TYPES = false).
      { apply ptype_eqb_eq in Em. rewrite Em. apply andb_false_r. }
      rewrite P1 in Ev. destruct (pwt p =? WIRE_VARINT).
      { injection Ev as Ev. unfold postprocess_varint in Ev.
        repeat match type of Ev with context [if ?c then _ else _] => destruct c end; discriminate. }
      destruct ((pwt p =? WIRE_FIXED_32) || (pwt p =? WIRE_FIXED_64)).
      { apply unpack_value_scalar in Ev. discriminate. }
      rewrite Em in Ev. destruct (c7_parse_new fuel' sc (fentry f) (pbytes p)) as [m|] eqn:Pm; cbn [bind] in Ev; [|discriminate].
      injection Ev as <-. eapply kgood_parse_new; exact Pm.
    Qed.

    Lemma loop_rel size c : forall n o o' s read,
      kgood sc o -> ocls o = c -> orel sc o o' ->
      lres_rel sc (c7_loop fuel' sc size (get_class sc c) n o s read) (c7_loop fuel' sc' size (get_class sc' c) n o' s read).
    Proof.
      induction n as [|n IH]; intros o o' s read G C R; [reflexivity|].
      rewrite !c7_loop_S. destruct s as [|b s].
      - destruct size as [sz|]; [destruct (read <? sz)|]; cbn [lres_rel]; auto.
      - destruct (load_varint (b :: s)) as [[[nw r] s1]|]; cbn [bind]; [|reflexivity].
        destruct (load_field fuel' s1 nw r) as [[p s2]|]; cbn [bind]; [|reflexivity].
        match goal with |- lres_rel _ (do read <- ?X; _) _ => destruct X as [read'|] end; cbn [bind]; [|reflexivity].
        subst c. pose proof (step_rel o o' p G R) as Rs.
        destruct (c18_step fuel' sc (get_class sc (ocls o)) o p) as [o1|e] eqn:E1;
          destruct (c18_step fuel' sc' (get_class sc' (ocls o)) o' p) as [o1'|e']; cbn [ores_rel] in Rs; try contradiction;
          cbn [bind]; [|subst e'; reflexivity].
        destruct (kgood_step _ _ _ _ _ G E1) as [G1 C1].
        destruct (match size with Some sz => read' =? sz | None => false end); [cbn [lres_rel]; auto|].
        apply IH; auto.
    Qed.

    Lemma load_rel_S o o' s size :
      kgood sc o -> orel sc o o' -> lres_rel sc (load (S fuel') sc o s size) (load (S fuel') sc' o' s size).
    Proof.
      intros G R. destruct o as [c ra sw u g]. pose proof R as R0. unfold orel in R0. apply vrel_msg in R0 as (rb & E & R0).
      injection E as ->. rewrite !load_unfold_size.
      destruct (c18_size size s) as [[size' s0]|]; cbn [bind]; [|reflexivity].
      assert (R1 : orel sc (Obj c ra true u g) (Obj c rb true u g)) by (unfold orel; cbn [vrel]; eauto).
      assert (G1 : kgood sc (Obj c ra true u g)) by exact G.
      destruct size' as [[|q|q]|]; try (cbn [lres_rel]; auto; fail); apply loop_rel; auto.
    Qed.
  End Fuel.

  Theorem load_rel : forall fuel o o' s size,
    kgood sc o -> orel sc o o' -> lres_rel sc (load fuel sc o s size) (load fuel sc' o' s size).
  Proof.
    induction fuel as [|fuel' IH]; intros o o' s size G R; [reflexivity|].
    apply load_rel_S; auto. intros c bs. unfold c7_parse_new.
    pose proof (IH (new sc c) (new sc' c) bs None (kgood_new sc c) (new_rel sc c (M c))) as Rn.
    destruct (load fuel' sc (new sc c) bs None) as [[m r]|e]; destruct (load fuel' sc' (new sc' c) bs None) as [[m' r']|e'];
      cbn [lres_rel] in Rn; try contradiction; cbn [bind ores_rel]; tauto.
  Qed.

  Theorem parse_into_rel o o' bs :
    kgood sc o -> orel sc o o' -> ores_rel sc (parse_into sc o bs) (parse_into sc' o' bs).
  Proof.
    intros G R. unfold parse_into. pose proof (load_rel (S (length bs)) o o' bs None G R) as Rn.
    destruct (load (S (length bs)) sc o bs None) as [[m r]|e]; destruct (load (S (length bs)) sc' o' bs None) as [[m' r']|e'];
      cbn [lres_rel] in Rn; try contradiction; cbn [bind ores_rel]; tauto.
  Qed.

  Theorem parse_rel c bs : ores_rel sc (parse sc c bs) (parse sc' c bs).
  Proof. unfold parse. apply parse_into_rel; [apply kgood_new | apply new_rel, M]. Qed.

  Theorem load_delimited_rel c s : lres_rel sc (load_delimited sc c s) (load_delimited sc' c s).
  Proof. unfold load_delimited. apply load_rel; [apply kgood_new | apply new_rel, M]. Qed.
End Sim.
