(* C10, part 4: one frame.  Cls().load(stream, SIZE_DELIMITED) against Cls().parse(payload).
   Everything is stated for an arbitrary schema, class, payload and continuation of the
   stream: no well-formedness hypothesis is needed. *)
From BP Require Import Base.Prelude Model.Types Model.Varint Model.Object Model.Decode.
From BP Require Import Spec.Varint Proofs.VarintP Proofs.C10GenP Proofs.C10FieldP Proofs.C10LoadP.
From BP Require Import gen.Tables.

Definition sow_true (o : obj) : obj := let 'Obj c raw _ unk cur := o in Obj c raw true unk cur.

Lemma size_match {T} (sz : Z) (a b : T) :
  sz <> 0 -> match Some sz with Some 0 => a | _ => b end = b.
Proof. destruct sz; [congruence | reflexivity | reflexivity]. Qed.

(* parse and load_delimited as loops over a common fuel *)
Definition uloop f sc c n (s : list byte) :=
  loop_g sc (pn_of f sc) (load_field f) (get_class sc c) None n (sow_true (new sc c)) s 0.
Definition sloop f sc c sz n (s : list byte) :=
  loop_g sc (pn_of f sc) (load_field f) (get_class sc c) (Some sz) n (sow_true (new sc c)) s 0.

Lemma parse_as_loop sc c p f : (length p <= f)%nat ->
  parse sc c p = do (o', _) <- uloop f sc c (S (length p)) p; Ok o'.
Proof.
  intros L. unfold parse, parse_into. rewrite (load_fuel sc (S (length p)) (S f)) by lia.
  rewrite load_unfold. reflexivity.
Qed.

Lemma delim_as_loop sc c s f : (length s <= f)%nat ->
  load_delimited sc c s =
  do (n, _, s0) <- load_varint s;
  if n =? 0 then Ok (sow_true (new sc c), s0) else sloop f sc c n (S (length s0)) s0.
Proof.
  intros L. unfold load_delimited. rewrite (load_fuel sc (S (length s)) (S f)) by lia.
  rewrite load_unfold. unfold load_body, read_prefix. rewrite Z.eqb_refl.
  destruct (load_varint s) as [[[n r] s0]|]; [|reflexivity]. cbn [bind].
  destruct n; reflexivity.
Qed.

Lemma parse_nil sc c : parse sc c [] = Ok (sow_true (new sc c)).
Proof. reflexivity. Qed.

Lemma app_eq_len {A} (a : list A) : forall b c d, a ++ b = c ++ d -> length a = length c -> a = c /\ b = d.
Proof.
  induction a as [|x a IH]; intros b c d E L; destruct c as [|y c]; try discriminate.
  - split; [reflexivity | exact E].
  - cbn [app] in E. injection E as -> E. cbn [length] in L. destruct (IH _ _ _ E ltac:(lia)) as (-> & ->).
    split; reflexivity.
Qed.

Lemma Zlength_len_eq {A B} (a : list A) (b : list B) : Zlength a = Zlength b -> length a = length b.
Proof. unfold Zlength. lia. Qed.

(* ---- (1) parse(payload) returned  ==>  the delimited load of frame ++ rest returns the same
        object and leaves exactly [rest]; any legal (also padded) length prefix ---- *)
Theorem frame_load_ok sc c pre p rest m :
  VarintRep (Zlength p) pre -> parse sc c p = Ok m ->
  load_delimited sc c (pre ++ p ++ rest) = Ok (m, rest).
Proof.
  intros R P. set (s := pre ++ p ++ rest). set (f := length s).
  assert (Lp : (length p <= f)%nat) by (subst f s; rewrite !app_length; lia).
  rewrite (delim_as_loop sc c s f) by lia. subst s.
  rewrite (load_varint_rep _ _ _ R). cbn [bind].
  rewrite (parse_as_loop sc c p f Lp) in P.
  destruct p as [|b p0].
  - cbn in P. injection P as <-. reflexivity.
  - replace (Zlength (b :: p0) =? 0) with false by (unfold Zlength; cbn [length]; lia).
    destruct (uloop f sc c (S (length (b :: p0))) (b :: p0)) as [[o' u']|] eqn:U; [|discriminate].
    cbn [bind] in P. injection P as ->. unfold sloop, uloop in *.
    apply (loop_widen _ _ _ _ (load_field_acct f) (load_field_app f) _ _ _ _ _ _ _ _ _ _ U);
      [rewrite app_length; lia | discriminate | lia].
Qed.

(* ---- (2) every delimited load that returns has read one length varint n, then EXACTLY n
        payload bytes, and returns what parse returns on those n bytes alone ---- *)
Theorem frame_load_exact sc c s m s' :
  load_delimited sc c s = Ok (m, s') ->
  exists pre p, load_varint s = Ok (Zlength p, pre, p ++ s') /\ parse sc c p = Ok m.
Proof.
  intros H. rewrite (delim_as_loop sc c s (length s)) in H by lia.
  destruct (load_varint s) as [[[n pre] s0]|] eqn:V; [|discriminate]. cbn [bind] in H.
  destruct (lv_sound _ _ _ _ V) as (Es & _ & Hn).
  destruct (n =? 0) eqn:N0.
  - injection H as <- <-. exists pre, []. cbn [app]. replace (Zlength []) with n by (cbn; lia).
    split; [reflexivity | apply parse_nil].
  - unfold sloop in H.
    destruct (loop_consumes _ _ _ _ _ (load_field_acct _) _ _ _ _ _ _ H ltac:(lia)) as (used & E0 & Hu).
    exists pre, used. subst s0. replace (Zlength used) with n by lia. split; [reflexivity|].
    assert (Lu : (length used <= length s)%nat) by (rewrite Es, !app_length; lia).
    rewrite (parse_as_loop sc c used (length s) Lu). unfold uloop.
    rewrite (loop_narrow _ _ _ _ (load_field_acct _) (load_field_inv _) _ (S (length used)) _ _ _ _ 0 _ _ H);
      [reflexivity | lia | lia | lia].
Qed.

(* ... in particular the number of bytes consumed is |prefix| + n *)
Corollary load_consumes_exactly sc c s m s' :
  load_delimited sc c s = Ok (m, s') ->
  exists n pre, load_varint s = Ok (n, pre, skipn (length pre) s) /\ 0 <= n /\
                Zlength s - Zlength s' = Zlength pre + n.
Proof.
  intros H. destruct (frame_load_exact _ _ _ _ _ H) as (pre & p & V & _).
  destruct (lv_sound _ _ _ _ V) as (-> & _ & Hn). exists (Zlength p), pre.
  rewrite skipn_app_exact. split; [exact V|]. split; [exact Hn|]. rewrite !Zlen_app. lia.
Qed.

(* ---- (3) on a frame, the load returns iff parse of the payload returns ---- *)
Theorem frame_load_inv sc c pre p rest m r' :
  VarintRep (Zlength p) pre -> load_delimited sc c (pre ++ p ++ rest) = Ok (m, r') ->
  r' = rest /\ parse sc c p = Ok m.
Proof.
  intros R H. destruct (frame_load_exact _ _ _ _ _ H) as (pre' & p' & V & P).
  rewrite (load_varint_rep _ _ _ R) in V. injection V as Hz _ E.
  apply app_eq_len in E; [|apply Zlength_len_eq; exact Hz]. destruct E as (-> & ->). split; [reflexivity | exact P].
Qed.

Theorem frame_load_err sc c pre p rest e :
  VarintRep (Zlength p) pre -> parse sc c p = Err e ->
  exists e', load_delimited sc c (pre ++ p ++ rest) = Err e'.
Proof.
  intros R P. destruct (load_delimited sc c (pre ++ p ++ rest)) as [[m r']|e'] eqn:H; [|eauto].
  destruct (frame_load_inv _ _ _ _ _ _ _ R H) as (_ & P'). congruence.
Qed.

(* ---- (4) a load that returned does not depend on what follows the bytes it consumed ---- *)
Theorem load_prefix_stable sc c t m r more :
  load_delimited sc c t = Ok (m, r) -> load_delimited sc c (t ++ more) = Ok (m, r ++ more).
Proof.
  intros H. destruct (frame_load_exact _ _ _ _ _ H) as (pre & p & V & P).
  apply load_varint_sound in V. destruct V as (-> & R).
  rewrite <- !app_assoc. apply frame_load_ok; assumption.
Qed.

(* ---- (5) fewer than the announced number of bytes on the stream: the load raises ---- *)
Theorem load_underrun sc c pre t n :
  VarintRep n pre -> Zlength t < n -> exists e, load_delimited sc c (pre ++ t) = Err e.
Proof.
  intros R L. destruct (load_delimited sc c (pre ++ t)) as [[m r']|e'] eqn:H; [|eauto].
  destruct (frame_load_exact _ _ _ _ _ H) as (pre' & p' & V & _).
  rewrite (load_varint_rep _ _ _ R) in V. injection V as Hz _ E. subst t n. rewrite Zlen_app in L.
  pose proof (Zlen_nonneg r'). lia.
Qed.

(* a length prefix cut before its last byte is a truncated varint *)
Lemma shape_prefix_high t : forall x, x <> [] -> varint_shape (t ++ x) -> Forall (fun b => 128 <= Z_of_byte b) t.
Proof.
  induction t as [|b t IH]; intros x Hx Sh; [constructor|].
  cbn [app varint_shape] in Sh. destruct (t ++ x) as [|b' r] eqn:E.
  - destruct t; [cbn in E; congruence | discriminate].
  - destruct Sh as (Hb & Sh). constructor; [exact Hb|]. apply (IH x Hx). rewrite E. exact Sh.
Qed.

Lemma varint_cut_eof n pre t x : VarintRep n pre -> pre = t ++ x -> x <> [] -> load_varint t = Err EEof.
Proof.
  intros (Sh & _ & Le) -> Hx. unfold load_varint. apply load_go_eof.
  - rewrite app_length in Le. destruct x; [congruence|]. cbn [length] in Le. lia.
  - apply (shape_prefix_high t x Hx Sh).
Qed.

(* ---- (6) any strict prefix of a frame: the load raises ---- *)
Theorem frame_cut_err sc c pre p t x :
  VarintRep (Zlength p) pre -> pre ++ p = t ++ x -> x <> [] ->
  exists e, load_delimited sc c t = Err e.
Proof.
  intros R E Hx. destruct (Nat.le_gt_cases (length x) (length p)) as [L|L].
  - symmetry in E. destruct (app_split _ _ _ _ E L) as (y & -> & ->).
    apply (load_underrun sc c pre y (Zlength (y ++ x)) R). rewrite Zlen_app.
    destruct x; [congruence|]. unfold Zlength. cbn [length]. lia.
  - destruct (app_split _ _ _ _ E ltac:(lia)) as (y & -> & ->).
    assert (Hy : y <> []) by (intros ->; cbn [app] in L; lia).
    exists EEof. rewrite (delim_as_loop sc c t (length t)) by lia.
    rewrite (varint_cut_eof _ _ _ _ R eq_refl Hy). reflexivity.
Qed.

(* ---- (7) over-run: the payload's complete records stop short of the announced size and the next
        record crosses it: ValueError, whatever follows ---- *)
Definition one_record (rec : list byte) : Prop :=
  exists nw r s1 p, load_varint rec = Ok (nw, r, s1) /\ load_field (S (length s1)) s1 nw r = Ok (p, []).

Theorem frame_overrun sc c pre n a rec rest m :
  VarintRep n pre -> parse sc c a = Ok m -> one_record rec ->
  Zlength a < n -> n < Zlength a + Zlength rec ->
  load_delimited sc c (pre ++ a ++ rec ++ rest) = Err EValue.
Proof.
  intros R P (nw & r & s1 & p & Vr & Fr) Hlo Hhi.
  set (s := pre ++ a ++ rec ++ rest). set (f := length s).
  destruct (lv_sound _ _ _ _ Vr) as (Er & _ & _).
  assert (La : (length a <= f)%nat) by (subst f s; rewrite !app_length; lia).
  assert (L1 : (length s1 < f)%nat).
  { subst f s. rewrite Er, !app_length. destruct (lv_sound _ _ _ _ Vr) as (_ & Lr & _). lia. }
  rewrite (delim_as_loop sc c s f) by lia. subst s.
  rewrite (load_varint_rep _ _ _ R). cbn [bind].
  pose proof (Zlen_nonneg a). replace (n =? 0) with false by lia.
  rewrite (parse_as_loop sc c a f La) in P.
  destruct (uloop f sc c (S (length a)) a) as [[o' u']|] eqn:U; [|discriminate].
  unfold sloop, uloop in *.
  rewrite (load_field_fuel (S (length s1)) f) in Fr by lia.
  eapply (loop_overrun _ _ _ _ (load_field_acct f) (load_field_app f)); try eassumption;
    try lia.
  rewrite !app_length. lia.
Qed.

(* the frame of an empty message is the single byte 00: nothing after it is read *)
Lemma empty_frame sc c rest : load_delimited sc c (x00 :: rest) = Ok (sow_true (new sc c), rest).
Proof.
  apply (frame_load_ok sc c [x00] [] rest).
  - repeat split; cbn; lia.
  - apply parse_nil.
Qed.
