(* C07 gap closing, third group (table: header of C07GapA.v): the clauses COMPOSED - after every history that meets C01's
   operation-level conditions, bytes(m) and to_dict(m) contain, of every oneof group, exactly the member the last-writer tracker
   names (clauses (2) and (4) of the statement in one theorem), every hypothesis a boolean evaluated on the history. *)
From Coq Require Import ZArith List Bool Lia Arith.
From BP Require Import Base.Prelude Model.Types Model.Object Model.Eq Model.Encode Model.Decode Model.WellFormed Model.Json.
From BP Require Import Model.History Model.C07Ops Model.C07Step Model.C07Wire Model.C07GapDef Model.C07GapOk.
From BP Require Import Model.C01Def Model.C01Reach Model.C01Parse.
From BP Require Import Proofs.C07InvP Proofs.C07HistP Proofs.C07ObsP Proofs.C07ValP Proofs.C07JsonP.
From BP Require Import Proofs.C01ReachFinal Proofs.C07GapA Proofs.C07GapB.
Import ListNotations.

Lemma member_valb_vok v : member_valb v = vok v.
Proof. reflexivity. Qed.

Lemma is_memberb_true sc c i : is_member sc c i -> is_memberb sc c i = true.
Proof. intros (f & g & Hf & Hg). unfold is_memberb. rewrite Hf, Hg. reflexivity. Qed.

Lemma kw_okb_ok sc c kw : kw_okb sc c kw = true -> kw_ok sc c kw.
Proof.
  unfold kw_okb, kw_ok. rewrite forallb_forall. intros H i v Hin Hm. specialize (H (i, v) Hin). cbn [fst snd] in H.
  rewrite (is_memberb_true sc c i Hm) in H. exact H.
Qed.

Lemma op_okb_ok sc c p : op_okb sc c p = true -> op_ok sc c p.
Proof.
  destruct p as [p|kw|kw|kw]; cbn [op_okb op_ok]; try apply kw_okb_ok.
  destruct p; try (intros _; exact I). destruct path as [|j path]; [|intros _; exact I].
  intros H Hm. rewrite (is_memberb_true sc c i Hm) in H. exact H.
Qed.

Theorem ops_okb_ok sc c ops : forallb (op_okb sc c) ops = true -> Forall (op_ok sc c) ops.
Proof. rewrite forallb_forall, Forall_forall. intros H p Hin. apply op_okb_ok, H, Hin. Qed.

(* the encoding names the last writer *)
Theorem last_writer_on_wire sc c ops o bs :
  c01_schema_ok sc = true -> hist_ok op_value_ok_p sc (new sc c) ops = true ->
  forallb framed_op ops = true -> forallb (op_okb sc c) ops = true ->
  run7 sc (new sc c) ops = Ok o -> enc_obj sc o = Ok bs ->
  exists body rs,
    bs = body ++ ounk o /\ records body = Some rs /\
    forall g j f', (g < cngroups (get_class sc c))%nat ->
      nth_error (cfields (get_class sc c)) j = Some f' -> fgroup f' = Some g ->
      (In (fnum f') (numbers rs) <-> nth g (track sc c ops) None = Some j).
Proof.
  intros Hs Hh Hfr Hok Er E. pose proof (schema_wf sc Hs) as Hwf.
  destruct (reachable_selected_is_member sc c ops o Er) as (Hc & _).
  destruct (track_reachable sc c ops o Hs Hh Hfr Er) as (_ & Ht).
  destruct (observable_iff_reachable sc c ops o bs Hwf (ops_okb_ok sc c ops Hok) Er E) as (body & rs & Hb & Hr & H).
  exists body, rs. split; [exact Hb|]. split; [exact Hr|].
  intros g j f' Hg Hj Hfg. rewrite <- Ht. unfold cfs in H. rewrite Hc in H. apply H; assumption.
Qed.

(* to_dict names the last writer (both casings, with and without include_default_values) *)
Theorem last_writer_in_json cs incl sc c ops o :
  c01_schema_ok sc = true -> hist_ok op_value_ok_p sc (new sc c) ops = true ->
  forallb framed_op ops = true -> forallb (op_okb sc c) ops = true -> keys_distinct cs sc c ->
  run7 sc (new sc c) ops = Ok o ->
  forall g j f', (g < cngroups (get_class sc c))%nat ->
    nth_error (cfields (get_class sc c)) j = Some f' -> fgroup f' = Some g ->
    (In (key_of_field cs f') (jkeys (to_dict cs incl sc o)) <-> nth g (track sc c ops) None = Some j).
Proof.
  intros Hs Hh Hfr Hok Hk Er g j f' Hg Hj Hfg. pose proof (schema_wf sc Hs) as Hwf.
  destruct (reachable_selected_is_member sc c ops o Er) as (Hc & _).
  destruct (track_reachable sc c ops o Hs Hh Hfr Er) as (_ & Ht).
  rewrite <- Ht.
  apply (json_observable_iff_reachable cs incl sc c ops o Hwf (ops_okb_ok sc c ops Hok) Er); unfold cfs; try rewrite Hc; assumption.
Qed.

(* reading names the last writer: member j of g is readable after the history IFF the tracker names it (no value condition) *)
Theorem last_writer_readable sc c ops o :
  c01_schema_ok sc = true -> hist_ok op_value_ok_p sc (new sc c) ops = true -> forallb framed_op ops = true ->
  run7 sc (new sc c) ops = Ok o ->
  forall g j f', nth_error (cfields (get_class sc c)) j = Some f' -> fgroup f' = Some g ->
    ((exists v, read sc o j = Ok v) <-> nth g (track sc c ops) None = Some j) /\
    (read sc o j = Err EAttribute <-> nth g (track sc c ops) None <> Some j).
Proof.
  intros Hs Hh Hfr Er g j f' Hj Hfg.
  destruct (reachable_selected_is_member sc c ops o Er) as (Hc & _).
  destruct (track_reachable sc c ops o Hs Hh Hfr Er) as (_ & Ht). rewrite <- Ht.
  assert (Hj' : nth_error (cfs sc o) j = Some f') by (unfold cfs; rewrite Hc; exact Hj).
  destruct (read_iff_selected sc o j f' g Hj' Hfg) as (A & B & _). split; assumption.
Qed.
