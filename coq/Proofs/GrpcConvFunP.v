(* Proofs/GrpcConvFunP.v — where the request stream does not depend on responses, the small-step model
   (Model/GrpcConv.v) and the functional model (Model/Grpc.v [call]) agree, for all four helpers:
   the handler of the functional model is run behind the adapter as a reactive handler ([fh_step]), the
   caller's list is the request source ([list_src_step]); every maximal schedule of the system structured like
   the helper the stub uses ends with exactly the requests, responses and final status [call] computes. *)
From Coq Require Import List Bool Lia Arith.
From BP Require Import Base.Prelude Model.Grpc Model.GrpcConv Proofs.GrpcP Proofs.GrpcConvP Proofs.GrpcConvSeqP Proofs.GrpcConvRealP.
Import ListNotations.

Lemma list_src_plain rs : SrcPlain (list msg) list_src_step rs rs.
Proof.
  induction rs as [|r rs IH].
  - apply SP_end. reflexivity.
  - eapply SP_yield; [reflexivity | exact IH].
Qed.

Section Fun.
  Variables (cs ss : bool) (py : str) (h : hbody).
  Notation hstep := (fh_step cs ss py h).

  (* emitting the responses, then the status: in a dialogue ... *)
  Lemma fout_dlg (SS : Type) (sstep : SS -> src_act SS) (s : SS) ys st ib :
    Dlg SS fh_state sstep hstep s true [] (FOut ys st) ib ([], ys, st, false).
  Proof.
    revert ib. induction ys as [|y ys IH]; intros ib.
    - apply D_done; [reflexivity | left; reflexivity].
    - eapply D_yield; [reflexivity | apply IH].
  Qed.

  (* ... and alone on a closed request stream, streaming response *)
  Lemma fout_runs_stream rq ys st sent :
    HdlRuns fh_state hstep false rq (FOut ys st) sent ([], ys, st).
  Proof.
    revert sent. induction ys as [|y ys IH]; intros sent.
    - exact (HR_done fh_state hstep false rq (FOut [] st) sent st eq_refl).
    - eapply HR_yield; [reflexivity | reflexivity | apply IH].
  Qed.

  (* unary response, the two shapes a well-behaved handler has *)
  Lemma fout_runs_single_msg rq y :
    HdlRuns fh_state hstep true rq (FOut [y] None) false ([], [y], None).
  Proof.
    eapply HR_yield; [reflexivity | reflexivity |].
    exact (HR_done fh_state hstep true rq (FOut [] None) true None eq_refl).
  Qed.

  Lemma fout_runs_single_err rq x :
    HdlRuns fh_state hstep true rq (FOut [] (Some x)) false ([], [], Some x).
  Proof. exact (HR_done fh_state hstep true rq (FOut [] (Some x)) false (Some x) eq_refl). Qed.
End Fun.

(* client streaming: the adapter hands the iterator over, the functional handler reads it to the end *)
Lemma fread_dlg ss py h l : forall acc ib tr ys st,
  run_adapter ss py h (InMany (acc ++ l)) = (tr, ys, st) ->
  Dlg (list msg) fh_state list_src_step (fh_step true ss py h) l false [] (FRead acc) ib (l, ys, st, true).
Proof.
  induction l as [|r l IH]; intros acc ib tr ys st Hrun.
  - eapply D_src_end; [reflexivity | reflexivity |].
    eapply D_recv_end; [reflexivity|].
    cbn. unfold fh_out. rewrite app_nil_r in Hrun. rewrite Hrun. apply fout_dlg.
  - eapply D_src_yield; [reflexivity | reflexivity |].
    eapply D_recv; [reflexivity|]. cbn.
    apply (IH (acc ++ [r]) ib tr). rewrite <- app_assoc. exact Hrun.
Qed.

Lemma fread_runs_many ss py h single l : forall acc sent tr ys st em',
  run_adapter ss py h (InMany (acc ++ l)) = (tr, ys, st) ->
  HdlRuns fh_state (fh_step true ss py h) single [] (FOut ys st) sent ([], em', st) ->
  HdlRuns fh_state (fh_step true ss py h) single l (FRead acc) sent (l, em', st).
Proof.
  induction l as [|r l IH]; intros acc sent tr ys st em' Hrun Hout.
  - eapply HR_recv_end; [reflexivity|]. cbn. unfold fh_out.
    rewrite app_nil_r in Hrun. rewrite Hrun. exact Hout.
  - eapply HR_recv; [reflexivity|]. cbn.
    apply (IH (acc ++ [r]) sent tr ys); [rewrite <- app_assoc; exact Hrun | exact Hout].
Qed.

Lemma fread_runs_one ss py h single r sent tr ys st em' :
  run_adapter ss py h (InOne (Some r)) = (tr, ys, st) ->
  HdlRuns fh_state (fh_step false ss py h) single [] (FOut ys st) sent ([], em', st) ->
  HdlRuns fh_state (fh_step false ss py h) single [r] (FRead []) sent ([r], em', st).
Proof.
  intros Hrun Hout. eapply HR_recv; [reflexivity|]. cbn. unfold fh_out. rewrite Hrun. exact Hout.
Qed.

(* what the adapter does with a handler that is [handler_ok] *)
Lemma run_adapter_ok m h inp :
  handler_ok m h inp ->
  run_adapter (m_ss m) (m_py m) h inp =
    ([(m_py m, inp)], fst (produced (m_ss m) h inp), snd (produced (m_ss m) h inp)) /\
  (m_ss m = false -> (exists y, produced (m_ss m) h inp = ([y], None)) \/
                     (exists x, produced (m_ss m) h inp = ([], Some x))).
Proof.
  intros [Hty Hkind]. unfold produced in *. unfold run_adapter.
  destruct (m_ss m) eqn:Ess.
  - split; [|discriminate].
    destruct h as [f|f].
    + destruct (f inp) as [y| |s]; reflexivity.
    + destruct (f inp) as [ys st]. reflexivity.
  - destruct (Hkind eq_refl) as (f & -> & Hnn).
    destruct (f inp) as [y| |s] eqn:Ef; [| contradiction |].
    + split; [reflexivity | intros _; left; eauto].
    + split; [reflexivity | intros _; right; eauto].
Qed.

Definition reqs_of (a : carg) : list msg :=
  match a with ArgOne r => [r] | ArgIter rs => rs end.

(* the system a call of method m through the stub is: the helper the stub body names, the response
   cardinality the mapping entry names, the caller's list, the handler behind the adapter rendered for m *)
Definition fun_run (m : method) (h : hbody) :=
  run (list msg) fh_state list_src_step (fh_step (m_cs m) (m_ss m) (m_py m) h)
      (helper_mode (stub_helper m)) (negb (card_ss (mapping_card m))).
Definition fun_stuckb (m : method) (h : hbody) :=
  stuckb (list msg) fh_state list_src_step (fh_step (m_cs m) (m_ss m) (m_py m) h)
         (helper_mode (stub_helper m)) (negb (card_ss (mapping_card m))).

Lemma fun_final m h a :
  arg_ok m a -> handler_ok m h (hin_of a) ->
  let p := produced (m_ss m) h (hin_of a) in
  exists N fin,
    fun_stuckb m h fin = true /\
    observe fin = Observed (reqs_of a) (fst p) (Some (end_of (snd p))) /\
    forall sch s', fun_run m h sch (init (reqs_of a) (FRead [])) = Some s' ->
      (length sch <= N)%nat /\
      (exists rest, fun_run m h rest s' = Some fin /\ (length sch + length rest = N)%nat) /\
      (fun_stuckb m h s' = true -> s' = fin).
Proof.
  intros Harg Hok p.
  destruct (run_adapter_ok m h (hin_of a) Hok) as [Hrun Hshape]. fold p in Hrun, Hshape.
  unfold fun_run, fun_stuckb.
  destruct m as [nm pyn mcs mss tin tout]. cbn [m_cs m_ss m_py] in *.
  destruct a as [r|rs]; cbn [arg_ok m_cs m_in] in Harg; destruct Harg as [Hcs Hty]; subst mcs;
    cbn [hin_of reqs_of] in *.
  - (* unary request *)
    destruct mss; cbn [stub_helper m_ss m_cs mapping_card negb andb card_ss helper_mode].
    + (* _unary_stream *)
      pose proof (seq_complete (list msg) fh_state list_src_step (fh_step false true pyn h) true true false
                    [r] (FRead []) [r] [r] (fst p) (snd p) (list_src_plain [r])
                    (fread_runs_one true pyn h false r false _ _ _ _ Hrun (fout_runs_stream false true pyn h [] _ _ false)))
        as Hc.
      exact Hc.
    + (* _unary_unary *)
      destruct (Hshape eq_refl) as [[y Hp]|[x Hp]]; rewrite Hp in *; cbn [fst snd] in *.
      * pose proof (seq_complete (list msg) fh_state list_src_step (fh_step false false pyn h) false true true
                      [r] (FRead []) [r] [r] [y] None (list_src_plain [r])
                      (fread_runs_one false pyn h true r false _ _ _ _ Hrun (fout_runs_single_msg false false pyn h [] y)))
          as Hc.
        exact Hc.
      * pose proof (seq_complete (list msg) fh_state list_src_step (fh_step false false pyn h) false true true
                      [r] (FRead []) [r] [r] [] (Some x) (list_src_plain [r])
                      (fread_runs_one false pyn h true r false _ _ _ _ Hrun (fout_runs_single_err false false pyn h [] x)))
          as Hc.
        exact Hc.
  - (* client streaming *)
    destruct mss; cbn [stub_helper m_ss m_cs mapping_card negb andb card_ss helper_mode].
    + (* _stream_stream: the concurrent structure, through the dialogue *)
      pose proof (conversation_complete (list msg) fh_state list_src_step (fh_step true true pyn h)
                    rs (FRead []) rs (fst p) (snd p) (fread_dlg true pyn h rs [] [] _ _ _ Hrun)) as Hc.
      destruct Hc as [N [fin [A [B [_ [_ C]]]]]]. exists N, fin. split; [exact A|]. split; [exact B | exact C].
    + (* _stream_unary *)
      destruct (Hshape eq_refl) as [[y Hp]|[x Hp]]; rewrite Hp in *; cbn [fst snd] in *.
      * pose proof (seq_complete (list msg) fh_state list_src_step (fh_step true false pyn h) false true true
                      rs (FRead []) rs rs [y] None (list_src_plain rs)
                      (fread_runs_many false pyn h true rs [] false _ _ _ _ Hrun (fout_runs_single_msg true false pyn h [] y)))
          as Hc.
        exact Hc.
      * pose proof (seq_complete (list msg) fh_state list_src_step (fh_step true false pyn h) false true true
                      rs (FRead []) rs rs [] (Some x) (list_src_plain rs)
                      (fread_runs_many false pyn h true rs [] false _ _ _ _ Hrun (fout_runs_single_err true false pyn h [] x)))
          as Hc.
        exact Hc.
Qed.

Lemma adapter_input_reqs m a : arg_ok m a -> adapter_input (m_cs m) (reqs_of a) = hin_of a.
Proof.
  destruct a as [r|rs]; cbn [arg_ok reqs_of hin_of]; intros [Hcs _]; rewrite Hcs; reflexivity.
Qed.

(* C11_conversation_agrees_functional *)
Theorem conv_agrees_functional svc im skw ckw m h a :
  names_distinct svc -> owns svc m -> im (m_py m) = Some h ->
  arg_ok m a -> handler_ok m h (hin_of a) ->
  (exists N, forall sch s', fun_run m h sch (init (reqs_of a) (FRead [])) = Some s' ->
     (length sch <= N)%nat /\
     exists rest f, fun_run m h rest s' = Some f /\ fun_stuckb m h f = true) /\
  (forall sch f, fun_run m h sch (init (reqs_of a) (FRead [])) = Some f -> fun_stuckb m h f = true ->
     exists o e, call svc im skw (m_py m) a ckw = Some o /\
                 s_cend f = Some e /\ ob_res o = CRes (s_recv f) e /\
                 ob_trace o = [(m_py m, adapter_input (m_cs m) (s_hread f))]).
Proof.
  intros ND Hown Him Harg Hok.
  destruct (fun_final m h a Harg Hok) as [N [fin [Hfb [Hobs Hall]]]].
  split.
  - exists N. intros sch s' Hr. destruct (Hall sch s' Hr) as [Hle [[rest [Hrest _]] _]].
    split; [exact Hle|]. exists rest, fin. split; [exact Hrest | exact Hfb].
  - intros sch f Hr Hsb. destruct (Hall sch f Hr) as [_ [_ Heq]]. rewrite (Heq Hsb).
    unfold observe in Hobs. inversion Hobs as [[Hrd Hrc Hce]].
    exists (expected_obs svc m skw ckw a (produced (m_ss m) h (hin_of a))), (end_of (snd (produced (m_ss m) h (hin_of a)))).
    split; [apply payload_owner; assumption|].
    split; [exact Hce|]. split; [cbn [expected_obs ob_res]; rewrite Hrc; reflexivity|].
    cbn [expected_obs ob_trace]. rewrite Hrd, (adapter_input_reqs m a Harg). reflexivity.
Qed.
