(* C12 extension (4), (5) — what ONE receiver sees (order preserved, per sender increasing), every received item has
   exactly one receiver, and the outcomes a task can end with on the repaired code. *)
From BP Require Import Base.Prelude Model.Channel Model.C12X.
From BP Require Import Proofs.ChannelP1 Proofs.ChannelP2 Proofs.ChannelP3 Proofs.ChannelP4 Proofs.ChannelP5 Proofs.ChannelP6 Proofs.ChannelP7.
From Coq Require Import Arith Lia Sorted.
Local Open Scope nat_scope.

(* ---------------------------------------------------------------- sublist *)
Lemma sublist_refl : forall (A : Type) (l : list A), sublist l l.
Proof. induction l; constructor; auto. Qed.

Lemma sublist_filter_map : forall (A B : Type) (g : A -> B) (f : A -> bool) l, sublist (map g (filter f l)) (map g l).
Proof. induction l as [|a l IH]; cbn; [constructor|]. destruct (f a); cbn; constructor; auto. Qed.

Lemma sublist_filter : forall (A : Type) (f : A -> bool) a b, sublist a b -> sublist (filter f a) (filter f b).
Proof.
  intros A f a b H. induction H as [l|x a l H IH|x a l H IH]; cbn; [constructor| |].
  - destruct (f x); [constructor|]; auto.
  - destruct (f x); [constructor|]; auto.
Qed.

Lemma sublist_app_r : forall (A : Type) (a b c : list A), sublist a b -> sublist a (b ++ c).
Proof. intros A a b c H. induction H; cbn; constructor; auto. Qed.

Lemma sublist_In : forall (A : Type) (a b : list A) x, sublist a b -> In x a -> In x b.
Proof.
  intros A a b x H. induction H as [l|y a l H IH|y a l H IH]; cbn; intros HI; [contradiction| |].
  - destruct HI; auto.
  - auto.
Qed.

Lemma sublist_NoDup : forall (A : Type) (a b : list A), sublist a b -> NoDup b -> NoDup a.
Proof.
  intros A a b H. induction H as [l|y a l H IH|y a l H IH]; intros ND; [constructor| |].
  - inversion ND as [|? ? NI ND']; subst. constructor; auto. intros HI. apply NI. eapply sublist_In; eauto.
  - inversion ND; auto.
Qed.

Lemma sublist_map_seq : forall v n st0 a, sublist a (map (Msg v) (seq st0 n)) ->
  StronglySorted lt (map msg_num a) /\ Forall (fun k => st0 <= k) (map msg_num a).
Proof.
  induction n as [|n IH]; intros st0 a H; cbn [seq map] in H.
  - inversion H; subst. cbn. split; constructor.
  - inversion H as [l|x a' l H'|x a' l H']; subst.
    + cbn. split; constructor.
    + destruct (IH _ _ H') as [S1 F1]. cbn [map msg_num]. split.
      * constructor; auto; try (eapply Forall_impl; [|exact F1]; cbn; intros; lia).
      * constructor; [lia|]. eapply Forall_impl; [|exact F1]. cbn. intros; lia.
    + destruct (IH _ _ H') as [S1 F1]. split; auto. eapply Forall_impl; [|exact F1]. cbn. intros; lia.
Qed.

Lemma seq_prefix : forall k n, k <= n -> exists r, map (Msg 0) (seq 0 n) = map (Msg 0) (seq 0 k) ++ r.
Proof. intros k n L. replace n with (k + (n - k)) by lia. rewrite seq_app, map_app. eauto. Qed.

Lemma map_seq_prefix : forall v k n, k <= n -> sublist (map (Msg v) (seq 0 k)) (map (Msg v) (seq 0 n)).
Proof.
  intros v k n L. replace n with (k + (n - k)) by lia. rewrite seq_app, map_app. apply sublist_app_r. apply sublist_refl.
Qed.

Lemma sublist_trans : forall (A : Type) (b c : list A), sublist b c -> forall a, sublist a b -> sublist a c.
Proof.
  intros A b c H. induction H as [l|x b l H IH|x b l H IH]; intros a Ha.
  - inversion Ha; subst. constructor.
  - inversion Ha as [|y a' l' Ha'|y a' l' Ha']; subst; constructor; auto.
  - constructor; auto.
Qed.

(* ---------------------------------------------------------------- per-receiver order *)
Lemma filter_received_by : forall s r f, filter f (received_by s r) = map snd (filter (fun p => f (snd p)) (filter (by_receiver r) (recv s))).
Proof.
  intros s r f. unfold received_by. induction (filter (by_receiver r) (recv s)) as [|p l IH]; cbn; auto.
  destruct (f (snd p)); cbn; rewrite IH; auto.
Qed.

Theorem receiver_order : forall c s, Reach c s -> c_pinned c = false -> forall r,
  sublist (received_by s r) (received s) /\ NoDup (received_by s r) /\
  forall v, sublist (filter (from v) (received_by s r)) (map (Msg v) (seq 0 (nsent_of s v))) /\
            StronglySorted lt (map msg_num (filter (from v) (received_by s r))).
Proof.
  intros c s R P r.
  assert (SL : sublist (received_by s r) (received s)) by (apply sublist_filter_map).
  destruct (received_once c s R P) as (ND & _). split; [exact SL|]. split; [eapply sublist_NoDup; eauto|].
  intros v. destruct (fifo c s R P v) as [F L].
  assert (S1 : sublist (filter (from v) (received_by s r)) (map (Msg v) (seq 0 (length (filter (from v) (received s))))))
    by (rewrite <- F; apply sublist_filter; exact SL).
  split.
  - eapply sublist_trans; [|exact S1]. apply map_seq_prefix. exact L.
  - eapply sublist_map_seq; eauto.
Qed.

(* ---------------------------------------------------------------- exactly ONE receiver per item *)
Lemma NoDup_snd_unique : forall (l : list (nat * item)) a b x, NoDup (map snd l) -> In (a, x) l -> In (b, x) l -> a = b.
Proof.
  induction l as [|p l IH]; intros a b x ND Ha Hb; [contradiction|].
  cbn in ND. inversion ND as [|? ? NI ND']; subst.
  destruct Ha as [->|Ha]; destruct Hb as [Hb|Hb].
  - injection Hb; auto.
  - exfalso. apply NI. cbn. change x with (snd (b, x)). apply in_map. exact Hb.
  - subst p. exfalso. apply NI. cbn. change x with (snd (a, x)). apply in_map. exact Ha.
  - eapply IH; eauto.
Qed.

Lemma in_received_by : forall s r x, In x (received_by s r) <-> In (r, x) (recv s).
Proof.
  intros s r x. unfold received_by. rewrite in_map_iff. split.
  - intros ([a y] & E & HI). cbn in E. subst y. apply filter_In in HI as [HI HB]. unfold by_receiver in HB. cbn in HB.
    apply Nat.eqb_eq in HB. subst a. exact HI.
  - intros HI. exists (r, x). split; auto. apply filter_In. split; auto. unfold by_receiver. cbn. apply Nat.eqb_refl.
Qed.

Theorem one_receiver : forall c s, Reach c s -> c_pinned c = false ->
  (forall r1 r2 x, In x (received_by s r1) -> In x (received_by s r2) -> r1 = r2) /\
  (forall x, In x (received s) <-> exists r, In x (received_by s r)).
Proof.
  intros c s R P. destruct (received_once c s R P) as (ND & _). split.
  - intros r1 r2 x H1 H2. apply in_received_by in H1, H2. eapply NoDup_snd_unique; eauto.
  - intros x. split.
    + intros HI. unfold received in HI. apply in_map_iff in HI as ([r y] & E & HI). cbn in E. subst y.
      exists r. apply in_received_by. exact HI.
    + intros [r HI]. apply in_received_by in HI. unfold received. change x with (snd (r, x)). apply in_map. exact HI.
Qed.

(* ---------------------------------------------------------------- outcomes *)
Definition okT (okb : outcome -> bool) (T : task) : Prop := forall o, st T = Fin o -> okb o = true.

Lemma okT_nonfin : forall okb T, is_fin (st T) = false -> okT okb T.
Proof. intros okb T H o E. rewrite E in H. discriminate. Qed.

Lemma outcome_step : forall (okb : outcome -> bool) s t s', step s t = Some s' ->
  okb ORet = true -> okb OClosed = true -> okb ODone = true ->
  pinned s = false -> unfin s = length (q s) ->
  nocancel_state s \/ (okb OCancelled = true /\ okb OTimeout = true) ->
  alltasks (okT okb) (tasks s) -> alltasks (okT okb) (tasks s').
Proof.
  intros okb s t s' H K1 K2 K3 PN HU NC A. step_inv H; simp_proj.
  all: try congruence.
  all: repeat match goal with E : q _ = _ |- _ => rewrite E in *; clear E end; cbn [length] in *; try (exfalso; lia).
  all: try apply alltasks_app1; repeat (apply alltasks_upd);
       try (apply alltasks_wakeup; [reflexivity|intros ? ?; apply okT_nonfin; reflexivity|]); try exact A.
  all: try match goal with |- context [after_item ?o _] => destruct o; cbn [after_item fst snd] in * end.
  all: try (apply okT_nonfin; cbn [st set_prog set_mc set_st flush_task]; try match goal with E1 : st ?T = _ |- context [st ?T] => rewrite E1 end; reflexivity).
  all: try (intros o Ho; cbn [st finished] in Ho; injection Ho as <-; assumption).
  all: destruct NC as [NC|[C1 C2]]; [nocancel_contra|].
  all: intros o Ho; cbn [st finished] in Ho; injection Ho as <-; unfold cancel_out; destruct (tmo t0); assumption.
Qed.

Lemma init_okT : forall okb c, alltasks (okT okb) (tasks (init c)).
Proof. intros okb c u U HU. eapply (init_tasks_forall (okT okb)); eauto. intros pb. apply okT_nonfin. reflexivity. Qed.

Definition outcome_of_ok (okb : outcome -> bool) (s : state) : Prop :=
  forall t o, outcome_of s t = Some o -> okb o = true.

Lemma okT_outcome : forall okb s, alltasks (okT okb) (tasks s) -> outcome_of_ok okb s.
Proof.
  intros okb s A t o H. unfold outcome_of in H. destruct (nth_error (tasks s) t) as [T|] eqn:E; [|discriminate].
  destruct (st T) eqn:ES; try discriminate. injection H as ->. eapply A; eauto.
Qed.

(* repaired code: no task ever ends with the ValueError of task_done() *)
Theorem no_value_error : forall c s t o, Reach c s -> c_pinned c = false -> outcome_of s t = Some o ->
  outcome_is_error o = false.
Proof.
  intros c s t o R P H.
  assert (A : alltasks (okT (fun o => negb (outcome_is_error o))) (tasks s)).
  { clear t o H. induction R as [|s t s' R IH Hs]; [apply init_okT|].
    destruct (reach_gen _ _ R) as [_ _ _ _ _ _ IHh]. assert (PN : pinned s = false) by (rewrite (reach_pinned c); auto).
    destruct (IHh PN) as [_ HU].
    eapply outcome_step; eauto. }
  apply negb_true_iff. eapply (okT_outcome _ s A); eauto.
Qed.

(* ... and without cancellation a task ends by returning, with ChannelClosed (a send after close) or ChannelDone
   (a receive on a done channel) — nothing else *)
Theorem outcomes_nocancel : forall c s t o, Reach c s -> c_pinned c = false -> cfg_nocancel c = true ->
  outcome_of s t = Some o -> o = ORet \/ o = OClosed \/ o = ODone.
Proof.
  intros c s t o R P NC H.
  assert (A : alltasks (okT (fun o => negb (outcome_is_error o) && negb (outcome_is_cancel o))) (tasks s)).
  { clear t o H. induction R as [|s t s' R IH Hs]; [apply init_okT|].
    destruct (reach_gen _ _ R) as [_ _ _ _ _ _ IHh]. assert (PN : pinned s = false) by (rewrite (reach_pinned c); auto).
    destruct (IHh PN) as [_ HU]. destruct (reach_nc _ _ R NC) as [JN _ _ _ _ _].
    eapply outcome_step; eauto. }
  pose proof (okT_outcome _ s A t o H) as K. destruct o; cbn in K; try discriminate; auto.
Qed.
