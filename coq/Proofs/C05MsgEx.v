(* C05, message level: a hand-written schema that uses every field shape (harness-independent), one object and one
   abstract message of it, showing that every hypothesis of C05_emit / C05_accept is satisfiable at once and that the
   theorems' conclusions are what evaluation gives.

     message Inner { int32 v = 1; optional Inner next = 2; google.protobuf.Timestamp at = 3; }
     enum Color { ZERO = 0; ONE = 1; UNO = 1; NEG = -1; }
     message Outer {
       repeated int64 ids = 1;                 repeated Inner kids = 2;
       map<string, Inner> by_name = 3;         map<bool, google.protobuf.Timestamp> flags = 4;
       optional Inner opt_child = 5;           optional google.protobuf.Timestamp opt_at = 6;
       optional sint32 opt_n = 7;              google.protobuf.BytesValue w_bytes = 8;
       google.protobuf.FloatValue w_float = 9;
       oneof pick { Inner pick_child = 10; google.protobuf.Duration pick_span = 11; Color pick_e = 12; }
       Inner child = 13;                       repeated Color colors = 14;
       float ratio = 15;                       string name = 16;
       map<int32, Color> tint = 17;            google.protobuf.Duration span = 18;
     } *)
From BP Require Import Base.Prelude Model.Types Model.Float Model.Object Model.WellFormed Model.TimeCore Spec.Time.
From BP Require Model.Json Spec.JsonMap.
From BP Require Import Proofs.C04Def Proofs.C05Casing Proofs.C05Leaf Proofs.C05Model Proofs.C05MsgDef Proofs.C05AccDef.
From Coq Require Import String.

Module Ex2.
Import S.
Definition b (s : string) : list byte := list_byte_of_string s.

Definition c_outer : nat := 11.
Definition c_inner : nat := 12.

Definition inner_cls : cdesc :=
  mkC [plain_field (b "v") 1 TInt32;
       mkF (b "next") 2 TMessage None None None true (HOptional (PyMsg c_inner)) 0;
       mkF (b "at") 3 TMessage None None None false (HPlain PyDatetime) 0] 0.

Definition outer_cls : cdesc :=
  mkC [mkF (b "ids") 1 TInt64 None None None false (HList PyInt) 0;
       mkF (b "kids") 2 TMessage None None None false (HList (PyMsg c_inner)) 0;
       mkF (b "by_name") 3 TMap (Some (TString, TMessage)) None None false (HDict PyStr (PyMsg c_inner)) 13;
       mkF (b "flags") 4 TMap (Some (TBool, TMessage)) None None false (HDict PyBool PyDatetime) 14;
       mkF (b "opt_child") 5 TMessage None None None true (HOptional (PyMsg c_inner)) 0;
       mkF (b "opt_at") 6 TMessage None None None true (HOptional PyDatetime) 0;
       mkF (b "opt_n") 7 TSInt32 None None None true (HOptional PyInt) 0;
       mkF (b "w_bytes") 8 TMessage None None (Some TBytes) false (HOptional PyBytes) 0;
       mkF (b "w_float") 9 TMessage None None (Some TFloat) false (HOptional PyFloat) 0;
       mkF (b "pick_child") 10 TMessage None (Some 0%nat) None false (HPlain (PyMsg c_inner)) 0;
       mkF (b "pick_span") 11 TMessage None (Some 0%nat) None false (HPlain PyTimedelta) 0;
       mkF (b "pick_e") 12 TEnum None (Some 0%nat) None false (HPlain (PyEnum 0)) 0;
       mkF (b "child") 13 TMessage None None None false (HPlain (PyMsg c_inner)) 0;
       mkF (b "colors") 14 TEnum None None None false (HList (PyEnum 0)) 0;
       plain_field (b "ratio") 15 TFloat;
       plain_field (b "name") 16 TString;
       mkF (b "tint") 17 TMap (Some (TInt32, TEnum)) None None false (HDict PyInt (PyEnum 0)) 15;
       mkF (b "span") 18 TMessage None None None false (HPlain PyTimedelta) 0] 1.

Definition entry_name_inner : cdesc :=
  mkC [plain_field (b "key") 1 TString; mkF (b "value") 2 TMessage None None None false (HPlain (PyMsg c_inner)) 0] 0.
Definition entry_flag_time : cdesc :=
  mkC [plain_field (b "key") 1 TBool; mkF (b "value") 2 TMessage None None None false (HPlain PyDatetime) 0] 0.
Definition entry_int_color : cdesc :=
  mkC [plain_field (b "key") 1 TInt32; mkF (b "value") 2 TEnum None None None false (HPlain (PyEnum 0)) 0] 0.

Definition color : list (list byte * Z) := [(b "ZERO", 0); (b "ONE", 1); (b "UNO", 1); (b "NEG", -1)].

Definition sc : schema :=
  mkS (builtin_classes ++ [outer_cls; inner_cls; entry_name_inner; entry_flag_time; entry_int_color]) [mkE color].

(* what the descriptor pool holds for the two user messages (class 0 = Outer, class 1 = Inner) *)
Definition js : jschema :=
  mkJS [[mkJF (b "ids") (b "ids") (JScalar KInt64) Repeated None;
         mkJF (b "kids") (b "kids") (JMsg 1) Repeated None;
         mkJF (b "by_name") (b "byName") (JMsg 1) (MapOf KString) None;
         mkJF (b "flags") (b "flags") JTimestamp (MapOf KBool) None;
         mkJF (b "opt_child") (b "optChild") (JMsg 1) Explicit None;
         mkJF (b "opt_at") (b "optAt") JTimestamp Explicit None;
         mkJF (b "opt_n") (b "optN") (JScalar KSInt32) Explicit None;
         mkJF (b "w_bytes") (b "wBytes") (JWrapper KBytes) Explicit None;
         mkJF (b "w_float") (b "wFloat") (JWrapper KFloat) Explicit None;
         mkJF (b "pick_child") (b "pickChild") (JMsg 1) Explicit (Some 0%nat);
         mkJF (b "pick_span") (b "pickSpan") JDuration Explicit (Some 0%nat);
         mkJF (b "pick_e") (b "pickE") (JEnum 0) Explicit (Some 0%nat);
         mkJF (b "child") (b "child") (JMsg 1) Explicit None;
         mkJF (b "colors") (b "colors") (JEnum 0) Repeated None;
         mkJF (b "ratio") (b "ratio") (JScalar KFloat) Implicit None;
         mkJF (b "name") (b "name") (JScalar KString) Implicit None;
         mkJF (b "tint") (b "tint") (JEnum 0) (MapOf KInt32) None;
         mkJF (b "span") (b "span") JDuration Explicit None];
        [mkJF (b "v") (b "v") (JScalar KInt32) Implicit None;
         mkJF (b "next") (b "next") (JMsg 1) Explicit None;
         mkJF (b "at") (b "at") JTimestamp Explicit None]]
       [color].

Definition inner (v : pv) (next : pv) (at_ : pv) : obj := Obj c_inner [v; next; at_] true [] [].
Definition nan32 : Z := 9221120237041090560.          (* float("nan") *)

Definition m : obj :=
  Obj c_outer
    [PList [PInt 1; PInt (- 2 ^ 63)];
     PList [PMsg (inner (PInt 5) PNone PPlaceholder); PMsg (inner PPlaceholder PNone PPlaceholder)];
     PDict [(PStr (b "a"), PMsg (inner (PInt 1) (PMsg (inner (PInt 2) PNone PPlaceholder)) PPlaceholder))];
     PDict [(PBool true, PDatetime 1583020799250000); (PBool false, PDatetime 0)];
     PMsg (inner PPlaceholder PNone PPlaceholder);
     PDatetime 0;
     PInt 0;
     PBytes [];
     PFloat nan32;
     PPlaceholder;
     PTimedelta 0;
     PPlaceholder;
     PMsg (inner PPlaceholder (PMsg (inner (PInt 7) PNone (PDatetime (-1)))) PPlaceholder);
     PList [PInt 0; PInt 1; PInt 5];
     PFloat 4609434218613702656;
     PStr [xc3; xa9];
     PDict [(PInt (-3), PInt (-1)); (PInt 4, PInt 9)];
     PTimedelta (-1500000)]
    true [] [Some 10%nat].
End Ex2.

Definition ex2_aval : S.aval := abs_obj Ex2.sc Ex2.m.

(* every hypothesis of C05_emit and C05_accept holds on this schema / object / abstract message *)
Example ex2_hypotheses :
  wf_schema Ex2.sc = true /\ js_matches (List.length builtin_classes) Ex2.sc Ex2.js = true /\
  keys_ok J.CAMEL Ex2.sc = true /\ emit_good Ex2.sc Ex2.m = true /\
  ocls Ex2.m = (0 + List.length builtin_classes)%nat /\
  wf_aval Ex2.sc Ex2.js (List.length builtin_classes) (S.JMsg 0) ex2_aval = true.
Proof. repeat split; vm_compute; reflexivity. Qed.

(* ... and the conclusions are what evaluation gives (the object is not trivial: 16 of 18 members are emitted) *)
Example ex2_evaluates :
  model_emit_accepts Ex2.sc Ex2.js 0 Ex2.m = Some ex2_aval /\
  model_reads_canonical Ex2.sc Ex2.js 0 (List.length builtin_classes) ex2_aval = Some ex2_aval /\
  match J.to_dict J.CAMEL false Ex2.sc Ex2.m with J.JObj d => List.length d = 16%nat | _ => False end.
Proof. repeat split; vm_compute; reflexivity. Qed.
