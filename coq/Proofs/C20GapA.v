(* C20 — gap analysis of the property text against Properties/C20.v, and the first group of gap-closing proofs
   (the enum class and the scalar / element level; the message level is C20GapB.v).

   PROPERTY TEXT, clause by clause  ->  theorems that existed  ->  gap  ->  closed by (GapA = this file, GapB = C20GapB.v)

   (1) "For every enum definition (negative numbers and aliases included) looking a member up by number or by name returns the
        one canonical member object, whose name and number are those declared"
         -> C20_by_number, C20_by_name (for every declared (n, v): all lookups return canon v, the table object),
            C20_undefined_name, C20_open (the failing lookups), C20_iteration(_consistent).
         gap a: "THE ONE canonical object" is a uniqueness statement; no theorem said that the class holds exactly one object per
            number, nor characterised which objects are table objects.
            -> GapA member_eqb_eq (the model of `is` decides equality of (name, number)), in_table_iff (m is a table object EXACTLY
               when its number is declared and m = canon of its number), one_object_per_number (uniqueness),
               aliases_same_object (two names of one number give one object).
         gap b: converses.  by_number / by_name are implications from "declared"; nothing said that a lookup succeeds ONLY for declared
            numbers / names, nor that the result is determined.
            -> GapA call_iff, call_err_iff (E(v) returns m iff v declared and m = canon v; raises ValueError - and never anything
               else - iff v is undeclared), getitem_iff (E[n] returns m iff n is declared for some v with m = canon v).
         gap c: "whose name ... are those declared": for an alias the returned member's name is NOT the name looked up.
            -> GapA alias_name_refuted (witness A=1, B=1: E["B"].name = "A") and name_kept_iff: the member found under n carries
               the name n EXACTLY when n is the first name declared for its number; its name is always A declared name of the number
               (lookup_name_declared).
         gap d: the entry points were related pairwise in separate theorems.  -> GapA lookups_agree: for a declared (n, v) with v an
            int32, E(v), E[n], E.from_string(n), E.n, try_value(v), the binary decoder, from_dict on the name / on the number /
            on what to_dict wrote, iteration, copy and deepcopy ALL yield the same table object canon v.
   (2) "members keep their identity under copy/deepcopy and their name and number under pickling"
         -> C20_copy, C20_pickle (all members, table or open).  The text does not claim identity under pickling (Enum.__new__ builds a new
            object), and none is stated.  gap: what an unpickled member looks up to.
            -> GapA pickle_recanon: looking the unpickled member's number up again gives the original object (table member or open value).
         message level (a MESSAGE holding enum values, pickled): GapB pickle_keeps_enum (with C14's pickle = parse of bytes).
            (copy / deepcopy of a message: C14_copy_faithful gives equal bytes / ==, not stated per enum field here; see the report.)
   (3) "A number the enum does not define is accepted wherever a member is, compares equal to that integer"
         -> C20_open, C20_number_kept; the _built theorems (setattr / constructor in the five positions for every int32 number, named or
            not), C20_message_json_accepts_names (from_dict on a number).
         gap a: "defined" / "undefined" is a dichotomy; C20_open is one implication.  -> GapA open_iff: the value has no name iff the number
            is undeclared iff it is not a table object iff E(v) raises iff `in` says no.
         gap b: "equal to THAT integer" - only that one.  -> GapA eq_int_iff.
         gap c: on the wire: ANY varint in an enum field is accepted.  Scalar level: C20_decoded_is_int32, C20_any_encoding_decodes (existing).
            The message-level composition with C17_accept_iff ([valid] for a record carrying an arbitrary varint in an enum field) is NOT
            proved here; see the report.
   (4) "and keeps its number through binary and JSON round trips"
         -> scalar: C20_roundtrip_scalar_partial, _packed_partial, _json_partial;  message: C20_roundtrip_message_binary / _json (any message
            meeting C01's / C04's value conditions), _built (those conditions hold for Cls(); m.f = v).
         gap a: the value conditions c01_value_ok / good are hypotheses checked on samples for messages other than the built ones.
            -> GapB roundtrip_binary_reachable(_run): discharged for every object a public-API history (run7: constructor, setattr, nested
               assignment, reads, from_dict, copies, pickle, parse ...) produces from Cls() or from a decoded message, under C01's
               operation-level conditions.  (JSON: C04 has no reachability theorem for its value condition `good`, and `good` is not
               implied by c01_value_ok (no_lazy, nan_ok); NOT closed, see the report.)
         gap b: the quantifier says int32; is the bound exact?  -> GapA roundtrip_number_iff: the decoded number equals v IF AND ONLY IF v is an
            int32 (for every integer v), out_of_range_refuted (2^31 encodes, decodes to -2^31); GapB value_ok_iff_int32: at the message level
            C01's value condition on Cls(); m.f = v holds exactly for int32 v, message_out_of_range_refuted.
         gap c: "keeps its number" as injectivity: different numbers never share bytes / a JSON element.  -> GapA binary_injective,
            json_injective.
         gap d: neighbouring properties.  -> GapB len_built (C09: len(m) = |bytes(m)| for the built messages, every position and number),
            enum_evolution_scalar (C08-style evolution of the ENUM DEFINITION, scalar level: a reader whose definition lacks / renames / adds
            members reads the same number and re-emits the same bytes), json_evolution_iff / json_evolution_refuted (JSON is open by number
            only: a NAME travels exactly when the reader declares it for the same number).
   (5) "Enum classes and members cannot be mutated"
         -> C20_immutable_guards, C20_immutable_histories, C20_mutations_raise (all histories).
         gap: "cannot be mutated" as observational statement: whatever was attempted before, every later operation answers as on the fresh
            class, and histories compose.  -> GapA history_invisible, history_app; mutators are the ONLY operations on a declared class that
            can raise AttributeError besides an undefined attribute name: attribute_error_iff.
   (6) quantifier "enum definitions with 1..n members over numbers in int32 range incl. 0, negatives, gaps and aliases": every theorem quantifies
       over ALL bodies (any length, any integers, re-assigned names, dunder names): more than asked.  No gap.
   (7) quantifier "all int32 numbers as field values (defined and undefined) in singular, repeated, map-value, oneof and optional positions":
       C20_positions_complete + the message theorems; exactness of int32 see (4b). *)
From Coq Require Import ZArith List Bool Lia ZifyBool.
From BP Require Import Base.Prelude Model.Varint Model.Scalar Model.Enum Spec.Varint.
From BP Require Import Proofs.BytesP Proofs.VarintP Proofs.ScalarP Proofs.EnumP.
Import ListNotations.

(* ------------------------------------------------------------------ (1a) the one object per number *)
Lemma member_eqb_eq a b : member_eqb a b = true <-> a = b.
Proof.
  destruct a as [[x|] va], b as [[y|] vb]; unfold member_eqb; cbn [fst snd]; split; intros H; try discriminate.
  - apply andb_true_iff in H. destruct H as [H1 H2]. apply bytes_eqb_eq in H1. apply Z.eqb_eq in H2. subst. reflexivity.
  - injection H as -> ->. rewrite (proj2 (bytes_eqb_eq y y) eq_refl), Z.eqb_refl. reflexivity.
  - apply Z.eqb_eq in H. subst. reflexivity.
  - injection H as ->. apply Z.eqb_refl.
Qed.

Theorem in_table_iff body m :
  in_table (class_of body) m = true <->
  In (snd m) (map snd (members_of body)) /\ m = canon (members_of body) (snd m).
Proof.
  unfold class_of. set (ms := members_of body). unfold in_table. rewrite vmap_get. unfold canon.
  destruct (first_name ms (snd m)) as [n0|] eqn:Ef.
  - rewrite member_eqb_eq. split.
    + intros H. split; [|exact H]. apply first_name_in in Ef. exact (in_numbers ms n0 (snd m) Ef).
    + intros [_ H]. exact H.
  - split; [discriminate|]. intros [Hin _]. apply first_name_None in Ef. contradiction.
Qed.

Theorem one_object_per_number body m m' :
  in_table (class_of body) m = true -> in_table (class_of body) m' = true -> snd m = snd m' -> m = m'.
Proof.
  intros H1 H2 E. apply in_table_iff in H1. apply in_table_iff in H2.
  destruct H1 as [_ H1], H2 as [_ H2]. rewrite H1, H2, E. reflexivity.
Qed.

(* ------------------------------------------------------------------ (1b) converses *)
Theorem call_iff body v m :
  call (class_of body) v = Ok m <-> In v (map snd (members_of body)) /\ m = canon (members_of body) v.
Proof.
  unfold class_of. set (ms := members_of body). rewrite call_canon. unfold canon.
  destruct (first_name ms v) as [n0|] eqn:Ef.
  - split.
    + intros H. injection H as <-. split; [|reflexivity]. apply first_name_in in Ef. exact (in_numbers ms n0 v Ef).
    + intros [_ ->]. reflexivity.
  - split; [discriminate|]. intros [Hin _]. apply first_name_None in Ef. contradiction.
Qed.

Theorem call_err_iff body v k :
  call (class_of body) v = Err k <-> ~ In v (map snd (members_of body)) /\ k = EValue.
Proof.
  unfold class_of. set (ms := members_of body). rewrite call_canon.
  destruct (first_name ms v) as [n0|] eqn:Ef.
  - split; [discriminate|]. intros [Hn _]. apply first_name_in in Ef. exfalso. apply Hn. exact (in_numbers ms n0 v Ef).
  - apply first_name_None in Ef. split.
    + intros H. injection H as <-. split; [exact Ef|reflexivity].
    + intros [_ ->]. reflexivity.
Qed.

Lemma nget_map_inv {V} (g : name * Z -> V) (ms : defn) n x :
  nget n (map (fun nv => (fst nv, g nv)) ms) = Some x -> exists v, In (n, v) ms /\ x = g (n, v).
Proof.
  induction ms as [|[a b] ms IH]; cbn [map nget fst]; [discriminate|].
  destruct (bytes_eqb n a) eqn:E.
  - intros H. injection H as <-. apply bytes_eqb_eq in E. subst a. exists b. split; [left; reflexivity|reflexivity].
  - intros H. destruct (IH H) as (v & Hin & Hx). exists v. split; [right; exact Hin|exact Hx].
Qed.

Lemma mmap_get_inv body n m :
  nget n (mmap (class_of body)) = Some m -> exists v, In (n, v) (members_of body) /\ m = canon (members_of body) v.
Proof.
  unfold class_of. set (ms := members_of body). rewrite mmap_closed by apply members_of_nodup.
  intros H. destruct (nget_map_inv (fun nv => canon ms (snd nv)) ms n m H) as (v & Hin & E).
  exists v. split; [exact Hin|exact E].
Qed.

Theorem getitem_iff body n m :
  getitem (class_of body) n = Ok m <-> exists v, In (n, v) (members_of body) /\ m = canon (members_of body) v.
Proof.
  split.
  - unfold getitem. destruct (nget n (mmap (class_of body))) as [m0|] eqn:E; [|discriminate].
    intros H. injection H as <-. exact (mmap_get_inv body n m0 E).
  - intros (v & Hin & ->). destruct (by_name body n v Hin) as (Hg & _ & _ & Hc & _). rewrite Hg. exact Hc.
Qed.

Theorem from_string_iff body n m :
  from_string (class_of body) n = Ok m <-> exists v, In (n, v) (members_of body) /\ m = canon (members_of body) v.
Proof.
  split.
  - unfold from_string. destruct (nget n (mmap (class_of body))) as [m0|] eqn:E; [|discriminate].
    intros H. injection H as <-. exact (mmap_get_inv body n m0 E).
  - intros (v & Hin & ->). destruct (by_name body n v Hin) as (_ & Hg & _ & Hc & _). rewrite Hg. exact Hc.
Qed.

(* two names of one number: one object *)
Theorem aliases_same_object body n n' v :
  In (n, v) (members_of body) -> In (n', v) (members_of body) ->
  getitem (class_of body) n = getitem (class_of body) n' /\
  exists m, getitem (class_of body) n = Ok m /\ in_table (class_of body) m = true /\ snd m = v.
Proof.
  intros H1 H2. destruct (by_name body n v H1) as (G1 & _ & _ & Hc & Hs).
  destruct (by_name body n' v H2) as (G2 & _). split; [rewrite G1, G2; reflexivity|].
  exists (canon (members_of body) v). split; [rewrite G1; exact Hc|]. split; [|exact Hs].
  apply in_table_iff. cbn [canon snd]. split; [exact (in_numbers _ n v H1)|reflexivity].
Qed.

(* ------------------------------------------------------------------ (1c) which name the member carries *)
Theorem name_kept_iff body n v :
  In (n, v) (members_of body) ->
  (getitem (class_of body) n = Ok (Some n, v) <-> first_name (members_of body) v = Some n).
Proof.
  intros Hin. destruct (by_name body n v Hin) as (Hg & _ & _ & Hc & _). rewrite Hg, Hc. unfold canon. split.
  - intros H. injection H as H. exact H.
  - intros ->. reflexivity.
Qed.

Theorem lookup_name_declared body n m :
  getitem (class_of body) n = Ok m ->
  exists n0, fst m = Some n0 /\ In (n0, snd m) (members_of body) /\ In (n, snd m) (members_of body).
Proof.
  intros H. apply getitem_iff in H. destruct H as (v & Hin & ->). unfold canon. cbn [fst snd].
  destruct (first_name_defined (members_of body) n v Hin) as (n0 & Ef). exists n0.
  split; [exact Ef|]. split; [exact (first_name_in _ _ _ Ef)|exact Hin].
Qed.

Definition alias_body : defn := [([x41], 1); ([x42], 1)].   (* A = 1; B = 1 *)

Theorem alias_name_refuted :
  exists body n v m, In (n, v) (members_of body) /\ getitem (class_of body) n = Ok m /\ fst m <> Some n /\ snd m = v.
Proof.
  exists alias_body, [x42], 1, (Some [x41], 1).
  split; [vm_compute; right; left; reflexivity|]. split; [vm_compute; reflexivity|].
  split; [cbn [fst]; intros H; discriminate H|reflexivity].
Qed.

(* ------------------------------------------------------------------ (3a) defined / undefined is a dichotomy *)
Theorem open_iff body v :
  let c := class_of body in
  let defined := In v (map snd (members_of body)) in
  (fst (try_value c v) = None <-> ~ defined) /\
  (in_table c (try_value c v) = true <-> defined) /\
  (contains c (AMem (try_value c v)) = true <-> defined) /\
  (call c v = Err EValue <-> ~ defined) /\
  (call c v = Ok (try_value c v) <-> defined).
Proof.
  intros c defined. subst c defined. set (ms := members_of body).
  assert (Htv : try_value (class_of body) v = canon ms v) by (unfold class_of; apply try_value_canon).
  rewrite Htv. split; [|split; [|split; [|split]]].
  - unfold canon. cbn [fst]. apply first_name_None.
  - rewrite in_table_iff. cbn [canon snd]. fold ms. split; [intros [H _]; exact H|intros H; split; [exact H|reflexivity]].
  - unfold canon. destruct (first_name ms v) as [n0|] eqn:Ef.
    + assert (Hin : In (n0, v) ms) by (apply first_name_in; exact Ef).
      split; [intros _; exact (in_numbers ms n0 v Hin)|]. intros _.
      cbn [contains]. unfold nmem. destruct (by_name body n0 v Hin) as (Hg & _ & _ & Hc & _).
      unfold getitem in Hg. fold ms in Hc. rewrite Hc in Hg.
      destruct (nget n0 (mmap (class_of body))); [reflexivity|discriminate].
    + cbn [contains]. apply first_name_None in Ef. split; [discriminate|]. intros H. contradiction.
  - rewrite call_err_iff. fold ms. split; [intros [H _]; exact H|intros H; split; [exact H|reflexivity]].
  - rewrite call_iff. fold ms. split; [intros [H _]; exact H|intros H; split; [exact H|reflexivity]].
Qed.

(* ------------------------------------------------------------------ (3b) equal to that integer only *)
Theorem eq_int_iff body v z : eq_int (try_value (class_of body) v) z = true <-> z = v.
Proof.
  unfold eq_int. rewrite (proj1 (try_value_number body v)). rewrite Z.eqb_eq. split; intros H; symmetry; exact H.
Qed.

(* ------------------------------------------------------------------ (4b) the int32 bound is exact *)
Theorem roundtrip_number_iff body v : snd (enum_post (class_of body) (v mod 2 ^ 64)) = v <-> int32 v.
Proof.
  split.
  - intros H. rewrite <- H. apply decoded_number_is_int32.
  - intros H. destruct (scalar_roundtrip body v H) as (_ & _ & _ & _ & _ & E). exact E.
Qed.

Theorem out_of_range_refuted :
  exists body v bs, ~ int32 v /\ enum_pre (try_value (class_of body) v) = Ok bs /\
    load_varint bs = Ok (v mod 2 ^ 64, bs, []) /\
    enum_post (class_of body) (v mod 2 ^ 64) = (None, - 2 ^ 31) /\
    enum_post (class_of body) (v mod 2 ^ 64) <> try_value (class_of body) v.
Proof.
  exists alias_body, (2 ^ 31), [x80; x80; x80; x80; x08].
  split; [unfold int32; lia|]. split; [vm_compute; reflexivity|]. split; [vm_compute; reflexivity|].
  split; [vm_compute; reflexivity|]. vm_compute. intros H. discriminate H.
Qed.

(* ------------------------------------------------------------------ (4c) injectivity: the bytes / the JSON element determine the number *)
Theorem binary_injective body v v' bs :
  int32 v -> int32 v' ->
  enum_pre (try_value (class_of body) v) = Ok bs -> enum_pre (try_value (class_of body) v') = Ok bs -> v = v'.
Proof.
  intros Hv Hv' E E'.
  destruct (scalar_roundtrip body v Hv) as (b1 & E1 & _ & L1 & _ & S1).
  destruct (scalar_roundtrip body v' Hv') as (b2 & E2 & _ & L2 & _ & S2).
  rewrite E in E1. injection E1 as <-. rewrite E' in E2. injection E2 as <-.
  specialize (L1 []). specialize (L2 []).
  assert (Hm : v mod 2 ^ 64 = v' mod 2 ^ 64) by congruence.
  rewrite <- S1, <- S2, Hm. reflexivity.
Qed.

Theorem json_injective body v v' :
  to_json_el (class_of body) v = to_json_el (class_of body) v' -> v = v'.
Proof.
  intros E. destruct (json_roundtrip body v) as (R & _). destruct (json_roundtrip body v') as (R' & _).
  cbv zeta in R, R'. rewrite E in R. rewrite R in R'. injection R' as H.
  rewrite <- (proj1 (try_value_number body v)), <- (proj1 (try_value_number body v')). rewrite H. reflexivity.
Qed.

(* ------------------------------------------------------------------ (1d) every entry point gives the same object *)
Theorem lookups_agree body n v :
  In (n, v) (members_of body) -> int32 v ->
  let c := class_of body in let M := canon (members_of body) v in
  call c v = Ok M /\ getitem c n = Ok M /\ from_string c n = Ok M /\ getattr_cls c n = Ok M /\
  try_value c v = M /\ enum_post c (v mod 2 ^ 64) = M /\
  from_json_el c (JName n) = Ok M /\ from_json_el c (JNum v) = Ok M /\ from_json_el c (to_json_el c v) = Ok M /\
  In M (iter c) /\ in_table c M = true /\ copy M = M /\ deepcopy M = M /\ snd M = v /\
  (v = 0 -> enum_default c = M).
Proof.
  intros Hin Hv c M. subst c M. set (ms := members_of body).
  destruct (by_name body n v Hin) as (Hg & Hf & Ha & Hc & Hs). fold ms in Hc, Hs.
  assert (Htv : try_value (class_of body) v = canon ms v) by (unfold class_of; apply try_value_canon).
  destruct (scalar_roundtrip body v Hv) as (_ & _ & _ & _ & Hp & _). cbv zeta in Hp.
  destruct (json_roundtrip body v) as (Hj & _). cbv zeta in Hj.
  split; [exact Hc|]. split; [rewrite Hg; exact Hc|]. split; [rewrite Hf; exact Hc|]. split; [rewrite Ha; exact Hc|].
  split; [exact Htv|]. split; [rewrite Hp; exact Htv|].
  split; [cbn [from_json_el]; rewrite Hf; exact Hc|]. split; [cbn [from_json_el]; rewrite Htv; reflexivity|].
  split; [rewrite Hj, Htv; reflexivity|].
  split.
  { destruct (iteration body) as (Hi & _). cbv zeta in Hi. rewrite Hi. apply in_map_iff. exists (n, v). split; [reflexivity|exact Hin]. }
  split; [apply in_table_iff; cbn [canon snd]; split; [exact (in_numbers ms n v Hin)|reflexivity]|].
  split; [reflexivity|]. split; [reflexivity|]. split; [exact Hs|].
  intros ->. unfold enum_default. exact Htv.
Qed.

(* ------------------------------------------------------------------ (2) what an unpickled member looks up to *)
Theorem pickle_recanon body v :
  let c := class_of body in let m := try_value c v in
  try_value c (snd (pickle_roundtrip m)) = m /\
  (in_table c m = true -> call c (snd (pickle_roundtrip m)) = Ok m) /\
  fst (pickle_roundtrip m) = fst m.
Proof.
  intros c m. subst c m. destruct (pickle_preserves (try_value (class_of body) v)) as (_ & Hn & Hs).
  rewrite Hs, (proj1 (try_value_number body v)). split; [reflexivity|]. split; [|exact Hn].
  intros Ht. apply (proj2 (open_iff body v)) in Ht. apply (proj2 (proj2 (proj2 (proj2 (open_iff body v))))). exact Ht.
Qed.

(* ------------------------------------------------------------------ (5) immutability, observationally *)
Theorem history_invisible cn c ops o : step cn (fst (run cn c ops)) o = step cn c o.
Proof. rewrite (proj1 (immutable_histories cn c ops)). reflexivity. Qed.

Theorem history_app cn c ops1 ops2 :
  fst (run cn c (ops1 ++ ops2)) = c /\
  snd (run cn c (ops1 ++ ops2)) = snd (run cn c ops1) ++ snd (run cn c ops2).
Proof.
  split; [apply immutable_histories|].
  rewrite (proj2 (immutable_histories cn c (ops1 ++ ops2))), (proj2 (immutable_histories cn c ops1)),
    (proj2 (immutable_histories cn c ops2)). apply map_app.
Qed.

(* on a class built from a body, AttributeError is raised by the mutators and by E.<undefined name> ONLY *)
Definition undefined_getattr (body : defn) (o : op) : bool :=
  match o with OGetattr n => negb (nmem n (mmap (class_of body))) | _ => false end.

Theorem attribute_error_iff cn body o :
  snd (step cn (class_of body) o) = CE EAttribute <-> is_mutator o = true \/ undefined_getattr body o = true.
Proof.
  split.
  - destruct o; cbn [step snd is_mutator undefined_getattr]; intros H; try (left; reflexivity); right; try discriminate H.
    + unfold call in H. destruct (zget v (vmap (class_of body))); discriminate H.
    + unfold getitem in H. destruct (nget n (mmap (class_of body))); discriminate H.
    + unfold getattr_cls in H. unfold nmem. destruct (nget n (mmap (class_of body))); [discriminate H|reflexivity].
    + unfold from_string in H. destruct (nget n (mmap (class_of body))); discriminate H.
  - intros [H|H].
    + apply step_mutator. exact H.
    + destruct o; cbn [undefined_getattr] in H; try discriminate H.
      cbn [step snd]. unfold getattr_cls. unfold nmem in H. destruct (nget n (mmap (class_of body))); [discriminate H|reflexivity].
Qed.
