(* C02: list plumbing shared by the simulation proofs — indexed maps over aligned lists
   (the shape of setattr's sibling reset, Spec/Wire.add_payload and abs_obj's field walk),
   set_nth, omap_all. *)
From BP Require Import Base.Prelude Model.Object Spec.Wire.
From Coq Require Import Lia.

Fixpoint imap2 {A B C} (h : nat -> A -> B -> C) (j : nat) (la : list A) (lb : list B) : list C :=
  match la, lb with
  | a :: la', b :: lb' => h j a b :: imap2 h (S j) la' lb'
  | _, _ => []
  end.

Lemma imap2_length {A B C} (h : nat -> A -> B -> C) la : forall j lb,
  length la = length lb -> length (imap2 h j la lb) = length la.
Proof.
  induction la as [|a la IH]; intros j [|b lb] L; cbn in *; try reflexivity; try discriminate.
  f_equal. apply IH. lia.
Qed.

Lemma imap2_nth {A B C} (h : nat -> A -> B -> C) la : forall j lb k a b,
  nth_error la k = Some a -> nth_error lb k = Some b ->
  nth_error (imap2 h j la lb) k = Some (h (j + k)%nat a b).
Proof.
  induction la as [|a0 la IH]; intros j lb k a b Ha Hb; [destruct k; discriminate|].
  destruct lb as [|b0 lb]; [destruct k; discriminate|].
  destruct k as [|k]; cbn in *.
  - injection Ha as <-. injection Hb as <-. now rewrite Nat.add_0_r.
  - rewrite (IH (S j) lb k a b Ha Hb). do 2 f_equal. lia.
Qed.

Lemma nth_error_Some_lt {A} (l : list A) k x : nth_error l k = Some x -> (k < length l)%nat.
Proof. intros H. apply nth_error_Some. congruence. Qed.

Lemma nth_error_ex {A} (l : list A) k : (k < length l)%nat -> exists x, nth_error l k = Some x.
Proof. intros H. destruct (nth_error l k) eqn:E; [eauto|]. apply nth_error_None in E. lia. Qed.

Lemma nth_of_nth_error {A} (l : list A) k x d : nth_error l k = Some x -> nth k l d = x.
Proof. intros H. now apply nth_error_nth. Qed.

(* ---- set_nth ---- *)
Lemma set_nth_length {A} i (x : A) l : length (set_nth i x l) = length l.
Proof. revert i; induction l as [|y l IH]; intros [|i]; cbn; auto. Qed.

Lemma set_nth_same {A} i (x : A) l : (i < length l)%nat -> nth_error (set_nth i x l) i = Some x.
Proof. revert i; induction l as [|y l IH]; intros [|i] H; cbn in *; try lia; auto; apply IH; lia. Qed.

Lemma set_nth_other {A} i k (x : A) l : k <> i -> nth_error (set_nth i x l) k = nth_error l k.
Proof.
  revert i k; induction l as [|y l IH]; intros [|i] [|k] H; cbn; auto; try congruence.
Qed.

(* ---- omap_all ---- *)
Lemma omap_all_app {A B} (f : A -> option B) l1 l2 r1 r2 :
  omap_all f l1 = Some r1 -> omap_all f l2 = Some r2 -> omap_all f (l1 ++ l2) = Some (r1 ++ r2).
Proof.
  revert r1; induction l1 as [|x l1 IH]; intros r1 H1 H2; cbn in *.
  - injection H1 as <-. exact H2.
  - unfold obind in *. destruct (f x); [|discriminate]. destruct (omap_all f l1) eqn:E; [|discriminate].
    injection H1 as <-. rewrite (IH l eq_refl H2). reflexivity.
Qed.

Lemma omap_all_one {A B} (f : A -> option B) x y : f x = Some y -> omap_all f [x] = Some [y].
Proof. intros H. cbn. unfold obind. now rewrite H. Qed.

Lemma omap_all_length {A B} (f : A -> option B) l r : omap_all f l = Some r -> length r = length l.
Proof.
  revert r; induction l as [|x l IH]; intros r H; cbn in *.
  - now injection H as <-.
  - unfold obind in H. destruct (f x); [|discriminate]. destruct (omap_all f l) eqn:E; [|discriminate].
    injection H as <-. cbn. f_equal. now apply IH.
Qed.

(* pointwise construction of an omap_all over aligned lists *)
Lemma omap_all_imap2 {A B C D} (F : A * C -> option D) (G : nat -> A -> B -> D) la : forall j lb lc,
  length la = length lb -> length la = length lc ->
  (forall k a b c, nth_error la k = Some a -> nth_error lb k = Some b -> nth_error lc k = Some c ->
                   F (a, c) = Some (G (j + k)%nat a b)) ->
  omap_all F (combine la lc) = Some (imap2 G j la lb).
Proof.
  induction la as [|a la IH]; intros j lb lc Lb Lc H.
  - reflexivity.
  - destruct lb as [|b lb]; [discriminate|]. destruct lc as [|c lc]; [discriminate|].
    cbn [combine omap_all imap2]. unfold obind.
    rewrite (H 0%nat a b c eq_refl eq_refl eq_refl), Nat.add_0_r.
    rewrite (IH (S j) lb lc); [reflexivity | cbn in Lb; lia | cbn in Lc; lia |].
    intros k a' b' c' Ha Hb Hc. rewrite (H (S k) a' b' c' Ha Hb Hc). do 2 f_equal. lia.
Qed.

Lemma forallb_nth_error {A} (p : A -> bool) l k x : forallb p l = true -> nth_error l k = Some x -> p x = true.
Proof. intros H E. rewrite forallb_forall in H. apply H. eapply nth_error_In; eauto. Qed.

Lemma last_snoc {A} (l : list A) x d : last (l ++ [x]) d = x.
Proof. induction l as [|y l IH]; [reflexivity|]. cbn [app]. destruct (l ++ [x]) eqn:E; [destruct l; discriminate|]. exact IH. Qed.
