(* C18, Message.parse under pydantic_dataclasses, layer 0: the direct-style step [c18_step] IS the body of the decoder
   loop (Model/C07Step.v c7_step), Message.load as the named loop for every value of [size], and small list facts. *)
From Coq Require Import ZArith List Bool Lia Arith.
From BP Require Import Base.Prelude Model.Types Model.Varint Model.Object Model.Eq Model.Decode Model.WellFormed.
From BP Require Import Model.C07Step Model.C18Beh Model.C18Parse.
From BP Require Import Proofs.C07InvP Proofs.C18BehBase Proofs.C18BehPrim.
Import ListNotations.

(* ---- the step in direct style ---- *)
Lemma c7_step_eq {A} fuel' sc cd o p (k : obj -> result A) :
  c7_step fuel' sc cd o p k = (do o1 <- c18_step fuel' sc cd o p; k o1).
Proof.
  unfold c7_step, c18_step, c18_store, c18_current, add_unk. destruct o as [c raw sow unk cur].
  destruct (field_by_number cd (pnum p)) as [[i f]|]; [|reflexivity].
  destruct (negb (wire_type_fits f (pwt p))); [reflexivity|].
  destruct (c7_value fuel' sc f p) as [value|]; cbn [bind]; [|reflexivity].
  destruct (getattr sc (Obj c raw sow unk cur) i) as [o1 [cv|e]].
  - destruct o1 as [c1 raw1 sow1 unk1 cur1]. destruct (ptype_eqb (fty f) TMap).
    + destruct value; try reflexivity. destruct cv; try reflexivity.
      destruct (getattr sc o 0) as [? [?|?]]; try reflexivity. destruct (getattr sc o 1) as [? [?|?]]; reflexivity.
    + destruct cv; reflexivity.
  - cbn zeta. destruct (setattr sc (Obj c raw sow unk cur) i (default_of sc f)) as [c1 raw1 sow1 unk1 cur1].
    destruct (ptype_eqb (fty f) TMap).
    + destruct value; try reflexivity. destruct (default_of sc f); try reflexivity.
      destruct (getattr sc o 0) as [? [?|?]]; try reflexivity. destruct (getattr sc o 1) as [? [?|?]]; reflexivity.
    + destruct (default_of sc f); reflexivity.
Qed.

(* ---- the loop in terms of the direct-style step ---- *)
Lemma c7_loop_S fuel' sc size cd n o s read :
  c7_loop fuel' sc size cd (S n) o s read =
  match s with
  | [] => match size with Some sz => if read <? sz then Err EValue else Ok (o, s) | None => Ok (o, s) end
  | _ =>
      do (num_wire, r, s1) <- load_varint s;
      do (p, s2) <- load_field fuel' s1 num_wire r;
      do read <- match size with
                 | Some sz => let read' := read + Zlength (praw p) in if sz <? read' then Err EValue else Ok read'
                 | None => Ok read
                 end;
      do o1 <- c18_step fuel' sc cd o p;
      if match size with Some sz => read =? sz | None => false end then Ok (o1, s2) else c7_loop fuel' sc size cd n o1 s2 read
  end.
Proof.
  cbn [c7_loop]. destruct s as [|b s]; [reflexivity|].
  destruct (load_varint (b :: s)) as [[[nw r] s1]|]; cbn [bind]; [|reflexivity].
  destruct (load_field fuel' s1 nw r) as [[p s2]|]; cbn [bind]; [|reflexivity].
  match goal with |- (do read <- ?R; _) = _ => destruct R as [read'|] end; cbn [bind]; [|reflexivity].
  apply c7_step_eq.
Qed.

(* ---- small facts ---- *)
Lemma set_nth_set_nth {A} (x y : A) : forall l i, set_nth i y (set_nth i x l) = set_nth i y l.
Proof. induction l as [|z l IH]; intros [|i]; cbn [set_nth]; auto. f_equal. auto. Qed.

Lemma reset_go_idem g i : forall fs j raw, reset_go g i j fs (reset_go g i j fs raw) = reset_go g i j fs raw.
Proof.
  induction fs as [|f fs IH]; intros j raw; [reflexivity|]. destruct raw as [|x raw]; [reflexivity|].
  cbn [reset_go]. fold (reset_go g i). rewrite IH. f_equal.
  destruct (opt_nat_eqb (fgroup f) (Some g) && negb (Nat.eqb j i)); reflexivity.
Qed.

Lemma reset_go_set_reset g i : forall fs j raw k x y, (j + k = i)%nat ->
  set_nth k y (reset_go g i j fs (set_nth k x (reset_go g i j fs raw))) = set_nth k y (reset_go g i j fs raw).
Proof.
  induction fs as [|f fs IH]; intros j raw k x y E.
  - assert (R : forall l, reset_go g i j [] l = l) by (intros []; reflexivity).
    rewrite !R. apply set_nth_set_nth.
  - destruct raw as [|x0 raw]; [destruct k; reflexivity|]. cbn [reset_go]. fold (reset_go g i).
    destruct k as [|k]; cbn [set_nth reset_go]; fold (reset_go g i).
    + f_equal. apply reset_go_idem.
    + f_equal; [destruct (opt_nat_eqb (fgroup f) (Some g) && negb (Nat.eqb j i)); reflexivity|].
      apply IH. lia.
Qed.

(* assigning twice to the same field: the first assignment is forgotten (flags, selection and sibling reset included) *)
Lemma setattr_twice sc o i d v : setattr sc (setattr sc o i d) i v = setattr sc o i v.
Proof.
  destruct o as [c raw sow unk cur]. rewrite (setattr_unfold sc c raw). cbn zeta.
  destruct (nth_error (cfields (get_class sc c)) i) as [f|] eqn:Hf; [|reflexivity].
  destruct (fgroup f) as [g|] eqn:Hg; rewrite !setattr_unfold; cbn zeta; rewrite Hf, Hg.
  - rewrite set_nth_set_nth. f_equal. apply reset_go_set_reset. reflexivity.
  - rewrite set_nth_set_nth. reflexivity.
Qed.

(* ---- list_rel ---- *)
Lemma list_rel_app {A B} (r : A -> B -> Prop) : forall la lb la' lb',
  list_rel r la lb -> list_rel r la' lb' -> list_rel r (la ++ la') (lb ++ lb').
Proof.
  induction la as [|x la IH]; intros [|y lb] la' lb' H H'; cbn [list_rel] in H; try contradiction; [exact H'|].
  destruct H as [Hx H]. cbn [app list_rel]. split; auto.
Qed.

Lemma list_rel_refl_scalar sc : forall l, forallb scalar_pv l = true -> list_rel (vrel sc) l l.
Proof.
  induction l as [|x l IH]; intros H; cbn [list_rel]; [exact I|]. cbn [forallb] in H. apply andb_true_iff in H as [Hx H].
  split; [|auto]. destruct x; try discriminate; reflexivity.
Qed.

Lemma vrel_refl_scalar sc v : scalar_pv v = true -> vrel sc v v.
Proof. destruct v; try discriminate; reflexivity. Qed.

Lemma pv_eq_scalar S S' a b : scalar_pv a = true -> pv_eq S a b = pv_eq S' a b.
Proof. destruct a; try discriminate; destruct b; reflexivity. Qed.

(* ---- pshape as a proposition ---- *)
Lemma pshape_iff sc o : pshape sc o = true <->
  length (oraw o) = length (cfields (get_class sc (ocls o))) /\ length (ocur o) = cngroups (get_class sc (ocls o)).
Proof. unfold pshape. rewrite andb_true_iff, !Nat.eqb_eq. tauto. Qed.

Lemma pshape_new sc c : pshape sc (new sc c) = true.
Proof. apply pshape_iff. unfold new. cbn [oraw ocur ocls]. rewrite map_length, repeat_length. auto. Qed.

Lemma ocls_getattr sc o i : ocls (fst (getattr sc o i)) = ocls o.
Proof.
  destruct o as [c raw sow unk cur]. unfold getattr. destruct (nth_error _ i) as [f|]; [|reflexivity].
  destruct (group_selects cur f i) as [[|]|]; try reflexivity; destruct (nth i raw PPlaceholder); reflexivity.
Qed.

Lemma pshape_getattr sc o i : pshape sc o = true -> pshape sc (fst (getattr sc o i)) = true.
Proof.
  destruct o as [c raw sow unk cur]. intros H.
  destruct (getattr_cases sc c raw sow unk cur i) as [(e & ->) | (f & v & raw' & -> & Hf & Hs & [->| ->])]; cbn [fst]; auto.
  apply pshape_iff in H. apply pshape_iff. cbn [oraw ocur ocls] in *. rewrite length_set_nth. exact H.
Qed.

Lemma pshape_setattr sc o i v : pshape sc o = true -> pshape sc (setattr sc o i v) = true.
Proof.
  destruct o as [c raw sow unk cur]. intros H. apply pshape_iff in H. cbn [oraw ocur ocls] in H. destruct H as [H1 H2].
  rewrite setattr_unfold. cbn zeta. destruct (nth_error _ i) as [f|]; [|apply pshape_iff; auto].
  destruct (fgroup f); apply pshape_iff; cbn [oraw ocur ocls]; rewrite ?length_set_nth, ?reset_go_length; auto.
Qed.
