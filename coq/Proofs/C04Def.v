(* C04: definitions the theorems are stated with.
   * decidable side conditions on the schema ([keys_ok]) and on the value ([json_supported]):
     each conjunct of [json_supported] is one class of values the repaired code still cannot carry
     through to_dict / from_dict (known_findings/C04.json), evaluated by harness/props/c04.py on
     every generated snapshot;
   * [norm_obj]: the object the round trip produces, as a function of the object alone
     (nested messages get _serialized_on_wire = True, fields to_dict leaves out fall back to the
     dataclass default, _group_current is what __post_init__ derives). *)
From BP Require Import Base.Prelude Model.Types Model.Float Model.Utf8 Model.Object Model.Eq Model.TimeCore.
From BP Require Import Model.Encode Model.WellFormed Model.Json.
From BP Require Model.Casing.
From BP Require Import gen.Tables.

(* ---- walking the nested value ---- *)
Fixpoint pv_all (P : obj -> bool) (v : pv) {struct v} : bool :=
  match v with
  | PMsg o => P o && (let 'Obj _ raw _ _ _ := o in forallb (pv_all P) raw)
  | PList l => forallb (pv_all P) l
  | PDict d => forallb (fun kx => pv_all P (snd kx)) d
  | _ => true
  end.
Definition obj_all (P : obj -> bool) (o : obj) : bool := pv_all P (PMsg o).

(* ---- schema: every key to_dict emits addresses its own field again (C19: holds whenever the keys of a
        class are pairwise distinct and, for SNAKE, the names are what the plugin generates) ---- *)
Definition class_keys_ok (cs : casing) (cd : cdesc) : bool :=
  let names := map fname (cfields cd) in
  (fix go (i : nat) (fs : list fdesc) : bool :=
     match fs with
     | [] => true
     | f :: r =>
         (match Casing.field_for_key names (key_of_field cs f) with
          | Some n => match find_field O (cfields cd) n with
                      | Some (j, _) => Nat.eqb j i
                      | None => false
                      end
          | None => false
          end) && go (S i) r
     end) O (cfields cd) &&
  (fix nodup (l : list (list byte)) : bool :=
     match l with
     | [] => true
     | k :: r => negb (existsb (bytes_eqb k) r) && nodup r
     end) (map (key_of_field cs) (cfields cd)).
Definition keys_ok (cs : casing) (sc : schema) : bool := forallb (class_keys_ok cs) (classes sc).

(* ---- value ---- *)
(* (1) unknown fields have no JSON form: to_dict drops them, the bytes differ       cls unknown-fields *)
Definition no_unknown (o : obj) : bool := obj_all (fun o' => match ounk o' with [] => true | _ => false end) o.

(* (2) K12: a plain nested message that was only ever reached through lazily created intermediates has
       _serialized_on_wire = False although it is not empty: bytes() emits it, to_dict does not
                                                                                    cls lazy-intermediate *)
Definition local_no_lazy (sc : schema) (o : obj) : bool :=
  let 'Obj c raw _ _ cur := o in
  (fix go (i : nat) (raw : list pv) (fs : list fdesc) {struct raw} : bool :=
     match raw, fs with
     | x :: raw', f :: fs' =>
         (match x, fhint f, group_selects cur f i with
          | PMsg o', HPlain _, None => osow o' || is_default sc f x
          | _, _, _ => true
          end) && go (S i) raw' fs'
     | _, _ => true
     end) O raw (cfields (get_class sc c)).
Definition no_lazy (sc : schema) (o : obj) : bool := obj_all (local_no_lazy sc) o.

(* (3) NaN: JSON has the one token "NaN" (payload and sign are lost: bytes differ)   cls nan-payload
       and Python's == on lists / dicts is not NaN-aware (K7)                        cls nan-in-container *)
Definition nan_canonical (v : pv) : bool :=
  match v with PFloat b => negb (f64_is_nan b) || (b =? nan_bits) | _ => true end.
Definition not_nan (v : pv) : bool := match v with PFloat b => negb (f64_is_nan b) | _ => true end.
Definition local_nan_ok (o : obj) : bool :=
  forallb (fun x => match x with
                    | PList l => forallb not_nan l
                    | PDict d => forallb (fun kx => not_nan (snd kx)) d
                    | _ => nan_canonical x
                    end) (oraw o).
Definition nan_ok (o : obj) : bool := obj_all local_nan_ok o.

Definition json_supported (sc : schema) (o : obj) : bool := no_unknown o && no_lazy sc o && nan_ok o.

(* ---- the oneof discipline, at every depth (DESIGN: part of "in-range": at most one raw member per group):
        a member holds a value iff it is the one its group selects ---- *)
Definition local_oneof_ok (sc : schema) (o : obj) : bool :=
  let 'Obj c raw _ _ cur := o in
  (fix go (i : nat) (raw : list pv) (fs : list fdesc) {struct raw} : bool :=
     match raw, fs with
     | x :: raw', f :: fs' =>
         (match group_selects cur f i with
          | Some sel => Bool.eqb sel (match x with PPlaceholder => false | _ => true end)
          | None => true
          end) && go (S i) raw' fs'
     | _, _ => true
     end) O raw (cfields (get_class sc c)).
Definition oneof_ok (sc : schema) (o : obj) : bool := obj_all (local_oneof_ok sc) o.

(* ---- a Python dict has pairwise distinct keys (an invariant of dict, not a restriction; the model's
        PDict is a plain association list, so the theorems have to say it) ---- *)
Fixpoint keys_distinct (sc : schema) (l : list pv) : bool :=
  match l with
  | [] => true
  | k :: r => negb (existsb (fun k' => pv_eq sc k k' || pv_eq sc k' k) r) && keys_distinct sc r
  end.
Definition local_dicts_ok (sc : schema) (o : obj) : bool :=
  forallb (fun x => match x with PDict d => keys_distinct sc (map fst d) | _ => true end) (oraw o).
Definition dicts_ok (sc : schema) (o : obj) : bool := obj_all (local_dicts_ok sc) o.

(* all hypotheses on the value *)
Definition good (sc : schema) (o : obj) : bool :=
  in_range sc o && oneof_ok sc o && dicts_ok sc o && json_supported sc o.

(* ---- the result of the round trip ---- *)
Definition sentinel (f : fdesc) : pv := if fopt f then PNone else PPlaceholder.

(* does to_dict(include_default_values=False) emit the field *)
Definition emitted (sc : schema) (f : fdesc) (sel : option bool) (v : pv) : bool :=
  match field_to_json (fun _ => JNull) sc false f sel v with Some _ => true | None => false end.

Fixpoint norm_pv (sc : schema) (v : pv) {struct v} : pv :=
  match v with
  | PMsg (Obj c raw sow unk cur) =>
      PMsg (set_sow (post_init sc c
        ((fix go (i : nat) (raw : list pv) (fs : list fdesc) {struct raw} : list pv :=
            match raw, fs with
            | x :: raw', f :: fs' =>
                (match group_selects cur f i with
                 | Some false => sentinel f
                 | sel =>
                     match x with
                     | PPlaceholder => sentinel f
                     | _ => if emitted sc f sel x then norm_pv sc x else sentinel f
                     end
                 end) :: go (S i) raw' fs'
            | _, fs' => map sentinel fs'
            end) O raw (cfields (get_class sc c)))))
  | PList l => PList (map (norm_pv sc) l)
  | PDict d => PDict (map (fun kx => (fst kx, norm_pv sc (snd kx))) d)
  | _ => v
  end.
Definition norm_obj (sc : schema) (o : obj) : obj :=
  match norm_pv sc (PMsg o) with PMsg o' => o' | _ => o end.
