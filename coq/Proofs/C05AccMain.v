(* C05, message level, ACCEPT direction, conclusion:
     betterproto's from_dict reads the canonical JSON json_spec produces for any well-formed abstract message back to
     that message (model_reads_canonical: read, emit again, parse with the specified reference parser).
   = reader (Proofs/C05AccRead.v)  +  the object it builds denotes a and is emittable (Proofs/C05AccObj.v)
     +  C05_emit (Proofs/C05MsgEmit.v).
   And the two classes of abstract messages excluded by wf_aval really fail. *)
From BP Require Import Base.Prelude Model.Types Model.Float Model.Utf8 Model.Object Model.WellFormed Model.TimeCore Spec.Time.
From BP Require Model.Json Spec.JsonMap.
From BP Require Import Proofs.C04Def Proofs.C05Casing Proofs.C05Leaf Proofs.C05Model Proofs.C05MsgDef Proofs.C05MsgEmit.
From BP Require Import Proofs.C05AccDef Proofs.C05AccRead Proofs.C05AccObj.

Theorem reads_canonical sc js off c a :
  wf_schema sc = true -> js_matches off sc js = true -> keys_ok J.CAMEL sc = true ->
  wf_aval sc js off (S.JMsg c) a = true ->
  model_reads_canonical sc js c (c + off) a = Some a.
Proof.
  intros WF JM KO W.
  destruct a as [| | | | | | | |afs]; try discriminate W.
  assert (Hc : (c < length (S.jclasses js))%nat).
  { cbn [wf_aval] in W. apply andb_prop in W as [W _]. apply andb_prop in W as [W _]. apply Nat.ltb_lt in W. exact W. }
  destruct (msg_read sc js off JM WF KO c afs W) as (j & Sj & Rd).
  destruct (conc_obj_ok sc js off JM WF c afs W) as (G & A & Ec).
  unfold model_reads_canonical. rewrite Sj, Rd.
  rewrite (emit_accepted sc js off JM WF c _ G Ec Hc). rewrite A. reflexivity.
Qed.

(* ---- PLAIN-ZERO-TIME: a Timestamp field that is neither optional nor in a oneof, present and equal to the epoch.
        The reference prints it; betterproto reads datetime(1970,1,1,tz=utc), which IS its "unset" value: to_dict
        (and bytes()) leave the field out again, so the member comes back absent. ---- *)
Definition pz_name : list byte := [x74; x73].
Definition pz_sc : schema :=
  mkS (builtin_classes ++ [mkC [mkF pz_name 1 TMessage None None None false (HPlain PyDatetime) 0] 0]) [].
Definition pz_js : S.jschema := S.mkJS [[S.mkJF pz_name pz_name S.JTimestamp S.Explicit None]] [].
Definition pz_aval : S.aval := S.AMsg [S.FOne (S.ATime 0 0)].
Definition pz_text : list byte :=    (* 1970-01-01T00:00:00Z *)
  [x31; x39; x37; x30; x2d; x30; x31; x2d; x30; x31; x54; x30; x30; x3a; x30; x30; x3a; x30; x30; x5a].

Theorem accept_plain_zero_time_refuted_thm :
  wf_schema pz_sc = true /\ js_matches (length builtin_classes) pz_sc pz_js = true /\ keys_ok J.CAMEL pz_sc = true /\
  wf_time 0 0 = true /\ wf_aval pz_sc pz_js (length builtin_classes) (S.JMsg 0) pz_aval = false /\
  S.json_spec pz_js 0 pz_aval = Some (S.JObj [(pz_name, S.JStr pz_text)]) /\
  model_reads_canonical pz_sc pz_js 0 (length builtin_classes) pz_aval = Some (S.AMsg [S.FAbsent]) /\
  S.AMsg [S.FAbsent] <> pz_aval.
Proof. repeat split; try (vm_compute; reflexivity). intros E. inversion E. Qed.

(* ---- K13 on the accept side: -0.0 in an implicit-presence double.  The reference prints -0.0, betterproto reads
        it, and drops the field when it emits again ---- *)
Theorem accept_neg_zero_refuted_thm :
  wf_schema nz_sc = true /\ js_matches (length builtin_classes) nz_sc nz_js = true /\ keys_ok J.CAMEL nz_sc = true /\
  wf_aval nz_sc nz_js (length builtin_classes) (S.JMsg 0) nz_aval = false /\
  model_reads_canonical nz_sc nz_js 0 (length builtin_classes) nz_aval = Some (S.AMsg [S.FOne (S.AFloat 0)]) /\
  S.AMsg [S.FOne (S.AFloat 0)] <> nz_aval.
Proof. repeat split; try (vm_compute; reflexivity). intros E. inversion E. Qed.
